import Model.C07
/-! Helper lemmas and proofs for C07 (statements of record are in `Props/C07.lean`). -/
namespace PfC07
open C07

variable {α : Type}

/-! ### the conditional write -/

/-- The write condition of each backend, as a proposition about the store and the held token. -/
def Enabled (st : Store α) (k : Key) (idx : Nat) : Prop :=
  match st.kind with
  | .consul => ∀ e, st.ent k = some e → e.tok = idx
  | .etcd => st.ver k = idx
  | .ml => st.ver k = idx

theorem condWrite_not_wrote {merge : Option α → α → Option α} {st st' : Store α} {k : Key} {idx : Nat}
    {out : α} {oc : Outcome} (h : condWrite merge st k idx out = (st', oc)) (hoc : oc ≠ .wrote) : st' = st := by
  unfold condWrite at h
  split at h
  · split at h
    · split at h
      · simp only [Prod.mk.injEq] at h; exact h.1.symm
      · simp only [Prod.mk.injEq] at h; exact absurd h.2.symm hoc
    · simp only [Prod.mk.injEq] at h; exact absurd h.2.symm hoc
  · split at h
    · simp only [Prod.mk.injEq] at h; exact h.1.symm
    · simp only [Prod.mk.injEq] at h; exact absurd h.2.symm hoc
  · split at h
    · simp only [Prod.mk.injEq] at h; exact h.1.symm
    · split at h
      · simp only [Prod.mk.injEq] at h; exact h.1.symm
      · simp only [Prod.mk.injEq] at h; exact absurd h.2.symm hoc

/-- A successful conditional write: the condition held, exactly one entry changed; its token is
`current+1` (consul) or `old version+1` (etcd, memberlist). -/
theorem condWrite_wrote {merge : Option α → α → Option α} {st st' : Store α} {k : Key} {idx : Nat}
    {out : α} (h : condWrite merge st k idx out = (st', .wrote)) :
    Enabled st k idx ∧ ∃ v t c', st' = ⟨st.kind, c', fun k' => if k' = k then some ⟨v, t⟩ else st.ent k'⟩ ∧
      (st.kind = .consul → t = st.cur + 1 ∧ c' = st.cur + 1) ∧
      (st.kind ≠ .consul → t = st.ver k + 1 ∧ c' = st.cur) ∧
      (st.kind ≠ .ml → v = out) ∧ (st.kind = .ml → merge (st.val k) out = some v) := by
  unfold condWrite at h
  split at h
  next hk =>
    split at h
    next e he =>
      split at h
      · simp at h
      next hcond =>
        simp only [Prod.mk.injEq, and_true] at h
        have hcond : e.tok = idx := by simpa using hcond
        refine ⟨?_, out, st.cur + 1, st.cur + 1, ?_, ?_, ?_, ?_, ?_⟩
        · simp only [Enabled, hk]; intro e' he'; rw [he] at he'; cases he'; exact hcond
        · rw [← h]; simp [Store.set, hk]
        · intro _; exact ⟨rfl, rfl⟩
        · intro hne; exact absurd hk hne
        · intro _; rfl
        · intro hml; rw [hk] at hml; cases hml
    next he =>
      simp only [Prod.mk.injEq, and_true] at h
      refine ⟨?_, out, st.cur + 1, st.cur + 1, ?_, ?_, ?_, ?_, ?_⟩
      · simp only [Enabled, hk]; intro e' he'; rw [he] at he'; cases he'
      · rw [← h]; simp [Store.set, hk]
      · intro _; exact ⟨rfl, rfl⟩
      · intro hne; exact absurd hk hne
      · intro _; rfl
      · intro hml; rw [hk] at hml; cases hml
  next hk =>
    split at h
    · simp at h
    next hcond =>
      simp only [Prod.mk.injEq, and_true] at h
      have hcond : st.ver k = idx := by simpa using hcond
      refine ⟨?_, out, st.ver k + 1, st.cur, ?_, ?_, ?_, ?_, ?_⟩
      · simp only [Enabled, hk]; exact hcond
      · rw [← h]; simp [Store.set, hk]
      · intro hc; rw [hk] at hc; cases hc
      · intro _; exact ⟨rfl, rfl⟩
      · intro _; rfl
      · intro hml; rw [hk] at hml; cases hml
  next hk =>
    split at h
    · simp at h
    next hcond =>
      split at h
      · simp at h
      next r hr =>
        simp only [Prod.mk.injEq, and_true] at h
        refine ⟨?_, r, st.ver k + 1, st.cur, ?_, ?_, ?_, ?_, ?_⟩
        · simp only [Enabled, hk]; simpa using hcond
        · rw [← h]; simp [Store.set, hk]
        · intro hc; rw [hk] at hc; cases hc
        · intro _; exact ⟨rfl, rfl⟩
        · intro hne; exact absurd hk hne
        · intro _; exact hr

theorem condWrite_outcome {merge : Option α → α → Option α} {st st' : Store α} {k : Key} {idx : Nat}
    {out : α} {oc : Outcome} (h : condWrite merge st k idx out = (st', oc)) :
    oc = .wrote ∨ oc = .conflict ∨ oc = .nochange := by
  unfold condWrite at h
  repeat' split at h
  all_goals (simp only [Prod.mk.injEq] at h; rw [← h.2]; simp)

/-! ### store and phase invariants -/

/-- tokens are positive; consul tokens never exceed `current`. -/
def StoreWF (st : Store α) : Prop :=
  ∀ k e, st.ent k = some e → 1 ≤ e.tok ∧ (st.kind = .consul → e.tok ≤ st.cur)

/-- What a caller that is about to read / about to write knows about its key. -/
def PhaseOK (st : Store α) : Phase α → Prop
  | .reading cl _ _ idx =>
    (st.ent cl.key = none → idx = 0) ∧ (∀ e, st.ent cl.key = some e → idx ≤ e.tok)
  | .holding cl _ _ idx inp =>
    (st.ent cl.key = none → inp = none ∧ idx = 0) ∧
    (∀ e, st.ent cl.key = some e → idx ≤ e.tok ∧ (e.tok = idx → inp = some e.val))
  | _ => True

theorem ver_of_some {st : Store α} {k : Key} {e : Entry α} (h : st.ent k = some e) : st.ver k = e.tok := by
  simp [Store.ver, h]

theorem ver_of_none {st : Store α} {k : Key} (h : st.ent k = none) : st.ver k = 0 := by
  simp [Store.ver, h]

theorem val_of_some {st : Store α} {k : Key} {e : Entry α} (h : st.ent k = some e) : st.val k = some e.val := by
  simp [Store.val, h]

theorem val_of_none {st : Store α} {k : Key} (h : st.ent k = none) : st.val k = none := by
  simp [Store.val, h]

/-- the token of a successful write is fresh for its key. -/
theorem write_fresh {st : Store α} {k : Key} {t c' : Nat} (hwf : StoreWF st)
    (hc : st.kind = .consul → t = st.cur + 1 ∧ c' = st.cur + 1)
    (hn : st.kind ≠ .consul → t = st.ver k + 1 ∧ c' = st.cur) : st.ver k < t ∧ 1 ≤ t ∧ st.cur ≤ c' := by
  by_cases hk : st.kind = .consul
  · obtain ⟨ht, hc'⟩ := hc hk
    cases he : st.ent k with
    | none => rw [ver_of_none he]; omega
    | some e => rw [ver_of_some he]; have := (hwf k e he).2 hk; omega
  · obtain ⟨ht, hc'⟩ := hn hk; omega

theorem wf_write {st : Store α} {k : Key} {v : α} {t c' : Nat} (hwf : StoreWF st)
    (hc : st.kind = .consul → t = st.cur + 1 ∧ c' = st.cur + 1)
    (hn : st.kind ≠ .consul → t = st.ver k + 1 ∧ c' = st.cur) :
    StoreWF ⟨st.kind, c', fun k' => if k' = k then some ⟨v, t⟩ else st.ent k'⟩ := by
  obtain ⟨_, h1, hcur⟩ := write_fresh hwf hc hn
  intro k' e he
  simp only at he
  split at he
  · cases he
    refine ⟨h1, ?_⟩
    intro hk; simp only at hk
    have := hc hk; simp only; omega
  · obtain ⟨a, b⟩ := hwf k' e he
    refine ⟨a, ?_⟩
    intro hk; simp only at hk ⊢
    have := b hk; omega

theorem phaseOK_write {st : Store α} {k : Key} {v : α} {t c' : Nat} {p : Phase α}
    (hfresh : st.ver k < t) (hp : PhaseOK st p) :
    PhaseOK ⟨st.kind, c', fun k' => if k' = k then some ⟨v, t⟩ else st.ent k'⟩ p := by
  cases p with
  | idle => trivial
  | mreading => trivial
  | mholding => trivial
  | reading cl cid att idx =>
    obtain ⟨h1, h2⟩ := hp
    simp only [PhaseOK]
    by_cases hk : cl.key = k
    · simp only [hk, if_true]
      refine ⟨fun h => (by simp at h), ?_⟩
      intro e he; cases he; simp only
      cases hent : st.ent k with
      | none => have := h1 (hk ▸ hent); omega
      | some e0 => have := h2 e0 (hk ▸ hent); rw [ver_of_some hent] at hfresh; omega
    · simp only [hk, if_false]; exact ⟨h1, h2⟩
  | holding cl cid att idx inp =>
    obtain ⟨h1, h2⟩ := hp
    simp only [PhaseOK]
    by_cases hk : cl.key = k
    · simp only [hk, if_true]
      refine ⟨fun h => (by simp at h), ?_⟩
      intro e he; cases he; simp only
      cases hent : st.ent k with
      | none => have := (h1 (hk ▸ hent)).2; exact ⟨by omega, fun h => by omega⟩
      | some e0 =>
        have := (h2 e0 (hk ▸ hent)).1; rw [ver_of_some hent] at hfresh
        exact ⟨by omega, fun h => by omega⟩
    · simp only [hk, if_false]; exact ⟨h1, h2⟩

/-- If the conditional write of a holder succeeds, the value it applied `f` to is the stored value. -/
theorem input_current {st : Store α} {cl : Call α} {cid att idx : Nat} {inp : Option α}
    (hwf : StoreWF st) (hp : PhaseOK st (.holding cl cid att idx inp)) (hen : Enabled st cl.key idx)
    : inp = st.val cl.key := by
  obtain ⟨h1, h2⟩ := hp
  cases hent : st.ent cl.key with
  | none => rw [val_of_none hent]; exact (h1 hent).1
  | some e =>
    rw [val_of_some hent]
    have htok := (hwf _ e hent).1
    apply (h2 e hent).2
    unfold Enabled at hen
    split at hen
    · exact hen e hent
    · rw [ver_of_some hent] at hen; exact hen
    · rw [ver_of_some hent] at hen; exact hen

/-! ### the steps -/

theorem setPh_ph_self (s : Sys α) (c : Nat) (p : Phase α) : (s.setPh c p).ph c = p := by
  simp [Sys.setPh]

theorem setPh_ph_other (s : Sys α) (c c' : Nat) (p : Phase α) (h : c' ≠ c) : (s.setPh c p).ph c' = s.ph c' := by
  simp [Sys.setPh, h]

theorem retryPhase_cases (cfg : Cfg α) (kind : Backend) (cl : Call α) (cid att idx : Nat) :
    (retryPhase cfg kind cl cid att idx = (.idle, some false)) ∨
    (∃ idx', retryPhase cfg kind cl cid att idx = (.reading cl cid (att + 1) idx', none) ∧ (idx' = idx ∨ idx' = 0)) := by
  unfold retryPhase
  split
  · right
    cases kind
    · exact ⟨idx, rfl, Or.inl rfl⟩
    · exact ⟨idx, rfl, Or.inl rfl⟩
    · exact ⟨0, rfl, Or.inr rfl⟩
  · left; rfl

/-- What one apply + conditional-write step does. -/
theorem commit_spec (cfg : Cfg α) (s : Sys α) (c : Nat) (cl : Call α) (cid att idx : Nat) (inp : Option α) :
    (commit cfg s c cl cid att idx inp).sec = s.sec ∧
    (commit cfg s c cl cid att idx inp).nextCid = s.nextCid ∧
    (∀ c', c' ≠ c → (commit cfg s c cl cid att idx inp).ph c' = s.ph c') ∧
    ∃ r, (commit cfg s c cl cid att idx inp).log = r :: s.log ∧
      r.caller = c ∧ r.cid = cid ∧ r.key = cl.key ∧ r.idx = idx ∧ r.inp = inp ∧ r.before = s.pri.val cl.key ∧
      ((r.outcome = .wrote ∧
          (∃ out retry, cl.f att inp = .write out retry ∧ r.out = some out ∧
            condWrite cfg.merge s.pri cl.key idx out = ((commit cfg s c cl cid att idx inp).pri, .wrote)) ∧
          r.after = (commit cfg s c cl cid att idx inp).pri.val cl.key ∧ r.done = some true ∧
          ((commit cfg s c cl cid att idx inp).ph c = .idle ∨
            ∃ v, (commit cfg s c cl cid att idx inp).ph c = .mreading cl.key v 0 0)) ∨
       (r.outcome ≠ .wrote ∧ (commit cfg s c cl cid att idx inp).pri = s.pri ∧ r.after = r.before ∧
          (r.outcome = .declined → r.done = some true) ∧
          (((commit cfg s c cl cid att idx inp).ph c = .idle ∧ r.done ≠ none) ∨
            (∃ idx', (commit cfg s c cl cid att idx inp).ph c = .reading cl cid (att + 1) idx' ∧
              (idx' = idx ∨ idx' = 0) ∧ r.done = none)))) := by
  unfold commit
  split
  next retry hf =>
    -- f failed
    cases retry with
    | false =>
      simp only [Bool.false_eq_true, if_false]
      refine ⟨rfl, rfl, fun c' h => setPh_ph_other _ _ _ _ h, _, rfl, rfl, rfl, rfl, rfl, rfl, rfl, Or.inr ?_⟩
      refine ⟨by simp, rfl, rfl, by simp, Or.inl ⟨setPh_ph_self _ _ _, by simp⟩⟩
    | true =>
      simp only [if_true]
      rcases retryPhase_cases cfg s.pri.kind cl cid att idx with h | ⟨idx', h, hi⟩
      · rw [h]
        refine ⟨rfl, rfl, fun c' h => setPh_ph_other _ _ _ _ h, _, rfl, rfl, rfl, rfl, rfl, rfl, rfl, Or.inr ?_⟩
        refine ⟨by simp, rfl, rfl, by simp, Or.inl ⟨setPh_ph_self _ _ _, by simp⟩⟩
      · rw [h]
        refine ⟨rfl, rfl, fun c' h => setPh_ph_other _ _ _ _ h, _, rfl, rfl, rfl, rfl, rfl, rfl, rfl, Or.inr ?_⟩
        refine ⟨by simp, rfl, rfl, by simp, Or.inr ⟨idx', setPh_ph_self _ _ _, hi, rfl⟩⟩
  next hf =>
    -- f declined
    refine ⟨rfl, rfl, fun c' h => setPh_ph_other _ _ _ _ h, _, rfl, rfl, rfl, rfl, rfl, rfl, rfl, Or.inr ?_⟩
    refine ⟨by simp, rfl, rfl, by simp, Or.inl ⟨setPh_ph_self _ _ _, by simp⟩⟩
  next out retry hf =>
    split
    next st hcw =>
      refine ⟨rfl, rfl, fun c' h => setPh_ph_other _ _ _ _ h, _, rfl, rfl, rfl, rfl, rfl, rfl, rfl, Or.inl ?_⟩
      refine ⟨rfl, ⟨out, retry, hf, rfl, hcw⟩, rfl, rfl, ?_⟩
      simp only [mirrorPhase]
      split
      · right; exact ⟨out, setPh_ph_self _ _ _⟩
      · left; exact setPh_ph_self _ _ _
    next st oc hne hcw =>
      have hoc : oc ≠ .wrote := by
        intro h; subst h; exact hne rfl
      have hst := condWrite_not_wrote hcw hoc
      cases hr : retryable s.pri.kind retry with
      | false =>
        simp only [Bool.false_eq_true, if_false]
        refine ⟨rfl, rfl, fun c' h => setPh_ph_other _ _ _ _ h, _, rfl, rfl, rfl, rfl, rfl, rfl, rfl, Or.inr ?_⟩
        refine ⟨hoc, rfl, rfl, ?_, Or.inl ⟨setPh_ph_self _ _ _, by simp⟩⟩
        intro hd; simp only at hd; rcases condWrite_outcome hcw with h | h | h <;> rw [h] at hd <;> cases hd
      | true =>
        simp only [if_true]
        rcases retryPhase_cases cfg s.pri.kind cl cid att idx with h | ⟨idx', h, hi⟩
        · rw [h]
          refine ⟨rfl, rfl, fun c' h => setPh_ph_other _ _ _ _ h, _, rfl, rfl, rfl, rfl, rfl, rfl, rfl, Or.inr ?_⟩
          refine ⟨hoc, rfl, rfl, ?_, Or.inl ⟨setPh_ph_self _ _ _, by simp⟩⟩
          intro hd; simp only at hd; rcases condWrite_outcome hcw with h | h | h <;> rw [h] at hd <;> cases hd
        · rw [h]
          refine ⟨rfl, rfl, fun c' h => setPh_ph_other _ _ _ _ h, _, rfl, rfl, rfl, rfl, rfl, rfl, rfl, Or.inr ?_⟩
          refine ⟨hoc, rfl, rfl, ?_, Or.inr ⟨idx', setPh_ph_self _ _ _, hi, rfl⟩⟩
          intro hd; simp only at hd; rcases condWrite_outcome hcw with h | h | h <;> rw [h] at hd <;> cases hd

theorem mcommit_spec (cfg : Cfg α) (s : Sys α) (c : Nat) (k : Key) (v : α) (att idx : Nat) :
    (mcommit cfg s c k v att idx).pri = s.pri ∧ (mcommit cfg s c k v att idx).log = s.log ∧
    (mcommit cfg s c k v att idx).nextCid = s.nextCid ∧
    (∀ c', c' ≠ c → (mcommit cfg s c k v att idx).ph c' = s.ph c') ∧
    ((mcommit cfg s c k v att idx).ph c = .idle ∨
      ∃ att' idx', (mcommit cfg s c k v att idx).ph c = .mreading k v att' idx') := by
  unfold mcommit
  split
  · exact ⟨rfl, rfl, rfl, fun c' h => setPh_ph_other _ _ _ _ h, Or.inl (setPh_ph_self _ _ _)⟩
  · split
    · exact ⟨rfl, rfl, rfl, fun c' h => setPh_ph_other _ _ _ _ h, Or.inr ⟨_, _, setPh_ph_self _ _ _⟩⟩
    · exact ⟨rfl, rfl, rfl, fun c' h => setPh_ph_other _ _ _ _ h, Or.inl (setPh_ph_self _ _ _)⟩

/-! ### the chain of successful writes -/

/-- records of successful conditional writes on key `k`, newest first. -/
def writesOn (k : Key) (log : List (Rec α)) : List (Rec α) :=
  log.filter (fun r => decide (r.key = k) && decide (r.outcome = .wrote))

/-- newest-first chain: the stored value is what the newest write left, and the newest write was
applied to what the chain before it left. -/
def ChainR (init : Option α) : List (Rec α) → Option α → Prop
  | [], fin => fin = init
  | r :: older, fin => fin = r.after ∧ ChainR init older r.inp

structure Inv (init : Key → Option α) (kind : Backend) (s : Sys α) : Prop where
  kind_eq : s.pri.kind = kind
  wf : StoreWF s.pri
  phases : ∀ c, PhaseOK s.pri (s.ph c)
  chain : ∀ k, ChainR (init k) (writesOn k s.log) (s.pri.val k)
  /-- every successful write was applied to the value that was stored at the moment of the write -/
  current : ∀ r ∈ s.log, r.outcome = .wrote → r.inp = r.before

theorem inv_same {init : Key → Option α} {kind : Backend} {s s' : Sys α} (h : Inv init kind s)
    (hpri : s'.pri = s.pri) (hlog : s'.log = s.log) (hph : ∀ c, PhaseOK s.pri (s'.ph c)) : Inv init kind s' := by
  refine ⟨by rw [hpri]; exact h.kind_eq, by rw [hpri]; exact h.wf, by rw [hpri]; exact hph, ?_, ?_⟩
  · rw [hpri, hlog]; exact h.chain
  · rw [hlog]; exact h.current

theorem writesOn_cons_other {k : Key} {r : Rec α} {log : List (Rec α)}
    (h : ¬ (r.key = k ∧ r.outcome = .wrote)) : writesOn k (r :: log) = writesOn k log := by
  unfold writesOn
  rw [List.filter_cons_of_neg]
  simpa using h

theorem writesOn_cons_self {k : Key} {r : Rec α} {log : List (Rec α)}
    (h : r.key = k ∧ r.outcome = .wrote) : writesOn k (r :: log) = r :: writesOn k log := by
  unfold writesOn
  rw [List.filter_cons_of_pos]
  simpa using h

theorem inv_next {init : Key → Option α} {kind : Backend} (cfg : Cfg α) {s : Sys α} (h : Inv init kind s)
    (ev : Ev α) : Inv init kind (next cfg s ev) := by
  cases ev with
  | begin c cl =>
    simp only [next]
    split
    · refine inv_same h rfl rfl ?_
      intro c'
      by_cases hc : c' = c
      · subst hc; simp only [Sys.setPh, if_true]
        exact ⟨fun _ => rfl, fun e _ => Nat.zero_le _⟩
      · simp only [Sys.setPh, hc, if_false]; exact h.phases c'
    · exact h
  | step c =>
    simp only [next]
    split
    · exact h
    next cl cid att idx hph =>
      -- the read
      refine inv_same h rfl rfl ?_
      intro c'
      by_cases hc : c' = c
      · subst hc; simp only [Sys.setPh, if_true]
        have hp := h.phases c'; rw [hph] at hp
        obtain ⟨h1, h2⟩ := hp
        refine ⟨?_, ?_⟩
        · intro hn
          refine ⟨val_of_none hn, ?_⟩
          unfold readIdx; rw [hn]; simp only
          split
          · rfl
          · exact h1 hn
        · intro e he
          unfold readIdx; rw [he]; simp only
          exact ⟨Nat.le_refl _, fun _ => val_of_some he⟩
      · simp only [Sys.setPh, hc, if_false]; exact h.phases c'
    next cl cid att idx inp hph =>
      -- apply f + conditional write
      obtain ⟨_, _, hoth, r, hlog, _, _, hkey, hidx, hinp, hbefore, hcase⟩ := commit_spec cfg s c cl cid att idx inp
      have hp := h.phases c; rw [hph] at hp
      rcases hcase with ⟨hoc, ⟨out, retry, _, _, hcw⟩, hafter, _, hphc⟩ | ⟨hoc, hpri, _, _, hphc⟩
      · -- wrote
        obtain ⟨hen, v, t, c', hst, hcons, hncons, _, _⟩ := condWrite_wrote hcw
        obtain ⟨hfresh, _, _⟩ := write_fresh h.wf hcons hncons
        have hcur : inp = s.pri.val cl.key := input_current h.wf hp hen
        refine ⟨by rw [hst]; exact h.kind_eq, by rw [hst]; exact wf_write h.wf hcons hncons, ?_, ?_, ?_⟩
        · intro c'
          rw [hst]
          by_cases hc : c' = c
          · subst hc
            rcases hphc with hi | ⟨v', hi⟩ <;> rw [hi] <;> trivial
          · rw [hoth c' hc]; exact phaseOK_write hfresh (h.phases c')
        · intro k
          rw [hlog]
          have hchain := h.chain
          by_cases hk : cl.key = k
          · rw [writesOn_cons_self ⟨hkey.trans hk, hoc⟩]
            refine ⟨by rw [hafter, hk], ?_⟩
            rw [hinp, hcur, hk]; exact hchain k
          · rw [writesOn_cons_other (fun hh => hk (hkey.symm.trans hh.1))]
            have : (commit cfg s c cl cid att idx inp).pri.val k = s.pri.val k := by
              rw [hst]; simp [Store.val, Ne.symm hk]
            rw [this]; exact hchain k
        · intro r' hr'
          rw [hlog] at hr'
          rcases List.mem_cons.1 hr' with rfl | hr'
          · intro _; rw [hinp, hbefore]; exact hcur
          · exact h.current r' hr'
      · -- nothing written
        refine ⟨by rw [hpri]; exact h.kind_eq, by rw [hpri]; exact h.wf, ?_, ?_, ?_⟩
        · intro c'
          rw [hpri]
          by_cases hc : c' = c
          · subst hc
            rcases hphc with ⟨hi, _⟩ | ⟨idx', hi, hidx', _⟩
            · rw [hi]; trivial
            · rw [hi]
              obtain ⟨h1, h2⟩ := hp
              refine ⟨fun hn => ?_, fun e he => ?_⟩
              · rcases hidx' with rfl | rfl
                · exact (h1 hn).2
                · rfl
              · rcases hidx' with rfl | rfl
                · exact (h2 e he).1
                · exact Nat.zero_le _
          · rw [hoth c' hc]; exact h.phases c'
        · intro k
          rw [hlog]
          rw [writesOn_cons_other (fun hh => hoc hh.2), hpri]
          exact h.chain k
        · intro r' hr'
          rw [hlog] at hr'
          rcases List.mem_cons.1 hr' with rfl | hr'
          · intro hw; exact absurd hw hoc
          · exact h.current r' hr'
    next k v att idx hph =>
      refine inv_same h rfl rfl ?_
      intro c'
      by_cases hc : c' = c
      · subst hc; simp only [Sys.setPh, if_true]; trivial
      · simp only [Sys.setPh, hc, if_false]; exact h.phases c'
    next k v att idx inp hph =>
      obtain ⟨hpri, hlog, _, hoth, hphc⟩ := mcommit_spec cfg s c k v att idx
      refine inv_same h hpri hlog ?_
      intro c'
      by_cases hc : c' = c
      · subst hc
        rcases hphc with hi | ⟨a, i, hi⟩ <;> rw [hi] <;> trivial
      · rw [hoth c' hc]; exact h.phases c'

theorem inv_run {init : Key → Option α} {kind : Backend} (cfg : Cfg α) (evs : List (Ev α)) :
    ∀ {s : Sys α}, Inv init kind s → Inv init kind (run cfg s evs) := by
  induction evs with
  | nil => intro s h; exact h
  | cons ev evs ih => intro s h; exact ih (inv_next cfg h ev)

/-- a quiescent system (nobody is inside a CAS call, empty log) over a well-formed store. -/
structure Quiescent (s : Sys α) : Prop where
  wf : StoreWF s.pri
  idle : ∀ c, s.ph c = .idle
  log : s.log = []

theorem inv_init {s0 : Sys α} (h : Quiescent s0) : Inv (fun k => s0.pri.val k) s0.pri.kind s0 := by
  refine ⟨rfl, h.wf, ?_, ?_, ?_⟩
  · intro c; rw [h.idle c]; trivial
  · intro k; rw [h.log]; exact rfl
  · intro r hr; rw [h.log] at hr; cases hr

theorem wf_empty (kind : Backend) : StoreWF (Store.empty kind : Store α) := by
  intro k e he; simp [Store.empty] at he

theorem quiescent_init (pri sec : Store α) (h : StoreWF pri) : Quiescent (Sys.init pri sec) :=
  ⟨h, fun _ => rfl, rfl⟩

/-- The chain property (newest-first form) for every backend. -/
theorem chain_newest_first (cfg : Cfg α) (s0 : Sys α) (h0 : Quiescent s0) (evs : List (Ev α)) (k : Key) :
    ChainR (s0.pri.val k) (writesOn k (run cfg s0 evs).log) ((run cfg s0 evs).pri.val k) :=
  (inv_run cfg evs (inv_init h0)).chain k

/-- No lost update, stated per write: every successful write was applied to exactly the value that was
stored at the moment it was written. -/
theorem wrote_input_current (cfg : Cfg α) (s0 : Sys α) (h0 : Quiescent s0) (evs : List (Ev α))
    (r : Rec α) (hr : r ∈ (run cfg s0 evs).log) (hw : r.outcome = .wrote) : r.inp = r.before :=
  (inv_run cfg evs (inv_init h0)).current r hr hw

/-! ### chronological presentation of the chain -/

/-- oldest-first chain over (input, value left) pairs: every successful call was applied to the value
left by the previous one (the first to the initial value) and the final value is what the last left. -/
def Chain (init : Option α) : List (Option α × Option α) → Option α → Prop
  | [], fin => fin = init
  | (i, a) :: rest, fin => i = init ∧ Chain a rest fin

theorem chain_snoc (init : Option α) (l : List (Option α × Option α)) (i a fin : Option α) :
    Chain init (l ++ [(i, a)]) fin ↔ (fin = a ∧ Chain init l i) := by
  induction l generalizing init with
  | nil => simp only [List.nil_append, Chain]; constructor <;> (intro ⟨x, y⟩; exact ⟨y, x⟩)
  | cons p l ih =>
    obtain ⟨i', a'⟩ := p
    simp only [List.cons_append, Chain, ih]
    constructor
    · intro ⟨x, y, z⟩; exact ⟨y, x, z⟩
    · intro ⟨y, x, z⟩; exact ⟨x, y, z⟩

theorem chain_of_chainR (init : Option α) (l : List (Rec α)) (fin : Option α) (h : ChainR init l fin) :
    Chain init (l.reverse.map (fun r => (r.inp, r.after))) fin := by
  induction l generalizing fin with
  | nil => exact h
  | cons r l ih =>
    obtain ⟨h1, h2⟩ := h
    simp only [List.reverse_cons, List.map_append, List.map_cons, List.map_nil]
    exact (chain_snoc _ _ _ _ _).2 ⟨h1, ih _ h2⟩

/-- successful writes on `k` in chronological order as (input of `f`, value left). -/
def successful (k : Key) (log : List (Rec α)) : List (Option α × Option α) :=
  ((log.reverse).filter (fun r => decide (r.key = k) && decide (r.outcome = .wrote))).map (fun r => (r.inp, r.after))

theorem successful_eq (k : Key) (log : List (Rec α)) :
    successful k log = (writesOn k log).reverse.map (fun r => (r.inp, r.after)) := by
  unfold successful writesOn
  rw [List.filter_reverse]

theorem chain_chrono (cfg : Cfg α) (s0 : Sys α) (h0 : Quiescent s0) (evs : List (Ev α)) (k : Key) :
    Chain (s0.pri.val k) (successful k (run cfg s0 evs).log) ((run cfg s0 evs).pri.val k) := by
  rw [successful_eq]
  exact chain_of_chainR _ _ _ (chain_newest_first cfg s0 h0 evs k)

/-! ### per-record facts: what a record says about the step that produced it -/

structure RecFacts (kind : Backend) (merge : Option α → α → Option α) (r : Rec α) : Prop where
  /-- a successful write ends the CAS loop with nil; what it leaves is `f`'s output (consul, etcd)
  or the merge of `f`'s output into the value found (memberlist) -/
  wrote : r.outcome = .wrote → r.done = some true ∧ ∃ out, r.out = some out ∧
    (kind ≠ .ml → r.after = some out) ∧ (kind = .ml → r.after = merge r.before out ∧ r.after ≠ none)
  /-- any other attempt leaves the stored value as it found it -/
  other : r.outcome ≠ .wrote → r.after = r.before
  /-- a declined call returns nil -/
  declined : r.outcome = .declined → r.done = some true

theorem RecFacts.error_not_wrote {kind : Backend} {merge : Option α → α → Option α} {r : Rec α}
    (h : RecFacts kind merge r) (hd : r.done = some false) : r.outcome ≠ .wrote := by
  intro hw; have := (h.wrote hw).1; rw [hd] at this; cases this

/-- every step either leaves log and primary store alone, or appends exactly one record; the value of
a key changes only in a step that logs a successful write on that key. -/
theorem next_frame (cfg : Cfg α) (s : Sys α) (ev : Ev α) :
    ((next cfg s ev).log = s.log ∧ (next cfg s ev).pri = s.pri) ∨
    ∃ r, (next cfg s ev).log = r :: s.log ∧ RecFacts s.pri.kind cfg.merge r ∧
      r.before = s.pri.val r.key ∧ r.after = (next cfg s ev).pri.val r.key ∧
      (∀ k, k ≠ r.key → (next cfg s ev).pri.val k = s.pri.val k) ∧
      (r.outcome ≠ .wrote → (next cfg s ev).pri = s.pri) := by
  cases ev with
  | begin c cl =>
    left; simp only [next]; split <;> exact ⟨rfl, rfl⟩
  | step c =>
    simp only [next]
    split
    · left; exact ⟨rfl, rfl⟩
    · left; exact ⟨rfl, rfl⟩
    next cl cid att idx inp hph =>
      right
      obtain ⟨_, _, _, r, hlog, _, _, hkey, _, _, hbefore, hcase⟩ := commit_spec cfg s c cl cid att idx inp
      refine ⟨r, hlog, ?_⟩
      rcases hcase with ⟨hoc, ⟨out, retry, _, hout, hcw⟩, hafter, hdone, _⟩ | ⟨hoc, hpri, hab, hdecl, _⟩
      · obtain ⟨_, v, t, c', hst, _, _, hv, hm⟩ := condWrite_wrote hcw
        have hval : (commit cfg s c cl cid att idx inp).pri.val cl.key = some v := by
          rw [hst]; simp [Store.val]
        refine ⟨⟨fun _ => ⟨hdone, out, hout, ?_, ?_⟩, fun h => absurd hoc h, fun h => by rw [hoc] at h; cases h⟩,
          by rw [hbefore, hkey], by rw [hafter, hkey], ?_, fun h => absurd hoc h⟩
        · intro hk; rw [hafter, hval, hv hk]
        · intro hk; rw [hafter, hval, hbefore, hm hk]; exact ⟨rfl, by simp⟩
        · intro k hk; rw [hst]; simp [Store.val, hkey ▸ hk]
      · refine ⟨⟨fun h => absurd h hoc, fun _ => hab, hdecl⟩, by rw [hbefore, hkey], by rw [hab, hbefore, hpri, hkey],
          fun k _ => by rw [hpri], fun _ => hpri⟩
    · left; exact ⟨rfl, rfl⟩
    next k v att idx inp hph =>
      left
      obtain ⟨hpri, hlog, _⟩ := mcommit_spec cfg s c k v att idx
      exact ⟨hlog, hpri⟩

theorem next_kind (cfg : Cfg α) (s : Sys α) (ev : Ev α) : (next cfg s ev).pri.kind = s.pri.kind := by
  rcases next_frame cfg s ev with ⟨_, h⟩ | ⟨r, _, _, _, _, _, hnw⟩
  · rw [h]
  · by_cases hw : r.outcome = .wrote
    · -- a write keeps the kind
      cases ev with
      | begin c cl => simp only [next]; split <;> rfl
      | step c =>
        simp only [next]
        split
        · rfl
        · rfl
        next cl cid att idx inp hph =>
          obtain ⟨_, _, _, r', _, _, _, _, _, _, _, hcase⟩ := commit_spec cfg s c cl cid att idx inp
          rcases hcase with ⟨_, ⟨out, retry, _, _, hcw⟩, _⟩ | ⟨_, hpri, _⟩
          · obtain ⟨_, v, t, c', hst, _⟩ := condWrite_wrote hcw
            rw [hst]
          · rw [hpri]
        · rfl
        next k v att idx inp hph => rw [(mcommit_spec cfg s c k v att idx).1]
    · rw [hnw hw]

theorem run_kind (cfg : Cfg α) (evs : List (Ev α)) : ∀ s : Sys α, (run cfg s evs).pri.kind = s.pri.kind := by
  induction evs with
  | nil => intro s; rfl
  | cons ev evs ih => intro s; exact (ih _).trans (next_kind cfg s ev)

/-- every record of a run carries the per-record facts. -/
theorem run_recfacts (cfg : Cfg α) (evs : List (Ev α)) :
    ∀ s : Sys α, (∀ r ∈ s.log, RecFacts s.pri.kind cfg.merge r) →
      ∀ r ∈ (run cfg s evs).log, RecFacts s.pri.kind cfg.merge r := by
  induction evs with
  | nil => intro s h; exact h
  | cons ev evs ih =>
    intro s h
    have hk := next_kind cfg s ev
    have := ih (next cfg s ev) (by
      rw [hk]
      rcases next_frame cfg s ev with ⟨hl, _⟩ | ⟨r, hl, hf, _⟩
      · rw [hl]; exact h
      · rw [hl]; intro r' hr'
        rcases List.mem_cons.1 hr' with rfl | hr'
        · exact hf
        · exact h r' hr')
    rw [hk] at this; exact this

/-! ### calls: a call that reports failure, or declines, never wrote -/

/-- the identifier of the CAS call a caller is executing (primary loop). -/
def inflight : Phase α → Option Nat
  | .reading _ cid _ _ => some cid
  | .holding _ cid _ _ _ => some cid
  | _ => none

structure CidInv (s : Sys α) : Prop where
  logLt : ∀ r ∈ s.log, r.cid < s.nextCid
  phLt : ∀ c cid, inflight (s.ph c) = some cid → cid < s.nextCid
  uniq : ∀ c c' cid, inflight (s.ph c) = some cid → inflight (s.ph c') = some cid → c = c'
  /-- the earlier attempts of a call that is still running wrote nothing and did not end the call -/
  openClean : ∀ c cid, inflight (s.ph c) = some cid → ∀ r ∈ s.log, r.cid = cid → r.outcome ≠ .wrote ∧ r.done = none
  doneOf : ∀ r ∈ s.log, (r.outcome = .wrote → r.done = some true) ∧ (r.outcome = .declined → r.done = some true)
  /-- a call that returned an error, or whose function declined, has no successful write -/
  target : ∀ r ∈ s.log, (r.done = some false ∨ r.outcome = .declined) →
    ∀ r' ∈ s.log, r'.cid = r.cid → r'.outcome ≠ .wrote

theorem cid_same {s s' : Sys α} (h : CidInv s) (hlog : s'.log = s.log) (hn : s'.nextCid = s.nextCid)
    (hph : ∀ c cid, inflight (s'.ph c) = some cid → inflight (s.ph c) = some cid) : CidInv s' := by
  refine ⟨?_, ?_, ?_, ?_, ?_, ?_⟩
  · rw [hlog, hn]; exact h.logLt
  · intro c cid hc; rw [hn]; exact h.phLt c cid (hph c cid hc)
  · intro c c' cid hc hc'; exact h.uniq c c' cid (hph _ _ hc) (hph _ _ hc')
  · intro c cid hc; rw [hlog]; exact h.openClean c cid (hph _ _ hc)
  · rw [hlog]; exact h.doneOf
  · rw [hlog]; exact h.target

theorem cid_next (cfg : Cfg α) {s : Sys α} (h : CidInv s) (ev : Ev α) : CidInv (next cfg s ev) := by
  cases ev with
  | begin c cl =>
    simp only [next]
    split
    next hidle =>
      have hph : ∀ c' cid, inflight ((s.setPh c (.reading cl s.nextCid 0 0)).ph c') = some cid →
          (c' = c ∧ cid = s.nextCid) ∨ (c' ≠ c ∧ inflight (s.ph c') = some cid) := by
        intro c' cid hc
        by_cases hcc : c' = c
        · subst hcc; rw [setPh_ph_self] at hc; simp only [inflight, Option.some.injEq] at hc; exact Or.inl ⟨rfl, hc.symm⟩
        · rw [setPh_ph_other _ _ _ _ hcc] at hc; exact Or.inr ⟨hcc, hc⟩
      refine ⟨?_, ?_, ?_, ?_, h.doneOf, h.target⟩
      · intro r hr; have := h.logLt r hr; simp only; omega
      · intro c' cid hc
        rcases hph c' cid hc with ⟨_, rfl⟩ | ⟨_, hc⟩
        · simp only; omega
        · have := h.phLt c' cid hc; simp only; omega
      · intro c1 c2 cid h1 h2
        rcases hph c1 cid h1 with ⟨e1, x1⟩ | ⟨hn1, g1⟩ <;> rcases hph c2 cid h2 with ⟨e2, x2⟩ | ⟨hn2, g2⟩
        · rw [e1, e2]
        · have := h.phLt c2 _ g2; omega
        · have := h.phLt c1 _ g1; omega
        · exact h.uniq c1 c2 cid g1 g2
      · intro c' cid hc r hr hrc
        rcases hph c' cid hc with ⟨_, rfl⟩ | ⟨_, hc⟩
        · have := h.logLt r hr; omega
        · exact h.openClean c' cid hc r hr hrc
    · exact h
  | step c =>
    simp only [next]
    split
    · exact h
    next cl cid att idx hphc =>
      refine cid_same h rfl rfl ?_
      intro c' cid' hc
      by_cases hcc : c' = c
      · subst hcc; rw [setPh_ph_self] at hc; rw [hphc]; exact hc
      · rw [setPh_ph_other _ _ _ _ hcc] at hc; exact hc
    next cl cid att idx inp hphc =>
      obtain ⟨_, hn, hoth, r, hlog, _, hcid, _, _, _, _, hcase⟩ := commit_spec cfg s c cl cid att idx inp
      have hin : inflight (s.ph c) = some cid := by rw [hphc]; rfl
      have hlt := h.phLt c cid hin
      -- other callers keep their call; they run a different call than `c`
      have hother : ∀ c' cid', c' ≠ c → inflight (s.ph c') = some cid' → cid' ≠ cid := by
        intro c' cid' hne hc' heq; subst heq; exact hne (h.uniq c' c cid' hc' hin)
      -- records of calls that ended belong to no running call
      have hended : ∀ rr ∈ s.log, rr.done ≠ none → rr.cid ≠ cid := by
        intro rr hrr hd heq; exact hd (h.openClean c cid hin rr hrr heq).2
      rcases hcase with ⟨hoc, _, _, hdone, hphc'⟩ | ⟨hoc, _, _, hdecl, hphc'⟩
      · -- wrote: the call leaves the primary loop
        have hnone : inflight ((commit cfg s c cl cid att idx inp).ph c) = none := by
          rcases hphc' with hi | ⟨v, hi⟩ <;> rw [hi] <;> rfl
        have hph : ∀ c' cid', inflight ((commit cfg s c cl cid att idx inp).ph c') = some cid' →
            c' ≠ c ∧ inflight (s.ph c') = some cid' := by
          intro c' cid' hc
          by_cases hcc : c' = c
          · subst hcc; rw [hnone] at hc; cases hc
          · rw [hoth c' hcc] at hc; exact ⟨hcc, hc⟩
        refine ⟨?_, ?_, ?_, ?_, ?_, ?_⟩
        · rw [hlog, hn]; intro r' hr'
          rcases List.mem_cons.1 hr' with rfl | hr'
          · rw [hcid]; exact hlt
          · exact h.logLt r' hr'
        · intro c' cid' hc; rw [hn]; exact h.phLt c' cid' (hph c' cid' hc).2
        · intro c1 c2 cid' h1 h2; exact h.uniq c1 c2 cid' (hph _ _ h1).2 (hph _ _ h2).2
        · intro c' cid' hc r' hr' hrc
          obtain ⟨hne, hc⟩ := hph c' cid' hc
          rw [hlog] at hr'
          rcases List.mem_cons.1 hr' with rfl | hr'
          · exact absurd (hcid.symm.trans hrc).symm (hother c' cid' hne hc)
          · exact h.openClean c' cid' hc r' hr' hrc
        · rw [hlog]; intro r' hr'
          rcases List.mem_cons.1 hr' with rfl | hr'
          · exact ⟨fun _ => hdone, fun hd => by rw [hoc] at hd; cases hd⟩
          · exact h.doneOf r' hr'
        · rw [hlog]; intro rr hrr hfail r' hr' hrc
          rcases List.mem_cons.1 hrr with rfl | hrr
          · rcases hfail with hf | hf
            · rw [hdone] at hf; cases hf
            · rw [hoc] at hf; cases hf
          · have hrrd : rr.done ≠ none := by
              rcases hfail with hf | hf
              · rw [hf]; simp
              · rw [(h.doneOf rr hrr).2 hf]; simp
            have hne := hended rr hrr hrrd
            rcases List.mem_cons.1 hr' with hrr' | hr'
            · rw [hrr', hcid] at hrc; exact absurd hrc.symm hne
            · exact h.target rr hrr hfail r' hr' hrc
      · -- nothing written
        have hph : ∀ c' cid', inflight ((commit cfg s c cl cid att idx inp).ph c') = some cid' →
            inflight (s.ph c') = some cid' ∧ (c' = c → r.done = none) := by
          intro c' cid' hc
          by_cases hcc : c' = c
          · subst hcc
            rcases hphc' with ⟨hi, _⟩ | ⟨idx', hi, _, hd⟩
            · rw [hi] at hc; cases hc
            · rw [hi] at hc; simp only [inflight] at hc; rw [hin]; exact ⟨hc, fun _ => hd⟩
          · rw [hoth c' hcc] at hc; exact ⟨hc, fun hh => absurd hh hcc⟩
        refine ⟨?_, ?_, ?_, ?_, ?_, ?_⟩
        · rw [hlog, hn]; intro r' hr'
          rcases List.mem_cons.1 hr' with rfl | hr'
          · rw [hcid]; exact hlt
          · exact h.logLt r' hr'
        · intro c' cid' hc; rw [hn]; exact h.phLt c' cid' (hph c' cid' hc).1
        · intro c1 c2 cid' h1 h2; exact h.uniq c1 c2 cid' (hph _ _ h1).1 (hph _ _ h2).1
        · intro c' cid' hc r' hr' hrc
          obtain ⟨hc0, hdn⟩ := hph c' cid' hc
          rw [hlog] at hr'
          rcases List.mem_cons.1 hr' with rfl | hr'
          · by_cases hcc : c' = c
            · exact ⟨hoc, hdn hcc⟩
            · exact absurd (hcid.symm.trans hrc).symm (hother c' cid' hcc hc0)
          · exact h.openClean c' cid' hc0 r' hr' hrc
        · rw [hlog]; intro r' hr'
          rcases List.mem_cons.1 hr' with rfl | hr'
          · exact ⟨fun hw => absurd hw hoc, hdecl⟩
          · exact h.doneOf r' hr'
        · rw [hlog]; intro rr hrr hfail r' hr' hrc
          rcases List.mem_cons.1 hrr with rfl | hrr
          · rcases List.mem_cons.1 hr' with rfl | hr'
            · exact hoc
            · exact (h.openClean c cid hin r' hr' (hrc.trans hcid)).1
          · have hrrd : rr.done ≠ none := by
              rcases hfail with hf | hf
              · rw [hf]; simp
              · rw [(h.doneOf rr hrr).2 hf]; simp
            have hne := hended rr hrr hrrd
            rcases List.mem_cons.1 hr' with hrr' | hr'
            · rw [hrr', hcid] at hrc; exact absurd hrc.symm hne
            · exact h.target rr hrr hfail r' hr' hrc
    next k v att idx hphc =>
      refine cid_same h rfl rfl ?_
      intro c' cid' hc
      by_cases hcc : c' = c
      · subst hcc; rw [setPh_ph_self] at hc; cases hc
      · rw [setPh_ph_other _ _ _ _ hcc] at hc; exact hc
    next k v att idx inp hphc =>
      obtain ⟨_, hlog, hn, hoth, hphc'⟩ := mcommit_spec cfg s c k v att idx
      refine cid_same h hlog hn ?_
      intro c' cid' hc
      by_cases hcc : c' = c
      · subst hcc
        rcases hphc' with hi | ⟨a, i, hi⟩ <;> rw [hi] at hc <;> cases hc
      · rw [hoth c' hcc] at hc; exact hc

theorem cid_run (cfg : Cfg α) (evs : List (Ev α)) : ∀ {s : Sys α}, CidInv s → CidInv (run cfg s evs) := by
  induction evs with
  | nil => intro s h; exact h
  | cons ev evs ih => intro s h; exact ih (cid_next cfg h ev)

theorem cid_init {s0 : Sys α} (h : Quiescent s0) : CidInv s0 := by
  refine ⟨?_, ?_, ?_, ?_, ?_, ?_⟩
  · rw [h.log]; intro r hr; cases hr
  · intro c cid hc; rw [h.idle c] at hc; cases hc
  · intro c c' cid hc; rw [h.idle c] at hc; cases hc
  · intro c cid hc; rw [h.idle c] at hc; cases hc
  · rw [h.log]; intro r hr; cases hr
  · rw [h.log]; intro r hr; cases hr

/-! ### wrappers -/

theorem prefixKey_inj (p k1 k2 : Key) (h : prefixKey p k1 = prefixKey p k2) : k1 = k2 :=
  List.append_cancel_left h

def inMirror : Phase α → Prop
  | .mreading .. => True
  | .mholding .. => True
  | _ => False

/-- a step of the mirror loop touches neither the primary store, nor the log, nor other callers. -/
theorem mirror_step_frame (cfg : Cfg α) (s : Sys α) (c : Nat) (h : inMirror (s.ph c)) :
    (next cfg s (.step c)).pri = s.pri ∧ (next cfg s (.step c)).log = s.log ∧
    ∀ c', c' ≠ c → (next cfg s (.step c)).ph c' = s.ph c' := by
  simp only [next]
  split
  next hp => rw [hp] at h; cases h
  next hp => rw [hp] at h; cases h
  next hp => rw [hp] at h; cases h
  · exact ⟨rfl, rfl, fun c' hc => setPh_ph_other _ _ _ _ hc⟩
  next k v att idx inp hp =>
    obtain ⟨h1, h2, _, h3, _⟩ := mcommit_spec cfg s c k v att idx
    exact ⟨h1, h2, h3⟩

/-- every event of the primary loop leaves the secondary store alone. -/
theorem primary_step_sec (cfg : Cfg α) (s : Sys α) (ev : Ev α)
    (h : ∀ c, ev = .step c → ¬ inMirror (s.ph c)) : (next cfg s ev).sec = s.sec := by
  cases ev with
  | begin c cl => simp only [next]; split <;> rfl
  | step c =>
    have h := h c rfl
    simp only [next]
    split
    · rfl
    · rfl
    next cl cid att idx inp hp => exact (commit_spec cfg s c cl cid att idx inp).1
    next hp => rw [hp] at h; exact absurd trivial h
    next hp => rw [hp] at h; exact absurd trivial h

/-- An undisturbed mirror write (Get, then conditional write) on a consul or etcd secondary stores
exactly the value the primary CAS wrote. -/
theorem mirror_copies_value (cfg : Cfg α) (s : Sys α) (c : Nat) (k : Key) (v : α)
    (hp : s.ph c = .mreading k v 0 0) (hk : s.sec.kind ≠ .ml) :
    (next cfg (next cfg s (.step c)) (.step c)).sec.val k = some v := by
  have h1 : next cfg s (.step c) = s.setPh c (.mholding k v 0 (readIdx s.sec k 0) (s.sec.val k)) := by
    simp only [next, hp]
  rw [h1]
  have h2 : (s.setPh c (.mholding k v 0 (readIdx s.sec k 0) (s.sec.val k))).ph c =
      .mholding k v 0 (readIdx s.sec k 0) (s.sec.val k) := setPh_ph_self _ _ _
  simp only [next, h2, mcommit]
  have hsec : (s.setPh c (.mholding k v 0 (readIdx s.sec k 0) (s.sec.val k))).sec = s.sec := rfl
  rw [hsec]
  have hw : ∃ st, condWrite cfg.merge s.sec k (readIdx s.sec k 0) v = (st, .wrote) ∧ st.val k = some v := by
    unfold condWrite readIdx
    cases hkind : s.sec.kind with
    | ml => exact absurd hkind hk
    | consul =>
      cases he : s.sec.ent k with
      | none => exact ⟨_, rfl, by simp [Store.val, Store.set]⟩
      | some e => simp only [ne_eq, not_true_eq_false, if_false]; exact ⟨_, rfl, by simp [Store.val, Store.set]⟩
    | etcd =>
      cases he : s.sec.ent k with
      | none => simp only [ver_of_none he, ne_eq, not_true_eq_false, if_false]; exact ⟨_, rfl, by simp [Store.val, Store.set]⟩
      | some e => simp only [ver_of_some he, ne_eq, not_true_eq_false, if_false]; exact ⟨_, rfl, by simp [Store.val, Store.set]⟩
  obtain ⟨st, hcw, hv⟩ := hw
  rw [hcw]; exact hv

/-! ### statements of record proved here, restated in `Props/C07.lean` -/

theorem wrote_leaves_output (cfg : Cfg α) (s0 : Sys α) (h0 : Quiescent s0) (hk : s0.pri.kind ≠ .ml)
    (evs : List (Ev α)) (r : Rec α) (hr : r ∈ (run cfg s0 evs).log) (hw : r.outcome = .wrote) :
    r.done = some true ∧ ∃ out, r.out = some out ∧ r.after = some out := by
  have hf := run_recfacts cfg evs s0 (by rw [h0.log]; intro r hr; cases hr) r hr
  obtain ⟨hd, out, ho, ha, _⟩ := hf.wrote hw
  exact ⟨hd, out, ho, ha hk⟩

theorem wrote_applies_f (cfg : Cfg α) (s : Sys α) (c : Nat) (cl : Call α) (cid att idx : Nat) (inp : Option α)
    (hp : s.ph c = .holding cl cid att idx inp) :
    ∃ r, (next cfg s (.step c)).log = r :: s.log ∧ r.inp = inp ∧ r.key = cl.key ∧
      (r.outcome = .wrote → ∃ out retry, cl.f att inp = .write out retry ∧ r.out = some out) := by
  have : next cfg s (.step c) = commit cfg s c cl cid att idx inp := by simp only [next, hp]
  rw [this]
  obtain ⟨_, _, _, r, hlog, _, _, hkey, _, hinp, _, hcase⟩ := commit_spec cfg s c cl cid att idx inp
  refine ⟨r, hlog, hinp, hkey, fun hw => ?_⟩
  rcases hcase with ⟨_, ⟨out, retry, hf, ho, _⟩, _⟩ | ⟨hoc, _⟩
  · exact ⟨out, retry, hf, ho⟩
  · exact absurd hw hoc

theorem non_write_steps_noop (cfg : Cfg α) (s : Sys α) (ev : Ev α) (k : Key)
    (h : (next cfg s ev).pri.val k ≠ s.pri.val k) :
    ∃ r, (next cfg s ev).log = r :: s.log ∧ r.outcome = .wrote ∧ r.key = k := by
  rcases next_frame cfg s ev with ⟨_, hp⟩ | ⟨r, hl, _, _, _, hoth, hnw⟩
  · rw [hp] at h; exact absurd rfl h
  · refine ⟨r, hl, ?_, ?_⟩
    · apply Classical.byContradiction; intro hw; rw [hnw hw] at h; exact h rfl
    · apply Classical.byContradiction; intro hk; exact h (hoth k (fun hh => hk hh.symm))

theorem failed_or_declined_noop (cfg : Cfg α) (s0 : Sys α) (h0 : Quiescent s0) (evs : List (Ev α))
    (r : Rec α) (hr : r ∈ (run cfg s0 evs).log) (hfail : r.done = some false ∨ r.outcome = .declined)
    (r' : Rec α) (hr' : r' ∈ (run cfg s0 evs).log) (hsame : r'.cid = r.cid) :
    r'.outcome ≠ .wrote ∧ r'.after = r'.before := by
  have hne := (cid_run cfg evs (cid_init h0)).target r hr hfail r' hr' hsame
  have hf := run_recfacts cfg evs s0 (by rw [h0.log]; intro r hr; cases hr) r' hr'
  exact ⟨hne, hf.other hne⟩

theorem wrote_ends_call (cfg : Cfg α) (s : Sys α) (c : Nat) (cl : Call α) (cid att idx : Nat) (inp : Option α)
    (hp : s.ph c = .holding cl cid att idx inp) (r : Rec α)
    (hl : (next cfg s (.step c)).log = r :: s.log) (hw : r.outcome = .wrote) :
    r.done = some true ∧ inflight ((next cfg s (.step c)).ph c) = none := by
  have : next cfg s (.step c) = commit cfg s c cl cid att idx inp := by simp only [next, hp]
  rw [this] at hl ⊢
  obtain ⟨_, _, _, r0, hlog, _, _, _, _, _, _, hcase⟩ := commit_spec cfg s c cl cid att idx inp
  have : r0 = r := by rw [hlog] at hl; exact (List.cons.inj hl).1
  subst this
  rcases hcase with ⟨_, _, _, hd, hph⟩ | ⟨hoc, _⟩
  · refine ⟨hd, ?_⟩
    rcases hph with hi | ⟨v, hi⟩ <;> rw [hi] <;> rfl
  · exact absurd hw hoc

theorem ml_wrote_leaves_merge (cfg : Cfg α) (s0 : Sys α) (h0 : Quiescent s0) (hk : s0.pri.kind = .ml)
    (evs : List (Ev α)) (r : Rec α) (hr : r ∈ (run cfg s0 evs).log) (hw : r.outcome = .wrote) :
    r.done = some true ∧ ∃ out, r.out = some out ∧ r.after = cfg.merge r.before out ∧ r.after ≠ none := by
  have hf := run_recfacts cfg evs s0 (by rw [h0.log]; intro r hr; cases hr) r hr
  obtain ⟨hd, out, ho, _, ha⟩ := hf.wrote hw
  exact ⟨hd, out, ho, ha hk⟩

theorem ml_no_lost_update (cfg : Cfg α) (s0 : Sys α) (h0 : Quiescent s0) (hk : s0.pri.kind = .ml)
    (evs : List (Ev α)) (r : Rec α) (hr : r ∈ (run cfg s0 evs).log) (hw : r.outcome = .wrote) :
    r.inp = r.before ∧ ∀ out, r.out = some out → cfg.merge r.inp out = some out → r.after = some out := by
  have h1 := wrote_input_current cfg s0 h0 evs r hr hw
  obtain ⟨_, out, ho, ha, _⟩ := ml_wrote_leaves_merge cfg s0 h0 hk evs r hr hw
  refine ⟨h1, fun out' ho' hm => ?_⟩
  rw [ho] at ho'; cases ho'; rw [ha, ← h1, hm]

end PfC07
