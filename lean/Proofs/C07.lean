import Model.C07
/-! Helper lemmas and proofs for C07 (statements of record are in `Props/C07.lean`). -/
namespace PfC07
open C07

variable {α : Type}

/-! ### the conditional write -/

/-- The Mergeable contract the memberlist store relies on ("implementations should be careful about
not changing logical value when returning empty change"): a merge that reports no change leaves
the stored value as it was. -/
def Lawful (merge : Option α → α → α × Bool) : Prop :=
  ∀ v out r, merge (some v) out = (r, false) → r = v

/-- The write condition of each backend, as a proposition about the store and the held token. -/
def Enabled (st : Store α) (k : Key) (idx : Nat) : Prop :=
  match st.kind with
  | .consul => ∀ e, st.ent k = some e → e.tok = idx
  | .etcd => st.ver k = idx
  | .ml => st.ver k = idx

theorem ver_of_some {st : Store α} {k : Key} {e : Entry α} (h : st.ent k = some e) : st.ver k = e.tok := by
  simp [Store.ver, h]

theorem ver_of_none {st : Store α} {k : Key} (h : st.ent k = none) : st.ver k = 0 := by
  simp [Store.ver, h]

theorem val_of_some {st : Store α} {k : Key} {e : Entry α} (h : st.ent k = some e) : st.val k = some e.val := by
  simp [Store.val, h]

theorem val_of_none {st : Store α} {k : Key} (h : st.ent k = none) : st.val k = none := by
  simp [Store.val, h]

theorem set_self {st : Store α} {k : Key} {e : Entry α} (h : st.ent k = some e) : st.set k ⟨e.val, e.tok⟩ = st := by
  cases st with
  | mk kind cur ent =>
    simp only [Store.set, Store.mk.injEq, true_and]
    funext k'
    by_cases hk : k' = k
    · subst hk; simp only [if_true]; exact h.symm
    · simp only [hk, if_false]

/-- every conditional write keeps the kind of the store and touches no other key. -/
theorem condWrite_frame {merge : Option α → α → α × Bool} {st st' : Store α} {k : Key} {idx : Nat}
    {out : α} {oc : Outcome} (h : condWrite merge st k idx out = (st', oc)) :
    st'.kind = st.kind ∧ ∀ k', k' ≠ k → st'.ent k' = st.ent k' := by
  unfold condWrite at h
  repeat' split at h
  all_goals
    simp only [Prod.mk.injEq] at h
    rw [← h.1]
    first
      | exact ⟨rfl, fun _ _ => rfl⟩
      | (refine ⟨rfl, fun k' hk => ?_⟩; simp [Store.set, hk])

/-- a conditional write that does not succeed leaves the store as it was — for memberlist under the
Mergeable contract (the merge ran in place on the stored object). -/
theorem condWrite_not_wrote {merge : Option α → α → α × Bool} {st st' : Store α} {k : Key} {idx : Nat}
    {out : α} {oc : Outcome} (hl : st.kind = .ml → Lawful merge)
    (h : condWrite merge st k idx out = (st', oc)) (hoc : oc ≠ .wrote) : st' = st := by
  unfold condWrite at h
  split at h
  · split at h
    · split at h
      · simp only [Prod.mk.injEq] at h; exact h.1.symm
      · simp only [Prod.mk.injEq] at h; exact absurd h.2.symm hoc
    · simp only [Prod.mk.injEq] at h; exact absurd h.2.symm hoc
  · split at h
    · simp only [Prod.mk.injEq] at h; exact h.1.symm
    · simp only [Prod.mk.injEq] at h; exact absurd h.2.symm hoc
  next hk =>
    split at h
    · simp only [Prod.mk.injEq] at h; exact h.1.symm
    · split at h
      · split at h
        · simp only [Prod.mk.injEq] at h; exact absurd h.2.symm hoc
        · simp only [Prod.mk.injEq] at h; exact h.1.symm
      next e he =>
        split at h
        · simp only [Prod.mk.injEq] at h; exact absurd h.2.symm hoc
        next r hm =>
          simp only [Prod.mk.injEq] at h
          have : r = e.val := hl hk _ _ _ hm
          rw [← h.1, this]; exact set_self he

/-- A successful conditional write: the condition held, exactly one entry changed; its token is
`current+1` (consul) or `old version+1` (etcd, memberlist). -/
theorem condWrite_wrote {merge : Option α → α → α × Bool} {st st' : Store α} {k : Key} {idx : Nat}
    {out : α} (h : condWrite merge st k idx out = (st', .wrote)) :
    Enabled st k idx ∧ ∃ v t c', st' = ⟨st.kind, c', fun k' => if k' = k then some ⟨v, t⟩ else st.ent k'⟩ ∧
      (st.kind = .consul → t = st.cur + 1 ∧ c' = st.cur + 1) ∧
      (st.kind ≠ .consul → t = st.ver k + 1 ∧ c' = st.cur) ∧
      (st.kind ≠ .ml → v = out) ∧ (st.kind = .ml → merge (st.val k) out = (v, true)) := by
  unfold condWrite at h
  split at h
  next hk =>
    split at h
    next e he =>
      split at h
      · simp at h
      next hcond =>
        simp only [Prod.mk.injEq, and_true] at h
        have hcond : e.tok = idx := by simpa using hcond
        refine ⟨?_, out, st.cur + 1, st.cur + 1, ?_, ?_, ?_, ?_, ?_⟩
        · simp only [Enabled, hk]; intro e' he'; rw [he] at he'; cases he'; exact hcond
        · rw [← h]; simp [Store.set, hk]
        · intro _; exact ⟨rfl, rfl⟩
        · intro hne; exact absurd hk hne
        · intro _; rfl
        · intro hml; rw [hk] at hml; cases hml
    next he =>
      simp only [Prod.mk.injEq, and_true] at h
      refine ⟨?_, out, st.cur + 1, st.cur + 1, ?_, ?_, ?_, ?_, ?_⟩
      · simp only [Enabled, hk]; intro e' he'; rw [he] at he'; cases he'
      · rw [← h]; simp [Store.set, hk]
      · intro _; exact ⟨rfl, rfl⟩
      · intro hne; exact absurd hk hne
      · intro _; rfl
      · intro hml; rw [hk] at hml; cases hml
  next hk =>
    split at h
    · simp at h
    next hcond =>
      simp only [Prod.mk.injEq, and_true] at h
      have hcond : st.ver k = idx := by simpa using hcond
      refine ⟨?_, out, st.ver k + 1, st.cur, ?_, ?_, ?_, ?_, ?_⟩
      · simp only [Enabled, hk]; exact hcond
      · rw [← h]; simp [Store.set, hk]
      · intro hc; rw [hk] at hc; cases hc
      · intro _; exact ⟨rfl, rfl⟩
      · intro _; rfl
      · intro hml; rw [hk] at hml; cases hml
  next hk =>
    split at h
    · simp at h
    next hcond =>
      have hen : Enabled st k idx := by simp only [Enabled, hk]; simpa using hcond
      split at h
      next he =>
        split at h
        next r hm =>
          simp only [Prod.mk.injEq, and_true] at h
          refine ⟨hen, r, st.ver k + 1, st.cur, ?_, ?_, ?_, ?_, ?_⟩
          · rw [← h, ver_of_none he]; simp [Store.set, hk]
          · intro hc; rw [hk] at hc; cases hc
          · intro _; exact ⟨rfl, rfl⟩
          · intro hne; exact absurd hk hne
          · intro _; rw [val_of_none he]; exact hm
        · simp at h
      next e he =>
        split at h
        next r hm =>
          simp only [Prod.mk.injEq, and_true] at h
          refine ⟨hen, r, st.ver k + 1, st.cur, ?_, ?_, ?_, ?_, ?_⟩
          · rw [← h, ver_of_some he]; simp [Store.set, hk]
          · intro hc; rw [hk] at hc; cases hc
          · intro _; exact ⟨rfl, rfl⟩
          · intro hne; exact absurd hk hne
          · intro _; rw [val_of_some he]; exact hm
        · simp at h

theorem condWrite_outcome {merge : Option α → α → α × Bool} {st st' : Store α} {k : Key} {idx : Nat}
    {out : α} {oc : Outcome} (h : condWrite merge st k idx out = (st', oc)) :
    oc = .wrote ∨ oc = .conflict ∨ oc = .nochange := by
  unfold condWrite at h
  repeat' split at h
  all_goals (simp only [Prod.mk.injEq] at h; rw [← h.2]; simp)
/-! ### store and phase invariants -/

/-- tokens are positive; consul tokens never exceed `current`. -/
def StoreWF (st : Store α) : Prop :=
  ∀ k e, st.ent k = some e → 1 ≤ e.tok ∧ (st.kind = .consul → e.tok ≤ st.cur)

/-- What a caller that is about to read / about to write knows about its key. -/
def PhaseOK (st : Store α) : Phase α → Prop
  | .reading _ cl _ _ idx =>
    (st.ent cl.key = none → idx = 0) ∧ (∀ e, st.ent cl.key = some e → idx ≤ e.tok)
  | .holding _ cl _ _ idx inp =>
    (st.ent cl.key = none → inp = none ∧ idx = 0) ∧
    (∀ e, st.ent cl.key = some e → idx ≤ e.tok ∧ (e.tok = idx → inp = some e.val))
  | _ => True

/-- the token of a successful write is fresh for its key. -/
theorem write_fresh {st : Store α} {k : Key} {t c' : Nat} (hwf : StoreWF st)
    (hc : st.kind = .consul → t = st.cur + 1 ∧ c' = st.cur + 1)
    (hn : st.kind ≠ .consul → t = st.ver k + 1 ∧ c' = st.cur) : st.ver k < t ∧ 1 ≤ t ∧ st.cur ≤ c' := by
  by_cases hk : st.kind = .consul
  · obtain ⟨ht, hc'⟩ := hc hk
    cases he : st.ent k with
    | none => rw [ver_of_none he]; omega
    | some e => rw [ver_of_some he]; have := (hwf k e he).2 hk; omega
  · obtain ⟨ht, hc'⟩ := hn hk; omega

theorem wf_write {st : Store α} {k : Key} {v : α} {t c' : Nat} (hwf : StoreWF st)
    (hc : st.kind = .consul → t = st.cur + 1 ∧ c' = st.cur + 1)
    (hn : st.kind ≠ .consul → t = st.ver k + 1 ∧ c' = st.cur) :
    StoreWF ⟨st.kind, c', fun k' => if k' = k then some ⟨v, t⟩ else st.ent k'⟩ := by
  obtain ⟨_, h1, hcur⟩ := write_fresh hwf hc hn
  intro k' e he
  simp only at he
  split at he
  · cases he
    refine ⟨h1, ?_⟩
    intro hk; simp only at hk
    have := hc hk; simp only; omega
  · obtain ⟨a, b⟩ := hwf k' e he
    refine ⟨a, ?_⟩
    intro hk; simp only at hk ⊢
    have := b hk; omega

theorem phaseOK_write {st : Store α} {k : Key} {v : α} {t c' : Nat} {p : Phase α}
    (hfresh : st.ver k < t) (hp : PhaseOK st p) :
    PhaseOK ⟨st.kind, c', fun k' => if k' = k then some ⟨v, t⟩ else st.ent k'⟩ p := by
  cases p with
  | idle => trivial
  | mreading => trivial
  | mholding => trivial
  | reading q cl cid att idx =>
    obtain ⟨h1, h2⟩ := hp
    simp only [PhaseOK]
    by_cases hk : cl.key = k
    · simp only [hk, if_true]
      refine ⟨fun h => (by simp at h), ?_⟩
      intro e he; cases he; simp only
      cases hent : st.ent k with
      | none => have := h1 (hk ▸ hent); omega
      | some e0 => have := h2 e0 (hk ▸ hent); rw [ver_of_some hent] at hfresh; omega
    · simp only [hk, if_false]; exact ⟨h1, h2⟩
  | holding q cl cid att idx inp =>
    obtain ⟨h1, h2⟩ := hp
    simp only [PhaseOK]
    by_cases hk : cl.key = k
    · simp only [hk, if_true]
      refine ⟨fun h => (by simp at h), ?_⟩
      intro e he; cases he; simp only
      cases hent : st.ent k with
      | none => have := (h1 (hk ▸ hent)).2; exact ⟨by omega, fun h => by omega⟩
      | some e0 =>
        have := (h2 e0 (hk ▸ hent)).1; rw [ver_of_some hent] at hfresh
        exact ⟨by omega, fun h => by omega⟩
    · simp only [hk, if_false]; exact ⟨h1, h2⟩

/-- If the conditional write of a holder succeeds, the value it applied `f` to is the stored value. -/
theorem input_current {st : Store α} {q : Nat} {cl : Call α} {cid att idx : Nat} {inp : Option α}
    (hwf : StoreWF st) (hp : PhaseOK st (.holding q cl cid att idx inp)) (hen : Enabled st cl.key idx)
    : inp = st.val cl.key := by
  obtain ⟨h1, h2⟩ := hp
  cases hent : st.ent cl.key with
  | none => rw [val_of_none hent]; exact (h1 hent).1
  | some e =>
    rw [val_of_some hent]
    have htok := (hwf _ e hent).1
    apply (h2 e hent).2
    unfold Enabled at hen
    split at hen
    · exact hen e hent
    · rw [ver_of_some hent] at hen; exact hen
    · rw [ver_of_some hent] at hen; exact hen

/-! ### the steps -/

theorem setPh_ph_self (s : Sys α) (c : Nat) (p : Phase α) : (s.setPh c p).ph c = p := by
  simp [Sys.setPh]

theorem setPh_ph_other (s : Sys α) (c c' : Nat) (p : Phase α) (h : c' ≠ c) : (s.setPh c p).ph c' = s.ph c' := by
  simp [Sys.setPh, h]

theorem setStore_self (s : Sys α) (i : Nat) (st : Store α) : (s.setStore i st).stores i = st := by
  simp [Sys.setStore]

theorem setStore_other (s : Sys α) (i j : Nat) (st : Store α) (h : j ≠ i) : (s.setStore i st).stores j = s.stores j := by
  simp [Sys.setStore, h]

theorem retryPhase_cases (cfg : Cfg α) (kind : Backend) (p : Nat) (cl : Call α) (cid att idx : Nat) :
    (retryPhase cfg kind p cl cid att idx = (.idle, some false)) ∨
    (∃ idx', retryPhase cfg kind p cl cid att idx = (.reading p cl cid (att + 1) idx', none) ∧ (idx' = idx ∨ idx' = 0)) := by
  unfold retryPhase
  split
  · right
    cases kind
    · exact ⟨idx, rfl, Or.inl rfl⟩
    · exact ⟨idx, rfl, Or.inl rfl⟩
    · exact ⟨0, rfl, Or.inr rfl⟩
  · left; rfl

/-- What one apply + conditional-write step of caller `c` on its primary store `p` does. -/
theorem commit_spec (cfg : Cfg α) (s : Sys α) (c p : Nat) (cl : Call α) (cid att idx : Nat) (inp : Option α)
    (s' : Sys α) (hs : s' = commit cfg s c p cl cid att idx inp) :
    s'.nextCid = s.nextCid ∧ s'.clients = s.clients ∧ s'.primary = s.primary ∧
    (∀ c', c' ≠ c → s'.ph c' = s.ph c') ∧ (∀ i, i ≠ p → s'.stores i = s.stores i) ∧
    ∃ r, s'.log = r :: s.log ∧
      r.caller = c ∧ r.cid = cid ∧ r.store = p ∧ r.key = cl.key ∧ r.idx = idx ∧ r.inp = inp ∧
      r.before = (s.stores p).val cl.key ∧ r.after = (s'.stores p).val cl.key ∧
      ((r.outcome = .wrote ∧
          (∃ out retry, cl.f att inp = .write out retry ∧ r.out = some out ∧
            condWrite cfg.merge (s.stores p) cl.key idx out = (s'.stores p, .wrote) ∧
            s'.ph c = mirrorPhase cfg s p cl out) ∧ r.done = some true) ∨
       (r.outcome ≠ .wrote ∧
          (s'.stores p = s.stores p ∨
            ∃ out oc, oc ≠ .wrote ∧ condWrite cfg.merge (s.stores p) cl.key idx out = (s'.stores p, oc)) ∧
          (r.outcome = .declined → r.done = some true) ∧ (r.done = some true → r.outcome = .declined) ∧
          ((s'.ph c = .idle ∧ r.done ≠ none) ∨
            (∃ idx', s'.ph c = .reading p cl cid (att + 1) idx' ∧ (idx' = idx ∨ idx' = 0) ∧ r.done = none)))) := by
  subst hs
  unfold commit
  split
  next retry hf =>
    cases retry with
    | false =>
      simp only [Bool.false_eq_true, if_false]
      refine ⟨rfl, rfl, rfl, fun c' h => setPh_ph_other _ _ _ _ h, fun _ _ => rfl, _, rfl, rfl, rfl, rfl, rfl, rfl, rfl, rfl, rfl, Or.inr ?_⟩
      exact ⟨by simp, Or.inl rfl, by simp, by simp, Or.inl ⟨setPh_ph_self _ _ _, by simp⟩⟩
    | true =>
      simp only [if_true]
      rcases retryPhase_cases cfg (s.stores p).kind p cl cid att idx with h | ⟨idx', h, hi⟩
      · rw [h]
        refine ⟨rfl, rfl, rfl, fun c' h => setPh_ph_other _ _ _ _ h, fun _ _ => rfl, _, rfl, rfl, rfl, rfl, rfl, rfl, rfl, rfl, rfl, Or.inr ?_⟩
        exact ⟨by simp, Or.inl rfl, by simp, by simp, Or.inl ⟨setPh_ph_self _ _ _, by simp⟩⟩
      · rw [h]
        refine ⟨rfl, rfl, rfl, fun c' h => setPh_ph_other _ _ _ _ h, fun _ _ => rfl, _, rfl, rfl, rfl, rfl, rfl, rfl, rfl, rfl, rfl, Or.inr ?_⟩
        exact ⟨by simp, Or.inl rfl, by simp, by simp, Or.inr ⟨idx', setPh_ph_self _ _ _, hi, rfl⟩⟩
  next hf =>
    refine ⟨rfl, rfl, rfl, fun c' h => setPh_ph_other _ _ _ _ h, fun _ _ => rfl, _, rfl, rfl, rfl, rfl, rfl, rfl, rfl, rfl, rfl, Or.inr ?_⟩
    exact ⟨by simp, Or.inl rfl, by simp, by simp, Or.inl ⟨setPh_ph_self _ _ _, by simp⟩⟩
  next out retry hf =>
    split
    next st hcw =>
      have hst : ((s.setStore p st).setPh c (mirrorPhase cfg s p cl out)).stores p = st := setStore_self _ _ _
      refine ⟨rfl, rfl, rfl, fun c' h => setPh_ph_other _ _ _ _ h, fun i hi => setStore_other _ _ _ _ hi, _, rfl, rfl, rfl, rfl, rfl,
        rfl, rfl, rfl, ?_, Or.inl ?_⟩
      · simp only; rw [hst]
      · refine ⟨rfl, ⟨out, retry, hf, rfl, ?_, setPh_ph_self _ _ _⟩, rfl⟩
        simp only; rw [hst]; exact hcw
    next st oc hne hcw =>
      have hoc : oc ≠ .wrote := by
        intro h; subst h; exact hne rfl
      have hnd : oc ≠ .declined := by
        intro hd; rcases condWrite_outcome hcw with h | h | h <;> rw [h] at hd <;> cases hd
      cases hr : retryable (s.stores p).kind retry with
      | false =>
        simp only [Bool.false_eq_true, if_false]
        have hst : ((s.setStore p st).setPh c Phase.idle).stores p = st := setStore_self _ _ _
        refine ⟨rfl, rfl, rfl, fun c' h => setPh_ph_other _ _ _ _ h, fun i hi => setStore_other _ _ _ _ hi, _, rfl, rfl, rfl, rfl, rfl,
          rfl, rfl, rfl, ?_, Or.inr ?_⟩
        · simp only; rw [hst]
        · refine ⟨hoc, Or.inr ⟨out, oc, hoc, ?_⟩, fun hd => absurd hd hnd, by simp, Or.inl ⟨setPh_ph_self _ _ _, by simp⟩⟩
          rw [hst]; exact hcw
      | true =>
        simp only [if_true]
        rcases retryPhase_cases cfg (s.stores p).kind p cl cid att idx with h | ⟨idx', h, hi⟩
        · rw [h]
          have hst : ((s.setStore p st).setPh c Phase.idle).stores p = st := setStore_self _ _ _
          refine ⟨rfl, rfl, rfl, fun c' h => setPh_ph_other _ _ _ _ h, fun i hi => setStore_other _ _ _ _ hi, _, rfl, rfl, rfl, rfl, rfl,
            rfl, rfl, rfl, ?_, Or.inr ?_⟩
          · simp only; rw [hst]
          · refine ⟨hoc, Or.inr ⟨out, oc, hoc, ?_⟩, fun hd => absurd hd hnd, by simp, Or.inl ⟨setPh_ph_self _ _ _, by simp⟩⟩
            rw [hst]; exact hcw
        · rw [h]
          have hst : ((s.setStore p st).setPh c (Phase.reading p cl cid (att + 1) idx')).stores p = st := setStore_self _ _ _
          refine ⟨rfl, rfl, rfl, fun c' h => setPh_ph_other _ _ _ _ h, fun i hi => setStore_other _ _ _ _ hi, _, rfl, rfl, rfl, rfl, rfl,
            rfl, rfl, rfl, ?_, Or.inr ?_⟩
          · simp only; rw [hst]
          · refine ⟨hoc, Or.inr ⟨out, oc, hoc, ?_⟩, fun hd => absurd hd hnd, by simp, Or.inr ⟨idx', setPh_ph_self _ _ _, hi, rfl⟩⟩
            rw [hst]; exact hcw

/-- under the Mergeable contract an attempt that did not write left its store as it was. -/
theorem nonwrote_store {cfg : Cfg α} {st st' : Store α} {k : Key} {idx : Nat}
    (hl : st.kind = .ml → Lawful cfg.merge)
    (h : st' = st ∨ ∃ out oc, oc ≠ .wrote ∧ condWrite cfg.merge st k idx out = (st', oc)) : st' = st := by
  rcases h with h | ⟨out, oc, hoc, hcw⟩
  · exact h
  · exact condWrite_not_wrote hl hcw hoc

def inMirror : Phase α → Prop
  | .mreading .. => True
  | .mholding .. => True
  | _ => False

/-- One conditional write of a mirror loop on store `t`: only store `t` may change, the log and the
other callers are untouched, and the caller stays in the mirror loop (same store again, or the
next one) or finishes. -/
theorem mcommit_spec (cfg : Cfg α) (s : Sys α) (c t : Nat) (rest : List Nat) (k : Key) (v : α) (att idx : Nat)
    (s' : Sys α) (hs : s' = mcommit cfg s c t rest k v att idx) :
    s'.log = s.log ∧ s'.nextCid = s.nextCid ∧ s'.clients = s.clients ∧ s'.primary = s.primary ∧
    (∀ c', c' ≠ c → s'.ph c' = s.ph c') ∧ (∀ i, i ≠ t → s'.stores i = s.stores i) ∧
    (s'.ph c = mirrorNext cfg rest k v ∨ ∃ att' idx', s'.ph c = .mreading t rest k v att' idx') := by
  subst hs
  unfold mcommit
  split
  · exact ⟨rfl, rfl, rfl, rfl, fun c' h => setPh_ph_other _ _ _ _ h, fun i hi => setStore_other _ _ _ _ hi,
      Or.inl (setPh_ph_self _ _ _)⟩
  · split
    · exact ⟨rfl, rfl, rfl, rfl, fun c' h => setPh_ph_other _ _ _ _ h, fun i hi => setStore_other _ _ _ _ hi,
        Or.inr ⟨_, _, setPh_ph_self _ _ _⟩⟩
    · exact ⟨rfl, rfl, rfl, rfl, fun c' h => setPh_ph_other _ _ _ _ h, fun i hi => setStore_other _ _ _ _ hi,
        Or.inl (setPh_ph_self _ _ _)⟩

/-! ### the chain of successful writes -/

/-- records of successful conditional writes on key `k`, newest first. -/
def writesOn (k : Key) (log : List (Rec α)) : List (Rec α) :=
  log.filter (fun r => decide (r.key = k) && decide (r.outcome = .wrote))

/-- newest-first chain: the stored value is what the newest write left, and the newest write was
applied to what the chain before it left. -/
def ChainR (init : Option α) : List (Rec α) → Option α → Prop
  | [], fin => fin = init
  | r :: older, fin => fin = r.after ∧ ChainR init older r.inp

/-- per-record facts: what a record says about the step that produced it. -/
structure RecFacts (kind : Backend) (merge : Option α → α → α × Bool) (r : Rec α) : Prop where
  /-- a successful write ends the CAS loop with nil; what it leaves is `f`'s output (consul, etcd)
  or the merge of `f`'s output into the value found (memberlist) -/
  wrote : r.outcome = .wrote → r.done = some true ∧ ∃ out, r.out = some out ∧
    (kind ≠ .ml → r.after = some out) ∧ (kind = .ml → ∃ v, merge r.before out = (v, true) ∧ r.after = some v)
  /-- any other attempt leaves the stored value as it found it -/
  other : r.outcome ≠ .wrote → r.after = r.before
  /-- a declined call returns nil -/
  declined : r.outcome = .declined → r.done = some true
  /-- the CAS loop returns nil only after a successful write or when the function declined -/
  success : r.done = some true → r.outcome = .wrote ∨ r.outcome = .declined

/-- Which store a caller works on, relative to a fixed position `p`: primary loops run on `p`, mirror
loops run on other stores only. -/
def PhaseP (p : Nat) : Phase α → Prop
  | .idle => True
  | .reading q .. => q = p
  | .holding q .. => q = p
  | .mreading t rest .. => t ≠ p ∧ p ∉ rest
  | .mholding t rest .. => t ≠ p ∧ p ∉ rest

def NoSwitch : Ev α → Prop
  | .switch _ => False
  | _ => True

instance : DecidablePred (NoSwitch : Ev α → Prop) := fun ev =>
  match ev with
  | .switch _ => isFalse (fun h => h)
  | .begin .. => isTrue trivial
  | .step _ => isTrue trivial

theorem mirrorTargets_not_mem (clients : List Nat) (p : Nat) : p ∉ mirrorTargets clients p := by
  simp [mirrorTargets]

theorem mirrorTargets_mem (clients : List Nat) (p c : Nat) :
    c ∈ mirrorTargets clients p ↔ (c ∈ clients ∧ c ≠ p) := by
  simp [mirrorTargets]

theorem mirrorNext_phaseP (cfg : Cfg α) (p : Nat) (ts : List Nat) (k : Key) (v : α) (h : p ∉ ts) :
    PhaseP p (mirrorNext cfg ts k v) := by
  unfold mirrorNext
  split
  · trivial
  next t rest =>
    split
    · simp only [List.mem_cons, not_or] at h
      exact ⟨fun hh => h.1 hh.symm, h.2⟩
    · trivial

theorem mirrorPhase_phaseP (cfg : Cfg α) (s : Sys α) (p : Nat) (cl : Call α) (out : α) :
    PhaseP p (mirrorPhase cfg s p cl out) := by
  unfold mirrorPhase
  split
  · exact mirrorNext_phaseP cfg p _ _ _ (mirrorTargets_not_mem _ _)
  · trivial

theorem mirrorNext_not_inflight (cfg : Cfg α) (ts : List Nat) (k : Key) (v : α) :
    mirrorNext cfg ts k v = .idle ∨ ∃ t rest, mirrorNext cfg ts k v = .mreading t rest k v 0 0 := by
  unfold mirrorNext
  split
  · exact Or.inl rfl
  · split
    · exact Or.inr ⟨_, _, rfl⟩
    · exact Or.inl rfl

theorem mirrorPhase_cases (cfg : Cfg α) (s : Sys α) (p : Nat) (cl : Call α) (out : α) :
    mirrorPhase cfg s p cl out = .idle ∨ ∃ t rest, mirrorPhase cfg s p cl out = .mreading t rest cl.key out 0 0 := by
  unfold mirrorPhase
  split
  · exact mirrorNext_not_inflight cfg _ _ _
  · exact Or.inl rfl

/-- The invariant, relative to the store at position `p` that every call uses as primary. -/
structure Inv (merge : Option α → α → α × Bool) (init : Key → Option α) (kind : Backend) (p : Nat) (s : Sys α) : Prop where
  primary : s.primary = p
  phP : ∀ c, PhaseP p (s.ph c)
  kind_eq : (s.stores p).kind = kind
  wf : StoreWF (s.stores p)
  phases : ∀ c, PhaseOK (s.stores p) (s.ph c)
  chain : ∀ k, ChainR (init k) (writesOn k s.log) ((s.stores p).val k)
  /-- every successful write was applied to the value that was stored at the moment of the write -/
  current : ∀ r ∈ s.log, r.outcome = .wrote → r.inp = r.before
  facts : ∀ r ∈ s.log, RecFacts kind merge r ∧ r.store = p

theorem writesOn_cons_other {k : Key} {r : Rec α} {log : List (Rec α)}
    (h : ¬ (r.key = k ∧ r.outcome = .wrote)) : writesOn k (r :: log) = writesOn k log := by
  unfold writesOn
  rw [List.filter_cons_of_neg]
  simpa using h

theorem writesOn_cons_self {k : Key} {r : Rec α} {log : List (Rec α)}
    (h : r.key = k ∧ r.outcome = .wrote) : writesOn k (r :: log) = r :: writesOn k log := by
  unfold writesOn
  rw [List.filter_cons_of_pos]
  simpa using h

/-- a step that leaves store `p` and the log alone preserves the invariant, given the new phases. -/
theorem inv_same {merge : Option α → α → α × Bool} {init : Key → Option α} {kind : Backend} {p : Nat} {s s' : Sys α}
    (h : Inv merge init kind p s) (hprim : s'.primary = s.primary) (hst : s'.stores p = s.stores p)
    (hlog : s'.log = s.log) (hphP : ∀ c, PhaseP p (s'.ph c)) (hph : ∀ c, PhaseOK (s.stores p) (s'.ph c)) :
    Inv merge init kind p s' := by
  refine ⟨hprim.trans h.primary, hphP, by rw [hst]; exact h.kind_eq, by rw [hst]; exact h.wf, by rw [hst]; exact hph, ?_, ?_, ?_⟩
  · rw [hst, hlog]; exact h.chain
  · rw [hlog]; exact h.current
  · rw [hlog]; exact h.facts

theorem inv_next {init : Key → Option α} {kind : Backend} {p : Nat} (cfg : Cfg α) {s : Sys α}
    (hl : kind = .ml → Lawful cfg.merge) (h : Inv cfg.merge init kind p s) (ev : Ev α) (hev : NoSwitch ev) :
    Inv cfg.merge init kind p (next cfg s ev) := by
  cases ev with
  | switch ix => exact absurd hev id
  | begin c cl =>
    simp only [next]
    split
    · refine inv_same h rfl rfl rfl ?_ ?_
      · intro c'
        by_cases hc : c' = c
        · subst hc; simp only [Sys.setPh, if_true]; exact h.primary
        · simp only [Sys.setPh, hc, if_false]; exact h.phP c'
      · intro c'
        by_cases hc : c' = c
        · subst hc; simp only [Sys.setPh, if_true]
          exact ⟨fun _ => rfl, fun e _ => Nat.zero_le _⟩
        · simp only [Sys.setPh, hc, if_false]; exact h.phases c'
    · exact h
  | step c =>
    simp only [next]
    split
    · exact h
    next q cl cid att idx hph =>
      -- the read
      have hq : q = p := by have := h.phP c; rw [hph] at this; exact this
      subst hq
      refine inv_same h rfl rfl rfl ?_ ?_
      · intro c'
        by_cases hc : c' = c
        · subst hc; simp only [Sys.setPh, if_true]; rfl
        · simp only [Sys.setPh, hc, if_false]; exact h.phP c'
      · intro c'
        by_cases hc : c' = c
        · subst hc; simp only [Sys.setPh, if_true]
          have hp := h.phases c'; rw [hph] at hp
          obtain ⟨h1, h2⟩ := hp
          refine ⟨?_, ?_⟩
          · intro hn
            refine ⟨val_of_none hn, ?_⟩
            unfold readIdx; rw [hn]; simp only
            split
            · rfl
            · exact h1 hn
          · intro e he
            unfold readIdx; rw [he]; simp only
            exact ⟨Nat.le_refl _, fun _ => val_of_some he⟩
        · simp only [Sys.setPh, hc, if_false]; exact h.phases c'
    next q cl cid att idx inp hph =>
      -- apply f + conditional write
      have hq : q = p := by have := h.phP c; rw [hph] at this; exact this
      subst hq
      obtain ⟨_, _, hprim, hoth, _, r, hlog, _, _, hstore, hkey, hidx, hinp, hbefore, hafter, hcase⟩ :=
        commit_spec cfg s c q cl cid att idx inp _ rfl
      have hp := h.phases c; rw [hph] at hp
      have hl' : (s.stores q).kind = .ml → Lawful cfg.merge := fun hk => hl (h.kind_eq ▸ hk)
      rcases hcase with ⟨hoc, ⟨out, retry, _, hout, hcw, hphc⟩, hdone⟩ | ⟨hoc, hsto, hdecl, hsucc, hphc⟩
      · -- wrote
        obtain ⟨hen, v, t, c', hst, hcons, hncons, hv, hm⟩ := condWrite_wrote hcw
        obtain ⟨hfresh, _, _⟩ := write_fresh h.wf hcons hncons
        have hcur : inp = (s.stores q).val cl.key := input_current h.wf hp hen
        have hval : ((commit cfg s c q cl cid att idx inp).stores q).val cl.key = some v := by
          rw [hst]; simp [Store.val]
        refine ⟨hprim.trans h.primary, ?_, by rw [hst]; exact h.kind_eq, by rw [hst]; exact wf_write h.wf hcons hncons, ?_, ?_, ?_, ?_⟩
        · intro c'
          by_cases hc : c' = c
          · subst hc; rw [hphc]; exact mirrorPhase_phaseP cfg s q cl out
          · rw [hoth c' hc]; exact h.phP c'
        · intro c'
          rw [hst]
          by_cases hc : c' = c
          · subst hc
            rcases mirrorPhase_cases cfg s q cl out with hi | ⟨t', rest, hi⟩ <;> rw [hphc, hi] <;> trivial
          · rw [hoth c' hc]; exact phaseOK_write hfresh (h.phases c')
        · intro k
          rw [hlog]
          by_cases hk : cl.key = k
          · rw [writesOn_cons_self ⟨hkey.trans hk, hoc⟩]
            refine ⟨by rw [hafter, hk], ?_⟩
            rw [hinp, hcur, hk]; exact h.chain k
          · rw [writesOn_cons_other (fun hh => hk (hkey.symm.trans hh.1))]
            have : ((commit cfg s c q cl cid att idx inp).stores q).val k = (s.stores q).val k := by
              rw [hst]; simp [Store.val, Ne.symm hk]
            rw [this]; exact h.chain k
        · intro r' hr'
          rw [hlog] at hr'
          rcases List.mem_cons.1 hr' with rfl | hr'
          · intro _; rw [hinp, hbefore]; exact hcur
          · exact h.current r' hr'
        · intro r' hr'
          rw [hlog] at hr'
          rcases List.mem_cons.1 hr' with rfl | hr'
          · refine ⟨⟨fun _ => ⟨hdone, out, hout, ?_, ?_⟩, fun hh => absurd hoc hh, fun hh => (by rw [hoc] at hh; cases hh),
              fun _ => Or.inl hoc⟩, hstore⟩
            · intro hk; rw [hafter, hval, hv (h.kind_eq ▸ hk)]
            · intro hk; exact ⟨v, by rw [hbefore]; exact hm (h.kind_eq.trans hk), by rw [hafter, hval]⟩
          · exact h.facts r' hr'
      · -- nothing written
        have hsame := nonwrote_store hl' hsto
        refine ⟨hprim.trans h.primary, ?_, by rw [hsame]; exact h.kind_eq, by rw [hsame]; exact h.wf, ?_, ?_, ?_, ?_⟩
        · intro c'
          by_cases hc : c' = c
          · subst hc
            rcases hphc with ⟨hi, _⟩ | ⟨idx', hi, _, _⟩ <;> rw [hi]
            · trivial
            · rfl
          · rw [hoth c' hc]; exact h.phP c'
        · intro c'
          rw [hsame]
          by_cases hc : c' = c
          · subst hc
            rcases hphc with ⟨hi, _⟩ | ⟨idx', hi, hidx', _⟩
            · rw [hi]; trivial
            · rw [hi]
              obtain ⟨h1, h2⟩ := hp
              refine ⟨fun hn => ?_, fun e he => ?_⟩
              · rcases hidx' with rfl | rfl
                · exact (h1 hn).2
                · rfl
              · rcases hidx' with rfl | rfl
                · exact (h2 e he).1
                · exact Nat.zero_le _
          · rw [hoth c' hc]; exact h.phases c'
        · intro k
          rw [hlog, writesOn_cons_other (fun hh => hoc hh.2), hsame]
          exact h.chain k
        · intro r' hr'
          rw [hlog] at hr'
          rcases List.mem_cons.1 hr' with rfl | hr'
          · intro hw; exact absurd hw hoc
          · exact h.current r' hr'
        · intro r' hr'
          rw [hlog] at hr'
          rcases List.mem_cons.1 hr' with rfl | hr'
          · refine ⟨⟨fun hh => absurd hh hoc, fun _ => by rw [hafter, hbefore, hsame], hdecl, fun hd => Or.inr (hsucc hd)⟩, hstore⟩
          · exact h.facts r' hr'
    next t rest k v att idx hph =>
      refine inv_same h rfl rfl rfl ?_ ?_
      · intro c'
        by_cases hc : c' = c
        · subst hc; simp only [Sys.setPh, if_true]
          have := h.phP c'; rw [hph] at this; exact this
        · simp only [Sys.setPh, hc, if_false]; exact h.phP c'
      · intro c'
        by_cases hc : c' = c
        · subst hc; simp only [Sys.setPh, if_true]; trivial
        · simp only [Sys.setPh, hc, if_false]; exact h.phases c'
    next t rest k v att idx inp hph =>
      obtain ⟨hlog, _, _, hprim, hoth, hsto, hphc⟩ := mcommit_spec cfg s c t rest k v att idx _ rfl
      have htp : t ≠ p ∧ p ∉ rest := by have := h.phP c; rw [hph] at this; exact this
      refine inv_same h hprim (hsto p (fun hh => htp.1 hh.symm)) hlog ?_ ?_
      · intro c'
        by_cases hc : c' = c
        · subst hc
          rcases hphc with hi | ⟨a, i, hi⟩ <;> rw [hi]
          · exact mirrorNext_phaseP cfg p rest k v htp.2
          · exact htp
        · rw [hoth c' hc]; exact h.phP c'
      · intro c'
        by_cases hc : c' = c
        · subst hc
          rcases hphc with hi | ⟨a, i, hi⟩
          · rcases mirrorNext_not_inflight cfg rest k v with hj | ⟨t', r', hj⟩ <;> rw [hi, hj] <;> trivial
          · rw [hi]; trivial
        · rw [hoth c' hc]; exact h.phases c'
/-! ### calls: a call that reports failure, or declines, never wrote -/

/-- the identifier of the CAS call a caller is executing (primary loop). -/
def inflight : Phase α → Option Nat
  | .reading _ _ cid _ _ => some cid
  | .holding _ _ cid _ _ _ => some cid
  | _ => none

structure CidInv (s : Sys α) : Prop where
  logLt : ∀ r ∈ s.log, r.cid < s.nextCid
  phLt : ∀ c cid, inflight (s.ph c) = some cid → cid < s.nextCid
  uniq : ∀ c c' cid, inflight (s.ph c) = some cid → inflight (s.ph c') = some cid → c = c'
  /-- the earlier attempts of a call that is still running wrote nothing and did not end the call -/
  openClean : ∀ c cid, inflight (s.ph c) = some cid → ∀ r ∈ s.log, r.cid = cid → r.outcome ≠ .wrote ∧ r.done = none
  doneOf : ∀ r ∈ s.log, (r.outcome = .wrote → r.done = some true) ∧ (r.outcome = .declined → r.done = some true)
  /-- a call that returned an error, or whose function declined, has no successful write -/
  target : ∀ r ∈ s.log, (r.done = some false ∨ r.outcome = .declined) →
    ∀ r' ∈ s.log, r'.cid = r.cid → r'.outcome ≠ .wrote

theorem cid_same {s s' : Sys α} (h : CidInv s) (hlog : s'.log = s.log) (hn : s'.nextCid = s.nextCid)
    (hph : ∀ c cid, inflight (s'.ph c) = some cid → inflight (s.ph c) = some cid) : CidInv s' := by
  refine ⟨?_, ?_, ?_, ?_, ?_, ?_⟩
  · rw [hlog, hn]; exact h.logLt
  · intro c cid hc; rw [hn]; exact h.phLt c cid (hph c cid hc)
  · intro c c' cid hc hc'; exact h.uniq c c' cid (hph _ _ hc) (hph _ _ hc')
  · intro c cid hc; rw [hlog]; exact h.openClean c cid (hph _ _ hc)
  · rw [hlog]; exact h.doneOf
  · rw [hlog]; exact h.target

theorem cid_next (cfg : Cfg α) {s : Sys α} (h : CidInv s) (ev : Ev α) : CidInv (next cfg s ev) := by
  cases ev with
  | switch ix =>
    simp only [next]
    split
    · exact cid_same h rfl rfl (fun _ _ hc => hc)
    · exact h
  | begin c cl =>
    simp only [next]
    split
    next hidle =>
      have hph : ∀ c' cid, inflight ((s.setPh c (.reading s.primary cl s.nextCid 0 0)).ph c') = some cid →
          (c' = c ∧ cid = s.nextCid) ∨ (c' ≠ c ∧ inflight (s.ph c') = some cid) := by
        intro c' cid hc
        by_cases hcc : c' = c
        · subst hcc; rw [setPh_ph_self] at hc; simp only [inflight, Option.some.injEq] at hc; exact Or.inl ⟨rfl, hc.symm⟩
        · rw [setPh_ph_other _ _ _ _ hcc] at hc; exact Or.inr ⟨hcc, hc⟩
      refine ⟨?_, ?_, ?_, ?_, h.doneOf, h.target⟩
      · intro r hr; have := h.logLt r hr; simp only; omega
      · intro c' cid hc
        rcases hph c' cid hc with ⟨_, rfl⟩ | ⟨_, hc⟩
        · simp only; omega
        · have := h.phLt c' cid hc; simp only; omega
      · intro c1 c2 cid h1 h2
        rcases hph c1 cid h1 with ⟨e1, x1⟩ | ⟨hn1, g1⟩ <;> rcases hph c2 cid h2 with ⟨e2, x2⟩ | ⟨hn2, g2⟩
        · rw [e1, e2]
        · have := h.phLt c2 _ g2; omega
        · have := h.phLt c1 _ g1; omega
        · exact h.uniq c1 c2 cid g1 g2
      · intro c' cid hc r hr hrc
        rcases hph c' cid hc with ⟨_, rfl⟩ | ⟨_, hc⟩
        · have := h.logLt r hr; omega
        · exact h.openClean c' cid hc r hr hrc
    · exact h
  | step c =>
    simp only [next]
    split
    · exact h
    next q cl cid att idx hphc =>
      refine cid_same h rfl rfl ?_
      intro c' cid' hc
      by_cases hcc : c' = c
      · subst hcc; rw [setPh_ph_self] at hc; rw [hphc]; exact hc
      · rw [setPh_ph_other _ _ _ _ hcc] at hc; exact hc
    next q cl cid att idx inp hphc =>
      obtain ⟨hn, _, _, hoth, _, r, hlog, _, hcid, _, _, _, _, _, _, hcase⟩ := commit_spec cfg s c q cl cid att idx inp _ rfl
      have hin : inflight (s.ph c) = some cid := by rw [hphc]; rfl
      have hlt := h.phLt c cid hin
      -- other callers keep their call; they run a different call than `c`
      have hother : ∀ c' cid', c' ≠ c → inflight (s.ph c') = some cid' → cid' ≠ cid := by
        intro c' cid' hne hc' heq; subst heq; exact hne (h.uniq c' c cid' hc' hin)
      -- records of calls that ended belong to no running call
      have hended : ∀ rr ∈ s.log, rr.done ≠ none → rr.cid ≠ cid := by
        intro rr hrr hd heq; exact hd (h.openClean c cid hin rr hrr heq).2
      rcases hcase with ⟨hoc, ⟨out, _, _, _, _, hphc'⟩, hdone⟩ | ⟨hoc, _, hdecl, _, hphc'⟩
      · -- wrote: the call leaves the primary loop
        have hnone : inflight ((commit cfg s c q cl cid att idx inp).ph c) = none := by
          rcases mirrorPhase_cases cfg s q cl out with hi | ⟨t', rest, hi⟩ <;> rw [hphc', hi] <;> rfl
        have hph : ∀ c' cid', inflight ((commit cfg s c q cl cid att idx inp).ph c') = some cid' →
            c' ≠ c ∧ inflight (s.ph c') = some cid' := by
          intro c' cid' hc
          by_cases hcc : c' = c
          · subst hcc; rw [hnone] at hc; cases hc
          · rw [hoth c' hcc] at hc; exact ⟨hcc, hc⟩
        refine ⟨?_, ?_, ?_, ?_, ?_, ?_⟩
        · rw [hlog, hn]; intro r' hr'
          rcases List.mem_cons.1 hr' with rfl | hr'
          · rw [hcid]; exact hlt
          · exact h.logLt r' hr'
        · intro c' cid' hc; rw [hn]; exact h.phLt c' cid' (hph c' cid' hc).2
        · intro c1 c2 cid' h1 h2; exact h.uniq c1 c2 cid' (hph _ _ h1).2 (hph _ _ h2).2
        · intro c' cid' hc r' hr' hrc
          obtain ⟨hne, hc⟩ := hph c' cid' hc
          rw [hlog] at hr'
          rcases List.mem_cons.1 hr' with rfl | hr'
          · exact absurd (hcid.symm.trans hrc).symm (hother c' cid' hne hc)
          · exact h.openClean c' cid' hc r' hr' hrc
        · rw [hlog]; intro r' hr'
          rcases List.mem_cons.1 hr' with rfl | hr'
          · exact ⟨fun _ => hdone, fun hd => by rw [hoc] at hd; cases hd⟩
          · exact h.doneOf r' hr'
        · rw [hlog]; intro rr hrr hfail r' hr' hrc
          rcases List.mem_cons.1 hrr with rfl | hrr
          · rcases hfail with hf | hf
            · rw [hdone] at hf; cases hf
            · rw [hoc] at hf; cases hf
          · have hrrd : rr.done ≠ none := by
              rcases hfail with hf | hf
              · rw [hf]; simp
              · rw [(h.doneOf rr hrr).2 hf]; simp
            have hne := hended rr hrr hrrd
            rcases List.mem_cons.1 hr' with hrr' | hr'
            · rw [hrr', hcid] at hrc; exact absurd hrc.symm hne
            · exact h.target rr hrr hfail r' hr' hrc
      · -- nothing written
        have hph : ∀ c' cid', inflight ((commit cfg s c q cl cid att idx inp).ph c') = some cid' →
            inflight (s.ph c') = some cid' ∧ (c' = c → r.done = none) := by
          intro c' cid' hc
          by_cases hcc : c' = c
          · subst hcc
            rcases hphc' with ⟨hi, _⟩ | ⟨idx', hi, _, hd⟩
            · rw [hi] at hc; cases hc
            · rw [hi] at hc; simp only [inflight] at hc; rw [hin]; exact ⟨hc, fun _ => hd⟩
          · rw [hoth c' hcc] at hc; exact ⟨hc, fun hh => absurd hh hcc⟩
        refine ⟨?_, ?_, ?_, ?_, ?_, ?_⟩
        · rw [hlog, hn]; intro r' hr'
          rcases List.mem_cons.1 hr' with rfl | hr'
          · rw [hcid]; exact hlt
          · exact h.logLt r' hr'
        · intro c' cid' hc; rw [hn]; exact h.phLt c' cid' (hph c' cid' hc).1
        · intro c1 c2 cid' h1 h2; exact h.uniq c1 c2 cid' (hph _ _ h1).1 (hph _ _ h2).1
        · intro c' cid' hc r' hr' hrc
          obtain ⟨hc0, hdn⟩ := hph c' cid' hc
          rw [hlog] at hr'
          rcases List.mem_cons.1 hr' with rfl | hr'
          · by_cases hcc : c' = c
            · exact ⟨hoc, hdn hcc⟩
            · exact absurd (hcid.symm.trans hrc).symm (hother c' cid' hcc hc0)
          · exact h.openClean c' cid' hc0 r' hr' hrc
        · rw [hlog]; intro r' hr'
          rcases List.mem_cons.1 hr' with rfl | hr'
          · exact ⟨fun hw => absurd hw hoc, hdecl⟩
          · exact h.doneOf r' hr'
        · rw [hlog]; intro rr hrr hfail r' hr' hrc
          rcases List.mem_cons.1 hrr with rfl | hrr
          · rcases List.mem_cons.1 hr' with rfl | hr'
            · exact hoc
            · exact (h.openClean c cid hin r' hr' (hrc.trans hcid)).1
          · have hrrd : rr.done ≠ none := by
              rcases hfail with hf | hf
              · rw [hf]; simp
              · rw [(h.doneOf rr hrr).2 hf]; simp
            have hne := hended rr hrr hrrd
            rcases List.mem_cons.1 hr' with hrr' | hr'
            · rw [hrr', hcid] at hrc; exact absurd hrc.symm hne
            · exact h.target rr hrr hfail r' hr' hrc
    next t rest k v att idx hphc =>
      refine cid_same h rfl rfl ?_
      intro c' cid' hc
      by_cases hcc : c' = c
      · subst hcc; rw [setPh_ph_self] at hc; cases hc
      · rw [setPh_ph_other _ _ _ _ hcc] at hc; exact hc
    next t rest k v att idx inp hphc =>
      obtain ⟨hlog, hn, _, _, hoth, _, hphc'⟩ := mcommit_spec cfg s c t rest k v att idx _ rfl
      refine cid_same h hlog hn ?_
      intro c' cid' hc
      by_cases hcc : c' = c
      · subst hcc
        rcases hphc' with hi | ⟨a, i, hi⟩
        · rcases mirrorNext_not_inflight cfg rest k v with hj | ⟨t', r', hj⟩ <;> rw [hi, hj] at hc <;> cases hc
        · rw [hi] at hc; cases hc
      · rw [hoth c' hcc] at hc; exact hc

theorem cid_run (cfg : Cfg α) (evs : List (Ev α)) : ∀ {s : Sys α}, CidInv s → CidInv (run cfg s evs) := by
  induction evs with
  | nil => intro s h; exact h
  | cons ev evs ih => intro s h; exact ih (cid_next cfg h ev)


/-! ### runs -/

def NoSwitches (evs : List (Ev α)) : Prop := ∀ ev ∈ evs, NoSwitch ev

theorem inv_run {init : Key → Option α} {kind : Backend} {p : Nat} (cfg : Cfg α)
    (hl : kind = .ml → Lawful cfg.merge) (evs : List (Ev α)) :
    ∀ {s : Sys α}, Inv cfg.merge init kind p s → NoSwitches evs → Inv cfg.merge init kind p (run cfg s evs) := by
  induction evs with
  | nil => intro s h _; exact h
  | cons ev evs ih =>
    intro s h hns
    exact ih (inv_next cfg hl h ev (hns ev (List.mem_cons_self ..))) (fun e he => hns e (List.mem_cons_of_mem _ he))

/-- a quiescent system (nobody is inside a CAS call, empty log) whose primary store is well-formed. -/
structure Quiescent (s : Sys α) : Prop where
  wf : StoreWF (s.stores s.primary)
  idle : ∀ c, s.ph c = .idle
  log : s.log = []

theorem inv_init {merge : Option α → α → α × Bool} {s0 : Sys α} (h : Quiescent s0) :
    Inv merge (fun k => s0.pri.val k) s0.pri.kind s0.primary s0 := by
  refine ⟨rfl, ?_, rfl, h.wf, ?_, ?_, ?_, ?_⟩
  · intro c; rw [h.idle c]; trivial
  · intro c; rw [h.idle c]; trivial
  · intro k; rw [h.log]; exact rfl
  · intro r hr; rw [h.log] at hr; cases hr
  · intro r hr; rw [h.log] at hr; cases hr

theorem cid_init {s0 : Sys α} (h : Quiescent s0) : CidInv s0 := by
  refine ⟨?_, ?_, ?_, ?_, ?_, ?_⟩
  · rw [h.log]; intro r hr; cases hr
  · intro c cid hc; rw [h.idle c] at hc; cases hc
  · intro c c' cid hc; rw [h.idle c] at hc; cases hc
  · intro c cid hc; rw [h.idle c] at hc; cases hc
  · rw [h.log]; intro r hr; cases hr
  · rw [h.log]; intro r hr; cases hr

theorem wf_empty (kind : Backend) : StoreWF (Store.empty kind : Store α) := by
  intro k e he; simp [Store.empty] at he

theorem quiescent_init2 (pri sec : Store α) (multi : Bool) (h : StoreWF pri) : Quiescent (Sys.init2 pri sec multi) :=
  ⟨by simpa [Sys.init2] using h, fun _ => rfl, rfl⟩

/-- hypotheses shared by the run-level theorems: a quiescent start, the Mergeable contract when the
primary is a memberlist store, and no runtime switch of the primary during the run. -/
structure RunOK (cfg : Cfg α) (s0 : Sys α) (evs : List (Ev α)) : Prop where
  quiet : Quiescent s0
  lawful : s0.pri.kind = .ml → Lawful cfg.merge
  noSwitch : NoSwitches evs

theorem run_inv (cfg : Cfg α) (s0 : Sys α) (evs : List (Ev α)) (h : RunOK cfg s0 evs) :
    Inv cfg.merge (fun k => s0.pri.val k) s0.pri.kind s0.primary (run cfg s0 evs) :=
  inv_run cfg h.lawful evs (inv_init h.quiet) h.noSwitch

/-! ### chronological presentation of the chain -/

/-- oldest-first chain over (input, value left) pairs: every successful call was applied to the value
left by the previous one (the first to the initial value) and the final value is what the last left. -/
def Chain (init : Option α) : List (Option α × Option α) → Option α → Prop
  | [], fin => fin = init
  | (i, a) :: rest, fin => i = init ∧ Chain a rest fin

theorem chain_snoc (init : Option α) (l : List (Option α × Option α)) (i a fin : Option α) :
    Chain init (l ++ [(i, a)]) fin ↔ (fin = a ∧ Chain init l i) := by
  induction l generalizing init with
  | nil => simp only [List.nil_append, Chain]; constructor <;> (intro ⟨x, y⟩; exact ⟨y, x⟩)
  | cons p l ih =>
    obtain ⟨i', a'⟩ := p
    simp only [List.cons_append, Chain, ih]
    constructor
    · intro ⟨x, y, z⟩; exact ⟨y, x, z⟩
    · intro ⟨y, x, z⟩; exact ⟨x, y, z⟩

theorem chain_of_chainR (init : Option α) (l : List (Rec α)) (fin : Option α) (h : ChainR init l fin) :
    Chain init (l.reverse.map (fun r => (r.inp, r.after))) fin := by
  induction l generalizing fin with
  | nil => exact h
  | cons r l ih =>
    obtain ⟨h1, h2⟩ := h
    simp only [List.reverse_cons, List.map_append, List.map_cons, List.map_nil]
    exact (chain_snoc _ _ _ _ _).2 ⟨h1, ih _ h2⟩

/-- successful writes on `k` in chronological order as (input of `f`, value left). -/
def successful (k : Key) (log : List (Rec α)) : List (Option α × Option α) :=
  ((log.reverse).filter (fun r => decide (r.key = k) && decide (r.outcome = .wrote))).map (fun r => (r.inp, r.after))

/-- the same, as (input of `f`, output of `f`). -/
def successfulOut (k : Key) (log : List (Rec α)) : List (Option α × Option α) :=
  ((log.reverse).filter (fun r => decide (r.key = k) && decide (r.outcome = .wrote))).map (fun r => (r.inp, r.out))

theorem successful_eq (k : Key) (log : List (Rec α)) :
    successful k log = (writesOn k log).reverse.map (fun r => (r.inp, r.after)) := by
  unfold successful writesOn
  rw [List.filter_reverse]

theorem chain_chrono (cfg : Cfg α) (s0 : Sys α) (evs : List (Ev α)) (h : RunOK cfg s0 evs) (k : Key) :
    Chain (s0.pri.val k) (successful k (run cfg s0 evs).log) (((run cfg s0 evs).stores s0.primary).val k) := by
  rw [successful_eq]
  exact chain_of_chainR _ _ _ ((run_inv cfg s0 evs h).chain k)

/-- on consul and etcd the value left is `f`'s output, so the chain is a chain of outputs. -/
theorem successfulOut_eq (cfg : Cfg α) (s0 : Sys α) (evs : List (Ev α)) (h : RunOK cfg s0 evs)
    (hk : s0.pri.kind ≠ .ml) (k : Key) :
    successfulOut k (run cfg s0 evs).log = successful k (run cfg s0 evs).log := by
  unfold successfulOut successful
  apply List.map_congr_left
  intro r hr
  have hr' := (List.mem_filter.1 hr)
  have hmem : r ∈ (run cfg s0 evs).log := List.mem_reverse.1 hr'.1
  have hw : r.outcome = .wrote := by
    have := hr'.2; simp only [Bool.and_eq_true, decide_eq_true_eq] at this; exact this.2
  obtain ⟨_, out, ho, ha, _⟩ := ((run_inv cfg s0 evs h).facts r hmem).1.wrote hw
  rw [ho, ha hk]

/-! ### single steps -/

theorem wrote_applies_f (cfg : Cfg α) (s : Sys α) (c p : Nat) (cl : Call α) (cid att idx : Nat) (inp : Option α)
    (hp : s.ph c = .holding p cl cid att idx inp) :
    ∃ r, (next cfg s (.step c)).log = r :: s.log ∧ r.inp = inp ∧ r.key = cl.key ∧ r.store = p ∧
      (r.outcome = .wrote → ∃ out retry, cl.f att inp = .write out retry ∧ r.out = some out) := by
  have : next cfg s (.step c) = commit cfg s c p cl cid att idx inp := by simp only [next, hp]
  rw [this]
  obtain ⟨_, _, _, _, _, r, hlog, _, _, hstore, hkey, _, hinp, _, _, hcase⟩ := commit_spec cfg s c p cl cid att idx inp _ rfl
  refine ⟨r, hlog, hinp, hkey, hstore, fun hw => ?_⟩
  rcases hcase with ⟨_, ⟨out, retry, hf, ho, _⟩, _⟩ | ⟨hoc, _⟩
  · exact ⟨out, retry, hf, ho⟩
  · exact absurd hw hoc

theorem wrote_ends_call (cfg : Cfg α) (s : Sys α) (c p : Nat) (cl : Call α) (cid att idx : Nat) (inp : Option α)
    (hp : s.ph c = .holding p cl cid att idx inp) (r : Rec α)
    (hl : (next cfg s (.step c)).log = r :: s.log) (hw : r.outcome = .wrote) :
    r.done = some true ∧ inflight ((next cfg s (.step c)).ph c) = none := by
  have : next cfg s (.step c) = commit cfg s c p cl cid att idx inp := by simp only [next, hp]
  rw [this] at hl ⊢
  obtain ⟨_, _, _, _, _, r0, hlog, _, _, _, _, _, _, _, _, hcase⟩ := commit_spec cfg s c p cl cid att idx inp _ rfl
  have : r0 = r := by rw [hlog] at hl; exact (List.cons.inj hl).1
  subst this
  rcases hcase with ⟨_, ⟨out, _, _, _, _, hph⟩, hd⟩ | ⟨hoc, _⟩
  · refine ⟨hd, ?_⟩
    rcases mirrorPhase_cases cfg s p cl out with hi | ⟨t, rest, hi⟩ <;> rw [hph, hi] <;> rfl
  · exact absurd hw hoc

/-- after a successful write through a mirroring `MultiClient` the caller starts the loop of
`writeToSecondary` over `mirrorTargets clients p`, i.e. over every client except its primary. -/
theorem mirror_loop_targets (cfg : Cfg α) (s : Sys α) (c p : Nat) (cl : Call α) (cid att idx : Nat) (inp : Option α)
    (hp : s.ph c = .holding p cl cid att idx inp) (hm : cl.mirror = true) (hb : 0 < cfg.sbudget) (r : Rec α)
    (hl : (next cfg s (.step c)).log = r :: s.log) (hw : r.outcome = .wrote) :
    ∃ out, r.out = some out ∧
      (next cfg s (.step c)).ph c =
        (match mirrorTargets s.clients p with
         | [] => .idle
         | t :: rest => .mreading t rest cl.key out 0 0) := by
  have : next cfg s (.step c) = commit cfg s c p cl cid att idx inp := by simp only [next, hp]
  rw [this] at hl ⊢
  obtain ⟨_, _, _, _, _, r0, hlog, _, _, _, _, _, _, _, _, hcase⟩ := commit_spec cfg s c p cl cid att idx inp _ rfl
  have : r0 = r := by rw [hlog] at hl; exact (List.cons.inj hl).1
  subst this
  rcases hcase with ⟨_, ⟨out, _, _, ho, _, hph⟩, _⟩ | ⟨hoc, _⟩
  · refine ⟨out, ho, ?_⟩
    rw [hph]; unfold mirrorPhase mirrorNext; rw [if_pos hm]
    cases mirrorTargets s.clients p with
    | nil => rfl
    | cons t rest => simp only [if_pos hb]
  · exact absurd hw hoc

/-- The value of a key in store `p` changes only in a step that logs a successful write on that key
by a call whose primary is `p` — provided no mirror loop is aimed at `p` (`PhaseP`). -/
theorem non_write_steps_noop (cfg : Cfg α) (s : Sys α) (p : Nat)
    (hl : (s.stores p).kind = .ml → Lawful cfg.merge) (hP : ∀ c, PhaseP p (s.ph c)) (ev : Ev α) (k : Key)
    (h : ((next cfg s ev).stores p).val k ≠ (s.stores p).val k) :
    ∃ r, (next cfg s ev).log = r :: s.log ∧ r.outcome = .wrote ∧ r.key = k ∧ r.store = p := by
  cases ev with
  | begin c cl => exfalso; apply h; simp only [next]; split <;> rfl
  | switch ix => exfalso; apply h; simp only [next]; split <;> rfl
  | step c =>
    simp only [next] at h ⊢
    split at h
    · exact absurd rfl h
    · exact absurd rfl h
    next q cl cid att idx inp hph =>
      have hq : q = p := by have := hP c; rw [hph] at this; exact this
      subst hq
      obtain ⟨_, _, _, _, _, r, hlog, _, _, hstore, hkey, _, _, _, _, hcase⟩ := commit_spec cfg s c q cl cid att idx inp _ rfl
      rcases hcase with ⟨hoc, ⟨out, retry, _, _, hcw, _⟩, _⟩ | ⟨hoc, hsto, _⟩
      · refine ⟨r, hlog, hoc, ?_, hstore⟩
        apply Classical.byContradiction
        intro hk
        apply h
        have := (condWrite_frame hcw).2 k (fun hh => hk (hkey.trans hh.symm))
        simp only [Store.val, this]
      · exact absurd (by rw [nonwrote_store hl hsto]) h
    · exact absurd rfl h
    next t rest k' v att idx inp hph =>
      have htp : t ≠ p ∧ p ∉ rest := by have := hP c; rw [hph] at this; exact this
      obtain ⟨_, _, _, _, _, hsto, _⟩ := mcommit_spec cfg s c t rest k' v att idx _ rfl
      exact absurd (by rw [hsto p (fun hh => htp.1 hh.symm)]) h

/-- a step of a mirror loop aimed at store `t` changes at most store `t`; the log of primary attempts
and the other callers are untouched. -/
theorem mirror_step_frame (cfg : Cfg α) (s : Sys α) (c : Nat) (h : inMirror (s.ph c)) :
    (next cfg s (.step c)).log = s.log ∧ (∀ c', c' ≠ c → (next cfg s (.step c)).ph c' = s.ph c') ∧
    ∀ i, (∀ t rest k v att idx, s.ph c ≠ .mreading t rest k v att idx) →
      (∀ rest k v att idx inp, s.ph c ≠ .mholding i rest k v att idx inp) →
      (next cfg s (.step c)).stores i = s.stores i := by
  simp only [next]
  split
  next hp => rw [hp] at h; cases h
  next hp => rw [hp] at h; cases h
  next hp => rw [hp] at h; cases h
  next t rest k v att idx hp =>
    exact ⟨rfl, fun c' hc => setPh_ph_other _ _ _ _ hc, fun i h1 _ => absurd hp (h1 t rest k v att idx)⟩
  next t rest k v att idx inp hp =>
    obtain ⟨h1, _, _, _, h3, h4, _⟩ := mcommit_spec cfg s c t rest k v att idx _ rfl
    refine ⟨h1, h3, fun i _ h2 => h4 i ?_⟩
    intro hi; subst hi; exact h2 rest k v att idx inp hp

/-- every event of a primary loop on store `p` (and `begin`, `switch`) leaves the other stores alone. -/
theorem primary_step_frame (cfg : Cfg α) (s : Sys α) (ev : Ev α)
    (h : ∀ c, ev = .step c → ¬ inMirror (s.ph c)) (i : Nat)
    (hi : ∀ c q cl cid att idx inp, ev = .step c → s.ph c = .holding q cl cid att idx inp → q ≠ i) :
    (next cfg s ev).stores i = s.stores i := by
  cases ev with
  | begin c cl => simp only [next]; split <;> rfl
  | switch ix => simp only [next]; split <;> rfl
  | step c =>
    have h := h c rfl
    simp only [next]
    split
    · rfl
    · rfl
    next q cl cid att idx inp hp =>
      exact (commit_spec cfg s c q cl cid att idx inp _ rfl).2.2.2.2.1 i (fun hh => hi c q cl cid att idx inp rfl hp hh.symm)
    next hp => rw [hp] at h; exact absurd trivial h
    next hp => rw [hp] at h; exact absurd trivial h

/-- An undisturbed mirror write (Get, then conditional write, nothing in between) on a consul or etcd
store leaves exactly the value the primary CAS wrote. -/
theorem mirror_copies_undisturbed (cfg : Cfg α) (s : Sys α) (c t : Nat) (rest : List Nat) (k : Key) (v : α)
    (hp : s.ph c = .mreading t rest k v 0 0) (hk : (s.stores t).kind ≠ .ml) :
    ((next cfg (next cfg s (.step c)) (.step c)).stores t).val k = some v := by
  have h1 : next cfg s (.step c) =
      s.setPh c (.mholding t rest k v 0 (readIdx (s.stores t) k 0) ((s.stores t).val k)) := by
    simp only [next, hp]
  rw [h1]
  have h2 : (s.setPh c (.mholding t rest k v 0 (readIdx (s.stores t) k 0) ((s.stores t).val k))).ph c =
      .mholding t rest k v 0 (readIdx (s.stores t) k 0) ((s.stores t).val k) := setPh_ph_self _ _ _
  simp only [next, h2, mcommit]
  have hsec : (s.setPh c (.mholding t rest k v 0 (readIdx (s.stores t) k 0) ((s.stores t).val k))).stores t = s.stores t := rfl
  rw [hsec]
  have hw : ∃ st, condWrite cfg.merge (s.stores t) k (readIdx (s.stores t) k 0) v = (st, .wrote) ∧ st.val k = some v := by
    unfold condWrite readIdx
    cases hkind : (s.stores t).kind with
    | ml => exact absurd hkind hk
    | consul =>
      cases he : (s.stores t).ent k with
      | none => exact ⟨_, rfl, by simp [Store.val, Store.set]⟩
      | some e => simp only [ne_eq, not_true_eq_false, if_false]; exact ⟨_, rfl, by simp [Store.val, Store.set]⟩
    | etcd =>
      cases he : (s.stores t).ent k with
      | none => simp only [ver_of_none he, ne_eq, not_true_eq_false, if_false]; exact ⟨_, rfl, by simp [Store.val, Store.set]⟩
      | some e => simp only [ver_of_some he, ne_eq, not_true_eq_false, if_false]; exact ⟨_, rfl, by simp [Store.val, Store.set]⟩
  obtain ⟨st, hcw, hv⟩ := hw
  rw [hcw]
  simp only [Sys.setPh, Sys.setStore, if_true]
  exact hv

/-! ### run-level statements about records -/

theorem run_facts (cfg : Cfg α) (s0 : Sys α) (evs : List (Ev α)) (h : RunOK cfg s0 evs)
    (r : Rec α) (hr : r ∈ (run cfg s0 evs).log) : RecFacts s0.pri.kind cfg.merge r ∧ r.store = s0.primary :=
  (run_inv cfg s0 evs h).facts r hr

theorem wrote_input_current (cfg : Cfg α) (s0 : Sys α) (evs : List (Ev α)) (h : RunOK cfg s0 evs)
    (r : Rec α) (hr : r ∈ (run cfg s0 evs).log) (hw : r.outcome = .wrote) : r.inp = r.before :=
  (run_inv cfg s0 evs h).current r hr hw

theorem failed_or_declined_noop (cfg : Cfg α) (s0 : Sys α) (evs : List (Ev α)) (h : RunOK cfg s0 evs)
    (r : Rec α) (hr : r ∈ (run cfg s0 evs).log) (hfail : r.done = some false ∨ r.outcome = .declined)
    (r' : Rec α) (hr' : r' ∈ (run cfg s0 evs).log) (hsame : r'.cid = r.cid) :
    r'.outcome ≠ .wrote ∧ r'.after = r'.before := by
  have hne := (cid_run cfg evs (cid_init h.quiet)).target r hr hfail r' hr' hsame
  exact ⟨hne, (run_facts cfg s0 evs h r' hr').1.other hne⟩

/-- In every reachable state a caller that read the key as absent holds token 0 and input `none`
as long as the key is still absent: the token variable kept across attempts (consul, etcd) and
consul's "an absent key accepts any index" never matter in a run (no Delete). -/
theorem absent_read_holds_zero_token (cfg : Cfg α) (s0 : Sys α) (evs : List (Ev α)) (h : RunOK cfg s0 evs)
    (c q : Nat) (cl : Call α) (cid att idx : Nat) (inp : Option α)
    (hp : (run cfg s0 evs).ph c = .holding q cl cid att idx inp)
    (habs : ((run cfg s0 evs).stores s0.primary).ent cl.key = none) : q = s0.primary ∧ inp = none ∧ idx = 0 := by
  have hi := run_inv cfg s0 evs h
  have h1 := hi.phP c; rw [hp] at h1
  have h2 := hi.phases c; rw [hp] at h2
  exact ⟨h1, h2.1 habs⟩

/-- in a run without runtime switch no mirror loop is ever aimed at the primary store. -/
theorem mirror_never_targets_primary (cfg : Cfg α) (s0 : Sys α) (evs : List (Ev α)) (h : RunOK cfg s0 evs) (c : Nat) :
    PhaseP s0.primary ((run cfg s0 evs).ph c) :=
  (run_inv cfg s0 evs h).phP c

/-! ### wrappers -/

theorem prefixKey_inj (p k1 k2 : Key) (h : prefixKey p k1 = prefixKey p k2) : k1 = k2 :=
  List.append_cancel_left h

theorem wrapKey_inj (ws : List Wrap) : ∀ k1 k2 : Key, wrapKey ws k1 = wrapKey ws k2 → k1 = k2 := by
  induction ws with
  | nil => intro k1 k2 h; exact h
  | cons w ws ih =>
    intro k1 k2 h
    cases w with
    | pfx p => exact prefixKey_inj p k1 k2 (ih _ _ h)
    | metrics => exact ih _ _ h
    | multi m => exact ih _ _ h

theorem wrapKey_metrics (ws2 : List Wrap) : ∀ (ws1 : List Wrap) (k : Key),
    wrapKey (ws1 ++ .metrics :: ws2) k = wrapKey (ws1 ++ ws2) k := by
  intro ws1
  induction ws1 with
  | nil => intro k; rfl
  | cons w ws ih => intro k; cases w <;> simp only [List.cons_append, wrapKey, ih]

theorem wrapMirror_metrics (ws2 : List Wrap) : ∀ ws1 : List Wrap,
    wrapMirror (ws1 ++ .metrics :: ws2) = wrapMirror (ws1 ++ ws2) := by
  intro ws1
  induction ws1 with
  | nil => rfl
  | cons w ws ih => cases w <;> simp only [List.cons_append, wrapMirror, ih]

/-- the metrics wrapper is a pass-through: with it anywhere in the stack, a user call becomes the
same store-level call. -/
theorem metrics_passthrough_call (ws1 ws2 : List Wrap) (u : UCall α) :
    wrapCall (ws1 ++ .metrics :: ws2) u = wrapCall (ws1 ++ ws2) u := by
  simp only [wrapCall, wrapKey_metrics, wrapMirror_metrics]

theorem metrics_passthrough_ev (ws1 ws2 : List Wrap) (e : UEv α) :
    wrapEv (ws1 ++ .metrics :: ws2) e = wrapEv (ws1 ++ ws2) e := by
  cases e with
  | begin c u => simp only [wrapEv, metrics_passthrough_call]
  | step c => rfl
  | switch ix => rfl

/-- hence every run through a stack with the metrics wrapper is, state for state, the run without it. -/
theorem metrics_refines (cfg : Cfg α) (s : Sys α) (ws1 ws2 : List Wrap) (uevs : List (UEv α)) :
    run cfg s (uevs.map (wrapEv (ws1 ++ .metrics :: ws2))) = run cfg s (uevs.map (wrapEv (ws1 ++ ws2))) := by
  congr 1
  apply List.map_congr_left
  intro e _; exact metrics_passthrough_ev ws1 ws2 e

def UNoSwitch : UEv α → Prop
  | .switch _ => False
  | _ => True

theorem wrap_noSwitches (ws : List Wrap) (uevs : List (UEv α)) (h : ∀ e ∈ uevs, UNoSwitch e) :
    NoSwitches (uevs.map (wrapEv ws)) := by
  intro ev hev
  obtain ⟨e, he, rfl⟩ := List.mem_map.1 hev
  have := h e he
  cases e <;> first | trivial | exact this

/-! ### statements about records of a run, by backend -/

theorem wrote_leaves_output (cfg : Cfg α) (s0 : Sys α) (evs : List (Ev α)) (h : RunOK cfg s0 evs)
    (hk : s0.pri.kind ≠ .ml) (r : Rec α) (hr : r ∈ (run cfg s0 evs).log) (hw : r.outcome = .wrote) :
    r.done = some true ∧ ∃ out, r.out = some out ∧ r.after = some out := by
  obtain ⟨hd, out, ho, ha, _⟩ := (run_facts cfg s0 evs h r hr).1.wrote hw
  exact ⟨hd, out, ho, ha hk⟩

theorem ml_wrote_leaves_merge (cfg : Cfg α) (s0 : Sys α) (evs : List (Ev α)) (h : RunOK cfg s0 evs)
    (hk : s0.pri.kind = .ml) (r : Rec α) (hr : r ∈ (run cfg s0 evs).log) (hw : r.outcome = .wrote) :
    r.done = some true ∧ ∃ out v, r.out = some out ∧ cfg.merge r.before out = (v, true) ∧ r.after = some v := by
  obtain ⟨hd, out, ho, _, ha⟩ := (run_facts cfg s0 evs h r hr).1.wrote hw
  obtain ⟨v, hm, hv⟩ := ha hk
  exact ⟨hd, out, v, ho, hm, hv⟩

theorem ml_no_lost_update (cfg : Cfg α) (s0 : Sys α) (evs : List (Ev α)) (h : RunOK cfg s0 evs)
    (hk : s0.pri.kind = .ml) (r : Rec α) (hr : r ∈ (run cfg s0 evs).log) (hw : r.outcome = .wrote) :
    r.inp = r.before ∧ ∀ out, r.out = some out → cfg.merge r.inp out = (out, true) → r.after = some out := by
  have h1 := wrote_input_current cfg s0 evs h r hr hw
  obtain ⟨_, out, v, ho, hm, hv⟩ := ml_wrote_leaves_merge cfg s0 evs h hk r hr hw
  refine ⟨h1, fun out' ho' hm' => ?_⟩
  rw [ho] at ho'; cases ho'
  rw [h1, hm] at hm'
  rw [hv]; exact congrArg some (Prod.mk.inj hm').1

/-- with a merge under which every recorded successful write leaves exactly `f`'s output (functions
that only grow the value), the memberlist chain is a chain of outputs too. -/
theorem successfulOut_eq_of (log : List (Rec α)) (k : Key)
    (h : ∀ r ∈ log, r.outcome = .wrote → r.after = r.out) : successfulOut k log = successful k log := by
  unfold successfulOut successful
  apply List.map_congr_left
  intro r hr
  have hr' := (List.mem_filter.1 hr)
  have hw : r.outcome = .wrote := by
    have := hr'.2; simp only [Bool.and_eq_true, decide_eq_true_eq] at this; exact this.2
  rw [h r (List.mem_reverse.1 hr'.1) hw]

/-- the touch-free variant of the harness merge honours the Mergeable contract. -/
theorem lawful_mergeWith_false : Lawful (Val.mergeWith false) := by
  intro v out r h
  simp only [Val.mergeWith] at h
  split at h
  · simp only [Bool.false_eq_true, if_false, Prod.mk.injEq, and_true] at h; exact h.symm
  · simp at h

end PfC07
