import Model.C15
import Proofs.C14.Desc2
import Proofs.C15.Groups
import Proofs.C15.Multi
import Proofs.C15.Sets
/-! C15 proofs: partition state machine (edges, lock, promotion, deletion), replication sets.
Routing (`ActivePartitionForKey`) is proved in `Proofs/C14/Route.lean` + `Proofs/C14/Desc.lean`. -/
namespace PfC15
open C14 C15

/-! ### association-list facts -/

theorem mem_setPart {p q : Part} : ∀ {l : List Part}, q ∈ setPart p l → q = p ∨ q ∈ l
  | [], h => by simp [setPart] at h; exact Or.inl h
  | a :: l, h => by
    unfold setPart at h
    split at h
    · rcases List.mem_cons.mp h with h | h
      · exact Or.inl h
      · exact Or.inr h
    · split at h
      · rcases List.mem_cons.mp h with h | h
        · exact Or.inl h
        · exact Or.inr (List.mem_cons_of_mem _ h)
      · rcases List.mem_cons.mp h with h | h
        · exact Or.inr (by rw [h]; exact List.mem_cons_self)
        · rcases mem_setPart h with h | h
          · exact Or.inl h
          · exact Or.inr (List.mem_cons_of_mem _ h)

theorem setPart_keeps_ids {p x : Part} : ∀ {l : List Part}, x ∈ l → ∃ q ∈ setPart p l, q.id = x.id
  | [], h => by simp at h
  | a :: l, h => by
    unfold setPart
    split
    · exact ⟨x, List.mem_cons_of_mem _ h, rfl⟩
    · split
      · rename_i heq
        rcases List.mem_cons.mp h with h | h
        · exact ⟨p, List.mem_cons_self, by rw [h]; simpa using heq⟩
        · exact ⟨x, List.mem_cons_of_mem _ h, rfl⟩
      · rcases List.mem_cons.mp h with h | h
        · exact ⟨a, List.mem_cons_self, by rw [h]⟩
        · obtain ⟨q, hq, hid⟩ := setPart_keeps_ids (p := p) h
          exact ⟨q, List.mem_cons_of_mem _ hq, hid⟩

theorem mem_setPart_self {p : Part} : ∀ {l : List Part}, p ∈ setPart p l
  | [] => by simp [setPart]
  | a :: l => by
    unfold setPart
    split
    · exact List.mem_cons_self
    · split
      · exact List.mem_cons_self
      · exact List.mem_cons_of_mem _ mem_setPart_self

theorem get?_some {d : PDesc} {id : Int} {p : Part} (h : d.get? id = some p) : p ∈ d.parts ∧ p.id = id := by
  unfold PDesc.get? at h
  exact ⟨List.mem_of_find?_eq_some h, by simpa using List.find?_some h⟩

theorem get?_none {d : PDesc} {id : Int} (h : d.get? id = none) : ∀ p ∈ d.parts, p.id ≠ id := by
  unfold PDesc.get? at h
  intro p hp
  have := List.find?_eq_none.mp h p hp
  simpa using this

theorem addOrUpdateOwner_parts {d d' : PDesc} {id : String} {st : Nat} {pid now : Int}
    (h : addOrUpdateOwner d id st pid now = some d') : d'.parts = d.parts := by
  unfold addOrUpdateOwner at h
  split at h
  · split at h
    · cases h
    · cases h; rfl
  · cases h; rfl

theorem removeOwner_parts {d d' : PDesc} {id : String} (h : removeOwner d id = some d') : d'.parts = d.parts := by
  unfold removeOwner at h
  split at h
  · cases h
  · cases h; rfl

/-! ### the step relation every written version satisfies -/

/-- the legal edges of the property text: pending → active | inactive, active ↔ inactive -/
def Edge (a b : Nat) : Prop :=
  (a = sPending ∧ b = sActive) ∨ (a = sPending ∧ b = sInactive) ∨ (a = sActive ∧ b = sInactive) ∨
  (a = sInactive ∧ b = sActive)

theorem allowed_iff_edge (a b : Nat) : allowed a b = true ↔ Edge a b := by
  simp only [allowed, Edge, sPending, sActive, sInactive, Bool.or_eq_true, Bool.and_eq_true, beq_iff_eq]
  constructor
  · intro h; rcases h with (⟨h1, h2 | h2⟩ | h) | h
    · exact Or.inl ⟨h1, h2⟩
    · exact Or.inr (Or.inl ⟨h1, h2⟩)
    · exact Or.inr (Or.inr (Or.inl h))
    · exact Or.inr (Or.inr (Or.inr h))
  · intro h; rcases h with h | h | h | h
    · exact Or.inl (Or.inl ⟨h.1, Or.inl h.2⟩)
    · exact Or.inl (Or.inl ⟨h.1, Or.inr h.2⟩)
    · exact Or.inl (Or.inr h)
    · exact Or.inr h

/-- `old → new` respects the state machine: every partition of the new version kept the state of an old
partition with its id, or moved along a legal edge from an UNLOCKED old partition with its id, or is new
and PENDING. -/
def StepOK (old new : PDesc) : Prop :=
  ∀ q ∈ new.parts,
    (∃ p ∈ old.parts, p.id = q.id ∧ (q.state = p.state ∨ (Edge p.state q.state ∧ p.locked = false))) ∨
    ((∀ p ∈ old.parts, p.id ≠ q.id) ∧ q.state = sPending)

theorem stepOK_of_parts_eq {d d' : PDesc} (h : d'.parts = d.parts) : StepOK d d' := by
  intro q hq; rw [h] at hq
  exact Or.inl ⟨q, hq, rfl, Or.inl rfl⟩

theorem stepOK_of_subset {d d' : PDesc} (h : ∀ q ∈ d'.parts, q ∈ d.parts) : StepOK d d' := by
  intro q hq
  exact Or.inl ⟨q, h q hq, rfl, Or.inl rfl⟩

theorem updatePartitionState_spec {d d' : PDesc} {id : Int} {st : Nat} {now : Int}
    (h : updatePartitionState d id st now = .ok (some d')) :
    ∃ p, d.get? id = some p ∧ p.state ≠ st ∧ p.locked = false ∧
      d' = { d with parts := setPart { p with state := st, stateTs := now } d.parts } := by
  unfold updatePartitionState at h
  split at h
  · cases h
  · rename_i p hp
    split at h
    · cases h
    · rename_i hne
      split at h
      · cases h
      · rename_i hl
        cases h
        exact ⟨p, hp, by simpa using hne, by simpa using hl, rfl⟩

theorem stepOK_update {d d' : PDesc} {id : Int} {st : Nat} {now : Int}
    (h : updatePartitionState d id st now = .ok (some d')) (hedge : ∀ p, d.get? id = some p → Edge p.state st) :
    StepOK d d' := by
  obtain ⟨p, hp, _, hl, rfl⟩ := updatePartitionState_spec h
  have ⟨hpm, _⟩ := get?_some hp
  intro q hq
  rcases mem_setPart hq with rfl | hq
  · exact Or.inl ⟨p, hpm, rfl, Or.inr ⟨hedge p hp, hl⟩⟩
  · exact Or.inl ⟨q, hq, rfl, Or.inl rfl⟩

/-- **state edges and lock**: every store update of the editor and of a lifecycler respects the state machine. -/
theorem step_stepOK (d d' : PDesc) (op : Op) (h : step d op = .ok (some d')) : StepOK d d' := by
  cases op with
  | change pid to now =>
    simp only [step, changePartitionState] at h
    split at h
    · cases h
    · rename_i p hp
      split at h
      · cases h
      · split at h
        · cases h
        · rename_i hall
          apply stepOK_update h
          intro p' hp'
          rw [hp] at hp'; cases hp'
          exact (allowed_iff_edge _ _).mp (by simpa using hall)
  | lock pid l now =>
    simp only [step, setLock] at h
    split at h
    · cases h
    · rename_i p hp
      split at h
      · cases h
      · cases h
        have ⟨hpm, _⟩ := get?_some hp
        intro q hq
        rcases mem_setPart hq with rfl | hq
        · exact Or.inl ⟨p, hpm, rfl, Or.inl rfl⟩
        · exact Or.inl ⟨q, hq, rfl, Or.inl rfl⟩
  | removeMultiOwner inst pid =>
    simp only [step] at h
    exact stepOK_of_parts_eq (removeOwner_parts (by simpa using h))
  | create c toks now =>
    simp only [step, createAndRegister] at h
    cases hg : d.get? c.pid with
    | some p =>
      simp only [hg] at h
      split at h
      · rename_i d2 h2
        cases h
        exact stepOK_of_parts_eq (addOrUpdateOwner_parts h2)
      · simp at h
    | none =>
      simp only [hg] at h
      have hnew : ∀ q, q ∈ setPart ({ id := c.pid, state := sPending, stateTs := now, tokens := toks } : Part) d.parts →
          (∃ p ∈ d.parts, p.id = q.id ∧ (q.state = p.state ∨ (Edge p.state q.state ∧ p.locked = false))) ∨
          ((∀ p ∈ d.parts, p.id ≠ q.id) ∧ q.state = sPending) := by
        intro q hq
        rcases mem_setPart hq with rfl | hq
        · exact Or.inr ⟨get?_none hg, rfl⟩
        · exact Or.inl ⟨q, hq, rfl, Or.inl rfl⟩
      split at h
      · rename_i d2 h2
        cases h
        intro q hq
        rw [addOrUpdateOwner_parts h2] at hq
        exact hnew q hq
      · simp only [if_true] at h
        cases h
        exact hnew
  | wait c now =>
    simp only [step, waitAndRegister] at h
    exact stepOK_of_parts_eq (addOrUpdateOwner_parts (by simpa using h))
  | reconcileOwned c now =>
    simp only [step, reconcileOwned] at h
    split at h
    · cases h
    · rename_i p hp
      split at h
      · rename_i hcond
        apply stepOK_update h
        intro p' hp'
        rw [hp] at hp'; cases hp'
        have : p.state = sPending := by
          simp only [Bool.and_eq_true, beq_iff_eq] at hcond; exact hcond.1
        rw [this]; exact Or.inl ⟨rfl, rfl⟩
      · cases h
  | reconcileOthers c now =>
    simp only [step, reconcileOthers] at h
    split at h
    · cases h
      exact stepOK_of_subset (fun q hq => (List.mem_filter.mp hq).1)
    · cases h
  | stopping c rm =>
    simp only [step, stopping] at h
    split at h
    · exact stepOK_of_parts_eq (removeOwner_parts (by simpa using h))
    · cases h

/-- every version written along ANY history of editor/lifecycler operations respects the state machine -/
theorem history_stepOK (d : PDesc) (op : Op) : StepOK d (C15.apply d op) := by
  unfold C15.apply
  cases h : step d op with
  | error e => exact stepOK_of_parts_eq rfl
  | ok r =>
    cases r with
    | none => exact stepOK_of_parts_eq rfl
    | some d' => exact step_stepOK d d' op h

/-! ### promotion -/

/-- **promotion guard**: the automatic PENDING → ACTIVE switch. -/
theorem reconcileOwned_guard (d d' : PDesc) (c : Cfg) (now : Int) (h : reconcileOwned d c now = .ok (some d')) :
    ∃ p, d.get? c.pid = some p ∧ p.state = sPending ∧ p.locked = false ∧
      ownersCountUpdatedBefore d c.pid (now - c.waitDur) ≥ c.waitCount ∧
      d' = { d with parts := setPart { p with state := sActive, stateTs := now } d.parts } := by
  unfold reconcileOwned at h
  split at h
  · cases h
  · rename_i p hp
    split at h
    · rename_i hcond
      obtain ⟨p', hp', _, hl, hd⟩ := updatePartitionState_spec h
      rw [hp] at hp'; cases hp'
      simp only [Bool.and_eq_true, beq_iff_eq, decide_eq_true_eq] at hcond
      exact ⟨p, hp, hcond.1, hl, hcond.2, hd⟩
    · cases h

/-- a state changes only in `change` (manual) and `reconcileOwned` (automatic) updates -/
theorem other_ops_keep_states (d d' : PDesc) (op : Op) (h : step d op = .ok (some d'))
    (hop : (∀ pid to now, op ≠ .change pid to now) ∧ (∀ c now, op ≠ .reconcileOwned c now)) :
    ∀ q ∈ d'.parts, (∃ p ∈ d.parts, p.id = q.id ∧ q.state = p.state) ∨ ((∀ p ∈ d.parts, p.id ≠ q.id) ∧ q.state = sPending) := by
  have hok := step_stepOK d d' op h
  cases op with
  | change pid to now => exact absurd rfl (hop.1 pid to now)
  | reconcileOwned c now => exact absurd rfl (hop.2 c now)
  | lock pid l now =>
    simp only [step, setLock] at h
    split at h
    · cases h
    · rename_i p hp
      split at h
      · cases h
      · cases h
        have ⟨hpm, _⟩ := get?_some hp
        intro q hq
        rcases mem_setPart hq with rfl | hq
        · exact Or.inl ⟨p, hpm, rfl, rfl⟩
        · exact Or.inl ⟨q, hq, rfl, rfl⟩
  | removeMultiOwner inst pid =>
    simp only [step] at h
    intro q hq; rw [removeOwner_parts (by simpa using h)] at hq
    exact Or.inl ⟨q, hq, rfl, rfl⟩
  | wait c now =>
    simp only [step, waitAndRegister] at h
    intro q hq; rw [addOrUpdateOwner_parts (by simpa using h)] at hq
    exact Or.inl ⟨q, hq, rfl, rfl⟩
  | reconcileOthers c now =>
    simp only [step, reconcileOthers] at h
    split at h
    · cases h
      intro q hq
      exact Or.inl ⟨q, (List.mem_filter.mp hq).1, rfl, rfl⟩
    · cases h
  | stopping c rm =>
    simp only [step, stopping] at h
    split at h
    · intro q hq; rw [removeOwner_parts (by simpa using h)] at hq
      exact Or.inl ⟨q, hq, rfl, rfl⟩
    · cases h
  | create c toks now =>
    intro q hq
    rcases hok q hq with ⟨p, hp, hid, hst | ⟨hedge, _⟩⟩ | hnew
    · exact Or.inl ⟨p, hp, hid, hst⟩
    · -- create never moves an existing partition: re-derive from the definition
      simp only [step, createAndRegister] at h
      cases hg : d.get? c.pid with
      | some p0 =>
        simp only [hg] at h
        split at h
        · rename_i d2 h2
          cases h
          rw [addOrUpdateOwner_parts h2] at hq
          exact Or.inl ⟨q, hq, rfl, rfl⟩
        · simp at h
      | none =>
        simp only [hg] at h
        have hmem : q ∈ setPart ({ id := c.pid, state := sPending, stateTs := now, tokens := toks } : Part) d.parts := by
          split at h
          · rename_i d2 h2
            cases h
            rw [addOrUpdateOwner_parts h2] at hq; exact hq
          · simp only [if_true] at h
            cases h; exact hq
        rcases mem_setPart hmem with rfl | hq'
        · exact Or.inr ⟨get?_none hg, rfl⟩
        · exact Or.inl ⟨q, hq', rfl, rfl⟩
    · exact Or.inr hnew

/-! ### deletion -/

/-- **deletion guard** -/
theorem reconcileOthers_guard (d d' : PDesc) (c : Cfg) (now : Int) (h : reconcileOthers d c now = .ok (some d')) :
    d'.owners = d.owners ∧ (∀ q ∈ d'.parts, q ∈ d.parts) ∧
    ∀ p ∈ d.parts, p ∉ d'.parts →
      c.deleteAfter > 0 ∧ p.id ≠ c.pid ∧ p.state = sInactive ∧ p.stateTs < now - c.deleteAfter ∧ ownersCount d p.id = 0 := by
  unfold reconcileOthers at h
  split at h
  · cases h
    refine ⟨rfl, fun q hq => (List.mem_filter.mp hq).1, ?_⟩
    intro p hp hnot
    have : deletable d c now p = true := by
      cases hdel : deletable d c now p with
      | true => rfl
      | false => exact absurd (List.mem_filter.mpr ⟨hp, by simp [hdel]⟩) hnot
    simp only [deletable, Bool.and_eq_true, decide_eq_true_eq, bne_iff_ne, ne_eq, beq_iff_eq] at this
    obtain ⟨⟨⟨⟨h1, h2⟩, h3⟩, h4⟩, h5⟩ := this
    exact ⟨h1, h2, h3, h4, h5⟩
  · cases h

/-- no other store update removes a partition -/
theorem only_reconcileOthers_deletes (d d' : PDesc) (op : Op) (h : step d op = .ok (some d'))
    (hop : ∀ c now, op ≠ .reconcileOthers c now) : ∀ p ∈ d.parts, ∃ q ∈ d'.parts, q.id = p.id := by
  intro p hp
  cases op with
  | reconcileOthers c now => exact absurd rfl (hop c now)
  | change pid to now =>
    simp only [step, changePartitionState] at h
    split at h
    · cases h
    · split at h
      · cases h
      · split at h
        · cases h
        · obtain ⟨_, _, _, _, rfl⟩ := updatePartitionState_spec h
          exact setPart_keeps_ids hp
  | lock pid l now =>
    simp only [step, setLock] at h
    split at h
    · cases h
    · split at h
      · cases h
      · cases h; exact setPart_keeps_ids hp
  | removeMultiOwner inst pid =>
    simp only [step] at h
    exact ⟨p, by rw [removeOwner_parts (by simpa using h)]; exact hp, rfl⟩
  | wait c now =>
    simp only [step, waitAndRegister] at h
    exact ⟨p, by rw [addOrUpdateOwner_parts (by simpa using h)]; exact hp, rfl⟩
  | reconcileOwned c now =>
    obtain ⟨_, _, _, _, _, rfl⟩ := reconcileOwned_guard d d' c now (by simpa [step] using h)
    exact setPart_keeps_ids hp
  | stopping c rm =>
    simp only [step, stopping] at h
    split at h
    · exact ⟨p, by rw [removeOwner_parts (by simpa using h)]; exact hp, rfl⟩
    · cases h
  | create c toks now =>
    simp only [step, createAndRegister] at h
    cases hg : d.get? c.pid with
    | some p0 =>
      simp only [hg] at h
      split at h
      · rename_i d2 h2
        cases h
        exact ⟨p, by rw [addOrUpdateOwner_parts h2]; exact hp, rfl⟩
      · simp at h
    | none =>
      simp only [hg] at h
      split at h
      · rename_i d2 h2
        cases h
        obtain ⟨q, hq, hid⟩ := setPart_keeps_ids (p := ({ id := c.pid, state := sPending, stateTs := now, tokens := toks } : Part)) hp
        exact ⟨q, by rw [addOrUpdateOwner_parts h2]; exact hq, hid⟩
      · simp only [if_true] at h
        cases h
        exact setPart_keeps_ids hp

/-- `stopping` only removes the lifecycler's own owner entry -/
theorem stopping_spec (d d' : PDesc) (c : Cfg) (rm : Bool) (h : stopping d c rm = .ok (some d')) :
    d'.parts = d.parts ∧ d'.owners = d.owners.filter (·.id != c.ownerID) := by
  unfold stopping at h
  split at h
  · have h' : removeOwner d c.ownerID = some d' := by simpa using h
    refine ⟨removeOwner_parts h', ?_⟩
    unfold removeOwner at h'
    split at h'
    · cases h'
    · cases h'; rfl
  · cases h

/-! ### replication sets -/

theorem mem_filterMap_healthy (insts : Ring.Desc) (hs : List Bool) (t now : Int) (ids : List String) (i : Ring.Inst) :
    i ∈ ids.filterMap (healthyInst insts hs t now) ↔ ∃ id ∈ ids, insts.get? id = some i ∧ isHealthy hs t now i = true := by
  simp only [List.mem_filterMap]
  constructor
  · rintro ⟨id, hid, h⟩
    unfold healthyInst at h
    cases hg : insts.get? id with
    | none => simp [hg] at h
    | some j =>
      simp only [hg] at h
      split at h
      · rename_i hh; cases h; exact ⟨id, hid, hg, hh⟩
      · cases h
  · rintro ⟨id, hid, hg, hh⟩
    exact ⟨id, hid, by simp [healthyInst, hg, hh]⟩

/-- **replication set of one partition** = its healthy registered owners; an error iff there is none. -/
theorem replSetFor_exact (d : PDesc) (insts : Ring.Desc) (hs : List Bool) (t now : Int) (pid : Int) :
    (∀ ids mu, replSetFor d insts hs t now pid = .ok (ids, mu) →
      ids ≠ [] ∧ ∀ x, x ∈ ids ↔ ∃ o ∈ d.owners, o.partition = pid ∧ ∃ i, insts.get? o.id = some i ∧
        isHealthy hs t now i = true ∧ i.id = x) ∧
    (replSetFor d insts hs t now pid = .error .tooManyUnhealthy ↔
      ¬ ∃ o ∈ d.owners, o.partition = pid ∧ ∃ i, insts.get? o.id = some i ∧ isHealthy hs t now i = true) := by
  have hmem := mem_filterMap_healthy insts hs t now (ownerIDs d pid)
  have hown : ∀ id, id ∈ ownerIDs d pid ↔ ∃ o ∈ d.owners, o.partition = pid ∧ o.id = id := by
    intro id; simp [ownerIDs, List.mem_map, List.mem_filter, and_assoc]
  cases hl : (ownerIDs d pid).filterMap (healthyInst insts hs t now) with
  | nil =>
    have hnone : ¬ ∃ o ∈ d.owners, o.partition = pid ∧ ∃ i, insts.get? o.id = some i ∧ isHealthy hs t now i = true := by
      rintro ⟨o, ho, hp, i, hg, hh⟩
      have := (hmem i).mpr ⟨o.id, (hown o.id).mpr ⟨o, ho, hp, rfl⟩, hg, hh⟩
      rw [hl] at this; cases this
    constructor
    · intro ids mu h
      simp [replSetFor, hl] at h
    · simp [replSetFor, hl, hnone]
  | cons i0 rest =>
    have hsome : ∃ o ∈ d.owners, o.partition = pid ∧ ∃ i, insts.get? o.id = some i ∧ isHealthy hs t now i = true := by
      obtain ⟨id, hid, hg, hh⟩ := (hmem i0).mp (by rw [hl]; exact List.mem_cons_self)
      obtain ⟨o, ho, hp, rfl⟩ := (hown id).mp hid
      exact ⟨o, ho, hp, i0, hg, hh⟩
    constructor
    · intro ids mu h
      simp only [replSetFor, hl, List.isEmpty_cons] at h
      cases h
      refine ⟨by simp, ?_⟩
      intro x
      rw [← hl]
      simp only [List.mem_map]
      constructor
      · rintro ⟨i, hi, rfl⟩
        obtain ⟨id, hid, hg, hh⟩ := (hmem i).mp hi
        obtain ⟨o, ho, hp, rfl⟩ := (hown id).mp hid
        exact ⟨o, ho, hp, i, hg, hh, rfl⟩
      · rintro ⟨o, ho, hp, i, hg, hh, rfl⟩
        exact ⟨i, (hmem i).mpr ⟨o.id, (hown o.id).mpr ⟨o, ho, hp, rfl⟩, hg, hh⟩, rfl⟩
    · simp only [replSetFor, hl, List.isEmpty_cons]
      constructor
      · intro h; simp at h
      · intro h; exact absurd hsome h

end PfC15
