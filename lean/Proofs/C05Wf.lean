import Proofs.C05
/-! Proofs for C05, part 2: `resolve` yields a conflict-free descriptor with the documented
owners, and `merge` preserves well-formedness for arbitrary incoming descriptors. -/
namespace PfC05
open Ring C03 PfC03

/-! ## sorting / deduplication -/

def sortedLe : List Nat → Bool
  | [] => true
  | [_] => true
  | a :: b :: r => decide (a ≤ b) && sortedLe (b :: r)

theorem sortedLe_cons {a : Nat} {l : List Nat} (h : sortedLe (a :: l) = true) : sortedLe l = true := by
  cases l with
  | nil => rfl
  | cons b r => simp only [sortedLe, Bool.and_eq_true] at h; exact h.2

theorem sortedLe_head {a b : Nat} {r : List Nat} (h : sortedLe (a :: b :: r) = true) : a ≤ b := by
  simp only [sortedLe, Bool.and_eq_true, decide_eq_true_eq] at h; exact h.1

theorem insertNat_sortedLe (x : Nat) (l : List Nat) (h : sortedLe l = true) : sortedLe (insertNat x l) = true := by
  induction l with
  | nil => rfl
  | cons y ys ih =>
    unfold insertNat
    by_cases hxy : x ≤ y
    · rw [if_pos hxy]; simp only [sortedLe, Bool.and_eq_true, decide_eq_true_eq]; exact ⟨hxy, h⟩
    · rw [if_neg hxy]
      have hys := sortedLe_cons h
      have ih' := ih hys
      cases ys with
      | nil => simp only [insertNat, sortedLe, Bool.and_eq_true, decide_eq_true_eq]; exact ⟨by omega, trivial⟩
      | cons z zs =>
        have hyz := sortedLe_head h
        unfold insertNat at ih' ⊢
        by_cases hxz : x ≤ z
        · rw [if_pos hxz] at ih' ⊢
          simp only [sortedLe, Bool.and_eq_true, decide_eq_true_eq] at ih' ⊢
          exact ⟨by omega, ih'⟩
        · rw [if_neg hxz] at ih' ⊢
          simp only [sortedLe, Bool.and_eq_true, decide_eq_true_eq]
          exact ⟨hyz, ih'⟩

theorem sortNat_sortedLe (l : List Nat) : sortedLe (sortNat l) = true := by
  induction l with
  | nil => rfl
  | cons x xs ih => exact insertNat_sortedLe x _ ih

theorem mem_insertNat (x y : Nat) (l : List Nat) : y ∈ insertNat x l ↔ y = x ∨ y ∈ l := by
  induction l with
  | nil => simp [insertNat]
  | cons z zs ih =>
    unfold insertNat
    by_cases h : x ≤ z
    · rw [if_pos h]; simp
    · rw [if_neg h]; simp only [List.mem_cons, ih]
      constructor
      · rintro (h | h | h) <;> simp [h]
      · rintro (h | h | h) <;> simp [h]

theorem mem_sortNat (y : Nat) (l : List Nat) : y ∈ sortNat l ↔ y ∈ l := by
  induction l with
  | nil => simp [sortNat]
  | cons x xs ih =>
    have : sortNat (x :: xs) = insertNat x (sortNat xs) := rfl
    rw [this, mem_insertNat, ih]; simp

theorem dedupAdj_cons_cons (x y : Nat) (r : List Nat) :
    dedupAdj (x :: y :: r) = if x = y then dedupAdj (y :: r) else x :: dedupAdj (y :: r) := rfl

theorem mem_dedupAdj (t : Nat) (l : List Nat) : t ∈ dedupAdj l ↔ t ∈ l := by
  induction l with
  | nil => simp [dedupAdj]
  | cons x r ih =>
    cases r with
    | nil => simp [dedupAdj]
    | cons y r' =>
      rw [dedupAdj_cons_cons]
      by_cases h : x = y
      · rw [if_pos h, ih]; subst h; simp
      · rw [if_neg h, List.mem_cons, ih]; simp

theorem dedupAdj_head (x : Nat) (r : List Nat) : ∃ r', dedupAdj (x :: r) = x :: r' := by
  induction r generalizing x with
  | nil => exact ⟨[], rfl⟩
  | cons y r' ih =>
    rw [dedupAdj_cons_cons]
    by_cases h : x = y
    · rw [if_pos h]; subst h; exact ih x
    · rw [if_neg h]; exact ⟨_, rfl⟩

theorem dedupAdj_strict (l : List Nat) (h : sortedLe l = true) : sortedStrict (dedupAdj l) = true := by
  induction l with
  | nil => rfl
  | cons x r ih =>
    cases r with
    | nil => rfl
    | cons y r' =>
      have hxy := sortedLe_head h
      have hr := sortedLe_cons h
      rw [dedupAdj_cons_cons]
      by_cases he : x = y
      · rw [if_pos he]; exact ih hr
      · rw [if_neg he]
        obtain ⟨t, ht⟩ := dedupAdj_head y r'
        have := ih hr
        rw [ht] at this ⊢
        simp only [sortedStrict, Bool.and_eq_true, decide_eq_true_eq]
        exact ⟨by omega, this⟩

theorem normTokens_strict (l : List Nat) : sortedStrict (normTokens l) = true :=
  dedupAdj_strict _ (sortNat_sortedLe l)

theorem mem_normTokens (t : Nat) (l : List Nat) : t ∈ normTokens l ↔ t ∈ l := by
  unfold normTokens; rw [mem_dedupAdj, mem_sortNat]

/-! ## well-formedness -/

def EntryOK (i : Inst) : Prop := sortedStrict i.tokens = true ∧ (i.state = .LEFT → i.tokens = [])

structure WF (d : Desc) : Prop where
  nodup : (ids d).Nodup
  entries : ∀ i ∈ d, EntryOK i
  noconf : (allTokens d).Nodup

theorem wf_iff (d : Desc) : wf d = true ↔ WF d := by
  unfold wf uniqueIds conflictsExist
  simp only [Bool.and_eq_true, decide_eq_true_eq, List.all_eq_true, Bool.not_eq_true', hasDup_false_iff,
    Bool.or_eq_true, bne_iff_ne, ne_eq, List.isEmpty_iff]
  constructor
  · rintro ⟨⟨h1, h2⟩, h3⟩
    refine ⟨h1, ?_, h3⟩
    intro i hi
    obtain ⟨ha, hb⟩ := h2 i hi
    refine ⟨ha, ?_⟩
    intro hl; rcases hb with hb | hb
    · exact absurd hl hb
    · exact hb
  · rintro ⟨h1, h2, h3⟩
    refine ⟨⟨h1, ?_⟩, h3⟩
    intro i hi
    obtain ⟨ha, hb⟩ := h2 i hi
    refine ⟨ha, ?_⟩
    by_cases hl : i.state = .LEFT
    · exact Or.inr (hb hl)
    · exact Or.inl hl

theorem normInst_ok (i : Inst) : EntryOK (normInst i) := by
  unfold normInst EntryOK
  by_cases h : i.state = .LEFT
  · rw [if_pos h]; exact ⟨rfl, fun _ => rfl⟩
  · rw [if_neg h]; exact ⟨normTokens_strict _, fun hl => absurd hl h⟩

theorem normInst_id (i : Inst) : (normInst i).id = i.id := by
  unfold normInst; split <;> rfl

theorem normInst_state (i : Inst) : (normInst i).state = i.state := by
  unfold normInst; split <;> rfl

theorem normInst_left_tokens (i : Inst) (h : (normInst i).state = .LEFT) : (normInst i).tokens = [] :=
  (normInst_ok i).2 h

/-! ## token multiset never grows when no accepted entry changed its tokens -/

theorem allTokens_cons (x : Inst) (xs : Desc) : allTokens (x :: xs) = x.tokens ++ allTokens xs := by
  simp [allTokens]

theorem allTokens_upsert_sublist (o : Inst) (d : Desc)
    (h : o.tokens = curToks (get? d o.id) ∨ o.tokens = []) :
    (allTokens (upsert o d)).Sublist (allTokens d) := by
  induction d with
  | nil =>
    have : o.tokens = [] := by rcases h with h | h <;> simpa [get?, curToks] using h
    simp [upsert, allTokens, this]
  | cons x xs ih =>
    unfold upsert
    by_cases hx : x.id = o.id
    · rw [if_pos hx, allTokens_cons, allTokens_cons]
      have hg : get? (x :: xs) o.id = some x := by rw [get?_cons, if_pos hx]
      rw [hg] at h
      rcases h with h | h
      · rw [h]; exact List.Sublist.refl _
      · rw [h]; simp
    · rw [if_neg hx, allTokens_cons, allTokens_cons]
      have hg : get? (x :: xs) o.id = get? xs o.id := by rw [get?_cons, if_neg hx]
      rw [hg] at h
      exact List.Sublist.append_left (ih h) _

/-! ## invariant of the merge loops -/

structure Inv (acc : Acc) : Prop where
  nodup : (ids acc.this).Nodup
  entries : ∀ i ∈ acc.this, EntryOK i
  noconf : acc.tokCh = false → (allTokens acc.this).Nodup

theorem stepEntry_inv (acc : Acc) (o : Inst) (hi : Inv acc) (ho : EntryOK o) : Inv (stepEntry acc o) := by
  unfold stepEntry
  split
  · rename_i h1
    refine ⟨upsert_nodup _ _ hi.nodup, ?_, ?_⟩
    · intro i him
      rcases mem_upsert him with rfl | him
      · exact ho
      · exact hi.entries i him
    · intro htc
      simp only [Bool.or_eq_false_iff, bne_eq_false_iff_eq] at htc
      exact List.Nodup.sublist (allTokens_upsert_sublist o acc.this (Or.inl htc.2.symm)) (hi.noconf htc.1)
  · split
    · rename_i h1 h2
      refine ⟨upsert_nodup _ _ hi.nodup, ?_, ?_⟩
      · intro i him
        rcases mem_upsert him with rfl | him
        · exact ho
        · exact hi.entries i him
      · intro htc
        exact List.Nodup.sublist (allTokens_upsert_sublist o acc.this (Or.inr (ho.2 h2.2.2))) (hi.noconf htc)
    · exact hi

theorem foldl_stepEntry_inv (os : Desc) (acc : Acc) (hi : Inv acc) (ho : ∀ o ∈ os, EntryOK o) :
    Inv (os.foldl stepEntry acc) := by
  induction os generalizing acc with
  | nil => exact hi
  | cons o os ih =>
    rw [List.foldl_cons]
    exact ih _ (stepEntry_inv acc o hi (ho o (by simp))) (fun x hx => ho x (by simp [hx]))

theorem casEntry_inv (other : Desc) (now : Int) (acc : Acc) (t : Inst) (hi : Inv acc) :
    Inv (casEntry other now acc t) := by
  unfold casEntry
  split
  · refine ⟨upsert_nodup _ _ hi.nodup, ?_, ?_⟩
    · intro i him
      rcases mem_upsert him with rfl | him
      · exact ⟨rfl, fun _ => rfl⟩
      · exact hi.entries i him
    · intro htc
      exact List.Nodup.sublist (allTokens_upsert_sublist _ acc.this (Or.inr rfl)) (hi.noconf htc)
  · exact hi

theorem foldl_casEntry_inv (other : Desc) (now : Int) (ts : Desc) (acc : Acc) (hi : Inv acc) :
    Inv (ts.foldl (casEntry other now) acc) := by
  induction ts generalizing acc with
  | nil => exact hi
  | cons t ts ih => rw [List.foldl_cons]; exact ih _ (casEntry_inv other now acc t hi)

theorem mergeAcc_inv (cas : Bool) (now : Int) (this other : Desc) (h : WF this) :
    Inv (mergeAcc cas now this other) := by
  unfold mergeAcc
  have h0 : Inv { this := this, updated := [], tokCh := false } := ⟨h.nodup, h.entries, fun _ => h.noconf⟩
  have h1 := foldl_stepEntry_inv (normalize other) _ h0 (by
    intro o ho
    simp only [normalize, List.mem_map] at ho
    obtain ⟨i, _, rfl⟩ := ho
    exact normInst_ok i)
  simp only
  split
  · exact foldl_casEntry_inv _ _ _ _ h1
  · exact h1

/-! ## `resolve` -/

theorem ids_resolve (d : Desc) : ids (resolve d) = ids d := by
  unfold resolve ids
  rw [List.map_map]
  apply List.map_congr_left
  intro i _
  simp only [Function.comp]
  split <;> rfl

/-- the entries of `resolve d`, one by one -/
def resolveEntry (d : Desc) (i : Inst) : Inst :=
  if i.state = .LEFT then { i with tokens := [] }
  else { i with tokens := normTokens (i.tokens.filter fun t => (winner t d none).map (·.id) == some i.id) }

theorem resolve_eq (d : Desc) : resolve d = d.map (resolveEntry d) := rfl

theorem resolveEntry_id (d : Desc) (i : Inst) : (resolveEntry d i).id = i.id := by
  unfold resolveEntry; split <;> rfl

theorem resolveEntry_ok (d : Desc) (i : Inst) : EntryOK (resolveEntry d i) := by
  unfold resolveEntry EntryOK
  by_cases h : i.state = .LEFT
  · rw [if_pos h]; exact ⟨rfl, fun _ => rfl⟩
  · rw [if_neg h]; exact ⟨normTokens_strict _, fun hl => absurd hl h⟩

/-- a token held after resolution was won by that entry -/
theorem resolveEntry_mem (d : Desc) (i : Inst) (t : Nat) (h : t ∈ (resolveEntry d i).tokens) :
    t ∈ i.tokens ∧ i.state ≠ .LEFT ∧ (winner t d none).map (·.id) = some i.id := by
  unfold resolveEntry at h
  by_cases hl : i.state = .LEFT
  · rw [if_pos hl] at h; simp at h
  · rw [if_neg hl] at h
    simp only at h
    rw [mem_normTokens, List.mem_filter] at h
    exact ⟨h.1, hl, by simpa using h.2⟩

theorem resolve_noconf (d : Desc) (hn : (ids d).Nodup) : (allTokens (resolve d)).Nodup := by
  rw [resolve_eq]
  apply nodup_allTokens
  · intro e he
    obtain ⟨i, _, rfl⟩ := List.mem_map.1 he
    exact sortedStrict_nodup (resolveEntry_ok d i).1
  · -- pairwise disjoint: a token has one winner id, and ids are unique
    have key : ∀ (l : Desc), (ids l).Nodup →
        (l.map (resolveEntry d)).Pairwise (fun a b => ∀ t ∈ a.tokens, t ∉ b.tokens) := by
      intro l hl
      induction l with
      | nil => exact List.Pairwise.nil
      | cons x xs ih =>
        simp only [ids, List.map_cons, List.nodup_cons] at hl
        rw [List.map_cons, List.pairwise_cons]
        refine ⟨?_, ih hl.2⟩
        intro b hb t ht htb
        obtain ⟨y, hy, rfl⟩ := List.mem_map.1 hb
        have h1 := (resolveEntry_mem d x t ht).2.2
        have h2 := (resolveEntry_mem d y t htb).2.2
        rw [h1] at h2
        injection h2 with h2
        exact hl.1 (by rw [h2]; exact List.mem_map.2 ⟨y, hy, rfl⟩)
    exact key d hn

theorem resolve_wf (d : Desc) (hn : (ids d).Nodup) : WF (resolve d) := by
  refine ⟨by rw [ids_resolve]; exact hn, ?_, resolve_noconf d hn⟩
  intro e he
  rw [resolve_eq] at he
  obtain ⟨i, _, rfl⟩ := List.mem_map.1 he
  exact resolveEntry_ok d i

/-- **resolution gives each contested token to the documented winner**: the minimal claimant in
the order (not-leaving before leaving, then smaller id) keeps the token; every other entry lacks it. -/
theorem resolve_owner (d : Desc) (hn : (ids d).Nodup) (t : Nat) (i : Inst) (hi : i ∈ d) :
    t ∈ (resolveEntry d i).tokens ↔
      (claims t i ∧ ∀ j ∈ d, claims t j → keyLe i j) := by
  constructor
  · intro h
    obtain ⟨hti, hl, hw⟩ := resolveEntry_mem d i t h
    have hc : claims t i := ⟨hl, by simpa using hti⟩
    cases hx : winner t d none with
    | none => rw [hx] at hw; simp at hw
    | some x =>
      rw [hx] at hw
      simp only [Option.map_some, Option.some.injEq] at hw
      obtain ⟨hxd, _, hxm⟩ := winner_min t d x hx
      have : x = i := mem_same_id hn hxd hi hw
      subst this
      exact ⟨hc, hxm⟩
  · rintro ⟨hc, hmin⟩
    obtain ⟨x, hx⟩ := winner_some_of_claim t d i hi hc
    obtain ⟨hxd, hxc, hxm⟩ := winner_min t d x hx
    have hid : x.id = i.id := keyLe_antisymm (hxm i hi hc) (hmin x hxd hxc)
    unfold resolveEntry
    rw [if_neg hc.1]
    simp only
    rw [mem_normTokens, List.mem_filter]
    refine ⟨by simpa using hc.2, ?_⟩
    rw [hx]; simp [hid]

/-! ## merge preserves well-formedness -/

theorem merge_preserves_wf (cas : Bool) (now : Int) (this other : Desc) (h : WF this) :
    WF (merge cas now this other).state := by
  have hinv := mergeAcc_inv cas now this other h
  unfold merge finish
  split
  · exact h
  · simp only
    split
    · exact resolve_wf _ hinv.nodup
    · rename_i hc
      refine ⟨hinv.nodup, hinv.entries, ?_⟩
      by_cases htc : (mergeAcc cas now this other).tokCh = true
      · have hA : ¬ conflictsExist (mergeAcc cas now this other).this = true := fun hce => hc ⟨htc, hce⟩
        have hB : conflictsExist (mergeAcc cas now this other).this = false := by simpa using hA
        exact (hasDup_false_iff _).1 hB
      · exact hinv.noconf (by simpa using htc)

/-- every state reachable from the empty descriptor by merges of arbitrary descriptors (gossip or
local CAS, any clock) is well-formed -/
inductive Reachable : Desc → Prop
  | empty : Reachable []
  | step {s : Desc} (cas : Bool) (now : Int) (other : Desc) : Reachable s → Reachable (merge cas now s other).state

theorem reachable_wf {s : Desc} (h : Reachable s) : WF s := by
  induction h with
  | empty => exact ⟨List.nodup_nil, fun i hi => by simp at hi, by simp [allTokens]⟩
  | step cas now other _ ih => exact merge_preserves_wf cas now _ other ih

theorem nodup_one_owner (s : Desc) (hnd : (allTokens s).Nodup) (hn : (ids s).Nodup) (t : Nat) (i j : Inst)
    (hi : i ∈ s) (hj : j ∈ s) (hti : t ∈ i.tokens) (htj : t ∈ j.tokens) : i = j := by
  induction s with
  | nil => simp at hi
  | cons x xs ih =>
    rw [allTokens_cons, List.nodup_append] at hnd
    obtain ⟨_, hxs, hdisj⟩ := hnd
    simp only [ids, List.map_cons, List.nodup_cons] at hn
    have hmem : ∀ y ∈ xs, t ∈ y.tokens → t ∈ allTokens xs := by
      intro y hy hty; simp only [allTokens, List.mem_flatMap]; exact ⟨y, hy, hty⟩
    rcases List.mem_cons.1 hi with rfl | hi' <;> rcases List.mem_cons.1 hj with rfl | hj'
    · rfl
    · exact absurd rfl (hdisj t hti t (hmem j hj' htj))
    · exact absurd rfl (hdisj t htj t (hmem i hi' hti))
    · exact ih hxs hn.2 hi' hj'

/-- in a well-formed descriptor a token has at most one holder -/
theorem wf_one_owner {s : Desc} (hw : WF s) (t : Nat) (i j : Inst)
    (hi : i ∈ s) (hj : j ∈ s) (hti : t ∈ i.tokens) (htj : t ∈ j.tokens) : i = j :=
  nodup_one_owner s hw.noconf hw.nodup t i j hi hj hti htj

/-! ## who holds a token after a merge -/

/-- in a descriptor with one holder per token, "holds the token" and "is the minimal claimant" coincide
(the sole claimant is trivially minimal) -/
theorem wf_owner_spec (d : Desc) (hn : (ids d).Nodup) (he : ∀ i ∈ d, EntryOK i) (hnd : (allTokens d).Nodup)
    (t : Nat) (i : Inst) (hi : i ∈ d) :
    t ∈ i.tokens ↔ (claims t i ∧ ∀ j ∈ d, claims t j → keyLe i j) := by
  constructor
  · intro ht
    have hl : i.state ≠ .LEFT := by
      intro hl; rw [(he i hi).2 hl] at ht; simp at ht
    refine ⟨⟨hl, by simpa using ht⟩, ?_⟩
    intro j hj hc
    have htj : t ∈ j.tokens := by simpa using hc.2
    rw [nodup_one_owner d hnd hn t i j hi hj ht htj]
    exact keyLe_refl _
  · rintro ⟨hc, _⟩
    simpa using hc.2

theorem casFold_updated_nil (o : Desc) (now : Int) (ts : Desc) (acc : Acc)
    (h : (ts.foldl (casEntry o now) acc).updated = []) : ts.foldl (casEntry o now) acc = acc := by
  induction ts generalizing acc with
  | nil => rfl
  | cons t ts ih =>
    rw [List.foldl_cons] at h ⊢
    have h1 := ih _ h
    rw [h1] at h ⊢
    unfold casEntry at h ⊢
    split
    · rename_i hc; rw [if_pos hc] at h; simp at h
    · rfl

/-- a merge that updated nothing built the receiver's own map -/
theorem mergeAcc_updated_nil (cas : Bool) (now : Int) (this other : Desc)
    (h : (mergeAcc cas now this other).updated = []) : (mergeAcc cas now this other).this = this := by
  unfold mergeAcc at h ⊢
  simp only at h ⊢
  split at h
  · rename_i hc
    rw [if_pos hc]
    have e := casFold_updated_nil _ _ _ _ h
    rw [e] at h ⊢
    exact (foldl_updated_nil _ _ h).1
  · rename_i hc
    rw [if_neg hc]
    exact (foldl_updated_nil _ _ h).1

theorem get?_map_id (f : Inst → Inst) (hf : ∀ i, (f i).id = i.id) (d : Desc) (k : String) :
    get? (d.map f) k = (get? d k).map f := by
  induction d with
  | nil => rfl
  | cons x xs ih =>
    rw [List.map_cons, get?_cons, get?_cons, hf x]
    split
    · rfl
    · exact ih

theorem resolveEntry_fields (d : Desc) (i : Inst) :
    (resolveEntry d i).state = i.state ∧ (resolveEntry d i).ts = i.ts := by
  unfold resolveEntry; split <;> exact ⟨rfl, rfl⟩

/-- **who holds a token after a merge** (gossip or local CAS, any incoming descriptor, into a
well-formed state). Let `M` be the map the two loops of `mergeWithTime` build before resolution (per key
the last-writer-wins entry; for a local CAS with the missing entries tombstoned). Every entry `i` of `M`
is in the result with the same identity, state and timestamp, and it holds token `t` exactly when it
claims `t` in `M` and is the minimal claimant of `t` in `M` in the order "not-leaving before leaving, then
smaller id" — whether or not `resolveConflicts` ran (when it is skipped, `M` has no collision and the
sole claimant is the minimal one). -/
theorem merge_owner_spec (cas : Bool) (now : Int) (this other : Desc) (h : WF this) (t : Nat) (i : Inst)
    (hi : i ∈ (mergeAcc cas now this other).this) :
    ∃ e, get? (merge cas now this other).state i.id = some e ∧ e.id = i.id ∧ e.state = i.state ∧ e.ts = i.ts ∧
      (t ∈ e.tokens ↔ (claims t i ∧ ∀ j ∈ (mergeAcc cas now this other).this, claims t j → keyLe i j)) := by
  have hinv := mergeAcc_inv cas now this other h
  unfold merge finish
  split
  · rename_i hu
    have hnil : (mergeAcc cas now this other).updated = [] := by simpa using hu
    have hthis := mergeAcc_updated_nil cas now this other hnil
    simp only
    rw [hthis] at hi ⊢
    exact ⟨i, get?_of_mem_nodup h.nodup hi, rfl, rfl, rfl, wf_owner_spec this h.nodup h.entries h.noconf t i hi⟩
  · simp only
    split
    · rw [resolve_eq, get?_map_id _ (resolveEntry_id _) _ _, get?_of_mem_nodup hinv.nodup hi]
      exact ⟨_, rfl, resolveEntry_id _ _, (resolveEntry_fields _ _).1, (resolveEntry_fields _ _).2,
        resolve_owner _ hinv.nodup t i hi⟩
    · rename_i hc
      have hnd : (allTokens (mergeAcc cas now this other).this).Nodup := by
        by_cases htc : (mergeAcc cas now this other).tokCh = true
        · have hA : ¬ conflictsExist (mergeAcc cas now this other).this = true := fun hce => hc ⟨htc, hce⟩
          have hB : conflictsExist (mergeAcc cas now this other).this = false := by simpa using hA
          exact (hasDup_false_iff _).1 hB
        · exact hinv.noconf (by simpa using htc)
      exact ⟨i, get?_of_mem_nodup hinv.nodup hi, rfl, rfl, rfl,
        wf_owner_spec _ hinv.nodup hinv.entries hnd t i hi⟩

end PfC05
