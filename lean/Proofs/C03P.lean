import Model.C03P
/-! Proofs for C03 (partition ring): `PartitionRingDesc.mergeWithTime` without `localCAS` is
idempotent, commutative (for coherent descriptors) and associative on the `get` view. -/
namespace PfC03P
open C03P

/-! ## generic association lists -/
section AL
variable {α κ : Type} [DecidableEq κ] (key : α → κ)

def getG : List α → κ → Option α
  | [], _ => none
  | x :: xs, k => if key x = k then some x else getG xs k

def upsertG (e : α) : List α → List α
  | [] => [e]
  | x :: xs => if key x = key e then e :: xs else x :: upsertG e xs

theorem getG_cons (x : α) (xs : List α) (k : κ) :
    getG key (x :: xs) k = if key x = k then some x else getG key xs k := rfl

theorem getG_key {l : List α} {k : κ} {x : α} (h : getG key l k = some x) : key x = k := by
  induction l with
  | nil => simp [getG] at h
  | cons y ys ih =>
    unfold getG at h
    by_cases hy : key y = k
    · rw [if_pos hy] at h; injection h with h; subst h; exact hy
    · rw [if_neg hy] at h; exact ih h

theorem getG_none_iff {l : List α} {k : κ} : getG key l k = none ↔ k ∉ l.map key := by
  induction l with
  | nil => simp [getG]
  | cons y ys ih =>
    unfold getG
    by_cases hy : key y = k
    · rw [if_pos hy]; simp [hy]
    · rw [if_neg hy, ih]; simp only [List.map_cons, List.mem_cons, not_or]
      exact ⟨fun h => ⟨fun e => hy e.symm, h⟩, fun h => h.2⟩

theorem getG_upsertG (e : α) (l : List α) (k : κ) :
    getG key (upsertG key e l) k = if k = key e then some e else getG key l k := by
  induction l with
  | nil =>
    simp only [upsertG, getG]
    by_cases h : key e = k
    · rw [if_pos h, if_pos h.symm]
    · rw [if_neg h, if_neg (fun e' => h e'.symm)]
  | cons x xs ih =>
    unfold upsertG
    by_cases h : key x = key e
    · rw [if_pos h]; unfold getG
      by_cases hk : k = key e
      · rw [if_pos hk.symm, if_pos hk]
      · rw [if_neg (fun e' => hk e'.symm), if_neg hk, if_neg (fun e' => hk (by rw [← e', h]))]
    · rw [if_neg h]; unfold getG
      by_cases hx : key x = k
      · rw [if_pos hx, if_pos hx, if_neg (fun e' => h (by rw [hx, e']))]
      · rw [if_neg hx, if_neg hx]; exact ih

theorem mem_keys_upsertG (e : α) (l : List α) (k : κ) :
    k ∈ (upsertG key e l).map key ↔ k = key e ∨ k ∈ l.map key := by
  have h1 := @getG_none_iff α κ _ key (upsertG key e l) k
  have h2 := @getG_none_iff α κ _ key l k
  rw [getG_upsertG] at h1
  by_cases h : k = key e
  · rw [if_pos h] at h1
    have : ¬ (k ∉ (upsertG key e l).map key) := fun hn => by have := h1.2 hn; simp at this
    exact ⟨fun _ => Or.inl h, fun _ => Classical.byContradiction this⟩
  · rw [if_neg h] at h1
    constructor
    · intro hm; right; exact Classical.byContradiction fun hn => (h1.1 (h2.2 hn)) hm
    · rintro (hm | hm)
      · exact absurd hm h
      · exact Classical.byContradiction fun hn => (h2.1 (h1.2 hn)) hm

theorem upsertG_nodup (e : α) (l : List α) (hn : (l.map key).Nodup) : ((upsertG key e l).map key).Nodup := by
  induction l with
  | nil => simp [upsertG]
  | cons x xs ih =>
    simp only [List.map_cons, List.nodup_cons] at hn
    unfold upsertG
    by_cases h : key x = key e
    · rw [if_pos h]; simp only [List.map_cons, List.nodup_cons]; rw [← h]; exact hn
    · rw [if_neg h]; simp only [List.map_cons, List.nodup_cons]
      refine ⟨?_, ih hn.2⟩
      intro hm
      rcases (mem_keys_upsertG key e xs (key x)).1 hm with h' | h'
      · exact h h'
      · exact hn.1 h'

/-- write back: `none` = no change -/
def wb (r : Option α) (l : List α) : List α :=
  match r with | none => l | some p => upsertG key p l

def pickO (r t : Option α) : Option α :=
  match r with | none => t | some p => some p

def sel (g d : Option α) (f : α → Option α) : Option α :=
  match g with | none => d | some o => f o

theorem getG_wb (r : Option α) (l : List α) (k : κ) :
    getG key (wb key r l) k = (match r with | none => getG key l k | some p => if k = key p then some p else getG key l k) := by
  cases r with
  | none => rfl
  | some p => simp only [wb]; exact getG_upsertG key p l k

/-- folding "read, combine, write back" over entries with unique keys updates each key once -/
theorem getG_foldl (step : Option α → α → Option α)
    (hkey : ∀ t o p, (∀ x, t = some x → key x = key o) → step t o = some p → key p = key o)
    (os : List α) (l : List α) (k : κ) (hn : (os.map key).Nodup) :
    getG key (os.foldl (fun l o => wb key (step (getG key l (key o)) o) l) l) k =
      sel (getG key os k) (getG key l k) (fun o => pickO (step (getG key l k) o) (getG key l k)) := by
  induction os generalizing l with
  | nil => simp [getG, sel]
  | cons o os ih =>
    simp only [List.map_cons, List.nodup_cons] at hn
    rw [List.foldl_cons, ih _ hn.2]
    have hstep : ∀ k', getG key (wb key (step (getG key l (key o)) o) l) k' =
        if k' = key o then pickO (step (getG key l (key o)) o) (getG key l k') else getG key l k' := by
      intro k'
      rw [getG_wb]
      cases hs : step (getG key l (key o)) o with
      | none => simp only [pickO]; split <;> rfl
      | some p =>
        simp only [pickO]
        rw [hkey _ _ _ (fun x hx => getG_key key hx) hs]
    rw [getG_cons key o os k]
    by_cases hk : key o = k
    · have hnone : getG key os k = none := (getG_none_iff key).2 (by rw [← hk]; exact hn.1)
      rw [if_pos hk, hnone]
      simp only [sel]
      rw [hstep k, if_pos hk.symm, ← hk]
    · rw [if_neg hk]
      have hk' : ¬ k = key o := fun e => hk e.symm
      cases hg : getG key os k with
      | none => simp only [sel]; rw [hstep k, if_neg hk']
      | some o' => simp only [sel]; rw [hstep k, if_neg hk']

end AL

/-! ## leftmost maximum -/

def lmax {β : Type} (r : β → Int) (x y : β) : β := if r x < r y then y else x

theorem r_lmax {β : Type} (r : β → Int) (x y : β) : r (lmax r x y) = max (r x) (r y) := by
  unfold lmax; split <;> omega

theorem lmax_idem {β : Type} (r : β → Int) (x : β) : lmax r x x = x := by simp [lmax]

theorem lmax_assoc {β : Type} (r : β → Int) (x y z : β) : lmax r (lmax r x y) z = lmax r x (lmax r y z) := by
  unfold lmax
  by_cases h1 : r x < r y <;> by_cases h2 : r y < r z <;> by_cases h3 : r x < r z <;> simp [h1, h2, h3] <;> omega

theorem lmax_comm {β : Type} (r : β → Int) (x y : β) (hc : r x = r y → x = y) : lmax r x y = lmax r y x := by
  unfold lmax
  by_cases h1 : r x < r y
  · rw [if_pos h1, if_neg (by omega)]
  · by_cases h2 : r y < r x
    · rw [if_neg h1, if_pos h2]
    · rw [if_neg h1, if_neg h2]; exact hc (by omega)

/-! ## partitions: two last-writer-wins registers, identity and tokens immutable -/

def srk (s : Nat × Int) : Int := 2 * s.2 + (if s.1 = partDeleted then 1 else 0)
def lrk (l : Bool × Int) : Int := l.2
def sreg (p : Part) : Nat × Int := (p.state, p.stateTs)
def lreg (p : Part) : Bool × Int := (p.locked, p.lockedTs)
def mk (t : Part) (s : Nat × Int) (l : Bool × Int) : Part :=
  { id := t.id, tokens := t.tokens, state := s.1, stateTs := s.2, locked := l.1, lockedTs := l.2 }

def combine (t o : Part) : Part := mk t (lmax srk (sreg t) (sreg o)) (lmax lrk (lreg t) (lreg o))

theorem mk_self (t : Part) : mk t (sreg t) (lreg t) = t := by cases t; rfl

theorem srk_lt_iff (t o : Part) : srk (sreg t) < srk (sreg o) ↔
    (o.stateTs > t.stateTs ∨ (o.stateTs = t.stateTs ∧ o.state = partDeleted ∧ t.state ≠ partDeleted)) := by
  unfold srk sreg; simp only
  by_cases h1 : t.state = partDeleted <;> by_cases h2 : o.state = partDeleted <;> simp [h1, h2] <;> omega

theorem lrk_lt_iff (t o : Part) : lrk (lreg t) < lrk (lreg o) ↔ o.lockedTs > t.lockedTs := Iff.rfl

/-- the model's per-partition merge is `combine`, reported as a change iff a register advanced -/
theorem mergePart_some (t o : Part) :
    (match mergePart (some t) o with | none => some t | some p => some p) = some (combine t o) := by
  unfold mergePart combine lmax
  simp only [← srk_lt_iff, ← lrk_lt_iff]
  by_cases h1 : srk (sreg t) < srk (sreg o) <;> by_cases h2 : lrk (lreg t) < lrk (lreg o)
  · simp only [h1, h2, if_true, or_self]; cases t; cases o; rfl
  · simp only [h1, h2, if_true, if_false, or_false]; cases t; cases o; rfl
  · simp only [h1, h2, if_true, if_false, false_or]; cases t; cases o; rfl
  · simp only [h1, h2, if_false, or_self]; cases t; cases o; rfl

/-- per-key join of partitions -/
def joinP : Option Part → Option Part → Option Part
  | t, none => t
  | none, some o => some o
  | some t, some o => some (combine t o)

theorem mergePart_key (t : Option Part) (o p : Part) (ht : ∀ x, t = some x → x.id = o.id)
    (h : mergePart t o = some p) : p.id = o.id := by
  cases t with
  | none => simp [mergePart] at h; rw [← h]
  | some x =>
    have := mergePart_some x o
    rw [h] at this
    injection this with this
    rw [this]; exact ht x rfl

theorem getP_eq (l : List Part) (k : Int) : getP l k = getG Part.id l k := by
  induction l with
  | nil => rfl
  | cons x xs ih => simp only [getP, getG, ih]

theorem upsertP_eq (e : Part) (l : List Part) : upsertP e l = upsertG Part.id e l := by
  induction l with
  | nil => rfl
  | cons x xs ih => simp only [upsertP, upsertG, ih]

theorem getO_eq (l : List Owner) (k : String) : getO l k = getG Owner.id l k := by
  induction l with
  | nil => rfl
  | cons x xs ih => simp only [getO, getG, ih]

theorem upsertO_eq (e : Owner) (l : List Owner) : upsertO e l = upsertG Owner.id e l := by
  induction l with
  | nil => rfl
  | cons x xs ih => simp only [upsertO, upsertG, ih]


theorem stepPart_parts (acc : Acc) (o : Part) :
    (stepPart acc o).this.parts = wb Part.id (mergePart (getG Part.id acc.this.parts o.id) o) acc.this.parts := by
  unfold stepPart
  rw [getP_eq]
  cases h : mergePart (getG Part.id acc.this.parts o.id) o with
  | none => rfl
  | some p => simp only [wb, upsertP_eq]

theorem stepPart_owners (acc : Acc) (o : Part) : (stepPart acc o).this.owners = acc.this.owners := by
  unfold stepPart; split <;> rfl

/-! ## views of the merged descriptor -/

theorem mem_upsertG {α κ : Type} [DecidableEq κ] (key : α → κ) {e x : α} {l : List α}
    (h : x ∈ upsertG key e l) : x = e ∨ x ∈ l := by
  induction l with
  | nil => simp [upsertG] at h; exact Or.inl h
  | cons y ys ih =>
    unfold upsertG at h
    by_cases hy : key y = key e
    · rw [if_pos hy] at h
      rcases List.mem_cons.1 h with h | h
      · exact Or.inl h
      · exact Or.inr (List.mem_cons_of_mem _ h)
    · rw [if_neg hy] at h
      rcases List.mem_cons.1 h with h | h
      · exact Or.inr (by rw [h]; simp)
      · rcases ih h with h | h
        · exact Or.inl h
        · exact Or.inr (List.mem_cons_of_mem _ h)

def partsStep (l : List Part) (o : Part) : List Part :=
  wb Part.id (mergePart (getG Part.id l o.id) o) l

def ownerStepFn (t : Option Owner) (o : Owner) : Option Owner := if ownerAccept t o then some o else none

def ownersStep (l : List Owner) (o : Owner) : List Owner :=
  wb Owner.id (ownerStepFn (getG Owner.id l o.id) o) l

theorem foldl_stepPart (ps : List Part) (acc : Acc) :
    (ps.foldl stepPart acc).this.parts = ps.foldl partsStep acc.this.parts ∧
    (ps.foldl stepPart acc).this.owners = acc.this.owners := by
  induction ps generalizing acc with
  | nil => exact ⟨rfl, rfl⟩
  | cons o os ih =>
    rw [List.foldl_cons, List.foldl_cons]
    obtain ⟨h1, h2⟩ := ih (stepPart acc o)
    rw [h1, h2, stepPart_owners]
    refine ⟨?_, rfl⟩
    congr 1
    rw [stepPart_parts]; rfl

theorem stepOwner_this (acc : Acc) (o : Owner) :
    (stepOwner acc o).this.owners = ownersStep acc.this.owners o ∧ (stepOwner acc o).this.parts = acc.this.parts := by
  unfold stepOwner ownersStep ownerStepFn wb
  rw [getO_eq]
  split
  · simp [upsertO_eq]
  · simp

theorem foldl_stepOwner (os : List Owner) (acc : Acc) :
    (os.foldl stepOwner acc).this.owners = os.foldl ownersStep acc.this.owners ∧
    (os.foldl stepOwner acc).this.parts = acc.this.parts := by
  induction os generalizing acc with
  | nil => exact ⟨rfl, rfl⟩
  | cons o os ih =>
    rw [List.foldl_cons, List.foldl_cons]
    obtain ⟨h1, h2⟩ := ih (stepOwner acc o)
    rw [h1, h2, (stepOwner_this acc o).1, (stepOwner_this acc o).2]
    exact ⟨rfl, rfl⟩

theorem mergeState_parts (a b : PDesc) : (mergeState a b).parts = b.parts.foldl partsStep a.parts := by
  unfold mergeState merge
  simp only [Bool.false_eq_true, if_false]
  have h1 := foldl_stepPart b.parts { this := a, chP := [], chO := [] }
  have h2 := foldl_stepOwner b.owners (b.parts.foldl stepPart { this := a, chP := [], chO := [] })
  split <;> simp only [h2.2, h1.1]

theorem mergeState_owners (a b : PDesc) : (mergeState a b).owners = b.owners.foldl ownersStep a.owners := by
  unfold mergeState merge
  simp only [Bool.false_eq_true, if_false]
  have h1 := foldl_stepPart b.parts { this := a, chP := [], chO := [] }
  have h2 := foldl_stepOwner b.owners (b.parts.foldl stepPart { this := a, chP := [], chO := [] })
  split <;> simp only [h2.1, h1.2]

/-- rank of an owner entry -/
def ork (o : Owner) : Int := 2 * o.ts + (if o.state = ownerDeleted then 1 else 0)
def orkO : Option Owner → Int
  | none => 0
  | some o => ork o

def joinO (t o : Option Owner) : Option Owner := if orkO t < orkO o then o else t

theorem ownerAccept_iff (t : Option Owner) (o : Owner) (ho : o.ts ≥ 1) (ht : ∀ x, t = some x → x.ts ≥ 1) :
    ownerAccept t o = decide (orkO t < ork o) := by
  unfold ownerAccept orkO ork
  rw [Bool.eq_iff_iff]
  cases t with
  | none =>
    simp only [Bool.or_eq_true, Bool.and_eq_true, decide_eq_true_eq, beq_iff_eq, Bool.not_eq_true',
      Bool.not_false, and_true]
    split <;> omega
  | some x =>
    have hx := ht x rfl
    simp only [Bool.or_eq_true, Bool.and_eq_true, decide_eq_true_eq, beq_iff_eq, Bool.not_eq_true',
      beq_eq_false_iff_ne, ne_eq]
    by_cases hl : x.state = ownerDeleted <;> by_cases hol : o.state = ownerDeleted <;>
      simp only [hl, hol, if_true, if_false, not_true_eq_false, not_false_eq_true, and_true, and_false, or_false] <;>
      omega

structure WF (d : PDesc) : Prop where
  pn : (d.parts.map Part.id).Nodup
  on : (d.owners.map Owner.id).Nodup
  opos : ∀ o ∈ d.owners, o.ts ≥ 1

theorem view_parts (a b : PDesc) (hb : WF b) (k : Int) :
    getP (mergeState a b).parts k = joinP (getP a.parts k) (getP b.parts k) := by
  rw [mergeState_parts, getP_eq, getP_eq, getP_eq]
  have := getG_foldl Part.id mergePart (fun t o p ht h => mergePart_key t o p ht h) b.parts a.parts k hb.pn
  have hfold : b.parts.foldl partsStep a.parts =
      b.parts.foldl (fun l o => wb Part.id (mergePart (getG Part.id l (Part.id o)) o) l) a.parts := rfl
  rw [hfold, this]
  cases hg : getG Part.id b.parts k with
  | none => simp only [sel]; cases getG Part.id a.parts k <;> rfl
  | some o =>
    simp only [sel]
    cases ht : getG Part.id a.parts k with
    | none => simp [mergePart, joinP, pickO]
    | some t =>
      simp only [joinP]
      have := mergePart_some t o
      cases hm : mergePart (some t) o with
      | none => rw [hm] at this; simp only [pickO]; exact this
      | some p => rw [hm] at this; simp only [pickO]; exact this

theorem getG_mem {α κ : Type} [DecidableEq κ] (key : α → κ) {l : List α} {k : κ} {x : α}
    (h : getG key l k = some x) : x ∈ l := by
  induction l with
  | nil => simp [getG] at h
  | cons y ys ih =>
    rw [getG_cons] at h
    by_cases hy : key y = k
    · rw [if_pos hy] at h; injection h with h; subst h; simp
    · rw [if_neg hy] at h; exact List.mem_cons_of_mem _ (ih h)

theorem getO_pos {d : PDesc} (hd : WF d) (k : String) : ∀ x, getG Owner.id d.owners k = some x → x.ts ≥ 1 :=
  fun x hx => hd.opos x (getG_mem Owner.id hx)

theorem orkO_nonneg {d : PDesc} (hd : WF d) (k : String) : orkO (getG Owner.id d.owners k) ≥ 0 := by
  cases hx : getG Owner.id d.owners k with
  | none => simp [orkO]
  | some x => have := getO_pos hd k x hx; simp only [orkO, ork]; split <;> omega

theorem view_owners (a b : PDesc) (ha : WF a) (hb : WF b) (k : String) :
    getO (mergeState a b).owners k = joinO (getO a.owners k) (getO b.owners k) := by
  rw [mergeState_owners, getO_eq, getO_eq, getO_eq]
  have := getG_foldl Owner.id ownerStepFn
    (fun t o p _ h => by
      unfold ownerStepFn at h
      by_cases hacc : ownerAccept t o = true
      · rw [if_pos hacc] at h; injection h with h; rw [h]
      · rw [if_neg hacc] at h; simp at h)
    b.owners a.owners k hb.on
  have hfold : b.owners.foldl ownersStep a.owners =
      b.owners.foldl (fun l o => wb Owner.id (ownerStepFn (getG Owner.id l (Owner.id o)) o) l) a.owners := rfl
  rw [hfold, this]
  unfold joinO
  cases hg : getG Owner.id b.owners k with
  | none =>
    simp only [sel]
    have := orkO_nonneg ha k
    have h0 : orkO (none : Option Owner) = 0 := rfl
    rw [h0, if_neg (by omega)]
  | some o =>
    simp only [sel, ownerStepFn]
    rw [ownerAccept_iff _ o (getO_pos hb k o hg) (getO_pos ha k)]
    have h1 : orkO (some o) = ork o := rfl
    rw [h1]
    by_cases h : orkO (getG Owner.id a.owners k) < ork o
    · rw [if_pos h, if_pos (by simpa using h)]; rfl
    · rw [if_neg h, if_neg (by simpa using h)]; rfl

/-! ## closure -/

theorem foldl_partsStep_nodup (ps l : List Part) (hl : (l.map Part.id).Nodup) :
    ((ps.foldl partsStep l).map Part.id).Nodup := by
  induction ps generalizing l with
  | nil => exact hl
  | cons o os ih =>
    rw [List.foldl_cons]; apply ih
    unfold partsStep wb; split
    · exact hl
    · exact upsertG_nodup Part.id _ _ hl

theorem foldl_ownersStep_nodup (os l : List Owner) (hl : (l.map Owner.id).Nodup) :
    ((os.foldl ownersStep l).map Owner.id).Nodup := by
  induction os generalizing l with
  | nil => exact hl
  | cons o os ih =>
    rw [List.foldl_cons]; apply ih
    unfold ownersStep wb; split
    · exact hl
    · exact upsertG_nodup Owner.id _ _ hl

theorem foldl_ownersStep_mem (os l : List Owner) (x : Owner) (hx : x ∈ os.foldl ownersStep l) : x ∈ l ∨ x ∈ os := by
  induction os generalizing l with
  | nil => exact Or.inl hx
  | cons o os ih =>
    rw [List.foldl_cons] at hx
    rcases ih _ hx with h | h
    · unfold ownersStep wb at h
      split at h
      · exact Or.inl h
      · rename_i p hp
        unfold ownerStepFn at hp
        rcases mem_upsertG Owner.id h with h | h
        · have : p = o := by
            by_cases hacc : ownerAccept (getG Owner.id l o.id) o = true
            · rw [if_pos hacc] at hp; injection hp with hp; exact hp.symm
            · rw [if_neg hacc] at hp; simp at hp
          exact Or.inr (by rw [h, this]; simp)
        · exact Or.inl h
    · exact Or.inr (List.mem_cons_of_mem _ h)

theorem mergeState_wf (a b : PDesc) (ha : WF a) (hb : WF b) : WF (mergeState a b) := by
  refine ⟨?_, ?_, ?_⟩
  · rw [mergeState_parts]; exact foldl_partsStep_nodup _ _ ha.pn
  · rw [mergeState_owners]; exact foldl_ownersStep_nodup _ _ ha.on
  · intro o ho
    rw [mergeState_owners] at ho
    rcases foldl_ownersStep_mem _ _ o ho with h | h
    · exact ha.opos o h
    · exact hb.opos o h

/-! ## the laws -/

/-- same logical content -/
def Equiv (x y : PDesc) : Prop :=
  (∀ k, getP x.parts k = getP y.parts k) ∧ (∀ k, getO x.owners k = getO y.owners k)

/-- one content per (entry, timestamp): partitions with the same id carry the same tokens, the same
(state timestamp, deleted-ness) denotes one state, the same lock timestamp one lock flag; the same
(owner, timestamp, deleted-ness) one owner entry. -/
structure Coherent (a b : PDesc) : Prop where
  parts : ∀ k x y, getP a.parts k = some x → getP b.parts k = some y →
    x.id = y.id ∧ x.tokens = y.tokens ∧ (srk (sreg x) = srk (sreg y) → sreg x = sreg y) ∧
    (lrk (lreg x) = lrk (lreg y) → lreg x = lreg y)
  owners : ∀ k x y, getO a.owners k = some x → getO b.owners k = some y → ork x = ork y → x = y

theorem combine_self (t : Part) : combine t t = t := by
  unfold combine; rw [lmax_idem, lmax_idem, mk_self]

theorem sreg_combine (t o : Part) : sreg (combine t o) = lmax srk (sreg t) (sreg o) := rfl
theorem lreg_combine (t o : Part) : lreg (combine t o) = lmax lrk (lreg t) (lreg o) := rfl

theorem combine_assoc (x y z : Part) : combine (combine x y) z = combine x (combine y z) := by
  unfold combine
  rw [show sreg (mk x (lmax srk (sreg x) (sreg y)) (lmax lrk (lreg x) (lreg y))) = lmax srk (sreg x) (sreg y) from rfl,
      show lreg (mk x (lmax srk (sreg x) (sreg y)) (lmax lrk (lreg x) (lreg y))) = lmax lrk (lreg x) (lreg y) from rfl,
      show sreg (mk y (lmax srk (sreg y) (sreg z)) (lmax lrk (lreg y) (lreg z))) = lmax srk (sreg y) (sreg z) from rfl,
      show lreg (mk y (lmax srk (sreg y) (sreg z)) (lmax lrk (lreg y) (lreg z))) = lmax lrk (lreg y) (lreg z) from rfl,
      lmax_assoc, lmax_assoc]
  rfl

theorem joinP_assoc (x y z : Option Part) : joinP (joinP x y) z = joinP x (joinP y z) := by
  cases x <;> cases y <;> cases z <;> simp only [joinP, combine_assoc]

theorem joinP_idem (x : Option Part) : joinP x x = x := by
  cases x <;> simp only [joinP, combine_self]

theorem joinO_assoc (x y z : Option Owner) : joinO (joinO x y) z = joinO x (joinO y z) := by
  unfold joinO
  by_cases h1 : orkO x < orkO y <;> by_cases h2 : orkO y < orkO z <;> by_cases h3 : orkO x < orkO z <;>
    simp [h1, h2, h3] <;> omega

theorem merge_idem (a : PDesc) (ha : WF a) : Equiv (mergeState a a) a := by
  refine ⟨fun k => ?_, fun k => ?_⟩
  · rw [view_parts a a ha, joinP_idem]
  · rw [view_owners a a ha ha]; simp [joinO]

theorem merge_comm (a b : PDesc) (ha : WF a) (hb : WF b) (hc : Coherent a b) :
    Equiv (mergeState a b) (mergeState b a) := by
  refine ⟨fun k => ?_, fun k => ?_⟩
  · rw [view_parts a b hb, view_parts b a ha]
    cases hx : getP a.parts k with
    | none => cases hy : getP b.parts k <;> rfl
    | some x =>
      cases hy : getP b.parts k with
      | none => rfl
      | some y =>
        obtain ⟨hid, htok, hs, hl⟩ := hc.parts k x y hx hy
        simp only [joinP, combine]
        rw [lmax_comm srk (sreg x) (sreg y) hs, lmax_comm lrk (lreg x) (lreg y) hl]
        simp only [mk, hid, htok]
  · rw [view_owners a b ha hb, view_owners b a hb ha]
    unfold joinO
    by_cases h1 : orkO (getO a.owners k) < orkO (getO b.owners k)
    · rw [if_pos h1, if_neg (by omega)]
    · by_cases h2 : orkO (getO b.owners k) < orkO (getO a.owners k)
      · rw [if_neg h1, if_pos h2]
      · rw [if_neg h1, if_neg h2]
        have heq : orkO (getO a.owners k) = orkO (getO b.owners k) := by omega
        cases hx : getO a.owners k with
        | none =>
          cases hy : getO b.owners k with
          | none => rfl
          | some y =>
            rw [hx, hy] at heq
            have := getO_pos hb k y (by rw [← getO_eq]; exact hy)
            simp only [orkO, ork] at heq; split at heq <;> omega
        | some x =>
          cases hy : getO b.owners k with
          | none =>
            rw [hx, hy] at heq
            have := getO_pos ha k x (by rw [← getO_eq]; exact hx)
            simp only [orkO, ork] at heq; split at heq <;> omega
          | some y =>
            rw [hx, hy] at heq
            rw [hc.owners k x y hx hy heq]

theorem merge_assoc (a b c : PDesc) (ha : WF a) (hb : WF b) (hc : WF c) :
    Equiv (mergeState (mergeState a b) c) (mergeState a (mergeState b c)) := by
  have hab := mergeState_wf a b ha hb
  have hbc := mergeState_wf b c hb hc
  refine ⟨fun k => ?_, fun k => ?_⟩
  · rw [view_parts _ c hc, view_parts a b hb, view_parts a _ hbc, view_parts b c hc, joinP_assoc]
  · rw [view_owners _ c hab hc, view_owners a b ha hb, view_owners a _ ha hbc, view_owners b c hb hc, joinO_assoc]

/-! ## convergence under permutation of the update list -/

theorem foldl_wf (s : PDesc) (l : List PDesc) (hs : WF s) (hl : ∀ d ∈ l, WF d) : WF (l.foldl mergeState s) := by
  induction l generalizing s with
  | nil => exact hs
  | cons d ds ih =>
    rw [List.foldl_cons]
    exact ih _ (mergeState_wf s d hs (hl d (by simp))) (fun x hx => hl x (by simp [hx]))

theorem foldl_view_parts (s : PDesc) (l : List PDesc) (hl : ∀ d ∈ l, WF d) (k : Int) :
    getP (l.foldl mergeState s).parts k = l.foldl (fun v d => joinP v (getP d.parts k)) (getP s.parts k) := by
  induction l generalizing s with
  | nil => rfl
  | cons d ds ih =>
    rw [List.foldl_cons, List.foldl_cons, ih _ (fun x hx => hl x (by simp [hx])), view_parts s d (hl d (by simp))]

theorem foldl_view_owners (s : PDesc) (l : List PDesc) (hs : WF s) (hl : ∀ d ∈ l, WF d) (k : String) :
    getO (l.foldl mergeState s).owners k = l.foldl (fun v d => joinO v (getO d.owners k)) (getO s.owners k) := by
  induction l generalizing s with
  | nil => rfl
  | cons d ds ih =>
    rw [List.foldl_cons, List.foldl_cons,
        ih _ (mergeState_wf s d hs (hl d (by simp))) (fun x hx => hl x (by simp [hx])),
        view_owners s d hs (hl d (by simp))]

theorem joinP_comm (x y : Option Part)
    (hc : ∀ a b, x = some a → y = some b → a.id = b.id ∧ a.tokens = b.tokens ∧
      (srk (sreg a) = srk (sreg b) → sreg a = sreg b) ∧ (lrk (lreg a) = lrk (lreg b) → lreg a = lreg b)) :
    joinP x y = joinP y x := by
  cases x with
  | none => cases y <;> rfl
  | some a =>
    cases y with
    | none => rfl
    | some b =>
      obtain ⟨hid, htok, hs, hl⟩ := hc a b rfl rfl
      simp only [joinP, combine]
      rw [lmax_comm srk (sreg a) (sreg b) hs, lmax_comm lrk (lreg a) (lreg b) hl]
      simp only [mk, hid, htok]

theorem joinO_comm (x y : Option Owner) (hc : orkO x = orkO y → x = y) : joinO x y = joinO y x := by
  unfold joinO
  by_cases h1 : orkO x < orkO y
  · rw [if_pos h1, if_neg (by omega)]
  · by_cases h2 : orkO y < orkO x
    · rw [if_neg h1, if_pos h2]
    · rw [if_neg h1, if_neg h2]; exact hc (by omega)

theorem coherent_owner_opt {a b : PDesc} (ha : WF a) (hb : WF b) (hc : Coherent a b) (k : String)
    (h : orkO (getO a.owners k) = orkO (getO b.owners k)) : getO a.owners k = getO b.owners k := by
  cases hx : getO a.owners k with
  | none =>
    cases hy : getO b.owners k with
    | none => rfl
    | some y =>
      rw [hx, hy] at h
      have := getO_pos hb k y (by rw [← getO_eq]; exact hy)
      simp only [orkO, ork] at h; split at h <;> omega
  | some x =>
    cases hy : getO b.owners k with
    | none =>
      rw [hx, hy] at h
      have := getO_pos ha k x (by rw [← getO_eq]; exact hx)
      simp only [orkO, ork] at h; split at h <;> omega
    | some y =>
      rw [hx, hy] at h
      rw [hc.owners k x y hx hy h]

/-- replicas that received the same set of partition-ring updates in any order expose the same content -/
theorem converge_perm (s : PDesc) {l l' : List PDesc} (hp : l.Perm l') (hs : WF s) (hl : ∀ d ∈ l, WF d)
    (hc : ∀ x ∈ l, ∀ y ∈ l, Coherent x y) : Equiv (l.foldl mergeState s) (l'.foldl mergeState s) := by
  have hl' : ∀ d ∈ l', WF d := fun d hd => hl d (hp.mem_iff.2 hd)
  refine ⟨fun k => ?_, fun k => ?_⟩
  · rw [foldl_view_parts s l hl, foldl_view_parts s l' hl']
    apply List.Perm.foldl_eq' hp
    intro x hx y hy z
    rw [joinP_assoc, joinP_assoc, joinP_comm _ _ (fun a b ha hb => (hc x hx y hy).parts k a b ha hb)]
  · rw [foldl_view_owners s l hs hl, foldl_view_owners s l' hs hl']
    apply List.Perm.foldl_eq' hp
    intro x hx y hy z
    rw [joinO_assoc, joinO_assoc, joinO_comm _ _ (coherent_owner_opt (hl x hx) (hl y hy) (hc x hx y hy) k)]

end PfC03P
