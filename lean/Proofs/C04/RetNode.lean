import Proofs.C04.Retention
import Proofs.C04.Learn
/-! # C04 — node level with an ARBITRARY `LeftIngestersTimeout` (`cfg.lit ≥ 0`)

The node-level theorems of `Proofs/C04/Learn.lean` and `cas_removal` generalised from `cfg.lit = 0` to any
retention; the retention proviso is the property's: the tombstone is not older than the retention measured on
the RECEIVING node's clock (`e.ts ≥ now + 1 - lit`, i.e. not `ts ≤ now - lit`). -/
namespace PfC04
open Ring C03 C06 PfC03 PfC06

variable {U : String → Int → Bool → Inst}

/-- value level: after merging a message that carries the tombstone `x@t` into a value whose entry for `x` is not
newer, the entry of `x` is a tombstone with timestamp `t` -/
theorem merged_is_tomb (hU : Univ U) {s m : Desc} (hs : Drawn U s) (hm : Drawn U m) (x : String) (e : Inst)
    (he : get? m x = some e) (hleft : e.state = .LEFT) (hold : ∀ cur, get? s x = some cur → cur.ts ≤ e.ts) :
    ∃ z, get? (mergeState s m) x = some z ∧ z.state = .LEFT ∧ z.ts = e.ts := by
  rw [view_merge hU hs hm, he]
  unfold maxOpt
  by_cases hlt : rkO (get? s x) < rkO (some e)
  · rw [if_pos hlt]; exact ⟨e, rfl, hleft, rfl⟩
  · rw [if_neg hlt]
    cases hc : get? s x with
    | none =>
      rw [hc, rkO_none, rkO_some] at hlt
      have := rk_pos (hm.pos e (get?_mem he)); omega
    | some cur =>
      have hle := hold cur hc
      rw [hc, rkO_some, rkO_some] at hlt
      unfold rk at hlt
      rw [if_pos hleft] at hlt
      by_cases hcl : cur.state = .LEFT
      · rw [if_pos hcl] at hlt; exact ⟨cur, rfl, hcl, by omega⟩
      · rw [if_neg hcl] at hlt; omega

/-- what a node with retention `lit > 0` stores for `x` after it received the tombstone `x@t` (its own entry not
newer): a tombstone or nothing — and the tombstone `x@t` itself while it is retained on the node's clock -/
theorem stored_after_tombstone (hU : Univ U) {cfg : Cfg} (hlit : cfg.lit > 0) {clock : Int} (now : Int) {nd : Node Desc}
    {m : Msg Desc} (hnd : GoodNode U clock nd) (hm : GoodMsg U clock m) (x : String) (e : Inst)
    (he : get? m.val x = some e) (hleft : e.state = .LEFT)
    (hold : ∀ cur, get? (sval nd.store m.key) x = some cur → cur.ts ≤ e.ts) :
    Drawn U (sval (deliver cfg now nd m).store m.key) ∧
    (∀ z, get? (sval (deliver cfg now nd m).store m.key) x = some z → z.state = .LEFT) ∧
    (e.ts ≥ now + 1 - cfg.lit →
      ∃ z, get? (sval (deliver cfg now nd m).store m.key) x = some z ∧ z.state = .LEFT ∧ z.ts = e.ts) := by
  cases hg : getE nd.store m.key with
  | none =>
    rw [deliver_sval_gc_first hlit now hg hm.2]
    refine ⟨drawn_gc _ hm.1.1, ?_, ?_⟩
    · intro z hz
      rw [get?_gc _ _ hm.1.1.nodup, he] at hz
      simp only at hz
      split at hz
      · cases hz
      · injection hz with hz; rw [← hz]; exact hleft
    · intro hret
      rw [get?_gc _ _ hm.1.1.nodup, he]
      simp only
      rw [if_neg (fun h => by omega)]
      exact ⟨e, rfl, hleft, rfl⟩
  | some c =>
    obtain ⟨hcv, hcd⟩ := hnd.1 m.key c hg
    have hsvc : sval nd.store m.key = c.val := by unfold sval; rw [hg]
    rw [hsvc] at hold
    rw [deliver_sval_gc hU hlit now hg hcv.1 hcd hm.1.1 hm.2]
    obtain ⟨z, hz, hzl, hzt⟩ := merged_is_tomb hU hcv.1 hm.1.1 x e he hleft hold
    have hmd := mergeState_drawn hU hcv.1 hm.1.1
    refine ⟨deliverVal_drawn hU _ _ hcv.1 hm.1.1, ?_, ?_⟩
    · intro z' hz'
      unfold deliverVal at hz'
      split at hz'
      · rename_i hch
        have heq : mergeState c.val m.val = c.val := PfC03.no_change_no_effect false 0 c.val m.val hch
        rw [← heq, hz] at hz'
        injection hz' with hz'; rw [← hz']; exact hzl
      · rw [get?_gc _ _ hmd.nodup, hz] at hz'
        simp only at hz'
        split at hz'
        · cases hz'
        · injection hz' with hz'; rw [← hz']; exact hzl
    · intro hret
      unfold deliverVal
      split
      · rename_i hch
        have heq : mergeState c.val m.val = c.val := PfC03.no_change_no_effect false 0 c.val m.val hch
        rw [← heq]; exact ⟨z, hz, hzl, hzt⟩
      · rw [get?_gc _ _ hmd.nodup, hz]
        simp only
        rw [if_neg (fun h => by omega)]
        exact ⟨z, rfl, hzl, hzt⟩

/-- **learns ⇒ hides, any retention**: a gossip message carrying the tombstone `x@t` reaches a node (retention
`lit ≥ 0`, any value) whose entry for `x`, if any, is not newer: no reader of that node is shown `x` afterwards —
whether the node keeps the tombstone or collects it at once -/
theorem learn_hides_any (hU : Univ U) {cfg : Cfg} (hlit : cfg.lit ≥ 0) {clock : Int} (now : Int) {nd : Node Desc} {m : Msg Desc}
    (hnd : GoodNode U clock nd) (hm : GoodMsg U clock m) (hk : m.key ≠ "") (x : String) (e : Inst)
    (he : get? m.val x = some e) (hleft : e.state = .LEFT)
    (hold : ∀ cur, get? (sval nd.store m.key) x = some cur → cur.ts ≤ e.ts) :
    ∀ v, ((notifyMsg cfg now nd m).get m.key).1 = some v → ∀ y ∈ v, y.id ≠ x := by
  by_cases h0 : cfg.lit = 0
  · exact learn_hides hU h0 now hnd hm hk x e he hleft hold
  · have hpos : cfg.lit > 0 := by omega
    obtain ⟨hdr, htomb, _⟩ := stored_after_tombstone hU hpos now hnd hm x e he hleft hold
    rw [notifyMsg_deliver now hk]
    intro v hv y hy hyx
    unfold Node.get at hv
    cases hg : getE (deliver cfg now nd m).store m.key with
    | none => rw [hg] at hv; cases hv
    | some en =>
      rw [hg] at hv
      simp only [Option.some.injEq] at hv
      subst hv
      have hsvq : sval (deliver cfg now nd m).store m.key = en.val := by unfold sval; rw [hg]
      rw [hsvq] at hdr htomb
      have hmem := (strip_mem en.val y).1 hy
      have : get? en.val y.id = some y := get?_of_mem_nodup hdr.nodup hmem.1
      rw [hyx] at this
      exact hmem.2 (htomb y this)

/-- **learns ⇒ keeps while retained**: with retention `lit > 0`, a node that receives the tombstone `x@t` not older than
the retention on ITS clock (`t ≥ now + 1 − lit`) stores a tombstone `x@t` -/
theorem learn_keeps_retained (hU : Univ U) {cfg : Cfg} (hlit : cfg.lit > 0) {clock : Int} (now : Int) {nd : Node Desc}
    {m : Msg Desc} (hnd : GoodNode U clock nd) (hm : GoodMsg U clock m) (x : String) (e : Inst)
    (he : get? m.val x = some e) (hleft : e.state = .LEFT)
    (hold : ∀ cur, get? (sval nd.store m.key) x = some cur → cur.ts ≤ e.ts) (hret : e.ts ≥ now + 1 - cfg.lit) :
    ∃ z, get? (sval (deliver cfg now nd m).store m.key) x = some z ∧ z.state = .LEFT ∧ z.ts = e.ts :=
  (stored_after_tombstone hU hlit now hnd hm x e he hleft hold).2.2 hret

/-! ## a removal through `KV.CAS` with any retention: the fresh tombstone carries the node's clock, so it is never
older than a retention of at least one second — stored and queued whatever `LeftIngestersTimeout` is -/

theorem cas_removal_any (hU : Univ U) (hT : TombClosed U) {cfg : Cfg} (hlit : cfg.lit ≥ 0) {clock : Int} (hclock : clock ≥ 1)
    (nowMs : Int) {nd : Node Desc} {key : String} {f : Option Desc → Option Desc} (hnd : GoodNode U clock nd)
    (hf : GoodFn U clock f) {c0 : Entry Desc} (hg : getE nd.store key = some c0) (out : Desc)
    (hout : f (some (removeTombstones none c0.val)) = some out) (t : Inst) (ht : get? c0.val t.id = some t)
    (hlive : t.state ≠ .LEFT) (hmiss : get? out t.id = none) :
    get? (sval (cas cfg clock nowMs nd key f).1.store key) t.id = some (tomb t clock) ∧
    ∃ b ∈ (cas cfg clock nowMs nd key f).1.localQ, b.key = key ∧ get? b.change t.id = some (tomb t clock) := by
  by_cases h0 : cfg.lit = 0
  · exact cas_removal hU hT h0 hclock nowMs hnd hf hg out hout t ht hlive hmiss
  have hpos : cfg.lit > 0 := by omega
  have hlim : cfg.limit clock = some (clock + 1 - cfg.lit) := by unfold Cfg.limit; rw [if_pos hpos]
  obtain ⟨hcv, hcd⟩ := hnd.1 key c0 hg
  have hgo := hf _ out hout
  obtain ⟨hst, ch, hch, hcht⟩ := removal_stamp hU hT hclock hcv.1 hgo.1 t ht hlive hmiss
  have hsd : Drawn U (C03.merge true clock c0.val out).state := (merge_true_spec hU hT hclock hcv hgo).good.1
  have hcd' : Drawn U ch := (merge_true_change_drawn hU hT hclock hcv hgo hch).1.1
  have hkeep : ¬ ((tomb t clock).state = .LEFT ∧ (tomb t clock).ts < clock + 1 - cfg.lit) := by
    intro hh
    have h2 : clock < clock + 1 - cfg.lit := hh.2
    omega
  have hne : ch ≠ [] := fun h => by rw [h, get?_nil] at hcht; cases hcht
  have hemp : (MergeVal.names ch).isEmpty = false := by
    cases h : (MergeVal.names ch).isEmpty with
    | false => rfl
    | true => exact absurd ((ids_isEmpty ch).1 h) hne
  have hemp2 : (MergeVal.names (MergeVal.gc (some (clock + 1 - cfg.lit)) ch : Desc)).isEmpty = false := by
    cases h : (MergeVal.names (MergeVal.gc (some (clock + 1 - cfg.lit)) ch : Desc)).isEmpty with
    | false => rfl
    | true =>
      have hnil : removeTombstones (some (clock + 1 - cfg.lit)) ch = [] := (ids_isEmpty _).1 h
      have hin : tomb t clock ∈ removeTombstones (some (clock + 1 - cfg.lit)) ch :=
        (gc_mem _ ch _).2 ⟨get?_mem hcht, hkeep⟩
      rw [hnil] at hin; cases hin
  have hview : (nd.get key) = (some (removeTombstones none c0.val), c0.version) := by
    unfold Node.get; rw [hg]; rfl
  have hm : (MergeVal.merge true clock c0.val out : Option (Desc × Option Desc)) =
      some ((C03.merge true clock c0.val out).state, (C03.merge true clock c0.val out).change) := rfl
  have hmvk : mergeValueForKey (some (clock + 1 - cfg.lit)) clock nd.store key out true c0.version false nowMs =
      { store := setE nd.store key { val := removeTombstones (some (clock + 1 - cfg.lit)) (C03.merge true clock c0.val out).state,
                                     version := c0.version + 1, deleted := c0.deleted, updateTime := c0.updateTime },
        out := some { change := removeTombstones (some (clock + 1 - cfg.lit)) ch, version := c0.version + 1,
                      deleted := c0.deleted, updateTime := c0.updateTime } } := by
    unfold mergeValueForKey
    rw [hg]
    simp only [ne_eq, not_true_eq_false, and_false, if_false]
    rw [hm]
    simp only [Bool.and_false, Bool.false_eq_true, if_false, hch, hemp, Bool.false_and, Option.map_some, hemp2]
    rfl
  unfold cas
  rw [hview]
  simp only [hout]
  rw [hlim, hmvk]
  simp only [Bool.false_eq_true, if_false, broadcast, if_true, notify_store, notify_localQ]
  have hgc1 : get? (removeTombstones (some (clock + 1 - cfg.lit)) (C03.merge true clock c0.val out).state) t.id =
      some (tomb t clock) := by
    rw [get?_gc _ _ hsd.nodup, hst]
    simp only
    rw [if_neg hkeep]
  have hgc2 : get? (removeTombstones (some (clock + 1 - cfg.lit)) ch) t.id = some (tomb t clock) := by
    rw [get?_gc _ _ hcd'.nodup, hcht]
    simp only
    rw [if_neg hkeep]
  refine ⟨by rw [sval_setE]; exact hgc1, ?_⟩
  refine ⟨({ key := key, content := MergeVal.names (removeTombstones (some (clock + 1 - cfg.lit)) ch), version := c0.version + 1,
             change := removeTombstones (some (clock + 1 - cfg.lit)) ch, deleted := c0.deleted,
             updateTime := c0.updateTime } : Bcast Desc), ?_, rfl, hgc2⟩
  unfold enqueue; simp

end PfC04
