import Proofs.C03P
import Proofs.C04
/-! # C04 — partition ring, descriptor level: deleted partitions / owners block older entries, stay
deleted along any sequence of merges, and a local update stamps missing ones with `now`.
Built on the partition-ring laws of `Proofs/C03P.lean` (`view_parts`, `view_owners`). -/
namespace PfC04
open C03P PfC03P

/-! ## rank never decreases under a gossip merge -/

theorem srk_combine (t o : Part) : srk (sreg (combine t o)) = max (srk (sreg t)) (srk (sreg o)) := by
  rw [sreg_combine]; exact r_lmax srk _ _

theorem lrk_combine (t o : Part) : lrk (lreg (combine t o)) = max (lrk (lreg t)) (lrk (lreg o)) := by
  rw [lreg_combine]; exact r_lmax lrk _ _

/-- a partition's state register only moves up in (timestamp, deleted) order -/
theorem part_mono (a b : PDesc) (hb : WF b) (k : Int) (t : Part) (ht : getP a.parts k = some t) :
    ∃ p, getP (mergeState a b).parts k = some p ∧ srk (sreg t) ≤ srk (sreg p) ∧ lrk (lreg t) ≤ lrk (lreg p) := by
  rw [view_parts a b hb k, ht]
  cases getP b.parts k with
  | none => exact ⟨t, rfl, Int.le_refl _, Int.le_refl _⟩
  | some o => exact ⟨combine t o, rfl, by rw [srk_combine]; omega, by rw [lrk_combine]; omega⟩

theorem orkO_joinO (t o : Option Owner) : orkO (joinO t o) = max (orkO t) (orkO o) := by
  unfold joinO; split <;> omega

theorem owner_mono (a b : PDesc) (ha : WF a) (hb : WF b) (k : String) :
    orkO (getO a.owners k) ≤ orkO (getO (mergeState a b).owners k) := by
  rw [view_owners a b ha hb k, orkO_joinO]; omega

/-! ## a deleted entry blocks everything that is not newer -/

/-- a deleted partition keeps its state register against any incoming entry whose state timestamp is
not newer (same second included) -/
theorem part_tombstone_blocks (a b : PDesc) (hb : WF b) (k : Int) (t : Part) (ht : getP a.parts k = some t)
    (hdel : t.state = partDeleted) (hold : ∀ o, getP b.parts k = some o → o.stateTs ≤ t.stateTs) :
    ∃ p, getP (mergeState a b).parts k = some p ∧ p.state = partDeleted ∧ p.stateTs = t.stateTs := by
  rw [view_parts a b hb k, ht]
  cases hg : getP b.parts k with
  | none => exact ⟨t, rfl, hdel, rfl⟩
  | some o =>
    refine ⟨combine t o, rfl, ?_⟩
    have hle := hold o hg
    have hnlt : ¬ srk (sreg t) < srk (sreg o) := by
      unfold srk sreg; simp only [hdel, if_true]; split <;> omega
    have : sreg (combine t o) = sreg t := by rw [sreg_combine]; unfold lmax; rw [if_neg hnlt]
    have h1 : (combine t o).state = t.state := congrArg Prod.fst this
    have h2 : (combine t o).stateTs = t.stateTs := congrArg Prod.snd this
    exact ⟨h1.trans hdel, h2⟩

theorem owner_tombstone_blocks_desc (a b : PDesc) (ha : WF a) (hb : WF b) (k : String) (t : Owner)
    (ht : getO a.owners k = some t) (hdel : t.state = ownerDeleted) (hold : ∀ o, getO b.owners k = some o → o.ts ≤ t.ts) :
    getO (mergeState a b).owners k = some t := by
  rw [view_owners a b ha hb k, ht]
  unfold joinO
  have : ¬ orkO (some t) < orkO (getO b.owners k) := by
    cases hg : getO b.owners k with
    | none =>
      have := ha.opos t (by rw [getO_eq] at ht; exact getG_mem Owner.id ht)
      simp only [orkO, ork]; split <;> omega
    | some o =>
      have := hold o hg
      simp only [orkO, ork, hdel, if_true]; split <;> omega
  rw [if_neg this]

/-! ## over any sequence of merges -/

theorem part_no_resurrection (s : PDesc) (l : List PDesc) (hl : ∀ d ∈ l, WF d) (k : Int) (t : Part)
    (ht : getP s.parts k = some t) (hdel : t.state = partDeleted) :
    ∃ p, getP (l.foldl mergeState s).parts k = some p ∧ (p.state = partDeleted ∨ p.stateTs > t.stateTs) := by
  have key : ∀ (l : List PDesc) (s : PDesc), (∀ d ∈ l, WF d) → ∀ t0, getP s.parts k = some t0 → srk (sreg t) ≤ srk (sreg t0) →
      ∃ p, getP (l.foldl mergeState s).parts k = some p ∧ srk (sreg t) ≤ srk (sreg p) := by
    intro l
    induction l with
    | nil => intro s _ t0 h0 hle; exact ⟨t0, h0, hle⟩
    | cons d ds ih =>
      intro s hl t0 h0 hle
      obtain ⟨p, hp, hle', _⟩ := part_mono s d (hl d (by simp)) k t0 h0
      rw [List.foldl_cons]
      exact ih _ (fun x hx => hl x (by simp [hx])) p hp (Int.le_trans hle hle')
  obtain ⟨p, hp, hle⟩ := key l s hl t ht (Int.le_refl _)
  refine ⟨p, hp, ?_⟩
  unfold srk sreg at hle
  simp only [hdel, if_true] at hle
  by_cases h : p.state = partDeleted
  · exact Or.inl h
  · simp only [h, if_false] at hle; exact Or.inr (by omega)

theorem owner_no_resurrection (s : PDesc) (l : List PDesc) (hs : WF s) (hl : ∀ d ∈ l, WF d) (k : String) (t : Owner)
    (ht : getO s.owners k = some t) (hdel : t.state = ownerDeleted) (p : Owner)
    (hp : getO (l.foldl mergeState s).owners k = some p) : p.state = ownerDeleted ∨ p.ts > t.ts := by
  have key : ∀ (l : List PDesc) (s : PDesc), WF s → (∀ d ∈ l, WF d) →
      orkO (getO s.owners k) ≤ orkO (getO (l.foldl mergeState s).owners k) := by
    intro l
    induction l with
    | nil => intro s _ _; exact Int.le_refl _
    | cons d ds ih =>
      intro s hs hl
      rw [List.foldl_cons]
      exact Int.le_trans (owner_mono s d hs (hl d (by simp)) k)
        (ih _ (mergeState_wf s d hs (hl d (by simp))) (fun x hx => hl x (by simp [hx])))
  have := key l s hs hl
  rw [ht, hp] at this
  simp only [orkO, ork, hdel, if_true] at this
  by_cases h : p.state = ownerDeleted
  · exact Or.inl h
  · simp only [h, if_false] at this; exact Or.inr (by omega)

/-! ## the removal stamp of a local update, descriptor level -/

def ptomb (t : Part) (now : Int) : Part := { t with state := partDeleted, stateTs := now }

def pcasCond (other : PDesc) (t : Part) : Prop := (getP other.parts t.id).isNone = true ∧ t.state ≠ partDeleted

theorem casPart_parts (other : PDesc) (now : Int) (acc : C03P.Acc) (t : Part) :
    ((casPart other now acc t).this.parts = acc.this.parts ∨
     (pcasCond other t ∧ (casPart other now acc t).this.parts = upsertP (ptomb t now) acc.this.parts)) ∧
    (pcasCond other t → (casPart other now acc t).this.parts = upsertP (ptomb t now) acc.this.parts) := by
  unfold casPart
  by_cases h : (getP other.parts t.id).isNone = true ∧ t.state ≠ partDeleted
  · rw [if_pos h]; exact ⟨Or.inr ⟨h, rfl⟩, fun _ => rfl⟩
  · rw [if_neg h]; exact ⟨Or.inl rfl, fun hc => absurd hc h⟩

theorem getP_upsertP (e : Part) (l : List Part) (k : Int) :
    getP (upsertP e l) k = if k = e.id then some e else getP l k := by
  rw [getP_eq, upsertP_eq, getG_upsertG, getP_eq]

theorem casPartFold_other (other : PDesc) (now : Int) (l : List Part) (acc : C03P.Acc) (k : Int) (hk : ∀ t ∈ l, t.id ≠ k) :
    getP (l.foldl (casPart other now) acc).this.parts k = getP acc.this.parts k := by
  induction l generalizing acc with
  | nil => rfl
  | cons t ts ih =>
    rw [List.foldl_cons, ih _ (fun x hx => hk x (by simp [hx]))]
    rcases (casPart_parts other now acc t).1 with h | ⟨_, h⟩
    · rw [h]
    · rw [h, getP_upsertP, if_neg (fun e => hk t (by simp) e.symm)]

theorem casPartFold_tomb (other : PDesc) (now : Int) (l : List Part) (hn : (l.map Part.id).Nodup) (acc : C03P.Acc) (t : Part)
    (ht : t ∈ l) (hc : pcasCond other t) :
    getP (l.foldl (casPart other now) acc).this.parts t.id = some (ptomb t now) := by
  induction l generalizing acc with
  | nil => simp at ht
  | cons x xs ih =>
    simp only [List.map_cons, List.nodup_cons] at hn
    rw [List.foldl_cons]
    rcases List.mem_cons.1 ht with h | h
    · subst h
      rw [casPartFold_other _ _ _ _ _ (fun y hy e => hn.1 (by rw [← e]; exact List.mem_map_of_mem hy)),
        (casPart_parts other now acc t).2 hc, getP_upsertP]
      exact if_pos rfl
    · exact ih hn.2 _ h

theorem casOwner_parts (other : PDesc) (now : Int) (acc : C03P.Acc) (t : Owner) :
    (casOwner other now acc t).this.parts = acc.this.parts := by
  unfold casOwner; split <;> rfl

theorem casOwnerFold_parts (other : PDesc) (now : Int) (l : List Owner) (acc : C03P.Acc) :
    (l.foldl (casOwner other now) acc).this.parts = acc.this.parts := by
  induction l generalizing acc with
  | nil => rfl
  | cons t ts ih => rw [List.foldl_cons, ih, casOwner_parts]

/-- **removal stamp, partition ring**: a partition that a local update's result lacks and that is not
deleted yet is stored as deleted with state timestamp `now` (id, tokens and lock register kept) -/
theorem part_removal_stamp (now : Int) (a b : PDesc) (ha : (a.parts.map Part.id).Nodup) (hb : WF b) (t : Part)
    (ht : getP a.parts t.id = some t) (hlive : t.state ≠ partDeleted) (hmiss : getP b.parts t.id = none) :
    getP (C03P.merge true now a b).state.parts t.id = some (ptomb t now) := by
  have hstate : (C03P.merge true now a b).state.parts =
      ((b.parts.foldl stepPart { this := a, chP := [], chO := [] }).this.parts.foldl (casPart b now)
        (b.parts.foldl stepPart { this := a, chP := [], chO := [] })).this.parts := by
    unfold C03P.merge
    simp only [if_true]
    split <;> (simp only; rw [casOwnerFold_parts, (foldl_stepOwner _ _).2])
  rw [hstate]
  have hparts : (b.parts.foldl stepPart { this := a, chP := [], chO := [] }).this.parts = (mergeState a b).parts := by
    rw [(foldl_stepPart _ _).1, mergeState_parts]
  have hview : getP (mergeState a b).parts t.id = some t := by rw [view_parts a b hb, ht, hmiss]; rfl
  have hmem : t ∈ (mergeState a b).parts := by rw [getP_eq] at hview; exact getG_mem Part.id hview
  have hnd : ((mergeState a b).parts.map Part.id).Nodup := by
    rw [mergeState_parts]; exact foldl_partsStep_nodup _ _ ha
  rw [hparts]
  exact casPartFold_tomb b now _ hnd _ t hmem ⟨by rw [hmiss]; rfl, hlive⟩

/-! ## the change of a local update reports the stamped partition -/

theorem casPart_chP (other : PDesc) (now : Int) (acc : C03P.Acc) (t : Part) :
    ((casPart other now acc t).chP = acc.chP ∨ (casPart other now acc t).chP = upsertP (ptomb t now) acc.chP) ∧
    (pcasCond other t → (casPart other now acc t).chP = upsertP (ptomb t now) acc.chP) := by
  unfold casPart
  by_cases h : (getP other.parts t.id).isNone = true ∧ t.state ≠ partDeleted
  · rw [if_pos h]; exact ⟨Or.inr rfl, fun _ => rfl⟩
  · rw [if_neg h]; exact ⟨Or.inl rfl, fun hc => absurd hc h⟩

theorem casPartFold_chP_other (other : PDesc) (now : Int) (l : List Part) (acc : C03P.Acc) (k : Int) (hk : ∀ t ∈ l, t.id ≠ k) :
    getP (l.foldl (casPart other now) acc).chP k = getP acc.chP k := by
  induction l generalizing acc with
  | nil => rfl
  | cons t ts ih =>
    rw [List.foldl_cons, ih _ (fun x hx => hk x (by simp [hx]))]
    rcases (casPart_chP other now acc t).1 with h | h
    · rw [h]
    · rw [h, getP_upsertP, if_neg (fun e => hk t (by simp) e.symm)]

theorem casPartFold_chP_tomb (other : PDesc) (now : Int) (l : List Part) (hn : (l.map Part.id).Nodup) (acc : C03P.Acc) (t : Part)
    (ht : t ∈ l) (hc : pcasCond other t) :
    getP (l.foldl (casPart other now) acc).chP t.id = some (ptomb t now) := by
  induction l generalizing acc with
  | nil => simp at ht
  | cons x xs ih =>
    simp only [List.map_cons, List.nodup_cons] at hn
    rw [List.foldl_cons]
    rcases List.mem_cons.1 ht with h | h
    · subst h
      rw [casPartFold_chP_other _ _ _ _ _ (fun y hy e => hn.1 (by rw [← e]; exact List.mem_map_of_mem hy)),
        (casPart_chP other now acc t).2 hc, getP_upsertP]
      exact if_pos rfl
    · exact ih hn.2 _ h

theorem stepOwner_chP (acc : C03P.Acc) (o : Owner) : (stepOwner acc o).chP = acc.chP := by
  unfold stepOwner; split <;> rfl
theorem foldl_stepOwner_chP (os : List Owner) (acc : C03P.Acc) : (os.foldl stepOwner acc).chP = acc.chP := by
  induction os generalizing acc with
  | nil => rfl
  | cons o os ih => rw [List.foldl_cons, ih, stepOwner_chP]
theorem casOwner_chP (other : PDesc) (now : Int) (acc : C03P.Acc) (t : Owner) : (casOwner other now acc t).chP = acc.chP := by
  unfold casOwner; split <;> rfl
theorem casOwnerFold_chP (other : PDesc) (now : Int) (l : List Owner) (acc : C03P.Acc) :
    (l.foldl (casOwner other now) acc).chP = acc.chP := by
  induction l generalizing acc with
  | nil => rfl
  | cons t ts ih => rw [List.foldl_cons, ih, casOwner_chP]

/-- … and the change of that local update carries the stamped partition (so it is forwarded) -/
theorem part_removal_in_change (now : Int) (a b : PDesc) (ha : (a.parts.map Part.id).Nodup) (hb : WF b) (t : Part)
    (ht : getP a.parts t.id = some t) (hlive : t.state ≠ partDeleted) (hmiss : getP b.parts t.id = none) :
    ∃ ch, (C03P.merge true now a b).change = some ch ∧ getP ch.parts t.id = some (ptomb t now) := by
  have hparts : (b.parts.foldl stepPart { this := a, chP := [], chO := [] }).this.parts = (mergeState a b).parts := by
    rw [(foldl_stepPart _ _).1, mergeState_parts]
  have hview : getP (mergeState a b).parts t.id = some t := by rw [view_parts a b hb, ht, hmiss]; rfl
  have hmem : t ∈ (mergeState a b).parts := by rw [getP_eq] at hview; exact getG_mem Part.id hview
  have hnd : ((mergeState a b).parts.map Part.id).Nodup := by
    rw [mergeState_parts]; exact foldl_partsStep_nodup _ _ ha
  have hchP : getP ((b.parts.foldl stepPart { this := a, chP := [], chO := [] }).this.parts.foldl (casPart b now)
      (b.parts.foldl stepPart { this := a, chP := [], chO := [] })).chP t.id = some (ptomb t now) := by
    rw [hparts]
    exact casPartFold_chP_tomb b now _ hnd _ t hmem ⟨by rw [hmiss]; rfl, hlive⟩
  unfold C03P.merge
  simp only [if_true]
  rw [casOwnerFold_chP, foldl_stepOwner_chP]
  have hne : ¬ (((b.parts.foldl stepPart { this := a, chP := [], chO := [] }).this.parts.foldl (casPart b now)
      (b.parts.foldl stepPart { this := a, chP := [], chO := [] })).chP.isEmpty = true ∧
      (List.foldl (casOwner b now) (List.foldl stepOwner (List.foldl (casPart b now) (List.foldl stepPart { this := a, chP := [], chO := [] } b.parts)
        (List.foldl stepPart { this := a, chP := [], chO := [] } b.parts).this.parts) b.owners)
        (List.foldl stepOwner (List.foldl (casPart b now) (List.foldl stepPart { this := a, chP := [], chO := [] } b.parts)
        (List.foldl stepPart { this := a, chP := [], chO := [] } b.parts).this.parts) b.owners).this.owners).chO.isEmpty = true) := by
    intro h
    have hnil := List.isEmpty_iff.1 h.1
    rw [hnil] at hchP
    simp [getP] at hchP
  rw [if_neg hne]
  exact ⟨_, rfl, hchP⟩

/-! ## owners: the removal stamp, descriptor level -/

def otomb (t : Owner) (now : Int) : Owner := { t with state := ownerDeleted, ts := now }
def ocasCond (other : PDesc) (t : Owner) : Prop := (getO other.owners t.id).isNone = true ∧ t.state ≠ ownerDeleted

theorem casOwner_owners (other : PDesc) (now : Int) (acc : C03P.Acc) (t : Owner) :
    ((casOwner other now acc t).this.owners = acc.this.owners ∨
     (casOwner other now acc t).this.owners = upsertO (otomb t now) acc.this.owners) ∧
    (ocasCond other t → (casOwner other now acc t).this.owners = upsertO (otomb t now) acc.this.owners) := by
  unfold casOwner
  by_cases h : (getO other.owners t.id).isNone = true ∧ t.state ≠ ownerDeleted
  · rw [if_pos h]; exact ⟨Or.inr rfl, fun _ => rfl⟩
  · rw [if_neg h]; exact ⟨Or.inl rfl, fun hc => absurd hc h⟩

theorem getO_upsertO (e : Owner) (l : List Owner) (k : String) :
    getO (upsertO e l) k = if k = e.id then some e else getO l k := by
  rw [getO_eq, upsertO_eq, getG_upsertG, getO_eq]

theorem casOwnerFold_other (other : PDesc) (now : Int) (l : List Owner) (acc : C03P.Acc) (k : String) (hk : ∀ t ∈ l, t.id ≠ k) :
    getO (l.foldl (casOwner other now) acc).this.owners k = getO acc.this.owners k := by
  induction l generalizing acc with
  | nil => rfl
  | cons t ts ih =>
    rw [List.foldl_cons, ih _ (fun x hx => hk x (by simp [hx]))]
    rcases (casOwner_owners other now acc t).1 with h | h
    · rw [h]
    · rw [h, getO_upsertO, if_neg (fun e => hk t (by simp) e.symm)]

theorem casOwnerFold_tomb (other : PDesc) (now : Int) (l : List Owner) (hn : (l.map Owner.id).Nodup) (acc : C03P.Acc) (t : Owner)
    (ht : t ∈ l) (hc : ocasCond other t) :
    getO (l.foldl (casOwner other now) acc).this.owners t.id = some (otomb t now) := by
  induction l generalizing acc with
  | nil => simp at ht
  | cons x xs ih =>
    simp only [List.map_cons, List.nodup_cons] at hn
    rw [List.foldl_cons]
    rcases List.mem_cons.1 ht with h | h
    · subst h
      rw [casOwnerFold_other _ _ _ _ _ (fun y hy e => hn.1 (by rw [← e]; exact List.mem_map_of_mem hy)),
        (casOwner_owners other now acc t).2 hc, getO_upsertO]
      exact if_pos rfl
    · exact ih hn.2 _ h

theorem casPart_owners (other : PDesc) (now : Int) (acc : C03P.Acc) (t : Part) : (casPart other now acc t).this.owners = acc.this.owners := by
  unfold casPart; split <;> rfl
theorem casPartFold_owners (other : PDesc) (now : Int) (l : List Part) (acc : C03P.Acc) :
    (l.foldl (casPart other now) acc).this.owners = acc.this.owners := by
  induction l generalizing acc with
  | nil => rfl
  | cons t ts ih => rw [List.foldl_cons, ih, casPart_owners]

/-- **removal stamp, owners**: an owner that a local update's result lacks and that is not deleted yet is
stored as deleted with timestamp `now` (owned partition kept) -/
theorem owner_removal_stamp_desc' (now : Int) (a b : PDesc) (ha : WF a) (hb : WF b) (t : Owner)
    (ht : getO a.owners t.id = some t) (hlive : t.state ≠ ownerDeleted) (hmiss : getO b.owners t.id = none) :
    getO (C03P.merge true now a b).state.owners t.id = some (otomb t now) := by
  -- owners after the incoming-owners loop = owners of the gossip merge
  have howners : ∀ acc : C03P.Acc, acc.this.owners = a.owners →
      (b.owners.foldl stepOwner acc).this.owners = (mergeState a b).owners := by
    intro acc h
    rw [(foldl_stepOwner _ _).1, h, mergeState_owners]
  have hacc1 : ((b.parts.foldl stepPart { this := a, chP := [], chO := [] }).this.parts.foldl (casPart b now)
      (b.parts.foldl stepPart { this := a, chP := [], chO := [] })).this.owners = a.owners := by
    rw [casPartFold_owners, (foldl_stepPart _ _).2]
  have hview : getO (mergeState a b).owners t.id = some t := by
    rw [view_owners a b ha hb, ht, hmiss]
    unfold joinO
    have := ha.opos t (by rw [getO_eq] at ht; exact getG_mem Owner.id ht)
    rw [if_neg (by simp only [orkO, ork]; split <;> omega)]
  have hmem : t ∈ (mergeState a b).owners := by rw [getO_eq] at hview; exact getG_mem Owner.id hview
  have hnd : ((mergeState a b).owners.map Owner.id).Nodup := by
    rw [mergeState_owners]; exact foldl_ownersStep_nodup _ _ ha.on
  have hstate : (C03P.merge true now a b).state.owners =
      ((mergeState a b).owners.foldl (casOwner b now) (b.owners.foldl stepOwner
        ((b.parts.foldl stepPart { this := a, chP := [], chO := [] }).this.parts.foldl (casPart b now)
          (b.parts.foldl stepPart { this := a, chP := [], chO := [] })))).this.owners := by
    unfold C03P.merge
    simp only [if_true]
    rw [howners _ hacc1]
    split <;> rfl
  rw [hstate]
  exact casOwnerFold_tomb b now _ hnd _ t hmem ⟨by rw [hmiss]; rfl, hlive⟩

end PfC04
