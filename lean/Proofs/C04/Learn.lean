import Proofs.C04
import Proofs.C06.More
/-! # C04 — node level: a replica that learns of a removal stops showing the entry and forwards the
tombstone; no watcher of any reachable cluster state ever holds a tombstone -/
namespace PfC04
open Ring C03 C06 PfC03 PfC06

variable {U : String → Int → Bool → Inst}

/-- **learns ⇒ hides**: a gossip message carrying the tombstone `x@t` reaches a node whose entry for `x`
(if any) is not newer — same second included, key absent (first value) included: from then on no reader
of that node is shown `x` -/
theorem learn_hides (hU : Univ U) {cfg : Cfg} (hcfg : cfg.lit = 0) {clock : Int} (now : Int) {nd : Node Desc} {m : Msg Desc}
    (hnd : GoodNode U clock nd) (hm : GoodMsg U clock m) (hk : m.key ≠ "") (x : String) (e : Inst)
    (he : get? m.val x = some e) (hleft : e.state = .LEFT)
    (hold : ∀ cur, get? (sval nd.store m.key) x = some cur → cur.ts ≤ e.ts) :
    ∀ v, ((notifyMsg cfg now nd m).get m.key).1 = some v → ∀ y ∈ v, y.id ≠ x := by
  rw [notifyMsg_deliver now hk]
  have hs := deliver_spec hU hcfg now hnd hm
  have hsv := (hnd.1.sval m.key).1
  -- the stored entry of `x` after the delivery is a tombstone
  have hx : ∃ z, get? (sval (deliver cfg now nd m).store m.key) x = some z ∧ z.state = .LEFT := by
    rw [hs.view x, view_merge hU hsv hm.1.1, he]
    unfold maxOpt
    by_cases hlt : rkO (get? (sval nd.store m.key) x) < rkO (some e)
    · rw [if_pos hlt]; exact ⟨e, rfl, hleft⟩
    · rw [if_neg hlt]
      cases hc : get? (sval nd.store m.key) x with
      | none =>
        rw [hc, rkO_none, rkO_some] at hlt
        have := rk_pos (hm.1.1.pos e (get?_mem he)); omega
      | some cur =>
        refine ⟨cur, rfl, ?_⟩
        have hle := hold cur hc
        rw [hc, rkO_some, rkO_some] at hlt
        unfold rk at hlt
        rw [if_pos hleft] at hlt
        by_cases hcl : cur.state = .LEFT
        · exact hcl
        · rw [if_neg hcl] at hlt; omega
  obtain ⟨z, hz, hzl⟩ := hx
  intro v hv y hy hyx
  unfold Node.get at hv
  cases hg : getE (deliver cfg now nd m).store m.key with
  | none => rw [hg] at hv; cases hv
  | some en =>
    rw [hg] at hv
    simp only [Option.some.injEq] at hv
    subst hv
    have hsvq : sval (deliver cfg now nd m).store m.key = en.val := by unfold sval; rw [hg]
    rw [hsvq] at hz
    have hmem := (strip_mem en.val y).1 hy
    have hnd' : (ids en.val).Nodup := by
      have := (hs.good.1 m.key en hg).1.1.nodup; exact this
    have : get? en.val y.id = some y := get?_of_mem_nodup hnd' hmem.1
    rw [hyx, hz] at this
    injection this with this
    exact hmem.2 (this ▸ hzl)

/-- **learns ⇒ forwards**: if the tombstone is news to the node (its entry for `x` is strictly older in the
(timestamp, tombstone) order, or it has none), the node queues a broadcast that carries the tombstone -/
theorem deliver_tombstone_requeued (hU : Univ U) {cfg : Cfg} (hcfg : cfg.lit = 0) {clock : Int} (now : Int) {nd : Node Desc}
    {m : Msg Desc} (hnd : GoodNode U clock nd) (hm : GoodMsg U clock m) (x : String) (e : Inst)
    (he : get? m.val x = some e) (hnew : rkO (get? (sval nd.store m.key) x) < rk e) :
    ∃ b ∈ (deliver cfg now nd m).gossipQ, b.key = m.key ∧ get? b.change x = some e := by
  have hs := deliver_spec hU hcfg now hnd hm
  have hsv := (hnd.1.sval m.key).1
  have hview : get? (sval (deliver cfg now nd m).store m.key) x = some e := by
    rw [hs.view x, view_merge hU hsv hm.1.1, he]
    unfold maxOpt; rw [if_pos (by rw [rkO_some]; exact hnew)]
  -- unfold the delivery
  have hmk : mergeValueForKey (cfg.limit now) now nd.store m.key m.val false 0 m.deleted m.updateTime =
      mergeValueForKey none now nd.store m.key m.val false 0 false m.updateTime := by
    rw [cfg_limit_none hcfg, hm.2]
  cases hg : getE nd.store m.key with
  | none =>
    have hsv0 : sval nd.store m.key = [] := by unfold sval; rw [hg]
    have hemp : (MergeVal.names m.val).isEmpty = false := by
      cases h : (MergeVal.names m.val).isEmpty with
      | false => rfl
      | true => rw [(ids_isEmpty m.val).1 h, get?_nil] at he; cases he
    have hdel : (deliver cfg now nd m).gossipQ = enqueue nd.gossipQ
        { key := m.key, content := MergeVal.names m.val, version := 1, change := m.val, deleted := false, updateTime := 0 } := by
      unfold deliver
      rw [hmk]
      unfold mergeValueForKey
      rw [hg]
      simp only [Bool.false_eq_true, false_and, if_false, hemp, broadcast, notify_gossipQ]
    refine ⟨({ key := m.key, content := MergeVal.names m.val, version := 1, change := m.val, deleted := false, updateTime := 0 } : Bcast Desc), ?_, rfl, he⟩
    rw [hdel]; unfold enqueue; simp
  | some c =>
    have hsvc : sval nd.store m.key = c.val := by unfold sval; rw [hg]
    obtain ⟨hcv, hcd⟩ := hnd.1 m.key c hg
    have hm' : (MergeVal.merge false now c.val m.val : Option (Desc × Option Desc)) =
        some ((C03.merge false 0 c.val m.val).state, (C03.merge false 0 c.val m.val).change) := by
      show some ((C03.merge false now c.val m.val).state, (C03.merge false now c.val m.val).change) = _
      rw [merge_now_irrel]
    cases hch : (C03.merge false 0 c.val m.val).change with
    | none =>
      -- impossible: nothing is newer, but `x` is
      have := (no_change_iff hU hcv.1 hm.1.1).1 hch x
      rw [← hsvc, he, rkO_some] at this
      exact absurd hnew this
    | some ch =>
      have hne := change_ne_nil hU hcv.1 hm.1.1 hch
      have hemp : (MergeVal.names ch).isEmpty = false := by
        cases h : (MergeVal.names ch).isEmpty with
        | false => rfl
        | true => exact absurd ((ids_isEmpty ch).1 h) hne
      have hdel : (deliver cfg now nd m).gossipQ = enqueue nd.gossipQ
          { key := m.key, content := MergeVal.names ch, version := c.version + 1, change := ch, deleted := false,
            updateTime := c.updateTime } := by
        unfold deliver
        rw [hmk]
        unfold mergeValueForKey
        rw [hg]
        simp only [Bool.false_eq_true, false_and, if_false]
        rw [hm']
        simp only [Bool.and_false, Bool.false_eq_true, if_false, hcd, hch, hemp, Bool.false_and, broadcast, notify_gossipQ]
      refine ⟨({ key := m.key, content := MergeVal.names ch, version := c.version + 1, change := ch, deleted := false, updateTime := c.updateTime } : Bcast Desc), ?_, rfl, ?_⟩
      · rw [hdel]; unfold enqueue; simp
      show get? ch x = some e
      rw [change_view hU hcv.1 hm.1.1 hch x, ← hsvc, he, if_pos (by rw [rkO_some]; exact hnew)]

end PfC04

namespace PfC04
open Ring C03 C06 PfC03 PfC06

/-! ## no watcher ever holds a tombstone: an invariant of ALL runs (any configuration, any events) -/

def NoTombW (nd : Node Desc) : Prop := ∀ w ∈ nd.watchers, ∀ k v, (k, v) ∈ w.last → ∀ e ∈ v, e.state ≠ .LEFT

/-- the watchers of `nd'` carry `last` lists of watchers of `nd` -/
def LastSub (nd nd' : Node Desc) : Prop := ∀ w' ∈ nd'.watchers, ∃ w ∈ nd.watchers, w'.last = w.last

theorem LastSub.refl (nd : Node Desc) : LastSub nd nd := fun w hw => ⟨w, hw, rfl⟩
theorem LastSub.trans {a b c : Node Desc} (h1 : LastSub a b) (h2 : LastSub b c) : LastSub a c := by
  intro w hw
  obtain ⟨w1, hw1, e1⟩ := h2 w hw
  obtain ⟨w0, hw0, e0⟩ := h1 w1 hw1
  exact ⟨w0, hw0, e1.trans e0⟩

theorem noTomb_of_lastSub {nd nd' : Node Desc} (h : NoTombW nd) (hs : LastSub nd nd') : NoTombW nd' := by
  intro w hw k v hkv
  obtain ⟨w0, hw0, e0⟩ := hs w hw
  rw [e0] at hkv
  exact h w0 hw0 k v hkv

theorem lastSub_of_watchers {nd nd' : Node Desc} (h : nd'.watchers = nd.watchers) : LastSub nd nd' := by
  intro w hw; rw [h] at hw; exact ⟨w, hw, rfl⟩

theorem lastSub_notify (cfg : Cfg) (nd : Node Desc) (st : Store Desc) (key : String) :
    LastSub nd (notify cfg { nd with store := st } key) := by
  unfold notify notifySync
  split
  · exact lastSub_of_watchers rfl
  · intro w hw
    simp only [List.mem_map] at hw
    obtain ⟨w0, hw0, rfl⟩ := hw
    exact ⟨w0, hw0, (notify_fields w0 key).2.2.2.1⟩

theorem lastSub_broadcast (cfg : Cfg) (nd : Node Desc) (st : Store Desc) (key : String) (o : Out Desc) (l : Bool) :
    LastSub nd (broadcast (notify cfg { nd with store := st } key) key o l) :=
  (lastSub_notify cfg nd st key).trans (lastSub_of_watchers (broadcast_watchers _ _ _ _).1)

theorem lastSub_deliver (cfg : Cfg) (now : Int) (nd : Node Desc) (m : Msg Desc) : LastSub nd (deliver cfg now nd m) := by
  unfold deliver
  simp only
  split
  · exact LastSub.refl _
  · split
    · exact lastSub_of_watchers rfl
    · exact lastSub_broadcast cfg nd _ m.key _ false

theorem lastSub_notifyMsg (cfg : Cfg) (now : Int) (nd : Node Desc) (m : Msg Desc) : LastSub nd (notifyMsg cfg now nd m) := by
  unfold notifyMsg; split
  · exact LastSub.refl _
  · exact lastSub_deliver cfg now nd m

theorem lastSub_mergeRemoteState (cfg : Cfg) (now : Int) (ms : List (Msg Desc)) (nd : Node Desc) :
    LastSub nd (mergeRemoteState cfg now nd ms) := by
  unfold mergeRemoteState
  induction ms generalizing nd with
  | nil => exact LastSub.refl _
  | cons m rest ih => rw [List.foldl_cons]; exact (lastSub_notifyMsg cfg now nd m).trans (ih _)

theorem lastSub_cas (cfg : Cfg) (now nowMs : Int) (nd : Node Desc) (key : String) (f : Option Desc → Option Desc) :
    LastSub nd (cas cfg now nowMs nd key f).1 := by
  unfold cas
  simp only
  split
  · exact LastSub.refl _
  · split
    · exact LastSub.refl _
    · split
      · exact lastSub_of_watchers rfl
      · exact lastSub_broadcast cfg nd _ key _ true

theorem lastSub_delete (cfg : Cfg) (now nowMs : Int) (nd : Node Desc) (key : String) : LastSub nd (C06.delete cfg now nowMs nd key) := by
  unfold C06.delete
  split
  · exact LastSub.refl _
  · split
    · exact LastSub.refl _
    · simp only
      split
      · exact LastSub.refl _
      · split
        · exact lastSub_of_watchers rfl
        · exact lastSub_broadcast cfg nd _ key _ false

theorem foldl_notify_last (ks : List String) (w : Watcher Desc) : (ks.foldl (fun w k => w.notify k) w).last = w.last := by
  induction ks generalizing w with
  | nil => rfl
  | cons k ks ih => rw [List.foldl_cons, ih]; exact (notify_fields w k).2.2.2.1

theorem lastSub_notifyTick (nd : Node Desc) : LastSub nd (notifyTick nd) := by
  intro w hw
  have hwat : (notifyTick nd).watchers = nd.watchers.map fun w => nd.notifs.foldl (fun w k => w.notify k) w :=
    foldl_notifySync_watchers nd.notifs nd
  rw [hwat] at hw
  obtain ⟨w0, hw0, rfl⟩ := List.mem_map.1 hw
  exact ⟨w0, hw0, foldl_notify_last _ _⟩

theorem noTomb_step (cfg : Cfg) {c : Cluster Desc} (h : ∀ nd ∈ c.nodes, NoTombW nd) (ev : Event Desc) :
    ∀ nd ∈ (stepC cfg c ev).nodes, NoTombW nd := by
  have key : ∀ (n : Nat) (f : Node Desc → Node Desc), (∀ nd ∈ c.nodes, NoTombW (f nd)) → ∀ nd ∈ (c.upd n f).nodes, NoTombW nd := by
    intro n f hf nd hnd
    rcases mem_modifyAt hnd with h1 | ⟨y, hy, rfl⟩
    · exact h nd h1
    · exact hf y hy
  cases ev with
  | cas n k f => exact key n _ fun nd hnd => noTomb_of_lastSub (h nd hnd) (lastSub_cas cfg _ _ nd k f)
  | gossipTick n =>
    simp only [stepC]
    cases c.nodes[n]? with
    | none => exact h
    | some _ => exact key n _ fun nd hnd => noTomb_of_lastSub (h nd hnd) (lastSub_of_watchers rfl)
  | deliver n m =>
    simp only [stepC]
    cases c.net[m]? with
    | none => exact h
    | some msg => exact key n _ fun nd hnd => noTomb_of_lastSub (h nd hnd) (lastSub_notifyMsg cfg _ nd msg)
  | drop m => exact h
  | dup m => simp only [stepC]; cases c.net[m]? <;> exact h
  | pushPull a b =>
    simp only [stepC]
    cases c.nodes[a]? with
    | none => exact h
    | some na => exact key b _ fun nd hnd => noTomb_of_lastSub (h nd hnd) (lastSub_mergeRemoteState cfg _ _ nd)
  | corrupt n => exact h
  | watch n p k =>
    refine key n _ fun nd hnd => ?_
    intro w hw kk v hkv
    simp only [addWatcher, List.mem_append, List.mem_singleton] at hw
    rcases hw with hw | hw
    · exact h nd hnd w hw kk v hkv
    · subst hw; simp at hkv
  | watcherRun n w =>
    refine key n _ fun nd hnd => ?_
    intro w' hw' kk v hkv
    simp only at hw'
    rcases mem_modifyAt hw' with h1 | ⟨y, hy, rfl⟩
    · exact h nd hnd w' h1 kk v hkv
    · exact watcher_run_no_tomb nd.store y (h nd hnd y hy) kk v hkv
  | notifyTick n => exact key n _ fun nd hnd => noTomb_of_lastSub (h nd hnd) (lastSub_notifyTick nd)
  | restart n => exact key n _ fun _ _ => fun w hw => by simp at hw
  | delete n k => exact key n _ fun nd hnd => noTomb_of_lastSub (h nd hnd) (lastSub_delete cfg _ _ nd k)
  | cleanup n => exact key n _ fun nd hnd => noTomb_of_lastSub (h nd hnd) (lastSub_of_watchers rfl)
  | tick => exact h

/-- in EVERY state reachable from the initial cluster — any configuration (retention on or off), any schedule of any
events, no proviso on the workloads — no watcher function has ever been called with a value that contains a tombstone -/
theorem watchers_never_see_tombstones (cfg : Cfg) (n : Nat) (clock : Int) (evs : List (Event Desc)) :
    ∀ nd ∈ (runC cfg (initC n clock) evs).nodes, NoTombW nd := by
  have hrun : ∀ (evs : List (Event Desc)) (c : Cluster Desc), (∀ nd ∈ c.nodes, NoTombW nd) →
      ∀ nd ∈ (runC cfg c evs).nodes, NoTombW nd := by
    intro evs
    induction evs with
    | nil => intro c h; exact h
    | cons e es ih => intro c h; rw [runC_cons]; exact ih _ (noTomb_step cfg h e)
  apply hrun
  intro nd hnd
  have : nd = {} := by simpa [initC] using (List.mem_replicate.1 hnd).2
  rw [this]; intro w hw; simp at hw

end PfC04
