import Proofs.C04
/-! # C04 — histories in which the tombstone retention (`LeftIngestersTimeout`) IS reached

`mergeValueForKey` with `LeftIngestersTimeout > 0` removes, after every merge that changed something,
all tombstones older than `now - timeout` from the stored value. What still holds:
* a message older than the tombstone never makes the entry visible — the entry is the tombstone or gone;
* once the tombstone is collected, only a message whose entry is itself older than the retention can
  bring the entry back; under the proviso "no in-flight entry older than the retention" nothing
  produced before the removal ever makes the entry visible again, over unbounded delivery sequences;
* the proviso is needed: witness below. -/
namespace PfC04
open Ring C03 C06 PfC03 PfC06

variable {U : String → Int → Bool → Inst}

/-! ## collection on the `get?` view -/

theorem get?_filter (p : Inst → Bool) (d : Desc) (hn : (ids d).Nodup) (k : String) :
    get? (d.filter p) k = (get? d k).filter p := by
  induction d with
  | nil => rfl
  | cons x xs ih =>
    simp only [ids, List.map_cons, List.nodup_cons] at hn
    by_cases hk : x.id = k
    · have hnone : get? xs k = none := get?_none_iff.2 (by rw [← hk]; exact hn.1)
      rw [get?_cons, if_pos hk]
      by_cases hp : p x = true
      · rw [List.filter_cons_of_pos hp, get?_cons, if_pos hk]; simp [Option.filter, hp]
      · rw [List.filter_cons_of_neg hp, ih hn.2, hnone]; simp [Option.filter, hp]
    · rw [get?_cons, if_neg hk]
      by_cases hp : p x = true
      · rw [List.filter_cons_of_pos hp, get?_cons, if_neg hk, ih hn.2]
      · rw [List.filter_cons_of_neg hp, ih hn.2]

/-- what collection does to one instance's entry -/
theorem get?_gc (l : Int) (d : Desc) (hn : (ids d).Nodup) (k : String) :
    get? (removeTombstones (some l) d) k =
      match get? d k with
      | none => none
      | some e => if e.state = .LEFT ∧ e.ts < l then none else some e := by
  unfold removeTombstones
  rw [get?_filter _ d hn k]
  cases get? d k with
  | none => rfl
  | some e =>
    by_cases h1 : e.state = .LEFT <;> by_cases h2 : e.ts < l <;> simp [Option.filter, h1, h2]

theorem drawn_filter (p : Inst → Bool) {d : Desc} (hd : Drawn U d) : Drawn U (d.filter p) :=
  ⟨by
      have : (ids (d.filter p)).Sublist (ids d) := by
        unfold ids; exact List.Sublist.map _ List.filter_sublist
      exact List.Nodup.sublist this hd.nodup,
   fun e he => hd.pos e (List.mem_filter.1 he).1, fun e he => hd.coh e (List.mem_filter.1 he).1⟩

theorem drawn_gc (l : Option Int) {d : Desc} (hd : Drawn U d) : Drawn U (removeTombstones l d) := drawn_filter _ hd

/-! ## one delivery with retention -/

/-- value a node stores for a key after it merged message value `m` at clock `now` with retention `lit`
(`mergeValueForKey`, gossip path, `LeftIngestersTimeout = lit > 0`): unchanged if the merge reports
no change; otherwise the merged value minus the tombstones older than `now + 1 - lit` -/
def deliverVal (lit now : Int) (s m : Desc) : Desc :=
  if (C03.merge false 0 s m).change = none then s else removeTombstones (some (now + 1 - lit)) (mergeState s m)

theorem deliverVal_drawn (hU : Univ U) (lit now : Int) {s m : Desc} (hs : Drawn U s) (hm : Drawn U m) :
    Drawn U (deliverVal lit now s m) := by
  unfold deliverVal; split
  · exact hs
  · exact drawn_gc _ (mergeState_drawn hU hs hm)

/-- the node model's `deliver` stores exactly `deliverVal` (key present, nothing marked deleted) -/
theorem deliver_sval_gc (hU : Univ U) {cfg : Cfg} (hlit : cfg.lit > 0) (now : Int) {nd : Node Desc} {m : Msg Desc}
    {c : Entry Desc} (hg : getE nd.store m.key = some c) (hc : Drawn U c.val) (hcd : c.deleted = false)
    (hm : Drawn U m.val) (hmd : m.deleted = false) :
    sval (deliver cfg now nd m).store m.key = deliverVal cfg.lit now c.val m.val := by
  have hlim : cfg.limit now = some (now + 1 - cfg.lit) := by unfold Cfg.limit; rw [if_pos hlit]
  have hm' : (MergeVal.merge false now c.val m.val : Option (Desc × Option Desc)) =
      some ((C03.merge false 0 c.val m.val).state, (C03.merge false 0 c.val m.val).change) := by
    show some ((C03.merge false now c.val m.val).state, (C03.merge false now c.val m.val).change) = _
    rw [merge_now_irrel]
  unfold deliver deliverVal
  rw [hlim, hmd]
  unfold mergeValueForKey
  rw [hg]
  simp only [Bool.false_eq_true, false_and, if_false]
  rw [hm']
  simp only [Bool.and_false, Bool.false_eq_true, if_false, hcd]
  cases hch : (C03.merge false 0 c.val m.val).change with
  | none =>
    have heq : (C03.merge false 0 c.val m.val).state = c.val := PfC03.no_change_no_effect false 0 c.val m.val hch
    simp only [beq_self_eq_true, Bool.and_true, if_true, Bool.false_eq_true, if_false, sval_setE, heq]
  | some ch =>
    have hne := change_ne_nil hU hc hm hch
    have hemp : (MergeVal.names ch).isEmpty = false := by
      cases h : (MergeVal.names ch).isEmpty with
      | false => rfl
      | true => exact absurd ((ids_isEmpty ch).1 h) hne
    simp only [hemp, Bool.false_and, Bool.false_eq_true, if_false, Option.map_some]
    have hst : (C03.merge false 0 c.val m.val).state = mergeState c.val m.val := rfl
    by_cases hem : (MergeVal.names (MergeVal.gc (some (now + 1 - cfg.lit)) ch : Desc)).isEmpty = true
    · simp only [hem, if_true, Bool.false_eq_true, if_false, sval_setE]
      rfl
    · have hem' : (MergeVal.names (MergeVal.gc (some (now + 1 - cfg.lit)) ch : Desc)).isEmpty = false := by
        cases h : (MergeVal.names (MergeVal.gc (some (now + 1 - cfg.lit)) ch : Desc)).isEmpty with
        | false => rfl
        | true => exact absurd h hem
      simp only [hem', Bool.false_eq_true, if_false, broadcast_store, notify_store', sval_setE]
      rfl

/-! ## what a tombstone still guarantees -/

/-- a message whose entry for `x` is not newer than the tombstone never makes `x` visible: after the
delivery `x` is still a tombstone or has been collected — and it is kept while it is retained -/
theorem tombstone_blocks_retention (hU : Univ U) (lit now : Int) {s m : Desc} (hs : Drawn U s) (hm : Drawn U m) (x : String)
    (e : Inst) (he : get? s x = some e) (hleft : e.state = .LEFT) (hold : ∀ e', get? m x = some e' → e'.ts ≤ e.ts) :
    (∀ e', get? (deliverVal lit now s m) x = some e' → e' = e) ∧
    (e.ts ≥ now + 1 - lit → get? (deliverVal lit now s m) x = some e) := by
  have hblk := tombstone_blocks hU hs hm x e he hleft hold
  unfold deliverVal
  split
  · exact ⟨fun e' h => by rw [he] at h; injection h with h; exact h.symm, fun _ => he⟩
  · rw [get?_gc _ _ (mergeState_drawn hU hs hm).nodup, hblk, he]
    simp only
    constructor
    · intro e' h
      split at h
      · cases h
      · injection h with h; exact h.symm
    · intro hret
      rw [if_neg (fun h => by omega)]

/-! ## unbounded delivery sequences -/

/-- deliveries `(now, message value)` applied in order -/
def deliverSeq (lit : Int) (s : Desc) (ds : List (Int × Desc)) : Desc :=
  ds.foldl (fun d p => deliverVal lit p.1 d p.2) s

/-- the property's proviso for histories that reach the retention: when a message is delivered at clock
`now`, its LIVE entry for `x`, if it is not newer than the removal (`ts ≤ t`, i.e. it was produced
before the removal), is not older than the retention (`ts ≥ now + 1 - lit`) -/
def NoStale (lit t : Int) (x : String) (now : Int) (m : Desc) : Prop :=
  ∀ e, get? m x = some e → e.state ≠ .LEFT → e.ts ≤ t → e.ts ≥ now + 1 - lit

/-- the invariant: `x` is the removal's tombstone or something newer, or it has been collected -/
def Removed (lit t : Int) (x : String) (clock : Int) (d : Desc) : Prop :=
  (∀ e, get? d x = some e → rk e ≥ 2 * t + 1) ∧ (get? d x = none → t < clock + 1 - lit)

theorem removed_step (hU : Univ U) {lit t : Int} (x : String) {clock now : Int} (hnow : clock ≤ now) {d m : Desc}
    (hd : Drawn U d) (hm : Drawn U m) (hrem : Removed lit t x clock d) (hns : NoStale lit t x now m) :
    Removed lit t x now (deliverVal lit now d m) := by
  unfold deliverVal
  split
  · exact ⟨hrem.1, fun h => by have := hrem.2 h; omega⟩
  · have hmd := mergeState_drawn hU hd hm
    have hview := view_merge hU hd hm x
    -- the merged entry of `x`
    have hmerged : (∀ e, get? (mergeState d m) x = some e → rk e ≥ 2 * t + 1 ∨ (e.state = .LEFT ∧ e.ts < now + 1 - lit)) := by
      intro e he
      rw [hview] at he
      unfold maxOpt at he
      split at he
      · -- the message's entry won
        rename_i hlt
        cases hdx : get? d x with
        | some e0 =>
          have := hrem.1 e0 hdx
          rw [hdx, rkO_some, he, rkO_some] at hlt
          exact Or.inl (by omega)
        | none =>
          have hcol := hrem.2 hdx
          by_cases hl : e.state = .LEFT
          · by_cases hts : e.ts ≤ t
            · exact Or.inr ⟨hl, by omega⟩
            · exact Or.inl (by unfold rk; rw [if_pos hl]; omega)
          · by_cases hts : e.ts ≤ t
            · have := hns e he hl hts; omega
            · exact Or.inl (by unfold rk; rw [if_neg hl]; omega)
      · exact Or.inl (hrem.1 e he)
    unfold Removed
    rw [get?_gc _ _ hmd.nodup]
    constructor
    · intro e he
      cases hg : get? (mergeState d m) x with
      | none => rw [hg] at he; cases he
      | some e0 =>
        rw [hg] at he
        simp only at he
        split at he
        · cases he
        · rename_i hnc
          injection he with he; subst he
          rcases hmerged e0 hg with h | h
          · exact h
          · exact absurd h hnc
    · intro hnone
      cases hg : get? (mergeState d m) x with
      | none =>
        -- never had it and the message does not carry it: it was collected before
        have hdx : get? d x = none := by
          rw [hview] at hg; unfold maxOpt at hg
          split at hg
          · rename_i hlt; rw [hg, rkO_none] at hlt; have := rkO_nonneg hd x; omega
          · exact hg
        have := hrem.2 hdx; omega
      | some e0 =>
        rw [hg] at hnone
        simp only at hnone
        split at hnone
        · rename_i hc
          -- a tombstone at least as new as the removal's was collected now
          rcases hmerged e0 hg with h | h
          · unfold rk at h; rw [if_pos hc.1] at h; omega
          · by_cases hts : e0.ts ≤ t
            · -- a tombstone not newer than the removal's was collected now
              cases hdx : get? d x with
              | none => have := hrem.2 hdx; omega
              | some e1 =>
                have h1 := hrem.1 e1 hdx
                have hle : rkO (get? d x) ≤ rkO (get? (mergeState d m) x) := le_merge_left hU hd hm x
                rw [hdx, hg, rkO_some, rkO_some] at hle
                have hr0 : rk e0 = 2 * e0.ts + 1 := by unfold rk; rw [if_pos hc.1]
                have := hc.2
                omega
            · omega
        · cases hnone

/-- **no resurrection when the retention is reached**: start from a replica holding the tombstone `x@t`;
deliver ANY sequence of messages at non-decreasing clocks, tombstones being collected along the way.
If no delivered live entry of `x` that predates the removal (`ts ≤ t`) is older than the retention at
its delivery, then `x` never becomes visible with a timestamp `≤ t`: at the end it is a tombstone,
absent, or an entry written after the removal. -/
theorem no_resurrection_retention (hU : Univ U) {lit t : Int} (x : String) (ds : List (Int × Desc)) {clock : Int} {s : Desc}
    (hs : Drawn U s) (hrem : Removed lit t x clock s)
    (hclk : List.Pairwise (· ≤ ·) (clock :: ds.map (·.1))) (hds : ∀ p ∈ ds, Drawn U p.2 ∧ NoStale lit t x p.1 p.2) :
    ∀ e, get? (deliverSeq lit s ds) x = some e → e.state = .LEFT ∨ e.ts > t := by
  have key : ∀ (ds : List (Int × Desc)) (clock : Int) (s : Desc), Drawn U s → Removed lit t x clock s →
      List.Pairwise (· ≤ ·) (clock :: ds.map (·.1)) → (∀ p ∈ ds, Drawn U p.2 ∧ NoStale lit t x p.1 p.2) →
      ∃ c', Removed lit t x c' (deliverSeq lit s ds) := by
    intro ds
    induction ds with
    | nil => intro clock s _ hr _ _; exact ⟨clock, hr⟩
    | cons p ps ih =>
      intro clock s hs hr hc hd
      simp only [List.map_cons, List.pairwise_cons] at hc
      have hp := hd p (by simp)
      have hle : clock ≤ p.1 := hc.1 p.1 (by simp)
      have hstep := removed_step hU x hle hs hp.1 hr hp.2
      unfold deliverSeq; rw [List.foldl_cons]
      exact ih p.1 _ (deliverVal_drawn hU lit p.1 hs hp.1) hstep
        (by simp only [List.pairwise_cons]; exact hc.2) (fun q hq => hd q (by simp [hq]))
  obtain ⟨c', hr⟩ := key ds clock s hs hrem hclk hds
  intro e he
  have := hr.1 e he
  unfold rk at this
  by_cases hl : e.state = .LEFT
  · exact Or.inl hl
  · rw [if_neg hl] at this; exact Or.inr (by omega)

/-- a replica that holds the removal's tombstone satisfies the invariant -/
theorem removed_of_tombstone {lit t : Int} (x : String) (clock : Int) {s : Desc} (e : Inst) (he : get? s x = some e)
    (hleft : e.state = .LEFT) (hts : e.ts = t) : Removed lit t x clock s :=
  ⟨fun e' h => by rw [he] at h; injection h with h; subst h; unfold rk; rw [if_pos hleft]; omega,
   fun h => by rw [he] at h; cases h⟩

end PfC04

namespace PfC04
open Ring C03 C06 PfC03 PfC06

variable {U : String → Int → Bool → Inst}

/-- first-value path with retention: a node that has no value for the key stores the message's value minus the
tombstones that are already older than the retention (nothing at all if nothing is left) -/
theorem deliver_sval_gc_first {cfg : Cfg} (hlit : cfg.lit > 0) (now : Int) {nd : Node Desc} {m : Msg Desc}
    (hg : getE nd.store m.key = none) (hmd : m.deleted = false) :
    sval (deliver cfg now nd m).store m.key = removeTombstones (some (now + 1 - cfg.lit)) m.val := by
  have hlim : cfg.limit now = some (now + 1 - cfg.lit) := by unfold Cfg.limit; rw [if_pos hlit]
  have hsv0 : sval nd.store m.key = [] := by unfold sval; rw [hg]
  unfold deliver
  rw [hlim, hmd]
  unfold mergeValueForKey
  rw [hg]
  simp only [Bool.false_eq_true, false_and, if_false]
  by_cases hemp : (MergeVal.names m.val).isEmpty = true
  · rw [if_pos hemp]
    simp only [Bool.false_eq_true, if_false]
    rw [hsv0, (ids_isEmpty m.val).1 hemp]; rfl
  · rw [if_neg hemp]
    by_cases hemp2 : (MergeVal.names (MergeVal.gc (some (now + 1 - cfg.lit)) m.val : Desc)).isEmpty = true
    · rw [if_pos hemp2]
      simp only [Bool.false_eq_true, if_false]
      rw [hsv0]
      exact ((ids_isEmpty _).1 hemp2).symm
    · rw [if_neg hemp2]
      simp only [Bool.false_eq_true, if_false, broadcast_store, notify_store', sval_setE]
      rfl

/-- **discarded only once older than the retention**: if a delivery makes the tombstone `x@t` disappear from
the stored value altogether, then `t ≤ now − lit` (it can otherwise only be replaced by a newer entry) -/
theorem collected_only_when_old (hU : Univ U) (lit now : Int) {s m : Desc} (hs : Drawn U s) (hm : Drawn U m) (x : String)
    (e : Inst) (he : get? s x = some e) (hleft : e.state = .LEFT) (hgone : get? (deliverVal lit now s m) x = none) :
    e.ts < now + 1 - lit := by
  unfold deliverVal at hgone
  split at hgone
  · rw [he] at hgone; cases hgone
  · have hmd := mergeState_drawn hU hs hm
    rw [get?_gc _ _ hmd.nodup] at hgone
    have hle : rkO (get? s x) ≤ rkO (get? (mergeState s m) x) := le_merge_left hU hs hm x
    cases hg : get? (mergeState s m) x with
    | none =>
      rw [he, hg, rkO_some, rkO_none] at hle
      have := rk_pos (hs.pos e (get?_mem he)); omega
    | some e' =>
      rw [hg] at hgone
      simp only at hgone
      split at hgone
      · rename_i hc
        rw [he, hg, rkO_some, rkO_some] at hle
        unfold rk at hle
        rw [if_pos hleft, if_pos hc.1] at hle
        have := hc.2; omega
      · cases hgone

end PfC04
