import Proofs.C13.Equiv
/-!
# C13 — look-back queries: a cached look-back sub-ring is served only inside the window on which the
look-back shard is constant (`lookback_window_valid`), hence equals the fresh client's answer
-/
namespace PfC13
open Ring C12 C13

theorem isSelf_eq_selfRing (c : Client) (size period now : Int) :
    isSelf c size period now = PfC12.selfRing (c.idx.map core) size (mkLB period now) := by
  unfold isSelf PfC12.selfRing PfC12.early
  rfl

theorem idInj_core (d : Desc) (hd : Canon d) : PfC12.IdInj (d.map core) := by
  have hnd : (d.map (·.id)).Nodup := hd.imp (fun h e => by subst e; exact String.lt_irrefl _ h)
  intro a ha b hb e
  obtain ⟨i, hi, rfl⟩ := List.mem_map.mp ha
  obtain ⟨j, hj, rfl⟩ := List.mem_map.mp hb
  have : i = j := PfC12.nodup_map_inj (·.id) d hnd i hi j hj e
  rw [this]

/-- **lookback_window_valid**: for a cache entry satisfying the invariant and a window start `w`
inside `[after, before]`, the look-back selection computed for `w` is the cached one and the ring
itself is not returned. -/
theorem lookback_window_valid (st : Streams) (c : Client) (h : Inv st c) (k : LKey) (e : LBEntry)
    (hl : lookupAssoc k c.lbCache = some e) (now : Int)
    (hw1 : e.after ≤ now - k.period) (hw2 : now - k.period ≤ e.before) :
    isSelf c k.size k.period now = false ∧
    shardIds c.cfg c.idx (st k.ident) k.size k.period now =
      shardIds c.cfg c.idx (st k.ident) k.size k.period (e.after + k.period) := by
  obtain ⟨hns, hkey, hb⟩ := h.lb k e hl
  have hinj := idInj_core c.idx h.cidx
  rw [isSelf_eq_selfRing] at hns ⊢
  have htil0 : (mkLB k.period (e.after + k.period)).til = e.after := by simp only [mkLB]; omega
  have hconst := PfC12.shard_window_const c.cfg (c.idx.map core) hinj (st k.ident) k.size k.period
    (e.after + k.period) now (by omega) hns (by
      intro m hm
      have hmd := PfC12.shard_sub_d c.cfg _ hinj (st k.ident) k.size k.period _ m hm
      obtain ⟨i, hi, rfl⟩ := List.mem_map.mp hmd
      -- the cached member with the same key
      have hsel : selLB c st k e.after i = true := by
        unfold selLB shardIds
        simp only [List.contains_iff_mem]
        exact List.mem_map_of_mem (f := (·.id)) hm
      have : key i ∈ (c.idx.filter (selLB c st k e.after)).map key :=
        List.mem_map_of_mem (List.mem_filter.mpr ⟨hi, hsel⟩)
      rw [← hkey] at this
      obtain ⟨m', hm', ek⟩ := List.mem_map.mp this
      have hbound := hb m' hm'
      simp only [key, Prod.mk.injEq] at ek
      unfold PfC12.Stable
      rw [htil0]
      simp only [mkLB, core]
      unfold TsBound at hbound
      rw [ek.2.2.2.2.1, ek.2.2.2.2.2.1] at hbound
      exact ⟨fun h1 => by have := hbound.1 h1; omega, fun h1 => by have := hbound.2 h1; omega⟩)
  refine ⟨hconst.1, ?_⟩
  unfold shardIds
  rw [hconst.2]

/-- **look-back shuffle shard**: the long-lived client's answer equals the fresh client's answer. -/
theorem queryShardLB_equiv (st : Streams) (c : Client) (h : Inv st c) (ident : String) (size period now : Int) :
    (queryShardLB c st ident size period now).1 = (queryShardLB (fresh c.cfg c.desc) st ident size period now).1 := by
  have hcore : c.idx.map core = c.desc.map core := core_of_key _ _ h.keyEq
  have hids : shardIds c.cfg c.idx (st ident) size period now = shardIds c.cfg c.desc (st ident) size period now :=
    PfC12.shard_ignores_state_ts _ _ _ _ _ _ _ hcore
  let P : Inst → Bool := fun i => (shardIds c.cfg c.idx (st ident) size period now).contains i.id
  have hP : ∀ x y : Inst, x.id = y.id → P x = P y := fun x y hxy => by simp only [P, hxy]
  have hfresh : (queryShardLB (fresh c.cfg c.desc) st ident size period now).1 =
      if isSelf c size period now then c.desc else c.desc.filter P := by
    rw [fresh_eq]
    unfold queryShardLB
    simp only [lookupAssoc]
    have e : isSelf { cfg := c.cfg, desc := c.desc, idx := c.desc, epoch := if c.desc = [] then 0 else 1 } size period now =
        isSelf c size period now := isSelf_congr _ _ hcore.symm _ _ _
    rw [e]
    split
    · rfl
    · simp only [computeMembers, P, hids]
  rw [hfresh]
  unfold queryShardLB
  simp only
  cases hl : lookupAssoc (⟨ident, size, period⟩ : LKey) c.lbCache with
  | some e =>
    simp only
    by_cases hw : (decide (now - period < e.after) || decide (now - period > e.before)) = true
    · rw [if_pos hw]
      simp only
      split
      · rfl
      · rfl
    · rw [if_neg hw]
      simp only
      simp only [Bool.or_eq_true, decide_eq_true_eq, not_or, Int.not_lt] at hw
      have hv := lookback_window_valid st c h ⟨ident, size, period⟩ e hl now hw.1 (by simp only; omega)
      obtain ⟨_, hkey, _⟩ := h.lb _ e hl
      rw [hv.1]
      simp only [Bool.false_eq_true, if_false]
      have hsel : selLB c st ⟨ident, size, period⟩ e.after = P := by
        unfold selLB; simp only [P]; rw [← hv.2]
      rw [hsel] at hkey
      have hk : e.sub.members.map key = (c.desc.filter P).map key :=
        hkey.trans (filter_key P hP c.idx c.desc h.keyEq)
      cases hsub : e.sub with
      | mk members epoch =>
        rw [hsub] at hk
        exact refresh_eq c.desc epoch members _ hk (fun n hn => get?_of_mem c.desc h.cdesc n (List.mem_filter.mp hn).1)
  | none =>
    simp only
    split
    · rfl
    · rfl

end PfC13
