import Proofs.C13.Part
import Proofs.C12.PartWindow
/-!
# C13 — partition-ring client: plain and look-back shard caches never change an answer
-/
namespace PfC13
open Ring C12 C13

def pvbStep (w : Int) (b : Int) (p : Part) : Int := if p.stateTs ≥ w && p.stateTs < b then p.stateTs else b

theorem foldl_pvb (w : Int) : ∀ (l : List Part) (b0 : Int),
    l.foldl (pvbStep w) b0 ≤ b0 ∧ ∀ p ∈ l, p.stateTs ≥ w → l.foldl (pvbStep w) b0 ≤ p.stateTs := by
  intro l
  induction l with
  | nil => intro b0; exact ⟨Int.le_refl _, fun p hp => by cases hp⟩
  | cons a l ih =>
    intro b0
    rw [List.foldl_cons]
    have h2 := ih (pvbStep w b0 a)
    have h1 : pvbStep w b0 a ≤ b0 ∧ (a.stateTs ≥ w → pvbStep w b0 a ≤ a.stateTs) := by
      unfold pvbStep
      by_cases hc : (decide (a.stateTs ≥ w) && decide (a.stateTs < b0)) = true
      · rw [if_pos hc]
        simp only [Bool.and_eq_true, decide_eq_true_eq] at hc
        exact ⟨by omega, fun _ => Int.le_refl _⟩
      · rw [if_neg hc]
        simp only [Bool.and_eq_true, decide_eq_true_eq, not_and, Int.not_lt] at hc
        exact ⟨Int.le_refl _, fun h => hc h⟩
    refine ⟨by omega, ?_⟩
    intro p hp hw
    rcases List.mem_cons.mp hp with rfl | hp
    · have := h1.2 hw; omega
    · exact h2.2 p hp hw

theorem pvalidBefore_bound (ps : List Part) (ids : List Int) (w : Int) :
    ∀ p ∈ ps, p.id ∈ ids → p.stateTs ≥ w → pvalidBefore ps ids w ≤ p.stateTs := by
  intro p hp hid hw
  have : pvalidBefore ps ids w = (ps.filter fun p => ids.contains p.id).foldl (pvbStep w) C12.maxInt := rfl
  rw [this]
  exact (foldl_pvb w _ _).2 p (List.mem_filter.mpr ⟨hp, by simpa using hid⟩) hw

structure PInv2 (st : PStreams) (c : PClient) : Prop where
  wf : PfC12.PWF c.parts
  cache : ∀ k ids, lookupAssoc k c.cache = some ids → ids = pshard c.parts (st k.ident) k.size 0 0
  lb : ∀ k e, lookupAssoc k c.lbCache = some e →
    e.ids = pshard c.parts (st k.ident) k.size k.period (e.after + k.period) ∧
    ∀ p ∈ c.parts, p.id ∈ e.ids → p.stateTs ≥ e.after → e.before ≤ p.stateTs

def PWFSteps (steps : List PStep) : Prop := ∀ s ∈ steps, ∀ ps, s = .upd ps → PfC12.PWF ps

theorem pinv2_init (st : PStreams) : PInv2 st {} :=
  ⟨List.nodup_nil, fun k ids hk => by simp [lookupAssoc] at hk, fun k e hk => by simp [lookupAssoc] at hk⟩

theorem pinv2_queryShard (st : PStreams) (c : PClient) (h : PInv2 st c) (ident : String) (size : Int) :
    PInv2 st (pqueryShard c st ident size).2 := by
  unfold pqueryShard
  simp only
  cases hl : lookupAssoc (⟨ident, size⟩ : Key) c.cache with
  | some ids => exact h
  | none =>
    refine ⟨h.wf, ?_, h.lb⟩
    intro k ids hk
    simp only at hk
    rw [lookup_setAssoc] at hk
    by_cases e : k = ⟨ident, size⟩
    · rw [if_pos e] at hk; cases hk; subst e; rfl
    · rw [if_neg e] at hk; exact h.cache k ids hk

theorem pinv2_queryShardLB (st : PStreams) (c : PClient) (h : PInv2 st c) (ident : String) (size period now : Int) :
    PInv2 st (pqueryShardLB c st ident size period now).2 := by
  have hnew : ∀ (c' : PClient), c'.parts = c.parts → c'.cache = c.cache →
      c'.lbCache = setAssoc (⟨ident, size, period⟩ : LKey)
        ⟨pshard c.parts (st ident) size period now, now - period,
          pvalidBefore c.parts (pshard c.parts (st ident) size period now) (now - period)⟩ c.lbCache → PInv2 st c' := by
    intro c' e1 e2 e3
    refine ⟨e1 ▸ h.wf, fun k ids hk => by rw [e1]; exact h.cache k ids (e2 ▸ hk), ?_⟩
    intro k e hk
    rw [e3, lookup_setAssoc] at hk
    rw [e1]
    by_cases ek : k = ⟨ident, size, period⟩
    · rw [if_pos ek] at hk
      cases hk
      subst ek
      simp only
      have hnow : now - period + period = now := by omega
      exact ⟨by rw [hnow], fun p hp hid hw => pvalidBefore_bound c.parts _ _ p hp hid hw⟩
    · rw [if_neg ek] at hk; exact h.lb k e hk
  unfold pqueryShardLB
  simp only
  cases hl : lookupAssoc (⟨ident, size, period⟩ : LKey) c.lbCache with
  | none =>
    simp only [if_true]
    exact hnew _ rfl rfl rfl
  | some e =>
    simp only
    by_cases hw : (decide (now - period < e.after) || decide (now - period > e.before)) = true
    · rw [if_pos hw]
      simp only
      by_cases hs : decide (e.after < now - period) = true
      · rw [if_pos hs]; exact hnew _ rfl rfl rfl
      · rw [if_neg hs]; exact h
    · rw [if_neg hw]; exact h

theorem pinv2_step (st : PStreams) (c : PClient) (h : PInv2 st c) (s : PStep) (hs : ∀ ps, s = .upd ps → PfC12.PWF ps) :
    PInv2 st (pstepC st c s) := by
  cases s with
  | upd ps =>
    exact ⟨hs ps rfl, fun k ids hk => by simp [pstepC, pupdate, lookupAssoc] at hk,
      fun k e hk => by simp [pstepC, pupdate, lookupAssoc] at hk⟩
  | qS i sz => exact pinv2_queryShard st c h i sz
  | qL i sz p n => exact pinv2_queryShardLB st c h i sz p n
  | evict kK kL =>
    exact ⟨h.wf, fun k ids hk => h.cache k ids (lookup_filter kK k c.cache ids hk),
      fun k e hk => h.lb k e (lookup_filter kL k c.lbCache e hk)⟩

theorem pinv2_run (st : PStreams) : ∀ (steps : List PStep) (c : PClient), PInv2 st c → PWFSteps steps →
    PInv2 st (prun st c steps) := by
  intro steps
  induction steps with
  | nil => intro c h _; exact h
  | cons s steps ih =>
    intro c h hw
    exact ih _ (pinv2_step st c h s (fun ps e => hw s List.mem_cons_self ps e))
      (fun s' hs' => hw s' (List.mem_cons_of_mem _ hs'))

/-- a cached partition look-back shard is served only where it equals the computed one. -/
theorem pqueryShardLB_equiv (st : PStreams) (c : PClient) (h : PInv2 st c) (ident : String) (size period now : Int) :
    (pqueryShardLB c st ident size period now).1 = pshard c.parts (st ident) size period now := by
  unfold pqueryShardLB
  simp only
  cases hl : lookupAssoc (⟨ident, size, period⟩ : LKey) c.lbCache with
  | none => rfl
  | some e =>
    simp only
    by_cases hw : (decide (now - period < e.after) || decide (now - period > e.before)) = true
    · rw [if_pos hw]
    · rw [if_neg hw]
      simp only [Bool.or_eq_true, decide_eq_true_eq, not_or, Int.not_lt] at hw
      obtain ⟨hids, hb⟩ := h.lb _ e hl
      simp only at hids hb ⊢
      rw [hids]
      symm
      apply PfC12.pshard_window_const c.parts h.wf (st ident) size period (e.after + period) now (by omega)
      intro p hp hid hge
      rw [← hids] at hid
      unfold PfC12.ptil at hge ⊢
      by_cases hper : period > 0
      · rw [if_pos hper] at hge ⊢
        have := hb p hp hid (by omega)
        omega
      · rw [if_neg hper] at hge ⊢; exact hge

end PfC13
