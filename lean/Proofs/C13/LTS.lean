import Proofs.C13.Interleave
/-!
# C13 — the lock sections as a labelled transition system (`C13.lstep`), with clock readings

Every event of `C13.lstep` is simulated by the coarser interleaving model of `Proofs/C13/Interleave.lean`
(`istep`) — section 1 on a hit is `bS`, section 2 is `bS` on the client with its caches blanked out
(section 2 never reads them), section 3 under an injective clock is `fS` — so the invariant `IInv`
(cached entries and still-storable pending sub-rings are correct for the present indexes) carries over.
-/
namespace PfC13
open Ring C12 C13

def toI (s : LState) : IState := { c := s.c, pend := s.pend, pendL := s.pendL }

/-- the client with both caches blanked out: what section 2 can see. -/
def noCache (c : Client) : Client := { c with cache := [], lbCache := [] }

theorem inv_noCache (st : Streams) (c : Client) (h : Inv st c) : Inv st (noCache c) :=
  inv_cache st c _ h rfl rfl rfl (fun k s hk => by simp [noCache, lookupAssoc] at hk)
    (fun k e hk => by simp [noCache, lookupAssoc] at hk)

/-- under a clock that advances between re-indexings the guard on READINGS is the guard on epochs. -/
theorem storeShardT_eq (clk : Nat → Nat) (hinj : Function.Injective clk) (c : Client) (k : Key) (s : Sub) :
    storeShardT clk c k s = storeShard c k s := by
  unfold storeShardT storeShard
  by_cases h : s.epoch = c.epoch
  · simp [h]
  · have : clk s.epoch ≠ clk c.epoch := fun e => h (hinj e)
    simp [h, this]

theorem storeShardLBT_eq (clk : Nat → Nat) (hinj : Function.Injective clk) (c : Client) (k : LKey) (s : Sub) (w : Int) :
    storeShardLBT clk c k s w = storeShardLB c k s w := by
  unfold storeShardLBT storeShardLB
  by_cases h : s.epoch = c.epoch
  · simp [h]
  · have : clk s.epoch ≠ clk c.epoch := fun e => h (hinj e)
    simp [h, this]

/-- section 2 is the first half of the coarser model on the cache-less view of the client. -/
theorem beginShard_noCache (c : Client) (st : Streams) (i : String) (sz : Int) :
    (beginShard (noCache c) st i sz).1 = (compShard c st i sz).1 ∧
    (beginShard (noCache c) st i sz).2.1 = (compShard c st i sz).2 := by
  have e1 : isSelf (noCache c) sz 0 0 = isSelf c sz 0 0 := rfl
  have e2 : computeMembers (noCache c) st i sz 0 0 = computeMembers c st i sz 0 0 := rfl
  have hl : lookupAssoc (⟨i, sz⟩ : Key) (noCache c).cache = none := rfl
  unfold beginShard compShard
  simp only [hl, e1, e2]
  by_cases hs : isSelf c sz 0 0 = true
  · rw [if_pos hs, if_pos hs]; exact ⟨rfl, rfl⟩
  · rw [if_neg hs, if_neg hs]; exact ⟨rfl, rfl⟩

theorem beginShardLB_noCache (c : Client) (st : Streams) (i : String) (sz p n : Int) :
    (beginShardLB (noCache c) st i sz p n).1 = (compShardLB c st i sz p n).1 ∧
    (beginShardLB (noCache c) st i sz p n).2.1 = (compShardLB c st i sz p n).2 := by
  have e1 : isSelf (noCache c) sz p n = isSelf c sz p n := rfl
  have e2 : computeMembers (noCache c) st i sz p n = computeMembers c st i sz p n := rfl
  have hl : lookupAssoc (⟨i, sz, p⟩ : LKey) (noCache c).lbCache = none := rfl
  unfold beginShardLB compShardLB
  simp only [hl, e1, e2]
  by_cases hs : isSelf c sz p n = true
  · rw [if_pos hs, if_pos hs]; exact ⟨rfl, rfl⟩
  · rw [if_neg hs, if_neg hs]; exact ⟨rfl, rfl⟩

/-- section 1 is the first half of the coarser model when it hits, and nothing when it misses. -/
theorem lookShard_cases (c : Client) (st : Streams) (i : String) (sz : Int) :
    ((lookShard c i sz).1 = none ∧ (lookShard c i sz).2 = c) ∨
    ((lookShard c i sz).1 = some (beginShard c st i sz).1 ∧ (lookShard c i sz).2 = (beginShard c st i sz).2.2 ∧
      (beginShard c st i sz).2.1 = none) := by
  unfold lookShard beginShard
  simp only
  cases lookupAssoc (⟨i, sz⟩ : Key) c.cache with
  | none => exact Or.inl ⟨rfl, rfl⟩
  | some s => exact Or.inr ⟨rfl, rfl, rfl⟩

theorem lookShardLB_cases (c : Client) (st : Streams) (i : String) (sz p n : Int) :
    ((lookShardLB c i sz p n).1 = none ∧ (lookShardLB c i sz p n).2 = c) ∨
    ((lookShardLB c i sz p n).1 = some (beginShardLB c st i sz p n).1 ∧
      (lookShardLB c i sz p n).2 = (beginShardLB c st i sz p n).2.2 ∧ (beginShardLB c st i sz p n).2.1 = none) := by
  unfold lookShardLB beginShardLB
  simp only
  split
  · exact Or.inr ⟨rfl, rfl, rfl⟩
  · exact Or.inl ⟨rfl, rfl⟩

def CanonEvs (evs : List Ev) : Prop := ∀ x ∈ evs, ∀ d, x = .upd d → Canon d

def lastDescL : List Ev → Desc → Desc
  | [], d => d
  | .upd d :: rest, _ => lastDescL rest d
  | _ :: rest, d => lastDescL rest d

/-- every event of the transition system keeps the invariant (for a clock that advances). -/
theorem linv_step (clk : Nat → Nat) (hinj : Function.Injective clk) (st : Streams) (s : LState) (h : IInv st (toI s))
    (x : Ev) (hx : ∀ d, x = .upd d → Canon d) : IInv st (toI (lstep clk st s x)) := by
  cases x with
  | upd d => exact iinv_step st (toI s) h (.upd d) (fun d' e => by cases e; exact hx d rfl)
  | qS i sz => exact iinv_step st (toI s) h (.qS i sz) (fun d e => by cases e)
  | qL i sz p n => exact iinv_step st (toI s) h (.qL i sz p n) (fun d e => by cases e)
  | clean i => exact iinv_step st (toI s) h (.clean i) (fun d e => by cases e)
  | store n =>
    have h1 := iinv_step st (toI s) h (.fS n) (fun d e => by cases e)
    simp only [lstep, istep, toI] at h1 ⊢
    cases hp : s.pend[n]? with
    | none => simp only [hp] at h1 ⊢; exact h1
    | some p => simp only [hp] at h1 ⊢; rw [storeShardT_eq clk hinj]; exact h1
  | storeL n =>
    have h1 := iinv_step st (toI s) h (.fL n) (fun d e => by cases e)
    simp only [lstep, istep, toI] at h1 ⊢
    cases hp : s.pendL[n]? with
    | none => simp only [hp] at h1 ⊢; exact h1
    | some p => simp only [hp] at h1 ⊢; rw [storeShardLBT_eq clk hinj]; exact h1
  | look i sz =>
    rcases lookShard_cases s.c st i sz with ⟨_, e⟩ | ⟨_, e, en⟩
    · simp only [lstep, toI, e]; exact h
    · have h1 := iinv_step st (toI s) h (.bS i sz) (fun d e => by cases e)
      simp only [istep, toI, en] at h1
      simp only [lstep, toI, e]; exact h1
  | lookL i sz p n =>
    rcases lookShardLB_cases s.c st i sz p n with ⟨_, e⟩ | ⟨_, e, en⟩
    · simp only [lstep, toI, e]; exact h
    · have h1 := iinv_step st (toI s) h (.bL i sz p n) (fun d e => by cases e)
      simp only [istep, toI, en] at h1
      simp only [lstep, toI, e]; exact h1
  | comp i sz =>
    have hb := beginShard_noCache s.c st i sz
    have hn := inv_beginShard st (noCache s.c) (inv_noCache st s.c h.inv) i sz
    cases hc : (compShard s.c st i sz).2 with
    | none => simp only [lstep, hc]; exact h
    | some sub =>
      simp only [lstep, hc, toI]
      have hp : PendOK st s.c (⟨i, sz⟩, sub) :=
        pendOK_congr st (noCache s.c) s.c rfl rfl rfl _ (hn.2.2.2.2.2 sub (by rw [hb.2]; exact hc))
      refine ⟨h.inv, fun q hq => ?_, h.pendL⟩
      rcases List.mem_append.1 hq with h1 | h1
      · exact h.pend q h1
      · rw [List.mem_singleton] at h1; rw [h1]; exact hp
  | compL i sz p n =>
    have hb := beginShardLB_noCache s.c st i sz p n
    have hn := inv_beginShardLB st (noCache s.c) (inv_noCache st s.c h.inv) i sz p n
    cases hc : (compShardLB s.c st i sz p n).2 with
    | none => simp only [lstep, hc]; exact h
    | some sw =>
      obtain ⟨sub, w⟩ := sw
      simp only [lstep, hc, toI]
      have hp : PendLOK st s.c (⟨i, sz, p⟩, sub, w) :=
        pendLOK_congr st (noCache s.c) s.c rfl rfl rfl _ (hn.2.2.2.2.2 sub w (by rw [hb.2]; exact hc))
      refine ⟨h.inv, h.pend, fun q hq => ?_⟩
      rcases List.mem_append.1 hq with h1 | h1
      · exact h.pendL q h1
      · rw [List.mem_singleton] at h1; rw [h1]; exact hp

theorem linv_run (clk : Nat → Nat) (hinj : Function.Injective clk) (st : Streams) :
    ∀ (evs : List Ev) (s : LState), IInv st (toI s) → CanonEvs evs → IInv st (toI (lrun clk st s evs)) := by
  intro evs
  induction evs with
  | nil => intro s h _; exact h
  | cons x evs ih =>
    intro s h hc
    exact ih _ (linv_step clk hinj st s h x (fun d e => hc x List.mem_cons_self d e))
      (fun y hy => hc y (List.mem_cons_of_mem _ hy))

/-- what a fresh client built from `d` alone hands out for the query an event belongs to. -/
def freshAns (cfg : Cfg) (d : Desc) (st : Streams) : Ev → Option Desc
  | .look i sz | .comp i sz | .qS i sz => some (queryShard (fresh cfg d) st i sz).1
  | .lookL i sz p n | .compL i sz p n | .qL i sz p n => some (queryShardLB (fresh cfg d) st i sz p n).1
  | _ => none

/-- whatever sub-ring a section hands to its caller is the fresh client's. -/
theorem lans_fresh (st : Streams) (s : LState) (h : Inv st s.c) (x : Ev) (a : Desc) (ha : lans st s x = some a) :
    freshAns s.c.cfg s.c.desc st x = some a := by
  cases x with
  | upd d => cases ha
  | store n => cases ha
  | storeL n => cases ha
  | clean i => cases ha
  | qS i sz =>
    simp only [lans, freshAns] at ha ⊢; rw [← ha, queryShard_equiv st s.c h i sz]
  | qL i sz p n =>
    simp only [lans, freshAns] at ha ⊢; rw [← ha, queryShardLB_equiv st s.c h i sz p n]
  | look i sz =>
    simp only [lans, freshAns] at ha ⊢
    rcases lookShard_cases s.c st i sz with ⟨e, _⟩ | ⟨e, _, _⟩
    · rw [e] at ha; cases ha
    · rw [e, beginShard_answer] at ha; rw [← ha, queryShard_equiv st s.c h i sz]
  | lookL i sz p n =>
    simp only [lans, freshAns] at ha ⊢
    rcases lookShardLB_cases s.c st i sz p n with ⟨e, _⟩ | ⟨e, _, _⟩
    · rw [e] at ha; cases ha
    · rw [e, beginShardLB_answer] at ha; rw [← ha, queryShardLB_equiv st s.c h i sz p n]
  | comp i sz =>
    simp only [lans, freshAns] at ha ⊢
    rw [← (beginShard_noCache s.c st i sz).1, beginShard_answer,
      queryShard_equiv st (noCache s.c) (inv_noCache st s.c h) i sz] at ha
    rw [← ha]; rfl
  | compL i sz p n =>
    simp only [lans, freshAns] at ha ⊢
    rw [← (beginShardLB_noCache s.c st i sz p n).1, beginShardLB_answer,
      queryShardLB_equiv st (noCache s.c) (inv_noCache st s.c h) i sz p n] at ha
    rw [← ha]; rfl

/-- the client's descriptor and configuration along a run. -/
theorem lstep_desc (clk : Nat → Nat) (st : Streams) (s : LState) (x : Ev) :
    (lstep clk st s x).c.cfg = s.c.cfg ∧ (lstep clk st s x).c.desc = (match x with | .upd d => d | _ => s.c.desc) := by
  cases x with
  | upd d => exact ⟨(update_desc s.c d).2, (update_desc s.c d).1⟩
  | qS i sz => exact ⟨(queryShard_fields st s.c i sz).2, (queryShard_fields st s.c i sz).1⟩
  | qL i sz p n =>
    have := queryShardLB_fields st s.c i sz p n
    exact ⟨this.1, this.2.1⟩
  | clean i => exact ⟨rfl, rfl⟩
  | look i sz =>
    simp only [lstep]
    rcases lookShard_cases s.c st i sz with ⟨_, e⟩ | ⟨_, e, _⟩
    · rw [e]; exact ⟨rfl, rfl⟩
    · rw [e]; exact beginShard_fields st s.c i sz
  | lookL i sz p n =>
    simp only [lstep]
    rcases lookShardLB_cases s.c st i sz p n with ⟨_, e⟩ | ⟨_, e, _⟩
    · rw [e]; exact ⟨rfl, rfl⟩
    · rw [e]; exact beginShardLB_fields st s.c i sz p n
  | comp i sz =>
    simp only [lstep]
    cases (compShard s.c st i sz).2 with
    | none => exact ⟨rfl, rfl⟩
    | some sub => exact ⟨rfl, rfl⟩
  | compL i sz p n =>
    simp only [lstep]
    cases (compShardLB s.c st i sz p n).2 with
    | none => exact ⟨rfl, rfl⟩
    | some sw => exact ⟨rfl, rfl⟩
  | store n =>
    simp only [lstep]
    cases s.pend[n]? with
    | none => exact ⟨rfl, rfl⟩
    | some p =>
      simp only
      unfold storeShardT; split <;> exact ⟨rfl, rfl⟩
  | storeL n =>
    simp only [lstep]
    cases s.pendL[n]? with
    | none => exact ⟨rfl, rfl⟩
    | some p =>
      simp only
      unfold storeShardLBT; split
      · exact ite_client _ s.c _ (fun x => x.cfg = s.c.cfg ∧ x.desc = s.c.desc) ⟨rfl, rfl⟩ ⟨rfl, rfl⟩
      · exact ⟨rfl, rfl⟩

theorem lrun_desc (clk : Nat → Nat) (st : Streams) : ∀ (evs : List Ev) (s : LState),
    (lrun clk st s evs).c.desc = lastDescL evs s.c.desc ∧ (lrun clk st s evs).c.cfg = s.c.cfg := by
  intro evs
  induction evs with
  | nil => intro s; exact ⟨rfl, rfl⟩
  | cons x evs ih =>
    intro s
    have h1 := lstep_desc clk st s x
    have h2 := ih (lstep clk st s x)
    unfold lrun at h2 ⊢
    rw [List.foldl_cons]
    rw [h1.1, h1.2] at h2
    cases x <;> exact h2

theorem linv_init (st : Streams) (cfg : Cfg) : IInv st (toI { c := { cfg := cfg } }) := iinv_init st cfg

end PfC13
