import Proofs.C13
import Proofs.C12.WindowConst
/-!
# C13 — client invariant and observational equivalence (plain shard cache, lookups, counts)
-/
namespace PfC13
open Ring C12 C13

inductive Step
  | upd (d : Desc)
  | qS (ident : String) (size : Int)
  | qL (ident : String) (size period now : Int)

def stepC (st : Streams) (c : Client) : Step → Client
  | .upd d => update c d
  | .qS i s => (queryShard c st i s).2
  | .qL i s p n => (queryShardLB c st i s p n).2

def run (st : Streams) (c : Client) (steps : List Step) : Client := steps.foldl (stepC st) c

/-- the descriptor of the last update (the "latest ring content"). -/
def lastDesc : List Step → Desc → Desc
  | [], d => d
  | .upd d :: rest, _ => lastDesc rest d
  | _ :: rest, d => lastDesc rest d

def CanonSteps (steps : List Step) : Prop := ∀ s ∈ steps, ∀ d, s = .upd d → Canon d

/-- the selection predicate of a plain query, evaluated on the index descriptor. -/
def sel (c : Client) (st : Streams) (k : Key) : Inst → Bool :=
  fun i => (shardIds c.cfg c.idx (st k.ident) k.size 0 0).contains i.id

/-- the selection predicate of a look-back query whose window starts at `after`. -/
def selLB (c : Client) (st : Streams) (k : LKey) (after : Int) : Inst → Bool :=
  fun i => (shardIds c.cfg c.idx (st k.ident) k.size k.period (after + k.period)).contains i.id

/-- no registration / read-only timestamp of `m` lies in `[after, before)`. -/
def TsBound (after before : Int) (m : Inst) : Prop :=
  (m.regTs ≥ after → before ≤ m.regTs) ∧ (m.roTs ≥ after → before ≤ m.roTs)

structure Inv (st : Streams) (c : Client) : Prop where
  cdesc : Canon c.desc
  cidx : Canon c.idx
  keyEq : c.idx.map key = c.desc.map key
  cache : ∀ k s, lookupAssoc k c.cache = some s →
    isSelf c k.size 0 0 = false ∧ s.members.map key = (c.idx.filter (sel c st k)).map key
  lb : ∀ k e, lookupAssoc k c.lbCache = some e →
    isSelf c k.size k.period (e.after + k.period) = false ∧
    e.sub.members.map key = (c.idx.filter (selLB c st k e.after)).map key ∧
    ∀ m ∈ e.sub.members, TsBound e.after e.before m

/-! ### association lists -/

theorem lookup_setAssoc {κ β : Type} [DecidableEq κ] (k k' : κ) (v : β) : ∀ l : List (κ × β),
    lookupAssoc k' (setAssoc k v l) = if k' = k then some v else lookupAssoc k' l := by
  intro l
  induction l with
  | nil =>
    simp only [setAssoc, lookupAssoc]
    by_cases h : k' = k
    · rw [if_pos h, if_pos h.symm]
    · rw [if_neg h, if_neg (fun e => h e.symm)]
  | cons a l ih =>
    obtain ⟨ka, va⟩ := a
    unfold setAssoc
    by_cases h1 : ka = k
    · subst h1
      rw [if_pos rfl]
      by_cases h : k' = ka
      · subst h; simp [lookupAssoc]
      · have : ¬ ka = k' := fun e => h e.symm
        simp [lookupAssoc, h, this]
    · rw [if_neg h1]
      by_cases h2 : ka = k'
      · subst h2; simp [lookupAssoc, h1]
      · simp only [lookupAssoc, if_neg h2]; exact ih

/-! ### key-equal descriptors -/

theorem filter_key (P : Inst → Bool) (hP : ∀ x y : Inst, x.id = y.id → P x = P y) : ∀ (a b : Desc),
    a.map key = b.map key → (a.filter P).map key = (b.filter P).map key := by
  intro a
  induction a with
  | nil => intro b h; cases b with
    | nil => rfl
    | cons _ _ => simp at h
  | cons x a ih =>
    intro b h
    cases b with
    | nil => simp at h
    | cons y b =>
      simp only [List.map_cons, List.cons.injEq] at h
      have hid : x.id = y.id := by have := h.1; simp only [key, Prod.mk.injEq] at this; exact this.1
      rw [List.filter_cons, List.filter_cons, hP x y hid]
      split
      · simp only [List.map_cons, h.1, ih b h.2]
      · exact ih b h.2

theorem refresh_key (desc : Desc) (s : Sub) : (refresh desc s).members.map key = s.members.map key := by
  unfold refresh
  simp only [List.map_map]
  apply List.map_congr_left
  intro m _
  simp only [Function.comp]
  split <;> rfl

theorem get?_of_mem : ∀ (d : Desc), Canon d → ∀ n ∈ d, d.get? n.id = some n := by
  intro d
  induction d with
  | nil => intro _ n hn; cases hn
  | cons a d ih =>
    intro hc n hn
    have hc' : (∀ i ∈ d.map (·.id), a.id < i) ∧ (d.map (·.id)).Pairwise (· < ·) := List.pairwise_cons.mp hc
    unfold Desc.get?
    rw [List.find?_cons]
    rcases List.mem_cons.mp hn with rfl | hn'
    · simp
    · have hlt : a.id < n.id := hc'.1 _ (List.mem_map_of_mem hn')
      have hne : (a.id == n.id) = false := by
        simp only [beq_eq_false_iff_ne, ne_eq]
        intro e; rw [e] at hlt; exact String.lt_irrefl _ hlt
      rw [hne]
      exact ih hc'.2 n hn'

/-- serving a cached sub-ring: after the State/Timestamp refresh it equals the freshly selected
members of the latest descriptor. -/
theorem refresh_eq (desc : Desc) (e : Nat) : ∀ (L0 L2 : Desc), L0.map key = L2.map key →
    (∀ n ∈ L2, desc.get? n.id = some n) → (refresh desc ⟨L0, e⟩).members = L2 := by
  intro L0
  induction L0 with
  | nil => intro L2 h _; cases L2 with
    | nil => rfl
    | cons _ _ => simp at h
  | cons m L0 ih =>
    intro L2 h hg
    cases L2 with
    | nil => simp at h
    | cons n L2 =>
      simp only [List.map_cons, List.cons.injEq] at h
      have hk := h.1
      simp only [key, Prod.mk.injEq] at hk
      have hgn := hg n List.mem_cons_self
      have := ih L2 h.2 (fun x hx => hg x (List.mem_cons_of_mem _ hx))
      unfold refresh at this ⊢
      simp only [List.map_cons] at this ⊢
      rw [List.cons.injEq]
      refine ⟨?_, this⟩
      simp only [hk.1, hgn]
      cases m; cases n
      simp_all

/-! ### the invariant is preserved -/

theorem inv_init (st : Streams) (cfg : Cfg) : Inv st { cfg := cfg } :=
  ⟨List.Pairwise.nil, List.Pairwise.nil, rfl, fun k s h => by simp [lookupAssoc] at h,
    fun k e h => by simp [lookupAssoc] at h⟩

theorem sel_id (c : Client) (st : Streams) (k : Key) : ∀ x y : Inst, x.id = y.id → sel c st k x = sel c st k y := by
  intro x y h; unfold sel; rw [h]

theorem inv_update (st : Streams) (c : Client) (h : Inv st c) (d : Desc) (hd : Canon d) : Inv st (update c d) := by
  unfold update
  cases hc : ringCompare c.desc d with
  | different =>
    simp only
    exact ⟨hd, hd, rfl, fun k s hl => by simp [rebuild, lookupAssoc] at hl,
      fun k e hl => by simp [rebuild, lookupAssoc] at hl⟩
  | equal =>
    simp only
    have := compare_sound c.desc d h.cdesc hd (by rw [hc]; simp)
    exact ⟨hd, h.cidx, h.keyEq.trans this, h.cache, h.lb⟩
  | equalButStatesAndTimestamps =>
    simp only
    have := compare_sound c.desc d h.cdesc hd (by rw [hc]; simp)
    exact ⟨hd, h.cidx, h.keyEq.trans this, h.cache, h.lb⟩

/-- a client that differs from `c` only in its caches satisfies the invariant if its caches do. -/
theorem inv_cache (st : Streams) (c c' : Client) (h : Inv st c) (e1 : c'.cfg = c.cfg) (e2 : c'.desc = c.desc)
    (e3 : c'.idx = c.idx)
    (hc : ∀ k s, lookupAssoc k c'.cache = some s →
      isSelf c k.size 0 0 = false ∧ s.members.map key = (c.idx.filter (sel c st k)).map key)
    (hl : ∀ k e, lookupAssoc k c'.lbCache = some e →
      isSelf c k.size k.period (e.after + k.period) = false ∧
      e.sub.members.map key = (c.idx.filter (selLB c st k e.after)).map key ∧
      ∀ m ∈ e.sub.members, TsBound e.after e.before m) : Inv st c' := by
  have hself : ∀ s p n, isSelf c' s p n = isSelf c s p n := by intro s p n; unfold isSelf; rw [e3]
  refine ⟨e2 ▸ h.cdesc, e3 ▸ h.cidx, by rw [e2, e3]; exact h.keyEq, ?_, ?_⟩
  · intro k s hk
    have := hc k s hk
    have hsel : sel c' st k = sel c st k := by unfold sel; rw [e1, e3]
    rw [hself, hsel, e3]; exact this
  · intro k e hk
    have := hl k e hk
    have hsel : selLB c' st k e.after = selLB c st k e.after := by unfold selLB; rw [e1, e3]
    rw [hself, hsel, e3]; exact this

theorem inv_queryShard (st : Streams) (c : Client) (h : Inv st c) (ident : String) (size : Int) :
    Inv st (queryShard c st ident size).2 := by
  unfold queryShard
  simp only
  cases hl : lookupAssoc (⟨ident, size⟩ : Key) c.cache with
  | some s =>
    simp only
    refine inv_cache st c _ h rfl rfl rfl ?_ h.lb
    intro k s' hk
    simp only at hk
    rw [lookup_setAssoc] at hk
    by_cases e : k = ⟨ident, size⟩
    · rw [if_pos e] at hk
      have := h.cache _ s hl
      cases hk
      subst e
      exact ⟨this.1, by rw [refresh_key]; exact this.2⟩
    · rw [if_neg e] at hk; exact h.cache k s' hk
  | none =>
    simp only
    by_cases hs : isSelf c size 0 0 = true
    · rw [if_pos hs]; exact h
    · rw [if_neg hs]
      refine inv_cache st c _ h rfl rfl rfl ?_ h.lb
      intro k s' hk
      simp only at hk
      rw [lookup_setAssoc] at hk
      by_cases e : k = ⟨ident, size⟩
      · rw [if_pos e] at hk
        cases hk
        subst e
        refine ⟨by simpa using hs, ?_⟩
        simp only [computeMembers]
        exact (filter_key _ (sel_id c st ⟨ident, size⟩) c.idx c.desc h.keyEq).symm
      · rw [if_neg e] at hk; exact h.cache k s' hk

theorem ite_fields (b : Bool) (c c2 : Client)
    (h : c2.cfg = c.cfg ∧ c2.desc = c.desc ∧ c2.idx = c.idx ∧ c2.cache = c.cache) :
    (if b = true then c2 else c).cfg = c.cfg ∧ (if b = true then c2 else c).desc = c.desc ∧
    (if b = true then c2 else c).idx = c.idx ∧ (if b = true then c2 else c).cache = c.cache := by
  cases b
  · exact ⟨rfl, rfl, rfl, rfl⟩
  · exact h

theorem queryShardLB_fields (st : Streams) (c : Client) (ident : String) (size period now : Int) :
    let c' := (queryShardLB c st ident size period now).2
    c'.cfg = c.cfg ∧ c'.desc = c.desc ∧ c'.idx = c.idx ∧ c'.cache = c.cache := by
  unfold queryShardLB
  simp only
  split
  · exact ⟨rfl, rfl, rfl, rfl⟩
  · split
    · exact ⟨rfl, rfl, rfl, rfl⟩
    · exact ite_fields _ c _ ⟨rfl, rfl, rfl, rfl⟩

/-! ### the look-back cache -/

def vbStep (w : Int) (b : Int) (i : Inst) : Int :=
  let b := if i.regTs ≥ w && i.regTs < b then i.regTs else b
  if i.roTs ≥ w && i.roTs < b then i.roTs else b

theorem validBefore_def (members : Desc) (w : Int) : validBefore members w = members.foldl (vbStep w) C12.maxInt := rfl

theorem vbStep_spec (w b : Int) (i : Inst) : vbStep w b i ≤ b ∧ TsBound w (vbStep w b i) i := by
  unfold vbStep TsBound
  simp only
  by_cases h1 : (decide (i.regTs ≥ w) && decide (i.regTs < b)) = true
  · rw [if_pos h1]
    simp only [Bool.and_eq_true, decide_eq_true_eq] at h1
    by_cases h2 : (decide (i.roTs ≥ w) && decide (i.roTs < i.regTs)) = true
    · rw [if_pos h2]
      simp only [Bool.and_eq_true, decide_eq_true_eq] at h2
      refine ⟨by omega, fun _ => by omega, fun _ => by omega⟩
    · rw [if_neg h2]
      simp only [Bool.and_eq_true, decide_eq_true_eq, not_and, Int.not_lt] at h2
      refine ⟨by omega, fun _ => by omega, fun h => h2 h⟩
  · rw [if_neg h1]
    simp only [Bool.and_eq_true, decide_eq_true_eq, not_and, Int.not_lt] at h1
    by_cases h2 : (decide (i.roTs ≥ w) && decide (i.roTs < b)) = true
    · rw [if_pos h2]
      simp only [Bool.and_eq_true, decide_eq_true_eq] at h2
      refine ⟨by omega, fun h => by have := h1 h; omega, fun _ => by omega⟩
    · rw [if_neg h2]
      simp only [Bool.and_eq_true, decide_eq_true_eq, not_and, Int.not_lt] at h2
      exact ⟨Int.le_refl _, fun h => h1 h, fun h => h2 h⟩

theorem foldl_vb (w : Int) : ∀ (members : Desc) (b0 : Int),
    members.foldl (vbStep w) b0 ≤ b0 ∧ ∀ m ∈ members, TsBound w (members.foldl (vbStep w) b0) m := by
  intro members
  induction members with
  | nil => intro b0; exact ⟨Int.le_refl _, fun m hm => by cases hm⟩
  | cons i ms ih =>
    intro b0
    rw [List.foldl_cons]
    have h1 := vbStep_spec w b0 i
    have h2 := ih (vbStep w b0 i)
    refine ⟨by omega, ?_⟩
    intro m hm
    rcases List.mem_cons.mp hm with rfl | hm
    · unfold TsBound at h1 ⊢
      exact ⟨fun h => by have := h1.2.1 h; omega, fun h => by have := h1.2.2 h; omega⟩
    · exact h2.2 m hm

theorem validBefore_bound (members : Desc) (w : Int) : ∀ m ∈ members, TsBound w (validBefore members w) m :=
  (foldl_vb w members C12.maxInt).2

theorem tsBound_of_key (a b : Int) : ∀ (L L' : Desc), L'.map key = L.map key → (∀ m ∈ L, TsBound a b m) →
    ∀ m ∈ L', TsBound a b m := by
  intro L L' hk h m hm
  have : key m ∈ L.map key := hk ▸ List.mem_map_of_mem hm
  obtain ⟨m0, hm0, e⟩ := List.mem_map.mp this
  have := h m0 hm0
  simp only [key, Prod.mk.injEq] at e
  unfold TsBound at this ⊢
  rw [← e.2.2.2.2.1, ← e.2.2.2.2.2.1]; exact this

theorem inv_queryShardLB (st : Streams) (c : Client) (h : Inv st c) (ident : String) (size period now : Int) :
    Inv st (queryShardLB c st ident size period now).2 := by
  unfold queryShardLB
  simp only
  cases hl : lookupAssoc (⟨ident, size, period⟩ : LKey) c.lbCache with
  | some e =>
    simp only
    have hentry := h.lb _ e hl
    by_cases hw : (decide (now - period < e.after) || decide (now - period > e.before)) = true
    · -- not valid for this window: recompute
      rw [if_pos hw]
      simp only
      by_cases hs : isSelf c size period now = true
      · rw [if_pos hs]; exact h
      · rw [if_neg hs]
        by_cases hstore : decide (e.after < now - period) = true
        · rw [if_pos hstore]
          refine inv_cache st c _ h rfl rfl rfl h.cache ?_
          intro k e' hk
          simp only at hk
          rw [lookup_setAssoc] at hk
          by_cases ek : k = ⟨ident, size, period⟩
          · rw [if_pos ek] at hk
            cases hk
            subst ek
            simp only
            have hnow : now - period + period = now := by omega
            refine ⟨by rw [hnow]; simpa using hs, ?_, validBefore_bound _ _⟩
            have hsel : selLB c st ⟨ident, size, period⟩ (now - period) =
                fun i => (shardIds c.cfg c.idx (st ident) size period now).contains i.id := by
              unfold selLB; simp only [hnow]
            rw [hsel]
            simp only [computeMembers]
            exact (filter_key (fun i => (shardIds c.cfg c.idx (st ident) size period now).contains i.id)
              (fun x y hxy => by simp only [hxy]) c.idx c.desc h.keyEq).symm
          · rw [if_neg ek] at hk; exact h.lb k e' hk
        · rw [if_neg hstore]; exact h
    · rw [if_neg hw]
      simp only
      refine inv_cache st c _ h rfl rfl rfl h.cache ?_
      intro k e' hk
      simp only at hk
      rw [lookup_setAssoc] at hk
      by_cases ek : k = ⟨ident, size, period⟩
      · rw [if_pos ek] at hk
        cases hk
        subst ek
        simp only
        refine ⟨hentry.1, by rw [refresh_key]; exact hentry.2.1, ?_⟩
        exact tsBound_of_key _ _ e.sub.members _ (refresh_key c.desc e.sub) hentry.2.2
      · rw [if_neg ek] at hk; exact h.lb k e' hk
  | none =>
    simp only
    by_cases hs : isSelf c size period now = true
    · rw [if_pos hs]; exact h
    · rw [if_neg hs]
      simp only [if_true]
      refine inv_cache st c _ h rfl rfl rfl h.cache ?_
      intro k e' hk
      simp only at hk
      rw [lookup_setAssoc] at hk
      by_cases ek : k = ⟨ident, size, period⟩
      · rw [if_pos ek] at hk
        cases hk
        subst ek
        simp only
        have hnow : now - period + period = now := by omega
        refine ⟨by rw [hnow]; simpa using hs, ?_, validBefore_bound _ _⟩
        have hsel : selLB c st ⟨ident, size, period⟩ (now - period) =
            fun i => (shardIds c.cfg c.idx (st ident) size period now).contains i.id := by
          unfold selLB; simp only [hnow]
        rw [hsel]
        simp only [computeMembers]
        exact (filter_key (fun i => (shardIds c.cfg c.idx (st ident) size period now).contains i.id)
          (fun x y hxy => by simp only [hxy]) c.idx c.desc h.keyEq).symm
      · rw [if_neg ek] at hk; exact h.lb k e' hk

theorem inv_step (st : Streams) (c : Client) (h : Inv st c) (s : Step) (hs : ∀ d, s = .upd d → Canon d) :
    Inv st (stepC st c s) := by
  cases s with
  | upd d => exact inv_update st c h d (hs d rfl)
  | qS i sz => exact inv_queryShard st c h i sz
  | qL i sz p n => exact inv_queryShardLB st c h i sz p n

theorem inv_run (st : Streams) : ∀ (steps : List Step) (c : Client), Inv st c → CanonSteps steps → Inv st (run st c steps) := by
  intro steps
  induction steps with
  | nil => intro c h _; exact h
  | cons s steps ih =>
    intro c h hc
    exact ih _ (inv_step st c h s (fun d e => hc s List.mem_cons_self d e))
      (fun s' hs' => hc s' (List.mem_cons_of_mem _ hs'))

/-! ### the latest descriptor -/

theorem update_desc (c : Client) (d : Desc) : (update c d).desc = d ∧ (update c d).cfg = c.cfg := by
  unfold update; split <;> exact ⟨rfl, rfl⟩

theorem queryShard_fields (st : Streams) (c : Client) (ident : String) (size : Int) :
    (queryShard c st ident size).2.desc = c.desc ∧ (queryShard c st ident size).2.cfg = c.cfg := by
  unfold queryShard
  simp only
  split
  · exact ⟨rfl, rfl⟩
  · split <;> exact ⟨rfl, rfl⟩

theorem run_desc (st : Streams) : ∀ (steps : List Step) (c : Client),
    (run st c steps).desc = lastDesc steps c.desc ∧ (run st c steps).cfg = c.cfg := by
  intro steps
  induction steps with
  | nil => intro c; exact ⟨rfl, rfl⟩
  | cons s steps ih =>
    intro c
    have := ih (stepC st c s)
    unfold run at this ⊢
    rw [List.foldl_cons]
    cases s with
    | upd d =>
      have hu := update_desc c d
      simp only [stepC, lastDesc] at this ⊢
      rw [hu.1, hu.2] at this; exact this
    | qS i sz =>
      have hq := queryShard_fields st c i sz
      simp only [stepC, lastDesc] at this ⊢
      rw [hq.1, hq.2] at this; exact this
    | qL i sz p n =>
      have hq := queryShardLB_fields st c i sz p n
      simp only [stepC, lastDesc] at this ⊢
      rw [hq.2.1, hq.1] at this; exact this

/-! ### the fresh client -/

theorem fresh_eq (cfg : Cfg) (d : Desc) : fresh cfg d = { cfg := cfg, desc := d, idx := d, epoch := if d = [] then 0 else 1 } := by
  unfold fresh update
  cases d with
  | nil => simp [ringCompare, ringCompareAux]
  | cons a d => simp [ringCompare, rebuild]

/-! ### answers -/

theorem isSelf_congr (c c' : Client) (h : c.idx.map core = c'.idx.map core) (size period now : Int) :
    isSelf c size period now = isSelf c' size period now := by
  unfold isSelf; rw [h]

/-- **plain shuffle shard**: the long-lived client's answer equals the fresh client's answer (every
field of every member). -/
theorem queryShard_equiv (st : Streams) (c : Client) (h : Inv st c) (ident : String) (size : Int) :
    (queryShard c st ident size).1 = (queryShard (fresh c.cfg c.desc) st ident size).1 := by
  have hcore : c.idx.map core = c.desc.map core := core_of_key _ _ h.keyEq
  have hids : shardIds c.cfg c.idx (st ident) size 0 0 = shardIds c.cfg c.desc (st ident) size 0 0 :=
    PfC12.shard_ignores_state_ts _ _ _ _ _ _ _ hcore
  -- the fresh side
  have hfresh : (queryShard (fresh c.cfg c.desc) st ident size).1 =
      if isSelf c size 0 0 then c.desc else c.desc.filter (sel c st ⟨ident, size⟩) := by
    rw [fresh_eq]
    unfold queryShard
    simp only [lookupAssoc]
    have e : isSelf { cfg := c.cfg, desc := c.desc, idx := c.desc, epoch := if c.desc = [] then 0 else 1 } size 0 0 = isSelf c size 0 0 :=
      isSelf_congr _ _ hcore.symm _ _ _
    rw [e]
    split
    · rfl
    · simp only [computeMembers]
      unfold sel
      rw [hids]
  rw [hfresh]
  unfold queryShard
  simp only
  cases hl : lookupAssoc (⟨ident, size⟩ : Key) c.cache with
  | some s =>
    simp only
    have hc := h.cache _ s hl
    rw [hc.1]
    simp only [Bool.false_eq_true, if_false]
    have hk : s.members.map key = (c.desc.filter (sel c st ⟨ident, size⟩)).map key :=
      hc.2.trans (filter_key _ (sel_id c st ⟨ident, size⟩) c.idx c.desc h.keyEq)
    cases s with
    | mk members epoch =>
      exact refresh_eq c.desc epoch members _ hk (fun n hn => get?_of_mem c.desc h.cdesc n (List.mem_filter.mp hn).1)
  | none =>
    simp only
    split
    · rfl
    · simp only [computeMembers]
      rfl

/-- `Get` (replication factor 1): exactly the fresh client's answer. -/
theorem get1_equiv (st : Streams) (c : Client) (h : Inv st c) (k : Nat) :
    get1 c k = get1 (fresh c.cfg c.desc) k := by
  rw [fresh_eq]
  unfold get1
  simp only
  rw [core_of_key _ _ h.keyEq]

theorem filter_length_key (Q : String × String × String × List Nat × Int × Int × Bool × List (Nat × Nat) → Bool) :
    ∀ (a b : Desc), a.map key = b.map key → (a.filter fun i => Q (key i)).length = (b.filter fun i => Q (key i)).length := by
  intro a
  induction a with
  | nil => intro b h; cases b with
    | nil => rfl
    | cons _ _ => simp at h
  | cons x a ih =>
    intro b h
    cases b with
    | nil => simp at h
    | cons y b =>
      simp only [List.map_cons, List.cons.injEq] at h
      rw [List.filter_cons, List.filter_cons, h.1]
      split
      · simp only [List.length_cons, ih b h.2]
      · exact ih b h.2

/-- instance / zone counters: exactly the fresh client's answer. -/
theorem counts_equiv (st : Streams) (c : Client) (h : Inv st c) (zs : List String) :
    counts c zs = counts (fresh c.cfg c.desc) zs := by
  rw [fresh_eq]
  unfold counts
  simp only
  have hcore := core_of_key _ _ h.keyEq
  have e1 := filter_length_key (fun k => !k.2.2.2.1.isEmpty) _ _ h.keyEq
  have e2 := filter_length_key (fun k => !k.2.2.2.1.isEmpty && !k.2.2.2.2.2.2.1) _ _ h.keyEq
  have e3 : ∀ z, ((c.idx.filter (·.zone == z)).length, ((c.idx.filter (·.zone == z)).filter fun i => !i.tokens.isEmpty).length,
      ((c.idx.filter (·.zone == z)).filter fun i => !i.tokens.isEmpty && !i.ro).length) =
      ((c.desc.filter (·.zone == z)).length, ((c.desc.filter (·.zone == z)).filter fun i => !i.tokens.isEmpty).length,
      ((c.desc.filter (·.zone == z)).filter fun i => !i.tokens.isEmpty && !i.ro).length) := by
    intro z
    have a1 := filter_length_key (fun k => k.2.2.1 == z) _ _ h.keyEq
    have a2 := filter_length_key (fun k => (k.2.2.1 == z) && !k.2.2.2.1.isEmpty) _ _ h.keyEq
    have a3 := filter_length_key (fun k => (k.2.2.1 == z) && (!k.2.2.2.1.isEmpty && !k.2.2.2.2.2.2.1)) _ _ h.keyEq
    simp only [key] at a1 a2 a3
    simp only [List.filter_filter]
    rw [Prod.mk.injEq, Prod.mk.injEq]
    refine ⟨a1, ?_, ?_⟩
    · have : ∀ l : Desc, (l.filter fun a => (!a.tokens.isEmpty) && (a.zone == z)) = l.filter fun a => (a.zone == z) && !a.tokens.isEmpty := by
        intro l; apply List.filter_congr; intro a _; exact Bool.and_comm _ _
      rw [this, this]; exact a2
    · have : ∀ l : Desc, (l.filter fun a => (!a.tokens.isEmpty && !a.ro) && (a.zone == z)) = l.filter fun a => (a.zone == z) && (!a.tokens.isEmpty && !a.ro) := by
        intro l; apply List.filter_congr; intro a _; exact Bool.and_comm _ _
      rw [this, this]; exact a3
  simp only [key] at e1 e2
  rw [hcore, e1, e2]
  congr 1
  apply List.map_congr_left
  intro z _
  have := e3 z
  simp only [Prod.mk.injEq] at this ⊢
  exact ⟨trivial, this.1, this.2.1, this.2.2⟩

end PfC13
