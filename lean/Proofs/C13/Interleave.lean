import Proofs.C13.Reads
import Proofs.C13.Part
/-!
# C13 — interleaved histories: the two halves of a query with updates and other queries in between
(the cache-fill guard `lastTopologyChange.Equal(...)`), and `CleanupShuffleShardCache`
-/
namespace PfC13
open Ring C12 C13

/-- `queryShard` is the first half directly followed by the second. -/
theorem queryShard_eq_begin_store (c : Client) (st : Streams) (ident : String) (size : Int) :
    queryShard c st ident size =
      ((beginShard c st ident size).1,
        match (beginShard c st ident size).2.1 with
        | some s => storeShard (beginShard c st ident size).2.2 ⟨ident, size⟩ s
        | none => (beginShard c st ident size).2.2) := by
  unfold queryShard beginShard storeShard
  simp only
  cases lookupAssoc (⟨ident, size⟩ : Key) c.cache with
  | some s => rfl
  | none =>
    simp only
    split
    · rfl
    · simp

theorem queryShardLB_eq_begin_store (c : Client) (st : Streams) (ident : String) (size period now : Int) :
    queryShardLB c st ident size period now =
      ((beginShardLB c st ident size period now).1,
        match (beginShardLB c st ident size period now).2.1 with
        | some (s, w) => storeShardLB (beginShardLB c st ident size period now).2.2 ⟨ident, size, period⟩ s w
        | none => (beginShardLB c st ident size period now).2.2) := by
  unfold queryShardLB beginShardLB storeShardLB
  simp only
  split
  · rfl
  · split
    · rfl
    · simp

theorem ite_client (b : Bool) (c c2 : Client) (P : Client → Prop) (h1 : P c) (h2 : P c2) :
    P (if b = true then c2 else c) := by
  cases b
  · exact h1
  · exact h2

/-! ### interleaved histories -/

inductive IStep
  | upd (d : Desc)
  | qS (ident : String) (size : Int)
  | qL (ident : String) (size period now : Int)
  | bS (ident : String) (size : Int)                 -- a reader runs the first half …
  | fS (n : Nat)                                      -- … and later the second half for the n-th pending store
  | bL (ident : String) (size period now : Int)
  | fL (n : Nat)
  | clean (ident : String)                            -- CleanupShuffleShardCache

structure IState where
  c : Client
  pend : List (Key × Sub) := []
  pendL : List (LKey × Sub × Int) := []

def istep (st : Streams) (s : IState) : IStep → IState
  | .upd d => { s with c := update s.c d }
  | .qS i sz => { s with c := (queryShard s.c st i sz).2 }
  | .qL i sz p n => { s with c := (queryShardLB s.c st i sz p n).2 }
  | .bS i sz =>
    let r := beginShard s.c st i sz
    { s with c := r.2.2, pend := match r.2.1 with | some sub => s.pend ++ [(⟨i, sz⟩, sub)] | none => s.pend }
  | .fS n => match s.pend[n]? with
    | some (k, sub) => { s with c := storeShard s.c k sub }
    | none => s
  | .bL i sz p n =>
    let r := beginShardLB s.c st i sz p n
    { s with c := r.2.2, pendL := match r.2.1 with | some (sub, w) => s.pendL ++ [(⟨i, sz, p⟩, sub, w)] | none => s.pendL }
  | .fL n => match s.pendL[n]? with
    | some (k, sub, w) => { s with c := storeShardLB s.c k sub w }
    | none => s
  | .clean i => { s with c := cleanup s.c i }

def irun (st : Streams) (s : IState) (steps : List IStep) : IState := steps.foldl (istep st) s

def lastDescI : List IStep → Desc → Desc
  | [], d => d
  | .upd d :: rest, _ => lastDescI rest d
  | _ :: rest, d => lastDescI rest d

def CanonISteps (steps : List IStep) : Prop := ∀ s ∈ steps, ∀ d, s = .upd d → Canon d

/-- a pending store is harmless: built at an epoch not in the future and, if the ring has not been
re-indexed since, a correct cache entry for the present indexes. -/
def PendOK (st : Streams) (c : Client) (p : Key × Sub) : Prop :=
  p.2.epoch ≤ c.epoch ∧
  (p.2.epoch = c.epoch → isSelf c p.1.size 0 0 = false ∧ p.2.members.map key = (c.idx.filter (sel c st p.1)).map key)

def PendLOK (st : Streams) (c : Client) (p : LKey × Sub × Int) : Prop :=
  p.2.1.epoch ≤ c.epoch ∧
  (p.2.1.epoch = c.epoch → isSelf c p.1.size p.1.period (p.2.2 + p.1.period) = false ∧
    p.2.1.members.map key = (c.idx.filter (selLB c st p.1 p.2.2)).map key)

structure IInv (st : Streams) (s : IState) : Prop where
  inv : Inv st s.c
  pend : ∀ p ∈ s.pend, PendOK st s.c p
  pendL : ∀ p ∈ s.pendL, PendLOK st s.c p

theorem pendOK_congr (st : Streams) (c c' : Client) (e1 : c'.cfg = c.cfg) (e3 : c'.idx = c.idx) (e5 : c'.epoch = c.epoch)
    (p : Key × Sub) (h : PendOK st c p) : PendOK st c' p := by
  unfold PendOK at *
  have hself : ∀ s pe n, isSelf c' s pe n = isSelf c s pe n := by intro s pe n; unfold isSelf; rw [e3]
  have hsel : sel c' st p.1 = sel c st p.1 := by unfold sel; rw [e1, e3]
  rw [e5, hself, hsel, e3]; exact h

theorem pendLOK_congr (st : Streams) (c c' : Client) (e1 : c'.cfg = c.cfg) (e3 : c'.idx = c.idx) (e5 : c'.epoch = c.epoch)
    (p : LKey × Sub × Int) (h : PendLOK st c p) : PendLOK st c' p := by
  unfold PendLOK at *
  have hself : ∀ s pe n, isSelf c' s pe n = isSelf c s pe n := by intro s pe n; unfold isSelf; rw [e3]
  have hsel : selLB c' st p.1 p.2.2 = selLB c st p.1 p.2.2 := by unfold selLB; rw [e1, e3]
  rw [e5, hself, hsel, e3]; exact h

/-- a step that leaves configuration, indexes and epoch alone keeps every pending store harmless. -/
theorem iinv_same (st : Streams) (s : IState) (c' : Client) (h : IInv st s) (hi : Inv st c')
    (e1 : c'.cfg = s.c.cfg) (e3 : c'.idx = s.c.idx) (e5 : c'.epoch = s.c.epoch) :
    IInv st { s with c := c' } :=
  ⟨hi, fun p hp => pendOK_congr st s.c c' e1 e3 e5 p (h.pend p hp), fun p hp => pendLOK_congr st s.c c' e1 e3 e5 p (h.pendL p hp)⟩

theorem update_fields (c : Client) (d : Desc) :
    (update c d).cfg = c.cfg ∧
    (((update c d).idx = c.idx ∧ (update c d).epoch = c.epoch) ∨ (update c d).epoch = c.epoch + 1) := by
  unfold update
  split
  · exact ⟨rfl, Or.inl ⟨rfl, rfl⟩⟩
  · exact ⟨rfl, Or.inl ⟨rfl, rfl⟩⟩
  · exact ⟨rfl, Or.inr rfl⟩

theorem queryShard_fields' (st : Streams) (c : Client) (ident : String) (size : Int) :
    (queryShard c st ident size).2.cfg = c.cfg ∧ (queryShard c st ident size).2.idx = c.idx ∧
    (queryShard c st ident size).2.epoch = c.epoch := by
  unfold queryShard
  simp only
  split
  · exact ⟨rfl, rfl, rfl⟩
  · split <;> exact ⟨rfl, rfl, rfl⟩

theorem queryShardLB_fields' (st : Streams) (c : Client) (ident : String) (size period now : Int) :
    (queryShardLB c st ident size period now).2.cfg = c.cfg ∧ (queryShardLB c st ident size period now).2.idx = c.idx ∧
    (queryShardLB c st ident size period now).2.epoch = c.epoch := by
  unfold queryShardLB
  simp only
  split
  · exact ⟨rfl, rfl, rfl⟩
  · split
    · exact ⟨rfl, rfl, rfl⟩
    · exact ite_client _ c _ (fun x => x.cfg = c.cfg ∧ x.idx = c.idx ∧ x.epoch = c.epoch) ⟨rfl, rfl, rfl⟩ ⟨rfl, rfl, rfl⟩

theorem inv_storeShard (st : Streams) (c : Client) (h : Inv st c) (p : Key × Sub) (hp : PendOK st c p) :
    Inv st (storeShard c p.1 p.2) := by
  unfold storeShard
  by_cases he : (p.2.epoch == c.epoch) = true
  · rw [if_pos he]
    have he' : p.2.epoch = c.epoch := by simpa using he
    have hok := hp.2 he'
    refine inv_cache st c _ h rfl rfl rfl ?_ h.lb
    intro k s hk
    simp only at hk
    rw [lookup_setAssoc] at hk
    by_cases e : k = p.1
    · rw [if_pos e] at hk; cases hk; subst e; exact hok
    · rw [if_neg e] at hk; exact h.cache k s hk
  · rw [if_neg he]; exact h

theorem inv_storeShardLB (st : Streams) (c : Client) (h : Inv st c) (p : LKey × Sub × Int) (hp : PendLOK st c p) :
    Inv st (storeShardLB c p.1 p.2.1 p.2.2) := by
  unfold storeShardLB
  by_cases he : (p.2.1.epoch == c.epoch) = true
  · rw [if_pos he]
    have he' : p.2.1.epoch = c.epoch := by simpa using he
    have hok := hp.2 he'
    simp only
    apply ite_client _ c _ (Inv st) h
    refine inv_cache st c _ h rfl rfl rfl h.cache ?_
    intro k e hk
    simp only at hk
    rw [lookup_setAssoc] at hk
    by_cases ek : k = p.1
    · rw [if_pos ek] at hk; cases hk; subst ek
      exact ⟨hok.1, hok.2, validBefore_bound _ _⟩
    · rw [if_neg ek] at hk; exact h.lb k e hk
  · rw [if_neg he]; exact h

theorem storeShard_fields (c : Client) (k : Key) (s : Sub) :
    (storeShard c k s).cfg = c.cfg ∧ (storeShard c k s).idx = c.idx ∧ (storeShard c k s).epoch = c.epoch ∧
    (storeShard c k s).desc = c.desc := by
  unfold storeShard; split <;> exact ⟨rfl, rfl, rfl, rfl⟩

theorem storeShardLB_fields (c : Client) (k : LKey) (s : Sub) (w : Int) :
    (storeShardLB c k s w).cfg = c.cfg ∧ (storeShardLB c k s w).idx = c.idx ∧ (storeShardLB c k s w).epoch = c.epoch ∧
    (storeShardLB c k s w).desc = c.desc := by
  unfold storeShardLB
  split
  · exact ite_client _ c _ (fun x => x.cfg = c.cfg ∧ x.idx = c.idx ∧ x.epoch = c.epoch ∧ x.desc = c.desc)
      ⟨rfl, rfl, rfl, rfl⟩ ⟨rfl, rfl, rfl, rfl⟩
  · exact ⟨rfl, rfl, rfl, rfl⟩

theorem inv_cleanup (st : Streams) (c : Client) (h : Inv st c) (ident : String) : Inv st (cleanup c ident) := by
  unfold cleanup
  refine inv_cache st c _ h rfl rfl rfl ?_ ?_
  · intro k s hk
    exact h.cache k s (lookup_filter (fun k : Key => k.ident != ident) k c.cache s hk)
  · intro k e hk
    exact h.lb k e (lookup_filter (fun k : LKey => k.ident != ident) k c.lbCache e hk)

theorem inv_beginShard (st : Streams) (c : Client) (h : Inv st c) (ident : String) (size : Int) :
    Inv st (beginShard c st ident size).2.2 ∧
    (beginShard c st ident size).2.2.cfg = c.cfg ∧ (beginShard c st ident size).2.2.idx = c.idx ∧
    (beginShard c st ident size).2.2.epoch = c.epoch ∧ (beginShard c st ident size).2.2.desc = c.desc ∧
    ∀ sub, (beginShard c st ident size).2.1 = some sub → PendOK st c (⟨ident, size⟩, sub) := by
  unfold beginShard
  simp only
  cases hl : lookupAssoc (⟨ident, size⟩ : Key) c.cache with
  | some s =>
    simp only
    refine ⟨?_, by first | rfl | trivial, by first | rfl | trivial, by first | rfl | trivial, by first | rfl | trivial,
      fun sub hs => by cases hs⟩
    refine inv_cache st c _ h rfl rfl rfl ?_ h.lb
    intro k s' hk
    simp only at hk
    rw [lookup_setAssoc] at hk
    by_cases e : k = ⟨ident, size⟩
    · rw [if_pos e] at hk
      have := h.cache _ s hl
      cases hk; subst e
      exact ⟨this.1, by rw [refresh_key]; exact this.2⟩
    · rw [if_neg e] at hk; exact h.cache k s' hk
  | none =>
    simp only
    by_cases hs : isSelf c size 0 0 = true
    · rw [if_pos hs]
      exact ⟨h, rfl, rfl, rfl, rfl, fun sub hsub => by cases hsub⟩
    · rw [if_neg hs]
      refine ⟨h, rfl, rfl, rfl, rfl, ?_⟩
      intro sub hsub
      cases hsub
      refine ⟨Nat.le_refl _, fun _ => ⟨by simpa using hs, ?_⟩⟩
      simp only [computeMembers]
      exact (filter_key _ (sel_id c st ⟨ident, size⟩) c.idx c.desc h.keyEq).symm

theorem inv_beginShardLB (st : Streams) (c : Client) (h : Inv st c) (ident : String) (size period now : Int) :
    Inv st (beginShardLB c st ident size period now).2.2 ∧
    (beginShardLB c st ident size period now).2.2.cfg = c.cfg ∧ (beginShardLB c st ident size period now).2.2.idx = c.idx ∧
    (beginShardLB c st ident size period now).2.2.epoch = c.epoch ∧ (beginShardLB c st ident size period now).2.2.desc = c.desc ∧
    ∀ sub w, (beginShardLB c st ident size period now).2.1 = some (sub, w) → PendLOK st c (⟨ident, size, period⟩, sub, w) := by
  have hmiss : ∀ (hs : ¬ isSelf c size period now = true),
      PendLOK st c (⟨ident, size, period⟩, ⟨computeMembers c st ident size period now, c.epoch⟩, now - period) := by
    intro hs
    have hnow : now - period + period = now := by omega
    refine ⟨Nat.le_refl _, fun _ => ⟨by simp only; rw [hnow]; simpa using hs, ?_⟩⟩
    have hsel : selLB c st ⟨ident, size, period⟩ (now - period) =
        fun i => (shardIds c.cfg c.idx (st ident) size period now).contains i.id := by
      unfold selLB; simp only [hnow]
    simp only
    rw [hsel]
    simp only [computeMembers]
    exact (filter_key (fun i => (shardIds c.cfg c.idx (st ident) size period now).contains i.id)
      (fun x y hxy => by simp only [hxy]) c.idx c.desc h.keyEq).symm
  unfold beginShardLB
  simp only
  cases hl : lookupAssoc (⟨ident, size, period⟩ : LKey) c.lbCache with
  | some e =>
    simp only
    have hentry := h.lb _ e hl
    by_cases hw : (decide (now - period < e.after) || decide (now - period > e.before)) = true
    · rw [if_pos hw]
      simp only
      by_cases hs : isSelf c size period now = true
      · rw [if_pos hs]; exact ⟨h, rfl, rfl, rfl, rfl, fun sub w hsub => by cases hsub⟩
      · rw [if_neg hs]
        refine ⟨h, rfl, rfl, rfl, rfl, ?_⟩
        intro sub w hsub
        cases hsub
        exact hmiss hs
    · rw [if_neg hw]
      simp only
      refine ⟨?_, by first | rfl | trivial, by first | rfl | trivial, by first | rfl | trivial, by first | rfl | trivial,
        fun sub w hsub => by cases hsub⟩
      refine inv_cache st c _ h rfl rfl rfl h.cache ?_
      intro k e' hk
      simp only at hk
      rw [lookup_setAssoc] at hk
      by_cases ek : k = ⟨ident, size, period⟩
      · rw [if_pos ek] at hk
        cases hk; subst ek
        simp only
        refine ⟨hentry.1, by rw [refresh_key]; exact hentry.2.1, ?_⟩
        exact tsBound_of_key _ _ e.sub.members _ (refresh_key c.desc e.sub) hentry.2.2
      · rw [if_neg ek] at hk; exact h.lb k e' hk
  | none =>
    simp only
    by_cases hs : isSelf c size period now = true
    · rw [if_pos hs]; exact ⟨h, rfl, rfl, rfl, rfl, fun sub w hsub => by cases hsub⟩
    · rw [if_neg hs]
      refine ⟨h, rfl, rfl, rfl, rfl, ?_⟩
      intro sub w hsub
      cases hsub
      exact hmiss hs

theorem beginShard_fields (st : Streams) (c : Client) (ident : String) (size : Int) :
    (beginShard c st ident size).2.2.cfg = c.cfg ∧ (beginShard c st ident size).2.2.desc = c.desc := by
  unfold beginShard
  simp only
  split
  · exact ⟨rfl, rfl⟩
  · split <;> exact ⟨rfl, rfl⟩

theorem beginShardLB_fields (st : Streams) (c : Client) (ident : String) (size period now : Int) :
    (beginShardLB c st ident size period now).2.2.cfg = c.cfg ∧ (beginShardLB c st ident size period now).2.2.desc = c.desc := by
  unfold beginShardLB
  simp only
  split
  · exact ⟨rfl, rfl⟩
  · split <;> exact ⟨rfl, rfl⟩

theorem iinv_step (st : Streams) (s : IState) (h : IInv st s) (x : IStep) (hx : ∀ d, x = .upd d → Canon d) :
    IInv st (istep st s x) := by
  cases x with
  | upd d =>
    have hi := inv_update st s.c h.inv d (hx d rfl)
    have hf := update_fields s.c d
    simp only [istep]
    rcases hf.2 with ⟨e3, e5⟩ | e5
    · exact iinv_same st s _ h hi hf.1 e3 e5
    · refine ⟨hi, ?_, ?_⟩
      · intro p hp
        have := (h.pend p hp).1
        exact ⟨by simp only; omega, fun e => by simp only at e; omega⟩
      · intro p hp
        have := (h.pendL p hp).1
        exact ⟨by simp only; omega, fun e => by simp only at e; omega⟩
  | qS i sz =>
    have hf := queryShard_fields' st s.c i sz
    exact iinv_same st s _ h (inv_queryShard st s.c h.inv i sz) hf.1 hf.2.1 hf.2.2
  | qL i sz p n =>
    have hf := queryShardLB_fields' st s.c i sz p n
    exact iinv_same st s _ h (inv_queryShardLB st s.c h.inv i sz p n) hf.1 hf.2.1 hf.2.2
  | bS i sz =>
    obtain ⟨hi, e1, e3, e5, _, hp⟩ := inv_beginShard st s.c h.inv i sz
    simp only [istep]
    refine ⟨hi, ?_, fun p hpm => pendLOK_congr st s.c _ e1 e3 e5 p (h.pendL p hpm)⟩
    intro p hpm
    apply pendOK_congr st s.c _ e1 e3 e5
    cases hb : (beginShard s.c st i sz).2.1 with
    | none => rw [hb] at hpm; exact h.pend p hpm
    | some sub =>
      rw [hb] at hpm
      rcases List.mem_append.mp hpm with hm | hm
      · exact h.pend p hm
      · have : p = (⟨i, sz⟩, sub) := by simpa using hm
        rw [this]; exact hp sub hb
  | fS n =>
    simp only [istep]
    cases hn : s.pend[n]? with
    | none => exact h
    | some p =>
      obtain ⟨k, sub⟩ := p
      have hmem : (k, sub) ∈ s.pend := List.mem_of_getElem? hn
      have hf := storeShard_fields s.c k sub
      exact iinv_same st s _ h (inv_storeShard st s.c h.inv (k, sub) (h.pend _ hmem)) hf.1 hf.2.1 hf.2.2.1
  | bL i sz p n =>
    obtain ⟨hi, e1, e3, e5, _, hp⟩ := inv_beginShardLB st s.c h.inv i sz p n
    simp only [istep]
    refine ⟨hi, fun q hq => pendOK_congr st s.c _ e1 e3 e5 q (h.pend q hq), ?_⟩
    intro q hq
    apply pendLOK_congr st s.c _ e1 e3 e5
    cases hb : (beginShardLB s.c st i sz p n).2.1 with
    | none => rw [hb] at hq; exact h.pendL q hq
    | some sw =>
      obtain ⟨sub, w⟩ := sw
      rw [hb] at hq
      rcases List.mem_append.mp hq with hm | hm
      · exact h.pendL q hm
      · have : q = (⟨i, sz, p⟩, sub, w) := by simpa using hm
        rw [this]; exact hp sub w hb
  | fL n =>
    simp only [istep]
    cases hn : s.pendL[n]? with
    | none => exact h
    | some p =>
      obtain ⟨k, sub, w⟩ := p
      have hmem : (k, sub, w) ∈ s.pendL := List.mem_of_getElem? hn
      have hf := storeShardLB_fields s.c k sub w
      exact iinv_same st s _ h (inv_storeShardLB st s.c h.inv (k, sub, w) (h.pendL _ hmem)) hf.1 hf.2.1 hf.2.2.1
  | clean i =>
    exact iinv_same st s _ h (inv_cleanup st s.c h.inv i) rfl rfl rfl

theorem iinv_run (st : Streams) : ∀ (steps : List IStep) (s : IState), IInv st s → CanonISteps steps → IInv st (irun st s steps) := by
  intro steps
  induction steps with
  | nil => intro s h _; exact h
  | cons x steps ih =>
    intro s h hc
    exact ih _ (iinv_step st s h x (fun d e => hc x List.mem_cons_self d e))
      (fun y hy => hc y (List.mem_cons_of_mem _ hy))

theorem istep_desc (st : Streams) (s : IState) (x : IStep) :
    (istep st s x).c.cfg = s.c.cfg ∧ (istep st s x).c.desc = (match x with | .upd d => d | _ => s.c.desc) := by
  cases x with
  | upd d => exact ⟨(update_desc s.c d).2, (update_desc s.c d).1⟩
  | qS i sz => exact ⟨(queryShard_fields st s.c i sz).2, (queryShard_fields st s.c i sz).1⟩
  | qL i sz p n =>
    have := queryShardLB_fields st s.c i sz p n
    exact ⟨this.1, this.2.1⟩
  | bS i sz =>
    exact beginShard_fields st s.c i sz
  | fS n =>
    simp only [istep]
    cases s.pend[n]? with
    | none => exact ⟨rfl, rfl⟩
    | some p => exact ⟨(storeShard_fields s.c p.1 p.2).1, (storeShard_fields s.c p.1 p.2).2.2.2⟩
  | bL i sz p n =>
    exact beginShardLB_fields st s.c i sz p n
  | fL n =>
    simp only [istep]
    cases s.pendL[n]? with
    | none => exact ⟨rfl, rfl⟩
    | some p => exact ⟨(storeShardLB_fields s.c p.1 p.2.1 p.2.2).1, (storeShardLB_fields s.c p.1 p.2.1 p.2.2).2.2.2⟩
  | clean i => exact ⟨rfl, rfl⟩

theorem irun_desc (st : Streams) : ∀ (steps : List IStep) (s : IState),
    (irun st s steps).c.desc = lastDescI steps s.c.desc ∧ (irun st s steps).c.cfg = s.c.cfg := by
  intro steps
  induction steps with
  | nil => intro s; exact ⟨rfl, rfl⟩
  | cons x steps ih =>
    intro s
    have h1 := istep_desc st s x
    have h2 := ih (istep st s x)
    unfold irun at h2 ⊢
    rw [List.foldl_cons]
    rw [h1.1, h1.2] at h2
    cases x <;> exact h2

/-- the answer a reader gets from the first half is the answer of the atomic query. -/
theorem beginShard_answer (c : Client) (st : Streams) (ident : String) (size : Int) :
    (beginShard c st ident size).1 = (queryShard c st ident size).1 := by
  rw [queryShard_eq_begin_store]

theorem beginShardLB_answer (c : Client) (st : Streams) (ident : String) (size period now : Int) :
    (beginShardLB c st ident size period now).1 = (queryShardLB c st ident size period now).1 := by
  rw [queryShardLB_eq_begin_store]

theorem iinv_init (st : Streams) (cfg : Cfg) : IInv st { c := { cfg := cfg } } :=
  { inv := inv_init st cfg
    pend := fun p hp => by simp at hp
    pendL := fun p hp => by simp at hp }

end PfC13
