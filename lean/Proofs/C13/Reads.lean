import Proofs.C13.LookbackEquiv
/-!
# C13 — the further reads (`Get`, `GetReplicationSetForOperation`, token ranges, zones, `Get` on a
shuffle-shard sub-ring): index-descriptor independence, long-lived = fresh, and fresh = the C01 / C02 /
C14 models
-/
namespace PfC13
open Ring C12 C13

abbrev KeyT := String × String × String × List Nat × Int × Int × Bool × List (Nat × Nat)

theorem map_of_key {β : Type} (f : Inst → β) (f' : KeyT → β) (hf : ∀ i, f i = f' (key i)) (a b : Desc)
    (h : a.map key = b.map key) : a.map f = b.map f := by
  have e : ∀ l : Desc, l.map f = (l.map key).map f' := by
    intro l; rw [List.map_map]; apply List.map_congr_left; intro i _; exact hf i
  rw [e a, e b, h]

theorem zones_of_key (a b : Desc) (h : a.map key = b.map key) : a.map (·.zone) = b.map (·.zone) :=
  map_of_key (·.zone) (fun k => k.2.2.1) (fun _ => rfl) a b h
theorem tokens_of_key (a b : Desc) (h : a.map key = b.map key) : a.map (·.tokens) = b.map (·.tokens) :=
  map_of_key (·.tokens) (fun k => k.2.2.2.1) (fun _ => rfl) a b h

theorem sortedTokens_of_key (a b : Desc) (h : a.map key = b.map key) : C01.sortedTokens a = C01.sortedTokens b := by
  unfold C01.sortedTokens
  rw [List.flatMap_def, List.flatMap_def, tokens_of_key a b h]

theorem ringZones_of_key (a b : Desc) (h : a.map key = b.map key) : C01.ringZones a = C01.ringZones b := by
  unfold C01.ringZones; rw [zones_of_key a b h]

theorem zoneTotal_of_key (a b : Desc) (h : a.map key = b.map key) : C01.zoneTotal a = C01.zoneTotal b := by
  funext z
  unfold C01.zoneTotal
  have e : ∀ l : Desc, (l.filter (·.zone == z)).length = ((l.map (·.zone)).filter (· == z)).length := by
    intro l; rw [List.filter_map, List.length_map]; rfl
  rw [e a, e b, zones_of_key a b h]

theorem zonesOf02_of_key (a b : Desc) (h : a.map key = b.map key) : C02.zonesOf a = C02.zonesOf b := by
  unfold C02.zonesOf; rw [zones_of_key a b h]

theorem zonesOf14_of_key (a b : Desc) (h : a.map key = b.map key) : C14.zonesOf a = C14.zonesOf b := by
  unfold C14.zonesOf; rw [zones_of_key a b h]

/-- a `find?` whose predicate and projection only read key fields. -/
theorem find_of_key {β : Type} (p : KeyT → Bool) (g : KeyT → β) (a b : Desc) (h : a.map key = b.map key) :
    (a.find? (fun i => p (key i))).map (fun i => g (key i)) = (b.find? (fun i => p (key i))).map (fun i => g (key i)) := by
  have e : ∀ l : Desc, (l.find? (fun i => p (key i))).map (fun i => g (key i)) = ((l.map key).find? p).map g := by
    intro l; rw [List.find?_map, Option.map_map]; rfl
  rw [e a, e b, h]

theorem ownerInfo_of_key (a b : Desc) (h : a.map key = b.map key) : ownerInfo a = ownerInfo b := by
  funext t
  unfold ownerInfo C01.tokenInfo
  exact find_of_key (fun k => k.2.2.2.1.contains t) (fun k => (k.1, k.2.2.1)) a b h

theorem filter_zone_of_key (a b : Desc) (h : a.map key = b.map key) (z : String) :
    (a.filter (·.zone == z)).map key = (b.filter (·.zone == z)).map key := by
  have e : ∀ l : Desc, (l.filter (·.zone == z)).map key = (l.map key).filter (fun k => k.2.2.1 == z) := by
    intro l; rw [List.filter_map]; rfl
  rw [e a, e b, h]

theorem tokenInsts_fst (l : Desc) : (C14.tokenInsts l).map (·.1) = (l.flatMap (·.tokens)).mergeSort (fun x y => decide (x ≤ y)) := by
  unfold C14.tokenInsts
  rw [List.map_mergeSort (r := fun a b : Nat × Inst => decide (a.1 ≤ b.1)) (s := fun x y : Nat => decide (x ≤ y))
    (f := fun q : Nat × Inst => q.1) (l := l.flatMap fun i => i.tokens.map fun t => (t, i)) (fun a _ b _ => rfl)]
  congr 1
  induction l with
  | nil => rfl
  | cons a l ih =>
    simp only [List.flatMap_cons, List.map_append, ih]
    congr 1
    simp [Function.comp_def]

theorem zoneTokens_of_key (a b : Desc) (h : a.map key = b.map key) (z : String) :
    (C14.zoneTokens a z).map (·.1) = (C14.zoneTokens b z).map (·.1) := by
  unfold C14.zoneTokens
  rw [tokenInsts_fst, tokenInsts_fst, List.flatMap_def, List.flatMap_def,
    tokens_of_key _ _ (filter_zone_of_key a b h z)]

theorem zoneFlagsOf_of_key (a b : Desc) (h : a.map key = b.map key) (toks : List Nat) (id : String) :
    C14.zoneFlagsOf a toks id = C14.zoneFlagsOf b toks id := by
  unfold C14.zoneFlagsOf
  congr 1
  funext t
  unfold C14.instanceByToken
  exact find_of_key (fun k => k.2.2.2.1.contains t) (fun k => (t, k.1 == id)) a b h

/-! ### the reads do not depend on which key-equal index descriptor is used -/

theorem readGet_of_key (cfg : C01.Cfg) (ix ix' d : Desc) (h : ix.map key = ix'.map key) (k : Nat) (op : C01.Op) (now rfCall : Int) :
    readGet cfg ix d k op now rfCall = readGet cfg ix' d k op now rfCall := by
  unfold readGet
  rw [sortedTokens_of_key ix ix' h, ownerInfo_of_key ix ix' h, zoneTotal_of_key ix ix' h, ringZones_of_key ix ix' h]

theorem readAll_of_key (cfg : C01.Cfg) (ix ix' d : Desc) (h : ix.map key = ix'.map key) (op : C01.Op) (now : Int) :
    readAll cfg ix d op now = readAll cfg ix' d op now := by
  unfold readAll
  rw [sortedTokens_of_key ix ix' h, zonesOf02_of_key ix ix' h]

theorem readRanges_of_key (cfg : C01.Cfg) (ix ix' d : Desc) (h : ix.map key = ix'.map key) (id : String) :
    readRanges cfg ix d id = readRanges cfg ix' d id := by
  unfold readRanges
  cases d.get? id with
  | none => rfl
  | some inst =>
    simp only
    rw [zonesOf14_of_key ix ix' h, zoneTokens_of_key ix ix' h inst.zone]
    split
    · rfl
    · split
      · rfl
      · split
        · rfl
        · rw [zoneFlagsOf_of_key ix ix' h]

theorem readZones_of_key (ix ix' : Desc) (h : ix.map key = ix'.map key) : readZones ix = readZones ix' :=
  ringZones_of_key ix ix' h

/-! ### long-lived client = fresh client -/

theorem fresh_fields (cfg : Cfg) (d : Desc) : (fresh cfg d).idx = d ∧ (fresh cfg d).desc = d ∧ (fresh cfg d).cfg = cfg ∧
    (fresh cfg d).cache = [] ∧ (fresh cfg d).lbCache = [] := by
  rw [fresh_eq]; exact ⟨rfl, rfl, rfl, rfl, rfl⟩

theorem getOnShard_equiv (st : Streams) (c : Client) (h : Inv st c) (rf : Nat) (hb : Int) (ident : String) (size : Int)
    (k : Nat) (op : C01.Op) (now : Int) :
    getOnShard c st rf hb ident size k op now = getOnShard (fresh c.cfg c.desc) st rf hb ident size k op now := by
  have hq := queryShard_equiv st c h ident size
  have hcore : c.idx.map core = c.desc.map core := core_of_key _ _ h.keyEq
  have hself : isSelf (fresh c.cfg c.desc) size 0 0 = isSelf c size 0 0 := by
    apply isSelf_congr; rw [(fresh_fields c.cfg c.desc).1]; exact hcore.symm
  have hcfg : (fresh c.cfg c.desc).rcfg rf hb = c.rcfg rf hb := by
    unfold Client.rcfg; rw [(fresh_fields c.cfg c.desc).2.2.1]
  -- the fresh side
  have hf : getOnShard (fresh c.cfg c.desc) st rf hb ident size k op now =
      if isSelf c size 0 0 then readGet (c.rcfg rf hb) c.desc c.desc k op now rf
      else subGet (c.rcfg rf hb) (queryShard (fresh c.cfg c.desc) st ident size).1 k op now := by
    unfold getOnShard queryShard
    rw [hcfg, (fresh_fields c.cfg c.desc).2.2.2.1, hself]
    simp only [lookupAssoc, (fresh_fields c.cfg c.desc).1, (fresh_fields c.cfg c.desc).2.1]
    split <;> rfl
  rw [hf, ← hq]
  unfold getOnShard queryShard
  simp only
  cases hl : lookupAssoc (⟨ident, size⟩ : Key) c.cache with
  | some s =>
    simp only
    rw [(h.cache _ s hl).1]
    simp
  | none =>
    simp only
    split
    · exact readGet_of_key _ _ _ _ h.keyEq _ _ _ _
    · rfl

theorem getOnShardLB_equiv (st : Streams) (c : Client) (h : Inv st c) (rf : Nat) (hb : Int) (ident : String)
    (size period qnow : Int) (k : Nat) (op : C01.Op) (now : Int) :
    getOnShardLB c st rf hb ident size period qnow k op now =
      getOnShardLB (fresh c.cfg c.desc) st rf hb ident size period qnow k op now := by
  have hq := queryShardLB_equiv st c h ident size period qnow
  have hcore : c.idx.map core = c.desc.map core := core_of_key _ _ h.keyEq
  have hself : isSelf (fresh c.cfg c.desc) size period qnow = isSelf c size period qnow := by
    apply isSelf_congr; rw [(fresh_fields c.cfg c.desc).1]; exact hcore.symm
  have hcfg : (fresh c.cfg c.desc).rcfg rf hb = c.rcfg rf hb := by
    unfold Client.rcfg; rw [(fresh_fields c.cfg c.desc).2.2.1]
  have hf : getOnShardLB (fresh c.cfg c.desc) st rf hb ident size period qnow k op now =
      if isSelf c size period qnow then readGet (c.rcfg rf hb) c.desc c.desc k op now rf
      else subGet (c.rcfg rf hb) (queryShardLB (fresh c.cfg c.desc) st ident size period qnow).1 k op now := by
    unfold getOnShardLB queryShardLB
    rw [hcfg, (fresh_fields c.cfg c.desc).2.2.2.2, hself]
    simp only [lookupAssoc, (fresh_fields c.cfg c.desc).1, (fresh_fields c.cfg c.desc).2.1]
    split <;> rfl
  rw [hf, ← hq]
  unfold getOnShardLB queryShardLB
  simp only
  cases hl : lookupAssoc (⟨ident, size, period⟩ : LKey) c.lbCache with
  | some e =>
    simp only
    by_cases hw : (decide (qnow - period < e.after) || decide (qnow - period > e.before)) = true
    · rw [if_pos hw]
      simp only
      split
      · exact readGet_of_key _ _ _ _ h.keyEq _ _ _ _
      · split <;> rfl
    · rw [if_neg hw]
      simp only
      simp only [Bool.or_eq_true, decide_eq_true_eq, not_or, Int.not_lt] at hw
      have hv := lookback_window_valid st c h ⟨ident, size, period⟩ e hl qnow hw.1 (by simp only; omega)
      rw [hv.1]
      simp
  | none =>
    simp only
    split
    · exact readGet_of_key _ _ _ _ h.keyEq _ _ _ _
    · split <;> rfl

/-! ### on a fresh client the reads are the models of C01 / C02 / C14 -/

theorem rwalk_fresh (cfg : C01.Cfg) (d : Desc) (hd : Canon d) (zones : List String) (target : Nat) (op : C01.Op) :
    ∀ (toks : List Nat) (st : C01.WalkSt),
    rwalk cfg (ownerInfo d) (C01.zoneTotal d) d zones target op toks st = C01.walk cfg d zones target op toks st := by
  intro toks
  induction toks with
  | nil => intro st; rfl
  | cons t rest ih =>
    intro st
    unfold rwalk C01.walk
    split
    · rfl
    · split
      · rfl
      · have ho : ownerInfo d t = (C01.tokenInfo d t).map fun i => (i.id, i.zone) := rfl
        rw [ho]
        cases hi : C01.tokenInfo d t with
        | none => rfl
        | some inst =>
          simp only [Option.map_some]
          have hmem : inst ∈ d := List.mem_of_find?_eq_some hi
          have hg : d.get? inst.id = some inst := get?_of_mem d hd inst hmem
          rw [hg]
          simp only [Option.getD_some]
          split
          · exact ih st
          · split
            · rfl
            · split
              · exact ih st
              · exact congrArg (Except.map (fun x => inst :: x)) (ih (C01.WalkSt.select cfg op inst st))

theorem readGet_fresh (cfg : C01.Cfg) (d : Desc) (hd : Canon d) (k : Nat) (op : C01.Op) (now rfCall : Int) :
    readGet cfg d d k op now rfCall = C01.getWith cfg d (C01.sortedTokens d) k op now rfCall := by
  unfold readGet C01.getWith C01.findInstancesForKey
  simp only
  split
  · rfl
  · generalize (if rfCall ≤ 0 ∨ rfCall < (cfg.rf : Int) then cfg.rf else rfCall.toNat) = rf
    by_cases hgt : rf > cfg.rf
    · rw [if_pos hgt, if_pos hgt]
    · rw [if_neg hgt, if_neg hgt]
      by_cases h0 : cfg.rf = 0
      · rw [if_pos h0, if_pos h0]; rfl
      · rw [if_neg h0, if_neg h0, rwalk_fresh cfg d hd]

theorem readAll_fresh (cfg : C01.Cfg) (d : Desc) (op : C01.Op) (now : Int) :
    readAll cfg d d op now = C02.getAll cfg d (C01.sortedTokens d) op now := rfl

theorem readRanges_fresh (cfg : C01.Cfg) (d : Desc) (id : String) :
    readRanges cfg d d id = C14.rangesForInstance d cfg.zoneAware cfg.rf id := rfl

end PfC13
