import Proofs.C13.Equiv
/-!
# C13 — partition-ring client: the plain shard cache never changes an answer
-/
namespace PfC13
open Ring C12 C13

inductive PStep
  | upd (ps : List Part)
  | qS (ident : String) (size : Int)
  | qL (ident : String) (size period now : Int)
  | evict (keepK : Key → Bool) (keepL : LKey → Bool)   -- the LRU storage drops any entries (size > 0)

theorem lookup_filter {κ β : Type} [DecidableEq κ] (q : κ → Bool) (k : κ) : ∀ (l : List (κ × β)) (v : β),
    lookupAssoc k (l.filter fun e => q e.1) = some v → lookupAssoc k l = some v := by
  intro l
  induction l with
  | nil => intro v h; simp [lookupAssoc] at h
  | cons a l ih =>
    intro v h
    obtain ⟨ka, va⟩ := a
    rw [List.filter_cons] at h
    by_cases hq : q ka = true
    · simp only [hq, if_true, lookupAssoc] at h ⊢
      by_cases e : ka = k
      · rw [if_pos e] at h ⊢; exact h
      · rw [if_neg e] at h ⊢; exact ih v h
    · simp only [hq, Bool.false_eq_true, if_false] at h
      have := ih v h
      simp only [lookupAssoc]
      by_cases e : ka = k
      · -- the dropped head has key k: then k itself is dropped everywhere, contradiction with `h`
        exfalso
        subst e
        have hnone : ∀ l' : List (κ × β), lookupAssoc ka (l'.filter fun e => q e.1) = none := by
          intro l'
          induction l' with
          | nil => rfl
          | cons b l' ih' =>
            obtain ⟨kb, vb⟩ := b
            rw [List.filter_cons]
            by_cases hqb : q kb = true
            · simp only [hqb, if_true, lookupAssoc]
              have : kb ≠ ka := fun e' => hq (e' ▸ hqb)
              rw [if_neg this]; exact ih'
            · simp only [hqb, Bool.false_eq_true, if_false]; exact ih'
        rw [hnone l] at h; cases h
      · rw [if_neg e]; exact this


def pstepC (st : PStreams) (c : PClient) : PStep → PClient
  | .upd ps => pupdate c ps
  | .qS i s => (pqueryShard c st i s).2
  | .qL i s p n => (pqueryShardLB c st i s p n).2
  | .evict kK kL => { c with cache := c.cache.filter (fun e => kK e.1), lbCache := c.lbCache.filter (fun e => kL e.1) }

def prun (st : PStreams) (c : PClient) (steps : List PStep) : PClient := steps.foldl (pstepC st) c

def plast : List PStep → List Part → List Part
  | [], d => d
  | .upd d :: rest, _ => plast rest d
  | _ :: rest, d => plast rest d

def PInv (st : PStreams) (c : PClient) : Prop :=
  ∀ k ids, lookupAssoc k c.cache = some ids → ids = pshard c.parts (st k.ident) k.size 0 0

theorem pite_fields (b : Bool) (c c2 : PClient) (h : c2.parts = c.parts ∧ c2.cache = c.cache) :
    (if b = true then c2 else c).parts = c.parts ∧ (if b = true then c2 else c).cache = c.cache := by
  cases b
  · exact ⟨rfl, rfl⟩
  · exact h

theorem pqueryShardLB_fields (st : PStreams) (c : PClient) (ident : String) (size period now : Int) :
    (pqueryShardLB c st ident size period now).2.parts = c.parts ∧
    (pqueryShardLB c st ident size period now).2.cache = c.cache := by
  unfold pqueryShardLB
  simp only
  split
  · exact ⟨rfl, rfl⟩
  · exact pite_fields _ c _ ⟨rfl, rfl⟩

theorem pinv_step (st : PStreams) (c : PClient) (h : PInv st c) (s : PStep) :
    PInv st (pstepC st c s) ∧ (pstepC st c s).parts = (match s with | .upd ps => ps | _ => c.parts) := by
  cases s with
  | upd ps => exact ⟨fun k ids hk => by simp [pstepC, pupdate, lookupAssoc] at hk, rfl⟩
  | qS i sz =>
    simp only [pstepC]
    unfold pqueryShard
    simp only
    cases hl : lookupAssoc (⟨i, sz⟩ : Key) c.cache with
    | some ids => exact ⟨h, rfl⟩
    | none =>
      refine ⟨?_, rfl⟩
      intro k ids hk
      simp only at hk
      rw [lookup_setAssoc] at hk
      by_cases e : k = ⟨i, sz⟩
      · rw [if_pos e] at hk; cases hk; subst e; rfl
      · rw [if_neg e] at hk; exact h k ids hk
  | qL i sz p n =>
    simp only [pstepC]
    have hf := pqueryShardLB_fields st c i sz p n
    refine ⟨?_, hf.1⟩
    intro k ids hk
    rw [hf.2] at hk
    rw [hf.1]
    exact h k ids hk
  | evict kK kL =>
    refine ⟨?_, rfl⟩
    intro k ids hk
    exact h k ids (lookup_filter kK k c.cache ids hk)

theorem pinv_run (st : PStreams) : ∀ (steps : List PStep) (c : PClient), PInv st c →
    PInv st (prun st c steps) ∧ (prun st c steps).parts = plast steps c.parts := by
  intro steps
  induction steps with
  | nil => intro c h; exact ⟨h, rfl⟩
  | cons s steps ih =>
    intro c h
    have hs := pinv_step st c h s
    have := ih _ hs.1
    unfold prun at this ⊢
    rw [List.foldl_cons]
    refine ⟨this.1, ?_⟩
    rw [this.2, hs.2]
    cases s <;> rfl

theorem pqueryShard_equiv (st : PStreams) (c : PClient) (h : PInv st c) (ident : String) (size : Int) :
    (pqueryShard c st ident size).1 = pshard c.parts (st ident) size 0 0 := by
  unfold pqueryShard
  simp only
  cases hl : lookupAssoc (⟨ident, size⟩ : Key) c.cache with
  | some ids => exact h _ ids hl
  | none => rfl

end PfC13
