import Proofs.C12.Tokens
/-!
# C12 — partition ring: without look-back only ACTIVE partitions of the ring are selected
-/
namespace PfC12
open C12

/-- every selected id is the id of an ACTIVE partition met on some walk. -/
def PGood (D : List Part) (st : PSt) : Prop := ∀ id ∈ st.result, ∃ p ∈ D, p.id = id ∧ p.state = .active

theorem pwalk_good (D : List Part) (til : Int) : ∀ (w : List Part) (st : PSt), (∀ p ∈ w, p ∈ D) → PGood D st →
    PGood D (pwalk false til w st).1 := by
  intro w
  induction w with
  | nil => intro st _ h; exact h
  | cons p rest ih =>
    intro st hw h
    have hrest : ∀ q ∈ rest, q ∈ D := fun q hq => hw q (List.mem_cons_of_mem _ hq)
    unfold pwalk
    split
    · exact ih st hrest h
    · split
      · exact ih st hrest h
      · split
        · exact ih _ hrest h
        · simp only [Bool.false_and, Bool.or_false, Bool.false_eq_true, if_false, Bool.not_false, Bool.and_true]
          by_cases ha : (p.state == PState.active) = true
          · rw [if_pos ha]
            simp only [ha, if_true]
            intro id hid
            rcases List.mem_cons.mp hid with rfl | hid
            · exact ⟨p, hw p List.mem_cons_self, rfl, by simpa using ha⟩
            · exact h id hid
          · rw [if_neg ha]
            simp only [ha, Bool.false_eq_true, if_false]
            exact ih _ hrest h

theorem ploop_good (D : List Part) (til : Int) (toks : List (Nat × Part)) (ht : ∀ p ∈ toks.map (·.2), p ∈ D)
    (starts : Nat → Nat) : ∀ fuel i (st : PSt), PGood D st → PGood D (ploop false til toks starts fuel i st) := by
  intro fuel
  induction fuel with
  | zero => intro i st h; exact h
  | succ fuel ih =>
    intro i st h
    unfold ploop
    split
    · simp only
      have hw : ∀ p ∈ walkOrder toks (starts i), p ∈ D := fun p hp => ht p ((mem_walkOrder _ _ _).mp hp)
      have := pwalk_good D til _ st hw h
      split
      · exact ih _ _ this
      · exact this
    · exact h

theorem mem_partTokens (ps : List Part) (p : Part) : p ∈ (partTokens ps).map (·.2) → p ∈ ps := by
  intro h
  obtain ⟨⟨t, q⟩, hq, rfl⟩ := List.mem_map.mp h
  unfold partTokens at hq
  rw [List.mem_mergeSort] at hq
  obtain ⟨r, hr, hr2⟩ := List.mem_flatMap.mp hq
  obtain ⟨t', _, e⟩ := List.mem_map.mp hr2
  cases e; exact hr

/-- **partition shard without look-back**: members are partitions of the ring, all ACTIVE
(ids of the partitions distinct, as map keys are). -/
theorem pshard_active_only (ps : List Part) (hid : ∀ p ∈ ps, ∀ q ∈ ps, p.id = q.id → p = q)
    (starts : Nat → Nat) (size now : Int) :
    ∀ id ∈ pshard ps starts size 0 now, ∃ p ∈ ps, p.id = id ∧ p.state = .active := by
  intro id hmem
  unfold pshard at hmem
  simp only at hmem
  obtain ⟨q, hq, rfl⟩ := List.mem_map.mp hmem
  have hq' := List.mem_filter.mp hq
  have hd : (decide ((0 : Int) > 0)) = false := by decide
  rw [hd] at hq'
  have hgood : ∀ (n : Nat), PGood ps (ploop false (if (0 : Int) > 0 then now - 0 else 0) (partTokens ps) starts
      (ps.length + 1) 0 ⟨[], [], n⟩) := fun n =>
    ploop_good ps _ (partTokens ps) (mem_partTokens ps) starts (ps.length + 1) 0 ⟨[], [], n⟩
      (fun (id : Int) (h : id ∈ ([] : List Int)) => by cases h)
  have hc := hq'.2
  simp only [List.contains_iff_mem] at hc
  obtain ⟨p, hp, hpid, hact⟩ := hgood _ q.id hc
  have : p = q := hid p hp q hq'.1 hpid
  subst this
  exact ⟨p, hp, rfl, hact⟩

end PfC12
