import Proofs.C12.Abs
/-!
# C12 — counting arguments: whole-zone shortcut, shard size
-/
namespace PfC12
variable {α : Type} [DecidableEq α]

/-- number of elements of `Z` that are in `S`. -/
def cnt (Z S : List α) : Nat := (Z.filter (fun z => decide (z ∈ S))).length

theorem cnt_le (Z S : List α) : cnt Z S ≤ Z.length := List.length_filter_le _ _

theorem cnt_full (Z S : List α) (h : cnt Z S = Z.length) : ∀ z ∈ Z, z ∈ S := by
  intro z hz
  have := (List.length_filter_eq_length_iff).mp h z hz
  simpa using this

theorem cnt_cons_new (Z : List α) (hZ : Z.Nodup) (a : α) (S : List α) (ha : a ∈ Z) (hS : a ∉ S) :
    cnt Z (a :: S) = cnt Z S + 1 := by
  induction Z with
  | nil => cases ha
  | cons b Z ih =>
    have hb : b ∉ Z := (List.nodup_cons.mp hZ).1
    have hZ' : Z.Nodup := (List.nodup_cons.mp hZ).2
    unfold cnt at ih ⊢
    by_cases hba : b = a
    · subst hba
      have e1 : decide (b ∈ b :: S) = true := by simp
      have e2 : decide (b ∈ S) = false := by simp [hS]
      rw [List.filter_cons, List.filter_cons, e1, e2]
      simp only [if_true, Bool.false_eq_true, if_false, List.length_cons]
      congr 1
      apply congrArg
      apply List.filter_congr
      intro z hz
      have : z ≠ b := fun h => hb (h ▸ hz)
      simp [this]
    · have ha' : a ∈ Z := by
        rcases List.mem_cons.mp ha with h | h
        · exact absurd h.symm hba
        · exact h
      have e : decide (b ∈ a :: S) = decide (b ∈ S) := by simp [hba]
      rw [List.filter_cons, List.filter_cons, e]
      by_cases hbS : b ∈ S
      · simp only [hbS, decide_true, if_true, List.length_cons]
        have := ih hZ' ha'
        omega
      · simp only [hbS, decide_false, Bool.false_eq_true, if_false]
        exact ih hZ' ha'

theorem cnt_append_new (Z : List α) (hZ : Z.Nodup) (S : List α) : ∀ l : List α, l.Nodup →
    (∀ x ∈ l, x ∈ Z ∧ x ∉ S) → cnt Z (l ++ S) = cnt Z S + l.length := by
  intro l
  induction l with
  | nil => intro _ _; simp
  | cons a l ih =>
    intro nd h
    have nd' := List.nodup_cons.mp nd
    have h1 := ih nd'.2 (fun x hx => h x (List.mem_cons_of_mem _ hx))
    have ha := h a List.mem_cons_self
    have : a ∉ l ++ S := by
      intro hm
      rcases List.mem_append.mp hm with hm | hm
      · exact nd'.1 hm
      · exact ha.2 hm
    rw [List.cons_append, cnt_cons_new Z hZ a (l ++ S) ha.1 this, h1]
    simp; omega

/-- **whole-zone shortcut = walk**: if the number of iterations is at least the number of (not yet
selected) instances of the zone, the walk selects every includable instance of the zone. -/
theorem apicks_all (incl ext : α → Bool) (W : Nat → List α) (Z : List α) (hZ : Z.Nodup)
    (hW : ∀ i x, x ∈ W i ↔ x ∈ Z) : ∀ n i sel, Z.length ≤ n + cnt Z sel →
    ∀ x ∈ Z, incl x = true → x ∈ apicks incl ext W n i sel := by
  intro n
  induction n with
  | zero =>
    intro i sel h x hx _
    have : cnt Z sel = Z.length := by have := cnt_le Z sel; omega
    simpa [apicks] using cnt_full Z sel this x hx
  | succ n ih =>
    intro i sel h x hx hi
    unfold apicks
    simp only
    obtain ⟨l, e, hl, nd, hf⟩ := awalk_spec incl ext (W i) sel
    split
    · rename_i hfound
      apply ih _ _ _ x hx hi
      rw [e, cnt_append_new Z hZ sel l nd (fun y hy => ⟨(hW i y).mp (hl y hy).1, (hl y hy).2.2⟩)]
      have : l.length ≥ 1 := by
        have := hf hfound
        cases l with
        | nil => exact absurd rfl this
        | cons _ _ => simp
      omega
    · rename_i hnf
      have hnf' : (awalk incl ext (W i) sel).2 = false := by simpa using hnf
      exact awalk_not_found incl ext (W i) sel hnf' x ((hW i x).mpr hx) hi

/-! ### plain walk (no look-back): the first eligible element not yet selected -/

def noExt : α → Bool := fun _ => false

theorem awalk_plain (el : α → Bool) (w : List α) : ∀ sel : List α,
    awalk el noExt w sel =
      match w.find? (fun y => el y && decide (y ∉ sel)) with
      | some y => (y :: sel, true)
      | none => (sel, false) := by
  induction w with
  | nil => intro sel; simp [awalk]
  | cons a rest ih =>
    intro sel
    unfold awalk
    by_cases h1 : a ∈ sel
    · rw [if_pos h1, ih sel]
      have : (el a && decide (a ∉ sel)) = false := by simp [h1]
      rw [List.find?_cons, this]
    · rw [if_neg h1]
      by_cases h2 : el a = true
      · have e : (!el a) = false := by simp [h2]
        rw [e]
        have : (el a && decide (a ∉ sel)) = true := by simp [h1, h2]
        rw [List.find?_cons, this]
        simp [noExt]
      · have e : (!el a) = true := by simp [h2]
        rw [e, if_pos rfl, ih sel]
        have : (el a && decide (a ∉ sel)) = false := by simp [h2]
        rw [List.find?_cons, this]

/-- **shard size**: the number of eligible zone instances selected after `n` iterations is
`min n (eligible instances)` (starting with none of them selected). -/
theorem apicks_plain_cnt (el : α → Bool) (W : Nat → List α) (E : List α) (hE : E.Nodup)
    (hW : ∀ i x, x ∈ E ↔ (x ∈ W i ∧ el x = true)) : ∀ n i sel,
    cnt E (apicks el noExt W n i sel) = min (cnt E sel + n) E.length := by
  intro n
  induction n with
  | zero => intro i sel; have := cnt_le E sel; simp [apicks]; omega
  | succ n ih =>
    intro i sel
    unfold apicks
    simp only
    rw [awalk_plain]
    cases hfind : (W i).find? (fun y => el y && decide (y ∉ sel)) with
    | some y =>
      simp only [if_true]
      rw [ih]
      have hy := List.find?_some hfind
      have hyw := List.mem_of_find?_eq_some hfind
      simp only [Bool.and_eq_true, decide_eq_true_eq] at hy
      rw [cnt_cons_new E hE y sel ((hW i y).mpr ⟨hyw, hy.1⟩) hy.2]
      omega
    | none =>
      simp only [Bool.false_eq_true, if_false]
      have hall : ∀ z ∈ E, z ∈ sel := by
        intro z hz
        have hz' := (hW i z).mp hz
        have := List.find?_eq_none.mp hfind z hz'.1
        simp only [Bool.and_eq_true, decide_eq_true_eq, not_and, Decidable.not_not] at this
        exact this hz'.2
      have : cnt E sel = E.length := by
        unfold cnt
        apply List.length_filter_eq_length_iff.mpr
        intro z hz; simpa using hall z hz
      omega

end PfC12
