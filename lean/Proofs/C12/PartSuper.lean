import Proofs.C12.PartRemove
import Proofs.C12.SuperRO
/-!
# C12 — partition ring: the look-back shard covers the plain shards of the window

Earlier ring `(ps.filter keep).map g`: `keep` drops the partitions added inside the window, `g` gives
every partition its earlier state (only `state` / `stateTs` may differ).
-/
namespace PfC12
open C12

structure StateOnly (g : Part → Part) : Prop where
  id : ∀ p, (g p).id = p.id
  tokens : ∀ p, (g p).tokens = p.tokens

def gpP (g : Part → Part) : Nat × Part → Nat × Part := fun p => (p.1, g p.2)

theorem partTokens_map (g : Part → Part) (hg : StateOnly g) (l : List Part) :
    partTokens (l.map g) = (partTokens l).map (gpP g) := by
  have hp : ∀ l : List Part, (List.flatMap (fun p : Part => List.map (fun t => (t, p)) p.tokens) (l.map g)) =
      (List.flatMap (fun p : Part => List.map (fun t => (t, p)) p.tokens) l).map (gpP g) := by
    intro l
    induction l with
    | nil => rfl
    | cons a l ih =>
      simp only [List.map_cons, List.flatMap_cons, List.map_append, ih, hg.tokens, List.map_map]
      rfl
  unfold partTokens
  rw [hp]
  exact (List.map_mergeSort (r := ptokLe) (s := ptokLe) (f := gpP g) (fun a _ b _ => rfl)).symm

theorem walkOrder_mapP (g : Part → Part) (toks : List (Nat × Part)) (u : Nat) :
    walkOrder (toks.map (gpP g)) u = (walkOrder toks u).map g := by
  unfold walkOrder rotate
  rw [searchToken_map (gpP g) (fun _ => rfl)]
  simp only [List.map_append, List.map_map, List.map_drop, List.map_take]
  rfl

theorem PW_map (g : Part → Part) (hg : StateOnly g) (l : List Part) (starts : Nat → Nat) :
    PW (l.map g) starts = fun i => (PW l starts i).map g := by
  funext i
  unfold PW
  rw [partTokens_map g hg, walkOrder_mapP]

theorem PWF.map {ps : List Part} (h : PWF ps) (g : Part → Part) (hg : StateOnly g) : PWF (ps.map g) := by
  unfold PWF at *
  have : (ps.map g).map (·.id) = ps.map (·.id) := by
    rw [List.map_map]; apply List.map_congr_left; intro a _; exact hg.id a
  rw [this]; exact h

/-- **partition look-back superset**: every id of the plain shard of the earlier ring is an id of the
look-back shard of the present ring. -/
theorem pshard_lookback_superset (ps : List Part) (h : PWF ps) (ht : PAllTok ps) (htn : PTokNodup ps)
    (starts : Nat → Nat) (size period now now' : Int) (hperiod : 0 < period)
    (keep : Part → Bool) (hJ : ∀ x, keep x = false → x.stateTs ≥ now - period)
    (g : Part → Part) (hg : StateOnly g) (hK : ∀ x, (g x).state ≠ x.state → x.stateTs ≥ now - period)
    (hP : ∀ x, (g x).state = PState.active → x.state ≠ PState.pending) :
    ∀ id ∈ pshard ((ps.filter keep).map g) starts size 0 now', id ∈ pshard ps starts size period now := by
  intro id hid
  have hτ : PWF ((ps.filter keep).map g) := (h.filter keep).map g hg
  rw [mem_pshard _ hτ.idInj, psel_plain] at hid
  rw [mem_pshard ps h.idInj]
  obtain ⟨m', hm', rfl⟩ := hid
  -- transport along g
  have ginj : ∀ a ∈ ps, ∀ b ∈ ps, g a = g b → a = b := by
    intro a ha b hb e
    apply h.idInj a ha b hb
    rw [← hg.id a, ← hg.id b, e]
  unfold pplain at hm'
  rw [PW_map g hg, PW_filter ps htn keep starts] at hm'
  have hmap := apicks_map g (fun p : Part => p.state == PState.active) noExt (fun i => (PW ps starts i).filter keep) ps ginj
    (fun i a ha => ((mem_PW ps starts i a).mp (List.mem_filter.mp ha).1).1) (psize ((ps.filter keep).map g) size) 0 [] (by simp)
  simp only [List.map_nil] at hmap
  rw [hmap] at hm'
  obtain ⟨m, hmw, rfl⟩ := List.mem_map.mp hm'
  have hne : (fun a : Part => noExt (g a)) = (noExt : Part → Bool) := by funext a; rfl
  rw [hne] at hmw
  refine ⟨m, ?_, (hg.id m).symm⟩
  -- abstract hypotheses
  have hon : decide (period > 0) = true := by simp [hperiod]
  have htil : ptil period now = now - period := by simp [ptil, hperiod]
  let el' : Part → Bool := fun a => (g a).state == PState.active
  have h1 : ∀ x, keep x = true → el' x = true → pincl true (now - period) x = true := by
    intro x _ hx
    have hx' : (g x).state = PState.active := by simpa [el'] using hx
    have hnp := hP x hx'
    by_cases hs : x.state = PState.active
    · simp [pincl, hs]
    · have := hK x (by rw [hx']; exact fun e => hs e.symm)
      have hnp' : (x.state == PState.pending) = false := by simpa using hnp
      simp [pincl, pwithin, hnp', this]
  have h2 : ∀ x, pincl true (now - period) x = true → pwithin true (now - period) x = false →
      keep x = true ∧ el' x = true := by
    intro x hi hw
    have hlt : ¬ x.stateTs ≥ now - period := by simpa [pwithin] using hw
    refine ⟨?_, ?_⟩
    · cases hk : keep x with
      | true => rfl
      | false => exact absurd (hJ x hk) hlt
    · have hact : x.state = PState.active := by
        simp only [pincl, hw, Bool.or_false, Bool.and_eq_true, Bool.not_eq_true', beq_iff_eq] at hi
        exact hi.2
      show ((g x).state == PState.active) = true
      by_cases e : (g x).state = x.state
      · rw [e, hact]; rfl
      · exact absurd (hK x e) hlt
  have hmem : m ∈ ps ∧ keep m = true ∧ el' m = true := by
    rcases apicks_mem _ _ _ _ _ _ m hmw with h0 | ⟨⟨j, hj⟩, hi⟩
    · cases h0
    · have hj' := List.mem_filter.mp hj
      exact ⟨((mem_PW ps starts j m).mp hj'.1).1, hj'.2, hi⟩
  unfold psel
  rw [hon, htil]
  by_cases hall : size ≤ 0 ∨ size ≥ (ps.length : Int)
  · -- the present query selects every includable partition
    have hn : psize ps size = ps.length := by
      unfold psize
      have : (decide (size ≤ 0) || decide (size ≥ (ps.length : Int))) = true := by simpa using hall
      rw [if_pos this]
    rw [hn]
    exact apicks_all _ _ (PW ps starts) ps h.nodup (fun i x => by
      rw [mem_PW]; exact ⟨fun hx => hx.1, fun hx => ⟨hx, ht x hx⟩⟩) ps.length 0 [] (by omega) m hmem.1
      (h1 m hmem.2.1 hmem.2.2)
  · have hsz : 0 < size ∧ size < (ps.length : Int) := by omega
    have hn : psize ps size = size.toNat := by
      unfold psize
      have : ¬ (decide (size ≤ 0) || decide (size ≥ (ps.length : Int))) = true := by simpa using hall
      rw [if_neg this]
    have hnτ : psize ((ps.filter keep).map g) size ≤ size.toNat := by
      unfold psize
      split
      · rename_i hc
        simp only [Bool.or_eq_true, decide_eq_true_eq] at hc
        omega
      · exact Nat.le_refl _
    rw [hn]
    have hm2 := apicks_mono_le _ _ _ 0 [] _ _ hnτ m hmw
    exact apicks_lb_superset _ _ el' keep (PW ps starts) h1 h2 (PW_same ps starts) _ 0 [] [] (by simp) m hm2

end PfC12
