import Proofs.C12.Tokens
/-!
# C12 — the token-list lemmas of `Tokens.lean` for an arbitrary element type with a token projection
(used for partitions); mechanical copy with `tk : β → List Nat` in place of `CInst.tokens`.
-/
namespace PfC12
open C12

section
variable {β : Type} (tk : β → List Nat)

def pairsG (l : List β) : List (Nat × β) := l.flatMap fun i => (tk i).map fun t => (t, i)
def leG : Nat × β → Nat × β → Bool := fun a b => decide (a.1 ≤ b.1)
def ownedG (l : List β) : List (Nat × β) := (pairsG tk l).mergeSort leG

theorem ownedG_def (l : List β) : ownedG tk l = (pairsG tk l).mergeSort leG := rfl

theorem leG_trans : ∀ (a b c : Nat × β), leG a b = true → leG b c = true → leG a c = true := by
  intro a b c; simp [leG]; omega
theorem leG_total : ∀ (a b : Nat × β), (leG a b || leG b a) = true := by
  intro a b; simp [leG]; omega

theorem mem_pairsG (l : List β) (t : Nat) (i : β) : (t, i) ∈ pairsG tk l ↔ i ∈ l ∧ t ∈ tk i := by
  unfold pairsG
  simp only [List.mem_flatMap, List.mem_map, Prod.mk.injEq]
  constructor
  · rintro ⟨j, hj, t', ht', rfl, rfl⟩; exact ⟨hj, ht'⟩
  · rintro ⟨hi, ht⟩; exact ⟨i, hi, t, ht, rfl, rfl⟩

theorem mem_ownedG (l : List β) (t : Nat) (i : β) : (t, i) ∈ ownedG tk l ↔ i ∈ l ∧ t ∈ tk i := by
  rw [ownedG_def tk, List.mem_mergeSort, mem_pairsG tk]

theorem mem_ownersG (l : List β) (x : β) : x ∈ (ownedG tk l).map (·.2) ↔ x ∈ l ∧ tk x ≠ [] := by
  simp only [List.mem_map]
  constructor
  · rintro ⟨⟨t, i⟩, h, rfl⟩
    have := (mem_ownedG tk l t i).mp h
    exact ⟨this.1, List.ne_nil_of_mem this.2⟩
  · rintro ⟨hx, hne⟩
    obtain ⟨t, ht⟩ := List.exists_mem_of_ne_nil _ hne
    exact ⟨(t, x), (mem_ownedG tk l t x).mpr ⟨hx, ht⟩, rfl⟩

theorem pairsG_map_fst (l : List β) : (pairsG tk l).map (·.1) = l.flatMap tk := by
  unfold pairsG
  induction l with
  | nil => rfl
  | cons a l ih =>
    simp only [List.flatMap_cons, List.map_append, ih]
    congr 1
    simp [Function.comp_def]

theorem pairsG_filter (q : β → Bool) (l : List β) : pairsG tk (l.filter q) = (pairsG tk l).filter (fun p => q p.2) := by
  unfold pairsG
  induction l with
  | nil => rfl
  | cons a l ih =>
    rw [List.filter_cons]
    by_cases hq : q a = true
    · rw [if_pos hq, List.flatMap_cons, List.flatMap_cons, List.filter_append, ih]
      congr 1
      symm; apply List.filter_eq_self.mpr
      intro p hp
      obtain ⟨t, _, rfl⟩ := List.mem_map.mp hp
      exact hq
    · rw [if_neg hq, List.flatMap_cons, List.filter_append, ih]
      have : List.filter (fun p => q p.2) (List.map (fun t => (t, a)) (tk a)) = [] := by
        apply List.filter_eq_nil_iff.mpr
        intro p hp
        obtain ⟨t, _, rfl⟩ := List.mem_map.mp hp
        exact hq
      rw [this]; rfl

/-- globally unique tokens -/
def TokNodupG (l : List β) : Prop := (l.flatMap tk).Nodup

theorem TokNodupG.filter {l : List β} (h : TokNodupG tk l) (q : β → Bool) : TokNodupG tk (l.filter q) := by
  unfold TokNodupG at *
  rw [← pairsG_map_fst tk, pairsG_filter tk]
  rw [← pairsG_map_fst tk] at h
  exact List.Nodup.sublist (List.Sublist.map _ List.filter_sublist) h

theorem sortedKeysG_of_pairwise_le {l : List (Nat × β)} (hp : l.Pairwise (fun a b => leG a b = true))
    (nd : (l.map (·.1)).Nodup) : SortedKeys l := by
  unfold SortedKeys
  induction l with
  | nil => exact List.Pairwise.nil
  | cons a l ih =>
    have hp' := List.pairwise_cons.mp hp
    rw [List.map_cons] at nd
    have nd' := List.nodup_cons.mp nd
    refine List.pairwise_cons.mpr ⟨?_, ih hp'.2 nd'.2⟩
    intro b hb
    have h1 := hp'.1 b hb
    simp only [leG, decide_eq_true_eq] at h1
    have : a.1 ≠ b.1 := fun e => nd'.1 (e ▸ List.mem_map_of_mem hb)
    omega

theorem ownedG_sorted (l : List β) (h : TokNodupG tk l) : SortedKeys (ownedG tk l) := by
  apply sortedKeysG_of_pairwise_le
  · exact List.pairwise_mergeSort leG_trans leG_total _
  · rw [ownedG_def tk]
    have : (List.map (·.1) ((pairsG tk l).mergeSort leG)).Perm ((pairsG tk l).map (·.1)) :=
      (List.mergeSort_perm _ _).map _
    rw [this.nodup_iff, pairsG_map_fst tk]; exact h

/-- removing instances from the ring removes exactly their tokens from the sorted token list. -/
theorem ownedG_filter (q : β → Bool) (l : List β) (h : TokNodupG tk l) :
    ownedG tk (l.filter q) = (ownedG tk l).filter (fun p => q p.2) := by
  have hs1 : (ownedG tk (l.filter q)).Pairwise (fun a b => leG a b = true) :=
    List.pairwise_mergeSort leG_trans leG_total _
  have hs2 : ((ownedG tk l).filter (fun p => q p.2)).Pairwise (fun a b => leG a b = true) :=
    List.Pairwise.sublist List.filter_sublist (List.pairwise_mergeSort leG_trans leG_total _)
  have hperm : (ownedG tk (l.filter q)).Perm ((ownedG tk l).filter (fun p => q p.2)) := by
    rw [ownedG_def tk, ownedG_def tk, pairsG_filter tk]
    exact (List.mergeSort_perm _ _).trans ((List.mergeSort_perm _ _).filter _).symm
  refine List.Perm.eq_of_pairwise ?_ hs1 hs2 hperm
  intro a b ha hb h1 h2
  simp only [leG, decide_eq_true_eq] at h1 h2
  have hk : a.1 = b.1 := by omega
  -- both are pairs of the big ring: equal tokens means equal pairs
  have ha' : a ∈ ownedG tk l := by
    have := (List.mem_filter.mp (hperm.mem_iff.mp ha)).1; exact this
  have hb' : b ∈ ownedG tk l := (List.mem_filter.mp hb).1
  have hsorted := ownedG_sorted tk l h
  have hnd : ((ownedG tk l).map (·.1)).Nodup := by
    have : (List.map (·.1) (ownedG tk l)).Perm ((pairsG tk l).map (·.1)) := by
      rw [ownedG_def tk]; exact (List.mergeSort_perm _ _).map _
    rw [this.nodup_iff, pairsG_map_fst tk]; exact h
  exact nodup_map_inj (·.1) _ hnd a ha' b hb' hk

theorem walkOrderG_filter (q : β → Bool) (l : List β) (h : TokNodupG tk l) (u : Nat) :
    walkOrder (ownedG tk (l.filter q)) u = (walkOrder (ownedG tk l) u).filter q := by
  rw [walkOrder_eq u _ (ownedG_sorted tk _ (TokNodupG.filter tk h q)), walkOrder_eq u _ (ownedG_sorted tk _ h),
    ownedG_filter tk q l h, List.filter_map]
  congr 1
  rw [List.filter_append]
  congr 1
  · rw [List.filter_filter, List.filter_filter]; apply List.filter_congr; intro p _; simp [Bool.and_comm]
  · rw [List.filter_filter, List.filter_filter]; apply List.filter_congr; intro p _; simp [Bool.and_comm]



end

end PfC12
