import Proofs.C12.PartSuper
import Proofs.C12.Toggle
/-!
# C12 — partition ring: additions, several removals, a state change, and the look-back window
-/
namespace PfC12
open C12

def notInP (L : List Part) : Part → Bool := fun y => !L.contains y

theorem filter_notInP_cons (r : List Part) (x : Part) (L : List Part) :
    r.filter (notInP (x :: L)) = (r.filter (neqP x)).filter (notInP L) := by
  rw [List.filter_filter]
  apply List.filter_congr
  intro a _
  simp only [notInP, neqP, List.contains_cons, Bool.not_or]
  by_cases h : a = x
  · subst h; simp
  · have : (a == x) = false := by simpa using h
    simp [this, h]

theorem PTokNodup.filter {ps : List Part} (h : PTokNodup ps) (q : Part → Bool) : PTokNodup (ps.filter q) :=
  TokNodupG.filter _ h q

/-- partitions removed one after the other: an id that was selected and was not removed stays selected. -/
theorem pshard_remove_many (starts : Nat → Nat) (size now : Int) : ∀ (L ps : List Part), PWF ps → PAllTok ps → PTokNodup ps →
    ∀ id ∈ pshard ps starts size 0 now, (∀ x ∈ L, x.id ≠ id) → id ∈ pshard (ps.filter (notInP L)) starts size 0 now := by
  intro L
  induction L with
  | nil =>
    intro ps _ _ _ id hid _
    have : ps.filter (notInP []) = ps := by apply List.filter_eq_self.mpr; intro x _; simp [notInP]
    rw [this]; exact hid
  | cons x L ih =>
    intro ps h ht htn id hid hne
    rw [filter_notInP_cons]
    have hxid : id ≠ x.id := fun e => hne x List.mem_cons_self e.symm
    have hstep : id ∈ pshard (ps.filter (neqP x)) starts size 0 now := by
      by_cases hx : x ∈ ps
      · obtain ⟨_, Z, _, _, hiff⟩ := pshard_remove_one ps h ht htn starts size now now x hx
        exact (hiff id).mpr (Or.inl ⟨hid, hxid⟩)
      · have : ps.filter (neqP x) = ps := by
          apply List.filter_eq_self.mpr; intro y hy; simp only [neqP, decide_eq_true_eq]; intro e; exact hx (e ▸ hy)
        rw [this]; exact hid
    exact ih _ (h.filter _) (ht.filter _) (htn.filter _) id hstep (fun y hy => hne y (List.mem_cons_of_mem _ hy))

/-- one partition added: read from the smaller ring `ps` to the larger ring `ps'` (`ps` = `ps'` without `x`). -/
theorem pshard_add_one (ps ps' : List Part) (h : PWF ps') (ht : PAllTok ps') (htn : PTokNodup ps') (starts : Nat → Nat)
    (size now now' : Int) (x : Part) (hx : x ∈ ps') (hps : ps = ps'.filter (neqP x)) :
    ∃ Z : List Int, Z.length ≤ 1 ∧ (∀ z ∈ Z, z ∉ pshard ps' starts size 0 now) ∧
      ∀ id, id ∈ pshard ps starts size 0 now' ↔ ((id ∈ pshard ps' starts size 0 now ∧ id ≠ x.id) ∨ id ∈ Z) := by
  subst hps
  exact (pshard_remove_one ps' h ht htn starts size now now' x hx).2

/-- **the partition look-back shard covers the window**: `rτ` is the partition ring at some moment of
the window; since then the partitions `L` were removed, the partitions dropped by `keep` were added and
states changed as described by `g`. Every id of the plain shard of that moment that was not removed
is an id of the look-back shard now. -/
theorem pshard_lookback_covers_window (ps : List Part) (h : PWF ps) (ht : PAllTok ps) (htn : PTokNodup ps)
    (starts : Nat → Nat) (size period now now' : Int) (hperiod : 0 < period)
    (rτ : List Part) (hrτ : PWF rτ) (htτ : PAllTok rτ) (htnτ : PTokNodup rτ) (L : List Part)
    (keep : Part → Bool) (hJ : ∀ x, keep x = false → x.stateTs ≥ now - period)
    (g : Part → Part) (hg : StateOnly g) (hK : ∀ x, (g x).state ≠ x.state → x.stateTs ≥ now - period)
    (hP : ∀ x, (g x).state = PState.active → x.state ≠ PState.pending)
    (hr : rτ.filter (notInP L) = (ps.filter keep).map g) :
    ∀ id ∈ pshard rτ starts size 0 now', (∀ x ∈ L, x.id ≠ id) → id ∈ pshard ps starts size period now := by
  intro id hid hne
  have h1 := pshard_remove_many starts size now' L rτ hrτ htτ htnτ id hid hne
  rw [hr] at h1
  exact pshard_lookback_superset ps h ht htn starts size period now now' hperiod keep hJ g hg hK hP id h1

/-! ### one partition changes its state -/

/-- `x` with another state (and state timestamp). -/
def setState (x : Part) (s : PState) (t : Int) : Part → Part :=
  fun y => if y = x then { x with state := s, stateTs := t } else y

theorem setState_stateOnly (x : Part) (s : PState) (t : Int) : StateOnly (setState x s t) := by
  refine ⟨?_, ?_⟩ <;> intro i <;> unfold setState <;> split <;> rename_i h <;> first | rfl | (rw [h])

/-- **one partition stops being ACTIVE** (ACTIVE → INACTIVE, or any change to a non-ACTIVE state): the
plain shard keeps its ids except `x.id` and gains at most one new id; unchanged if `x.id` was not in it.
(Read from right to left it is the activation of a partition.) -/
theorem pshard_deactivate_one (ps : List Part) (h : PWF ps) (starts : Nat → Nat) (size now now' : Int)
    (x : Part) (hx : x ∈ ps) (s : PState) (hs : s ≠ PState.active) (t : Int) :
    (x.id ∉ pshard ps starts size 0 now →
      ∀ id, id ∈ pshard (ps.map (setState x s t)) starts size 0 now' ↔ id ∈ pshard ps starts size 0 now) ∧
    ∃ Z : List Int, Z.length ≤ 1 ∧ (∀ z ∈ Z, z ∉ pshard ps starts size 0 now) ∧
      ∀ id, id ∈ pshard (ps.map (setState x s t)) starts size 0 now' ↔
        ((id ∈ pshard ps starts size 0 now ∧ id ≠ x.id) ∨ id ∈ Z) := by
  have hg := setState_stateOnly x s t
  have hinj := h.idInj
  have h' : PWF (ps.map (setState x s t)) := h.map _ hg
  have ginj : ∀ a ∈ ps, ∀ b ∈ ps, setState x s t a = setState x s t b → a = b := by
    intro a ha b hb e
    apply hinj a ha b hb
    rw [← hg.id a, ← hg.id b, e]
  have hsize : psize (ps.map (setState x s t)) size = psize ps size := by unfold psize; simp
  -- the selection in the changed ring, on the partitions of the old ring
  let T := apicks (fun y : Part => (y.state == PState.active) && decide (y ≠ x)) noExt (PW ps starts) (psize ps size) 0 []
  have hT : pplain (ps.map (setState x s t)) starts (psize (ps.map (setState x s t)) size) = T := by
    unfold pplain
    rw [hsize, PW_map _ hg]
    have hmap := apicks_map (setState x s t) (fun p : Part => p.state == PState.active) noExt (PW ps starts) ps ginj
      (fun i a ha => ((mem_PW ps starts i a).mp ha).1) (psize ps size) 0 [] (by simp)
    simp only [List.map_nil] at hmap
    rw [hmap]
    have hel : (fun a : Part => (setState x s t a).state == PState.active) =
        fun y : Part => (y.state == PState.active) && decide (y ≠ x) := by
      funext a
      unfold setState
      by_cases e : a = x
      · have : (s == PState.active) = false := by simpa using hs
        simp [e, this]
      · simp [e]
    have hne : (fun a : Part => noExt (setState x s t a)) = (noExt : Part → Bool) := by funext a; rfl
    rw [hel, hne]
    apply map_eq_self
    intro a ha
    rcases apicks_mem _ _ _ _ _ _ a ha with h0 | ⟨_, hi⟩
    · cases h0
    · have : a ≠ x := by simp only [Bool.and_eq_true, decide_eq_true_eq] at hi; exact hi.2
      unfold setState; rw [if_neg this]
  have hex := (ExInv.step (fun y : Part => y.state == PState.active) (PW ps starts) x (PW_same ps starts)
    (psize ps size) 0 [] [] (.same (by simp) (by simp))).result
  obtain ⟨hsame, Zp, hlen, hZ, hiff⟩ := hex
  have hmem : ∀ id, id ∈ pshard ps starts size 0 now ↔ ∃ p ∈ pplain ps starts (psize ps size), p.id = id := by
    intro id; rw [mem_pshard ps hinj, psel_plain]
  have hmem' : ∀ id, id ∈ pshard (ps.map (setState x s t)) starts size 0 now' ↔ ∃ p ∈ T, p.id = id := by
    intro id; rw [mem_pshard _ h'.idInj, psel_plain, hT]
  have hsub : ∀ p ∈ pplain ps starts (psize ps size), p ∈ ps := by
    intro p hp; rw [← psel_plain ps starts size 0] at hp; exact psel_sub ps starts size 0 0 p hp
  have hsubT : ∀ p ∈ T, p ∈ ps := by
    intro p hp
    rcases apicks_mem _ _ _ _ _ _ p hp with h0 | ⟨⟨j, hj⟩, _⟩
    · cases h0
    · exact ((mem_PW ps starts j p).mp hj).1
  constructor
  · intro hxid id
    have hxS : x ∉ pplain ps starts (psize ps size) := fun hc => hxid ((hmem x.id).mpr ⟨x, hc, rfl⟩)
    rw [hmem, hmem']
    constructor
    · rintro ⟨p, hp, e⟩; exact ⟨p, (hsame hxS p).mp hp, e⟩
    · rintro ⟨p, hp, e⟩; exact ⟨p, (hsame hxS p).mpr hp, e⟩
  · refine ⟨Zp.map (·.id), by simpa using hlen, ?_, ?_⟩
    · intro z hz hin
      obtain ⟨zp, hzp, rfl⟩ := List.mem_map.mp hz
      obtain ⟨b, hb, e⟩ := (hmem _).mp hin
      have hzT := (hiff zp).mpr (Or.inr hzp)
      have : b = zp := hinj b (hsub b hb) zp (hsubT zp hzT) e
      exact hZ zp hzp (this ▸ hb)
    · intro id
      rw [hmem, hmem']
      constructor
      · rintro ⟨p, hp, rfl⟩
        rcases (hiff p).mp hp with ⟨h1, h2⟩ | h1
        · exact Or.inl ⟨⟨p, h1, rfl⟩, fun e => h2 (hinj p (hsub p h1) x hx e)⟩
        · exact Or.inr (List.mem_map_of_mem h1)
      · rintro (⟨⟨p, hp, rfl⟩, hne⟩ | hz)
        · exact ⟨p, (hiff p).mpr (Or.inl ⟨hp, fun e => hne (e ▸ rfl)⟩), rfl⟩
        · obtain ⟨zp, hzp, rfl⟩ := List.mem_map.mp hz
          exact ⟨zp, (hiff zp).mpr (Or.inr hzp), rfl⟩

end PfC12
