import Proofs.C12.Basic
/-!
# C12 — look-back superset at the model level
-/
namespace PfC12
open C12

/-- shortcut consistency in `apicks` form. -/
theorem shortcut_apicks (d : CDesc) (hd : WF d) (ht : AllTok d) (p : LB) (starts : String → Nat → Nat)
    (z : String) (n : Nat) (hn : countPerZone d z ≤ n) (x : CInst) :
    x ∈ apicks (includeRO p) (extend p) (Wz d starts z) n 0 [] ↔ x ∈ d.filter (fun i => inZone z i && includeRO p i) := by
  rw [← shortcut_consistent d hd ht p starts z n hn x,
    picks_eq_apicks p d hd.idInj _ (fun x hx => by
        have := (mem_owners _ x).mp hx; exact (List.mem_filter.mp this.1).1) _ _ _ _ (by simp)]
  rfl

/-- per-zone selection of a plain query as a walk, whatever branch the code takes. -/
def zwalk (d : CDesc) (starts : String → Nat → Nat) (z : String) (n : Nat) : List CInst :=
  apicks (fun i => !i.ro) noExt (Wz d starts z) n 0 []

theorem includeRO_plain_fn (now : Int) : includeRO (mkLB 0 now) = fun i => !i.ro := by
  funext x; exact includeRO_plain now x

theorem zoneSel_plain_walk (cfg : Cfg) (hza : cfg.zoneAware = true) (d : CDesc) (hd : WF d) (ht : AllTok d)
    (starts : String → Nat → Nat) (now : Int) (n : Int) (z : String) (a : CInst) :
    a ∈ zoneSel cfg d (mkLB 0 now) starts n z ↔ a ∈ zwalk d starts z n.toNat := by
  unfold zoneSel zwalk
  rw [zoneStep_eq cfg d hd _ starts n [] (by simp) z, if_pos hza]
  split
  · rename_i hge
    have := shortcut_apicks d hd ht (mkLB 0 now) starts z n.toNat (by omega) a
    rw [extend_plain, includeRO_plain_fn] at this
    rw [this, includeRO_plain_fn]; simp
  · rw [extend_plain, includeRO_plain_fn]

theorem filter_filter_comm (q r : CInst → Bool) (d : CDesc) : (d.filter q).filter r = (d.filter r).filter q := by
  rw [List.filter_filter, List.filter_filter]; apply List.filter_congr; intro a _; exact Bool.and_comm _ _

theorem Wz_filter (d : CDesc) (hd : WF d) (keep : CInst → Bool) (starts : String → Nat → Nat) (z : String) :
    Wz (d.filter keep) starts z = fun i => (Wz d starts z i).filter keep := by
  funext i
  unfold Wz zoneTokens
  rw [filter_filter_comm, walkOrder_filter keep _ (hd.toks.filter _)]

theorem Wall_filter (d : CDesc) (hd : WF d) (keep : CInst → Bool) (starts : String → Nat → Nat) :
    Wall (d.filter keep) starts = fun i => (Wall d starts i).filter keep := by
  funext i
  unfold Wall allTokens
  rw [walkOrder_filter keep _ hd.toks]

theorem Wz_same (d : CDesc) (starts : String → Nat → Nat) (z : String) : ∀ i j x, x ∈ Wz d starts z i → x ∈ Wz d starts z j := by
  intro i j x h; rw [mem_Wz] at h ⊢; exact h
theorem Wall_same (d : CDesc) (starts : String → Nat → Nat) : ∀ i j x, x ∈ Wall d starts i → x ∈ Wall d starts j := by
  intro i j x h; rw [mem_Wall] at h ⊢; exact h

/-- **look-back superset**: every member of the plain shard of the ring without the instances `J`
registered inside the window is a member of the look-back shard of the present ring. -/
theorem lookback_superset (cfg : Cfg) (d : CDesc) (hd : WF d) (ht : AllTok d) (starts : String → Nat → Nat)
    (size period now now' : Int) (hsize : 0 < size) (hperiod : 0 < period)
    (J : List CInst) (hJ : ∀ x ∈ J, x.regTs ≥ now - period)
    (hz : cfg.zoneAware = true → zonesOf (d.filter fun x => !J.contains x) = zonesOf d) :
    ∀ m ∈ shard cfg (d.filter fun x => !J.contains x) starts size 0 now',
      m ∈ shard cfg d starts size period now := by
  intro m hm
  have hnot : ¬ size ≤ 0 := by omega
  let keep : CInst → Bool := fun x => !J.contains x
  have hdτ : WF (d.filter keep) := hd.filter keep
  have htτ : AllTok (d.filter keep) := ht.filter keep
  have hmem := shard_plain_mem cfg (d.filter keep) hdτ starts size now' m hm
  have hmd : m ∈ d := (List.mem_filter.mp hmem.1).1
  unfold shard at hm ⊢
  rw [if_neg hnot] at hm ⊢
  by_cases he : early d (mkLB period now) = true
  · rw [shuffleShard_unfold, if_pos he]; exact hmd
  have he' : early d (mkLB period now) = false := by simpa using he
  -- the two facts the abstract lemma needs
  have hon : (mkLB period now).on = true := by simp [mkLB, hperiod]
  have htil : (mkLB period now).til = now - period := rfl
  have h1 : ∀ x, keep x = true → (fun i : CInst => !i.ro) x = true → includeRO (mkLB period now) x = true := by
    intro x _ hx
    simp only [Bool.not_eq_true'] at hx
    simp [includeRO, hx]
  have h2 : ∀ x, includeRO (mkLB period now) x = true → extend (mkLB period now) x = false →
      keep x = true ∧ (fun i : CInst => !i.ro) x = true := by
    intro x _ hx
    simp only [extend, hon, Bool.true_and, Bool.or_eq_false_iff, decide_eq_false_iff_not, htil] at hx
    refine ⟨?_, by simp [hx.1.2]⟩
    show (!J.contains x) = true
    cases hc : J.contains x with
    | false => rfl
    | true =>
      have := hJ x (by simpa using hc)
      omega
  cases hza : cfg.zoneAware with
  | true =>
    have hzs := hz hza
    obtain ⟨z, hzmem, hzsel⟩ := (mem_shuffleShard_za cfg hza _ hdτ starts size 0 now' (early_plain _ _) m).mp hm
    rw [hzs] at hzmem
    have hn : perZone cfg (d.filter keep) size = perZone cfg d size := by
      unfold perZone; rw [hzs]
    rw [hn] at hzsel
    apply (mem_shuffleShard_za cfg hza d hd starts size period now he' m).mpr
    refine ⟨z, hzmem, ?_⟩
    have hw := (zoneSel_plain_walk cfg hza _ hdτ htτ starts now' _ z m).mp hzsel
    unfold zoneSel
    rw [zoneStep_eq cfg d hd _ starts _ [] (by simp) z, if_pos hza]
    split
    · simp only [List.append_nil, List.mem_filter, Bool.and_eq_true]
      have hzone : m.zone = z := by
        have := zoneSel_mem_za cfg hza _ hdτ _ starts _ z m hzsel
        exact this.2.1
      refine ⟨hmd, (inZone_iff z m).mpr hzone, ?_⟩
      have := hmem.2
      simp [includeRO, this]
    · unfold zwalk at hw
      rw [Wz_filter d hd keep starts z] at hw
      exact apicks_lb_superset _ _ _ keep (Wz d starts z) h1 h2 (Wz_same d starts z) _ 0 [] [] (by simp) m hw
  | false =>
    rw [shuffleShard_nza cfg hza _ hdτ starts size 0 now' (early_plain _ _), extend_plain, includeRO_plain_fn,
      Wall_filter d hd keep starts] at hm
    rw [shuffleShard_nza cfg hza d hd starts size period now he']
    exact apicks_lb_superset _ _ _ keep (Wall d starts) h1 h2 (Wall_same d starts) _ 0 [] [] (by simp) m hm

end PfC12
