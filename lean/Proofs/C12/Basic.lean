import Proofs.C12.Zone
/-!
# C12 — members, read-only exclusion, size, monotonicity, shortcut consistency (model level)
-/
namespace PfC12
open C12

/-! ### read-only statistics -/

theorem roStatsAux_count : ∀ (d : CDesc) (n : Nat) (o : Int) (f : Bool),
    (roStatsAux d n o f).1 = n + (d.filter (·.ro)).length := by
  intro d
  induction d with
  | nil => intro n o f; simp [roStatsAux]
  | cons a d ih =>
    intro n o f
    unfold roStatsAux
    by_cases h : a.ro = true
    · simp only [h, Bool.not_true, Bool.false_eq_true, if_false, List.filter_cons, if_true, List.length_cons]
      rw [ih]; omega
    · have h' : a.ro = false := by simpa using h
      simp only [h', Bool.not_false, if_true, List.filter_cons, Bool.false_eq_true, if_false]
      exact ih _ _ _

theorem roStats_zero (d : CDesc) (h : ((roStats d).1 == 0) = true) : ∀ m ∈ d, m.ro = false := by
  intro m hm
  unfold roStats at h
  rw [roStatsAux_count] at h
  have : (d.filter (·.ro)).length = 0 := by simpa using h
  have hnil : d.filter (·.ro) = [] := List.length_eq_zero_iff.mp this
  have := List.filter_eq_nil_iff.mp hnil m hm
  simpa using this

theorem mem_filterOutRO_plain (d : CDesc) (now : Int) (m : CInst) :
    m ∈ filterOutRO d 0 now ↔ m ∈ d ∧ m.ro = false := by
  unfold filterOutRO
  simp only
  by_cases h : ((roStats d).1 == 0) = true
  · rw [if_pos h]
    exact ⟨fun hm => ⟨hm, roStats_zero d h m hm⟩, fun hm => hm.1⟩
  · rw [if_neg h]
    have : (mkLB 0 now).on = false := by simp [mkLB]
    simp only [this, Bool.false_and, Bool.false_eq_true, if_false, List.mem_filter, includeRO_plain]
    simp

/-! ### members -/

theorem mem_shuffleShard (cfg : Cfg) (d : CDesc) (hd : WF d) (starts : String → Nat → Nat) (size period now : Int) :
    ∀ m ∈ shuffleShard cfg d starts size period now,
      m ∈ d ∧ (early d (mkLB period now) = false → includeRO (mkLB period now) m = true) := by
  intro m hm
  by_cases he : early d (mkLB period now) = true
  · rw [shuffleShard_unfold, if_pos he] at hm
    exact ⟨hm, fun h => by rw [he] at h; cases h⟩
  · have he' : early d (mkLB period now) = false := by simpa using he
    cases hza : cfg.zoneAware with
    | true =>
      obtain ⟨z, _, hz⟩ := (mem_shuffleShard_za cfg hza d hd starts size period now he' m).mp hm
      have := zoneSel_mem_za cfg hza d hd _ starts _ z m hz
      exact ⟨this.1, fun _ => this.2.2⟩
    | false =>
      rw [shuffleShard_nza cfg hza d hd starts size period now he'] at hm
      rcases apicks_mem _ _ _ _ _ _ m hm with h | ⟨⟨j, hj⟩, hi⟩
      · cases h
      · exact ⟨((mem_Wall d starts j m).mp hj).1, fun _ => hi⟩

theorem shard_plain_mem (cfg : Cfg) (d : CDesc) (hd : WF d) (starts : String → Nat → Nat) (size now : Int) :
    ∀ m ∈ shard cfg d starts size 0 now, m ∈ d ∧ m.ro = false := by
  intro m hm
  unfold shard at hm
  split at hm
  · exact (mem_filterOutRO_plain d now m).mp hm
  · have := mem_shuffleShard cfg d hd starts size 0 now m hm
    have h2 := this.2 (early_plain d now)
    rw [includeRO_plain] at h2
    exact ⟨this.1, by simpa using h2⟩

/-! ### size -/

theorem cnt_congr {α : Type} [DecidableEq α] (E S S' : List α) (h : ∀ a ∈ E, a ∈ S ↔ a ∈ S') : cnt E S = cnt E S' := by
  unfold cnt
  congr 1
  apply List.filter_congr
  intro a ha
  simp [h a ha]

theorem cnt_self {α : Type} [DecidableEq α] (E S : List α) (h : ∀ a ∈ E, a ∈ S) : cnt E S = E.length := by
  unfold cnt
  apply List.length_filter_eq_length_iff.mpr
  intro a ha; simpa using h a ha

/-- eligible (not read-only) instances of zone `z`. -/
def eligZ (d : CDesc) (z : String) : CDesc := d.filter fun i => inZone z i && !i.ro

theorem zoneSel_size (cfg : Cfg) (hza : cfg.zoneAware = true) (d : CDesc) (hd : WF d) (ht : AllTok d)
    (starts : String → Nat → Nat) (now : Int) (n : Int) (hn : 0 ≤ n) (z : String) :
    cnt (eligZ d z) (zoneSel cfg d (mkLB 0 now) starts n z) = min n.toNat (eligZ d z).length := by
  have hE : (eligZ d z).Nodup := List.Nodup.sublist List.filter_sublist hd.nodup
  unfold zoneSel
  rw [zoneStep_eq cfg d hd _ starts n [] (by simp) z, if_pos hza]
  split
  · rename_i hge
    have hsub : ∀ a ∈ eligZ d z, a ∈ (d.filter fun i => inZone z i && includeRO (mkLB 0 now) i) ++ [] := by
      intro a ha
      simp only [eligZ, List.mem_filter, Bool.and_eq_true] at ha
      simp only [List.append_nil, List.mem_filter, Bool.and_eq_true, includeRO_plain]
      exact ha
    rw [cnt_self _ _ hsub]
    have hle : (eligZ d z).length ≤ countPerZone d z := by
      unfold eligZ countPerZone
      have : (d.filter fun i => inZone z i && !i.ro) = (d.filter (inZone z)).filter (fun i => !i.ro) := by
        rw [List.filter_filter]; apply List.filter_congr; intro a _; simp [Bool.and_comm]
      rw [this]; exact List.length_filter_le _ _
    omega
  · rw [extend_plain]
    have := apicks_plain_cnt (includeRO (mkLB 0 now)) (Wz d starts z) (eligZ d z) hE (by
      intro i x
      rw [mem_Wz, includeRO_plain]
      simp only [eligZ, List.mem_filter, Bool.and_eq_true]
      constructor
      · rintro ⟨hx, hz, hr⟩; exact ⟨⟨⟨hx, hz⟩, ht x hx⟩, hr⟩
      · rintro ⟨⟨⟨hx, hz⟩, _⟩, hr⟩; exact ⟨hx, hz, hr⟩) n.toNat 0 []
    rw [this]
    have h0 : cnt (eligZ d z) ([] : List CInst) = 0 := by
      unfold cnt; rw [List.length_eq_zero_iff, List.filter_eq_nil_iff]; intro a _; simp
    rw [h0]; simp

theorem ceil_le_self (a k : Nat) (ha : 0 < a) (hk : 0 < k) : (a + k - 1) / k ≤ a := by
  apply Nat.div_le_of_le_mul
  obtain ⟨k', rfl⟩ : ∃ k', k = k' + 1 := ⟨k - 1, by omega⟩
  have : k' ≤ k' * a := Nat.le_mul_of_pos_right k' ha
  rw [Nat.succ_mul]; omega

/-! ### monotonicity in the size -/

/-- the quotient plus one for a remainder is the rounded-up quotient. -/
theorem ceil_eq (a k : Nat) (hk : 0 < k) :
    (if a % k > 0 then a / k + 1 else a / k) = (a + k - 1) / k := by
  have h := Nat.div_add_mod a k
  have hr : a % k < k := Nat.mod_lt a hk
  have e : a + k - 1 = (a % k + k - 1) + k * (a / k) := by omega
  rw [e, Nat.add_mul_div_left _ _ hk]
  by_cases h0 : a % k > 0
  · rw [if_pos h0]
    have : (a % k + k - 1) / k = 1 := by
      apply Nat.div_eq_of_lt_le <;> omega
    omega
  · rw [if_neg h0]
    have : (a % k + k - 1) / k = 0 := Nat.div_eq_of_lt (by omega)
    omega

theorem expectedPerZone_ceil (size : Int) (k : Nat) (hk : 0 < k) (h1 : size ≠ maxInt) :
    expectedPerZone size k = ((size.toNat + k - 1) / k : Nat) := by
  unfold expectedPerZone
  have hk' : (k == 0) = false := by simp; omega
  simp only [beq_iff_eq, h1, if_false, hk', Bool.false_eq_true]
  rw [ceil_eq _ _ hk]

/-- sizes are Go `int`s (`s' ≤ MaxInt`). -/
theorem expectedPerZone_mono (s s' : Int) (k : Nat) (h0 : 0 < s) (h : s ≤ s') (hmax : s' ≤ maxInt) :
    expectedPerZone s k ≤ expectedPerZone s' k := by
  have hM : expectedPerZone maxInt k = maxInt := by simp [expectedPerZone]
  by_cases e' : s' = maxInt
  · by_cases e : s = maxInt
    · rw [e, e']; exact Int.le_refl _
    · rw [e', hM]
      by_cases hk : k = 0
      · subst hk
        have : expectedPerZone s 0 = 0 := by simp [expectedPerZone, e]
        rw [this]; unfold maxInt; omega
      · have hk' : 0 < k := Nat.pos_of_ne_zero hk
        rw [expectedPerZone_ceil s k hk' e]
        have h1 : (s.toNat + k - 1) / k ≤ s.toNat := ceil_le_self _ _ (by omega) hk'
        have h2 : (s.toNat : Int) ≤ maxInt := by omega
        omega
  · have e : s ≠ maxInt := by intro e; apply e'; omega
    by_cases hk : k = 0
    · subst hk
      have h1 : expectedPerZone s 0 = 0 := by simp [expectedPerZone, e]
      have h2 : expectedPerZone s' 0 = 0 := by simp [expectedPerZone, e']
      rw [h1, h2]; exact Int.le_refl _
    · have hk' : 0 < k := Nat.pos_of_ne_zero hk
      rw [expectedPerZone_ceil s k hk' e, expectedPerZone_ceil s' k hk' e']
      have : (s.toNat + k - 1) / k ≤ (s'.toNat + k - 1) / k := Nat.div_le_div_right (by omega)
      omega

theorem zoneSel_mono (cfg : Cfg) (hza : cfg.zoneAware = true) (d : CDesc) (hd : WF d) (p : LB)
    (starts : String → Nat → Nat) (n n' : Int) (h : n ≤ n') (z : String) :
    ∀ x ∈ zoneSel cfg d p starts n z, x ∈ zoneSel cfg d p starts n' z := by
  intro x hx
  have hmem := zoneSel_mem_za cfg hza d hd p starts n z x hx
  unfold zoneSel at hx ⊢
  rw [zoneStep_eq cfg d hd _ starts _ [] (by simp) z, if_pos hza] at hx ⊢
  by_cases h1 : n' ≥ (countPerZone d z : Nat)
  · rw [if_pos h1]
    simp only [List.append_nil, List.mem_filter, Bool.and_eq_true]
    exact ⟨hmem.1, (inZone_iff z x).mpr hmem.2.1, hmem.2.2⟩
  · have h2 : ¬ n ≥ (countPerZone d z : Nat) := by omega
    rw [if_neg h1]; rw [if_neg h2] at hx
    exact apicks_mono_le _ _ _ 0 [] n.toNat n'.toNat (by omega) x hx

/-! ### the whole-zone shortcut is consistent with the walk -/

theorem shortcut_consistent (d : CDesc) (hd : WF d) (ht : AllTok d) (p : LB) (starts : String → Nat → Nat)
    (z : String) (n : Nat) (hn : countPerZone d z ≤ n) (x : CInst) :
    x ∈ picks p (zoneTokens d z) (starts z) n 0 [] ↔ x ∈ d.filter (fun i => inZone z i && includeRO p i) := by
  rw [picks_eq_apicks p d hd.idInj _ (fun x hx => by
        have := (mem_owners _ x).mp hx; exact (List.mem_filter.mp this.1).1) _ _ _ _ (by simp)]
  have hZ : (d.filter (inZone z)).Nodup := List.Nodup.sublist List.filter_sublist hd.nodup
  have hW : ∀ i x, x ∈ Wz d starts z i ↔ x ∈ d.filter (inZone z) := by
    intro i x
    rw [mem_Wz, List.mem_filter]
    exact ⟨fun h => h.1, fun h => ⟨h, ht x h.1⟩⟩
  constructor
  · intro hx
    rcases apicks_mem _ _ _ _ _ _ x hx with h | ⟨⟨j, hj⟩, hi⟩
    · cases h
    · have := (mem_Wz d starts z j x).mp hj
      simp only [List.mem_filter, Bool.and_eq_true]
      exact ⟨this.1.1, this.1.2, hi⟩
  · intro hx
    simp only [List.mem_filter, Bool.and_eq_true] at hx
    exact apicks_all (includeRO p) (extend p) (Wz d starts z) (d.filter (inZone z)) hZ hW n 0 []
      (by unfold countPerZone at hn; omega) x (List.mem_filter.mpr ⟨hx.1, hx.2.1⟩) hx.2.2

end PfC12
