import Proofs.C12.PartRemove
import Proofs.C12.Total
/-!
# C12 — the partition shuffle shard never returns `ErrInconsistentTokensInfo` on a well-formed ring
-/
namespace PfC12
open C12

theorem ptokenList_eq (ps : List Part) : ptokenList ps = (partTokens ps).map (·.1) := by
  rw [partTokens_eq, ownedG_def, ptokenList,
    List.map_mergeSort (r := leG) (s := fun a b => decide (a ≤ b)) (f := (·.1)) (fun a _ b _ => rfl),
    pairsG_map_fst]

theorem partitionByToken_owner (ps : List Part) (hd : PTokNodup ps) (p : Part) (hp : p ∈ ps) (t : Nat) (ht : t ∈ p.tokens) :
    partitionByToken ps t = some p.id := by
  unfold partitionByToken
  cases hf : ps.find? (fun p => p.tokens.contains t) with
  | none =>
    have := List.find?_eq_none.mp hf p hp
    simp [ht] at this
  | some q =>
    have hq := List.mem_of_find?_eq_some hf
    have hqt : t ∈ q.tokens := by simpa using List.find?_some hf
    have hnd : ((pairsG (fun p : Part => p.tokens) ps).map (·.1)).Nodup := by rw [pairsG_map_fst]; exact hd
    have := nodup_map_inj (·.1) _ hnd (t, p) ((mem_pairsG _ ps t p).mpr ⟨hp, ht⟩) (t, q)
      ((mem_pairsG _ ps t q).mpr ⟨hq, hqt⟩) rfl
    cases this; rfl

theorem partById_self (ps : List Part) (h : PWF ps) (p : Part) (hp : p ∈ ps) : partById ps p.id = some p := by
  unfold partById
  cases hf : ps.find? (fun q => q.id == p.id) with
  | none =>
    have := List.find?_eq_none.mp hf p hp
    simp at this
  | some q =>
    have hq := List.mem_of_find?_eq_some hf
    have hqi : q.id = p.id := by simpa using List.find?_some hf
    rw [h.idInj q hq p hp hqi]

theorem pwalkC_eq (lbOn : Bool) (til : Int) (byTok : Nat → Option Int) (byId : Int → Option Part) :
    ∀ (toks : List (Nat × Part)), (∀ q ∈ toks, byTok q.1 = some q.2.id ∧ byId q.2.id = some q.2) → ∀ st,
    pwalkC lbOn til byTok byId (toks.map (·.1)) st = .ok (pwalk lbOn til (toks.map (·.2)) st) := by
  intro toks
  induction toks with
  | nil => intro _ st; rfl
  | cons q rest ih =>
    intro h st
    have hq := h q List.mem_cons_self
    have hrest : ∀ q' ∈ rest, byTok q'.1 = some q'.2.id ∧ byId q'.2.id = some q'.2 :=
      fun q' hq' => h q' (List.mem_cons_of_mem _ hq')
    simp only [List.map_cons]
    unfold pwalkC pwalk
    rw [hq.1]
    simp only
    split
    · exact ih hrest st
    · split
      · exact ih hrest st
      · rw [hq.2]
        simp only
        split
        · exact ih hrest _
        · split
          · rfl
          · exact ih hrest _

theorem ploopC_eq (lbOn : Bool) (til : Int) (byTok : Nat → Option Int) (byId : Int → Option Part)
    (toks : List (Nat × Part)) (h : ∀ q ∈ toks, byTok q.1 = some q.2.id ∧ byId q.2.id = some q.2) (starts : Nat → Nat) :
    ∀ fuel i st, ploopC lbOn til byTok byId (toks.map (·.1)) starts fuel i st = .ok (ploop lbOn til toks starts fuel i st) := by
  intro fuel
  induction fuel with
  | zero => intro i st; rfl
  | succ fuel ih =>
    intro i st
    unfold ploopC ploop
    split
    · have hs : searchTokenN (toks.map (·.1)) (starts i) = searchToken toks (starts i) := by
        unfold searchTokenN
        rw [List.map_map]
        exact searchToken_map (fun q : Nat × Part => (q.1, ())) (fun _ => rfl) toks (starts i)
      rw [hs, rotate_map,
        pwalkC_eq lbOn til byTok byId (rotate toks (searchToken toks (starts i))) (fun q hq => h q (mem_rotate _ _ _ hq))]
      have hwo : (rotate toks (searchToken toks (starts i))).map (·.2) = walkOrder toks (starts i) := rfl
      rw [hwo]
      simp only
      by_cases hf : (pwalk lbOn til (walkOrder toks (starts i)) st).2 = true
      · rw [if_pos hf, if_pos hf]; exact ih _ _
      · rw [if_neg hf, if_neg hf]
    · rfl

/-- **the partition shuffle shard is total on well-formed partition rings** (distinct partition ids,
globally unique tokens): plain and look-back, any size, stream and time. -/
theorem pshard_total (ps : List Part) (h : PWF ps) (htn : PTokNodup ps) (starts : Nat → Nat) (size period now : Int) :
    pshardC ps starts size period now = .ok (pshard ps starts size period now) := by
  unfold pshardC pshard
  simp only
  rw [ptokenList_eq, ploopC_eq _ _ _ _ (partTokens ps) (fun q hq => by
    have hm : q.2 ∈ ps ∧ q.1 ∈ q.2.tokens := by
      have := (mem_ownedG (fun p : Part => p.tokens) ps q.1 q.2).mp (by rw [← partTokens_eq]; exact hq)
      exact this
    exact ⟨partitionByToken_owner ps htn q.2 hm.1 q.1 hm.2, partById_self ps h q.2 hm.1⟩)]

end PfC12
