import Proofs.C12.PartBasic
import Proofs.C12.WindowConst
/-!
# C12 — partition ring: the look-back shard is constant on the validity window of a cached entry
-/
namespace PfC12
open C12

/-- `pshard` written through the abstract selection. -/
theorem pshard_eq (ps : List Part) (h : PWF ps) (starts : Nat → Nat) (size period now : Int) :
    pshard ps starts size period now =
      (ps.filter fun p => ((psel ps starts size period now).map (·.id)).contains p.id).map (·.id) := by
  unfold pshard
  simp only
  have hloop := ploop_apicks ps h.idInj (decide (period > 0)) (ptil period now) (partTokens ps) (mem_partTokens ps) starts
    (ps.length + 1) 0 ⟨[], [], psize ps size⟩ [] (psize ps size) ⟨rfl, by simp, by simp, by simp⟩ (by
      unfold psize; split
      · omega
      · rename_i h; simp only [Bool.or_eq_true, decide_eq_true_eq, not_or] at h; omega)
  have hres : (ploop (decide (period > 0)) (if period > 0 then now - period else 0) (partTokens ps) starts (ps.length + 1) 0
      ⟨[], [], if (decide (size ≤ 0) || decide (size ≥ (ps.length : Int))) = true then ps.length else size.toNat⟩).result =
      (psel ps starts size period now).map (·.id) := hloop
  rw [hres]

/-- moving the window start forward without passing the state timestamp of a selected partition does
not change the partition look-back shard. -/
theorem pshard_window_const (ps : List Part) (h : PWF ps) (starts : Nat → Nat) (size period now now' : Int)
    (hle : now ≤ now')
    (hst : ∀ p ∈ ps, p.id ∈ pshard ps starts size period now →
      p.stateTs ≥ ptil period now → p.stateTs ≥ ptil period now') :
    pshard ps starts size period now' = pshard ps starts size period now := by
  rw [pshard_eq ps h, pshard_eq ps h]
  have hsel : psel ps starts size period now' = psel ps starts size period now := by
    unfold psel
    by_cases hp : period > 0
    · have hd : decide (period > 0) = true := by simp [hp]
      have htle : ptil period now ≤ ptil period now' := by simp only [ptil, if_pos hp]; omega
      rw [hd]
      apply apicks_congr
      · intro x hx
        simp only [pincl, pwithin, Bool.true_and, Bool.and_eq_false_iff, Bool.not_eq_false', beq_iff_eq,
          Bool.or_eq_false_iff, beq_eq_false_iff_ne, ne_eq, decide_eq_false_iff_not] at hx ⊢
        rcases hx with hx | hx
        · left; exact hx
        · right; exact ⟨hx.1, by omega⟩
      · intro x hx hi
        have hxps : x ∈ ps := by
          have := psel_sub ps starts size period now x (by unfold psel; rw [hd]; exact hx)
          exact this
        have hxid : x.id ∈ pshard ps starts size period now :=
          (mem_pshard ps h.idInj starts size period now x.id).mpr ⟨x, by unfold psel; rw [hd]; exact hx, rfl⟩
        have hs := hst x hxps hxid
        have hw : pwithin true (ptil period now') x = pwithin true (ptil period now) x := by
          simp only [pwithin, Bool.true_and]
          by_cases h1 : x.stateTs ≥ ptil period now
          · simp [h1, hs h1]
          · have : ¬ x.stateTs ≥ ptil period now' := by omega
            simp [h1, this]
        refine ⟨?_, hw⟩
        simp only [pincl] at hi ⊢
        rw [hw]; exact hi
    · have hd : decide (period > 0) = false := by simp [hp]
      have : ptil period now' = ptil period now := by simp [ptil, hp]
      rw [hd, this]
  rw [hsel]

end PfC12
