import Proofs.C12.Model
/-!
# C12 — per-zone selections and the decomposition of `shuffleShard` into them
-/
namespace PfC12
open C12

/-- walk lists of zone `z` / of the whole ring (zone-awareness off). -/
def Wz (d : CDesc) (starts : String → Nat → Nat) (z : String) : Nat → List CInst :=
  fun i => walkOrder (zoneTokens d z) (starts z i)
def Wall (d : CDesc) (starts : String → Nat → Nat) : Nat → List CInst :=
  fun i => walkOrder (allTokens d) (starts "" i)

theorem mem_Wz (d : CDesc) (starts : String → Nat → Nat) (z : String) (i : Nat) (x : CInst) :
    x ∈ Wz d starts z i ↔ (x ∈ d ∧ inZone z x = true) ∧ x.tokens ≠ [] := by
  unfold Wz zoneTokens
  rw [mem_walkOrder, mem_owners, List.mem_filter]

theorem mem_Wall (d : CDesc) (starts : String → Nat → Nat) (i : Nat) (x : CInst) :
    x ∈ Wall d starts i ↔ x ∈ d ∧ x.tokens ≠ [] := by
  unfold Wall allTokens
  rw [mem_walkOrder, mem_owners]

theorem inZone_iff (z : String) (x : CInst) : inZone z x = true ↔ x.zone = z := by simp [inZone]

/-- `zoneStep` through the abstract walk. -/
theorem zoneStep_eq (cfg : Cfg) (d : CDesc) (hd : WF d) (p : LB) (starts : String → Nat → Nat) (n : Int)
    (shard : List CInst) (hs : ∀ a ∈ shard, a ∈ d) (z : String) :
    zoneStep cfg d p starts n shard z =
      if cfg.zoneAware then
        if n ≥ (countPerZone d z : Nat) then (d.filter fun i => inZone z i && includeRO p i) ++ shard
        else apicks (includeRO p) (extend p) (Wz d starts z) n.toNat 0 shard
      else apicks (includeRO p) (extend p) (Wall d starts) n.toNat 0 shard := by
  unfold zoneStep
  split
  · split
    · rfl
    · exact picks_eq_apicks p d hd.idInj _ (fun x hx => by
        have := (mem_owners _ x).mp hx; exact (List.mem_filter.mp this.1).1) _ _ _ _ hs
  · exact picks_eq_apicks p d hd.idInj _ (fun x hx => ((mem_owners _ x).mp hx).1) _ _ _ _ hs

/-- the selection of one zone, computed on its own. -/
def zoneSel (cfg : Cfg) (d : CDesc) (p : LB) (starts : String → Nat → Nat) (n : Int) (z : String) : List CInst :=
  zoneStep cfg d p starts n [] z

theorem zoneSel_mem_za (cfg : Cfg) (hza : cfg.zoneAware = true) (d : CDesc) (hd : WF d) (p : LB)
    (starts : String → Nat → Nat) (n : Int) (z : String) :
    ∀ x ∈ zoneSel cfg d p starts n z, x ∈ d ∧ x.zone = z ∧ includeRO p x = true := by
  intro x hx
  unfold zoneSel at hx
  rw [zoneStep_eq cfg d hd p starts n [] (by simp) z, if_pos hza] at hx
  split at hx
  · simp only [List.append_nil, List.mem_filter, Bool.and_eq_true] at hx
    exact ⟨hx.1, (inZone_iff z x).mp hx.2.1, hx.2.2⟩
  · rcases apicks_mem _ _ _ _ _ _ x hx with h | ⟨⟨j, hj⟩, hi⟩
    · cases h
    · have := (mem_Wz d starts z j x).mp hj
      exact ⟨this.1.1, (inZone_iff z x).mp this.1.2, hi⟩

theorem zoneStep_append_za (cfg : Cfg) (hza : cfg.zoneAware = true) (d : CDesc) (hd : WF d) (p : LB)
    (starts : String → Nat → Nat) (n : Int) (shard : List CInst) (hs : ∀ a ∈ shard, a ∈ d ∧ a.zone ≠ z) :
    zoneStep cfg d p starts n shard z = zoneSel cfg d p starts n z ++ shard := by
  unfold zoneSel
  rw [zoneStep_eq cfg d hd p starts n shard (fun a ha => (hs a ha).1) z,
    zoneStep_eq cfg d hd p starts n [] (by simp) z, if_pos hza, if_pos hza]
  split
  · simp
  · have := apicks_append (includeRO p) (extend p) (Wz d starts z) shard (fun i a ha hm => by
      have h1 := (mem_Wz d starts z i a).mp ha
      exact (hs a hm).2 ((inZone_iff z a).mp h1.1.2)) n.toNat 0 []
    simpa using this

theorem foldl_zoneStep_mem (cfg : Cfg) (hza : cfg.zoneAware = true) (d : CDesc) (hd : WF d) (p : LB)
    (starts : String → Nat → Nat) (n : Int) : ∀ (zs : List String), zs.Nodup → ∀ (shard : List CInst),
    (∀ a ∈ shard, a ∈ d ∧ a.zone ∉ zs) → ∀ x,
    x ∈ zs.foldl (zoneStep cfg d p starts n) shard ↔ x ∈ shard ∨ ∃ z ∈ zs, x ∈ zoneSel cfg d p starts n z := by
  intro zs
  induction zs with
  | nil => intro _ shard _ x; simp
  | cons z zs ih =>
    intro hnd shard hs x
    have hnd' := List.nodup_cons.mp hnd
    rw [List.foldl_cons, zoneStep_append_za cfg hza d hd p starts n shard
      (fun a ha => ⟨(hs a ha).1, fun e => (hs a ha).2 (e ▸ List.mem_cons_self)⟩)]
    rw [ih hnd'.2 _ (fun a ha => by
      rcases List.mem_append.mp ha with h | h
      · have := zoneSel_mem_za cfg hza d hd p starts n z a h
        exact ⟨this.1, fun hm => hnd'.1 (this.2.1 ▸ hm)⟩
      · exact ⟨(hs a h).1, fun hm => (hs a h).2 (List.mem_cons_of_mem _ hm)⟩)]
    simp only [List.mem_append, List.mem_cons, exists_eq_or_imp]
    constructor
    · rintro ((h | h) | h)
      · right; left; exact h
      · left; exact h
      · right; right; exact h
    · rintro (h | h | h)
      · left; right; exact h
      · left; left; exact h
      · right; exact h

def early (d : CDesc) (p : LB) : Bool := p.on && decide (oldestReg d > 0) && decide (oldestReg d ≥ p.til)

theorem shuffleShard_unfold (cfg : Cfg) (d : CDesc) (starts : String → Nat → Nat) (size period now : Int) :
    shuffleShard cfg d starts size period now =
      if early d (mkLB period now) then d
      else (actualZones cfg d).foldl (zoneStep cfg d (mkLB period now) starts (perZone cfg d size)) [] := rfl

/-- **decomposition** (zone-awareness on): the shard is the union of the per-zone selections. -/
theorem mem_shuffleShard_za (cfg : Cfg) (hza : cfg.zoneAware = true) (d : CDesc) (hd : WF d)
    (starts : String → Nat → Nat) (size period now : Int) (he : early d (mkLB period now) = false) (x : CInst) :
    x ∈ shuffleShard cfg d starts size period now ↔
      ∃ z ∈ zonesOf d, x ∈ zoneSel cfg d (mkLB period now) starts (perZone cfg d size) z := by
  rw [shuffleShard_unfold, he]
  simp only [Bool.false_eq_true, if_false]
  have : actualZones cfg d = zonesOf d := by simp [actualZones, hza]
  rw [this, foldl_zoneStep_mem cfg hza d hd _ starts _ (zonesOf d) (zonesOf_nodup d) [] (by simp)]
  simp

theorem shuffleShard_nza (cfg : Cfg) (hza : cfg.zoneAware = false) (d : CDesc) (hd : WF d)
    (starts : String → Nat → Nat) (size period now : Int) (he : early d (mkLB period now) = false) :
    shuffleShard cfg d starts size period now =
      apicks (includeRO (mkLB period now)) (extend (mkLB period now)) (Wall d starts) size.toNat 0 [] := by
  rw [shuffleShard_unfold, he]
  simp only [Bool.false_eq_true, if_false]
  have : actualZones cfg d = [""] := by simp [actualZones, hza]
  rw [this, List.foldl_cons, List.foldl_nil, zoneStep_eq cfg d hd _ starts _ [] (by simp) ""]
  simp [hza, perZone]

theorem early_plain (d : CDesc) (now : Int) : early d (mkLB 0 now) = false := by
  simp [early, mkLB]

theorem includeRO_plain (now : Int) (x : CInst) : includeRO (mkLB 0 now) x = !x.ro := by
  simp [includeRO, mkLB]

theorem extend_plain (now : Int) : extend (mkLB 0 now) = noExt := by
  funext x; simp [extend, mkLB, noExt]

end PfC12
