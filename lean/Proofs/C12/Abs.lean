/-!
# C12 — abstract selection walk (generic element type)

`awalk` is `C12.walk` with membership by equality instead of by id; `apicks` is `C12.picks` over
given walk lists `W i`. Everything the property needs is proved here for arbitrary `incl`/`ext`
predicates and arbitrary walk lists that have the same members (rotations of one token list).
-/
namespace PfC12
variable {α : Type} [DecidableEq α]

def awalk (incl ext : α → Bool) : List α → List α → List α × Bool
  | [], sel => (sel, false)
  | i :: rest, sel =>
    if i ∈ sel then awalk incl ext rest sel
    else if !incl i then awalk incl ext rest sel
    else if ext i then awalk incl ext rest (i :: sel)
    else (i :: sel, true)

def apicks (incl ext : α → Bool) (W : Nat → List α) : Nat → Nat → List α → List α
  | 0, _, sel => sel
  | n + 1, i, sel =>
    let r := awalk incl ext (W i) sel
    if r.2 then apicks incl ext W n (i + 1) r.1 else r.1

/-! ### the walk only adds new, includable elements of the walk list -/

theorem awalk_spec (incl ext : α → Bool) (w : List α) : ∀ sel : List α,
    ∃ l : List α, (awalk incl ext w sel).1 = l ++ sel ∧
      (∀ x ∈ l, x ∈ w ∧ incl x = true ∧ x ∉ sel) ∧ l.Nodup ∧
      ((awalk incl ext w sel).2 = true → l ≠ []) := by
  induction w with
  | nil => intro sel; exact ⟨[], by simp [awalk]⟩
  | cons a rest ih =>
    intro sel
    unfold awalk
    by_cases h1 : a ∈ sel
    · rw [if_pos h1]
      obtain ⟨l, e, hl, nd, hf⟩ := ih sel
      exact ⟨l, e, fun x hx => ⟨List.mem_cons_of_mem _ (hl x hx).1, (hl x hx).2⟩, nd, hf⟩
    · rw [if_neg h1]
      by_cases h2 : incl a = true
      · have : (!incl a) = false := by simp [h2]
        rw [this]; simp only [Bool.false_eq_true, if_false]
        by_cases h3 : ext a = true
        · rw [if_pos h3]
          obtain ⟨l, e, hl, nd, hf⟩ := ih (a :: sel)
          refine ⟨l ++ [a], by rw [e]; simp, ?_, ?_, ?_⟩
          · intro x hx
            rcases List.mem_append.mp hx with hx | hx
            · have := hl x hx
              exact ⟨List.mem_cons_of_mem _ this.1, this.2.1, fun hs => this.2.2 (List.mem_cons_of_mem _ hs)⟩
            · have : x = a := by simpa using hx
              subst this; exact ⟨List.mem_cons_self, h2, h1⟩
          · rw [List.nodup_append]
            refine ⟨nd, by simp, ?_⟩
            intro x hx y hy
            have : y = a := by simpa using hy
            subst this
            intro hxy; subst hxy
            exact (hl x hx).2.2 List.mem_cons_self
          · intro _; simp
        · rw [if_neg h3]
          exact ⟨[a], by simp, by intro x hx; have : x = a := by simpa using hx
                                  subst this; exact ⟨List.mem_cons_self, h2, h1⟩, by simp, by simp⟩
      · have : (!incl a) = true := by simp [h2]
        rw [this]; simp only [if_true]
        obtain ⟨l, e, hl, nd, hf⟩ := ih sel
        exact ⟨l, e, fun x hx => ⟨List.mem_cons_of_mem _ (hl x hx).1, (hl x hx).2⟩, nd, hf⟩

theorem awalk_sub (incl ext : α → Bool) (w sel : List α) : ∀ x ∈ sel, x ∈ (awalk incl ext w sel).1 := by
  obtain ⟨l, e, _⟩ := awalk_spec incl ext w sel
  intro x hx; rw [e]; exact List.mem_append_right _ hx

theorem awalk_mem (incl ext : α → Bool) (w sel : List α) :
    ∀ x ∈ (awalk incl ext w sel).1, x ∈ sel ∨ (x ∈ w ∧ incl x = true) := by
  obtain ⟨l, e, hl, _⟩ := awalk_spec incl ext w sel
  intro x hx; rw [e] at hx
  rcases List.mem_append.mp hx with h | h
  · exact Or.inr ⟨(hl x h).1, (hl x h).2.1⟩
  · exact Or.inl h

/-- a walk that does not find a stop element has included every includable element. -/
theorem awalk_not_found (incl ext : α → Bool) (w : List α) : ∀ sel : List α,
    (awalk incl ext w sel).2 = false → ∀ x ∈ w, incl x = true → x ∈ (awalk incl ext w sel).1 := by
  induction w with
  | nil => intro sel _ x hx; cases hx
  | cons a rest ih =>
    intro sel
    unfold awalk
    by_cases h1 : a ∈ sel
    · rw [if_pos h1]
      intro hf x hx hi
      rcases List.mem_cons.mp hx with rfl | hx
      · exact awalk_sub incl ext rest sel x h1
      · exact ih sel hf x hx hi
    · rw [if_neg h1]
      by_cases h2 : incl a = true
      · have : (!incl a) = false := by simp [h2]
        rw [this]; simp only [Bool.false_eq_true, if_false]
        by_cases h3 : ext a = true
        · rw [if_pos h3]
          intro hf x hx hi
          rcases List.mem_cons.mp hx with rfl | hx
          · exact awalk_sub incl ext rest (x :: sel) x List.mem_cons_self
          · exact ih (a :: sel) hf x hx hi
        · rw [if_neg h3]; intro hf; simp at hf
      · have : (!incl a) = true := by simp [h2]
        rw [this]; simp only [if_true]
        intro hf x hx hi
        rcases List.mem_cons.mp hx with rfl | hx
        · exact absurd hi h2
        · exact ih sel hf x hx hi

/-! ### picks -/

theorem apicks_sub (incl ext : α → Bool) (W : Nat → List α) : ∀ n i sel,
    ∀ x ∈ sel, x ∈ apicks incl ext W n i sel := by
  intro n
  induction n with
  | zero => intro i sel x hx; simpa [apicks] using hx
  | succ n ih =>
    intro i sel x hx
    unfold apicks
    simp only
    split
    · exact ih _ _ x (awalk_sub incl ext _ _ x hx)
    · exact awalk_sub incl ext _ _ x hx

theorem apicks_mem (incl ext : α → Bool) (W : Nat → List α) : ∀ n i sel,
    ∀ x ∈ apicks incl ext W n i sel, x ∈ sel ∨ (∃ j, x ∈ W j) ∧ incl x = true := by
  intro n
  induction n with
  | zero => intro i sel x hx; left; simpa [apicks] using hx
  | succ n ih =>
    intro i sel x hx
    unfold apicks at hx
    simp only at hx
    split at hx
    · rcases ih _ _ x hx with h | h
      · rcases awalk_mem incl ext _ _ x h with h | h
        · exact Or.inl h
        · exact Or.inr ⟨⟨i, h.1⟩, h.2⟩
      · exact Or.inr h
    · rcases awalk_mem incl ext _ _ x hx with h | h
      · exact Or.inl h
      · exact Or.inr ⟨⟨i, h.1⟩, h.2⟩

/-- more iterations select a superset (`shard_mono_size`). -/
theorem apicks_mono (incl ext : α → Bool) (W : Nat → List α) : ∀ n i sel,
    ∀ x ∈ apicks incl ext W n i sel, x ∈ apicks incl ext W (n + 1) i sel := by
  intro n
  induction n with
  | zero =>
    intro i sel x hx
    exact apicks_sub incl ext W 1 i sel x (by simpa [apicks] using hx)
  | succ n ih =>
    intro i sel x hx
    unfold apicks at hx ⊢
    simp only at hx ⊢
    split
    · rename_i h; rw [if_pos h] at hx; exact ih _ _ x hx
    · rename_i h; rw [if_neg h] at hx; exact hx

theorem apicks_mono_le (incl ext : α → Bool) (W : Nat → List α) (i : Nat) (sel : List α) :
    ∀ n m, n ≤ m → ∀ x ∈ apicks incl ext W n i sel, x ∈ apicks incl ext W m i sel := by
  intro n m h
  induction h with
  | refl => intro x hx; exact hx
  | step _ ih => intro x hx; exact apicks_mono incl ext W _ i sel x (ih x hx)

end PfC12
