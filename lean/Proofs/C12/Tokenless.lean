import Proofs.C12.Remove
/-!
# C12 — rings with token-less instances (observation O4): what the code does with them

The whole-zone shortcut (`perZone ≥ instancesCountPerZone[zone]`) takes every eligible instance of the
zone, token-less ones included; the walk can only reach instances that own a token.
-/
namespace PfC12
open C12

/-- eligible instances of zone `z` that own at least one token. -/
def eligTokZ (d : CDesc) (z : String) : CDesc := d.filter fun i => inZone z i && !i.ro && !i.tokens.isEmpty

theorem zoneSel_size_general (cfg : Cfg) (hza : cfg.zoneAware = true) (d : CDesc) (hd : WF d)
    (starts : String → Nat → Nat) (now : Int) (n : Int) (z : String) :
    cnt (eligZ d z) (zoneSel cfg d (mkLB 0 now) starts n z) =
      if n ≥ (countPerZone d z : Nat) then (eligZ d z).length else min n.toNat (eligTokZ d z).length := by
  unfold zoneSel
  rw [zoneStep_eq cfg d hd _ starts n [] (by simp) z, if_pos hza]
  by_cases hge : n ≥ (countPerZone d z : Nat)
  · rw [if_pos hge, if_pos hge]
    apply cnt_self
    intro a ha
    simp only [eligZ, List.mem_filter, Bool.and_eq_true] at ha
    simp only [List.append_nil, List.mem_filter, Bool.and_eq_true, includeRO_plain]
    exact ha
  · rw [if_neg hge, if_neg hge, extend_plain]
    have hE : (eligTokZ d z).Nodup := List.Nodup.sublist List.filter_sublist hd.nodup
    have hcnt := apicks_plain_cnt (includeRO (mkLB 0 now)) (Wz d starts z) (eligTokZ d z) hE (by
      intro i x
      rw [mem_Wz, includeRO_plain]
      simp only [eligTokZ, List.mem_filter, Bool.and_eq_true, Bool.not_eq_true', List.isEmpty_eq_false_iff]
      constructor
      · rintro ⟨hx, ⟨hz, hr⟩, ht⟩; exact ⟨⟨⟨hx, hz⟩, ht⟩, by simpa using hr⟩
      · rintro ⟨⟨⟨hx, hz⟩, ht⟩, hr⟩; exact ⟨hx, ⟨hz, by simpa using hr⟩, ht⟩) n.toNat 0 []
    have h0 : cnt (eligTokZ d z) ([] : List CInst) = 0 := by
      unfold cnt; rw [List.length_eq_zero_iff, List.filter_eq_nil_iff]; intro a _; simp
    rw [h0] at hcnt
    -- token-less eligible instances are never selected by the walk
    have hsame : cnt (eligZ d z) (apicks (includeRO (mkLB 0 now)) noExt (Wz d starts z) n.toNat 0 []) =
        cnt (eligTokZ d z) (apicks (includeRO (mkLB 0 now)) noExt (Wz d starts z) n.toNat 0 []) := by
      unfold cnt eligZ eligTokZ
      rw [List.filter_filter, List.filter_filter]
      congr 1
      apply List.filter_congr
      intro a _
      by_cases hm : a ∈ apicks (includeRO (mkLB 0 now)) noExt (Wz d starts z) n.toNat 0 []
      · have ht : a.tokens ≠ [] := by
          rcases apicks_mem _ _ _ _ _ _ a hm with h0' | ⟨⟨j, hj⟩, _⟩
          · cases h0'
          · exact ((mem_Wz d starts z j a).mp hj).2
        have : a.tokens.isEmpty = false := by simpa using ht
        simp [hm, this]
      · simp [hm]
    rw [hsame, hcnt]; simp

theorem shard_size_general (cfg : Cfg) (hza : cfg.zoneAware = true) (d : CDesc) (hd : WF d)
    (starts : String → Nat → Nat) (size now : Int) (hsize : 0 < size) (z : String) (hz : z ∈ zonesOf d) :
    cnt (eligZ d z) (shard cfg d starts size 0 now) =
      if expectedPerZone size (zonesOf d).length ≥ (countPerZone d z : Nat) then (eligZ d z).length
      else min (expectedPerZone size (zonesOf d).length).toNat (eligTokZ d z).length := by
  have hnot : ¬ size ≤ 0 := by omega
  unfold shard
  rw [if_neg hnot]
  have hcongr : ∀ a ∈ eligZ d z, a ∈ shuffleShard cfg d starts size 0 now ↔
      a ∈ zoneSel cfg d (mkLB 0 now) starts (perZone cfg d size) z := by
    intro a ha
    have hzone : a.zone = z := by
      simp only [eligZ, List.mem_filter, Bool.and_eq_true] at ha
      exact (inZone_iff z a).mp ha.2.1
    rw [mem_shuffleShard_za cfg hza d hd starts size 0 now (early_plain _ _)]
    constructor
    · rintro ⟨z', _, h⟩
      have := (zoneSel_mem_za cfg hza d hd _ starts _ z' a h).2.1
      have : z' = z := by rw [← this, hzone]
      subst this; exact h
    · intro h; exact ⟨z, hz, h⟩
  rw [cnt_congr _ _ _ hcongr]
  have hp : perZone cfg d size = expectedPerZone size (zonesOf d).length := by simp [perZone, hza]
  rw [hp]
  exact zoneSel_size_general cfg hza d hd starts now _ z

end PfC12

namespace PfC12
open C12

/-- a member either owns a token or was taken by the whole-zone shortcut. -/
theorem shard_member_token_or_shortcut (cfg : Cfg) (hza : cfg.zoneAware = true) (d : CDesc) (hd : WF d)
    (starts : String → Nat → Nat) (size period now : Int) (hsize : 0 < size)
    (he : early d (mkLB period now) = false) :
    ∀ m ∈ shard cfg d starts size period now,
      m.tokens ≠ [] ∨ expectedPerZone size (zonesOf d).length ≥ (countPerZone d m.zone : Nat) := by
  intro m hm
  have hnot : ¬ size ≤ 0 := by omega
  unfold shard at hm
  rw [if_neg hnot] at hm
  obtain ⟨z, _, hz⟩ := (mem_shuffleShard_za cfg hza d hd starts size period now he m).mp hm
  have hzone := (zoneSel_mem_za cfg hza d hd _ starts _ z m hz).2.1
  have hp : perZone cfg d size = expectedPerZone size (zonesOf d).length := by simp [perZone, hza]
  unfold zoneSel at hz
  rw [zoneStep_eq cfg d hd _ starts _ [] (by simp) z, if_pos hza, hp] at hz
  by_cases hge : expectedPerZone size (zonesOf d).length ≥ (countPerZone d z : Nat)
  · right; rw [hzone]; exact hge
  · left
    rw [if_neg hge] at hz
    rcases apicks_mem _ _ _ _ _ _ m hz with h0 | ⟨⟨j, hj⟩, _⟩
    · cases h0
    · exact ((mem_Wz d starts z j m).mp hj).2

end PfC12
