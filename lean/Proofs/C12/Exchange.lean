import Proofs.C12.Count
/-!
# C12 — exchange invariant: removing one instance changes the plain shard by at most one

Same walk lists `W i`, eligibility `el` (ring `r`) versus `el' y = el y ∧ y ≠ x` (ring `r` without
`x`; removing `x`'s tokens from the walk lists is the same as making `x` ineligible, see
`find?_filter`). `S` / `S'` are the selections in `r` / `r - x` after the same number of iterations.
-/
namespace PfC12
variable {α : Type} [DecidableEq α]

def pcand (el : α → Bool) (S : List α) : α → Bool := fun y => el y && decide (y ∉ S)

theorem apicks_plain_succ (el : α → Bool) (W : Nat → List α) (n i : Nat) (S : List α) :
    apicks el noExt W (n + 1) i S =
      match (W i).find? (pcand el S) with
      | some y => apicks el noExt W n (i + 1) (y :: S)
      | none => S := by
  show (let r := awalk el noExt (W i) S; if r.2 then apicks el noExt W n (i + 1) r.1 else r.1) = _
  simp only
  rw [awalk_plain]
  unfold pcand
  cases (W i).find? (fun y => el y && decide (y ∉ S)) <;> simp

/-- the relation between the selections in `r` and in `r - x`. -/
inductive ExInv (el : α → Bool) (W : Nat → List α) (x : α) (S S' : List α) : Prop
  | same (hx : x ∉ S) (h : ∀ a, a ∈ S' ↔ a ∈ S)
  | swap (z : α) (hx : x ∈ S) (hz : z ∉ S) (hel : el z = true) (hzx : z ≠ x) (hzW : ∀ j, z ∈ W j)
      (h : ∀ a, a ∈ S' ↔ ((a ∈ S ∧ a ≠ x) ∨ a = z))
  | drop (hx : x ∈ S) (h : ∀ a, a ∈ S' ↔ (a ∈ S ∧ a ≠ x))
      (stuck : ∀ j, ∀ a ∈ W j, el a = true → a ≠ x → a ∈ S')

theorem find?_strengthen (P Q : α → Bool) (l : List α) (y : α) (h : l.find? P = some y)
    (hQ : Q y = true) : l.find? (fun a => P a && Q a) = some y := by
  induction l with
  | nil => simp at h
  | cons a l ih =>
    rw [List.find?_cons] at h ⊢
    by_cases hp : P a = true
    · rw [hp] at h
      have : a = y := by simpa using h
      subst this
      simp [hp, hQ]
    · have hp' : P a = false := by simpa using hp
      rw [hp'] at h
      simp only [hp', Bool.false_and]
      exact ih h

theorem find?_none_strengthen (P Q : α → Bool) (l : List α) (h : l.find? P = none) :
    l.find? (fun a => P a && Q a) = none := by
  rw [List.find?_eq_none] at h ⊢
  intro a ha; have := h a ha; simp at this ⊢; intro hp; exact absurd hp (by simpa using this)

theorem ExInv.step (el : α → Bool) (W : Nat → List α) (x : α)
    (hsame : ∀ i j a, a ∈ W i → a ∈ W j) : ∀ n i (S S' : List α),
    ExInv el W x S S' →
    ExInv el W x (apicks el noExt W n i S) (apicks (fun y => el y && decide (y ≠ x)) noExt W n i S') := by
  intro n
  induction n with
  | zero => intro i S S' h; simpa [apicks] using h
  | succ n ih =>
    intro i S S' hinv
    rw [apicks_plain_succ, apicks_plain_succ]
    cases hinv with
    | same hx h =>
      -- candidates of r' = candidates of r other than x
      have hP : pcand (fun y => el y && decide (y ≠ x)) S' = fun a => pcand el S a && decide (a ≠ x) := by
        funext a; unfold pcand
        have := h a
        by_cases h1 : a ∈ S <;> by_cases h2 : a ∈ S' <;> simp_all [Bool.and_comm, Bool.and_assoc]
      rw [hP]
      cases hf : (W i).find? (pcand el S) with
      | none =>
        rw [find?_none_strengthen _ _ _ hf]
        exact .same hx h
      | some y =>
        have hy := List.find?_some hf
        unfold pcand at hy
        simp only [Bool.and_eq_true, decide_eq_true_eq] at hy
        by_cases hyx : y = x
        · subst hyx
          cases hf' : (W i).find? (fun a => pcand el S a && decide (a ≠ y)) with
          | none =>
            simp only
            -- r' is stuck; r is stuck after selecting y
            have stuck : ∀ j, ∀ a ∈ W j, el a = true → a ≠ y → a ∈ S' := by
              intro j a ha hel hay
              have := List.find?_eq_none.mp hf' a (hsame j i a ha)
              unfold pcand at this
              simp only [Bool.and_eq_true, decide_eq_true_eq, not_and] at this
              by_cases haS : a ∈ S
              · exact (h a).mpr haS
              · exact absurd hay (this ⟨hel, haS⟩)
            have hrest : apicks el noExt W n (i + 1) (y :: S) = y :: S := by
              cases n with
              | zero => simp [apicks]
              | succ n =>
                rw [apicks_plain_succ]
                have : (W (i + 1)).find? (pcand el (y :: S)) = none := by
                  rw [List.find?_eq_none]
                  intro a ha
                  unfold pcand
                  simp only [Bool.and_eq_true, decide_eq_true_eq, not_and, Decidable.not_not, List.mem_cons]
                  intro hel
                  by_cases hay : a = y
                  · left; exact hay
                  · right; exact (h a).mp (stuck (i + 1) a ha hel hay)
                rw [this]
            rw [hrest]
            refine .drop List.mem_cons_self ?_ stuck
            intro a
            rw [h a]
            constructor
            · intro haS; exact ⟨List.mem_cons_of_mem _ haS, fun e => hx (e ▸ haS)⟩
            · rintro ⟨hm, hne⟩
              rcases List.mem_cons.mp hm with e | hm
              · exact absurd e hne
              · exact hm
          | some z =>
            simp only
            have hz := List.find?_some hf'
            have hzw := List.mem_of_find?_eq_some hf'
            unfold pcand at hz
            simp only [Bool.and_eq_true, decide_eq_true_eq] at hz
            apply ih
            refine .swap z List.mem_cons_self ?_ hz.1.1 hz.2 (fun j => hsame i j z hzw) ?_
            · intro hm
              rcases List.mem_cons.mp hm with e | hm
              · exact hz.2 e
              · exact hz.1.2 hm
            · intro a
              simp only [List.mem_cons]
              rw [h a]
              constructor
              · rintro (e | haS)
                · right; exact e
                · left; exact ⟨Or.inr haS, fun e => hx (e ▸ haS)⟩
              · rintro (⟨e | haS, hne⟩ | e)
                · exact absurd e hne
                · right; exact haS
                · left; exact e
        · have : (W i).find? (fun a => pcand el S a && decide (a ≠ x)) = some y :=
            find?_strengthen _ _ _ _ hf (by simpa using hyx)
          rw [this]
          simp only
          apply ih
          refine .same ?_ ?_
          · intro hm
            rcases List.mem_cons.mp hm with e | hm
            · exact hyx e.symm
            · exact hx hm
          · intro a; simp only [List.mem_cons]; rw [h a]
    | swap z hx hz hel hzx hzW h =>
      have hP : pcand (fun y => el y && decide (y ≠ x)) S' = fun a => pcand el S a && decide (a ≠ z) := by
        funext a; unfold pcand
        have := h a
        by_cases h1 : a ∈ S <;> by_cases h2 : a ∈ S' <;> by_cases h3 : a = x <;> by_cases h4 : a = z <;>
          simp_all [Bool.and_comm, Bool.and_assoc]
      rw [hP]
      cases hf : (W i).find? (pcand el S) with
      | none =>
        exfalso
        have := List.find?_eq_none.mp hf z (hzW i)
        unfold pcand at this
        simp [hel, hz] at this
      | some y =>
        have hy := List.find?_some hf
        unfold pcand at hy
        simp only [Bool.and_eq_true, decide_eq_true_eq] at hy
        have hyx : y ≠ x := fun e => hy.2 (e ▸ hx)
        by_cases hyz : y = z
        · subst hyz
          cases hf' : (W i).find? (fun a => pcand el S a && decide (a ≠ y)) with
          | none =>
            simp only
            have stuck : ∀ j, ∀ a ∈ W j, el a = true → a ≠ x → a ∈ S' := by
              intro j a ha hela hax
              have := List.find?_eq_none.mp hf' a (hsame j i a ha)
              unfold pcand at this
              simp only [Bool.and_eq_true, decide_eq_true_eq, not_and] at this
              by_cases hay : a = y
              · exact (h a).mpr (Or.inr hay)
              · by_cases haS : a ∈ S
                · exact (h a).mpr (Or.inl ⟨haS, hax⟩)
                · exact absurd hay (this ⟨hela, haS⟩)
            have hrest : apicks el noExt W n (i + 1) (y :: S) = y :: S := by
              cases n with
              | zero => simp [apicks]
              | succ n =>
                rw [apicks_plain_succ]
                have : (W (i + 1)).find? (pcand el (y :: S)) = none := by
                  rw [List.find?_eq_none]
                  intro a ha
                  unfold pcand
                  simp only [Bool.and_eq_true, decide_eq_true_eq, not_and, Decidable.not_not, List.mem_cons]
                  intro hela
                  by_cases hax : a = x
                  · right; exact hax ▸ hx
                  · rcases (h a).mp (stuck (i + 1) a ha hela hax) with ⟨haS, _⟩ | e
                    · right; exact haS
                    · left; exact e
                rw [this]
            rw [hrest]
            refine .drop (List.mem_cons_of_mem _ hx) ?_ stuck
            intro a
            rw [h a]
            simp only [List.mem_cons]
            constructor
            · rintro (⟨haS, hne⟩ | e)
              · exact ⟨Or.inr haS, hne⟩
              · exact ⟨Or.inl e, e ▸ hzx⟩
            · rintro ⟨e | haS, hne⟩
              · right; exact e
              · left; exact ⟨haS, hne⟩
          | some z2 =>
            simp only
            have hz2 := List.find?_some hf'
            have hz2w := List.mem_of_find?_eq_some hf'
            unfold pcand at hz2
            simp only [Bool.and_eq_true, decide_eq_true_eq] at hz2
            apply ih
            refine .swap z2 (List.mem_cons_of_mem _ hx) ?_ hz2.1.1 (fun e => hz2.1.2 (e ▸ hx))
              (fun j => hsame i j z2 hz2w) ?_
            · intro hm
              rcases List.mem_cons.mp hm with e | hm
              · exact hz2.2 e
              · exact hz2.1.2 hm
            · intro a
              simp only [List.mem_cons]
              rw [h a]
              constructor
              · rintro (e | ⟨haS, hne⟩ | e)
                · right; exact e
                · left; exact ⟨Or.inr haS, hne⟩
                · left; exact ⟨Or.inl e, e ▸ hzx⟩
              · rintro (⟨e | haS, hne⟩ | e)
                · right; right; exact e
                · right; left; exact ⟨haS, hne⟩
                · left; exact e
        · have : (W i).find? (fun a => pcand el S a && decide (a ≠ z)) = some y :=
            find?_strengthen _ _ _ _ hf (by simpa using hyz)
          rw [this]
          simp only
          apply ih
          refine .swap z (List.mem_cons_of_mem _ hx) ?_ hel hzx hzW ?_
          · intro hm
            rcases List.mem_cons.mp hm with e | hm
            · exact hyz e.symm
            · exact hz hm
          · intro a
            simp only [List.mem_cons]
            rw [h a]
            constructor
            · rintro (e | ⟨haS, hne⟩ | e)
              · left; exact ⟨Or.inl e, e ▸ hyx⟩
              · left; exact ⟨Or.inr haS, hne⟩
              · right; exact e
            · rintro (⟨e | haS, hne⟩ | e)
              · left; exact e
              · right; left; exact ⟨haS, hne⟩
              · right; right; exact e
    | drop hx h stuck =>
      have h1 : (W i).find? (pcand el S) = none := by
        rw [List.find?_eq_none]
        intro a ha
        unfold pcand
        simp only [Bool.and_eq_true, decide_eq_true_eq, not_and, Decidable.not_not]
        intro hela
        by_cases hax : a = x
        · exact hax ▸ hx
        · exact ((h a).mp (stuck i a ha hela hax)).1
      have h2 : (W i).find? (pcand (fun y => el y && decide (y ≠ x)) S') = none := by
        rw [List.find?_eq_none]
        intro a ha
        unfold pcand
        simp only [Bool.and_eq_true, decide_eq_true_eq, not_and, Decidable.not_not]
        rintro ⟨hela, hax⟩
        exact stuck i a ha hela hax
      rw [h1, h2]
      exact .drop hx h stuck

/-- what the invariant says about the two selections. -/
theorem ExInv.result {el : α → Bool} {W : Nat → List α} {x : α} {S S' : List α} (h : ExInv el W x S S') :
    (x ∉ S → ∀ a, a ∈ S' ↔ a ∈ S) ∧
    ∃ Z : List α, Z.length ≤ 1 ∧ (∀ z ∈ Z, z ∉ S) ∧ ∀ a, a ∈ S' ↔ ((a ∈ S ∧ a ≠ x) ∨ a ∈ Z) := by
  cases h with
  | same hx h =>
    refine ⟨fun _ => h, [], by simp, by simp, ?_⟩
    intro a; rw [h a]; simp only [List.not_mem_nil, or_false]
    exact ⟨fun haS => ⟨haS, fun e => hx (e ▸ haS)⟩, fun hh => hh.1⟩
  | swap z hx hz _ _ _ h =>
    refine ⟨fun hn => absurd hx hn, [z], by simp, by simpa using hz, ?_⟩
    intro a; rw [h a]; simp
  | drop hx h _ =>
    refine ⟨fun hn => absurd hx hn, [], by simp, by simp, ?_⟩
    intro a; rw [h a]; simp

end PfC12
