import Proofs.C12.Remove
import Proofs.C12.SuperRO
/-!
# C12 — one instance switches to read-only: the plain shard changes by at most one

Making `x` read-only leaves its tokens in the walk but makes it ineligible — per zone exactly the
selection of the ring without `x` for the same number of iterations; zones and per-zone counts do not
change, so no guard on the zone set is needed.
-/
namespace PfC12
open C12

/-- `x` with the read-only flag set (and any `ReadOnlyUpdatedTimestamp`). -/
def setRO (x : CInst) (t : Int) : CInst → CInst := fun y => if y = x then { x with ro := true, roTs := t } else y

theorem map_eq_self {γ : Type} (f : γ → γ) (l : List γ) (h : ∀ a ∈ l, f a = a) : l.map f = l := by
  have : l.map f = l.map id := List.map_congr_left (fun a ha => by simpa using h a ha)
  rw [this, List.map_id]

theorem setRO_roOnly (x : CInst) (t : Int) : ROOnly (setRO x t) := by
  refine ⟨?_, ?_, ?_, ?_⟩ <;> intro i <;> unfold setRO <;> split <;> rename_i h <;> first | rfl | (rw [h])

theorem countPerZone_map (g : CInst → CInst) (hg : ROOnly g) (d : CDesc) (z : String) :
    countPerZone (d.map g) z = countPerZone d z := by
  unfold countPerZone
  rw [filter_zone_map g hg, List.length_map]

theorem zwalk_setRO (d : CDesc) (hd : WF d) (x : CInst) (t : Int) (starts : String → Nat → Nat) (z : String) (n : Nat) :
    zwalk (d.map (setRO x t)) starts z n = zwalk (d.filter (neq x)) starts z n := by
  have hg := setRO_roOnly x t
  have ginj : ∀ a ∈ d, ∀ b ∈ d, setRO x t a = setRO x t b → a = b := by
    intro a ha b hb e
    apply hd.idInj a ha b hb
    rw [← hg.id a, ← hg.id b, e]
  unfold zwalk
  rw [Wz_map _ hg, Wz_filter d hd (neq x) starts z, apicks_filter_eq]
  have hmap := apicks_map (setRO x t) (fun i : CInst => !i.ro) noExt (Wz d starts z) d ginj
    (fun i a ha => ((mem_Wz d starts z i a).mp ha).1.1) n 0 [] (by simp)
  simp only [List.map_nil] at hmap
  rw [hmap]
  have hel : (fun a : CInst => !(setRO x t a).ro) = fun y : CInst => !y.ro && neq x y := by
    funext a
    unfold setRO neq
    by_cases e : a = x
    · simp [e]
    · simp [e]
  have hne : (fun a : CInst => noExt (setRO x t a)) = (noExt : CInst → Bool) := by funext a; rfl
  rw [hel, hne]
  -- every selected instance is different from x, so the relabelling does nothing
  apply map_eq_self
  intro a ha
  rcases apicks_mem _ _ _ _ _ _ a ha with h0 | ⟨_, hi⟩
  · cases h0
  · have : a ≠ x := by
      simp only [neq, Bool.and_eq_true, decide_eq_true_eq] at hi; exact hi.2
    unfold setRO; rw [if_neg this]

/-- **one instance switches to read-only**: the new plain shard is the old one without `x` plus at most
one new instance (and unchanged if `x` was not a member). No guard: zones and counts are unchanged. -/
theorem shard_set_readonly_one (cfg : Cfg) (d : CDesc) (hd : WF d) (ht : AllTok d) (starts : String → Nat → Nat)
    (size now now' : Int) (hsize : 0 < size) (x : CInst) (t : Int) :
    (x ∉ shard cfg d starts size 0 now →
        ∀ a, a ∈ shard cfg (d.map (setRO x t)) starts size 0 now' ↔ a ∈ shard cfg d starts size 0 now) ∧
    ∃ Z : List CInst, Z.length ≤ 1 ∧ (∀ z ∈ Z, z ∉ shard cfg d starts size 0 now) ∧
      ∀ a, a ∈ shard cfg (d.map (setRO x t)) starts size 0 now' ↔
        ((a ∈ shard cfg d starts size 0 now ∧ a ≠ x) ∨ a ∈ Z) := by
  have hnot : ¬ size ≤ 0 := by omega
  have hg := setRO_roOnly x t
  have hd' : WF (d.map (setRO x t)) := hd.map _ hg
  have ht' : AllTok (d.map (setRO x t)) := ht.map _ hg
  unfold shard
  simp only [if_neg hnot]
  cases hza : cfg.zoneAware with
  | false =>
    rw [shuffleShard_nza cfg hza d hd starts size 0 now (early_plain _ _),
      shuffleShard_nza cfg hza _ hd' starts size 0 now' (early_plain _ _),
      extend_plain, extend_plain, includeRO_plain_fn, includeRO_plain_fn, Wall_map _ hg]
    have ginj : ∀ a ∈ d, ∀ b ∈ d, setRO x t a = setRO x t b → a = b := by
      intro a ha b hb e
      apply hd.idInj a ha b hb
      rw [← hg.id a, ← hg.id b, e]
    have hmap := apicks_map (setRO x t) (fun i : CInst => !i.ro) noExt (Wall d starts) d ginj
      (fun i a ha => ((mem_Wall d starts i a).mp ha).1) size.toNat 0 [] (by simp)
    simp only [List.map_nil] at hmap
    rw [hmap]
    have hel : (fun a : CInst => !(setRO x t a).ro) = fun y : CInst => !y.ro && decide (y ≠ x) := by
      funext a
      unfold setRO
      by_cases e : a = x
      · simp [e]
      · simp [e]
    have hne : (fun a : CInst => noExt (setRO x t a)) = (noExt : CInst → Bool) := by funext a; rfl
    rw [hel, hne]
    have hid : (apicks (fun y : CInst => !y.ro && decide (y ≠ x)) noExt (Wall d starts) size.toNat 0 []).map (setRO x t) =
        apicks (fun y : CInst => !y.ro && decide (y ≠ x)) noExt (Wall d starts) size.toNat 0 [] := by
      apply map_eq_self
      intro a ha
      rcases apicks_mem _ _ _ _ _ _ a ha with h0 | ⟨_, hi⟩
      · cases h0
      · have : a ≠ x := by simp only [Bool.and_eq_true, decide_eq_true_eq] at hi; exact hi.2
        unfold setRO; rw [if_neg this]
    rw [hid]
    exact (ExInv.step _ _ x (Wall_same d starts) size.toNat 0 [] [] (.same (by simp) (by simp))).result
  | true =>
    have hzs : zonesOf (d.map (setRO x t)) = zonesOf d := zonesOf_map _ hg d
    have hN : perZone cfg (d.map (setRO x t)) size = perZone cfg d size := by unfold perZone; rw [hzs]
    have hS : ∀ a, a ∈ shuffleShard cfg d starts size 0 now ↔
        ∃ z ∈ zonesOf d, a ∈ zwalk d starts z (perZone cfg d size).toNat := by
      intro a
      rw [mem_shuffleShard_za cfg hza d hd starts size 0 now (early_plain _ _)]
      constructor
      · rintro ⟨z, hz1, hz2⟩; exact ⟨z, hz1, (zoneSel_plain_walk cfg hza d hd ht starts now _ z a).mp hz2⟩
      · rintro ⟨z, hz1, hz2⟩; exact ⟨z, hz1, (zoneSel_plain_walk cfg hza d hd ht starts now _ z a).mpr hz2⟩
    have hS' : ∀ a, a ∈ shuffleShard cfg (d.map (setRO x t)) starts size 0 now' ↔
        ∃ z ∈ zonesOf d, a ∈ zwalk (d.filter (neq x)) starts z (perZone cfg d size).toNat := by
      intro a
      rw [mem_shuffleShard_za cfg hza _ hd' starts size 0 now' (early_plain _ _), hzs, hN]
      constructor
      · rintro ⟨z, hz1, hz2⟩
        exact ⟨z, hz1, by rw [← zwalk_setRO d hd x t]; exact (zoneSel_plain_walk cfg hza _ hd' ht' starts now' _ z a).mp hz2⟩
      · rintro ⟨z, hz1, hz2⟩
        exact ⟨z, hz1, (zoneSel_plain_walk cfg hza _ hd' ht' starts now' _ z a).mpr (by rw [zwalk_setRO d hd x t]; exact hz2)⟩
    exact exchange_assemble d hd x starts _ _ _ hS hS'

end PfC12
