import Proofs.C12.WindowConst
import Proofs.C12.Super
/-!
# C12 — "depends on nothing else": the shard does not depend on the order in which the Go map is
listed, nor (without look-back) on the clock
-/
namespace PfC12
open C12

/-! ### the clock is irrelevant without look-back -/

theorem walk_congr_fn (p p' : LB) (h1 : includeRO p = includeRO p') (h2 : extend p = extend p') :
    ∀ (w sel : List CInst), walk p w sel = walk p' w sel := by
  intro w
  induction w with
  | nil => intro sel; rfl
  | cons a rest ih =>
    intro sel
    unfold walk
    rw [h1, h2, ih, ih]

theorem picks_congr_fn (p p' : LB) (h1 : includeRO p = includeRO p') (h2 : extend p = extend p')
    (toks : List (Nat × CInst)) (starts : Nat → Nat) : ∀ n i sel, picks p toks starts n i sel = picks p' toks starts n i sel := by
  intro n
  induction n with
  | zero => intro i sel; rfl
  | succ n ih =>
    intro i sel
    unfold picks
    rw [walk_congr_fn p p' h1 h2]
    simp only
    split
    · exact ih _ _
    · rfl

theorem zoneStep_congr_fn (cfg : Cfg) (d : CDesc) (p p' : LB) (h1 : includeRO p = includeRO p') (h2 : extend p = extend p')
    (starts : String → Nat → Nat) (n : Int) : zoneStep cfg d p starts n = zoneStep cfg d p' starts n := by
  funext shard z
  unfold zoneStep
  rw [h1, picks_congr_fn p p' h1 h2, picks_congr_fn p p' h1 h2]

/-- **without look-back the clock is irrelevant**: `ShuffleShard` passes `time.Now()`, and nothing
depends on it. -/
theorem shard_plain_now_irrelevant (cfg : Cfg) (d : CDesc) (starts : String → Nat → Nat) (size now now' : Int) :
    shard cfg d starts size 0 now = shard cfg d starts size 0 now' := by
  have h1 : includeRO (mkLB 0 now) = includeRO (mkLB 0 now') := by rw [includeRO_plain_fn, includeRO_plain_fn]
  have h2 : extend (mkLB 0 now) = extend (mkLB 0 now') := by rw [extend_plain, extend_plain]
  unfold shard
  split
  · unfold filterOutRO
    simp only [h1]
    have : (mkLB 0 now).on = false := rfl
    have : (mkLB 0 now').on = false := rfl
    simp [mkLB]
  · rw [shuffleShard_unfold, shuffleShard_unfold, early_plain, early_plain]
    simp only [Bool.false_eq_true, if_false]
    rw [zoneStep_congr_fn cfg d _ _ h1 h2]

/-! ### permutation invariance -/

theorem oldestRegAux_perm : ∀ {d d' : CDesc}, d.Perm d' → ∀ r, oldestRegAux d r = oldestRegAux d' r := by
  intro d d' h
  induction h with
  | nil => intro r; rfl
  | cons x _ ih =>
    intro r
    unfold oldestRegAux
    split
    · rfl
    · split
      · exact ih _
      · split
        · exact ih _
        · exact ih _
  | swap x y l =>
    intro r
    simp only [oldestRegAux]
    repeat' split
    all_goals first
      | rfl
      | (exfalso; simp_all; done)
      | (exfalso; simp_all; omega)
      | (congr 1; simp_all; omega)
      | (congr 1; simp_all; done)
  | trans _ _ ih1 ih2 => intro r; rw [ih1, ih2]

theorem early_perm {d d' : CDesc} (h : d.Perm d') (p : LB) : early d p = early d' p := by
  unfold early oldestReg; rw [oldestRegAux_perm h]

theorem WF.perm {d d' : CDesc} (hd : WF d) (h : d.Perm d') : WF d' :=
  ⟨(h.map _).nodup_iff.mp hd.ids, by
    unfold TokNodup
    exact (List.Perm.flatMap_right _ h).nodup_iff.mp hd.toks⟩

theorem ownedTokens_perm {l l' : CDesc} (h : l.Perm l') (hn : TokNodup l) : ownedTokens l = ownedTokens l' := by
  have hn' : TokNodup l' := (List.Perm.flatMap_right _ h).nodup_iff.mp hn
  have hs1 : (ownedTokens l).Pairwise (fun a b => tokLe a b = true) := List.pairwise_mergeSort tokLe_trans tokLe_total _
  have hs2 : (ownedTokens l').Pairwise (fun a b => tokLe a b = true) := List.pairwise_mergeSort tokLe_trans tokLe_total _
  have hperm : (ownedTokens l).Perm (ownedTokens l') := by
    rw [ownedTokens_def, ownedTokens_def]
    exact (List.mergeSort_perm _ _).trans ((List.Perm.flatMap_right _ h).trans (List.mergeSort_perm _ _).symm)
  refine List.Perm.eq_of_pairwise ?_ hs1 hs2 hperm
  intro a b ha hb h1 h2
  simp only [tokLe, decide_eq_true_eq] at h1 h2
  have hk : a.1 = b.1 := by omega
  have hb' : b ∈ ownedTokens l := hperm.mem_iff.mpr hb
  have hnd : ((ownedTokens l).map (·.1)).Nodup := by
    have : (List.map (·.1) (ownedTokens l)).Perm ((pairs l).map (·.1)) := by
      rw [ownedTokens_def]; exact (List.mergeSort_perm _ _).map _
    rw [this.nodup_iff, pairs_map_fst]; exact hn
  exact nodup_map_inj (·.1) _ hnd a ha b hb' hk

theorem zonesOf_perm {d d' : CDesc} (h : d.Perm d') : zonesOf d = zonesOf d' := by
  have h1 := zonesOf_asc d
  have h2 := zonesOf_asc d'
  have hperm : (zonesOf d).Perm (zonesOf d') := by
    rw [List.perm_ext_iff_of_nodup (zonesOf_nodup d) (zonesOf_nodup d')]
    intro z
    rw [mem_zonesOf, mem_zonesOf]
    exact ⟨fun ⟨i, hi, e⟩ => ⟨i, h.mem_iff.mp hi, e⟩, fun ⟨i, hi, e⟩ => ⟨i, h.mem_iff.mpr hi, e⟩⟩
  refine List.Perm.eq_of_pairwise (le := fun a b => a < b) ?_ h1 h2 hperm
  intro a b _ _ hab hba
  exact absurd hba (String.lt_asymm hab)

theorem countPerZone_perm {d d' : CDesc} (h : d.Perm d') (z : String) : countPerZone d z = countPerZone d' z := by
  unfold countPerZone; exact (h.filter _).length_eq

/-- **the shard does not depend on the order of the map entries** (plain shard for every size; look-back
shard for every positive size). -/
theorem shard_perm_invariant (cfg : Cfg) (d d' : CDesc) (hd : WF d) (h : d.Perm d') (starts : String → Nat → Nat)
    (size period now : Int) (hs : 0 < size ∨ period = 0) (m : CInst) :
    m ∈ shard cfg d starts size period now ↔ m ∈ shard cfg d' starts size period now := by
  have hd' := hd.perm h
  by_cases hsz : size ≤ 0
  · have hp : period = 0 := by
      rcases hs with h0 | h0
      · omega
      · exact h0
    subst hp
    unfold shard
    rw [if_pos hsz, if_pos hsz, mem_filterOutRO_plain, mem_filterOutRO_plain]
    exact ⟨fun hh => ⟨h.mem_iff.mp hh.1, hh.2⟩, fun hh => ⟨h.mem_iff.mpr hh.1, hh.2⟩⟩
  · unfold shard
    rw [if_neg hsz, if_neg hsz]
    by_cases he : early d (mkLB period now) = true
    · rw [shuffleShard_unfold, shuffleShard_unfold, ← early_perm h, he]
      simp only [if_true]
      exact h.mem_iff
    · have he1 : early d (mkLB period now) = false := by simpa using he
      have he2 : early d' (mkLB period now) = false := by rw [← early_perm h]; exact he1
      cases hza : cfg.zoneAware with
      | true =>
        rw [mem_shuffleShard_za cfg hza d hd starts size period now he1,
          mem_shuffleShard_za cfg hza d' hd' starts size period now he2, ← zonesOf_perm h]
        have hn : perZone cfg d' size = perZone cfg d size := by unfold perZone; rw [zonesOf_perm h]
        rw [hn]
        have hz : ∀ z, (m ∈ zoneSel cfg d (mkLB period now) starts (perZone cfg d size) z ↔
            m ∈ zoneSel cfg d' (mkLB period now) starts (perZone cfg d size) z) := by
          intro z
          unfold zoneSel
          rw [zoneStep_eq cfg d hd _ starts _ [] (by simp) z, zoneStep_eq cfg d' hd' _ starts _ [] (by simp) z,
            if_pos hza, if_pos hza, ← countPerZone_perm h z]
          split
          · simp only [List.append_nil, List.mem_filter]
            exact ⟨fun hh => ⟨h.mem_iff.mp hh.1, hh.2⟩, fun hh => ⟨h.mem_iff.mpr hh.1, hh.2⟩⟩
          · have : Wz d' starts z = Wz d starts z := by
              funext i; unfold Wz zoneTokens
              rw [ownedTokens_perm (h.filter _) (hd.toks.filter _)]
            rw [this]
        constructor
        · rintro ⟨z, hz1, hz2⟩; exact ⟨z, hz1, (hz z).mp hz2⟩
        · rintro ⟨z, hz1, hz2⟩; exact ⟨z, hz1, (hz z).mpr hz2⟩
      | false =>
        rw [shuffleShard_nza cfg hza d hd starts size period now he1,
          shuffleShard_nza cfg hza d' hd' starts size period now he2]
        have : Wall d' starts = Wall d starts := by
          funext i; unfold Wall allTokens; rw [ownedTokens_perm h hd.toks]
        rw [this]

end PfC12
