import Proofs.C12.Super
/-!
# C12 — look-back superset when read-only flags changed inside the window

The earlier ring is `(d.filter keep).map g` where `g` may change only `ro` / `roTs`
(`ROOnly g`). The plain selection on the mapped ring is the image under `g` of the plain selection
on `d.filter keep` with eligibility `fun i => !(g i).ro`; the abstract lemma
`apicks_lb_superset` then applies as before.
-/
namespace PfC12
open C12

structure ROOnly (g : CInst → CInst) : Prop where
  id : ∀ i, (g i).id = i.id
  zone : ∀ i, (g i).zone = i.zone
  tokens : ∀ i, (g i).tokens = i.tokens
  regTs : ∀ i, (g i).regTs = i.regTs

def gp (g : CInst → CInst) : Nat × CInst → Nat × CInst := fun p => (p.1, g p.2)

theorem pairs_map (g : CInst → CInst) (hg : ROOnly g) (l : CDesc) : pairs (l.map g) = (pairs l).map (gp g) := by
  unfold pairs
  induction l with
  | nil => rfl
  | cons a l ih =>
    simp only [List.map_cons, List.flatMap_cons, List.map_append, ih, hg.tokens, List.map_map]
    rfl

theorem ownedTokens_map (g : CInst → CInst) (hg : ROOnly g) (l : CDesc) :
    ownedTokens (l.map g) = (ownedTokens l).map (gp g) := by
  rw [ownedTokens_def, ownedTokens_def, pairs_map g hg]
  exact (List.map_mergeSort (r := tokLe) (s := tokLe) (f := gp g) (l := pairs l) (fun a _ b _ => rfl)).symm

theorem searchToken_map {β γ : Type} (f : Nat × β → Nat × γ) (hf : ∀ p, (f p).1 = p.1) (toks : List (Nat × β)) (u : Nat) :
    searchToken (toks.map f) u = searchToken toks u := by
  unfold searchToken
  have h1 : (List.takeWhile (fun t => decide (t.1 < u)) (toks.map f)).length =
      (List.takeWhile (fun t => decide (t.1 < u)) toks).length := by
    induction toks with
    | nil => rfl
    | cons a l ih =>
      simp only [List.map_cons, List.takeWhile_cons, hf]
      split
      · simp only [List.length_cons, ih]
      · rfl
  simp only [h1, List.getElem?_map, Option.map_map, List.length_map]
  have : ((fun x : Nat × γ => x.1) ∘ f) = fun x : Nat × β => x.1 := by funext p; exact hf p
  rw [this]

theorem walkOrder_map (g : CInst → CInst) (toks : List (Nat × CInst)) (u : Nat) :
    walkOrder (toks.map (gp g)) u = (walkOrder toks u).map g := by
  unfold walkOrder rotate
  rw [searchToken_map (gp g) (fun _ => rfl)]
  simp only [List.map_append, List.map_map, List.map_drop, List.map_take]
  rfl

theorem filter_zone_map (g : CInst → CInst) (hg : ROOnly g) (z : String) (l : CDesc) :
    (l.map g).filter (inZone z) = (l.filter (inZone z)).map g := by
  rw [List.filter_map]
  congr 1
  apply List.filter_congr
  intro a _
  simp [inZone, hg.zone]

theorem Wz_map (g : CInst → CInst) (hg : ROOnly g) (l : CDesc) (starts : String → Nat → Nat) (z : String) :
    Wz (l.map g) starts z = fun i => (Wz l starts z i).map g := by
  funext i
  unfold Wz zoneTokens
  rw [filter_zone_map g hg, ownedTokens_map g hg, walkOrder_map]

theorem Wall_map (g : CInst → CInst) (hg : ROOnly g) (l : CDesc) (starts : String → Nat → Nat) :
    Wall (l.map g) starts = fun i => (Wall l starts i).map g := by
  funext i
  unfold Wall allTokens
  rw [ownedTokens_map g hg, walkOrder_map]

theorem WF.map {d : CDesc} (h : WF d) (g : CInst → CInst) (hg : ROOnly g) : WF (d.map g) := by
  refine ⟨?_, ?_⟩
  · have : (d.map g).map (·.id) = d.map (·.id) := by
      rw [List.map_map]; apply List.map_congr_left; intro a _; exact hg.id a
    rw [this]; exact h.ids
  · unfold TokNodup
    have : ∀ l : CDesc, (l.map g).flatMap (·.tokens) = l.flatMap (·.tokens) := by
      intro l
      induction l with
      | nil => rfl
      | cons a l ih => simp only [List.map_cons, List.flatMap_cons, hg.tokens]; rw [ih]
    rw [this]; exact h.toks

theorem AllTok.map {d : CDesc} (h : AllTok d) (g : CInst → CInst) (hg : ROOnly g) : AllTok (d.map g) := by
  intro i hi
  obtain ⟨a, ha, rfl⟩ := List.mem_map.mp hi
  rw [hg.tokens]; exact h a ha

theorem zonesOf_map (g : CInst → CInst) (hg : ROOnly g) (d : CDesc) : zonesOf (d.map g) = zonesOf d := by
  unfold zonesOf
  induction d with
  | nil => rfl
  | cons a d ih => simp only [List.map_cons, List.foldr_cons, hg.zone, ih]

/-! ### the abstract walk commutes with an injective relabelling -/

section
variable {α : Type} [DecidableEq α]

theorem awalk_map (g : α → α) (incl ext : α → Bool) : ∀ (w S : List α),
    (∀ a, a ∈ w ∨ a ∈ S → ∀ b, b ∈ w ∨ b ∈ S → g a = g b → a = b) →
    awalk incl ext (w.map g) (S.map g) =
      ((awalk (fun a => incl (g a)) (fun a => ext (g a)) w S).1.map g, (awalk (fun a => incl (g a)) (fun a => ext (g a)) w S).2) := by
  intro w
  induction w with
  | nil => intro S _; rfl
  | cons a rest ih =>
    intro S hinj
    have hmem : g a ∈ S.map g ↔ a ∈ S := by
      constructor
      · intro h
        obtain ⟨b, hb, e⟩ := List.mem_map.mp h
        have := hinj b (Or.inr hb) a (Or.inl List.mem_cons_self) e
        rw [← this]; exact hb
      · exact List.mem_map_of_mem
    have hinj' : ∀ S' : List α, (∀ x ∈ S', x ∈ S ∨ x = a) → ∀ x, x ∈ rest ∨ x ∈ S' → ∀ y, y ∈ rest ∨ y ∈ S' → g x = g y → x = y := by
      intro S' hS' x hx y hy e
      apply hinj x _ y _ e
      · rcases hx with h | h
        · exact Or.inl (List.mem_cons_of_mem _ h)
        · rcases hS' x h with h | h
          · exact Or.inr h
          · exact Or.inl (h ▸ List.mem_cons_self)
      · rcases hy with h | h
        · exact Or.inl (List.mem_cons_of_mem _ h)
        · rcases hS' y h with h | h
          · exact Or.inr h
          · exact Or.inl (h ▸ List.mem_cons_self)
    simp only [List.map_cons]
    unfold awalk
    by_cases h1 : a ∈ S
    · rw [if_pos (hmem.mpr h1), if_pos h1]
      exact ih S (hinj' S (fun x hx => Or.inl hx))
    · rw [if_neg (fun h => h1 (hmem.mp h)), if_neg h1]
      by_cases h2 : (!incl (g a)) = true
      · rw [if_pos h2, if_pos h2]; exact ih S (hinj' S (fun x hx => Or.inl hx))
      · rw [if_neg h2, if_neg h2]
        by_cases h3 : ext (g a) = true
        · rw [if_pos h3, if_pos h3]
          have := ih (a :: S) (hinj' (a :: S) (fun x hx => by
            rcases List.mem_cons.mp hx with h | h
            · exact Or.inr h
            · exact Or.inl h))
          simpa using this
        · rw [if_neg h3, if_neg h3]; rfl

theorem apicks_map (g : α → α) (incl ext : α → Bool) (W : Nat → List α) (D : List α)
    (hD : ∀ a ∈ D, ∀ b ∈ D, g a = g b → a = b) (hW : ∀ i, ∀ a ∈ W i, a ∈ D) : ∀ n i (S : List α), (∀ a ∈ S, a ∈ D) →
    apicks incl ext (fun i => (W i).map g) n i (S.map g) =
      (apicks (fun a => incl (g a)) (fun a => ext (g a)) W n i S).map g := by
  intro n
  induction n with
  | zero => intro i S _; rfl
  | succ n ih =>
    intro i S hS
    unfold apicks
    simp only
    rw [awalk_map g incl ext (W i) S (fun a ha b hb e => hD a (ha.elim (hW i a) (hS a)) b (hb.elim (hW i b) (hS b)) e)]
    simp only
    split
    · apply ih
      intro a ha
      rcases awalk_mem _ _ _ _ a ha with h | h
      · exact hS a h
      · exact hW i a h.1
    · rfl
end

/-- **look-back superset with read-only changes**: the earlier ring is the present ring without the
instances `J` registered inside the window and with the read-only flags (and their timestamps)
as they were then (`g`); a flag may differ from the present one only if the present
`ReadOnlyUpdatedTimestamp` lies inside the window. Every member of the earlier plain shard is
(the earlier form of) a member of the present look-back shard. -/
theorem lookback_superset_readonly (cfg : Cfg) (d : CDesc) (hd : WF d) (ht : AllTok d) (starts : String → Nat → Nat)
    (size period now now' : Int) (hsize : 0 < size) (hperiod : 0 < period)
    (J : List CInst) (hJ : ∀ x ∈ J, x.regTs ≥ now - period)
    (g : CInst → CInst) (hg : ROOnly g) (hK : ∀ i, (g i).ro ≠ i.ro → i.roTs ≥ now - period)
    (hz : cfg.zoneAware = true → zonesOf (d.filter fun x => !J.contains x) = zonesOf d) :
    ∀ m' ∈ shard cfg ((d.filter fun x => !J.contains x).map g) starts size 0 now',
      ∃ m ∈ shard cfg d starts size period now, g m = m' := by
  intro m' hm
  have hnot : ¬ size ≤ 0 := by omega
  let keep : CInst → Bool := fun x => !J.contains x
  have hdk : WF (d.filter keep) := hd.filter keep
  have htk : AllTok (d.filter keep) := ht.filter keep
  have hdτ : WF ((d.filter keep).map g) := hdk.map g hg
  have htτ : AllTok ((d.filter keep).map g) := htk.map g hg
  have hmem := shard_plain_mem cfg _ hdτ starts size now' m' hm
  obtain ⟨m0, hm0, hgm0⟩ := List.mem_map.mp hmem.1
  have hm0d : m0 ∈ d := (List.mem_filter.mp hm0).1
  have ginj : ∀ a ∈ d, ∀ b ∈ d, g a = g b → a = b := by
    intro a ha b hb e
    apply hd.idInj a ha b hb
    rw [← hg.id a, ← hg.id b, e]
  unfold shard at hm ⊢
  rw [if_neg hnot] at hm ⊢
  by_cases he : early d (mkLB period now) = true
  · rw [shuffleShard_unfold, if_pos he]; exact ⟨m0, hm0d, hgm0⟩
  have he' : early d (mkLB period now) = false := by simpa using he
  have hon : (mkLB period now).on = true := by simp [mkLB, hperiod]
  have htil : (mkLB period now).til = now - period := rfl
  -- eligibility in the earlier ring, read on the present instances
  let el' : CInst → Bool := fun i => !(g i).ro
  have h1 : ∀ x, keep x = true → el' x = true → includeRO (mkLB period now) x = true := by
    intro x _ hx
    have hx' : (g x).ro = false := by simpa [el'] using hx
    cases hro : x.ro with
    | false => simp [includeRO, hro]
    | true =>
      have := hK x (by rw [hx', hro]; simp)
      simp only [includeRO, hro, hon, htil]
      simp; omega
  have h2 : ∀ x, includeRO (mkLB period now) x = true → extend (mkLB period now) x = false →
      keep x = true ∧ el' x = true := by
    intro x _ hx
    simp only [extend, hon, Bool.true_and, Bool.or_eq_false_iff, decide_eq_false_iff_not, htil] at hx
    refine ⟨?_, ?_⟩
    · show (!J.contains x) = true
      cases hc : J.contains x with
      | false => rfl
      | true => have := hJ x (by simpa using hc); omega
    · show (!(g x).ro) = true
      cases hgro : (g x).ro with
      | false => rfl
      | true =>
        have := hK x (by rw [hgro, hx.1.2]; simp)
        omega
  cases hza : cfg.zoneAware with
  | true =>
    have hzs : zonesOf ((d.filter keep).map g) = zonesOf d := by rw [zonesOf_map g hg]; exact hz hza
    obtain ⟨z, hzmem, hzsel⟩ := (mem_shuffleShard_za cfg hza _ hdτ starts size 0 now' (early_plain _ _) m').mp hm
    rw [hzs] at hzmem
    have hn : perZone cfg ((d.filter keep).map g) size = perZone cfg d size := by unfold perZone; rw [hzs]
    rw [hn] at hzsel
    have hw := (zoneSel_plain_walk cfg hza _ hdτ htτ starts now' _ z m').mp hzsel
    unfold zwalk at hw
    rw [Wz_map g hg, Wz_filter d hd keep starts z] at hw
    have hmap := apicks_map g (fun i : CInst => !i.ro) noExt (fun i => (Wz d starts z i).filter keep) d ginj
      (fun i a ha => ((mem_Wz d starts z i a).mp (List.mem_filter.mp ha).1).1.1) (perZone cfg d size).toNat 0 [] (by simp)
    simp only [List.map_nil] at hmap
    rw [hmap] at hw
    obtain ⟨m, hmw, hgm⟩ := List.mem_map.mp hw
    have hne : (fun a : CInst => noExt (g a)) = (noExt : CInst → Bool) := by funext a; rfl
    rw [hne] at hmw
    refine ⟨m, ?_, hgm⟩
    apply (mem_shuffleShard_za cfg hza d hd starts size period now he' m).mpr
    refine ⟨z, hzmem, ?_⟩
    have hmd : m ∈ d ∧ m.zone = z ∧ keep m = true ∧ el' m = true := by
      rcases apicks_mem _ _ _ _ _ _ m hmw with h | ⟨⟨j, hj⟩, hi⟩
      · cases h
      · have hj' := List.mem_filter.mp hj
        have := (mem_Wz d starts z j m).mp hj'.1
        exact ⟨this.1.1, (inZone_iff z m).mp this.1.2, hj'.2, hi⟩
    unfold zoneSel
    rw [zoneStep_eq cfg d hd _ starts _ [] (by simp) z, if_pos hza]
    split
    · simp only [List.append_nil, List.mem_filter, Bool.and_eq_true]
      exact ⟨hmd.1, (inZone_iff z m).mpr hmd.2.1, h1 m hmd.2.2.1 hmd.2.2.2⟩
    · exact apicks_lb_superset _ _ el' keep (Wz d starts z) h1 h2 (Wz_same d starts z) _ 0 [] [] (by simp) m hmw
  | false =>
    rw [shuffleShard_nza cfg hza _ hdτ starts size 0 now' (early_plain _ _), extend_plain, includeRO_plain_fn,
      Wall_map g hg, Wall_filter d hd keep starts] at hm
    have hmap := apicks_map g (fun i : CInst => !i.ro) noExt (fun i => (Wall d starts i).filter keep) d ginj
      (fun i a ha => ((mem_Wall d starts i a).mp (List.mem_filter.mp ha).1).1) size.toNat 0 [] (by simp)
    simp only [List.map_nil] at hmap
    rw [hmap] at hm
    obtain ⟨m, hmw, hgm⟩ := List.mem_map.mp hm
    have hne : (fun a : CInst => noExt (g a)) = (noExt : CInst → Bool) := by funext a; rfl
    rw [hne] at hmw
    refine ⟨m, ?_, hgm⟩
    rw [shuffleShard_nza cfg hza d hd starts size period now he']
    exact apicks_lb_superset _ _ el' keep (Wall d starts) h1 h2 (Wall_same d starts) _ 0 [] [] (by simp) m hmw

end PfC12
