import Proofs.C12.Super
/-!
# C12 — removing one instance changes the plain shard by at most one (model level)
-/
namespace PfC12
open C12

theorem apicks_filter_eq {α : Type} [DecidableEq α] (el q : α → Bool) (W : Nat → List α) : ∀ n i (S : List α),
    apicks el noExt (fun i => (W i).filter q) n i S = apicks (fun y => el y && q y) noExt W n i S := by
  intro n
  induction n with
  | zero => intro i S; rfl
  | succ n ih =>
    intro i S
    rw [apicks_plain_succ, apicks_plain_succ, List.find?_filter]
    have : (fun a => decide (q a = true ∧ pcand el S a = true)) = pcand (fun y => el y && q y) S := by
      funext a; simp only [pcand]
      by_cases hq : q a = true <;> by_cases he : el a = true <;> simp [hq, he]
    rw [this]
    cases (W i).find? (pcand (fun y => el y && q y) S) with
    | none => rfl
    | some y => exact ih _ _

def neq (x : CInst) : CInst → Bool := fun y => decide (y ≠ x)

theorem zwalk_remove (d : CDesc) (hd : WF d) (x : CInst) (starts : String → Nat → Nat) (z : String) (n : Nat) :
    ExInv (fun i : CInst => !i.ro) (Wz d starts z) x (zwalk d starts z n) (zwalk (d.filter (neq x)) starts z n) := by
  unfold zwalk
  rw [Wz_filter d hd (neq x) starts z, apicks_filter_eq]
  exact ExInv.step _ _ x (Wz_same d starts z) n 0 [] [] (.same (by simp) (by simp))

theorem zwalk_mem (d : CDesc) (starts : String → Nat → Nat) (z : String) (n : Nat) :
    ∀ a ∈ zwalk d starts z n, a ∈ d ∧ a.zone = z := by
  intro a ha
  rcases apicks_mem _ _ _ _ _ _ a ha with h | ⟨⟨j, hj⟩, _⟩
  · cases h
  · have := (mem_Wz d starts z j a).mp hj
    exact ⟨this.1.1, (inZone_iff z a).mp this.1.2⟩

theorem zwalk_other_zone (d : CDesc) (hd : WF d) (x : CInst) (starts : String → Nat → Nat) (z : String) (n : Nat)
    (hz : z ≠ x.zone) : zwalk (d.filter (neq x)) starts z n = zwalk d starts z n := by
  unfold zwalk
  rw [Wz_filter d hd (neq x) starts z]
  have : (fun i => (Wz d starts z i).filter (neq x)) = Wz d starts z := by
    funext i
    apply List.filter_eq_self.mpr
    intro a ha
    have := (mem_Wz d starts z i a).mp ha
    have hzone : a.zone = z := (inZone_iff z a).mp this.1.2
    simp only [neq, decide_eq_true_eq]
    intro e; subst e; exact hz hzone.symm
  rw [this]

/-- from the per-zone exchange to the whole selection: `SL` / `SL'` are unions over the zones of `d`
of the zone walks of `d` / of `d` without `x` (same number of iterations). -/
theorem exchange_assemble (d : CDesc) (hd : WF d) (x : CInst) (starts : String → Nat → Nat) (N : Nat)
    (SL SL' : List CInst)
    (hS : ∀ a, a ∈ SL ↔ ∃ z ∈ zonesOf d, a ∈ zwalk d starts z N)
    (hS' : ∀ a, a ∈ SL' ↔ ∃ z ∈ zonesOf d, a ∈ zwalk (d.filter (neq x)) starts z N) :
    (x ∉ SL → ∀ a, a ∈ SL' ↔ a ∈ SL) ∧
    ∃ Z : List CInst, Z.length ≤ 1 ∧ (∀ z ∈ Z, z ∉ SL) ∧ ∀ a, a ∈ SL' ↔ ((a ∈ SL ∧ a ≠ x) ∨ a ∈ Z) := by
  obtain ⟨hsame, Zl, hlen, hZnot, hiff⟩ := (zwalk_remove d hd x starts x.zone N).result
  by_cases hzx : x.zone ∈ zonesOf d
  · refine ⟨?_, Zl, hlen, ?_, ?_⟩
    · intro hxS a
      rw [hS, hS']
      have hx0 : x ∉ zwalk d starts x.zone N := fun h => hxS ((hS x).mpr ⟨x.zone, hzx, h⟩)
      constructor
      · rintro ⟨z, hz1, hz2⟩
        by_cases e : z = x.zone
        · subst e; exact ⟨_, hz1, (hsame hx0 a).mp hz2⟩
        · rw [zwalk_other_zone d hd x starts z N e] at hz2; exact ⟨z, hz1, hz2⟩
      · rintro ⟨z, hz1, hz2⟩
        by_cases e : z = x.zone
        · subst e; exact ⟨_, hz1, (hsame hx0 a).mpr hz2⟩
        · exact ⟨z, hz1, by rw [zwalk_other_zone d hd x starts z N e]; exact hz2⟩
    · intro z0 hz0 hin
      obtain ⟨z, _, hz2⟩ := (hS z0).mp hin
      have h0 : z0 ∈ zwalk (d.filter (neq x)) starts x.zone N := (hiff z0).mpr (Or.inr hz0)
      have e1 := (zwalk_mem _ starts x.zone N z0 h0).2
      have e2 := (zwalk_mem d starts z N z0 hz2).2
      have : z = x.zone := by rw [← e2, e1]
      subst this
      exact hZnot z0 hz0 hz2
    · intro a
      rw [hS, hS']
      constructor
      · rintro ⟨z, hz1, hz2⟩
        by_cases e : z = x.zone
        · subst e
          rcases (hiff a).mp hz2 with ⟨h1, h2⟩ | h1
          · exact Or.inl ⟨⟨_, hz1, h1⟩, h2⟩
          · exact Or.inr h1
        · have hz2' := hz2
          rw [zwalk_other_zone d hd x starts z N e] at hz2'
          refine Or.inl ⟨⟨z, hz1, hz2'⟩, ?_⟩
          intro ea; subst ea
          exact e (zwalk_mem d starts z N a hz2').2.symm
      · rintro (⟨⟨z, hz1, hz2⟩, hne⟩ | h)
        · by_cases e : z = x.zone
          · subst e; exact ⟨_, hz1, (hiff a).mpr (Or.inl ⟨hz2, hne⟩)⟩
          · exact ⟨z, hz1, by rw [zwalk_other_zone d hd x starts z N e]; exact hz2⟩
        · exact ⟨x.zone, hzx, (hiff a).mpr (Or.inr h)⟩
  · -- x's zone is not a zone of the ring: nothing changes
    have hall : ∀ a, a ∈ SL' ↔ a ∈ SL := by
      intro a
      rw [hS, hS']
      constructor
      · rintro ⟨z, hz1, hz2⟩
        have e : z ≠ x.zone := fun e => hzx (e ▸ hz1)
        rw [zwalk_other_zone d hd x starts z N e] at hz2; exact ⟨z, hz1, hz2⟩
      · rintro ⟨z, hz1, hz2⟩
        have e : z ≠ x.zone := fun e => hzx (e ▸ hz1)
        exact ⟨z, hz1, by rw [zwalk_other_zone d hd x starts z N e]; exact hz2⟩
    have hxS : x ∉ SL := by
      intro h
      obtain ⟨z, hz1, hz2⟩ := (hS x).mp h
      exact hzx ((zwalk_mem d starts z N x hz2).2 ▸ hz1)
    refine ⟨fun _ => hall, [], by simp, by simp, ?_⟩
    intro a
    rw [hall a]
    simp only [List.not_mem_nil, or_false]
    exact ⟨fun h => ⟨h, fun e => hxS (e ▸ h)⟩, fun h => h.1⟩


/-- **at most one difference after removing one instance** (zone set unchanged, see the witness
`remove_one_zone_vanishes_witness` for what happens otherwise). -/
theorem shard_remove_one (cfg : Cfg) (d : CDesc) (hd : WF d) (ht : AllTok d) (starts : String → Nat → Nat)
    (size now now' : Int) (hsize : 0 < size) (x : CInst)
    (hz : cfg.zoneAware = true → zonesOf (d.filter (neq x)) = zonesOf d) :
    (x ∉ shard cfg d starts size 0 now →
        ∀ a, a ∈ shard cfg (d.filter (neq x)) starts size 0 now' ↔ a ∈ shard cfg d starts size 0 now) ∧
    ∃ Z : List CInst, Z.length ≤ 1 ∧ (∀ z ∈ Z, z ∉ shard cfg d starts size 0 now) ∧
      ∀ a, a ∈ shard cfg (d.filter (neq x)) starts size 0 now' ↔
        ((a ∈ shard cfg d starts size 0 now ∧ a ≠ x) ∨ a ∈ Z) := by
  have hnot : ¬ size ≤ 0 := by omega
  have hd' : WF (d.filter (neq x)) := hd.filter _
  have ht' : AllTok (d.filter (neq x)) := ht.filter _
  unfold shard
  simp only [if_neg hnot]
  cases hza : cfg.zoneAware with
  | false =>
    rw [shuffleShard_nza cfg hza d hd starts size 0 now (early_plain _ _),
      shuffleShard_nza cfg hza _ hd' starts size 0 now' (early_plain _ _),
      extend_plain, extend_plain, includeRO_plain_fn, includeRO_plain_fn, Wall_filter d hd (neq x) starts,
      apicks_filter_eq]
    exact (ExInv.step _ _ x (Wall_same d starts) size.toNat 0 [] [] (.same (by simp) (by simp))).result
  | true =>
    have hzs := hz hza
    have hN : perZone cfg (d.filter (neq x)) size = perZone cfg d size := by unfold perZone; rw [hzs]
    -- membership in both shards through the per-zone walks
    have hS : ∀ a, a ∈ shuffleShard cfg d starts size 0 now ↔
        ∃ z ∈ zonesOf d, a ∈ zwalk d starts z (perZone cfg d size).toNat := by
      intro a
      rw [mem_shuffleShard_za cfg hza d hd starts size 0 now (early_plain _ _)]
      constructor
      · rintro ⟨z, hz1, hz2⟩; exact ⟨z, hz1, (zoneSel_plain_walk cfg hza d hd ht starts now _ z a).mp hz2⟩
      · rintro ⟨z, hz1, hz2⟩; exact ⟨z, hz1, (zoneSel_plain_walk cfg hza d hd ht starts now _ z a).mpr hz2⟩
    have hS' : ∀ a, a ∈ shuffleShard cfg (d.filter (neq x)) starts size 0 now' ↔
        ∃ z ∈ zonesOf d, a ∈ zwalk (d.filter (neq x)) starts z (perZone cfg d size).toNat := by
      intro a
      rw [mem_shuffleShard_za cfg hza _ hd' starts size 0 now' (early_plain _ _), hzs, hN]
      constructor
      · rintro ⟨z, hz1, hz2⟩; exact ⟨z, hz1, (zoneSel_plain_walk cfg hza _ hd' ht' starts now' _ z a).mp hz2⟩
      · rintro ⟨z, hz1, hz2⟩; exact ⟨z, hz1, (zoneSel_plain_walk cfg hza _ hd' ht' starts now' _ z a).mpr hz2⟩
    exact exchange_assemble d hd x starts _ _ _ hS hS'

end PfC12
