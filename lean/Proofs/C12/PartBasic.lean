import Proofs.C12.PartBridge
/-!
# C12 — partition ring: size and monotonicity
-/
namespace PfC12
open C12

/-- partition ids are the map keys -/
def PWF (ps : List Part) : Prop := (ps.map (·.id)).Nodup
def PAllTok (ps : List Part) : Prop := ∀ p ∈ ps, p.tokens ≠ []

theorem PWF.idInj {ps : List Part} (h : PWF ps) : PIdInj ps :=
  fun a ha b hb e => nodup_map_inj (fun p : Part => p.id) ps h a ha b hb e

theorem nodup_of_map' {γ δ : Type} (f : γ → δ) : ∀ l : List γ, (l.map f).Nodup → l.Nodup := by
  intro l
  induction l with
  | nil => intro _; exact List.nodup_nil
  | cons a l ih =>
    intro h
    rw [List.map_cons] at h
    have h' := List.nodup_cons.mp h
    exact List.nodup_cons.mpr ⟨fun ha => h'.1 (List.mem_map_of_mem ha), ih h'.2⟩

theorem PWF.nodup {ps : List Part} (h : PWF ps) : ps.Nodup := nodup_of_map' (fun p : Part => p.id) ps h

theorem mem_partTokens_iff (ps : List Part) (p : Part) : p ∈ (partTokens ps).map (·.2) ↔ p ∈ ps ∧ p.tokens ≠ [] := by
  constructor
  · intro h
    refine ⟨mem_partTokens ps p h, ?_⟩
    obtain ⟨⟨t, q⟩, hq, rfl⟩ := List.mem_map.mp h
    unfold partTokens at hq
    rw [List.mem_mergeSort] at hq
    obtain ⟨r, _, hr2⟩ := List.mem_flatMap.mp hq
    obtain ⟨t', ht', e⟩ := List.mem_map.mp hr2
    cases e
    exact List.ne_nil_of_mem ht'
  · rintro ⟨hp, hne⟩
    obtain ⟨t, ht⟩ := List.exists_mem_of_ne_nil _ hne
    refine List.mem_map.mpr ⟨(t, p), ?_, rfl⟩
    unfold partTokens
    rw [List.mem_mergeSort]
    exact List.mem_flatMap.mpr ⟨p, hp, List.mem_map.mpr ⟨t, ht, rfl⟩⟩

theorem mem_PW (ps : List Part) (starts : Nat → Nat) (i : Nat) (p : Part) :
    p ∈ PW ps starts i ↔ p ∈ ps ∧ p.tokens ≠ [] := by
  unfold PW; rw [mem_walkOrder, mem_partTokens_iff]

theorem pwithin_plain (til : Int) : pwithin false til = (noExt : Part → Bool) := by
  funext p; simp [pwithin, noExt]

theorem pincl_plain (til : Int) (p : Part) : pincl false til p = (p.state == PState.active) := by
  simp only [pincl, pwithin, Bool.false_and, Bool.or_false]
  cases p.state <;> rfl

def isActive (p : Part) : Bool := p.state == PState.active

/-- the number of returned ids is the number of partitions of the ring that are selected. -/
theorem pshard_length (ps : List Part) (h : PWF ps) (starts : Nat → Nat) (size period now : Int) :
    (pshard ps starts size period now).length = cnt ps (psel ps starts size period now) := by
  unfold pshard
  simp only [List.length_map]
  have hloop := ploop_apicks ps h.idInj (decide (period > 0)) (ptil period now) (partTokens ps) (mem_partTokens ps) starts
    (ps.length + 1) 0 ⟨[], [], psize ps size⟩ [] (psize ps size) ⟨rfl, by simp, by simp, by simp⟩ (by
      unfold psize; split
      · omega
      · rename_i h; simp only [Bool.or_eq_true, decide_eq_true_eq, not_or] at h; omega)
  have hres : (ploop (decide (period > 0)) (if period > 0 then now - period else 0) (partTokens ps) starts (ps.length + 1) 0
      ⟨[], [], if (decide (size ≤ 0) || decide (size ≥ (ps.length : Int))) = true then ps.length else size.toNat⟩).result =
      (psel ps starts size period now).map (·.id) := hloop
  rw [hres]
  unfold cnt
  congr 1
  apply List.filter_congr
  intro p hp
  have := contains_ids ps h.idInj _ (psel_sub ps starts size period now) p hp
  by_cases hm : p ∈ psel ps starts size period now
  · have h1 := this.mpr hm
    simp only [hm, decide_true]; exact h1
  · have h1 : (List.map (fun x : Part => x.id) (psel ps starts size period now)).contains p.id = false := by
      cases hc : (List.map (fun x : Part => x.id) (psel ps starts size period now)).contains p.id with
      | false => rfl
      | true => exact absurd (this.mp hc) hm
    simp only [hm, decide_false]; exact h1

/-- **partition shard size** (no look-back): `min(size, ACTIVE partitions)` partitions. -/
theorem pshard_size (ps : List Part) (h : PWF ps) (ht : PAllTok ps) (starts : Nat → Nat) (size now : Int) (hsize : 0 < size) :
    (pshard ps starts size 0 now).length = min size.toNat (ps.filter isActive).length := by
  rw [pshard_length ps h]
  have hE : (ps.filter isActive).Nodup := List.Nodup.sublist List.filter_sublist h.nodup
  have hd : decide ((0 : Int) > 0) = false := by decide
  have hsel : psel ps starts size 0 now = apicks (fun p => p.state == PState.active) noExt (PW ps starts) (psize ps size) 0 [] := by
    unfold psel
    rw [hd, pwithin_plain]
    congr 1
    funext p; exact pincl_plain _ p
  have hcnt := apicks_plain_cnt (fun p : Part => p.state == PState.active) (PW ps starts) (ps.filter isActive) hE (by
    intro i x
    rw [mem_PW, List.mem_filter]
    exact ⟨fun hx => ⟨⟨hx.1, ht x hx.1⟩, hx.2⟩, fun hx => ⟨hx.1.1, hx.2⟩⟩) (psize ps size) 0 []
  -- selected partitions are ACTIVE, so counting over the ring = counting over the ACTIVE ones
  have hsub : cnt ps (psel ps starts size 0 now) = cnt (ps.filter isActive) (psel ps starts size 0 now) := by
    unfold cnt
    rw [List.filter_filter]
    congr 1
    apply List.filter_congr
    intro p _
    by_cases hm : p ∈ psel ps starts size 0 now
    · have : isActive p = true := by
        rw [hsel] at hm
        rcases apicks_mem _ _ _ _ _ _ p hm with h0 | ⟨_, hi⟩
        · cases h0
        · exact hi
      simp [hm, this]
    · simp [hm]
  rw [hsub, hsel, hcnt]
  have h0 : cnt (ps.filter isActive) ([] : List Part) = 0 := by
    unfold cnt; rw [List.length_eq_zero_iff, List.filter_eq_nil_iff]; intro a _; simp
  have hle : (ps.filter isActive).length ≤ ps.length := List.length_filter_le _ _
  rw [h0]
  unfold psize
  split
  · rename_i hc
    simp only [Bool.or_eq_true, decide_eq_true_eq] at hc
    have : ps.length ≤ size.toNat := by omega
    omega
  · simp

theorem psize_mono (ps : List Part) (s s' : Int) (h : (0 < s ∧ s ≤ s') ∨ s' ≤ 0) : psize ps s ≤ psize ps s' := by
  unfold psize
  by_cases c' : (decide (s' ≤ 0) || decide (s' ≥ (ps.length : Int))) = true
  · rw [if_pos c']
    split
    · exact Nat.le_refl _
    · rename_i c; simp only [Bool.or_eq_true, decide_eq_true_eq, not_or] at c; omega
  · rw [if_neg c']
    simp only [Bool.or_eq_true, decide_eq_true_eq, not_or] at c'
    have c : ¬ (decide (s ≤ 0) || decide (s ≥ (ps.length : Int))) = true := by
      simp only [Bool.or_eq_true, decide_eq_true_eq, not_or]; omega
    rw [if_neg c]; omega

/-- **the partition shard of a smaller size is contained in the one of a larger size** (with or
without look-back; `size ≤ 0` = all partitions is the largest). -/
theorem pshard_mono_size (ps : List Part) (h : PWF ps) (starts : Nat → Nat) (s s' period now : Int)
    (hs : (0 < s ∧ s ≤ s') ∨ s' ≤ 0) : ∀ id ∈ pshard ps starts s period now, id ∈ pshard ps starts s' period now := by
  intro id hid
  rw [mem_pshard ps h.idInj] at hid ⊢
  obtain ⟨p, hp, e⟩ := hid
  exact ⟨p, apicks_mono_le _ _ _ 0 [] _ _ (psize_mono ps s s' hs) p hp, e⟩

end PfC12
