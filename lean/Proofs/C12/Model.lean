import Proofs.C12.Tokens
import Proofs.C12.Lookback
import Proofs.C12.Exchange
/-!
# C12 — connecting `C12.walk` / `C12.picks` / `C12.zoneStep` / `C12.shuffleShard` to the abstract walk
-/
namespace PfC12
open C12

/-- well-formed ring: instance ids are the map keys (distinct) and tokens are globally unique. -/
structure WF (d : CDesc) : Prop where
  ids : (d.map (·.id)).Nodup
  toks : TokNodup d

/-- every instance has at least one token (the property's quantifier; observation O4 otherwise). -/
def AllTok (d : CDesc) : Prop := ∀ i ∈ d, i.tokens ≠ []

def IdInj (D : CDesc) : Prop := ∀ a ∈ D, ∀ b ∈ D, a.id = b.id → a = b

theorem WF.idInj {d : CDesc} (h : WF d) : IdInj d := fun a ha b hb e => nodup_map_inj (·.id) d h.ids a ha b hb e

theorem nodup_of_map {γ δ : Type} (f : γ → δ) : ∀ l : List γ, (l.map f).Nodup → l.Nodup := by
  intro l
  induction l with
  | nil => intro _; exact List.nodup_nil
  | cons a l ih =>
    intro h
    rw [List.map_cons] at h
    have h' := List.nodup_cons.mp h
    exact List.nodup_cons.mpr ⟨fun ha => h'.1 (List.mem_map_of_mem ha), ih h'.2⟩

theorem WF.nodup {d : CDesc} (h : WF d) : d.Nodup := nodup_of_map (·.id) d h.ids

theorem WF.filter {d : CDesc} (h : WF d) (q : CInst → Bool) : WF (d.filter q) :=
  ⟨List.Nodup.sublist (List.Sublist.map _ List.filter_sublist) h.ids, h.toks.filter q⟩

theorem AllTok.filter {d : CDesc} (h : AllTok d) (q : CInst → Bool) : AllTok (d.filter q) :=
  fun i hi => h i (List.mem_filter.mp hi).1

theorem selected_iff (D : CDesc) (hD : IdInj D) (sel : List CInst) (hs : ∀ a ∈ sel, a ∈ D) (x : CInst) (hx : x ∈ D) :
    selected sel x.id = true ↔ x ∈ sel := by
  unfold selected
  rw [List.any_eq_true]
  constructor
  · rintro ⟨s, hs', e⟩
    have : s.id = x.id := by simpa using e
    rw [← hD s (hs s hs') x hx this]; exact hs'
  · intro h; exact ⟨x, h, by simp⟩

theorem walk_eq_awalk (p : LB) (D : CDesc) (hD : IdInj D) : ∀ (w sel : List CInst),
    (∀ a ∈ w, a ∈ D) → (∀ a ∈ sel, a ∈ D) →
    walk p w sel = awalk (includeRO p) (extend p) w sel := by
  intro w
  induction w with
  | nil => intro sel _ _; rfl
  | cons a rest ih =>
    intro sel hw hs
    have ha : a ∈ D := hw a List.mem_cons_self
    have hrest : ∀ b ∈ rest, b ∈ D := fun b hb => hw b (List.mem_cons_of_mem _ hb)
    unfold walk awalk
    by_cases h1 : a ∈ sel
    · rw [if_pos ((selected_iff D hD sel hs a ha).mpr h1), if_pos h1]; exact ih sel hrest hs
    · have : ¬ selected sel a.id = true := fun h => h1 ((selected_iff D hD sel hs a ha).mp h)
      rw [if_neg this, if_neg h1]
      by_cases h2 : (!includeRO p a) = true
      · rw [if_pos h2, if_pos h2]; exact ih sel hrest hs
      · rw [if_neg h2, if_neg h2]
        by_cases h3 : extend p a = true
        · rw [if_pos h3, if_pos h3]
          exact ih (a :: sel) hrest (fun b hb => by
            rcases List.mem_cons.mp hb with rfl | hb
            · exact ha
            · exact hs b hb)
        · rw [if_neg h3, if_neg h3]

theorem picks_eq_apicks (p : LB) (D : CDesc) (hD : IdInj D) (toks : List (Nat × CInst))
    (ht : ∀ x ∈ toks.map (·.2), x ∈ D) (starts : Nat → Nat) : ∀ n i (sel : List CInst), (∀ a ∈ sel, a ∈ D) →
    picks p toks starts n i sel =
      apicks (includeRO p) (extend p) (fun i => walkOrder toks (starts i)) n i sel := by
  intro n
  induction n with
  | zero => intro i sel _; rfl
  | succ n ih =>
    intro i sel hs
    have hw : ∀ a ∈ walkOrder toks (starts i), a ∈ D := fun a ha => ht a ((mem_walkOrder _ _ _).mp ha)
    unfold picks apicks
    simp only
    rw [walk_eq_awalk p D hD _ sel hw hs]
    split
    · apply ih
      intro a ha
      rcases awalk_mem _ _ _ _ a ha with h | h
      · exact hs a h
      · exact hw a h.1
    · rfl

/-! ### independence from instances of other zones -/

section
variable {α : Type} [DecidableEq α]

theorem awalk_append (incl ext : α → Bool) (other : List α) : ∀ (w sel : List α), (∀ a ∈ w, a ∉ other) →
    awalk incl ext w (sel ++ other) = ((awalk incl ext w sel).1 ++ other, (awalk incl ext w sel).2) := by
  intro w
  induction w with
  | nil => intro sel _; rfl
  | cons a rest ih =>
    intro sel hw
    have ha : a ∉ other := hw a List.mem_cons_self
    have hrest : ∀ b ∈ rest, b ∉ other := fun b hb => hw b (List.mem_cons_of_mem _ hb)
    unfold awalk
    by_cases h1 : a ∈ sel
    · rw [if_pos h1, if_pos (List.mem_append_left _ h1)]; exact ih sel hrest
    · have : a ∉ sel ++ other := fun h => by
        rcases List.mem_append.mp h with h | h
        · exact h1 h
        · exact ha h
      rw [if_neg h1, if_neg this]
      by_cases h2 : (!incl a) = true
      · rw [if_pos h2, if_pos h2]; exact ih sel hrest
      · rw [if_neg h2, if_neg h2]
        by_cases h3 : ext a = true
        · rw [if_pos h3, if_pos h3]; exact ih (a :: sel) hrest
        · rw [if_neg h3, if_neg h3]; rfl

theorem apicks_append (incl ext : α → Bool) (W : Nat → List α) (other : List α)
    (hW : ∀ i, ∀ a ∈ W i, a ∉ other) : ∀ n i (sel : List α),
    apicks incl ext W n i (sel ++ other) = apicks incl ext W n i sel ++ other := by
  intro n
  induction n with
  | zero => intro i sel; rfl
  | succ n ih =>
    intro i sel
    unfold apicks
    simp only
    rw [awalk_append incl ext other (W i) sel (hW i)]
    simp only
    split
    · exact ih _ _
    · rfl
end

/-! ### zones -/

theorem mem_insertZone (z y : String) (l : List String) : y ∈ insertZone z l ↔ y = z ∨ y ∈ l := by
  induction l with
  | nil => simp [insertZone]
  | cons a l ih =>
    unfold insertZone
    split
    · simp
    · split
      · rename_i h; subst h; simp
      · simp only [List.mem_cons, ih]
        constructor
        · rintro (h | h | h) <;> simp [h]
        · rintro (h | h | h) <;> simp [h]

theorem mem_zonesOf (d : CDesc) (z : String) : z ∈ zonesOf d ↔ ∃ i ∈ d, i.zone = z := by
  unfold zonesOf
  induction d with
  | nil => simp
  | cons a d ih =>
    simp only [List.foldr_cons, mem_insertZone, ih, List.mem_cons, exists_eq_or_imp]
    constructor
    · rintro (h | h)
      · left; exact h.symm
      · right; exact h
    · rintro (h | h)
      · left; exact h.symm
      · right; exact h

/-- strictly ascending list of strings (hence no duplicates) -/
def StrictAsc (l : List String) : Prop := l.Pairwise (fun a b => a < b)

theorem insertZone_asc (z : String) : ∀ l : List String, StrictAsc l → StrictAsc (insertZone z l) := by
  intro l
  induction l with
  | nil => intro _; simp [insertZone, StrictAsc]
  | cons a l ih =>
    intro h
    have h' := List.pairwise_cons.mp h
    unfold insertZone
    split
    · rename_i hlt
      refine List.pairwise_cons.mpr ⟨?_, h⟩
      intro b hb
      rcases List.mem_cons.mp hb with rfl | hb
      · exact hlt
      · exact String.lt_trans hlt (h'.1 b hb)
    · split
      · exact h
      · rename_i hnlt hne
        refine List.pairwise_cons.mpr ⟨?_, ih h'.2⟩
        intro b hb
        rcases (mem_insertZone z b l).mp hb with rfl | hb
        · -- a < b since ¬ b < a and b ≠ a
          by_cases h1 : a < b
          · exact h1
          · exact absurd (String.le_antisymm (String.not_lt.mp h1) (String.not_lt.mp hnlt)) hne
        · exact h'.1 b hb

theorem zonesOf_asc (d : CDesc) : StrictAsc (zonesOf d) := by
  unfold zonesOf
  induction d with
  | nil => exact List.Pairwise.nil
  | cons a d ih => exact insertZone_asc _ _ ih

theorem zonesOf_nodup (d : CDesc) : (zonesOf d).Nodup := by
  have := zonesOf_asc d
  unfold StrictAsc at this
  exact this.imp (fun h e => by subst e; exact (String.lt_irrefl _ h))

end PfC12
