import Proofs.C12.Basic
/-!
# C12 — the look-back shard is constant on the validity window of a cached look-back sub-ring

If the window start moves from `w0` to `w ≥ w0` and no member of the shard computed for `w0` has a
registration / read-only timestamp in `[w0, w)`, the shard computed for `w` is the same
(`setCachedShuffledSubringWithLookback` computes exactly this bound as
`validForLookbackWindowsStartingBefore`).
-/
namespace PfC12
open C12

section
variable {α : Type} [DecidableEq α]

theorem awalk_congr (incl ext incl' ext' : α → Bool) (hfalse : ∀ x, incl x = false → incl' x = false) :
    ∀ (w S : List α),
    (∀ x ∈ (awalk incl ext w S).1, incl x = true → incl' x = true ∧ ext' x = ext x) →
    awalk incl' ext' w S = awalk incl ext w S := by
  intro w
  induction w with
  | nil => intro S _; rfl
  | cons a rest ih =>
    intro S hc
    unfold awalk at hc ⊢
    by_cases h1 : a ∈ S
    · rw [if_pos h1] at hc ⊢; rw [if_pos h1]; exact ih S hc
    · rw [if_neg h1] at hc ⊢; rw [if_neg h1]
      by_cases h2 : incl a = true
      · have e : (!incl a) = false := by simp [h2]
        rw [e] at hc ⊢
        simp only [Bool.false_eq_true, if_false] at hc ⊢
        by_cases h3 : ext a = true
        · rw [if_pos h3] at hc ⊢
          have ha := hc a (awalk_sub incl ext rest (a :: S) a List.mem_cons_self) h2
          have e' : (!incl' a) = false := by simp [ha.1]
          rw [e']; simp only [Bool.false_eq_true, if_false]
          rw [if_pos (ha.2.trans h3)]
          exact ih (a :: S) hc
        · rw [if_neg h3] at hc ⊢
          have ha := hc a List.mem_cons_self h2
          have e' : (!incl' a) = false := by simp [ha.1]
          rw [e']; simp only [Bool.false_eq_true, if_false]
          have : ¬ ext' a = true := by rw [ha.2]; exact h3
          rw [if_neg this]
      · have h2' : incl a = false := by simpa using h2
        have e : (!incl a) = true := by simp [h2']
        have e' : (!incl' a) = true := by simp [hfalse a h2']
        rw [e] at hc ⊢; rw [e']
        simp only [if_true] at hc ⊢
        exact ih S hc

theorem apicks_congr (incl ext incl' ext' : α → Bool) (hfalse : ∀ x, incl x = false → incl' x = false)
    (W : Nat → List α) : ∀ n i (S : List α),
    (∀ x ∈ apicks incl ext W n i S, incl x = true → incl' x = true ∧ ext' x = ext x) →
    apicks incl' ext' W n i S = apicks incl ext W n i S := by
  intro n
  induction n with
  | zero => intro i S _; rfl
  | succ n ih =>
    intro i S hc
    unfold apicks at hc ⊢
    simp only at hc ⊢
    by_cases hf : (awalk incl ext (W i) S).2 = true
    · rw [if_pos hf] at hc
      have hw := awalk_congr incl ext incl' ext' hfalse (W i) S
        (fun x hx => hc x (apicks_sub incl ext W n (i + 1) _ x hx))
      rw [hw, if_pos hf, if_pos hf]
      exact ih _ _ hc
    · rw [if_neg hf] at hc
      have hw := awalk_congr incl ext incl' ext' hfalse (W i) S hc
      rw [hw, if_neg hf, if_neg hf]
end

/-- `zoneStep` through the abstract walk, needing only distinct ids. -/
theorem zoneStep_eq' (cfg : Cfg) (d : CDesc) (hd : IdInj d) (p : LB) (starts : String → Nat → Nat) (n : Int)
    (shard : List CInst) (hs : ∀ a ∈ shard, a ∈ d) (z : String) :
    zoneStep cfg d p starts n shard z =
      if cfg.zoneAware then
        if n ≥ (countPerZone d z : Nat) then (d.filter fun i => inZone z i && includeRO p i) ++ shard
        else apicks (includeRO p) (extend p) (Wz d starts z) n.toNat 0 shard
      else apicks (includeRO p) (extend p) (Wall d starts) n.toNat 0 shard := by
  unfold zoneStep
  split
  · split
    · rfl
    · exact picks_eq_apicks p d hd _ (fun x hx => by
        have := (mem_owners _ x).mp hx; exact (List.mem_filter.mp this.1).1) _ _ _ _ hs
  · exact picks_eq_apicks p d hd _ (fun x hx => ((mem_owners _ x).mp hx).1) _ _ _ _ hs

theorem zoneStep_sub_mem (cfg : Cfg) (d : CDesc) (hd : IdInj d) (p : LB) (starts : String → Nat → Nat) (n : Int)
    (shard : List CInst) (hs : ∀ a ∈ shard, a ∈ d) (z : String) :
    (∀ x ∈ shard, x ∈ zoneStep cfg d p starts n shard z) ∧ (∀ x ∈ zoneStep cfg d p starts n shard z, x ∈ d) := by
  rw [zoneStep_eq' cfg d hd p starts n shard hs z]
  split
  · split
    · exact ⟨fun x hx => List.mem_append_right _ hx, fun x hx => by
        rcases List.mem_append.mp hx with h | h
        · exact (List.mem_filter.mp h).1
        · exact hs x h⟩
    · exact ⟨apicks_sub _ _ _ _ _ _, fun x hx => by
        rcases apicks_mem _ _ _ _ _ _ x hx with h | ⟨⟨j, hj⟩, _⟩
        · exact hs x h
        · exact ((mem_Wz d starts z j x).mp hj).1.1⟩
  · exact ⟨apicks_sub _ _ _ _ _ _, fun x hx => by
      rcases apicks_mem _ _ _ _ _ _ x hx with h | ⟨⟨j, hj⟩, _⟩
      · exact hs x h
      · exact ((mem_Wall d starts j x).mp hj).1⟩

theorem foldl_zoneStep_sub (cfg : Cfg) (d : CDesc) (hd : IdInj d) (p : LB) (starts : String → Nat → Nat) (n : Int) :
    ∀ (zs : List String) (shard : List CInst), (∀ a ∈ shard, a ∈ d) →
    (∀ x ∈ shard, x ∈ zs.foldl (zoneStep cfg d p starts n) shard) ∧
    (∀ x ∈ zs.foldl (zoneStep cfg d p starts n) shard, x ∈ d) := by
  intro zs
  induction zs with
  | nil => intro shard hs; exact ⟨fun x hx => hx, hs⟩
  | cons z zs ih =>
    intro shard hs
    have h1 := zoneStep_sub_mem cfg d hd p starts n shard hs z
    have h2 := ih _ h1.2
    rw [List.foldl_cons]
    exact ⟨fun x hx => h2.1 x (h1.1 x hx), h2.2⟩

/-- what a member's timestamps must satisfy for the window to move from `p` to `p'`. -/
def Stable (p p' : LB) (m : CInst) : Prop :=
  (m.regTs ≥ p.til → m.regTs ≥ p'.til) ∧ (m.roTs ≥ p.til → m.roTs ≥ p'.til)

theorem includeRO_false_mono (p p' : LB) (hon : p'.on = p.on) (hle : p.til ≤ p'.til) (x : CInst)
    (h : includeRO p x = false) : includeRO p' x = false := by
  unfold includeRO at h ⊢
  rw [hon]
  cases hro : x.ro with
  | false => simp [hro] at h
  | true =>
    simp only [hro, Bool.not_true, Bool.false_eq_true, if_false] at h ⊢
    cases hon' : p.on with
    | false => simp
    | true =>
      simp only [hon', Bool.not_true, Bool.false_eq_true, if_false] at h ⊢
      by_cases hc : (decide (x.roTs > 0) && decide (x.roTs < p.til)) = true
      · have : (decide (x.roTs > 0) && decide (x.roTs < p'.til)) = true := by
          simp only [Bool.and_eq_true, decide_eq_true_eq] at hc ⊢; omega
        rw [if_pos this]
      · rw [if_neg hc] at h; cases h

theorem stable_congr (p p' : LB) (hon : p'.on = p.on) (hle : p.til ≤ p'.til) (x : CInst) (hs : Stable p p' x)
    (h : includeRO p x = true) : includeRO p' x = true ∧ extend p' x = extend p x := by
  unfold Stable at hs
  constructor
  · unfold includeRO at h ⊢
    rw [hon]
    cases hro : x.ro with
    | false => simp
    | true =>
      simp only [hro, Bool.not_true, Bool.false_eq_true, if_false] at h ⊢
      cases hon' : p.on with
      | false => simp [hon'] at h
      | true =>
        simp only [hon', Bool.not_true, Bool.false_eq_true, if_false] at h ⊢
        by_cases hc : (decide (x.roTs > 0) && decide (x.roTs < p.til)) = true
        · rw [if_pos hc] at h; cases h
        · have : ¬ (decide (x.roTs > 0) && decide (x.roTs < p'.til)) = true := by
            simp only [Bool.and_eq_true, decide_eq_true_eq, not_and, Int.not_lt] at hc ⊢
            intro h0; exact hs.2 (hc h0)
          rw [if_neg this]
  · unfold extend
    rw [hon]
    congr 1
    have e1 : decide (x.regTs ≥ p'.til) = decide (x.regTs ≥ p.til) := by
      by_cases h1 : x.regTs ≥ p.til
      · simp [h1, hs.1 h1]
      · have : ¬ x.regTs ≥ p'.til := by omega
        simp [h1, this]
    have e2 : decide (x.roTs ≥ p'.til) = decide (x.roTs ≥ p.til) := by
      by_cases h1 : x.roTs ≥ p.til
      · simp [h1, hs.2 h1]
      · have : ¬ x.roTs ≥ p'.til := by omega
        simp [h1, this]
    rw [e1, e2]

theorem foldl_zoneStep_congr (cfg : Cfg) (d : CDesc) (hd : IdInj d) (p p' : LB) (hon : p'.on = p.on)
    (hle : p.til ≤ p'.til) (starts : String → Nat → Nat) (n : Int) :
    ∀ (zs : List String) (shard : List CInst), (∀ a ∈ shard, a ∈ d) →
    (∀ m ∈ zs.foldl (zoneStep cfg d p starts n) shard, Stable p p' m) →
    zs.foldl (zoneStep cfg d p' starts n) shard = zs.foldl (zoneStep cfg d p starts n) shard := by
  intro zs
  induction zs with
  | nil => intro shard _ _; rfl
  | cons z zs ih =>
    intro shard hs hst
    rw [List.foldl_cons, List.foldl_cons] at *
    have h1 := zoneStep_sub_mem cfg d hd p starts n shard hs z
    have hsub := (foldl_zoneStep_sub cfg d hd p starts n zs _ h1.2).1
    have hfalse := includeRO_false_mono p p' hon hle
    have hcong : ∀ x, x ∈ zoneStep cfg d p starts n shard z → includeRO p x = true →
        includeRO p' x = true ∧ extend p' x = extend p x :=
      fun x hx hi => stable_congr p p' hon hle x (hst x (hsub x hx)) hi
    have hstep : zoneStep cfg d p' starts n shard z = zoneStep cfg d p starts n shard z := by
      rw [zoneStep_eq' cfg d hd p starts n shard hs z] at hcong ⊢
      rw [zoneStep_eq' cfg d hd p' starts n shard hs z]
      split
      · split
        · congr 1
          apply List.filter_congr
          intro x hx
          cases hz : inZone z x with
          | false => simp
          | true =>
            simp only [Bool.true_and]
            cases hi : includeRO p x with
            | false => exact hfalse x hi
            | true =>
              rename_i hza hge
              rw [if_pos hza, if_pos hge] at hcong
              exact (hcong x (List.mem_append_left _ (List.mem_filter.mpr ⟨hx, by simp [hz, hi]⟩)) hi).1
        · rename_i hza hge
          rw [if_pos hza, if_neg hge] at hcong
          exact apicks_congr _ _ _ _ hfalse _ _ _ _ hcong
      · rename_i hza
        rw [if_neg hza] at hcong
        exact apicks_congr _ _ _ _ hfalse _ _ _ _ hcong
    rw [hstep]
    exact ih _ h1.2 hst

/-- the ring itself is returned (never cached): `shuffleShard`'s early return resp. the two
shortcuts of `filterOutReadOnlyInstances`. -/
def selfRing (d : CDesc) (size : Int) (p : LB) : Bool :=
  if size ≤ 0 then (roStats d).1 == 0 || (p.on && decide ((roStats d).2 ≥ p.til))
  else early d p

/-- **look-back window validity**: moving the window start forward without passing a member's
registration / read-only timestamp does not change the look-back shard. -/
theorem shard_window_const (cfg : Cfg) (d : CDesc) (hd : IdInj d) (starts : String → Nat → Nat)
    (size period now now' : Int) (hle : now ≤ now')
    (hns : selfRing d size (mkLB period now) = false)
    (hst : ∀ m ∈ shard cfg d starts size period now, Stable (mkLB period now) (mkLB period now') m) :
    selfRing d size (mkLB period now') = false ∧
    shard cfg d starts size period now' = shard cfg d starts size period now := by
  have hon : (mkLB period now').on = (mkLB period now).on := rfl
  have htil : (mkLB period now).til ≤ (mkLB period now').til := by simp only [mkLB]; omega
  unfold selfRing at hns ⊢
  unfold shard at hst ⊢
  by_cases hsz : size ≤ 0
  · simp only [if_pos hsz] at hns hst ⊢
    simp only [Bool.or_eq_false_iff, Bool.and_eq_false_iff, decide_eq_false_iff_not] at hns
    have hns' : ((roStats d).1 == 0 || ((mkLB period now').on && decide ((roStats d).2 ≥ (mkLB period now').til))) = false := by
      simp only [Bool.or_eq_false_iff, Bool.and_eq_false_iff, decide_eq_false_iff_not]
      refine ⟨hns.1, ?_⟩
      rcases hns.2 with h | h
      · left; exact h
      · right; omega
    refine ⟨hns', ?_⟩
    unfold filterOutRO at hst ⊢
    simp only at hst ⊢
    have h1 : ¬ ((roStats d).1 == 0) = true := by simp [hns.1]
    have h2 : ¬ ((mkLB period now).on && decide ((roStats d).2 ≥ (mkLB period now).til)) = true := by
      simp only [Bool.and_eq_true, decide_eq_true_eq, not_and]
      intro h; rcases hns.2 with h' | h'
      · rw [h'] at h; cases h
      · exact h'
    have h2' : ¬ ((mkLB period now').on && decide ((roStats d).2 ≥ (mkLB period now').til)) = true := by
      simp only [Bool.or_eq_false_iff] at hns'
      simp [hns'.2]
    rw [if_neg h1, if_neg h2] at hst
    rw [if_neg h1, if_neg h2', if_neg h1, if_neg h2]
    apply List.filter_congr
    intro x hx
    cases hi : includeRO (mkLB period now) x with
    | false => exact includeRO_false_mono _ _ hon htil x hi
    | true => exact (stable_congr _ _ hon htil x (hst x (List.mem_filter.mpr ⟨hx, hi⟩)) hi).1
  · simp only [if_neg hsz] at hns hst ⊢
    have he' : early d (mkLB period now') = false := by
      unfold early at hns ⊢
      simp only [Bool.and_eq_false_iff, decide_eq_false_iff_not] at hns ⊢
      rcases hns with (h | h) | h
      · left; left; exact h
      · left; right; exact h
      · right; omega
    refine ⟨he', ?_⟩
    rw [shuffleShard_unfold, shuffleShard_unfold, hns, he']
    simp only [Bool.false_eq_true, if_false]
    rw [shuffleShard_unfold, hns] at hst
    simp only [Bool.false_eq_true, if_false] at hst
    exact foldl_zoneStep_congr cfg d hd _ _ hon htil starts _ _ [] (by simp) hst

end PfC12

namespace PfC12
open C12

theorem shard_sub_d (cfg : Cfg) (d : CDesc) (hd : IdInj d) (starts : String → Nat → Nat) (size period now : Int) :
    ∀ m ∈ shard cfg d starts size period now, m ∈ d := by
  intro m hm
  unfold shard at hm
  split at hm
  · unfold filterOutRO at hm
    simp only at hm
    split at hm
    · exact hm
    · split at hm
      · exact hm
      · exact (List.mem_filter.mp hm).1
  · rw [shuffleShard_unfold] at hm
    split at hm
    · exact hm
    · exact (foldl_zoneStep_sub cfg d hd _ starts _ _ [] (by simp)).2 m hm

end PfC12
