import Proofs.C12.PartBasic
import Proofs.C12.TokensG
import Proofs.C12.Remove
/-!
# C12 — partition ring: removing one partition changes the plain shard by at most one
-/
namespace PfC12
open C12

def PTokNodup (ps : List Part) : Prop := TokNodupG (fun p : Part => p.tokens) ps
def neqP (x : Part) : Part → Bool := fun y => decide (y ≠ x)

theorem partTokens_eq (ps : List Part) : partTokens ps = ownedG (fun p : Part => p.tokens) ps := rfl

theorem PW_filter (ps : List Part) (h : PTokNodup ps) (q : Part → Bool) (starts : Nat → Nat) :
    PW (ps.filter q) starts = fun i => (PW ps starts i).filter q := by
  funext i
  unfold PW
  rw [partTokens_eq, partTokens_eq, walkOrderG_filter _ q ps h]

theorem PW_same (ps : List Part) (starts : Nat → Nat) : ∀ i j x, x ∈ PW ps starts i → x ∈ PW ps starts j := by
  intro i j x h; rw [mem_PW] at h ⊢; exact h

theorem PWF.filter {ps : List Part} (h : PWF ps) (q : Part → Bool) : PWF (ps.filter q) :=
  List.Nodup.sublist (List.Sublist.map _ List.filter_sublist) h

theorem PAllTok.filter {ps : List Part} (h : PAllTok ps) (q : Part → Bool) : PAllTok (ps.filter q) :=
  fun p hp => h p (List.mem_filter.mp hp).1

def pplain (ps : List Part) (starts : Nat → Nat) (n : Nat) : List Part :=
  apicks (fun p : Part => p.state == PState.active) noExt (PW ps starts) n 0 []

theorem psel_plain (ps : List Part) (starts : Nat → Nat) (size now : Int) :
    psel ps starts size 0 now = pplain ps starts (psize ps size) := by
  unfold psel pplain
  have hd : decide ((0 : Int) > 0) = false := by decide
  rw [hd, pwithin_plain]
  congr 1
  funext p; exact pincl_plain _ p

/-- with at least as many iterations as partitions the plain walk selects every ACTIVE partition. -/
theorem pplain_all (ps : List Part) (h : PWF ps) (ht : PAllTok ps) (starts : Nat → Nat) (n : Nat) (hn : ps.length ≤ n)
    (a : Part) : a ∈ pplain ps starts n ↔ a ∈ ps ∧ a.state = PState.active := by
  unfold pplain
  constructor
  · intro ha
    rcases apicks_mem _ _ _ _ _ _ a ha with h0 | ⟨⟨j, hj⟩, hi⟩
    · cases h0
    · exact ⟨((mem_PW ps starts j a).mp hj).1, by simpa using hi⟩
  · rintro ⟨ha, hs⟩
    exact apicks_all _ _ (PW ps starts) ps h.nodup (fun i x => by
      rw [mem_PW]; exact ⟨fun hx => hx.1, fun hx => ⟨hx, ht x hx⟩⟩) n 0 [] (by omega) a ha (by simp [hs])

theorem length_filter_neq (ps : List Part) (h : ps.Nodup) (x : Part) (hx : x ∈ ps) :
    (ps.filter (neqP x)).length + 1 = ps.length := by
  induction ps with
  | nil => cases hx
  | cons a l ih =>
    have hnd := List.nodup_cons.mp h
    rw [List.filter_cons]
    by_cases e : a = x
    · subst e
      have : neqP a a = false := by simp [neqP]
      rw [this]
      have : l.filter (neqP a) = l := by
        apply List.filter_eq_self.mpr; intro y hy; simp only [neqP, decide_eq_true_eq]; intro e; exact hnd.1 (e ▸ hy)
      simp [this]
    · have : neqP x a = true := by simp [neqP, e]
      rw [this]
      rcases List.mem_cons.mp hx with e' | hx'
      · exact absurd e'.symm e
      · have := ih hnd.2 hx'
        simp only [List.length_cons, if_true]; omega

/-- **at most one difference after removing one partition** (Part level). -/
theorem pplain_remove_one (ps : List Part) (h : PWF ps) (ht : PAllTok ps) (htn : PTokNodup ps) (starts : Nat → Nat)
    (size : Int) (x : Part) (hx : x ∈ ps) :
    let S := pplain ps starts (psize ps size)
    let S' := pplain (ps.filter (neqP x)) starts (psize (ps.filter (neqP x)) size)
    (x ∉ S → ∀ a, a ∈ S' ↔ a ∈ S) ∧
    ∃ Z : List Part, Z.length ≤ 1 ∧ (∀ z ∈ Z, z ∉ S) ∧ ∀ a, a ∈ S' ↔ ((a ∈ S ∧ a ≠ x) ∨ a ∈ Z) := by
  have hlen := length_filter_neq ps h.nodup x hx
  simp only
  by_cases hbig : size ≤ 0 ∨ size ≥ (ps.length : Int)
  · -- both "all ACTIVE partitions"
    have hn : psize ps size = ps.length := by
      unfold psize
      have : (decide (size ≤ 0) || decide (size ≥ (ps.length : Int))) = true := by simpa using hbig
      rw [if_pos this]
    have hn' : psize (ps.filter (neqP x)) size = (ps.filter (neqP x)).length := by
      unfold psize
      have : (decide (size ≤ 0) || decide (size ≥ ((ps.filter (neqP x)).length : Int))) = true := by
        simp only [Bool.or_eq_true, decide_eq_true_eq]; omega
      rw [if_pos this]
    rw [hn, hn']
    have hS := pplain_all ps h ht starts ps.length (Nat.le_refl _)
    have hS' := pplain_all _ (h.filter (neqP x)) (ht.filter _) starts (ps.filter (neqP x)).length (Nat.le_refl _)
    have hiff : ∀ a, a ∈ pplain (ps.filter (neqP x)) starts (ps.filter (neqP x)).length ↔
        (a ∈ pplain ps starts ps.length ∧ a ≠ x) := by
      intro a
      rw [hS, hS', List.mem_filter]
      simp only [neqP, decide_eq_true_eq]
      constructor
      · rintro ⟨⟨h1, h2⟩, h3⟩; exact ⟨⟨h1, h3⟩, h2⟩
      · rintro ⟨⟨h1, h3⟩, h2⟩; exact ⟨⟨h1, h2⟩, h3⟩
    refine ⟨?_, [], by simp, by simp, fun a => by rw [hiff a]; simp⟩
    intro hxS a
    rw [hiff a]
    exact ⟨fun hh => hh.1, fun hh => ⟨hh, fun e => hxS (e ▸ hh)⟩⟩
  · -- same number of iterations: the exchange invariant
    have hn : psize ps size = size.toNat := by
      unfold psize
      have : ¬ (decide (size ≤ 0) || decide (size ≥ (ps.length : Int))) = true := by simp; omega
      rw [if_neg this]
    have hn' : psize (ps.filter (neqP x)) size = size.toNat := by
      unfold psize
      by_cases hc : (decide (size ≤ 0) || decide (size ≥ ((ps.filter (neqP x)).length : Int))) = true
      · rw [if_pos hc]
        simp only [Bool.or_eq_true, decide_eq_true_eq] at hc
        omega
      · rw [if_neg hc]
    rw [hn, hn']
    unfold pplain
    rw [PW_filter ps htn (neqP x) starts, apicks_filter_eq]
    exact (ExInv.step _ _ x (PW_same ps starts) size.toNat 0 [] [] (.same (by simp) (by simp))).result

/-- **at most one difference after removing one partition**: the ids returned for the ring without
`x` are those returned for the ring, minus `x.id`, plus at most one new id. -/
theorem pshard_remove_one (ps : List Part) (h : PWF ps) (ht : PAllTok ps) (htn : PTokNodup ps) (starts : Nat → Nat)
    (size now now' : Int) (x : Part) (hx : x ∈ ps) :
    (x.id ∉ pshard ps starts size 0 now →
      ∀ id, id ∈ pshard (ps.filter (neqP x)) starts size 0 now' ↔ id ∈ pshard ps starts size 0 now) ∧
    ∃ Z : List Int, Z.length ≤ 1 ∧ (∀ z ∈ Z, z ∉ pshard ps starts size 0 now) ∧
      ∀ id, id ∈ pshard (ps.filter (neqP x)) starts size 0 now' ↔
        ((id ∈ pshard ps starts size 0 now ∧ id ≠ x.id) ∨ id ∈ Z) := by
  have hinj := h.idInj
  have h' := h.filter (neqP x)
  obtain ⟨hsame, Zp, hlen, hZ, hiff⟩ := pplain_remove_one ps h ht htn starts size x hx
  have hmem : ∀ id, id ∈ pshard ps starts size 0 now ↔ ∃ p ∈ pplain ps starts (psize ps size), p.id = id := by
    intro id; rw [mem_pshard ps hinj, psel_plain]
  have hmem' : ∀ id, id ∈ pshard (ps.filter (neqP x)) starts size 0 now' ↔
      ∃ p ∈ pplain (ps.filter (neqP x)) starts (psize (ps.filter (neqP x)) size), p.id = id := by
    intro id; rw [mem_pshard _ h'.idInj, psel_plain]
  have hsub : ∀ p ∈ pplain ps starts (psize ps size), p ∈ ps := by
    intro p hp; rw [← psel_plain ps starts size 0] at hp; exact psel_sub ps starts size 0 0 p hp
  have hsub' : ∀ p ∈ pplain (ps.filter (neqP x)) starts (psize (ps.filter (neqP x)) size), p ∈ ps := by
    intro p hp; rw [← psel_plain _ starts size 0] at hp
    exact (List.mem_filter.mp (psel_sub _ starts size 0 0 p hp)).1
  constructor
  · intro hxid id
    have hxS : x ∉ pplain ps starts (psize ps size) := fun hc => hxid ((hmem x.id).mpr ⟨x, hc, rfl⟩)
    rw [hmem, hmem']
    constructor
    · rintro ⟨p, hp, e⟩; exact ⟨p, (hsame hxS p).mp hp, e⟩
    · rintro ⟨p, hp, e⟩; exact ⟨p, (hsame hxS p).mpr hp, e⟩
  · refine ⟨Zp.map (·.id), by simpa using hlen, ?_, ?_⟩
    · intro z hz hin
      obtain ⟨zp, hzp, rfl⟩ := List.mem_map.mp hz
      obtain ⟨b, hb, e⟩ := (hmem _).mp hin
      have hzS' := (hiff zp).mpr (Or.inr hzp)
      have : b = zp := hinj b (hsub b hb) zp (hsub' zp hzS') e
      exact hZ zp hzp (this ▸ hb)
    · intro id
      rw [hmem, hmem']
      constructor
      · rintro ⟨p, hp, rfl⟩
        rcases (hiff p).mp hp with ⟨h1, h2⟩ | h1
        · exact Or.inl ⟨⟨p, h1, rfl⟩, fun e => h2 (hinj p (hsub p h1) x hx e)⟩
        · exact Or.inr (List.mem_map_of_mem h1)
      · rintro (⟨⟨p, hp, rfl⟩, hne⟩ | hz)
        · exact ⟨p, (hiff p).mpr (Or.inl ⟨hp, fun e => hne (e ▸ rfl)⟩), rfl⟩
        · obtain ⟨zp, hzp, rfl⟩ := List.mem_map.mp hz
          exact ⟨zp, (hiff zp).mpr (Or.inr hzp), rfl⟩

end PfC12
