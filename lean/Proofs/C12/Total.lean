import Proofs.C12.SuperRO
/-!
# C12 — on a well-formed ring the shuffle shard never hits the inconsistent-token `panic`

`shardC` keeps the token index (`tokenList`) apart from the owner index (`instanceByToken`) like the
Go code; on a ring with distinct ids and globally unique tokens every token of the token index has
its owner in the owner index, so the checked model returns `.ok` of the unchecked one.
-/
namespace PfC12
open C12

theorem tokenList_eq (l : CDesc) : tokenList l = (ownedTokens l).map (·.1) := by
  rw [ownedTokens_def, tokenList,
    List.map_mergeSort (r := tokLe) (s := fun a b => decide (a ≤ b)) (f := (·.1)) (l := pairs l) (fun a _ b _ => rfl),
    pairs_map_fst]

theorem instanceByToken_owner (d : CDesc) (hd : TokNodup d) (i : CInst) (hi : i ∈ d) (t : Nat) (ht : t ∈ i.tokens) :
    instanceByToken d t = some i := by
  unfold instanceByToken
  cases hf : d.find? (fun i => i.tokens.contains t) with
  | none =>
    have := List.find?_eq_none.mp hf i hi
    simp [ht] at this
  | some j =>
    have hj := List.mem_of_find?_eq_some hf
    have hjt : t ∈ j.tokens := by simpa using List.find?_some hf
    have hnd : ((pairs d).map (·.1)).Nodup := by rw [pairs_map_fst]; exact hd
    have := nodup_map_inj (·.1) (pairs d) hnd (t, i) ((mem_pairs d t i).mpr ⟨hi, ht⟩) (t, j)
      ((mem_pairs d t j).mpr ⟨hj, hjt⟩) rfl
    cases this; rfl

theorem walkC_eq (p : LB) (byTok : Nat → Option CInst) : ∀ (toks : List (Nat × CInst)),
    (∀ q ∈ toks, byTok q.1 = some q.2) → ∀ sel,
    walkC p byTok (toks.map (·.1)) sel = .ok (walk p (toks.map (·.2)) sel) := by
  intro toks
  induction toks with
  | nil => intro _ sel; rfl
  | cons q rest ih =>
    intro h sel
    have hq := h q List.mem_cons_self
    have hrest : ∀ q' ∈ rest, byTok q'.1 = some q'.2 := fun q' hq' => h q' (List.mem_cons_of_mem _ hq')
    simp only [List.map_cons]
    unfold walkC walk
    rw [hq]
    simp only
    split
    · exact ih hrest sel
    · split
      · exact ih hrest sel
      · split
        · exact ih hrest _
        · rfl

theorem rotate_map {β γ : Type} (f : β → γ) (l : List β) (i : Nat) : rotate (l.map f) i = (rotate l i).map f := by
  unfold rotate; simp [List.map_drop, List.map_take]

theorem mem_rotate {β : Type} (l : List β) (i : Nat) (x : β) : x ∈ rotate l i → x ∈ l := by
  unfold rotate
  intro h
  rcases List.mem_append.mp h with h | h
  · exact List.mem_of_mem_drop h
  · exact List.mem_of_mem_take h

theorem searchTokenN_eq (toks : List (Nat × CInst)) (u : Nat) :
    searchTokenN (toks.map (·.1)) u = searchToken toks u := by
  unfold searchTokenN
  rw [List.map_map]
  exact searchToken_map (fun q : Nat × CInst => (q.1, ())) (fun _ => rfl) toks u

theorem picksC_eq (p : LB) (byTok : Nat → Option CInst) (toks : List (Nat × CInst))
    (h : ∀ q ∈ toks, byTok q.1 = some q.2) (starts : Nat → Nat) : ∀ n i sel,
    picksC p byTok (toks.map (·.1)) starts n i sel = .ok (picks p toks starts n i sel) := by
  intro n
  induction n with
  | zero => intro i sel; rfl
  | succ n ih =>
    intro i sel
    unfold picksC picks
    rw [searchTokenN_eq, rotate_map,
      walkC_eq p byTok (rotate toks (searchToken toks (starts i))) (fun q hq => h q (mem_rotate _ _ _ hq))]
    have hwo : (rotate toks (searchToken toks (starts i))).map (·.2) = walkOrder toks (starts i) := rfl
    rw [hwo]
    simp only
    by_cases hf : (walk p (walkOrder toks (starts i)) sel).2 = true
    · rw [if_pos hf, if_pos hf]; exact ih _ _
    · rw [if_neg hf, if_neg hf]

theorem zoneStepC_eq (cfg : Cfg) (d : CDesc) (hd : TokNodup d) (p : LB) (starts : String → Nat → Nat) (n : Int)
    (shard : List CInst) (z : String) :
    zoneStepC cfg d p starts n shard z = .ok (zoneStep cfg d p starts n shard z) := by
  unfold zoneStepC zoneStep
  split
  · split
    · rfl
    · rw [tokenList_eq]
      exact picksC_eq p _ _ (fun q hq => by
        have := (mem_ownedTokens _ q.1 q.2).mp hq
        exact instanceByToken_owner d hd q.2 (List.mem_filter.mp this.1).1 q.1 this.2) _ _ _ _
  · rw [tokenList_eq]
    exact picksC_eq p _ _ (fun q hq => by
      have := (mem_ownedTokens _ q.1 q.2).mp hq
      exact instanceByToken_owner d hd q.2 this.1 q.1 this.2) _ _ _ _

theorem foldZonesC_eq (f : List CInst → String → Except Err (List CInst)) (g : List CInst → String → List CInst)
    (h : ∀ s z, f s z = .ok (g s z)) : ∀ zs s, foldZonesC f zs s = .ok (zs.foldl g s) := by
  intro zs
  induction zs with
  | nil => intro s; rfl
  | cons z zs ih => intro s; unfold foldZonesC; rw [h s z]; exact ih _

/-- **the shuffle shard is total on well-formed rings**: with globally unique tokens (in particular on
every well-formed ring, `WF`) the plain and the look-back shuffle shard, for every size, stream and
time, never take the inconsistent-token `panic` branch and return the shard of the model. -/
theorem shard_total (cfg : Cfg) (d : CDesc) (hd : TokNodup d) (starts : String → Nat → Nat) (size period now : Int) :
    shardC cfg d starts size period now = .ok (shard cfg d starts size period now) := by
  unfold shardC shard
  split
  · rfl
  · unfold shuffleShardC shuffleShard
    simp only
    split
    · rfl
    · exact foldZonesC_eq _ _ (fun s z => zoneStepC_eq cfg d hd _ starts _ s z) _ _

end PfC12
