import Proofs.C12.Count
/-!
# C12 — the look-back walk covers every plain shard of the window (abstract form)

`W i` are the walk lists of the present ring. An earlier ring of the window is described by
`keep` (the instances that were already registered) and `el'` (the instances that were not
read-only then); its walk lists are `(W i).filter keep`. The only facts needed are
* `h1`: an instance that was present and eligible then is includable by the look-back walk now;
* `h2`: an instance at which the look-back walk stops (includable, no extension) was present and
  eligible then.
-/
namespace PfC12
variable {α : Type} [DecidableEq α]

theorem awalk_lb_key (incl ext el' keep : α → Bool)
    (h1 : ∀ x, keep x = true → el' x = true → incl x = true)
    (h2 : ∀ x, incl x = true → ext x = false → keep x = true ∧ el' x = true)
    (S' : List α) : ∀ (w T : List α), (∀ x ∈ S', x ∈ T) → ∀ y,
    (w.filter keep).find? (fun y => el' y && decide (y ∉ S')) = some y →
    y ∈ (awalk incl ext w T).1 := by
  intro w
  induction w with
  | nil => intro T _ y h; simp at h
  | cons a rest ih =>
    intro T hT y hy
    -- is `a` the plain pick?
    have hcase : (keep a = true ∧ el' a = true ∧ a ∉ S' ∧ y = a) ∨
        ((rest.filter keep).find? (fun y => el' y && decide (y ∉ S')) = some y ∧
          ¬ (keep a = true ∧ el' a = true ∧ a ∉ S')) := by
      by_cases hk : keep a = true
      · rw [List.filter_cons, if_pos hk, List.find?_cons] at hy
        by_cases hc : (el' a && decide (a ∉ S')) = true
        · rw [hc] at hy
          simp only [Bool.and_eq_true, decide_eq_true_eq] at hc
          left; exact ⟨hk, hc.1, hc.2, by simpa using hy.symm⟩
        · have hc' : (el' a && decide (a ∉ S')) = false := by simpa using hc
          rw [hc'] at hy
          right; refine ⟨hy, ?_⟩
          intro h; apply hc; simp [h.2.1, h.2.2]
      · rw [List.filter_cons, if_neg hk] at hy
        right; exact ⟨hy, fun h => hk h.1⟩
    unfold awalk
    by_cases hs : a ∈ T
    · rw [if_pos hs]
      rcases hcase with ⟨_, _, _, rfl⟩ | ⟨hr, _⟩
      · exact awalk_sub incl ext rest T y hs
      · exact ih T hT y hr
    · rw [if_neg hs]
      by_cases hi : incl a = true
      · have e : (!incl a) = false := by simp [hi]
        rw [e]; simp only [Bool.false_eq_true, if_false]
        by_cases hx : ext a = true
        · rw [if_pos hx]
          rcases hcase with ⟨_, _, _, rfl⟩ | ⟨hr, _⟩
          · exact awalk_sub incl ext rest (y :: T) y List.mem_cons_self
          · exact ih (a :: T) (fun x hx => List.mem_cons_of_mem _ (hT x hx)) y hr
        · rw [if_neg hx]
          have hx' : ext a = false := by simpa using hx
          have hk := h2 a hi hx'
          have haS : a ∉ S' := fun h => hs (hT a h)
          rcases hcase with ⟨_, _, _, rfl⟩ | ⟨_, hn⟩
          · exact List.mem_cons_self
          · exact absurd ⟨hk.1, hk.2, haS⟩ hn
      · have e : (!incl a) = true := by simp [hi]
        rw [e, if_pos rfl]
        rcases hcase with ⟨hk, he, _, _⟩ | ⟨hr, _⟩
        · exact absurd (h1 a hk he) hi
        · exact ih T hT y hr

theorem awalk_lb_step (incl ext el' keep : α → Bool)
    (h1 : ∀ x, keep x = true → el' x = true → incl x = true)
    (h2 : ∀ x, incl x = true → ext x = false → keep x = true ∧ el' x = true)
    (S' w T : List α) (hT : ∀ x ∈ S', x ∈ T) :
    ∀ x ∈ (awalk el' noExt (w.filter keep) S').1, x ∈ (awalk incl ext w T).1 := by
  intro x hx
  rw [awalk_plain] at hx
  cases hf : (w.filter keep).find? (fun y => el' y && decide (y ∉ S')) with
  | none => rw [hf] at hx; exact awalk_sub incl ext w T x (hT x hx)
  | some y =>
    rw [hf] at hx
    rcases List.mem_cons.mp hx with rfl | hx
    · exact awalk_lb_key incl ext el' keep h1 h2 S' w T hT _ hf
    · exact awalk_sub incl ext w T x (hT x hx)

/-- **look-back superset**: whatever the plain walk of the earlier ring selects in `n` iterations
is selected by the look-back walk of the present ring in `n` iterations. -/
theorem apicks_lb_superset (incl ext el' keep : α → Bool) (W : Nat → List α)
    (h1 : ∀ x, keep x = true → el' x = true → incl x = true)
    (h2 : ∀ x, incl x = true → ext x = false → keep x = true ∧ el' x = true)
    (hsame : ∀ i j x, x ∈ W i → x ∈ W j) : ∀ n i (S' T : List α), (∀ x ∈ S', x ∈ T) →
    ∀ x ∈ apicks el' noExt (fun i => (W i).filter keep) n i S', x ∈ apicks incl ext W n i T := by
  intro n
  induction n with
  | zero => intro i S' T hT x hx; simp only [apicks] at hx ⊢; exact hT x hx
  | succ n ih =>
    intro i S' T hT x hx
    have hstep := awalk_lb_step incl ext el' keep h1 h2 S' (W i) T hT
    unfold apicks at hx ⊢
    simp only at hx ⊢
    by_cases hf : (awalk incl ext (W i) T).2 = true
    · rw [if_pos hf]
      by_cases hf' : (awalk el' noExt ((W i).filter keep) S').2 = true
      · rw [if_pos hf'] at hx
        exact ih (i + 1) _ _ hstep x hx
      · rw [if_neg hf'] at hx
        exact apicks_sub incl ext W n (i + 1) _ x (hstep x hx)
    · rw [if_neg hf]
      have hnf : (awalk incl ext (W i) T).2 = false := by simpa using hf
      by_cases hf' : (awalk el' noExt ((W i).filter keep) S').2 = true
      · rw [if_pos hf'] at hx
        rcases apicks_mem el' noExt _ n (i + 1) _ x hx with h | ⟨⟨j, hj⟩, he⟩
        · exact hstep x h
        · have hj' := List.mem_filter.mp hj
          exact awalk_not_found incl ext (W i) T hnf x (hsame j i x hj'.1) (h1 x hj'.2 he)
      · rw [if_neg hf'] at hx
        exact hstep x hx

end PfC12
