import Model.C12
/-!
# C12 — token lists: `searchToken` + rotation = "tokens above the key, then tokens up to the key";
removing instances commutes with building the sorted token list (unique tokens).
-/
namespace PfC12
open C12

variable {β : Type}

/-- strictly ascending keys -/
def SortedKeys (l : List (Nat × β)) : Prop := l.Pairwise (fun a b => a.1 < b.1)

def leKey (u : Nat) : Nat × β → Bool := fun t => decide (t.1 ≤ u)
def gtKey (u : Nat) : Nat × β → Bool := fun t => decide (u < t.1)

theorem filter_le_nil_of_gt (u : Nat) : ∀ (l : List (Nat × β)), (∀ b ∈ l, u < b.1) → l.filter (leKey u) = [] := by
  intro l h
  apply List.filter_eq_nil_iff.mpr
  intro b hb; have := h b hb; simp [leKey]; omega

theorem filter_gt_self_of_gt (u : Nat) : ∀ (l : List (Nat × β)), (∀ b ∈ l, u < b.1) → l.filter (gtKey u) = l := by
  intro l h
  apply List.filter_eq_self.mpr
  intro b hb; have := h b hb; simp [gtKey]; omega

/-- the index computed by `searchToken` before wrapping is the number of tokens `≤ key`. -/
theorem searchIdx (u : Nat) : ∀ (l : List (Nat × β)), SortedKeys l →
    let i := (l.takeWhile fun t => decide (t.1 < u)).length
    (if (l[i]?.map (·.1)) == some u then i + 1 else i) = (l.filter (leKey u)).length := by
  intro l
  induction l with
  | nil => intro _; simp
  | cons a l ih =>
    intro hs
    have hs' := List.pairwise_cons.mp hs
    by_cases h1 : a.1 < u
    · have e1 : (List.takeWhile (fun t => decide (t.1 < u)) (a :: l)) = a :: List.takeWhile (fun t => decide (t.1 < u)) l := by
        rw [List.takeWhile_cons]; simp [h1]
      have e2 : List.filter (leKey u) (a :: l) = a :: List.filter (leKey u) l := by
        rw [List.filter_cons]; have : leKey u a = true := by simp [leKey]; omega
        rw [this]; rfl
      simp only [e1, e2, List.length_cons, List.getElem?_cons_succ]
      have := ih hs'.2
      simp only at this
      by_cases hc : (l[(List.takeWhile (fun t => decide (t.1 < u)) l).length]?.map (·.1) == some u) = true
      · rw [if_pos hc] at this ⊢; omega
      · rw [if_neg hc] at this ⊢; omega
    · have e1 : (List.takeWhile (fun t => decide (t.1 < u)) (a :: l)) = [] := by
        rw [List.takeWhile_cons]; simp [h1]
      have hgt : ∀ b ∈ l, a.1 < b.1 := hs'.1
      by_cases h2 : a.1 = u
      · have e2 : List.filter (leKey u) (a :: l) = [a] := by
          rw [List.filter_cons]; have : leKey u a = true := by simp [leKey]; omega
          rw [this, filter_le_nil_of_gt u l (fun b hb => by have := hgt b hb; omega)]; rfl
        simp [e1, e2, h2]
      · have e2 : List.filter (leKey u) (a :: l) = [] := by
          rw [List.filter_cons]; have : leKey u a = false := by simp [leKey]; omega
          rw [this, filter_le_nil_of_gt u l (fun b hb => by have := hgt b hb; omega)]; rfl
        simp [e1, e2, h2]

theorem take_drop_filter (u : Nat) : ∀ (l : List (Nat × β)), SortedKeys l →
    l.take (l.filter (leKey u)).length = l.filter (leKey u) ∧
    l.drop (l.filter (leKey u)).length = l.filter (gtKey u) := by
  intro l
  induction l with
  | nil => intro _; simp
  | cons a l ih =>
    intro hs
    have hs' := List.pairwise_cons.mp hs
    by_cases h1 : a.1 ≤ u
    · have e2 : List.filter (leKey u) (a :: l) = a :: List.filter (leKey u) l := by
        rw [List.filter_cons]; have : leKey u a = true := by simp [leKey]; omega
        rw [this]; rfl
      have e3 : List.filter (gtKey u) (a :: l) = List.filter (gtKey u) l := by
        rw [List.filter_cons]; have : gtKey u a = false := by simp [gtKey]; omega
        rw [this]; rfl
      rw [e2, e3]
      simp only [List.length_cons, List.take_succ_cons, List.drop_succ_cons]
      exact ⟨by rw [(ih hs'.2).1], (ih hs'.2).2⟩
    · have hgt : ∀ b ∈ l, u < b.1 := fun b hb => by have := hs'.1 b hb; omega
      have e2 : List.filter (leKey u) (a :: l) = [] := by
        rw [List.filter_cons]; have : leKey u a = false := by simp [leKey]; omega
        rw [this, filter_le_nil_of_gt u l hgt]; rfl
      have e3 : List.filter (gtKey u) (a :: l) = a :: l := by
        rw [List.filter_cons]; have : gtKey u a = true := by simp [gtKey]; omega
        rw [this, filter_gt_self_of_gt u l hgt]; rfl
      rw [e2, e3]; simp

/-- **the walk order**: owners of the tokens above the key, then owners of the tokens up to the key. -/
theorem walkOrder_eq (u : Nat) (l : List (Nat × β)) (hs : SortedKeys l) :
    walkOrder l u = (l.filter (gtKey u) ++ l.filter (leKey u)).map (·.2) := by
  unfold walkOrder searchToken rotate
  have hi := searchIdx u l hs
  simp only at hi ⊢
  rw [hi]
  have htd := take_drop_filter u l hs
  by_cases hk : (l.filter (leKey u)).length ≥ l.length
  · rw [if_pos hk]
    have hle : (l.filter (leKey u)).length = l.length := by
      have := List.length_filter_le (leKey u) l; omega
    have hall : l.filter (leKey u) = l := by
      rw [← htd.1, hle, List.take_length]
    have hnone : l.filter (gtKey u) = [] := by
      rw [← htd.2, hle, List.drop_length]
    rw [hall, hnone]; simp
  · rw [if_neg hk, htd.1, htd.2]

theorem mem_walkOrder (u : Nat) (l : List (Nat × β)) (x : β) :
    x ∈ walkOrder l u ↔ x ∈ l.map (·.2) := by
  unfold walkOrder rotate
  simp only [List.map_append, List.mem_append, List.mem_map]
  constructor
  · rintro (⟨p, hp, rfl⟩ | ⟨p, hp, rfl⟩)
    · exact ⟨p, List.mem_of_mem_drop hp, rfl⟩
    · exact ⟨p, List.mem_of_mem_take hp, rfl⟩
  · rintro ⟨p, hp, rfl⟩
    rw [← List.take_append_drop (searchToken l u) l] at hp
    rcases List.mem_append.mp hp with h | h
    · exact Or.inr ⟨p, h, rfl⟩
    · exact Or.inl ⟨p, h, rfl⟩

theorem nodup_map_inj {γ δ : Type} (f : γ → δ) : ∀ (l : List γ), (l.map f).Nodup →
    ∀ a ∈ l, ∀ b ∈ l, f a = f b → a = b := by
  intro l
  induction l with
  | nil => intro _ a ha; cases ha
  | cons c l ih =>
    intro nd a ha b hb e
    rw [List.map_cons] at nd
    have nd' := List.nodup_cons.mp nd
    rcases List.mem_cons.mp ha with h1 | h1 <;> rcases List.mem_cons.mp hb with h2 | h2
    · rw [h1, h2]
    · exact absurd (by rw [← h1, e]; exact List.mem_map_of_mem h2) nd'.1
    · exact absurd (by rw [← h2, ← e]; exact List.mem_map_of_mem h1) nd'.1
    · exact ih nd'.2 a h1 b h2 e

/-! ### the sorted token list of a ring -/

def pairs (l : CDesc) : List (Nat × CInst) := l.flatMap fun i => i.tokens.map fun t => (t, i)

theorem ownedTokens_def (l : CDesc) : ownedTokens l = (pairs l).mergeSort tokLe := rfl

theorem tokLe_trans : ∀ (a b c : Nat × CInst), tokLe a b = true → tokLe b c = true → tokLe a c = true := by
  intro a b c; simp [tokLe]; omega
theorem tokLe_total : ∀ (a b : Nat × CInst), (tokLe a b || tokLe b a) = true := by
  intro a b; simp [tokLe]; omega

theorem mem_pairs (l : CDesc) (t : Nat) (i : CInst) : (t, i) ∈ pairs l ↔ i ∈ l ∧ t ∈ i.tokens := by
  unfold pairs
  simp only [List.mem_flatMap, List.mem_map, Prod.mk.injEq]
  constructor
  · rintro ⟨j, hj, t', ht', rfl, rfl⟩; exact ⟨hj, ht'⟩
  · rintro ⟨hi, ht⟩; exact ⟨i, hi, t, ht, rfl, rfl⟩

theorem mem_ownedTokens (l : CDesc) (t : Nat) (i : CInst) : (t, i) ∈ ownedTokens l ↔ i ∈ l ∧ t ∈ i.tokens := by
  rw [ownedTokens_def, List.mem_mergeSort, mem_pairs]

theorem mem_owners (l : CDesc) (x : CInst) : x ∈ (ownedTokens l).map (·.2) ↔ x ∈ l ∧ x.tokens ≠ [] := by
  simp only [List.mem_map]
  constructor
  · rintro ⟨⟨t, i⟩, h, rfl⟩
    have := (mem_ownedTokens l t i).mp h
    exact ⟨this.1, List.ne_nil_of_mem this.2⟩
  · rintro ⟨hx, hne⟩
    obtain ⟨t, ht⟩ := List.exists_mem_of_ne_nil _ hne
    exact ⟨(t, x), (mem_ownedTokens l t x).mpr ⟨hx, ht⟩, rfl⟩

theorem pairs_map_fst (l : CDesc) : (pairs l).map (·.1) = l.flatMap (·.tokens) := by
  unfold pairs
  induction l with
  | nil => rfl
  | cons a l ih =>
    simp only [List.flatMap_cons, List.map_append, ih]
    congr 1
    simp [Function.comp_def]

theorem pairs_filter (q : CInst → Bool) (l : CDesc) : pairs (l.filter q) = (pairs l).filter (fun p => q p.2) := by
  unfold pairs
  induction l with
  | nil => rfl
  | cons a l ih =>
    rw [List.filter_cons]
    by_cases hq : q a = true
    · rw [if_pos hq, List.flatMap_cons, List.flatMap_cons, List.filter_append, ih]
      congr 1
      symm; apply List.filter_eq_self.mpr
      intro p hp
      obtain ⟨t, _, rfl⟩ := List.mem_map.mp hp
      exact hq
    · rw [if_neg hq, List.flatMap_cons, List.filter_append, ih]
      have : List.filter (fun p => q p.2) (List.map (fun t => (t, a)) a.tokens) = [] := by
        apply List.filter_eq_nil_iff.mpr
        intro p hp
        obtain ⟨t, _, rfl⟩ := List.mem_map.mp hp
        exact hq
      rw [this]; rfl

/-- globally unique tokens -/
def TokNodup (l : CDesc) : Prop := (l.flatMap (·.tokens)).Nodup

theorem TokNodup.filter {l : CDesc} (h : TokNodup l) (q : CInst → Bool) : TokNodup (l.filter q) := by
  unfold TokNodup at *
  rw [← pairs_map_fst, pairs_filter]
  rw [← pairs_map_fst] at h
  exact List.Nodup.sublist (List.Sublist.map _ List.filter_sublist) h

theorem sortedKeys_of_pairwise_le {l : List (Nat × CInst)} (hp : l.Pairwise (fun a b => tokLe a b = true))
    (nd : (l.map (·.1)).Nodup) : SortedKeys l := by
  unfold SortedKeys
  induction l with
  | nil => exact List.Pairwise.nil
  | cons a l ih =>
    have hp' := List.pairwise_cons.mp hp
    rw [List.map_cons] at nd
    have nd' := List.nodup_cons.mp nd
    refine List.pairwise_cons.mpr ⟨?_, ih hp'.2 nd'.2⟩
    intro b hb
    have h1 := hp'.1 b hb
    simp only [tokLe, decide_eq_true_eq] at h1
    have : a.1 ≠ b.1 := fun e => nd'.1 (e ▸ List.mem_map_of_mem hb)
    omega

theorem ownedTokens_sorted (l : CDesc) (h : TokNodup l) : SortedKeys (ownedTokens l) := by
  apply sortedKeys_of_pairwise_le
  · exact List.pairwise_mergeSort tokLe_trans tokLe_total _
  · rw [ownedTokens_def]
    have : (List.map (·.1) ((pairs l).mergeSort tokLe)).Perm ((pairs l).map (·.1)) :=
      (List.mergeSort_perm _ _).map _
    rw [this.nodup_iff, pairs_map_fst]; exact h

/-- removing instances from the ring removes exactly their tokens from the sorted token list. -/
theorem ownedTokens_filter (q : CInst → Bool) (l : CDesc) (h : TokNodup l) :
    ownedTokens (l.filter q) = (ownedTokens l).filter (fun p => q p.2) := by
  have hs1 : (ownedTokens (l.filter q)).Pairwise (fun a b => tokLe a b = true) :=
    List.pairwise_mergeSort tokLe_trans tokLe_total _
  have hs2 : ((ownedTokens l).filter (fun p => q p.2)).Pairwise (fun a b => tokLe a b = true) :=
    List.Pairwise.sublist List.filter_sublist (List.pairwise_mergeSort tokLe_trans tokLe_total _)
  have hperm : (ownedTokens (l.filter q)).Perm ((ownedTokens l).filter (fun p => q p.2)) := by
    rw [ownedTokens_def, ownedTokens_def, pairs_filter]
    exact (List.mergeSort_perm _ _).trans ((List.mergeSort_perm _ _).filter _).symm
  refine List.Perm.eq_of_pairwise ?_ hs1 hs2 hperm
  intro a b ha hb h1 h2
  simp only [tokLe, decide_eq_true_eq] at h1 h2
  have hk : a.1 = b.1 := by omega
  -- both are pairs of the big ring: equal tokens means equal pairs
  have ha' : a ∈ ownedTokens l := by
    have := (List.mem_filter.mp (hperm.mem_iff.mp ha)).1; exact this
  have hb' : b ∈ ownedTokens l := (List.mem_filter.mp hb).1
  have hsorted := ownedTokens_sorted l h
  have hnd : ((ownedTokens l).map (·.1)).Nodup := by
    have : (List.map (·.1) (ownedTokens l)).Perm ((pairs l).map (·.1)) := by
      rw [ownedTokens_def]; exact (List.mergeSort_perm _ _).map _
    rw [this.nodup_iff, pairs_map_fst]; exact h
  exact nodup_map_inj (·.1) _ hnd a ha' b hb' hk

theorem walkOrder_filter (q : CInst → Bool) (l : CDesc) (h : TokNodup l) (u : Nat) :
    walkOrder (ownedTokens (l.filter q)) u = (walkOrder (ownedTokens l) u).filter q := by
  rw [walkOrder_eq u _ (ownedTokens_sorted _ (h.filter q)), walkOrder_eq u _ (ownedTokens_sorted _ h),
    ownedTokens_filter q l h, List.filter_map]
  congr 1
  rw [List.filter_append]
  congr 1
  · rw [List.filter_filter, List.filter_filter]; apply List.filter_congr; intro p _; simp [Bool.and_comm]
  · rw [List.filter_filter, List.filter_filter]; apply List.filter_congr; intro p _; simp [Bool.and_comm]

end PfC12
