import Proofs.C12.SuperRO
import Proofs.C12.Remove
/-!
# C12 — the look-back shard covers the window: leaves + joins + read-only switches
-/
namespace PfC12
open C12

def notIn (L : List CInst) : CInst → Bool := fun y => !L.contains y

theorem filter_notIn_cons (r : CDesc) (x : CInst) (L : List CInst) :
    r.filter (notIn (x :: L)) = (r.filter (neq x)).filter (notIn L) := by
  rw [List.filter_filter]
  apply List.filter_congr
  intro a _
  simp only [notIn, neq, List.contains_cons, Bool.not_or]
  by_cases h : a = x
  · subst h; simp
  · have : (a == x) = false := by simpa using h
    simp [this, h]

/-- instances that leave one after the other (zone set unchanged): whoever was a member and did not
leave is still a member. -/
theorem shard_remove_many (cfg : Cfg) (starts : String → Nat → Nat) (size now : Int) (hsize : 0 < size) :
    ∀ (L : List CInst) (r : CDesc), WF r → AllTok r →
    (cfg.zoneAware = true → ∀ L' : List CInst, (∀ y ∈ L', y ∈ L) → zonesOf (r.filter (notIn L')) = zonesOf r) →
    ∀ a ∈ shard cfg r starts size 0 now, a ∉ L → a ∈ shard cfg (r.filter (notIn L)) starts size 0 now := by
  intro L
  induction L with
  | nil =>
    intro r _ _ _ a ha _
    have : r.filter (notIn []) = r := by apply List.filter_eq_self.mpr; intro x _; simp [notIn]
    rw [this]; exact ha
  | cons x L ih =>
    intro r hr ht hz a ha hna
    have hax : a ≠ x := fun e => hna (e ▸ List.mem_cons_self)
    have hz1 : cfg.zoneAware = true → zonesOf (r.filter (neq x)) = zonesOf r := by
      intro hza
      have := hz hza [x] (by intro y hy; simp at hy; subst hy; exact List.mem_cons_self)
      have e : r.filter (notIn [x]) = r.filter (neq x) := by
        rw [filter_notIn_cons]
        apply List.filter_eq_self.mpr; intro y _; simp [notIn]
      rw [e] at this; exact this
    have h1 := (shard_remove_one cfg r hr ht starts size now now hsize x hz1).2
    obtain ⟨Z, _, _, hiff⟩ := h1
    have ha' : a ∈ shard cfg (r.filter (neq x)) starts size 0 now := (hiff a).mpr (Or.inl ⟨ha, hax⟩)
    rw [filter_notIn_cons]
    apply ih (r.filter (neq x)) (hr.filter _) (ht.filter _) _ a ha' (fun h => hna (List.mem_cons_of_mem _ h))
    intro hza L' hL'
    have e1 := hz hza (x :: L') (by
      intro y hy
      rcases List.mem_cons.mp hy with rfl | hy
      · exact List.mem_cons_self
      · exact List.mem_cons_of_mem _ (hL' y hy))
    rw [filter_notIn_cons] at e1
    rw [e1, hz1 hza]

/-- **the look-back shard covers the window.** `rτ` is the ring at some moment of the window. Since
then the instances `L` left, the instances `J` registered (registration time inside the window) and
some read-only flags changed (`g` gives the flags as they were; a flag differs only if the present
`ReadOnlyUpdatedTimestamp` is inside the window). Every member of the plain shard at that moment that
is still registered is — in its present form — a member of the look-back shard now.
Guard: zone-awareness on ⇒ the set of zones did not change (finding F-C12-1). -/
theorem lookback_covers_window (cfg : Cfg) (d : CDesc) (hd : WF d) (ht : AllTok d) (starts : String → Nat → Nat)
    (size period now now' : Int) (hsize : 0 < size) (hperiod : 0 < period)
    (rτ : CDesc) (hrτ : WF rτ) (htτ : AllTok rτ) (L J : List CInst)
    (hJ : ∀ x ∈ J, x.regTs ≥ now - period)
    (g : CInst → CInst) (hg : ROOnly g) (hK : ∀ i, (g i).ro ≠ i.ro → i.roTs ≥ now - period)
    (hr : rτ.filter (notIn L) = (d.filter fun x => !J.contains x).map g)
    (hzL : cfg.zoneAware = true → ∀ L' : List CInst, (∀ y ∈ L', y ∈ L) → zonesOf (rτ.filter (notIn L')) = zonesOf rτ)
    (hzJ : cfg.zoneAware = true → zonesOf (d.filter fun x => !J.contains x) = zonesOf d) :
    ∀ m' ∈ shard cfg rτ starts size 0 now', m' ∉ L → ∃ m ∈ shard cfg d starts size period now, g m = m' := by
  intro m' hm hnl
  have h1 := shard_remove_many cfg starts size now' hsize L rτ hrτ htτ hzL m' hm hnl
  rw [hr] at h1
  exact lookback_superset_readonly cfg d hd ht starts size period now now' hsize hperiod J hJ g hg hK hzJ m' h1

end PfC12
