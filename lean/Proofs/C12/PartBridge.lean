import Proofs.C12.Part
import Proofs.C12.Count
/-!
# C12 — partition ring: `pwalk` / `ploop` are the abstract walk with
`incl = not PENDING ∧ (ACTIVE ∨ state changed inside the window)`, `ext = state changed inside the window`

The `exclude` set only memoises partitions that are not includable, and `size - len(result)` is the
number of iterations left (`size++` on every extension keeps it unchanged).
-/
namespace PfC12
open C12

def pwithin (lbOn : Bool) (til : Int) (p : Part) : Bool := lbOn && decide (p.stateTs ≥ til)
def pincl (lbOn : Bool) (til : Int) (p : Part) : Bool :=
  !(p.state == PState.pending) && (p.state == PState.active || pwithin lbOn til p)
def PW (ps : List Part) (starts : Nat → Nat) : Nat → List Part := fun i => walkOrder (partTokens ps) (starts i)
def PIdInj (D : List Part) : Prop := ∀ a ∈ D, ∀ b ∈ D, a.id = b.id → a = b

structure PRel (D : List Part) (lbOn : Bool) (til : Int) (st : PSt) (sel : List Part) (m : Nat) : Prop where
  res : st.result = sel.map (·.id)
  sub : ∀ p ∈ sel, p ∈ D
  exc : ∀ id ∈ st.exclude, ∀ p ∈ D, p.id = id → pincl lbOn til p = false
  size : st.size = sel.length + m

theorem contains_ids (D : List Part) (hD : PIdInj D) (sel : List Part) (hs : ∀ p ∈ sel, p ∈ D) (p : Part) (hp : p ∈ D) :
    (sel.map (·.id)).contains p.id = true ↔ p ∈ sel := by
  rw [List.contains_iff_mem, List.mem_map]
  constructor
  · rintro ⟨q, hq, e⟩
    rw [← hD q (hs q hq) p hp e]; exact hq
  · intro h; exact ⟨p, h, rfl⟩

theorem pwalk_awalk (D : List Part) (hD : PIdInj D) (lbOn : Bool) (til : Int) : ∀ (w : List Part), (∀ p ∈ w, p ∈ D) →
    ∀ (st : PSt) (sel : List Part) (m : Nat), PRel D lbOn til st sel (m + 1) →
    (pwalk lbOn til w st).2 = (awalk (pincl lbOn til) (pwithin lbOn til) w sel).2 ∧
    PRel D lbOn til (pwalk lbOn til w st).1 (awalk (pincl lbOn til) (pwithin lbOn til) w sel).1
      (if (awalk (pincl lbOn til) (pwithin lbOn til) w sel).2 then m else m + 1) := by
  intro w
  induction w with
  | nil => intro _ st sel m h; exact ⟨rfl, h⟩
  | cons p rest ih =>
    intro hw st sel m h
    have hp : p ∈ D := hw p List.mem_cons_self
    have hrest : ∀ q ∈ rest, q ∈ D := fun q hq => hw q (List.mem_cons_of_mem _ hq)
    unfold pwalk awalk
    by_cases h1 : p ∈ sel
    · have : st.result.contains p.id = true := by rw [h.res]; exact (contains_ids D hD sel h.sub p hp).mpr h1
      rw [if_pos this, if_pos h1]
      exact ih hrest st sel m h
    · have hnr : ¬ st.result.contains p.id = true := by
        rw [h.res]; exact fun hc => h1 ((contains_ids D hD sel h.sub p hp).mp hc)
      rw [if_neg hnr, if_neg h1]
      by_cases h2 : st.exclude.contains p.id = true
      · rw [if_pos h2]
        have hi : pincl lbOn til p = false := h.exc p.id (by simpa using h2) p hp rfl
        have : (!pincl lbOn til p) = true := by simp [hi]
        rw [if_pos this]
        exact ih hrest st sel m h
      · rw [if_neg h2]
        by_cases h3 : (p.state == PState.pending) = true
        · rw [if_pos h3]
          have hi : pincl lbOn til p = false := by simp [pincl, h3]
          have : (!pincl lbOn til p) = true := by simp [hi]
          rw [if_pos this]
          apply ih hrest _ sel m
          exact ⟨h.res, h.sub, fun id hid q hq e => by
            rcases List.mem_cons.mp hid with rfl | hid
            · rw [hD q hq p hp e]; exact hi
            · exact h.exc id hid q hq e, h.size⟩
        · rw [if_neg h3]
          have hnp : (p.state == PState.pending) = false := by simpa using h3
          cases hwv : (lbOn && decide (p.stateTs ≥ til)) with
          | true =>
            have hx : pwithin lbOn til p = true := hwv
            have hi : pincl lbOn til p = true := by simp [pincl, hnp, hx]
            simp only [hwv, Bool.or_true, if_true, Bool.not_true, Bool.and_false, Bool.false_eq_true, if_false,
              hi, hx]
            apply ih hrest _ (p :: sel) m
            exact ⟨by simp [h.res], fun q hq => by
              rcases List.mem_cons.mp hq with rfl | hq
              · exact hp
              · exact h.sub q hq, h.exc, by simp [h.size]; omega⟩
          | false =>
            have hx : pwithin lbOn til p = false := hwv
            cases hav : (p.state == PState.active) with
            | true =>
              have hi : pincl lbOn til p = true := by simp [pincl, hnp, hav]
              simp only [hwv, hav, Bool.or_false, if_true, Bool.not_false, Bool.and_true, Bool.false_eq_true,
                if_false, hi, hx, Bool.not_true]
              exact ⟨trivial, by simp [h.res], fun q hq => by
                rcases List.mem_cons.mp hq with rfl | hq
                · exact hp
                · exact h.sub q hq, h.exc, by simp [h.size]; omega⟩
            | false =>
              have hi : pincl lbOn til p = false := by simp [pincl, hav, hx]
              simp only [hwv, hav, Bool.or_false, Bool.false_eq_true, if_false, Bool.false_and, hi, Bool.not_false,
                if_true]
              apply ih hrest _ sel m
              exact ⟨h.res, h.sub, fun id hid q hq e => by
                rcases List.mem_cons.mp hid with rfl | hid
                · rw [hD q hq p hp e]; exact hi
                · exact h.exc id hid q hq e, h.size⟩

theorem ploop_apicks (D : List Part) (hD : PIdInj D) (lbOn : Bool) (til : Int) (toks : List (Nat × Part))
    (ht : ∀ p ∈ toks.map (·.2), p ∈ D) (starts : Nat → Nat) : ∀ (fuel i : Nat) (st : PSt) (sel : List Part) (m : Nat),
    PRel D lbOn til st sel m → m ≤ fuel →
    (ploop lbOn til toks starts fuel i st).result =
      (apicks (pincl lbOn til) (pwithin lbOn til) (fun i => walkOrder toks (starts i)) m i sel).map (·.id) := by
  intro fuel
  induction fuel with
  | zero =>
    intro i st sel m h hm
    have : m = 0 := by omega
    subst this
    simpa [ploop, apicks] using h.res
  | succ fuel ih =>
    intro i st sel m h hm
    unfold ploop
    cases m with
    | zero =>
      have : ¬ st.result.length < st.size := by rw [h.res, h.size]; simp
      rw [if_neg this]
      simpa [apicks] using h.res
    | succ m =>
      have : st.result.length < st.size := by rw [h.res, h.size]; simp
      rw [if_pos this]
      simp only
      have hw : ∀ p ∈ walkOrder toks (starts i), p ∈ D := fun p hp => ht p ((mem_walkOrder _ _ _).mp hp)
      have hstep := pwalk_awalk D hD lbOn til _ hw st sel m h
      unfold apicks
      simp only
      rw [hstep.1]
      split
      · rename_i hf
        have hrel := hstep.2
        rw [if_pos hf] at hrel
        exact ih _ _ _ _ hrel (by omega)
      · exact hstep.2.res

/-- effective size: `size ≤ 0` or `size ≥ number of partitions` means "all partitions". -/
def psize (ps : List Part) (size : Int) : Nat := if size ≤ 0 || size ≥ ps.length then ps.length else size.toNat

def ptil (period now : Int) : Int := if period > 0 then now - period else 0

/-- the selection of the partition shuffle shard as an abstract walk. -/
def psel (ps : List Part) (starts : Nat → Nat) (size period now : Int) : List Part :=
  apicks (pincl (decide (period > 0)) (ptil period now)) (pwithin (decide (period > 0)) (ptil period now))
    (PW ps starts) (psize ps size) 0 []

theorem psel_sub (ps : List Part) (starts : Nat → Nat) (size period now : Int) : ∀ p ∈ psel ps starts size period now, p ∈ ps := by
  intro p hp
  rcases apicks_mem _ _ _ _ _ _ p hp with h | ⟨⟨j, hj⟩, _⟩
  · cases h
  · exact mem_partTokens ps p ((mem_walkOrder _ _ _).mp hj)

/-- **bridge**: the ids returned by `pshard` are the ids of the abstract selection. -/
theorem mem_pshard (ps : List Part) (hid : PIdInj ps) (starts : Nat → Nat) (size period now : Int) (id : Int) :
    id ∈ pshard ps starts size period now ↔ ∃ p ∈ psel ps starts size period now, p.id = id := by
  unfold pshard
  simp only
  have hloop := ploop_apicks ps hid (decide (period > 0)) (ptil period now) (partTokens ps) (mem_partTokens ps) starts
    (ps.length + 1) 0 ⟨[], [], psize ps size⟩ [] (psize ps size) ⟨rfl, by simp, by simp, by simp⟩ (by
      unfold psize; split
      · omega
      · rename_i h; simp only [Bool.or_eq_true, decide_eq_true_eq, not_or] at h; omega)
  have hres : (ploop (decide (period > 0)) (if period > 0 then now - period else 0) (partTokens ps) starts (ps.length + 1) 0
      ⟨[], [], if (decide (size ≤ 0) || decide (size ≥ (ps.length : Int))) = true then ps.length else size.toNat⟩).result =
      (psel ps starts size period now).map (·.id) := hloop
  rw [hres]
  simp only [List.mem_map, List.mem_filter, List.contains_iff_mem]
  constructor
  · rintro ⟨q, ⟨hq, p, hp, e⟩, rfl⟩
    exact ⟨p, hp, e⟩
  · rintro ⟨p, hp, rfl⟩
    exact ⟨p, ⟨psel_sub ps starts size period now p hp, p, hp, rfl⟩, rfl⟩

end PfC12
