import Proofs.C12.Window
import Proofs.C12.PartHistory
import Proofs.C12.WindowConst
/-!
# C12 — the look-back theorems with every hypothesis restricted to the members of the ring

`g` (the earlier form of an instance / partition) and `keep` only matter on the members of the
present ring; the versions in `SuperRO`, `Window`, `PartSuper`, `PartHistory` quantify their hypotheses
over all values, which an honest `g` (defined by cases on the id) does not satisfy. Here `g` is
restricted to the members first (`gOn`), which turns member-only hypotheses into global ones.
-/
namespace PfC12
open C12

/-- `g` changes only `ro` / `roTs` on the members of `d`. -/
structure ROOnlyOn (d : CDesc) (g : CInst → CInst) : Prop where
  id : ∀ i ∈ d, (g i).id = i.id
  zone : ∀ i ∈ d, (g i).zone = i.zone
  tokens : ∀ i ∈ d, (g i).tokens = i.tokens
  regTs : ∀ i ∈ d, (g i).regTs = i.regTs

def gOn (d : CDesc) (g : CInst → CInst) : CInst → CInst := fun i => if i ∈ d then g i else i

theorem gOn_roOnly (d : CDesc) (g : CInst → CInst) (hg : ROOnlyOn d g) : ROOnly (gOn d g) := by
  refine ⟨?_, ?_, ?_, ?_⟩ <;> intro i <;> unfold gOn <;> split
  · exact hg.id i ‹_›
  · rfl
  · exact hg.zone i ‹_›
  · rfl
  · exact hg.tokens i ‹_›
  · rfl
  · exact hg.regTs i ‹_›
  · rfl

theorem map_gOn (d : CDesc) (g : CInst → CInst) (l : CDesc) (hl : ∀ i ∈ l, i ∈ d) : l.map (gOn d g) = l.map g := by
  apply List.map_congr_left
  intro i hi
  unfold gOn; rw [if_pos (hl i hi)]

/-- `lookback_superset_readonly` with member-only hypotheses. -/
theorem lookback_superset_readonly_on (cfg : Cfg) (d : CDesc) (hd : WF d) (ht : AllTok d) (starts : String → Nat → Nat)
    (size period now now' : Int) (hsize : 0 < size) (hperiod : 0 < period)
    (J : List CInst) (hJ : ∀ x ∈ J, x.regTs ≥ now - period)
    (g : CInst → CInst) (hg : ROOnlyOn d g) (hK : ∀ i ∈ d, (g i).ro ≠ i.ro → i.roTs ≥ now - period)
    (hz : cfg.zoneAware = true → zonesOf (d.filter fun x => !J.contains x) = zonesOf d) :
    ∀ m' ∈ shard cfg ((d.filter fun x => !J.contains x).map g) starts size 0 now',
      ∃ m ∈ shard cfg d starts size period now, g m = m' := by
  intro m' hm
  have hmap : (d.filter fun x => !J.contains x).map (gOn d g) = (d.filter fun x => !J.contains x).map g :=
    map_gOn d g _ (fun i hi => (List.mem_filter.mp hi).1)
  rw [← hmap] at hm
  obtain ⟨m, hm1, hm2⟩ := lookback_superset_readonly cfg d hd ht starts size period now now' hsize hperiod J hJ
    (gOn d g) (gOn_roOnly d g hg) (fun i hne => by
      unfold gOn at hne
      by_cases hi : i ∈ d
      · rw [if_pos hi] at hne; exact hK i hi hne
      · rw [if_neg hi] at hne; exact absurd rfl hne) hz m' hm
  refine ⟨m, hm1, ?_⟩
  have hmd : m ∈ d := shard_sub_d cfg d hd.idInj starts size period now m hm1
  unfold gOn at hm2; rw [if_pos hmd] at hm2; exact hm2

/-- `lookback_covers_window` with member-only hypotheses. -/
theorem lookback_covers_window_on (cfg : Cfg) (d : CDesc) (hd : WF d) (ht : AllTok d) (starts : String → Nat → Nat)
    (size period now now' : Int) (hsize : 0 < size) (hperiod : 0 < period)
    (rτ : CDesc) (hrτ : WF rτ) (htτ : AllTok rτ) (L J : List CInst)
    (hJ : ∀ x ∈ J, x.regTs ≥ now - period)
    (g : CInst → CInst) (hg : ROOnlyOn d g) (hK : ∀ i ∈ d, (g i).ro ≠ i.ro → i.roTs ≥ now - period)
    (hr : rτ.filter (notIn L) = (d.filter fun x => !J.contains x).map g)
    (hzL : cfg.zoneAware = true → ∀ L' : List CInst, (∀ y ∈ L', y ∈ L) → zonesOf (rτ.filter (notIn L')) = zonesOf rτ)
    (hzJ : cfg.zoneAware = true → zonesOf (d.filter fun x => !J.contains x) = zonesOf d) :
    ∀ m' ∈ shard cfg rτ starts size 0 now', m' ∉ L → ∃ m ∈ shard cfg d starts size period now, g m = m' := by
  intro m' hm hnl
  have h1 := shard_remove_many cfg starts size now' hsize L rτ hrτ htτ hzL m' hm hnl
  rw [hr] at h1
  exact lookback_superset_readonly_on cfg d hd ht starts size period now now' hsize hperiod J hJ g hg hK hzJ m' h1

/-- look-back with `size ≤ 0` ("no sharding"): the earlier unsharded result is covered as well. -/
theorem lookback_superset_unsharded (cfg : Cfg) (d : CDesc) (starts : String → Nat → Nat)
    (size period now now' : Int) (hsize : size ≤ 0) (hperiod : 0 < period)
    (keep : CInst → Bool) (g : CInst → CInst) (hK : ∀ i ∈ d, (g i).ro ≠ i.ro → i.roTs ≥ now - period) :
    ∀ m' ∈ shard cfg ((d.filter keep).map g) starts size 0 now',
      ∃ m ∈ shard cfg d starts size period now, g m = m' := by
  intro m' hm
  have hmem : m' ∈ (d.filter keep).map g ∧ m'.ro = false := by
    unfold shard at hm; rw [if_pos hsize] at hm; exact (mem_filterOutRO_plain _ now' m').mp hm
  obtain ⟨m, hmk, rfl⟩ := List.mem_map.mp hmem.1
  have hmd : m ∈ d := (List.mem_filter.mp hmk).1
  refine ⟨m, ?_, rfl⟩
  unfold shard
  rw [if_pos hsize]
  unfold filterOutRO
  simp only
  split
  · exact hmd
  · split
    · exact hmd
    · refine List.mem_filter.mpr ⟨hmd, ?_⟩
      have hon : (mkLB period now).on = true := by simp [mkLB, hperiod]
      unfold includeRO
      cases hro : m.ro with
      | false => simp
      | true =>
        have := hK m hmd (by rw [hmem.2, hro]; simp)
        have hd0 : decide (period > 0) = true := by simp [hperiod]
        have hnot : (decide (m.roTs > 0) && decide (m.roTs < now - period)) = false := by
          simp only [Bool.and_eq_false_iff, decide_eq_false_iff_not, Int.not_lt]; right; exact this
        simp [mkLB, hd0, hnot]

/-! ### partitions -/

structure StateOnlyOn (ps : List Part) (g : Part → Part) : Prop where
  id : ∀ p ∈ ps, (g p).id = p.id
  tokens : ∀ p ∈ ps, (g p).tokens = p.tokens

def gOnP (ps : List Part) (g : Part → Part) : Part → Part := fun p => if p ∈ ps then g p else p

theorem gOnP_stateOnly (ps : List Part) (g : Part → Part) (hg : StateOnlyOn ps g) : StateOnly (gOnP ps g) := by
  refine ⟨?_, ?_⟩ <;> intro i <;> unfold gOnP <;> split
  · exact hg.id i ‹_›
  · rfl
  · exact hg.tokens i ‹_›
  · rfl

def keepOn (ps : List Part) (keep : Part → Bool) : Part → Bool := fun p => keep p || !ps.contains p

theorem filter_keepOn (ps : List Part) (keep : Part → Bool) : ps.filter (keepOn ps keep) = ps.filter keep := by
  apply List.filter_congr
  intro p hp
  simp [keepOn, hp]

theorem pshard_lookback_superset_on (ps : List Part) (h : PWF ps) (ht : PAllTok ps) (htn : PTokNodup ps)
    (starts : Nat → Nat) (size period now now' : Int) (hperiod : 0 < period)
    (keep : Part → Bool) (hJ : ∀ x ∈ ps, keep x = false → x.stateTs ≥ now - period)
    (g : Part → Part) (hg : StateOnlyOn ps g) (hK : ∀ x ∈ ps, (g x).state ≠ x.state → x.stateTs ≥ now - period)
    (hP : ∀ x ∈ ps, (g x).state = PState.active → x.state ≠ PState.pending) :
    ∀ id ∈ pshard ((ps.filter keep).map g) starts size 0 now', id ∈ pshard ps starts size period now := by
  have hmap : (ps.filter (keepOn ps keep)).map (gOnP ps g) = (ps.filter keep).map g := by
    rw [filter_keepOn]
    apply List.map_congr_left
    intro p hp
    unfold gOnP; rw [if_pos (List.mem_filter.mp hp).1]
  rw [← hmap]
  apply pshard_lookback_superset ps h ht htn starts size period now now' hperiod (keepOn ps keep) _ (gOnP ps g)
    (gOnP_stateOnly ps g hg)
  · intro x hne
    unfold gOnP at hne
    by_cases hx : x ∈ ps
    · rw [if_pos hx] at hne; exact hK x hx hne
    · rw [if_neg hx] at hne; exact absurd rfl hne
  · intro x hact
    unfold gOnP at hact
    by_cases hx : x ∈ ps
    · rw [if_pos hx] at hact; exact hP x hx hact
    · rw [if_neg hx] at hact; rw [hact]; decide
  · intro x hk
    simp only [keepOn, Bool.or_eq_false_iff, Bool.not_eq_false', List.contains_iff_mem] at hk
    exact hJ x hk.2 hk.1

theorem pshard_lookback_covers_window_on (ps : List Part) (h : PWF ps) (ht : PAllTok ps) (htn : PTokNodup ps)
    (starts : Nat → Nat) (size period now now' : Int) (hperiod : 0 < period)
    (rτ : List Part) (hrτ : PWF rτ) (htτ : PAllTok rτ) (htnτ : PTokNodup rτ) (L : List Part)
    (keep : Part → Bool) (hJ : ∀ x ∈ ps, keep x = false → x.stateTs ≥ now - period)
    (g : Part → Part) (hg : StateOnlyOn ps g) (hK : ∀ x ∈ ps, (g x).state ≠ x.state → x.stateTs ≥ now - period)
    (hP : ∀ x ∈ ps, (g x).state = PState.active → x.state ≠ PState.pending)
    (hr : rτ.filter (notInP L) = (ps.filter keep).map g) :
    ∀ id ∈ pshard rτ starts size 0 now', (∀ x ∈ L, x.id ≠ id) → id ∈ pshard ps starts size period now := by
  intro id hid hne
  have h1 := pshard_remove_many starts size now' L rτ hrτ htτ htnτ id hid hne
  rw [hr] at h1
  exact pshard_lookback_superset_on ps h ht htn starts size period now now' hperiod keep hJ g hg hK hP id h1

/-- all instances in one zone: the zone list is that zone. -/
theorem zonesOf_const (z : String) : ∀ (d : CDesc), d ≠ [] → (∀ i ∈ d, i.zone = z) → zonesOf d = [z] := by
  intro d
  induction d with
  | nil => intro h; exact absurd rfl h
  | cons a d ih =>
    intro _ hz
    have ha : a.zone = z := hz a List.mem_cons_self
    unfold zonesOf
    rw [List.foldr_cons, ha]
    cases d with
    | nil => rfl
    | cons b d =>
      have := ih (by simp) (fun i hi => hz i (List.mem_cons_of_mem _ hi))
      unfold zonesOf at this
      rw [this]
      simp [insertZone]

end PfC12
