import Proofs.C03Laws
/-! Proofs for C03, part 3: the state-level CRDT laws, sufficiency of the reported change,
convergence under permutation and duplication. -/
namespace PfC03
open Ring C03

variable {U : String → Int → Bool → Inst}

theorem merge_idem_view (hU : Univ U) {a : Desc} (ha : Drawn U a) (k : String) :
    get? (mergeState a a) k = get? a k := by
  rw [view_merge hU ha ha, maxOpt_idem]

theorem merge_comm_view (hU : Univ U) {a b : Desc} (ha : Drawn U a) (hb : Drawn U b) (k : String) :
    get? (mergeState a b) k = get? (mergeState b a) k := by
  rw [view_merge hU ha hb, view_merge hU hb ha]
  exact maxOpt_comm_of (coherent_opt ha hb k)

theorem merge_assoc_view (hU : Univ U) {a b c : Desc} (ha : Drawn U a) (hb : Drawn U b) (hc : Drawn U c)
    (k : String) : get? (mergeState (mergeState a b) c) k = get? (mergeState a (mergeState b c)) k := by
  rw [view_merge hU (mergeState_drawn hU ha hb) hc, view_merge hU ha hb,
      view_merge hU ha (mergeState_drawn hU hb hc), view_merge hU hb hc, maxOpt_assoc]

/-! ## the reported change -/

/-- closed form of the `updated` list of the loop (ids of `os` unique) -/
theorem foldl_updated (os : Desc) (acc : Acc) (hn : (ids os).Nodup) :
    (os.foldl stepEntry acc).updated =
      acc.updated ++ (os.filter fun o => accept (get? acc.this o.id) o).map (·.id) := by
  induction os generalizing acc with
  | nil => simp
  | cons o os ih =>
    simp only [ids, List.map_cons, List.nodup_cons] at hn
    rw [List.foldl_cons, ih _ hn.2, stepEntry_updated]
    have hcongr : (os.filter fun o' => accept (get? (stepEntry acc o).this o'.id) o') =
        (os.filter fun o' => accept (get? acc.this o'.id) o') := by
      apply List.filter_congr
      intro o' ho'
      have hne : o'.id ≠ o.id := by
        intro e; apply hn.1; rw [← e]; exact List.mem_map.2 ⟨o', ho', rfl⟩
      rw [get?_stepEntry, if_neg hne]
    rw [hcongr, List.filter_cons]
    by_cases ha : accept (get? acc.this o.id) o = true
    · rw [if_pos ha, if_pos ha]; simp
    · rw [if_neg ha, if_neg ha]

theorem loop_updated {a b : Desc} (hb : (ids b).Nodup) :
    (loop a b).updated = (b.filter fun o => accept (get? a o.id) o).map (·.id) := by
  unfold loop; rw [foldl_updated b _ hb]; simp

theorem loop_updated_nodup {a b : Desc} (hb : (ids b).Nodup) : (loop a b).updated.Nodup := by
  rw [loop_updated hb]
  exact List.Nodup.sublist (List.Sublist.map _ (List.filter_sublist)) hb

theorem mem_loop_updated {a b : Desc} (hb : (ids b).Nodup) (k : String) :
    k ∈ (loop a b).updated ↔ ∃ o, get? b k = some o ∧ accept (get? a k) o = true := by
  rw [loop_updated hb]
  simp only [List.mem_map, List.mem_filter]
  constructor
  · rintro ⟨o, ⟨hob, hacc⟩, rfl⟩
    exact ⟨o, get?_of_mem_nodup hb hob, hacc⟩
  · rintro ⟨o, hg, hacc⟩
    have hid := get?_id hg
    exact ⟨o, ⟨get?_mem hg, by rw [hid]; exact hacc⟩, hid⟩

theorem get?_filterMap (st : Desc) (names : List String) (k : String) :
    get? (names.filterMap (get? st)) k = if k ∈ names then get? st k else none := by
  induction names with
  | nil => simp [get?]
  | cons n ns ih =>
    rw [List.filterMap_cons]
    cases hg : get? st n with
    | none =>
      simp only
      rw [ih]
      by_cases hk : k = n
      · subst hk; simp [hg]
      · simp [hk]
    | some x =>
      simp only
      rw [get?_cons, ih]
      have hx := get?_id hg
      by_cases hk : k = n
      · subst hk; simp [hx, hg]
      · have : ¬ x.id = k := by rw [hx]; exact fun e => hk e.symm
        simp [hk, this]

theorem ids_filterMap_sub (st : Desc) (names : List String) : (ids (names.filterMap (get? st))).Sublist names := by
  induction names with
  | nil => simp [ids]
  | cons n ns ih =>
    rw [List.filterMap_cons]
    cases hg : get? st n with
    | none => simp only; exact List.Sublist.cons _ ih
    | some x =>
      simp only [ids, List.map_cons]
      rw [get?_id hg]
      exact List.Sublist.cons_cons _ ih

/-- what `merge` returns for descriptors of the universe -/
theorem merge_change {U} (hU : Univ U) {a b : Desc} (ha : Drawn U a) (hb : Drawn U b) :
    (merge false 0 a b).change =
      if (loop a b).updated.isEmpty then none
      else some ((loop a b).updated.filterMap (get? (loop a b).this)) := by
  unfold merge finish
  rw [mergeAcc_eq_loop hU a hb]
  by_cases hu : (loop a b).updated.isEmpty = true
  · rw [if_pos hu, if_pos hu]
  · rw [if_neg hu, if_neg hu]
    simp only [drawn_no_conflicts hU (loop_drawn ha hb), Bool.false_eq_true, and_false, if_false]

theorem change_drawn (hU : Univ U) {a b ch : Desc} (ha : Drawn U a) (hb : Drawn U b)
    (hch : (merge false 0 a b).change = some ch) : Drawn U ch := by
  rw [merge_change hU ha hb] at hch
  split at hch
  · simp at hch
  · injection hch with hch
    subst hch
    have hl := loop_drawn ha hb
    refine ⟨List.Nodup.sublist (ids_filterMap_sub _ _) (loop_updated_nodup hb.nodup), ?_, ?_⟩
    · intro e he
      simp only [List.mem_filterMap] at he
      obtain ⟨n, _, hn⟩ := he
      exact hl.pos e (get?_mem hn)
    · intro e he
      simp only [List.mem_filterMap] at he
      obtain ⟨n, _, hn⟩ := he
      exact hl.coh e (get?_mem hn)

/-- the change holds, for every accepted key, exactly the accepted incoming entry -/
theorem change_view (hU : Univ U) {a b ch : Desc} (ha : Drawn U a) (hb : Drawn U b)
    (hch : (merge false 0 a b).change = some ch) (k : String) :
    get? ch k = if rkO (get? a k) < rkO (get? b k) then get? b k else none := by
  rw [merge_change hU ha hb] at hch
  split at hch
  · simp at hch
  · injection hch with hch
    subst hch
    rw [get?_filterMap]
    have hview : get? (loop a b).this k = maxOpt (get? a k) (get? b k) := by
      rw [← mergeState_eq_loop hU ha hb]; exact view_merge hU ha hb k
    by_cases hm : k ∈ (loop a b).updated
    · rw [if_pos hm, hview]
      obtain ⟨o, hg, hacc⟩ := (mem_loop_updated hb.nodup k).1 hm
      rw [accept_iff _ o (hb.pos o (get?_mem hg)) (drawn_get?_pos ha k)] at hacc
      have hlt : rkO (get? a k) < rkO (get? b k) := by rw [hg, rkO_some]; simpa using hacc
      rw [if_pos hlt]; unfold maxOpt; rw [if_pos hlt]
    · rw [if_neg hm]
      have hnlt : ¬ rkO (get? a k) < rkO (get? b k) := by
        intro hlt
        apply hm
        cases hg : get? b k with
        | none =>
          rw [hg, rkO_none] at hlt
          have : rkO (get? a k) ≥ 0 := by
            cases hx : get? a k with
            | none => simp [rkO]
            | some x => have := rk_pos (ha.pos x (get?_mem hx)); rw [rkO_some]; omega
          omega
        | some o =>
          refine (mem_loop_updated hb.nodup k).2 ⟨o, hg, ?_⟩
          rw [accept_iff _ o (hb.pos o (get?_mem hg)) (drawn_get?_pos ha k)]
          rw [hg, rkO_some] at hlt
          simpa using hlt
      rw [if_neg hnlt]

theorem rkO_nonneg {d : Desc} (hd : Drawn U d) (k : String) : rkO (get? d k) ≥ 0 := by
  cases hx : get? d k with
  | none => simp [rkO]
  | some x => have := rk_pos (hd.pos x (get?_mem hx)); rw [rkO_some]; omega

/-- **sufficiency of the change**, into any replica `s` that already contains the pre-merge state `a`
(in particular `s = a`): merging the reported change gives the same content as merging `b`. -/
theorem change_sufficient_view (hU : Univ U) {a b ch s : Desc} (ha : Drawn U a) (hb : Drawn U b) (hs : Drawn U s)
    (hcontains : ∀ k, rkO (get? a k) ≤ rkO (get? s k))
    (hch : (merge false 0 a b).change = some ch) (k : String) :
    get? (mergeState s ch) k = get? (mergeState s b) k := by
  have hcd := change_drawn hU ha hb hch
  rw [view_merge hU hs hcd, view_merge hU hs hb, change_view hU ha hb hch]
  by_cases hlt : rkO (get? a k) < rkO (get? b k)
  · rw [if_pos hlt]
  · rw [if_neg hlt]
    unfold maxOpt
    have h1 : ¬ rkO (get? s k) < rkO (none : Option Inst) := by
      rw [rkO_none]; have := rkO_nonneg hs k; omega
    have h2 : ¬ rkO (get? s k) < rkO (get? b k) := by have := hcontains k; omega
    rw [if_neg h1, if_neg h2]

/-- a merge that reports no change leaves the state untouched (literally) -/
theorem no_change_no_effect (cas : Bool) (now : Int) (a b : Desc)
    (h : (merge cas now a b).change = none) : (merge cas now a b).state = a := by
  unfold merge finish at h ⊢
  by_cases hu : (mergeAcc cas now a b).updated.isEmpty = true
  · rw [if_pos hu]
  · rw [if_neg hu] at h; simp at h

/-- ... and for descriptors of the universe, a nil change is reported exactly when nothing is newer -/
theorem no_change_iff (hU : Univ U) {a b : Desc} (ha : Drawn U a) (hb : Drawn U b) :
    (merge false 0 a b).change = none ↔ ∀ k, ¬ rkO (get? a k) < rkO (get? b k) := by
  rw [merge_change hU ha hb]
  constructor
  · intro h k hlt
    split at h
    · rename_i hu
      have hnil : (loop a b).updated = [] := by simpa using hu
      cases hg : get? b k with
      | none => rw [hg, rkO_none] at hlt; have := rkO_nonneg ha k; omega
      | some o =>
        have : k ∈ (loop a b).updated := by
          refine (mem_loop_updated hb.nodup k).2 ⟨o, hg, ?_⟩
          rw [accept_iff _ o (hb.pos o (get?_mem hg)) (drawn_get?_pos ha k)]
          rw [hg, rkO_some] at hlt; simpa using hlt
        rw [hnil] at this; simp at this
    · simp at h
  · intro h
    split
    · rfl
    · rename_i hu
      exfalso
      have : (loop a b).updated ≠ [] := by simpa using hu
      obtain ⟨k, hk⟩ := List.exists_mem_of_ne_nil _ this
      obtain ⟨o, hg, hacc⟩ := (mem_loop_updated hb.nodup k).1 hk
      rw [accept_iff _ o (hb.pos o (get?_mem hg)) (drawn_get?_pos ha k)] at hacc
      apply h k; rw [hg, rkO_some]; simpa using hacc

/-! ## convergence: any order, any repetition -/

theorem foldl_drawn (hU : Univ U) {s : Desc} (l : List Desc) (hs : Drawn U s) (hl : ∀ d ∈ l, Drawn U d) :
    Drawn U (l.foldl mergeState s) := by
  induction l generalizing s with
  | nil => exact hs
  | cons d ds ih =>
    rw [List.foldl_cons]
    exact ih (mergeState_drawn hU hs (hl d (by simp))) (fun x hx => hl x (by simp [hx]))

theorem foldl_view (hU : Univ U) {s : Desc} (l : List Desc) (hs : Drawn U s) (hl : ∀ d ∈ l, Drawn U d) (k : String) :
    get? (l.foldl mergeState s) k = l.foldl (fun v d => maxOpt v (get? d k)) (get? s k) := by
  induction l generalizing s with
  | nil => rfl
  | cons d ds ih =>
    rw [List.foldl_cons, List.foldl_cons,
        ih (mergeState_drawn hU hs (hl d (by simp))) (fun x hx => hl x (by simp [hx])),
        view_merge hU hs (hl d (by simp))]

/-- replicas that received the same set of updates in any order expose identical content -/
theorem converge_perm (hU : Univ U) {s : Desc} {l l' : List Desc} (hp : l.Perm l') (hs : Drawn U s)
    (hl : ∀ d ∈ l, Drawn U d) (k : String) :
    get? (l.foldl mergeState s) k = get? (l'.foldl mergeState s) k := by
  have hl' : ∀ d ∈ l', Drawn U d := fun d hd => hl d (hp.mem_iff.2 hd)
  rw [foldl_view hU l hs hl, foldl_view hU l' hs hl']
  apply List.Perm.foldl_eq' hp
  intro x hx y hy z
  rw [maxOpt_assoc, maxOpt_assoc, maxOpt_comm_of (coherent_opt (hl x hx) (hl y hy) k)]

theorem rkO_foldl_ge (l : List Desc) (v : Option Inst) (k : String) :
    rkO v ≤ rkO (l.foldl (fun v d => maxOpt v (get? d k)) v) := by
  induction l generalizing v with
  | nil => exact Int.le_refl _
  | cons d ds ih =>
    rw [List.foldl_cons]
    have := ih (maxOpt v (get? d k))
    rw [rkO_maxOpt] at this
    omega

theorem rkO_foldl_ge_mem (l : List Desc) (v : Option Inst) (k : String) (d : Desc) (hd : d ∈ l) :
    rkO (get? d k) ≤ rkO (l.foldl (fun v d => maxOpt v (get? d k)) v) := by
  induction l generalizing v with
  | nil => simp at hd
  | cons x xs ih =>
    rw [List.foldl_cons]
    rcases List.mem_cons.1 hd with rfl | hd
    · have := rkO_foldl_ge xs (maxOpt v (get? d k)) k
      rw [rkO_maxOpt] at this
      omega
    · exact ih _ hd

theorem maxOpt_of_ge {t o : Option Inst} (h : rkO o ≤ rkO t) : maxOpt t o = t := by
  unfold maxOpt; rw [if_neg (by omega)]

/-- delivering again an update that was already merged (any multiplicity) changes nothing -/
theorem converge_dup (hU : Univ U) {s d : Desc} {l : List Desc} (hs : Drawn U s)
    (hl : ∀ d ∈ l, Drawn U d) (hd : d ∈ l) (k : String) :
    get? (mergeState (l.foldl mergeState s) d) k = get? (l.foldl mergeState s) k := by
  rw [view_merge hU (foldl_drawn hU l hs hl) (hl d hd), foldl_view hU l hs hl]
  exact maxOpt_of_ge (rkO_foldl_ge_mem l (get? s k) k d hd)

end PfC03
