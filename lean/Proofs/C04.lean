import Proofs.C06.Queue
/-! # C04 — tombstones block resurrection and are never shown: lemmas -/
namespace PfC04
open Ring C03 C06 PfC03 PfC06

variable {U : String → Int → Bool → Inst}

/-! ## value level -/

theorem tombstone_blocks (hU : Univ U) {s m : Desc} (hs : Drawn U s) (hm : Drawn U m) (x : String) (e : Inst)
    (he : get? s x = some e) (hleft : e.state = .LEFT) (hold : ∀ e', get? m x = some e' → e'.ts ≤ e.ts) :
    get? (mergeState s m) x = get? s x := by
  rw [view_merge hU hs hm]
  unfold maxOpt
  have : ¬ rkO (get? s x) < rkO (get? m x) := by
    rw [he, rkO_some]
    cases hg : get? m x with
    | none => rw [rkO_none]; have := rk_pos (hs.pos e (get?_mem he)); omega
    | some e' =>
      have := hold e' hg
      rw [rkO_some]; unfold rk; rw [if_pos hleft]; split <;> omega
  rw [if_neg this]

/-- entries of `s` that the CAS result `out` lacks and that have not left are in the loop result unchanged -/
theorem loop_keeps (hU : Univ U) {s out : Desc} (hs : Drawn U s) (ho : Drawn U out) (t : Inst)
    (ht : get? s t.id = some t) (hmiss : get? out t.id = none) : t ∈ (loop s out).this := by
  have := loop_view hU hs ho t.id
  rw [ht, hmiss] at this
  unfold maxOpt at this
  rw [rkO_none, rkO_some, if_neg (by have := rk_pos (hs.pos t (get?_mem ht)); omega)] at this
  exact get?_mem this

/-- **the removal stamp**: a local update whose result lacks a live entry turns it into a tombstone
with timestamp `now` and no tokens, and reports it in the change (so it is forwarded) -/
theorem removal_stamp (hU : Univ U) (hT : TombClosed U) {now : Int} (hnow : now ≥ 1) {s out : Desc} (hs : Drawn U s)
    (ho : Drawn U out) (t : Inst) (ht : get? s t.id = some t) (hlive : t.state ≠ .LEFT) (hmiss : get? out t.id = none) :
    get? (C03.merge true now s out).state t.id = some (tomb t now) ∧
    ∃ ch, (C03.merge true now s out).change = some ch ∧ get? ch t.id = some (tomb t now) := by
  have hmem := loop_keeps hU hs ho t ht hmiss
  have hcond : casCond out t := ⟨by rw [hmiss]; rfl, hlive⟩
  have hl := loop_drawn hs ho
  have hst : get? (casAcc now s out).this t.id = some (tomb t now) :=
    casFold_get?_tomb out now _ hl.nodup _ t hmem hcond
  have hupd : t.id ∈ (casAcc now s out).updated :=
    (casFold_updated_mem out now _ _ t.id).2 (Or.inr ⟨t, hmem, rfl, hcond⟩)
  refine ⟨by rw [merge_true_state hU hT hnow hs ho]; exact hst, ?_⟩
  rw [merge_true_change hU hT hnow hs ho]
  have hne : ¬ (casAcc now s out).updated.isEmpty = true := by
    intro h
    have : (casAcc now s out).updated = [] := by simpa using h
    rw [this] at hupd; simp at hupd
  rw [if_neg hne]
  exact ⟨_, rfl, by rw [get?_filterMap, if_pos hupd]; exact hst⟩

/-! ## readers -/

theorem strip_mem (d : Desc) (e : Inst) : e ∈ removeTombstones none d ↔ e ∈ d ∧ e.state ≠ .LEFT := by
  simp [removeTombstones, List.mem_filter]

theorem gc_mem (l : Int) (d : Desc) (e : Inst) :
    e ∈ removeTombstones (some l) d ↔ e ∈ d ∧ ¬ (e.state = .LEFT ∧ e.ts < l) := by
  simp only [removeTombstones, List.mem_filter, Bool.not_eq_true', Bool.and_eq_false_iff, beq_eq_false_iff_ne,
    decide_eq_false_iff_not, not_and]
  constructor
  · rintro ⟨h1, h2⟩; exact ⟨h1, fun hl => by rcases h2 with h | h; exact absurd hl h; exact h⟩
  · rintro ⟨h1, h2⟩
    refine ⟨h1, ?_⟩
    by_cases hl : e.state = .LEFT
    · exact Or.inr (h2 hl)
    · exact Or.inl hl

theorem node_get_no_tomb (nd : Node Desc) (key : String) (v : Desc) (h : (nd.get key).1 = some v) :
    ∀ e ∈ v, e.state ≠ .LEFT := by
  unfold Node.get at h
  cases hg : getE nd.store key with
  | none => rw [hg] at h; simp at h
  | some en =>
    rw [hg] at h
    simp only [Option.some.injEq] at h
    subst h
    intro e he
    exact ((strip_mem en.val e).1 he).2

theorem lookup_setLast {V : Type} (l : List (String × V)) (k : String) (v : V) (k' : String) (x : V)
    (h : (k', x) ∈ setLast l k v) : (k', x) ∈ l ∨ (k' = k ∧ x = v) := by
  induction l with
  | nil => simp [setLast] at h; exact Or.inr h
  | cons y ys ih =>
    obtain ⟨ky, vy⟩ := y
    simp only [setLast] at h
    by_cases hk : ky = k
    · rw [if_pos hk] at h
      rcases List.mem_cons.1 h with h | h
      · injection h with h1 h2; exact Or.inr ⟨h1, h2⟩
      · exact Or.inl (List.mem_cons_of_mem _ h)
    · rw [if_neg hk] at h
      rcases List.mem_cons.1 h with h | h
      · exact Or.inl (by rw [h]; simp)
      · rcases ih h with h | h
        · exact Or.inl (List.mem_cons_of_mem _ h)
        · exact Or.inr h

/-- what a watcher's function is called with never contains a tombstone -/
theorem watcher_run_no_tomb (st : Store Desc) (w : Watcher Desc)
    (hw : ∀ k v, (k, v) ∈ w.last → ∀ e ∈ v, e.state ≠ .LEFT) :
    ∀ k v, (k, v) ∈ (w.run st).last → ∀ e ∈ v, e.state ≠ .LEFT := by
  unfold Watcher.run
  cases hp : w.pending with
  | nil => simpa using hw
  | cons p rest =>
    simp only
    cases hg : getE st p with
    | none => simpa using hw
    | some en =>
      intro k v hkv
      rcases lookup_setLast _ _ _ _ _ hkv with h | ⟨_, h⟩
      · exact hw k v h
      · subst h
        intro e he
        exact ((strip_mem en.val e).1 he).2

theorem localState_carries {V : Type} (nd : Node V) (k : String) (e : Entry V) (h : (k, e) ∈ nd.store) :
    ∃ m ∈ localState nd, m.key = k ∧ m.val = e.val ∧ m.deleted = e.deleted := by
  unfold localState
  exact ⟨_, List.mem_map.2 ⟨(k, e), h, rfl⟩, rfl, rfl, rfl⟩

/-! ## histories -/

/-- once node `i` holds the tombstone of `x` with timestamp `t`, whatever is delivered later (any
message, any order, any number of times, full-state exchanges, local updates), `x` is never visible
there again with a timestamp ≤ `t` — and every entry produced before the removal has such a timestamp -/
theorem no_resurrection (hU : Univ U) (hT : TombClosed U) {cfg : Cfg} (hcfg : cfg.lit = 0) (es : List (Event Desc))
    {c : Cluster Desc} (hinv : Inv U c) (hes : GoodRun U cfg c es) (i : Nat) (hnr : ∀ e ∈ es, notRestartOf i e) (key x : String)
    (e : Inst) (he : get? (nval c i key) x = some e) (hleft : e.state = .LEFT) (e' : Inst)
    (he' : get? (nval (runC cfg c es) i key) x = some e') : e'.state = .LEFT ∨ e'.ts > e.ts := by
  have := run_mono hU hT hcfg es hinv hes i hnr key x
  unfold nval at he he'
  rw [he, he', rkO_some, rkO_some] at this
  unfold rk at this
  rw [if_pos hleft] at this
  by_cases h : e'.state = .LEFT
  · exact Or.inl h
  · rw [if_neg h] at this; exact Or.inr (by omega)


/-! ## a removal through `KV.CAS`: stamped with the clock, stored, and queued for gossip -/

theorem cas_removal (hU : Univ U) (hT : TombClosed U) {cfg : Cfg} (hcfg : cfg.lit = 0) {clock : Int} (hclock : clock ≥ 1)
    (nowMs : Int) {nd : Node Desc} {key : String} {f : Option Desc → Option Desc} (hnd : GoodNode U clock nd)
    (hf : GoodFn U clock f) {c0 : Entry Desc} (hg : getE nd.store key = some c0) (out : Desc)
    (hout : f (some (removeTombstones none c0.val)) = some out) (t : Inst) (ht : get? c0.val t.id = some t)
    (hlive : t.state ≠ .LEFT) (hmiss : get? out t.id = none) :
    get? (sval (cas cfg clock nowMs nd key f).1.store key) t.id = some (tomb t clock) ∧
    ∃ b ∈ (cas cfg clock nowMs nd key f).1.localQ, b.key = key ∧ get? b.change t.id = some (tomb t clock) := by
  obtain ⟨hcv, hcd⟩ := hnd.1 key c0 hg
  have hgo := hf _ out hout
  obtain ⟨hst, ch, hch, hcht⟩ := removal_stamp hU hT hclock hcv.1 hgo.1 t ht hlive hmiss
  have hne : ch ≠ [] := fun h => by rw [h, get?_nil] at hcht; cases hcht
  have hemp : (MergeVal.names ch).isEmpty = false := by
    cases h : (MergeVal.names ch).isEmpty with
    | false => rfl
    | true => exact absurd ((ids_isEmpty ch).1 h) hne
  have hview : (nd.get key) = (some (removeTombstones none c0.val), c0.version) := by
    unfold Node.get; rw [hg]; rfl
  have hm : (MergeVal.merge true clock c0.val out : Option (Desc × Option Desc)) =
      some ((C03.merge true clock c0.val out).state, (C03.merge true clock c0.val out).change) := rfl
  have hmvk : mergeValueForKey none clock nd.store key out true c0.version false nowMs =
      { store := setE nd.store key { val := (C03.merge true clock c0.val out).state, version := c0.version + 1,
                                     deleted := c0.deleted, updateTime := c0.updateTime },
        out := some { change := ch, version := c0.version + 1, deleted := c0.deleted, updateTime := c0.updateTime } } := by
    unfold mergeValueForKey
    rw [hg]
    simp only [ne_eq, not_true_eq_false, and_false, if_false]
    rw [hm]
    simp only [Bool.and_false, Bool.false_eq_true, if_false, hch, hemp, Bool.false_and]
  unfold cas
  rw [hview]
  simp only [hout]
  rw [cfg_limit_none hcfg, hmvk]
  simp only [Bool.false_eq_true, if_false, broadcast, if_true, notify_store, notify_localQ]
  refine ⟨by rw [sval_setE]; exact hst, ?_⟩
  refine ⟨({ key := key, content := MergeVal.names ch, version := c0.version + 1, change := ch, deleted := c0.deleted, updateTime := c0.updateTime } : Bcast Desc), ?_, rfl, hcht⟩
  unfold enqueue; simp

/-! ## partition ring: the entry-level rules -/

open C03P in
theorem mergePart_tomb_blocks (t o : Part) (ht : t.state = partDeleted) (h1 : o.stateTs ≤ t.stateTs) (h2 : o.lockedTs ≤ t.lockedTs) :
    mergePart (some t) o = none := by
  unfold mergePart
  have c1 : ¬ (o.stateTs > t.stateTs ∨ (o.stateTs = t.stateTs ∧ o.state = partDeleted ∧ t.state ≠ partDeleted)) := by
    intro h; rcases h with h | ⟨_, _, h⟩
    · omega
    · exact h ht
  have c2 : ¬ (o.lockedTs > t.lockedTs) := by omega
  simp [c1, c2]

open C03P in
theorem ownerAccept_tomb_blocks (t o : Owner) (ht : t.state = ownerDeleted) (h : o.ts ≤ t.ts) :
    ownerAccept (some t) o = false := by
  unfold ownerAccept
  simp only [ht, beq_self_eq_true, Bool.not_true, Bool.and_false, Bool.or_false, decide_eq_false_iff_not]
  omega

open C03P in
theorem pstrip_mem (d : PDesc) :
    (∀ p ∈ (C03P.removeTombstones none d).parts, p.state ≠ partDeleted) ∧
    (∀ o ∈ (C03P.removeTombstones none d).owners, o.state ≠ ownerDeleted) := by
  constructor
  · intro p hp; simp [C03P.removeTombstones, List.mem_filter] at hp; exact hp.2
  · intro o ho; simp [C03P.removeTombstones, List.mem_filter] at ho; exact ho.2

open C03P in
theorem pgc_mem (l : Int) (d : PDesc) (p : Part) (o : Owner) :
    (p ∈ (C03P.removeTombstones (some l) d).parts → p ∈ d.parts ∧ ¬ (p.state = partDeleted ∧ p.stateTs < l)) ∧
    (o ∈ (C03P.removeTombstones (some l) d).owners → o ∈ d.owners ∧ ¬ (o.state = ownerDeleted ∧ o.ts < l)) ∧
    (p ∈ d.parts → ¬ (p.state = partDeleted ∧ p.stateTs < l) → p ∈ (C03P.removeTombstones (some l) d).parts) ∧
    (o ∈ d.owners → ¬ (o.state = ownerDeleted ∧ o.ts < l) → o ∈ (C03P.removeTombstones (some l) d).owners) := by
  refine ⟨?_, ?_, ?_, ?_⟩
  · intro h
    simp only [C03P.removeTombstones, List.mem_filter] at h
    refine ⟨h.1, fun hc => ?_⟩
    have := h.2; simp [hc.1, hc.2] at this
  · intro h
    simp only [C03P.removeTombstones, List.mem_filter] at h
    refine ⟨h.1, fun hc => ?_⟩
    have := h.2; simp [hc.1, hc.2] at this
  · intro h hn
    simp only [C03P.removeTombstones, List.mem_filter]
    refine ⟨h, ?_⟩
    by_cases h1 : p.state = partDeleted
    · have : ¬ p.stateTs < l := fun h2 => hn ⟨h1, h2⟩
      simp [h1, this]
    · simp [h1]
  · intro h hn
    simp only [C03P.removeTombstones, List.mem_filter]
    refine ⟨h, ?_⟩
    by_cases h1 : o.state = ownerDeleted
    · have : ¬ o.ts < l := fun h2 => hn ⟨h1, h2⟩
      simp [h1, this]
    · simp [h1]

open C03P in
/-- the partition analogue of the removal stamp: a partition missing from a local update is marked
deleted with timestamp `now`, stored and reported in the change -/
theorem casPart_stamp (other : PDesc) (now : Int) (acc : C03P.Acc) (t : Part) (h1 : getP other.parts t.id = none)
    (h2 : t.state ≠ partDeleted) :
    (casPart other now acc t).this.parts = upsertP { t with state := partDeleted, stateTs := now } acc.this.parts ∧
    (casPart other now acc t).chP = upsertP { t with state := partDeleted, stateTs := now } acc.chP := by
  unfold casPart
  rw [if_pos ⟨by rw [h1]; rfl, h2⟩]
  exact ⟨rfl, rfl⟩

open C03P in
theorem casOwner_stamp (other : PDesc) (now : Int) (acc : C03P.Acc) (t : Owner) (h1 : getO other.owners t.id = none)
    (h2 : t.state ≠ ownerDeleted) :
    (casOwner other now acc t).this.owners = upsertO { t with state := ownerDeleted, ts := now } acc.this.owners ∧
    (casOwner other now acc t).chO = upsertO { t with state := ownerDeleted, ts := now } acc.chO := by
  unfold casOwner
  rw [if_pos ⟨by rw [h1]; rfl, h2⟩]
  exact ⟨rfl, rfl⟩

end PfC04
