import Model.C16Partition
/-! # C16 — `AddPartition`: the stored tokens are a pure function of the partition id -/
namespace PfC16
open C16 C14

theorem find_setPart_self (p : Part) : ∀ (l : List Part),
    (C15.setPart p l).find? (·.id == p.id) = some p
  | [] => by simp [C15.setPart]
  | q :: qs => by
    unfold C15.setPart
    by_cases h1 : p.id < q.id
    · rw [if_pos h1]; simp
    · rw [if_neg h1]
      by_cases h2 : (p.id == q.id) = true
      · rw [if_pos h2]; simp
      · rw [if_neg h2]
        have hq : (q.id == p.id) = false := by
          simp only [beq_iff_eq] at h2
          simp only [beq_eq_false_iff_ne, ne_eq]
          exact fun e => h2 e.symm
        rw [List.find?_cons, hq]
        exact find_setPart_self p qs

theorem find_setPart_other (p : Part) (j : Int) (hj : j ≠ p.id) : ∀ (l : List Part),
    (C15.setPart p l).find? (·.id == j) = l.find? (·.id == j)
  | [] => by
    have : (p.id == j) = false := by simp only [beq_eq_false_iff_ne, ne_eq]; exact fun e => hj e.symm
    simp [C15.setPart, this]
  | q :: qs => by
    have hp : (p.id == j) = false := by simp only [beq_eq_false_iff_ne, ne_eq]; exact fun e => hj e.symm
    unfold C15.setPart
    by_cases h1 : p.id < q.id
    · rw [if_pos h1, List.find?_cons, hp]
    · rw [if_neg h1]
      by_cases h2 : (p.id == q.id) = true
      · rw [if_pos h2]
        have hq : (q.id == j) = false := by
          simp only [beq_iff_eq] at h2
          rw [← h2]; exact hp
        rw [List.find?_cons, hp, List.find?_cons, hq]
      · rw [if_neg h2, List.find?_cons, List.find?_cons, find_setPart_other p j hj qs]

theorem addPartition_ok {d d' : PDesc} {id : Int} {st : Nat} {now : Int}
    (h : addPartition d id st now = .ok d') :
    0 ≤ id ∧ ∃ ts, partitionTokens id.toNat = .ok ts ∧
      d'.get? id = some { id := id, state := st, stateTs := now, tokens := ts } ∧
      (∀ j, j ≠ id → d'.get? j = d.get? j) ∧ d'.owners = d.owners := by
  unfold addPartition at h
  split at h
  · cases h
  · rename_i hid
    split at h
    · cases h
    · rename_i ts hts
      simp only [Except.ok.injEq] at h
      subst h
      refine ⟨by omega, ts, hts, ?_, ?_, rfl⟩
      · exact find_setPart_self { id := id, state := st, stateTs := now, tokens := ts } d.parts
      · intro j hj
        exact find_setPart_other { id := id, state := st, stateTs := now, tokens := ts } j hj d.parts

/-- the entry succeeds for every non-negative id whose tokens can be generated. -/
theorem addPartition_total (d : PDesc) {id : Int} (st : Nat) (now : Int) (hid : 0 ≤ id) {ts : List Nat}
    (hts : partitionTokens id.toNat = .ok ts) : ∃ d', addPartition d id st now = .ok d' := by
  unfold addPartition
  rw [if_neg (by omega), hts]
  exact ⟨_, rfl⟩

end PfC16
