import Model.C16
/-!
# C16 — helper lemmas and proofs (core Lean only)

Sections: A order facts about the Go `Less`; C leftist heaps;
D the random generator; E `calculateNewToken`; F invariants of the spread-minimising generator.
-/
namespace PfC16
open C16

/-! ## A. `Less` is a strict total order on (ownership, key) pairs -/

theorem less_iff {oi oj : Int} {ki kj : Nat} :
    less oi ki oj kj = true ↔ (oi = oj ∧ kj < ki) ∨ oj < oi := by
  unfold less
  by_cases h : oi = oj
  · rw [if_pos h]; simp only [decide_eq_true_eq]; omega
  · rw [if_neg h]; simp only [decide_eq_true_eq]; omega

theorem less_false_iff {oi oj : Int} {ki kj : Nat} :
    less oi ki oj kj = false ↔ (oi < oj ∨ (oi = oj ∧ ki ≤ kj)) := by
  rw [← Bool.not_eq_true, less_iff]; omega

/-- A Boolean "has higher priority than" relation that is a strict weak order. -/
structure StrictWeak {α : Type} (hi : α → α → Bool) : Prop where
  asymm : ∀ a b, hi a b = true → hi b a = false
  trans : ∀ a b c, hi a b = true → hi b c = true → hi a c = true
  ntrans : ∀ a b c, hi a b = false → hi b c = false → hi a c = false

theorem StrictWeak.irrefl {α : Type} {hi : α → α → Bool} (h : StrictWeak hi) (a : α) : hi a a = false := by
  cases hh : hi a a
  · rfl
  · have := h.asymm a a hh; rw [hh] at this; exact this

theorem instHi_sw : StrictWeak instHi := by
  constructor
  · intro a b h; unfold instHi at *; rw [less_iff] at h; rw [less_false_iff]; omega
  · intro a b c h1 h2; unfold instHi at *; rw [less_iff] at *; omega
  · intro a b c h1 h2; unfold instHi at *; rw [less_false_iff] at *; omega

theorem tokHi_sw : StrictWeak tokHi := by
  constructor
  · intro a b h; unfold tokHi at *; rw [less_iff] at h; rw [less_false_iff]; omega
  · intro a b c h1 h2; unfold tokHi at *; rw [less_iff] at *; omega
  · intro a b c h1 h2; unfold tokHi at *; rw [less_false_iff] at *; omega

/-! ## C. leftist heaps -/

def IsHeap {α : Type} (hi : α → α → Bool) : Heap α → Prop
  | .nil => True
  | .node _ l x r =>
    (∀ y ∈ l.toList, hi y x = false) ∧ (∀ y ∈ r.toList, hi y x = false) ∧ IsHeap hi l ∧ IsHeap hi r

@[simp] theorem toList_nil {α : Type} : (Heap.nil : Heap α).toList = [] := rfl
@[simp] theorem toList_node {α : Type} (k : Nat) (l r : Heap α) (x : α) :
    (Heap.node k l x r).toList = x :: (l.toList ++ r.toList) := rfl

theorem perm_mk {α : Type} (x : α) (a b : Heap α) :
    (Heap.mk x a b).toList.Perm (x :: (a.toList ++ b.toList)) := by
  unfold Heap.mk
  by_cases h : b.rank ≤ a.rank
  · rw [if_pos h]; exact List.Perm.refl _
  · rw [if_neg h]; exact List.Perm.cons x List.perm_append_comm

theorem perm_mergeAux {α : Type} (hi : α → α → Bool) (k1 : Nat) (l1 : Heap α) (x1 : α) (r1 : Heap α)
    (m : Heap α → Heap α) (hm : ∀ h, (m h).toList.Perm (r1.toList ++ h.toList)) (h2 : Heap α) :
    (Heap.mergeAux hi (.node k1 l1 x1 r1) x1 l1 m h2).toList.Perm
      ((Heap.node k1 l1 x1 r1).toList ++ h2.toList) := by
  induction h2 with
  | nil => simp [Heap.mergeAux]
  | node k2 l2 x2 r2 _ ihr =>
    unfold Heap.mergeAux
    by_cases h : hi x2 x1 = true
    · rw [if_pos h]
      refine (perm_mk _ _ _).trans ?_
      -- x2 :: (l2 ++ (h1 ++ r2))  ~  h1 ++ x2 :: (l2 ++ r2)
      have h1 : (x2 :: (l2.toList ++ (Heap.mergeAux hi (.node k1 l1 x1 r1) x1 l1 m r2).toList)).Perm
          (x2 :: (l2.toList ++ ((Heap.node k1 l1 x1 r1).toList ++ r2.toList))) :=
        List.Perm.cons _ (List.Perm.append_left _ ihr)
      refine h1.trans ?_
      simp only [toList_node]
      refine List.Perm.trans ?_ (List.perm_middle).symm
      refine List.Perm.cons _ ?_
      rw [← List.append_assoc, ← List.append_assoc]
      exact List.Perm.append_right _ List.perm_append_comm
    · rw [if_neg h]
      refine (perm_mk _ _ _).trans ?_
      simp only [toList_node, List.cons_append]
      refine List.Perm.cons _ ?_
      rw [List.append_assoc]
      exact List.Perm.append_left _ (hm _)

theorem perm_merge {α : Type} (hi : α → α → Bool) (a b : Heap α) :
    (Heap.merge hi a b).toList.Perm (a.toList ++ b.toList) := by
  induction a generalizing b with
  | nil => simp [Heap.merge]
  | node k1 l1 x1 r1 _ ihr =>
    unfold Heap.merge
    exact perm_mergeAux hi k1 l1 x1 r1 _ (fun h => ihr h) b

theorem perm_push {α : Type} (hi : α → α → Bool) (x : α) (h : Heap α) :
    (Heap.push hi x h).toList.Perm (x :: h.toList) := by
  unfold Heap.push
  refine (perm_merge hi _ h).trans ?_
  simp

theorem isHeap_mk {α : Type} {hi : α → α → Bool} (x : α) (a b : Heap α)
    (ha : IsHeap hi a) (hb : IsHeap hi b) (hxa : ∀ y ∈ a.toList, hi y x = false)
    (hxb : ∀ y ∈ b.toList, hi y x = false) : IsHeap hi (Heap.mk x a b) := by
  unfold Heap.mk
  by_cases h : b.rank ≤ a.rank
  · rw [if_pos h]; exact ⟨hxa, hxb, ha, hb⟩
  · rw [if_neg h]; exact ⟨hxb, hxa, hb, ha⟩

theorem isHeap_mergeAux {α : Type} {hi : α → α → Bool} (sw : StrictWeak hi) (k1 : Nat) (l1 : Heap α)
    (x1 : α) (r1 : Heap α) (m : Heap α → Heap α)
    (hmp : ∀ h, (m h).toList.Perm (r1.toList ++ h.toList))
    (hm : ∀ h, IsHeap hi h → IsHeap hi (m h)) (h1 : IsHeap hi (.node k1 l1 x1 r1)) (h2 : Heap α)
    (hh2 : IsHeap hi h2) : IsHeap hi (Heap.mergeAux hi (.node k1 l1 x1 r1) x1 l1 m h2) := by
  induction h2 with
  | nil => exact h1
  | node k2 l2 x2 r2 _ ihr =>
    obtain ⟨h2l, h2r, h2hl, h2hr⟩ := hh2
    obtain ⟨h1l, h1r, h1hl, h1hr⟩ := h1
    unfold Heap.mergeAux
    by_cases h : hi x2 x1 = true
    · rw [if_pos h]
      refine isHeap_mk _ _ _ h2hl (ihr h2hr) h2l ?_
      intro y hy
      have hy' := (perm_mergeAux hi k1 l1 x1 r1 m hmp r2).mem_iff.mp hy
      rcases List.mem_append.mp hy' with hy1 | hy2
      · -- y in h1: y does not beat x1 and x1 does not beat x2
        have hx1 : hi x1 x2 = false := sw.asymm _ _ h
        have hyx1 : hi y x1 = false := by
          simp only [toList_node, List.mem_cons, List.mem_append] at hy1
          rcases hy1 with rfl | hy1 | hy1
          · exact sw.irrefl _
          · exact h1l y hy1
          · exact h1r y hy1
        exact sw.ntrans _ _ _ hyx1 hx1
      · exact h2r y hy2
    · rw [if_neg h]
      have hx : hi x2 x1 = false := by simpa using h
      refine isHeap_mk _ _ _ h1hl (hm _ ⟨h2l, h2r, h2hl, h2hr⟩) h1l ?_
      intro y hy
      have hy' := (hmp _).mem_iff.mp hy
      rcases List.mem_append.mp hy' with hy1 | hy2
      · exact h1r y hy1
      · simp only [toList_node, List.mem_cons, List.mem_append] at hy2
        rcases hy2 with rfl | hy2 | hy2
        · exact hx
        · exact sw.ntrans _ _ _ (h2l y hy2) hx
        · exact sw.ntrans _ _ _ (h2r y hy2) hx

theorem isHeap_merge {α : Type} {hi : α → α → Bool} (sw : StrictWeak hi) (a b : Heap α)
    (ha : IsHeap hi a) (hb : IsHeap hi b) : IsHeap hi (Heap.merge hi a b) := by
  induction a generalizing b with
  | nil => simpa [Heap.merge] using hb
  | node k1 l1 x1 r1 _ ihr =>
    unfold Heap.merge
    exact isHeap_mergeAux sw k1 l1 x1 r1 _ (fun h => perm_merge hi r1 h)
      (fun h hh => ihr h ha.2.2.2 hh) ha b hb

theorem isHeap_push {α : Type} {hi : α → α → Bool} (sw : StrictWeak hi) (x : α) (h : Heap α)
    (hh : IsHeap hi h) : IsHeap hi (Heap.push hi x h) := by
  unfold Heap.push
  refine isHeap_merge sw _ _ ?_ hh
  exact ⟨by simp, by simp, trivial, trivial⟩

/-- the root of a heap is a maximum of all its items. -/
theorem heap_root_max {α : Type} {hi : α → α → Bool} (sw : StrictWeak hi) {k : Nat} {l r : Heap α} {x : α}
    (h : IsHeap hi (.node k l x r)) : ∀ y ∈ (Heap.node k l x r).toList, hi y x = false := by
  intro y hy
  simp only [toList_node, List.mem_cons, List.mem_append] at hy
  rcases hy with rfl | hy | hy
  · exact sw.irrefl _
  · exact h.1 y hy
  · exact h.2.1 y hy

theorem perm_foldr_push {α : Type} (hi : α → α → Bool) (xs : List α) (h : Heap α) :
    (xs.foldr (fun x q => Heap.push hi x q) h).toList.Perm (xs ++ h.toList) := by
  induction xs with
  | nil => exact List.Perm.refl _
  | cons a r ih => exact (perm_push hi a _).trans (List.Perm.cons a ih)

theorem isHeap_foldr_push {α : Type} {hi : α → α → Bool} (sw : StrictWeak hi) (xs : List α) (h : Heap α)
    (hh : IsHeap hi h) : IsHeap hi (xs.foldr (fun x q => Heap.push hi x q) h) := by
  induction xs with
  | nil => exact hh
  | cons a r ih => exact isHeap_push sw a _ ih

/-! ## D. sorting, the random generator, the selection loop -/

theorem sortTokens_perm (l : List Nat) : (sortTokens l).Perm l := List.mergeSort_perm _ _

theorem sortTokens_sorted (l : List Nat) : (sortTokens l).Pairwise (· ≤ ·) := by
  have h := List.pairwise_mergeSort (le := fun a b => decide (a ≤ b))
    (by intro a b c; simp only [decide_eq_true_eq]; omega)
    (by intro a b; simp only [Bool.or_eq_true, decide_eq_true_eq]; omega) l
  unfold sortTokens
  exact h.imp (by intro a b hab; simpa using hab)

theorem pairwise_lt_of_le_nodup : ∀ (l : List Nat), l.Pairwise (· ≤ ·) → l.Nodup → l.Pairwise (· < ·)
  | [], _, _ => List.Pairwise.nil
  | a :: r, h, hn => by
    rw [List.pairwise_cons] at h ⊢
    rw [List.nodup_cons] at hn
    refine ⟨?_, pairwise_lt_of_le_nodup r h.2 hn.2⟩
    intro b hb
    have := h.1 b hb
    have hne : a ≠ b := fun e => hn.1 (e ▸ hb)
    omega

theorem sortTokens_strict (l : List Nat) (hn : l.Nodup) : (sortTokens l).Pairwise (· < ·) :=
  pairwise_lt_of_le_nodup _ (sortTokens_sorted l) ((sortTokens_perm l).nodup_iff.mpr hn)

theorem randomLoop_ok : ∀ (stream used : List Nat) (k : Nat) (ts : List Nat),
    randomLoop used k stream = .ok ts →
    ts.length = k ∧ ts.Nodup ∧ ∀ t ∈ ts, t ∉ used ∧ t ∈ stream := by
  intro stream
  induction stream with
  | nil =>
    intro used k ts h
    cases k with
    | zero => simp only [randomLoop, Except.ok.injEq] at h; subst h; simp
    | succ k => simp [randomLoop] at h
  | cons c s ih =>
    intro used k ts h
    cases k with
    | zero => simp only [randomLoop, Except.ok.injEq] at h; subst h; simp
    | succ k =>
      unfold randomLoop at h
      by_cases hc : used.contains c = true
      · rw [if_pos hc] at h
        obtain ⟨h1, h2, h3⟩ := ih used (k + 1) ts h
        exact ⟨h1, h2, fun t ht => ⟨(h3 t ht).1, List.mem_cons_of_mem _ (h3 t ht).2⟩⟩
      · rw [if_neg hc] at h
        cases hr : randomLoop (c :: used) k s with
        | error e => rw [hr] at h; simp [Except.map] at h
        | ok ts' =>
          rw [hr] at h
          simp only [Except.map, Except.ok.injEq] at h
          subst h
          obtain ⟨h1, h2, h3⟩ := ih (c :: used) k ts' hr
          have hcu : c ∉ used := by
            intro hm; exact hc (List.contains_iff_mem.mpr hm)
          refine ⟨by simp [h1], ?_, ?_⟩
          · rw [List.nodup_cons]
            refine ⟨fun hm => ?_, h2⟩
            exact (h3 c hm).1 (List.mem_cons_self)
          · intro t ht
            rcases List.mem_cons.mp ht with rfl | ht
            · exact ⟨hcu, List.mem_cons_self⟩
            · exact ⟨fun hm => (h3 t ht).1 (List.mem_cons_of_mem _ hm), List.mem_cons_of_mem _ (h3 t ht).2⟩

theorem randomLoop_total : ∀ (stream used : List Nat) (k : Nat) (l : List Nat),
    l.Nodup → (∀ x ∈ l, x ∈ stream ∧ x ∉ used) → k ≤ l.length →
    ∃ ts, randomLoop used k stream = .ok ts := by
  intro stream
  induction stream with
  | nil =>
    intro used k l _ hl hk
    cases l with
    | nil => cases k with
      | zero => exact ⟨[], rfl⟩
      | succ k => simp at hk
    | cons a r => exact absurd (hl a List.mem_cons_self).1 (by simp)
  | cons c s ih =>
    intro used k l hn hl hk
    cases k with
    | zero => exact ⟨[], rfl⟩
    | succ k =>
      unfold randomLoop
      by_cases hc : used.contains c = true
      · rw [if_pos hc]
        have hcu : c ∈ used := List.contains_iff_mem.mp hc
        refine ih used (k + 1) l hn ?_ hk
        intro x hx
        obtain ⟨h1, h2⟩ := hl x hx
        rcases List.mem_cons.mp h1 with rfl | h1
        · exact absurd hcu h2
        · exact ⟨h1, h2⟩
      · rw [if_neg hc]
        have hlen : k ≤ (l.erase c).length := by
          by_cases hm : c ∈ l
          · rw [List.length_erase_of_mem hm]; omega
          · rw [List.erase_of_not_mem hm]; omega
        obtain ⟨ts, hts⟩ := ih (c :: used) k (l.erase c) (hn.erase c) (by
          intro x hx
          have hxl : x ∈ l := List.mem_of_mem_erase hx
          have hxc : x ≠ c := by
            intro e; subst e; exact (hn.mem_erase_iff.mp hx).1 rfl
          obtain ⟨h1, h2⟩ := hl x hxl
          rcases List.mem_cons.mp h1 with rfl | h1
          · exact absurd rfl hxc
          · exact ⟨h1, by simp [hxc, h2]⟩) hlen
        exact ⟨c :: ts, by rw [hts]; rfl⟩

theorem genRandom_ok (stream : List Nat) (req : Int) (taken ts : List Nat)
    (h : genRandom stream req taken = .ok ts) :
    ts.Pairwise (· < ·) ∧ (∀ t ∈ ts, t ∉ taken ∧ t ∈ stream) ∧ ts.length = req.toNat := by
  unfold genRandom at h
  by_cases hr : req ≤ 0
  · rw [if_pos hr] at h
    simp only [Except.ok.injEq] at h; subst h
    refine ⟨List.Pairwise.nil, by simp, ?_⟩
    simp; omega
  · rw [if_neg hr] at h
    cases hl : randomLoop taken req.toNat stream with
    | error e => rw [hl] at h; simp [Except.map] at h
    | ok l =>
      rw [hl] at h
      simp only [Except.map, Except.ok.injEq] at h
      subst h
      obtain ⟨h1, h2, h3⟩ := randomLoop_ok stream taken _ l hl
      refine ⟨sortTokens_strict l h2, ?_, ?_⟩
      · intro t ht; exact h3 t ((sortTokens_perm l).mem_iff.mp ht)
      · rw [(sortTokens_perm l).length_eq]; exact h1

theorem genRandom_total (stream : List Nat) (req : Int) (taken l : List Nat)
    (hn : l.Nodup) (hl : ∀ x ∈ l, x ∈ stream ∧ x ∉ taken) (hk : req.toNat ≤ l.length) :
    ∃ ts, genRandom stream req taken = .ok ts := by
  unfold genRandom
  by_cases hr : req ≤ 0
  · rw [if_pos hr]; exact ⟨[], rfl⟩
  · rw [if_neg hr]
    obtain ⟨ts, hts⟩ := randomLoop_total stream taken req.toNat l hn hl hk
    exact ⟨sortTokens ts, by rw [hts]; rfl⟩

/-- the selection loop of `GenerateTokens` is "filter the untaken, keep the first `k`". -/
theorem pickFree_eq : ∀ (all : List Nat) (taken : List Nat) (k : Nat),
    pickFree taken k all = (all.filter (fun t => !taken.contains t)).take k := by
  intro all
  induction all with
  | nil => intro taken k; cases k <;> simp [pickFree]
  | cons a r ih =>
    intro taken k
    cases k with
    | zero => simp [pickFree]
    | succ k =>
      unfold pickFree
      by_cases hc : taken.contains a = true
      · rw [if_pos hc, ih, List.filter_cons_of_neg (by rw [hc]; decide)]
      · rw [if_neg hc, ih, List.filter_cons_of_pos (by rw [Bool.not_eq_true] at hc; rw [hc]; decide), List.take_succ_cons]

/-! ## E. `tokenDistance`, `calculateNewToken`, arcs -/

/-- `x` lies in the range `(p, e]` of the ring (`p = e` is the whole ring). -/
def inArc (p e x : Nat) : Prop := if p < e then p < x ∧ x ≤ e else p < x ∨ x ≤ e

/-- the ranges of two items have no key in common. -/
def arcDisj (a b : TokItem) : Prop := ∀ x, ¬ (inArc a.prev a.token x ∧ inArc b.prev b.token x)

theorem arcDisj_symm {a b : TokItem} (h : arcDisj a b) : arcDisj b a :=
  fun x hx => h x ⟨hx.2, hx.1⟩

theorem inArc_self (p e : Nat) : inArc p e e := by
  unfold inArc; split <;> omega

/-- splitting `(p, e]` at a point `n` strictly inside it. -/
theorem arc_split {p e n : Nat} (hin : inArc p e n) (hne : n ≠ e) :
    (∀ x, inArc p n x → inArc p e x) ∧ (∀ x, inArc n e x → inArc p e x) ∧
    (∀ x, ¬ (inArc p n x ∧ inArc n e x)) := by
  unfold inArc at *
  refine ⟨?_, ?_, ?_⟩ <;> intro x <;> (repeat' split at *) <;> omega

theorem calc_ok {t : TokItem} {opt n : Nat} (h : calcNewToken t opt = .ok n) :
    8 ≤ opt ∧ opt % 8 = 0 ∧ t.prev % 8 = t.token % 8 ∧ opt < t.own ∧
    n = (if (4294967288 + 4294967296 - t.prev) % 4294967296 < opt
          then opt - (4294967288 + 4294967296 - t.prev) % 4294967296
          else (t.prev + opt) % 4294967296) := by
  unfold calcNewToken at h
  split at h
  · cases h
  split at h
  · cases h
  split at h
  · cases h
  rename_i h1 h2 h3
  dsimp only at h
  split at h
  · rename_i h4
    simp only [maxZonesCount, totalTokensCount, Except.ok.injEq] at h1 h2 h3 h4 h
    refine ⟨by omega, by omega, by omega, by omega, ?_⟩
    rw [if_pos (by omega)]; omega
  · rename_i h4
    simp only [maxZonesCount, totalTokensCount, Except.ok.injEq] at h1 h2 h3 h4 h
    refine ⟨by omega, by omega, by omega, by omega, ?_⟩
    rw [if_neg (by omega)]; omega

theorem own_le (t : TokItem) (hp : t.prev < 4294967296) (ht : t.token < 4294967296) :
    t.own ≤ 4294967296 ∧ 0 < t.own := by
  unfold TokItem.own tokenDistance; split <;> omega

/-- the new token keeps the residue of the bounds and is a `uint32`. -/
theorem calc_cong {t : TokItem} {opt n : Nat} (h : calcNewToken t opt = .ok n)
    (hp : t.prev < 4294967296) (ht : t.token < 4294967296) :
    n % 8 = t.prev % 8 ∧ n < 4294967296 := by
  obtain ⟨h1, h2, h3, h4, h5⟩ := calc_ok h
  have ho := (own_le t hp ht).1
  subst h5
  split <;> omega

/-- the new token lies in the range it splits. -/
theorem calc_inArc {t : TokItem} {opt n : Nat} (h : calcNewToken t opt = .ok n)
    (hp : t.prev < 4294967296) (ht : t.token < 4294967296) :
    inArc t.prev t.token n := by
  obtain ⟨h1, h2, h3, h4, h5⟩ := calc_ok h
  subst h5
  unfold TokItem.own tokenDistance at h4
  unfold inArc
  (repeat' split at *) <;> omega

/-- ... and coincides with its upper end exactly when the "wrap" branch is taken with
`ownership = optimalTokenOwnership + maxZonesCount` (the case `calculateNewToken` does not check). -/
theorem calc_degenerate_iff {t : TokItem} {opt n : Nat} (h : calcNewToken t opt = .ok n)
    (hp : t.prev < 4294967296) (ht : t.token < 4294967296) :
    n = t.token ↔ ((4294967288 + 4294967296 - t.prev) % 4294967296 < opt ∧ t.own = opt + 8) := by
  obtain ⟨h1, h2, h3, h4, h5⟩ := calc_ok h
  subst h5
  unfold TokItem.own tokenDistance at *
  (repeat' split at *) <;> omega

end PfC16
