import Proofs.C16.Gen
/-!
# C16 — which errors the generator can end in

`Err.panic` (a nil token queue) is unreachable for every instance index, like `Err.fuel`
(`genUpTo_no_fuel`). What remains possible in principle - and is excluded only for the kernel-checked
table and, beyond it, by execution - is `outOfDomain`, `cannotAdd`, `cannotCalc` (and the latter only
through `optimalTokenOwnership < 8`).
-/
namespace PfC16
open C16

theorem push_ne_nil {α : Type} (hi : α → α → Bool) (x : α) (h : Heap α) : Heap.push hi x h ≠ .nil := by
  intro e
  have := (perm_push hi x h).length_eq
  rw [e] at this
  simp at this

theorem pick_no_panic : ∀ (f : Nat) (q : Heap Inst) (ign : List Inst) (opt : Nat),
    (∀ x ∈ q.toList, x.tq ≠ .nil) → pick opt f q ign ≠ .error .panic := by
  intro f
  induction f with
  | zero => intro q ign opt _; simp [pick]
  | succ f ih =>
    intro q ign opt hq
    cases q with
    | nil => simp [pick]
    | node kq l y r =>
      unfold pick
      split
      · simp
      · split
        · rename_i htq
          exact absurd htq (hq y (by simp))
        · split
          · refine ih _ _ _ ?_
            intro x hx
            have hx' := (perm_merge instHi l r).mem_iff.mp hx
            exact hq x (by simp only [toList_node, List.mem_cons]; exact Or.inr hx')
          · simp

/-- no instance in the queues has an empty token queue. -/
def NonEmpty (st : Loop) : Prop := ∀ x ∈ st.instQ.toList ++ st.ignored, x.tq ≠ .nil

theorem nonEmpty_step {i : Nat} {st : Loop} {opt : Nat} {x : Inst} {t : TokItem} {tl tr : Heap TokItem}
    {rest : Heap Inst} {ign : List Inst} (n : Nat) (hI : NonEmpty st)
    (hp : pick opt (i + 1) st.instQ st.ignored = .ok (x, t, tl, tr, rest, ign)) :
    NonEmpty (splitStep st x t tl tr rest ign n) := by
  obtain ⟨sk, k, hq, hign, _, _, _, _⟩ := pick_ok _ _ _ hp
  intro y hy
  simp only [splitStep, List.mem_append] at hy
  rcases hy with hy | hy
  · have hy' := (perm_push instHi _ rest).mem_iff.mp hy
    rcases List.mem_cons.mp hy' with rfl | hy'
    · exact push_ne_nil _ _ _
    · exact hI y (List.mem_append_left _ (hq.mem_iff.mpr (by simp [hy'])))
  · rw [hign] at hy
    rcases List.mem_append.mp hy with hy | hy
    · exact hI y (List.mem_append_left _ (hq.mem_iff.mpr (by simp [List.mem_reverse.mp hy])))
    · exact hI y (List.mem_append_right _ hy)

theorem addTokens_no_panic {i : Nat} : ∀ (r : Nat) (st : Loop), NonEmpty st →
    addTokens i r st ≠ .error .panic := by
  intro r
  induction r with
  | zero => intro st _; simp [addTokens]
  | succ r ih =>
    intro st hne h
    unfold addTokens at h
    cases ho : optimalTokenOwnership i st.curr (r + 1) with
    | error e =>
      rw [ho] at h
      simp only [bind, Except.bind, Except.error.injEq] at h
      have := optimalTokenOwnership_err ho
      rw [h] at this; cases this
    | ok opt =>
      rw [ho] at h
      simp only [bind, Except.bind] at h
      cases hp : pick opt (i + 1) st.instQ st.ignored with
      | error e =>
        rw [hp] at h
        simp only [Except.error.injEq] at h
        subst h
        exact pick_no_panic (i + 1) st.instQ st.ignored opt
          (fun x hx => hne x (List.mem_append_left _ hx)) hp
      | ok res =>
        obtain ⟨x, t, tl, tr, rest, ign⟩ := res
        rw [hp] at h
        simp only at h
        cases hc : calcNewToken t opt with
        | error e =>
          rw [hc] at h
          simp only [Except.error.injEq] at h
          have := calcNewToken_err hc
          rw [h] at this; cases this
        | ok n =>
          rw [hc] at h
          simp only at h
          cases ha : addTokens i r (splitStep st x t tl tr rest ign n) with
          | error e =>
            rw [ha] at h
            simp only [Except.error.injEq] at h
            subst h
            exact ih _ (nonEmpty_step n hne hp) ha
          | ok res2 =>
            rw [ha] at h
            cases h

theorem addTokens_currTq_ne {i : Nat} : ∀ (r : Nat) (st : Loop) (toks : List Nat) (fin : Loop),
    addTokens i (r + 1) st = .ok (toks, fin) → fin.currTq ≠ .nil := by
  intro r
  induction r with
  | zero =>
    intro st toks fin h
    obtain ⟨opt, x, t, tl, tr, rest, ign, n, toks', _, _, _, ha, _⟩ := addTokens_succ h
    simp only [addTokens, Except.ok.injEq, Prod.mk.injEq] at ha
    rw [← ha.2]
    exact push_ne_nil _ _ _
  | succ r ih =>
    intro st toks fin h
    obtain ⟨opt, x, t, tl, tr, rest, ign, n, toks', _, _, _, ha, _⟩ := addTokens_succ h
    exact ih _ _ _ ha

theorem nonEmpty_genUpTo {z : Nat} : ∀ (n : Nat) (s : State), genUpTo z n = .ok s →
    ∀ x ∈ s.instQ.toList, x.tq ≠ .nil := by
  intro n
  induction n with
  | zero =>
    intro s h x hx
    simp only [genUpTo, Except.ok.injEq] at h
    subst h
    simp only [initState, initStateOf, push_nil, toList_node, toList_nil, List.append_nil,
      List.mem_singleton] at hx
    subst hx
    simp only
    intro e
    have hperm := (foldl_push_perm (withPrev (firstInstanceTokens z)) .nil).length_eq
    rw [e] at hperm
    have hl : (withPrev (firstInstanceTokens z)).length = 512 := by
      have := congrArg List.length (map_token_withPrevFrom (firstInstanceTokens z) 0)
      unfold withPrev
      cases hg : (firstInstanceTokens z).getLast? with
      | none =>
        have := first_length z
        rw [List.getLast?_eq_none_iff.mp hg] at this; simp at this
      | some last =>
        have := congrArg List.length (map_token_withPrevFrom (firstInstanceTokens z) last)
        simp only [List.length_map] at this
        simp only; rw [this]; exact first_length z
    simp [hl] at hperm
  | succ i ih =>
    intro s h x hx
    obtain ⟨s0, h0, h1⟩ := genUpTo_succ h
    obtain ⟨toks, fin, ha, rfl⟩ := addInstance_ok h1
    have hne0 : NonEmpty ⟨s0.instQ, [], 0, .nil, s0.degenerate⟩ := by
      intro y hy; simp only [List.append_nil] at hy; exact ih s0 h0 y hy
    have hfin := (addTokens_inv (i + 1) NonEmpty (fun _ => True)
      (fun _ _ _ _ _ _ _ _ _ n hI _ hp _ => ⟨nonEmpty_step n hI hp, trivial⟩) 512 _ toks fin hne0 ha).1
    have hx' := (newQ_perm (i + 1) fin).mem_iff.mp hx
    rcases List.mem_cons.mp hx' with rfl | hx'
    · exact addTokens_currTq_ne 511 _ toks fin ha
    · exact hfin x (by
        rcases List.mem_append.mp hx' with h | h
        · exact List.mem_append_right _ h
        · exact List.mem_append_left _ h)

/-- a nil token queue is never dereferenced: `Err.panic` is not a possible outcome of the generator. -/
theorem genUpTo_no_panic {z : Nat} : ∀ (n : Nat), genUpTo z n ≠ .error .panic := by
  intro n
  induction n with
  | zero => simp [genUpTo]
  | succ i ih =>
    intro h
    unfold genUpTo at h
    cases h0 : genUpTo z i with
    | error e =>
      rw [h0] at h
      simp only [bind, Except.bind, Except.error.injEq] at h
      subst h
      exact ih h0
    | ok s0 =>
      rw [h0] at h
      simp only [bind, Except.bind] at h
      unfold addInstance at h
      simp only [optimalTokensPerInstance, bind, Except.bind] at h
      cases ha : addTokens (i + 1) 512 ⟨s0.instQ, [], 0, .nil, s0.degenerate⟩ with
      | error e =>
        rw [ha] at h
        simp only [Except.error.injEq] at h
        subst h
        refine addTokens_no_panic 512 _ ?_ ha
        intro y hy; simp only [List.append_nil] at hy; exact nonEmpty_genUpTo i s0 h0 y hy
      | ok res =>
        rw [ha] at h
        cases h

end PfC16
