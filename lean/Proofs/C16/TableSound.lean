import Proofs.C16.Table
import Proofs.C16.Shift
/-!
# C16 — from the zone-0 table to all zones

`checkZone0 N = true` (kernel-evaluated) gives the finite statement for zone 0; the translation
theorem `genUpTo_sh` carries it to every zone `z < 8`: same flag, same registered ownerships, tokens
shifted by `z`.
-/
namespace PfC16
open C16

theorem spreadOK_shS {z : Nat} {s : State} (h : SpreadOK s) : SpreadOK (shS z s) := by
  intro x hx y hy
  have e : (shS z s).instQ.toList = s.instQ.toList.map (shI z) := toList_hmap _ _
  rw [e] at hx hy
  obtain ⟨x0, hx0, rfl⟩ := List.mem_map.mp hx
  obtain ⟨y0, hy0, rfl⟩ := List.mem_map.mp hy
  exact h x0 hx0 y0 hy0

/-- zone 0 checked up to `N`  ⟹  every zone, every `n ≤ N`. -/
theorem all_zones_of_zone0 {N : Nat} (h : checkZone0 N = true) {z n : Nat} (hz : z < 8) (hn : n ≤ N) :
    ∃ s0, genUpTo 0 n = .ok s0 ∧ genUpTo z n = .ok (shS z s0) ∧ s0.degenerate = false ∧
      SpreadOK (shS z s0) ∧ maxTokenValue ∉ s0.toks.flatten := by
  obtain ⟨⟨fin, hfin, habs⟩, hall⟩ := checkZone0_sound h
  obtain ⟨s0, hs0, hd, hsp⟩ := hall n hn
  obtain ⟨s', hs', hpre⟩ := (genUpTo_prefix N fin hfin).2 n hn
  rw [hs0] at hs'; cases hs'
  have habs0 : maxTokenValue ∉ s0.toks.flatten := by
    intro hm
    apply habs
    rw [hpre] at hm
    obtain ⟨l, hl, hml⟩ := List.mem_flatten.mp hm
    exact List.mem_flatten.mpr ⟨l, List.mem_of_mem_take hl, hml⟩
  exact ⟨s0, hs0, genUpTo_sh hz n s0 hs0 habs0, hd, spreadOK_shS hsp, habs0⟩

end PfC16
