import Proofs.C16.Gen
/-!
# C16 — ownership accounting, for every instance index

* every instance's registered ownership is the total length of the ranges of its tokens
  (`own_is_sum`, unless the side condition fired while that instance was placed);
* the registered ownerships of all instances always add up to the whole ring, `2^32`
  (`total_ownership`, unconditional).
Together with the pairwise disjointness of the ranges this is what makes "share of the key space
owned by an instance" = `Inst.own`.
-/
namespace PfC16
open C16

/-! ### sums of integer lists -/

def isum (l : List Int) : Int := l.foldr (· + ·) 0

@[simp] theorem isum_nil : isum [] = 0 := rfl
@[simp] theorem isum_cons (a : Int) (l : List Int) : isum (a :: l) = a + isum l := rfl

theorem isum_append (a b : List Int) : isum (a ++ b) = isum a + isum b := by
  induction a with
  | nil => simp
  | cons x r ih => simp only [List.cons_append, isum_cons, ih]; omega

theorem isum_perm {a b : List Int} (h : a.Perm b) : isum a = isum b := by
  induction h with
  | nil => rfl
  | cons x _ ih => simp only [isum_cons, ih]
  | swap x y l => simp only [isum_cons]; omega
  | trans _ _ ih1 ih2 => exact ih1.trans ih2

def owns (l : List Inst) : List Int := l.map (·.own)

/-! ### every instance's ownership is the sum of its ranges -/

theorem ownSum_node (k : Nat) (l r : Heap TokItem) (t : TokItem) :
    ownSum (.node k l t r) = t.own + ownSum l + ownSum r := by
  unfold ownSum
  simp only [toList_node, List.map_cons, List.map_append, List.sum_cons, List.sum_append]
  omega

theorem ownSum_push (t : TokItem) (h : Heap TokItem) : ownSum (Heap.push tokHi t h) = t.own + ownSum h := by
  unfold ownSum
  rw [((perm_push tokHi t h).map TokItem.own).sum_nat]
  simp

theorem ownSum_merge (a b : Heap TokItem) : ownSum (Heap.merge tokHi a b) = ownSum a + ownSum b := by
  unfold ownSum
  rw [((perm_merge tokHi a b).map TokItem.own).sum_nat]
  simp

/-- donors keep `own = Σ ranges` (no side condition needed: both sides change by the same amount). -/
def DonorsAcc (st : Loop) : Prop := ∀ x ∈ st.instQ.toList ++ st.ignored, x.own = (ownSum x.tq : Int)

theorem donorsAcc_step {i : Nat} {st : Loop} {opt : Nat} {x : Inst} {t : TokItem} {tl tr : Heap TokItem}
    {rest : Heap Inst} {ign : List Inst} (n : Nat) (hI : DonorsAcc st)
    (hp : pick opt (i + 1) st.instQ st.ignored = .ok (x, t, tl, tr, rest, ign)) :
    DonorsAcc (splitStep st x t tl tr rest ign n) := by
  obtain ⟨sk, k, hq, hign, htq, _, _, _⟩ := pick_ok _ _ _ hp
  intro y hy
  simp only [splitStep, List.mem_append] at hy
  rcases hy with hy | hy
  · have hy' := (perm_push instHi _ rest).mem_iff.mp hy
    rcases List.mem_cons.mp hy' with rfl | hy'
    · have hx := hI x (List.mem_append_left _ (hq.mem_iff.mpr (by simp)))
      rw [htq, ownSum_node] at hx
      simp only [ownSum_push, ownSum_merge, TokItem.own] at hx ⊢
      omega
    · exact hI y (List.mem_append_left _ (hq.mem_iff.mpr (by simp [hy'])))
  · rw [hign] at hy
    rcases List.mem_append.mp hy with hy | hy
    · exact hI y (List.mem_append_left _ (hq.mem_iff.mpr (by simp [List.mem_reverse.mp hy])))
    · exact hI y (List.mem_append_right _ hy)

theorem addTokens_donorsAcc {i : Nat} (r : Nat) (st : Loop) (toks : List Nat) (fin : Loop)
    (hI : DonorsAcc st) (h : addTokens i r st = .ok (toks, fin)) : DonorsAcc fin :=
  (addTokens_inv i DonorsAcc (fun _ => True)
    (fun _ _ _ _ _ _ _ _ _ n hI _ hp _ => ⟨donorsAcc_step n hI hp, trivial⟩) r st toks fin hI h).1

/-- the ghost flag is monotone. -/
theorem addTokens_deg_mono {i : Nat} (r : Nat) (st : Loop) (toks : List Nat) (fin : Loop)
    (h : addTokens i r st = .ok (toks, fin)) (hd : fin.degenerate = false) : st.degenerate = false :=
  (addTokens_inv i (fun st' => st'.degenerate = false → st.degenerate = false) (fun _ => True)
    (fun st' _ _ _ _ _ _ _ _ n hI _ _ _ => ⟨fun hd' => hI (by
      simp only [splitStep, Bool.or_eq_false_iff] at hd'; exact hd'.1), trivial⟩)
    r st toks fin (fun h => h) h).1 hd

theorem genUpTo_deg_mono {z : Nat} : ∀ (n : Nat) (s : State), genUpTo z n = .ok s → s.degenerate = false →
    ∀ k, k ≤ n → ∀ s', genUpTo z k = .ok s' → s'.degenerate = false := by
  intro n
  induction n with
  | zero =>
    intro s h hd k hk s' hs'
    have : k = 0 := by omega
    subst this
    rw [h] at hs'; cases hs'; exact hd
  | succ i ih =>
    intro s h hd k hk s' hs'
    by_cases hki : k = i + 1
    · subst hki; rw [h] at hs'; cases hs'; exact hd
    · obtain ⟨s0, h0, h1⟩ := genUpTo_succ h
      obtain ⟨toks, fin, ha, rfl⟩ := addInstance_ok h1
      have hd0 : s0.degenerate = false := addTokens_deg_mono 512 _ toks fin ha hd
      exact ih s0 h0 hd0 k (by omega) s' hs'

/-- for every instance in the queue: registered ownership = total length of its ranges. -/
theorem own_is_sum {z : Nat} (hz : z < 8) : ∀ (n : Nat) (s : State), genUpTo z n = .ok s →
    s.degenerate = false → ∀ x ∈ s.instQ.toList, x.own = (ownSum x.tq : Int) := by
  intro n
  induction n with
  | zero =>
    intro s h _ x hx
    simp only [genUpTo, Except.ok.injEq] at h
    subst h
    simp only [initState, initStateOf, push_nil, toList_node, toList_nil, List.append_nil,
      List.mem_singleton] at hx
    subst hx
    simp only
    -- own is the fold of the item ownerships; the queue holds the same items
    have hperm := foldl_push_perm (withPrev (firstInstanceTokens z)) .nil
    simp only [toList_nil, List.append_nil] at hperm
    unfold ownSum
    rw [(hperm.map TokItem.own).sum_nat]
    generalize withPrev (firstInstanceTokens z) = items
    have : ∀ (l : List TokItem) (a : Int),
        (l.map (fun it => (it.own : Int))).foldl (· + ·) a = a + ((l.map TokItem.own).sum : Nat) := by
      intro l
      induction l with
      | nil => intro a; simp
      | cons b r ih => intro a; simp only [List.map_cons, List.foldl_cons, ih, List.sum_cons]; omega
    rw [this]; omega
  | succ i ih =>
    intro s h hd x hx
    obtain ⟨s0, h0, h1⟩ := genUpTo_succ h
    obtain ⟨toks, fin, ha, rfl⟩ := addInstance_ok h1
    have hd0 : s0.degenerate = false := addTokens_deg_mono 512 _ toks fin ha hd
    have hI := stateInv_genUpTo hz i s0 h0
    have hst0 : loopItems ⟨s0.instQ, [], 0, .nil, s0.degenerate⟩ = instItems s0.instQ.toList := by
      simp [loopItems]
    have hL0 : LoopInv z ⟨s0.instQ, [], 0, .nil, s0.degenerate⟩ := by
      unfold LoopInv; rw [hst0]; exact hI.items
    have hA := addTokens_acc 512 _ toks fin ⟨hL0, fun _ => by simp [ownSum]⟩ ha
    have hD := addTokens_donorsAcc 512 _ toks fin (by
      intro y hy; simp only [List.append_nil] at hy; exact ih s0 h0 hd0 y hy) ha
    have hx' := (newQ_perm (i + 1) fin).mem_iff.mp hx
    rcases List.mem_cons.mp hx' with rfl | hx'
    · exact hA.2 hd
    · exact hD x (by
        rcases List.mem_append.mp hx' with h | h
        · exact List.mem_append_right _ h
        · exact List.mem_append_left _ h)

/-! ### the ownerships add up to the whole ring -/

def loopTotal (st : Loop) : Int := isum (owns (st.instQ.toList ++ st.ignored)) + st.curr

theorem loopTotal_step {i : Nat} {st : Loop} {opt : Nat} {x : Inst} {t : TokItem} {tl tr : Heap TokItem}
    {rest : Heap Inst} {ign : List Inst} (n : Nat)
    (hp : pick opt (i + 1) st.instQ st.ignored = .ok (x, t, tl, tr, rest, ign)) :
    loopTotal (splitStep st x t tl tr rest ign n) = loopTotal st := by
  obtain ⟨sk, k, hq, hign, _, _, _, _⟩ := pick_ok _ _ _ hp
  unfold loopTotal owns
  simp only [splitStep]
  have h1 := isum_perm (((perm_push instHi
      (⟨x.id, x.own - (t.own : Int) + (tokenDistance n t.token : Int),
        Heap.push tokHi ⟨t.token, n⟩ (Heap.merge tokHi tl tr)⟩ : Inst) rest)).map (·.own))
  have h2 := isum_perm (hq.map (·.own))
  have h3 := isum_perm ((List.reverse_perm sk).map (·.own))
  rw [hign]
  simp only [List.map_append, List.map_cons, isum_append, isum_cons] at *
  omega

theorem addTokens_total {i : Nat} (r : Nat) (st : Loop) (toks : List Nat) (fin : Loop)
    (h : addTokens i r st = .ok (toks, fin)) : loopTotal fin = loopTotal st :=
  (addTokens_inv i (fun st' => loopTotal st' = loopTotal st) (fun _ => True)
    (fun _ _ _ _ _ _ _ _ _ n hI _ hp _ => ⟨(loopTotal_step n hp).trans hI, trivial⟩) r st toks fin rfl h).1

/-- last element of `p :: l`. -/
def lastOr : Nat → List Nat → Nat
  | p, [] => p
  | _, t :: r => lastOr t r

theorem getLast?_cons_lastOr (t : Nat) (r : List Nat) : (t :: r).getLast? = some (lastOr t r) := by
  induction r generalizing t with
  | nil => rfl
  | cons a r ih => rw [List.getLast?_cons_cons, ih]; rfl

theorem le_lastOr : ∀ (l : List Nat) (p : Nat), (p :: l).Pairwise (· < ·) → p ≤ lastOr p l
  | [], _, _ => Nat.le_refl _
  | t :: r, p, h => by
    have hpt : p < t := (List.pairwise_cons.mp h).1 t List.mem_cons_self
    have := le_lastOr r t (List.pairwise_cons.mp h).2
    simp only [lastOr]; omega

/-- the ranges between consecutive tokens telescope. -/
theorem sum_withPrevFrom : ∀ (l : List Nat) (p : Nat), (p :: l).Pairwise (· < ·) →
    ((withPrevFrom p l).map TokItem.own).sum = lastOr p l - p
  | [], _, _ => by simp [withPrevFrom, lastOr]
  | t :: r, p, h => by
    have hpt : p < t := (List.pairwise_cons.mp h).1 t List.mem_cons_self
    have htr := (List.pairwise_cons.mp h).2
    have ih := sum_withPrevFrom r t htr
    have hle := le_lastOr r t htr
    simp only [withPrevFrom, List.map_cons, List.sum_cons, ih, lastOr, TokItem.own, tokenDistance, if_pos hpt]
    omega

/-- the first instance owns the whole ring. -/
theorem sum_withPrev {l : List Nat} (hne : l ≠ []) (h : l.Pairwise (· < ·)) (hb : ∀ t ∈ l, t < 4294967296) :
    ((withPrev l).map TokItem.own).sum = 4294967296 := by
  cases l with
  | nil => exact absurd rfl hne
  | cons a r =>
    unfold withPrev
    rw [getLast?_cons_lastOr]
    simp only [withPrevFrom, List.map_cons, List.sum_cons]
    rw [sum_withPrevFrom r a h]
    have hle := le_lastOr r a h
    have hlast : lastOr a r < 4294967296 := by
      have : lastOr a r ∈ a :: r := List.mem_of_getLast? (getLast?_cons_lastOr a r)
      exact hb _ this
    simp only [TokItem.own, tokenDistance, if_neg (show ¬ lastOr a r < a by omega)]
    omega

theorem total_ownership {z : Nat} (hz : z < 8) : ∀ (n : Nat) (s : State), genUpTo z n = .ok s →
    isum (owns s.instQ.toList) = 4294967296 := by
  intro n
  induction n with
  | zero =>
    intro s h
    simp only [genUpTo, Except.ok.injEq] at h
    subst h
    simp only [initState, initStateOf, push_nil, toList_node, toList_nil, List.append_nil, owns,
      List.map_cons, List.map_nil, isum_cons, isum_nil]
    have hne : firstInstanceTokens z ≠ [] := by
      intro e; have := first_length z; rw [e] at this; simp at this
    have hs := sum_withPrev hne (first_sorted hz) (fun t ht => (mem_first hz ht).2)
    generalize withPrev (firstInstanceTokens z) = items at hs
    have : ∀ (l : List TokItem) (a : Int),
        (l.map (fun it => (it.own : Int))).foldl (· + ·) a = a + ((l.map TokItem.own).sum : Nat) := by
      intro l
      induction l with
      | nil => intro a; simp
      | cons b r ih => intro a; simp only [List.map_cons, List.foldl_cons, ih, List.sum_cons]; omega
    rw [this, hs]; omega
  | succ i ih =>
    intro s h
    obtain ⟨s0, h0, h1⟩ := genUpTo_succ h
    obtain ⟨toks, fin, ha, rfl⟩ := addInstance_ok h1
    have ht := addTokens_total 512 _ toks fin ha
    have h0' := ih s0 h0
    have hq := isum_perm ((newQ_perm (i + 1) fin).map (·.own))
    unfold loopTotal owns at ht
    unfold owns at h0' ⊢
    simp only [List.map_append, List.map_cons, isum_append, isum_cons, List.append_nil] at *
    omega

end PfC16
