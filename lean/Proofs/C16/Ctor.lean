import Model.C16Ctor
/-! # C16 — the constructor only hands out the index of a configured zone -/
namespace PfC16
open C16

theorem indexOf_some : ∀ (l : List String) (zone : String) (k : Nat), indexOf zone l = some k →
    l[k]? = some zone
  | [], _, _, h => by simp [indexOf] at h
  | a :: r, zone, k, h => by
    unfold indexOf at h
    split at h
    · rename_i e
      simp only [Option.some.injEq] at h; subst h
      simp only [beq_iff_eq] at e
      simp [e]
    · cases hr : indexOf zone r with
      | none => rw [hr] at h; simp at h
      | some j =>
        rw [hr] at h
        simp only [Option.map_some, Option.some.injEq] at h
        subst h
        simpa using indexOf_some r zone j hr

theorem newGenerator_ok {inst zone : String} {zones : List String} {n k : Nat}
    (h : newGenerator inst zone zones = .ok (n, k)) :
    0 < zones.length ∧ zones.length ≤ maxZonesCount ∧ (sortZones zones)[k]? = some zone ∧ zone ∈ zones ∧
      k < zones.length := by
  unfold newGenerator at h
  split at h
  · cases h
  · rename_i hlen
    cases hf : findZoneID zone (sortZones zones) with
    | error e => rw [hf] at h; cases h
    | ok z =>
      rw [hf] at h
      simp only at h
      cases hp : parseInstanceID inst with
      | error e => rw [hp] at h; cases h
      | ok m =>
        rw [hp] at h
        simp only [Except.ok.injEq, Prod.mk.injEq] at h
        obtain ⟨_, rfl⟩ := h
        unfold findZoneID at hf
        cases hi : indexOf zone (sortZones zones) with
        | none => rw [hi] at hf; cases hf
        | some j =>
          rw [hi] at hf
          simp only [Except.ok.injEq] at hf
          subst hf
          have hget := indexOf_some _ _ _ hi
          have hperm : (sortZones zones).Perm zones := List.mergeSort_perm _ _
          have hmem : zone ∈ sortZones zones := List.mem_of_getElem? hget
          have hlt : j < (sortZones zones).length := by
            rcases Nat.lt_or_ge j (sortZones zones).length with h | h
            · exact h
            · rw [List.getElem?_eq_none h] at hget; cases hget
          rw [hperm.length_eq] at hlt
          exact ⟨by omega, by omega, hget, hperm.mem_iff.mp hmem, hlt⟩

end PfC16
