import Proofs.C16.Table
import Proofs.C16.Block
import Proofs.C16.Tab.All
/-! C16 — kernel evaluation of the reflective checker: zone 0, instances 0..`Tab.N`, every prefix,
cut into blocks between literal generator states (`Proofs/C16/Tab/*`, written by
`bin/c16_gen_blocks.lean` from the MODEL; a wrong literal makes the `decide +kernel` obligation of its
two neighbouring blocks fail, so nothing about the literals is trusted). -/
namespace PfC16
open C16

set_option maxRecDepth 1000000 in
theorem table_zone0 : checkZone0 Tab.N = true :=
  checkZone0_of_run (by decide +kernel) Tab.run_all Tab.absent

end PfC16
