import Proofs.C16.Table
/-! C16 — kernel evaluation of the reflective checker: zone 0, instances 0..6, every prefix. -/
namespace PfC16
open C16

set_option maxRecDepth 1000000 in
theorem table_zone0 : checkZone0 6 = true := by decide +kernel

end PfC16
