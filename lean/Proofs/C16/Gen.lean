import Proofs.C16.Basic
/-!
# C16 — invariants of the spread-minimising generator (section F)
-/
namespace PfC16
open C16

/-! ### F.0 inversion lemmas -/

theorem pick_ok : ∀ (f : Nat) (q : Heap Inst) (ign : List Inst) {opt : Nat} {x : Inst} {t : TokItem}
    {tl tr : Heap TokItem} {rest : Heap Inst} {ign' : List Inst},
    pick opt f q ign = .ok (x, t, tl, tr, rest, ign') →
    ∃ skipped k, q.toList.Perm (skipped ++ x :: rest.toList) ∧ ign' = skipped.reverse ++ ign ∧
      x.tq = .node k tl t tr ∧ opt < t.own ∧ (opt : Int) < x.own ∧
      (IsHeap instHi q → IsHeap instHi rest) := by
  intro f
  induction f with
  | zero => intro q ign opt x t tl tr rest ign' h; simp [pick] at h
  | succ f ih =>
    intro q ign opt x t tl tr rest ign' h
    cases q with
    | nil => simp [pick] at h
    | node kq l y r =>
      unfold pick at h
      split at h
      · cases h
      · rename_i hown
        split at h
        · cases h
        · rename_i k tl0 t0 tr0 htq
          have hm := perm_merge instHi l r
          split at h
          · obtain ⟨sk, k', h1, h2, h3, h4, h5, h6⟩ := ih _ (y :: ign) h
            refine ⟨y :: sk, k', ?_, ?_, h3, h4, h5, ?_⟩
            · rw [toList_node, List.cons_append]
              exact List.Perm.cons _ (hm.symm.trans h1)
            · rw [h2]; simp
            · intro hh; exact h6 (isHeap_merge instHi_sw _ _ hh.2.2.1 hh.2.2.2)
          · rename_i ht
            simp only [Except.ok.injEq, Prod.mk.injEq] at h
            obtain ⟨rfl, rfl, rfl, rfl, rfl, rfl⟩ := h
            refine ⟨[], k, ?_, rfl, htq, by omega, by omega, ?_⟩
            · rw [toList_node, List.nil_append]
              exact List.Perm.cons _ hm.symm
            · intro hh; exact isHeap_merge instHi_sw _ _ hh.2.2.1 hh.2.2.2

theorem addTokens_succ {i r : Nat} {st : Loop} {toks : List Nat} {fin : Loop}
    (h : addTokens i (r + 1) st = .ok (toks, fin)) :
    ∃ opt x t tl tr rest ign n toks',
      optimalTokenOwnership i st.curr (r + 1) = .ok opt ∧
      pick opt (i + 1) st.instQ st.ignored = .ok (x, t, tl, tr, rest, ign) ∧
      calcNewToken t opt = .ok n ∧
      addTokens i r (splitStep st x t tl tr rest ign n) = .ok (toks', fin) ∧ toks = n :: toks' := by
  unfold addTokens at h
  cases ho : optimalTokenOwnership i st.curr (r + 1) with
  | error e => rw [ho] at h; cases h
  | ok opt =>
    rw [ho] at h
    simp only [bind, Except.bind] at h
    cases hp : pick opt (i + 1) st.instQ st.ignored with
    | error e => rw [hp] at h; cases h
    | ok res =>
      obtain ⟨x, t, tl, tr, rest, ign⟩ := res
      rw [hp] at h
      simp only at h
      cases hc : calcNewToken t opt with
      | error e => rw [hc] at h; cases h
      | ok n =>
        rw [hc] at h
        simp only at h
        cases ha : addTokens i r (splitStep st x t tl tr rest ign n) with
        | error e => rw [ha] at h; cases h
        | ok res2 =>
          obtain ⟨toks', fin'⟩ := res2
          rw [ha] at h
          simp only [Except.ok.injEq, Prod.mk.injEq] at h
          obtain ⟨rfl, rfl⟩ := h
          exact ⟨opt, x, t, tl, tr, rest, ign, n, toks', rfl, hp, hc, ha, rfl⟩

/-- induction principle for the token loop: an invariant `P` of the loop state preserved by every
step holds at the end; a property `Q` of the tokens produced at a step holds for all outputs. -/
theorem addTokens_inv (i : Nat) (P : Loop → Prop) (Q : Nat → Prop)
    (hstep : ∀ st r opt x t tl tr rest ign n, P st →
      optimalTokenOwnership i st.curr r = .ok opt →
      pick opt (i + 1) st.instQ st.ignored = .ok (x, t, tl, tr, rest, ign) →
      calcNewToken t opt = .ok n → P (splitStep st x t tl tr rest ign n) ∧ Q n) :
    ∀ (r : Nat) (st : Loop) (toks : List Nat) (fin : Loop), P st →
      addTokens i r st = .ok (toks, fin) → P fin ∧ toks.length = r ∧ ∀ t ∈ toks, Q t := by
  intro r
  induction r with
  | zero =>
    intro st toks fin hP h
    simp only [addTokens, Except.ok.injEq, Prod.mk.injEq] at h
    obtain ⟨rfl, rfl⟩ := h
    exact ⟨hP, rfl, by simp⟩
  | succ r ih =>
    intro st toks fin hP h
    obtain ⟨opt, x, t, tl, tr, rest, ign, n, toks', ho, hp, hc, ha, rfl⟩ := addTokens_succ h
    obtain ⟨hP', hQ⟩ := hstep st (r + 1) opt x t tl tr rest ign n hP ho hp hc
    obtain ⟨h1, h2, h3⟩ := ih _ _ _ hP' ha
    refine ⟨h1, by simp [h2], ?_⟩
    intro t' ht'
    rcases List.mem_cons.mp ht' with rfl | ht'
    · exact hQ
    · exact h3 t' ht'

/-! ### F.1 the items held by the queues, as a multiset -/

def instItems (l : List Inst) : List TokItem := l.flatMap (fun x => x.tq.toList)

@[simp] theorem instItems_nil : instItems [] = [] := rfl
@[simp] theorem instItems_cons (x : Inst) (l : List Inst) :
    instItems (x :: l) = x.tq.toList ++ instItems l := by simp [instItems]
@[simp] theorem instItems_append (a b : List Inst) :
    instItems (a ++ b) = instItems a ++ instItems b := by simp [instItems]

theorem instItems_perm {a b : List Inst} (h : a.Perm b) : (instItems a).Perm (instItems b) :=
  List.Perm.flatMap_right _ h

theorem mem_instItems {it : TokItem} {l : List Inst} : it ∈ instItems l ↔ ∃ x ∈ l, it ∈ x.tq.toList := by
  simp [instItems]

def loopItems (st : Loop) : List TokItem :=
  instItems st.instQ.toList ++ instItems st.ignored ++ st.currTq.toList

/-- one step replaces the split item `t = (prev, token]` by `(prev, n]` and `(n, token]`. -/
theorem step_perm {st : Loop} {opt : Nat} {x : Inst} {t : TokItem} {tl tr : Heap TokItem}
    {rest : Heap Inst} {ign : List Inst} (n : Nat)
    (hp : pick opt (i + 1) st.instQ st.ignored = .ok (x, t, tl, tr, rest, ign)) :
    ∃ R, (loopItems st).Perm (t :: R) ∧
      (loopItems (splitStep st x t tl tr rest ign n)).Perm (⟨n, t.prev⟩ :: ⟨t.token, n⟩ :: R) := by
  obtain ⟨sk, k, hq, hign, htq, _, _, _⟩ := pick_ok _ _ _ hp
  refine ⟨tl.toList ++ tr.toList ++ instItems rest.toList ++ instItems ign ++ st.currTq.toList, ?_, ?_⟩
  · unfold loopItems
    rw [hign]
    have hrev : (instItems sk.reverse).Perm (instItems sk) := instItems_perm (List.reverse_perm sk)
    have hq' := instItems_perm hq
    rw [List.perm_iff_count]
    intro a
    have := hrev.count_eq a
    have := hq'.count_eq a
    simp only [instItems_append, instItems_cons, htq, toList_node, List.count_append, List.count_cons] at *
    omega
  · unfold loopItems splitStep
    simp only
    have h1 := (instItems_perm (perm_push instHi
      (⟨x.id, x.own - (t.own : Int) + (tokenDistance n t.token : Int),
        Heap.push tokHi ⟨t.token, n⟩ (Heap.merge tokHi tl tr)⟩ : Inst) rest))
    have h2 := perm_push tokHi (⟨t.token, n⟩ : TokItem) (Heap.merge tokHi tl tr)
    have h3 := perm_merge tokHi tl tr
    have h4 := perm_push tokHi (⟨n, t.prev⟩ : TokItem) st.currTq
    rw [List.perm_iff_count]
    intro a
    have e1 := h1.count_eq a
    have e2 := h2.count_eq a
    have e3 := h3.count_eq a
    have e4 := h4.count_eq a
    simp only [instItems_cons, List.count_append, List.count_cons] at *
    omega

/-! ### F.2 invariants of the items: congruence, bounds, disjoint ranges -/

/-- both ends of an item's range are `uint32`s congruent to the zone index. -/
def Good (z : Nat) (it : TokItem) : Prop :=
  it.token % 8 = z ∧ it.prev % 8 = z ∧ it.token < 4294967296 ∧ it.prev < 4294967296

/-- `deg` is the ghost flag: as long as it is unset the ranges are pairwise disjoint; once it is
set some token occurs twice. -/
structure ItemsInv (z : Nat) (items : List TokItem) (deg : Bool) : Prop where
  good : ∀ it ∈ items, Good z it
  disj : deg = false → items.Pairwise arcDisj
  dup : deg = true → ¬ (items.map (·.token)).Nodup

theorem ItemsInv.perm {z : Nat} {a b : List TokItem} {deg : Bool} (h : ItemsInv z a deg)
    (p : a.Perm b) : ItemsInv z b deg :=
  ⟨fun it hit => h.good it (p.mem_iff.mpr hit),
   fun hd => (p.pairwise_iff (fun {_ _} h => arcDisj_symm h)).mp (h.disj hd),
   fun hd hn => h.dup hd ((p.map _).nodup_iff.mpr hn)⟩

theorem itemsInv_split {z : Nat} {items items' R : List TokItem} {deg : Bool} {t : TokItem}
    {n opt : Nat} (hI : ItemsInv z items deg) (h1 : items.Perm (t :: R))
    (h2 : items'.Perm (⟨n, t.prev⟩ :: ⟨t.token, n⟩ :: R)) (hc : calcNewToken t opt = .ok n) :
    ItemsInv z items' (deg || n == t.token) ∧ n % 8 = z ∧ n < 4294967296 := by
  have hI1 := hI.perm h1
  have hgt : Good z t := hI1.good t List.mem_cons_self
  obtain ⟨hc1, hc2⟩ := calc_cong hc hgt.2.2.2 hgt.2.2.1
  have harc := calc_inArc hc hgt.2.2.2 hgt.2.2.1
  have hn8 : n % 8 = z := by rw [hc1]; exact hgt.2.1
  refine ⟨ItemsInv.perm ?_ h2.symm, hn8, hc2⟩
  refine ⟨?_, ?_, ?_⟩
  · intro it hit
    simp only [List.mem_cons] at hit
    rcases hit with rfl | rfl | hit
    · exact ⟨hn8, hgt.2.1, hc2, hgt.2.2.2⟩
    · exact ⟨hgt.1, hn8, hgt.2.2.1, hc2⟩
    · exact hI1.good it (List.mem_cons_of_mem _ hit)
  · intro hd
    have hdeg : deg = false := by cases deg <;> simp_all
    have hne : n ≠ t.token := by
      intro e; subst e; cases deg <;> simp at hd
    have hpw := List.pairwise_cons.mp (hI1.disj hdeg)
    obtain ⟨s1, s2, s3⟩ := arc_split harc hne
    rw [List.pairwise_cons, List.pairwise_cons]
    refine ⟨?_, ?_, hpw.2⟩
    · intro b hb
      rcases List.mem_cons.mp hb with rfl | hb
      · exact fun x hx => s3 x hx
      · exact fun x hx => hpw.1 b hb x ⟨s1 x hx.1, hx.2⟩
    · intro b hb
      exact fun x hx => hpw.1 b hb x ⟨s2 x hx.1, hx.2⟩
  · intro hd hn
    simp only [List.map_cons, List.nodup_cons, List.mem_cons] at hn
    by_cases hdeg : deg = true
    · exact hI1.dup hdeg (by simp only [List.map_cons, List.nodup_cons]; exact ⟨hn.2.1, hn.2.2⟩)
    · have : n = t.token := by cases deg <;> simp_all
      exact hn.1 (Or.inl this)

/-- the loop-level invariant. -/
def LoopInv (z : Nat) (st : Loop) : Prop := ItemsInv z (loopItems st) st.degenerate

theorem loopInv_step {z : Nat} {st : Loop} {opt : Nat} {x : Inst} {t : TokItem} {tl tr : Heap TokItem}
    {rest : Heap Inst} {ign : List Inst} {n : Nat} (hI : LoopInv z st)
    (hp : pick opt (i + 1) st.instQ st.ignored = .ok (x, t, tl, tr, rest, ign))
    (hc : calcNewToken t opt = .ok n) :
    LoopInv z (splitStep st x t tl tr rest ign n) ∧ (n % 8 = z ∧ n < 4294967296) := by
  obtain ⟨R, h1, h2⟩ := step_perm n hp
  exact itemsInv_split hI h1 h2 hc

theorem addTokens_loopInv {z i : Nat} : ∀ (r : Nat) (st : Loop) (toks : List Nat) (fin : Loop),
    LoopInv z st → addTokens i r st = .ok (toks, fin) →
    LoopInv z fin ∧ toks.length = r ∧ ∀ t ∈ toks, t % 8 = z ∧ t < 4294967296 :=
  addTokens_inv i (LoopInv z) (fun n => n % 8 = z ∧ n < 4294967296)
    (fun _ _ _ _ _ _ _ _ _ _ hI _ hp hc => loopInv_step hI hp hc)

/-- the tokens produced are exactly the tokens added to the multiset of items. -/
theorem addTokens_tokens {i : Nat} : ∀ (r : Nat) (st : Loop) (toks : List Nat) (fin : Loop),
    addTokens i r st = .ok (toks, fin) →
    ((loopItems fin).map (·.token)).Perm (toks ++ (loopItems st).map (·.token)) := by
  intro r
  induction r with
  | zero =>
    intro st toks fin h
    simp only [addTokens, Except.ok.injEq, Prod.mk.injEq] at h
    obtain ⟨rfl, rfl⟩ := h
    exact List.Perm.refl _
  | succ r ih =>
    intro st toks fin h
    obtain ⟨opt, x, t, tl, tr, rest, ign, n, toks', ho, hp, hc, ha, rfl⟩ := addTokens_succ h
    obtain ⟨R, h1, h2⟩ := step_perm n hp
    have e0 := ih _ _ _ ha
    have e1 := h1.map (·.token)
    have e2 := h2.map (·.token)
    rw [List.perm_iff_count] at *
    intro a
    have := e0 a; have := e1 a; have := e2 a
    simp only [List.map_cons, List.count_append, List.count_cons] at *
    omega

/-! ### F.3 the queues stay well formed (sorted list / heap) -/

structure QInv (st : Loop) : Prop where
  heapQ : IsHeap instHi st.instQ
  heaps : ∀ x ∈ st.instQ.toList ++ st.ignored, IsHeap tokHi x.tq
  curr : IsHeap tokHi st.currTq

theorem qInv_step {i : Nat} {st : Loop} {opt : Nat} {x : Inst} {t : TokItem} {tl tr : Heap TokItem}
    {rest : Heap Inst} {ign : List Inst} (n : Nat) (hI : QInv st)
    (hp : pick opt (i + 1) st.instQ st.ignored = .ok (x, t, tl, tr, rest, ign)) :
    QInv (splitStep st x t tl tr rest ign n) := by
  obtain ⟨sk, k, hq, hign, htq, _, _, hrest⟩ := pick_ok _ _ _ hp
  have hx : IsHeap tokHi x.tq := hI.heaps x (by
    refine List.mem_append_left _ (hq.mem_iff.mpr ?_); simp)
  rw [htq] at hx
  obtain ⟨_, _, hl, hr⟩ := hx
  have hnew : IsHeap tokHi (Heap.push tokHi (⟨t.token, n⟩ : TokItem) (Heap.merge tokHi tl tr)) :=
    isHeap_push tokHi_sw _ _ (isHeap_merge tokHi_sw _ _ hl hr)
  refine ⟨?_, ?_, ?_⟩
  · exact isHeap_push instHi_sw _ _ (hrest hI.heapQ)
  · intro y hy
    simp only [splitStep, List.mem_append] at hy
    rcases hy with hy | hy
    · have hy' := (perm_push instHi _ rest).mem_iff.mp hy
      rcases List.mem_cons.mp hy' with rfl | hy'
      · exact hnew
      · exact hI.heaps y (List.mem_append_left _ (hq.mem_iff.mpr (by simp [hy'])))
    · rw [hign] at hy
      rcases List.mem_append.mp hy with hy | hy
      · exact hI.heaps y (List.mem_append_left _ (hq.mem_iff.mpr (by simp [List.mem_reverse.mp hy])))
      · exact hI.heaps y (List.mem_append_right _ hy)
  · exact isHeap_push tokHi_sw _ _ hI.curr

theorem addTokens_qInv {i : Nat} (r : Nat) (st : Loop) (toks : List Nat) (fin : Loop)
    (hI : QInv st) (h : addTokens i r st = .ok (toks, fin)) : QInv fin :=
  (addTokens_inv i QInv (fun _ => True)
    (fun _ _ _ _ _ _ _ _ _ n hI _ hp _ => ⟨qInv_step n hI hp, trivial⟩) r st toks fin hI h).1

/-! ### F.3b the instance queue holds every instance id exactly once -/

def loopIds (st : Loop) : List Nat := (st.instQ.toList ++ st.ignored).map (·.id)

theorem loopIds_step {st : Loop} {opt : Nat} {x : Inst} {t : TokItem} {tl tr : Heap TokItem}
    {rest : Heap Inst} {ign : List Inst} (n : Nat)
    (hp : pick opt (i + 1) st.instQ st.ignored = .ok (x, t, tl, tr, rest, ign)) :
    (loopIds (splitStep st x t tl tr rest ign n)).Perm (loopIds st) := by
  obtain ⟨sk, k, hq, hign, _, _, _, _⟩ := pick_ok _ _ _ hp
  unfold loopIds splitStep
  simp only
  rw [hign]
  have h1 := (perm_push instHi
      (⟨x.id, x.own - (t.own : Int) + (tokenDistance n t.token : Int),
        Heap.push tokHi ⟨t.token, n⟩ (Heap.merge tokHi tl tr)⟩ : Inst) rest).map (·.id)
  have h2 := (List.reverse_perm sk).map (·.id)
  have h3 := hq.map (·.id)
  rw [List.perm_iff_count] at *
  intro a
  have := h1 a; have := h2 a; have := h3 a
  simp only [List.map_append, List.map_cons, List.count_append, List.count_cons] at *
  omega

theorem addTokens_ids {i : Nat} (L : List Nat) (r : Nat) (st : Loop) (toks : List Nat) (fin : Loop)
    (h0 : (loopIds st).Perm L) (h : addTokens i r st = .ok (toks, fin)) : (loopIds fin).Perm L :=
  (addTokens_inv i (fun st' => (loopIds st').Perm L) (fun _ => True)
    (fun _ _ _ _ _ _ _ _ _ n hI _ hp _ => ⟨(loopIds_step n hp).trans hI, trivial⟩) r st toks fin h0 h).1

/-! ### F.4 the state between two instances -/

structure StateInv (z : Nat) (s : State) : Prop where
  items : ItemsInv z (instItems s.instQ.toList) s.degenerate
  tokens : ((instItems s.instQ.toList).map (·.token)).Perm s.toks.flatten
  lists : ∀ l ∈ s.toks, l.length = 512 ∧ ∀ t ∈ l, t % 8 = z ∧ t < 4294967296
  heapQ : IsHeap instHi s.instQ
  heaps : ∀ x ∈ s.instQ.toList, IsHeap tokHi x.tq

theorem addInstance_ok {i : Nat} {s s' : State} (h : addInstance i s = .ok s') :
    ∃ toks fin, addTokens i 512 ⟨s.instQ, [], 0, .nil, s.degenerate⟩ = .ok (toks, fin) ∧
      s' = { instQ := Heap.push instHi ⟨i, fin.curr, fin.currTq⟩
                (fin.ignored.foldr (fun x q => Heap.push instHi x q) fin.instQ),
             toks := s.toks ++ [toks], degenerate := fin.degenerate } := by
  unfold addInstance at h
  simp only [optimalTokensPerInstance, bind, Except.bind] at h
  cases ha : addTokens i 512 ⟨s.instQ, [], 0, .nil, s.degenerate⟩ with
  | error e => rw [ha] at h; cases h
  | ok res =>
    obtain ⟨toks, fin⟩ := res
    rw [ha] at h
    simp only [Except.ok.injEq] at h
    exact ⟨toks, fin, rfl, h.symm⟩

/-- the instance queue after the pushes at the end of an iteration. -/
theorem newQ_perm (i : Nat) (fin : Loop) :
    (Heap.push instHi (⟨i, fin.curr, fin.currTq⟩ : Inst)
      (fin.ignored.foldr (fun x q => Heap.push instHi x q) fin.instQ)).toList.Perm
      ((⟨i, fin.curr, fin.currTq⟩ : Inst) :: (fin.ignored ++ fin.instQ.toList)) :=
  (perm_push _ _ _).trans (List.Perm.cons _ (perm_foldr_push _ _ _))

theorem stateInv_addInstance {z i : Nat} {s s' : State} (hI : StateInv z s)
    (h : addInstance i s = .ok s') : StateInv z s' := by
  obtain ⟨toks, fin, ha, rfl⟩ := addInstance_ok h
  have hst0 : loopItems ⟨s.instQ, [], 0, .nil, s.degenerate⟩ = instItems s.instQ.toList := by
    simp [loopItems]
  have hL0 : LoopInv z ⟨s.instQ, [], 0, .nil, s.degenerate⟩ := by
    unfold LoopInv; rw [hst0]; exact hI.items
  have hQ0 : QInv ⟨s.instQ, [], 0, .nil, s.degenerate⟩ :=
    ⟨hI.heapQ, by simpa using hI.heaps, trivial⟩
  obtain ⟨hL, hlen, hcong⟩ := addTokens_loopInv 512 _ toks fin hL0 ha
  have hQ := addTokens_qInv 512 _ toks fin hQ0 ha
  have htok := addTokens_tokens 512 _ toks fin ha
  rw [hst0] at htok
  -- the new instance queue holds the same items as the final loop state
  have hq := newQ_perm i fin
  have hitems : (instItems (Heap.push instHi (⟨i, fin.curr, fin.currTq⟩ : Inst)
      (fin.ignored.foldr (fun x q => Heap.push instHi x q) fin.instQ)).toList).Perm (loopItems fin) := by
    refine (instItems_perm hq).trans ?_
    unfold loopItems
    rw [List.perm_iff_count]
    intro a
    simp only [instItems_cons, instItems_append, List.count_append]
    omega
  refine ⟨?_, ?_, ?_, ?_, ?_⟩
  · exact ItemsInv.perm hL hitems.symm
  · refine ((hitems.map (·.token)).trans htok).trans ?_
    have e := hI.tokens
    rw [List.perm_iff_count] at *
    intro a
    have := e a
    simp only [List.flatten_append, List.flatten_cons, List.flatten_nil, List.append_nil, List.count_append] at *
    omega
  · intro l hl
    rcases List.mem_append.mp hl with hl | hl
    · exact hI.lists l hl
    · simp only [List.mem_singleton] at hl
      subst hl
      exact ⟨hlen, hcong⟩
  · exact isHeap_push instHi_sw _ _ (isHeap_foldr_push instHi_sw _ _ hQ.heapQ)
  · intro x hx
    have hx' := hq.mem_iff.mp hx
    rcases List.mem_cons.mp hx' with rfl | hx'
    · exact hQ.curr
    · exact hQ.heaps x (by
        rcases List.mem_append.mp hx' with h | h
        · exact List.mem_append_right _ h
        · exact List.mem_append_left _ h)

/-! ### F.5 the first instance -/

theorem mem_first {z t : Nat} (hz : z < 8) (h : t ∈ firstInstanceTokens z) :
    t % 8 = z ∧ t < 4294967296 := by
  unfold firstInstanceTokens at h
  simp only [totalTokensCount, optimalTokensPerInstance, maxZonesCount, List.mem_map, List.mem_range] at h
  obtain ⟨i, hi, rfl⟩ := h
  omega

theorem first_length (z : Nat) : (firstInstanceTokens z).length = 512 := by
  simp [firstInstanceTokens, optimalTokensPerInstance]

theorem first_sorted {z : Nat} (hz : z < 8) : (firstInstanceTokens z).Pairwise (· < ·) := by
  unfold firstInstanceTokens
  simp only [totalTokensCount, optimalTokensPerInstance, maxZonesCount]
  rw [List.pairwise_map]
  refine List.Pairwise.imp_of_mem ?_ List.pairwise_lt_range
  intro a b ha hb hab
  rw [List.mem_range] at ha hb
  omega

theorem map_token_withPrevFrom : ∀ (l : List Nat) (p : Nat), (withPrevFrom p l).map (·.token) = l
  | [], _ => rfl
  | t :: r, p => by simp [withPrevFrom, map_token_withPrevFrom r t]

theorem mem_withPrevFrom : ∀ (l : List Nat) (p : Nat) (it : TokItem), it ∈ withPrevFrom p l →
    it.token ∈ l ∧ (it.prev = p ∨ it.prev ∈ l)
  | [], _, _, h => by simp [withPrevFrom] at h
  | t :: r, p, it, h => by
    simp only [withPrevFrom, List.mem_cons] at h
    rcases h with rfl | h
    · simp
    · obtain ⟨h1, h2⟩ := mem_withPrevFrom r t it h
      refine ⟨List.mem_cons_of_mem _ h1, Or.inr ?_⟩
      rcases h2 with h2 | h2
      · rw [h2]; exact List.mem_cons_self
      · exact List.mem_cons_of_mem _ h2

theorem withPrevFrom_disj : ∀ (l : List Nat) (p : Nat), (p :: l).Pairwise (· < ·) →
    (withPrevFrom p l).Pairwise arcDisj ∧ ∀ it ∈ withPrevFrom p l, p ≤ it.prev ∧ it.prev < it.token
  | [], _, _ => by simp [withPrevFrom]
  | t :: r, p, h => by
    have hpt : p < t := (List.pairwise_cons.mp h).1 t List.mem_cons_self
    have htr : (t :: r).Pairwise (· < ·) := (List.pairwise_cons.mp h).2
    obtain ⟨ih1, ih2⟩ := withPrevFrom_disj r t htr
    unfold withPrevFrom
    refine ⟨?_, ?_⟩
    · rw [List.pairwise_cons]
      refine ⟨?_, ih1⟩
      intro it hit x hx
      obtain ⟨h1, h2⟩ := ih2 it hit
      unfold inArc at hx
      simp only at hx
      rw [if_pos hpt, if_pos h2] at hx
      omega
    · intro it hit
      rcases List.mem_cons.mp hit with rfl | hit
      · exact ⟨Nat.le_refl _, hpt⟩
      · obtain ⟨h1, h2⟩ := ih2 it hit
        exact ⟨by omega, h2⟩

theorem withPrev_disj {l : List Nat} (h : l.Pairwise (· < ·)) : (withPrev l).Pairwise arcDisj := by
  unfold withPrev
  cases hl : l.getLast? with
  | none => exact List.Pairwise.nil
  | some last =>
    simp only
    obtain ⟨init, rfl⟩ := List.getLast?_eq_some_iff.mp hl
    have hlast : ∀ x ∈ init ++ [last], x ≤ last := by
      intro x hx
      rcases List.mem_append.mp hx with hx | hx
      · exact Nat.le_of_lt ((List.pairwise_append.mp h).2.2 x hx last (by simp))
      · simp only [List.mem_singleton] at hx; omega
    cases hc : init ++ [last] with
    | nil => simp [withPrevFrom]
    | cons a r =>
      rw [hc] at h hlast
      obtain ⟨d1, d2⟩ := withPrevFrom_disj r a h
      unfold withPrevFrom
      rw [List.pairwise_cons]
      refine ⟨?_, d1⟩
      intro it hit x hx
      obtain ⟨h1, h2⟩ := d2 it hit
      have h3 := hlast it.token (List.mem_cons_of_mem _ (mem_withPrevFrom r a it hit).1)
      have h4 := hlast a List.mem_cons_self
      unfold inArc at hx
      simp only at hx
      rw [if_neg (by omega), if_pos h2] at hx
      omega

theorem foldl_push_perm (items : List TokItem) (h0 : Heap TokItem) :
    ((items.foldl (fun q it => Heap.push tokHi it q) h0).toList).Perm (items ++ h0.toList) := by
  induction items generalizing h0 with
  | nil => exact List.Perm.refl _
  | cons a r ih =>
    simp only [List.foldl_cons]
    refine (ih _).trans ?_
    have := perm_push tokHi a h0
    rw [List.perm_iff_count] at *
    intro b
    have := this b
    simp only [List.count_append, List.count_cons] at *
    omega

theorem foldl_push_isHeap (items : List TokItem) (h0 : Heap TokItem) (hh : IsHeap tokHi h0) :
    IsHeap tokHi (items.foldl (fun q it => Heap.push tokHi it q) h0) := by
  induction items generalizing h0 with
  | nil => exact hh
  | cons a r ih => exact ih _ (isHeap_push tokHi_sw a h0 hh)

theorem push_nil {α : Type} (hi : α → α → Bool) (x : α) :
    Heap.push hi x .nil = .node 1 .nil x .nil := rfl

theorem stateInv_initOf {z : Nat} (first : List Nat) (hne : first ≠ [])
    (hgood : ∀ t ∈ first, t % 8 = z ∧ t < 4294967296) (hsorted : first.Pairwise (· < ·))
    (hlen : first.length = 512) : StateInv z (initStateOf first) := by
  have hperm := foldl_push_perm (withPrev first) .nil
  simp only [toList_nil, List.append_nil] at hperm
  have hmem : ∀ it ∈ withPrev first, Good z it := by
    intro it hit
    unfold withPrev at hit
    cases hl : first.getLast? with
    | none => rw [hl] at hit; simp at hit
    | some last =>
      rw [hl] at hit
      simp only at hit
      obtain ⟨h1, h2⟩ := mem_withPrevFrom _ _ it hit
      have hlast : last ∈ first := List.mem_of_getLast? hl
      have hp : it.prev ∈ first := by
        rcases h2 with h2 | h2
        · rw [h2]; exact hlast
        · exact h2
      exact ⟨(hgood _ h1).1, (hgood _ hp).1, (hgood _ h1).2, (hgood _ hp).2⟩
  have htoken : (withPrev first).map (·.token) = first := by
    unfold withPrev
    cases hl : first.getLast? with
    | none => exact absurd (List.getLast?_eq_none_iff.mp hl) hne
    | some last => exact map_token_withPrevFrom _ _
  unfold initStateOf
  simp only [push_nil]
  refine ⟨?_, ?_, ?_, ?_, ?_⟩
  · simp only [toList_node, toList_nil, instItems_cons, instItems_nil, List.append_nil]
    refine ItemsInv.perm ?_ hperm.symm
    exact ⟨hmem, fun _ => withPrev_disj hsorted, fun h => by cases h⟩
  · simp only [toList_node, toList_nil, instItems_cons, instItems_nil, List.append_nil, List.flatten_cons, List.flatten_nil]
    have := hperm.map (·.token)
    rw [htoken] at this
    exact this
  · intro l hl
    simp only [List.mem_singleton] at hl
    subst hl
    exact ⟨hlen, hgood⟩
  · exact ⟨by simp, by simp, trivial, trivial⟩
  · intro x hx
    simp only [toList_node, toList_nil, List.append_nil, List.mem_singleton] at hx
    subst hx
    exact foldl_push_isHeap _ _ trivial

theorem stateInv_init {z : Nat} (hz : z < 8) : StateInv z (initState z) := by
  unfold initState
  refine stateInv_initOf _ ?_ (fun t ht => mem_first hz ht) (first_sorted hz) (first_length z)
  intro h
  have := first_length z
  rw [h] at this
  simp at this

/-! ### F.6 the whole recursion -/

theorem genUpTo_succ {z i : Nat} {s : State} (h : genUpTo z (i + 1) = .ok s) :
    ∃ s0, genUpTo z i = .ok s0 ∧ addInstance (i + 1) s0 = .ok s := by
  unfold genUpTo at h
  cases h0 : genUpTo z i with
  | error e => rw [h0] at h; cases h
  | ok s0 => rw [h0] at h; exact ⟨s0, rfl, h⟩

theorem stateInv_genUpTo {z : Nat} (hz : z < 8) : ∀ (n : Nat) (s : State),
    genUpTo z n = .ok s → StateInv z s := by
  intro n
  induction n with
  | zero =>
    intro s h
    simp only [genUpTo, Except.ok.injEq] at h
    subst h
    exact stateInv_init hz
  | succ i ih =>
    intro s h
    obtain ⟨s0, h0, h1⟩ := genUpTo_succ h
    exact stateInv_addInstance (ih s0 h0) h1

/-- prefix determinism: the state for `n` extends the state for every `k ≤ n`. -/
theorem genUpTo_prefix {z : Nat} : ∀ (n : Nat) (s : State), genUpTo z n = .ok s →
    s.toks.length = n + 1 ∧
    ∀ k, k ≤ n → ∃ s', genUpTo z k = .ok s' ∧ s'.toks = s.toks.take (k + 1) := by
  intro n
  induction n with
  | zero =>
    intro s h
    have h' := h
    simp only [genUpTo, Except.ok.injEq] at h'
    subst h'
    refine ⟨rfl, ?_⟩
    intro k hk
    have : k = 0 := by omega
    subst this
    exact ⟨_, h, by simp [initState, initStateOf]⟩
  | succ i ih =>
    intro s h
    obtain ⟨s0, h0, h1⟩ := genUpTo_succ h
    obtain ⟨toks, fin, _, rfl⟩ := addInstance_ok h1
    obtain ⟨hlen, hpre⟩ := ih s0 h0
    refine ⟨by simp [hlen], ?_⟩
    intro k hk
    by_cases hki : k ≤ i
    · obtain ⟨s', hs', he⟩ := hpre k hki
      refine ⟨s', hs', ?_⟩
      rw [he]
      simp only
      rw [List.take_append_of_le_length (by omega)]
    · have : k = i + 1 := by omega
      subst this
      refine ⟨_, h, ?_⟩
      simp only
      rw [List.take_of_length_le (by simp [hlen])]

/-! ### F.7 the share registered for a new instance -/

theorem dist_split {p e n : Nat} (hp : p < 4294967296) (_he : e < 4294967296) (hn : n < 4294967296)
    (hin : inArc p e n) (hne : n ≠ e) :
    tokenDistance p e = tokenDistance p n + tokenDistance n e := by
  unfold inArc at hin
  unfold tokenDistance
  (repeat' split at *) <;> omega

/-- the range given to the new token is `optimalTokenOwnership` long, or `maxZonesCount` more in
the wrap branch. -/
theorem calc_dist {t : TokItem} {opt n : Nat} (h : calcNewToken t opt = .ok n)
    (hp : t.prev < 4294967296) (ht : t.token < 4294967296) :
    tokenDistance t.prev n = opt ∨ tokenDistance t.prev n = opt + 8 := by
  obtain ⟨h1, h2, h3, h4, h5⟩ := calc_ok h
  subst h5
  unfold TokItem.own tokenDistance at h4
  unfold tokenDistance
  (repeat' split at *) <;> omega

/-- sum of the ownerships of the items of a token queue. -/
def ownSum (h : Heap TokItem) : Nat := (h.toList.map TokItem.own).sum

theorem step_curr {z : Nat} {st : Loop} {opt : Nat} {x : Inst} {t : TokItem} {tl tr : Heap TokItem}
    {rest : Heap Inst} {ign : List Inst} {n : Nat} (hI : LoopInv z st)
    (hp : pick opt (i + 1) st.instQ st.ignored = .ok (x, t, tl, tr, rest, ign))
    (hc : calcNewToken t opt = .ok n)
    (hd : (splitStep st x t tl tr rest ign n).degenerate = false) :
    st.degenerate = false ∧
    ((splitStep st x t tl tr rest ign n).curr = st.curr + (tokenDistance t.prev n : Int)) ∧
    (tokenDistance t.prev n = opt ∨ tokenDistance t.prev n = opt + 8) ∧
    ownSum (splitStep st x t tl tr rest ign n).currTq = tokenDistance t.prev n + ownSum st.currTq := by
  obtain ⟨R, h1, _⟩ := step_perm n hp
  have hg : Good z t := hI.good t (h1.mem_iff.mpr List.mem_cons_self)
  have hdeg : st.degenerate = false ∧ n ≠ t.token := by
    simp only [splitStep, Bool.or_eq_false_iff, beq_eq_false_iff_ne] at hd
    exact ⟨hd.1, hd.2⟩
  obtain ⟨_, hn⟩ := calc_cong hc hg.2.2.2 hg.2.2.1
  have hs := dist_split hg.2.2.2 hg.2.2.1 hn (calc_inArc hc hg.2.2.2 hg.2.2.1) hdeg.2
  refine ⟨hdeg.1, ?_, calc_dist hc hg.2.2.2 hg.2.2.1, ?_⟩
  · simp only [splitStep, TokItem.own]
    omega
  · unfold ownSum
    simp only [splitStep]
    rw [((perm_push tokHi (⟨n, t.prev⟩ : TokItem) st.currTq).map TokItem.own).sum_nat]
    simp [TokItem.own]

/-- the accounting invariant: as long as the side condition has not fired, `currInstanceOwnership`
is the sum of the ranges of the tokens placed so far. -/
def AccInv (z : Nat) (st : Loop) : Prop :=
  LoopInv z st ∧ (st.degenerate = false → st.curr = (ownSum st.currTq : Int))

theorem addTokens_acc {z i : Nat} (r : Nat) (st : Loop) (toks : List Nat) (fin : Loop)
    (hI : AccInv z st) (h : addTokens i r st = .ok (toks, fin)) : AccInv z fin :=
  (addTokens_inv i (AccInv z) (fun _ => True)
    (fun st _ _ _ _ _ _ _ _ n hI _ hp hc => by
      refine ⟨⟨(loopInv_step hI.1 hp hc).1, ?_⟩, trivial⟩
      intro hd
      obtain ⟨h0, h1, _, h3⟩ := step_curr hI.1 hp hc hd
      rw [h1, h3, hI.2 h0]
      omega) r st toks fin hI h).1

/-- after its 512 tokens the new instance `i` has registered `2^32/(i+1)` up to `-7 .. +8`. -/
theorem addTokens_share {z i : Nat} : ∀ (r : Nat) (st : Loop) (toks : List Nat) (fin : Loop),
    LoopInv z st → addTokens i (r + 1) st = .ok (toks, fin) → fin.degenerate = false →
    ((4294967296 / (i + 1) : Nat) : Int) - 7 ≤ fin.curr ∧
    fin.curr ≤ ((4294967296 / (i + 1) : Nat) : Int) + 8 := by
  intro r
  induction r with
  | zero =>
    intro st toks fin hI h hd
    obtain ⟨opt, x, t, tl, tr, rest, ign, n, toks', ho, hp, hc, ha, rfl⟩ := addTokens_succ h
    simp only [addTokens, Except.ok.injEq, Prod.mk.injEq] at ha
    obtain ⟨_, rfl⟩ := ha
    obtain ⟨_, h1, h2, _⟩ := step_curr hI hp hc hd
    unfold optimalTokenOwnership at ho
    dsimp only at ho
    split at ho
    · cases ho
    split at ho
    · cases ho
    split at ho
    · cases ho
    rename_i g1 g2 g3
    simp only [totalTokensCount, maxZonesCount, Except.ok.injEq] at ho g1 g2 g3
    rw [h1]
    omega
  | succ r ih =>
    intro st toks fin hI h hd
    obtain ⟨opt, x, t, tl, tr, rest, ign, n, toks', ho, hp, hc, ha, rfl⟩ := addTokens_succ h
    exact ih _ _ _ (loopInv_step hI hp hc).1 ha hd

/-- the instance queue of the state for `n` holds exactly the instances `0..n`, each once - so the
keys (`instanceID`) in the instance queue are pairwise distinct. -/
theorem ids_genUpTo {z : Nat} : ∀ (n : Nat) (s : State), genUpTo z n = .ok s →
    (s.instQ.toList.map (·.id)).Perm (List.range (n + 1)) := by
  intro n
  induction n with
  | zero =>
    intro s h
    simp only [genUpTo, Except.ok.injEq] at h
    subst h
    simp [initState, initStateOf, push_nil, List.range_succ]
  | succ i ih =>
    intro s h
    obtain ⟨s0, h0, h1⟩ := genUpTo_succ h
    obtain ⟨toks, fin, ha, rfl⟩ := addInstance_ok h1
    have hfin := addTokens_ids (List.range (i + 1)) 512 _ toks fin
      (by simpa [loopIds] using ih s0 h0) ha
    have e1 := (newQ_perm (i + 1) fin).map (·.id)
    rw [List.range_succ (n := i + 1)]
    unfold loopIds at hfin
    rw [List.perm_iff_count] at *
    intro a
    have := e1 a; have := hfin a
    simp only [List.map_append, List.map_cons, List.count_append, List.count_cons, List.count_nil] at *
    omega

/-- the instance added last sits in the queue with a registered ownership within `-7 .. +8` of
`2^32/(n+1)`, which is the sum of the ranges of its 512 tokens. -/
theorem new_instance_share {z i : Nat} (hz : z < 8) {s : State} (h : genUpTo z (i + 1) = .ok s)
    (hd : s.degenerate = false) :
    ∃ x ∈ s.instQ.toList, x.id = i + 1 ∧
      ((4294967296 / (i + 2) : Nat) : Int) - 7 ≤ x.own ∧ x.own ≤ ((4294967296 / (i + 2) : Nat) : Int) + 8 ∧
      x.own = (ownSum x.tq : Int) := by
  obtain ⟨s0, h0, h1⟩ := genUpTo_succ h
  obtain ⟨toks, fin, ha, rfl⟩ := addInstance_ok h1
  have hI := stateInv_genUpTo hz i s0 h0
  have hst0 : loopItems ⟨s0.instQ, [], 0, .nil, s0.degenerate⟩ = instItems s0.instQ.toList := by
    simp [loopItems]
  have hL0 : LoopInv z ⟨s0.instQ, [], 0, .nil, s0.degenerate⟩ := by
    unfold LoopInv; rw [hst0]; exact hI.items
  have hA0 : AccInv z ⟨s0.instQ, [], 0, .nil, s0.degenerate⟩ := ⟨hL0, fun _ => by simp [ownSum]⟩
  have hA := addTokens_acc 512 _ toks fin hA0 ha
  have hS := addTokens_share 511 _ toks fin hL0 ha hd
  refine ⟨⟨i + 1, fin.curr, fin.currTq⟩, (newQ_perm (i + 1) fin).mem_iff.mpr List.mem_cons_self,
    rfl, hS.1, hS.2, hA.2 hd⟩

/-! ### F.8 the recursion bound of `pick` is never reached -/

theorem pick_no_fuel : ∀ (f : Nat) (q : Heap Inst) (ign : List Inst) (opt : Nat),
    q.toList.length < f → pick opt f q ign ≠ .error .fuel := by
  intro f
  induction f with
  | zero => intro q ign opt h; omega
  | succ f ih =>
    intro q ign opt hlen
    cases q with
    | nil => simp [pick]
    | node kq l y r =>
      unfold pick
      split
      · simp
      · split
        · simp
        · split
          · refine ih _ _ _ ?_
            have := (perm_merge instHi l r).length_eq
            simp only [toList_node, List.length_cons, List.length_append] at hlen this ⊢
            omega
          · simp

theorem optimalTokenOwnership_err {i : Nat} {c : Int} {r : Nat} {e : Err}
    (h : optimalTokenOwnership i c r = .error e) : e = .outOfDomain := by
  unfold optimalTokenOwnership at h
  dsimp only at h
  split at h
  · cases h; rfl
  split at h
  · cases h; rfl
  split at h
  · cases h; rfl
  cases h

theorem calcNewToken_err {t : TokItem} {opt : Nat} {e : Err} (h : calcNewToken t opt = .error e) :
    e = .cannotCalc := by
  unfold calcNewToken at h
  split at h
  · cases h; rfl
  split at h
  · cases h; rfl
  split at h
  · cases h; rfl
  dsimp only at h
  split at h <;> cases h

theorem addTokens_no_fuel {i : Nat} : ∀ (r : Nat) (st : Loop), (loopIds st).length = i →
    addTokens i r st ≠ .error .fuel := by
  intro r
  induction r with
  | zero => intro st _; simp [addTokens]
  | succ r ih =>
    intro st hlen h
    unfold addTokens at h
    cases ho : optimalTokenOwnership i st.curr (r + 1) with
    | error e =>
      rw [ho] at h
      simp only [bind, Except.bind, Except.error.injEq] at h
      have := optimalTokenOwnership_err ho
      rw [h] at this; cases this
    | ok opt =>
      rw [ho] at h
      simp only [bind, Except.bind] at h
      cases hp : pick opt (i + 1) st.instQ st.ignored with
      | error e =>
        rw [hp] at h
        simp only [Except.error.injEq] at h
        subst h
        refine pick_no_fuel (i + 1) st.instQ st.ignored opt ?_ hp
        unfold loopIds at hlen
        simp only [List.length_map, List.length_append] at hlen
        omega
      | ok res =>
        obtain ⟨x, t, tl, tr, rest, ign⟩ := res
        rw [hp] at h
        simp only at h
        cases hc : calcNewToken t opt with
        | error e =>
          rw [hc] at h
          simp only [Except.error.injEq] at h
          have := calcNewToken_err hc
          rw [h] at this; cases this
        | ok n =>
          rw [hc] at h
          simp only at h
          cases ha : addTokens i r (splitStep st x t tl tr rest ign n) with
          | error e =>
            rw [ha] at h
            simp only [Except.error.injEq] at h
            subst h
            exact ih _ (by rw [(loopIds_step n hp).length_eq]; exact hlen) ha
          | ok res2 =>
            rw [ha] at h
            cases h

/-- `Err.fuel` is a model artefact that no run produces. -/
theorem genUpTo_no_fuel {z : Nat} : ∀ (n : Nat), genUpTo z n ≠ .error .fuel := by
  intro n
  induction n with
  | zero => simp [genUpTo]
  | succ i ih =>
    intro h
    unfold genUpTo at h
    cases h0 : genUpTo z i with
    | error e =>
      rw [h0] at h
      simp only [bind, Except.bind, Except.error.injEq] at h
      subst h
      exact ih h0
    | ok s0 =>
      rw [h0] at h
      simp only [bind, Except.bind] at h
      unfold addInstance at h
      simp only [optimalTokensPerInstance, bind, Except.bind] at h
      cases ha : addTokens (i + 1) 512 ⟨s0.instQ, [], 0, .nil, s0.degenerate⟩ with
      | error e =>
        rw [ha] at h
        simp only [Except.error.injEq] at h
        subst h
        refine addTokens_no_fuel 512 _ ?_ ha
        have := (ids_genUpTo i s0 h0).length_eq
        simpa [loopIds] using this
      | ok res =>
        rw [ha] at h
        cases h

end PfC16
