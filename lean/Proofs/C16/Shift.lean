import Proofs.C16.Gen
/-!
# C16 — zones are translations of zone 0

The run of the generator for zone `z < 8` is the run for zone 0 with every token shifted by `z`,
step by step (same donors, same ranges, same ownerships), as long as no step of the zone-0 run hits
one of the two corner cases in which `calculateNewToken` treats the zones differently
(`corner`: the new token would be exactly `maxTokenValue`, or the range starts at `maxTokenValue`).
-/
namespace PfC16
open C16

/-! ### mapping a heap -/

def hmap {α β : Type} (f : α → β) : Heap α → Heap β
  | .nil => .nil
  | .node k l x r => .node k (hmap f l) (f x) (hmap f r)

@[simp] theorem hmap_nil {α β : Type} (f : α → β) : hmap f (.nil : Heap α) = .nil := rfl
@[simp] theorem hmap_node {α β : Type} (f : α → β) (k : Nat) (l r : Heap α) (x : α) :
    hmap f (.node k l x r) = .node k (hmap f l) (f x) (hmap f r) := rfl

theorem rank_hmap {α β : Type} (f : α → β) (h : Heap α) : (hmap f h).rank = h.rank := by
  cases h <;> rfl

theorem toList_hmap {α β : Type} (f : α → β) : ∀ (h : Heap α), (hmap f h).toList = h.toList.map f
  | .nil => rfl
  | .node k l x r => by simp [toList_hmap f l, toList_hmap f r]

theorem hmap_mk {α β : Type} (f : α → β) (x : α) (a b : Heap α) :
    hmap f (Heap.mk x a b) = Heap.mk (f x) (hmap f a) (hmap f b) := by
  unfold Heap.mk
  rw [rank_hmap, rank_hmap]
  split <;> rfl

/-- merging commutes with a map that preserves the order on the items present. -/
theorem hmap_mergeAux {α β : Type} (hi : α → α → Bool) (hi' : β → β → Bool) (f : α → β)
    (P : α → Prop) (H : ∀ a b, P a → P b → hi' (f a) (f b) = hi a b)
    (k1 : Nat) (l1 : Heap α) (x1 : α) (r1 : Heap α) (m : Heap α → Heap α) (m' : Heap β → Heap β)
    (hm : ∀ h, (∀ y ∈ h.toList, P y) → m' (hmap f h) = hmap f (m h)) (hx1 : P x1) :
    ∀ (h2 : Heap α), (∀ y ∈ h2.toList, P y) →
      Heap.mergeAux hi' (hmap f (.node k1 l1 x1 r1)) (f x1) (hmap f l1) m' (hmap f h2) =
      hmap f (Heap.mergeAux hi (.node k1 l1 x1 r1) x1 l1 m h2) := by
  intro h2
  induction h2 with
  | nil => intro _; rfl
  | node k2 l2 x2 r2 _ ihr =>
    intro hP
    have hx2 : P x2 := hP x2 (by simp)
    have hr2 : ∀ y ∈ r2.toList, P y := fun y hy => hP y (by simp [hy])
    simp only [hmap_node]
    unfold Heap.mergeAux
    rw [H x2 x1 hx2 hx1]
    split
    · rw [hmap_mk]
      congr 1
      exact ihr hr2
    · rw [hmap_mk]
      congr 1
      exact hm (.node k2 l2 x2 r2) hP

theorem hmap_merge {α β : Type} (hi : α → α → Bool) (hi' : β → β → Bool) (f : α → β)
    (P : α → Prop) (H : ∀ a b, P a → P b → hi' (f a) (f b) = hi a b) :
    ∀ (a b : Heap α), (∀ y ∈ a.toList, P y) → (∀ y ∈ b.toList, P y) →
      Heap.merge hi' (hmap f a) (hmap f b) = hmap f (Heap.merge hi a b) := by
  intro a
  induction a with
  | nil => intro b _ _; rfl
  | node k1 l1 x1 r1 _ ihr =>
    intro b ha hb
    simp only [hmap_node]
    unfold Heap.merge
    exact hmap_mergeAux hi hi' f P H k1 l1 x1 r1 _ _
      (fun h hh => ihr h (fun y hy => ha y (by simp [hy])) hh) (ha x1 (by simp)) b hb

theorem hmap_push {α β : Type} (hi : α → α → Bool) (hi' : β → β → Bool) (f : α → β)
    (P : α → Prop) (H : ∀ a b, P a → P b → hi' (f a) (f b) = hi a b) (x : α) (h : Heap α)
    (hx : P x) (hh : ∀ y ∈ h.toList, P y) :
    Heap.push hi' (f x) (hmap f h) = hmap f (Heap.push hi x h) := by
  unfold Heap.push
  exact hmap_merge hi hi' f P H (.node 1 .nil x .nil) h (by simpa using hx) hh

/-! ### shifting items, instances, states -/

def shT (z : Nat) (t : TokItem) : TokItem := ⟨t.token + z, t.prev + z⟩
def shI (z : Nat) (x : Inst) : Inst := ⟨x.id, x.own, hmap (shT z) x.tq⟩
def shL (z : Nat) (st : Loop) : Loop :=
  ⟨hmap (shI z) st.instQ, st.ignored.map (shI z), st.curr, hmap (shT z) st.currTq, st.degenerate⟩
def shS (z : Nat) (s : State) : State :=
  ⟨hmap (shI z) s.instQ, s.toks.map (fun l => l.map (· + z)), s.degenerate⟩

theorem own_shT {z : Nat} (hz : z < 8) {t : TokItem} (hg : Good 0 t) : (shT z t).own = t.own := by
  obtain ⟨h1, h2, h3, h4⟩ := hg
  unfold shT TokItem.own tokenDistance
  simp only
  split <;> split <;> omega

theorem tokHi_shT {z : Nat} (hz : z < 8) (a b : TokItem) (ha : Good 0 a) (hb : Good 0 b) :
    tokHi (shT z a) (shT z b) = tokHi a b := by
  unfold tokHi
  rw [own_shT hz ha, own_shT hz hb]
  unfold less shT
  simp only [Nat.add_lt_add_iff_right]

theorem instHi_shI (z : Nat) (a b : Inst) : instHi (shI z a) (shI z b) = instHi a b := rfl

/-- the two situations in which `calculateNewToken` does not commute with the shift. -/
def corner (t : TokItem) (opt : Nat) : Bool := (4294967288 - t.prev == opt) || (t.prev == 4294967288)

def calcVal (t : TokItem) (opt : Nat) : Nat :=
  if (4294967288 + 4294967296 - t.prev) % 4294967296 < opt
  then opt - (4294967288 + 4294967296 - t.prev) % 4294967296
  else (t.prev + opt) % 4294967296

/-- `calculateNewToken` as one guarded formula. -/
theorem calc_eq (t : TokItem) (opt : Nat) :
    calcNewToken t opt =
      if 8 ≤ opt ∧ opt % 8 = 0 ∧ t.prev % 8 = t.token % 8 ∧ opt < t.own then .ok (calcVal t opt)
      else .error .cannotCalc := by
  cases h : calcNewToken t opt with
  | ok n =>
    obtain ⟨h1, h2, h3, h4, h5⟩ := calc_ok h
    rw [if_pos ⟨h1, h2, h3, h4⟩, h5]; rfl
  | error e =>
    have he := calcNewToken_err h
    subst he
    rw [if_neg]
    intro ⟨h1, h2, h3, h4⟩
    unfold calcNewToken at h
    split at h
    · rename_i c; simp only [maxZonesCount] at c; omega
    split at h
    · rename_i c; simp only [maxZonesCount] at c; omega
    split at h
    · rename_i c; omega
    dsimp only at h
    split at h <;> cases h

theorem calc_shT {z : Nat} (hz : z < 8) {t : TokItem} (hg : Good 0 t) {opt n : Nat}
    (h : calcNewToken t opt = .ok n) (hc : corner t opt = false) :
    calcNewToken (shT z t) opt = .ok (n + z) := by
  obtain ⟨h1, h2, h3, h4, h5⟩ := calc_ok h
  obtain ⟨g1, g2, g3, g4⟩ := hg
  have ho := own_shT hz ⟨g1, g2, g3, g4⟩
  simp only [corner, Bool.or_eq_false_iff, beq_eq_false_iff_ne, ne_eq] at hc
  have hs : (shT z t).prev = t.prev + z ∧ (shT z t).token = t.token + z := ⟨rfl, rfl⟩
  rw [calc_eq, if_pos ⟨h1, h2, by rw [hs.1, hs.2]; omega, by rw [ho]; exact h4⟩]
  unfold calcVal
  rw [hs.1]
  subst h5
  simp only [Except.ok.injEq]
  split <;> split <;> omega

theorem calc_shT_err {z : Nat} (hz : z < 8) {t : TokItem} (hg : Good 0 t) {opt : Nat} {e : Err}
    (h : calcNewToken t opt = .error e) : calcNewToken (shT z t) opt = .error e := by
  obtain ⟨g1, g2, g3, g4⟩ := hg
  have ho := own_shT hz ⟨g1, g2, g3, g4⟩
  have hs : (shT z t).prev = t.prev + z ∧ (shT z t).token = t.token + z := ⟨rfl, rfl⟩
  rw [calc_eq] at h ⊢
  split at h
  · cases h
  · rename_i c
    rw [if_neg]
    · exact h
    · intro ⟨h1, h2, h3, h4⟩
      exact c ⟨h1, h2, by rw [hs.1, hs.2] at h3; omega, by rw [ho] at h4; exact h4⟩

/-! ### `pick` commutes with the shift -/

/-- every token item held by the instances of a queue / list is a zone-0 item. -/
def GoodL (l : List Inst) : Prop := ∀ x ∈ l, ∀ t ∈ x.tq.toList, Good 0 t

abbrev PickRes := Inst × TokItem × Heap TokItem × Heap TokItem × Heap Inst × List Inst

def shR (z : Nat) (r : PickRes) : PickRes :=
  (shI z r.1, shT z r.2.1, hmap (shT z) r.2.2.1, hmap (shT z) r.2.2.2.1, hmap (shI z) r.2.2.2.2.1,
    r.2.2.2.2.2.map (shI z))

theorem hmap_merge_inst (z : Nat) (a b : Heap Inst) :
    Heap.merge instHi (hmap (shI z) a) (hmap (shI z) b) = hmap (shI z) (Heap.merge instHi a b) :=
  hmap_merge instHi instHi (shI z) (fun _ => True) (fun a b _ _ => instHi_shI z a b) a b
    (fun _ _ => trivial) (fun _ _ => trivial)

theorem hmap_push_inst (z : Nat) (x : Inst) (h : Heap Inst) :
    Heap.push instHi (shI z x) (hmap (shI z) h) = hmap (shI z) (Heap.push instHi x h) :=
  hmap_push instHi instHi (shI z) (fun _ => True) (fun a b _ _ => instHi_shI z a b) x h trivial
    (fun _ _ => trivial)

theorem pick_sh {z : Nat} (hz : z < 8) : ∀ (f : Nat) (q : Heap Inst) (ign : List Inst) (opt : Nat),
    GoodL q.toList →
    pick opt f (hmap (shI z) q) (ign.map (shI z)) = (pick opt f q ign).map (shR z) := by
  intro f
  induction f with
  | zero => intro q ign opt _; rfl
  | succ f ih =>
    intro q ign opt hq
    cases q with
    | nil => rfl
    | node kq l y r =>
      simp only [hmap_node]
      unfold pick
      have hyown : (shI z y).own = y.own := rfl
      rw [hyown]
      by_cases h1 : y.own ≤ (opt : Int)
      · rw [if_pos h1, if_pos h1]; rfl
      · rw [if_neg h1, if_neg h1]
        have hytq : (shI z y).tq = hmap (shT z) y.tq := rfl
        rw [hytq]
        cases htq : y.tq with
        | nil => rfl
        | node kt tl t tr =>
          simp only [hmap_node]
          have hgt : Good 0 t := hq y (by simp) t (by rw [htq]; simp)
          rw [own_shT hz hgt]
          by_cases h2 : t.own ≤ opt
          · rw [if_pos h2, if_pos h2, hmap_merge_inst]
            have := ih (Heap.merge instHi l r) (y :: ign) opt (by
              intro x hx
              have hx' := (perm_merge instHi l r).mem_iff.mp hx
              exact hq x (by simp only [toList_node, List.mem_cons, List.mem_append]; exact Or.inr (List.mem_append.mp hx')))
            simpa using this
          · rw [if_neg h2, if_neg h2, hmap_merge_inst]
            rfl

/-! ### one step and the token loop commute with the shift -/

theorem dist_sh {z a b : Nat} (hz : z < 8) (ha : a % 8 = 0 ∧ a < 4294967296) (hb : b % 8 = 0 ∧ b < 4294967296) :
    tokenDistance (a + z) (b + z) = tokenDistance a b := by
  unfold tokenDistance
  split <;> split <;> omega

theorem splitStep_sh {z : Nat} (hz : z < 8) {st : Loop} {x : Inst} {t : TokItem} {tl tr : Heap TokItem}
    {rest : Heap Inst} {ign : List Inst} {n : Nat} (hgt : Good 0 t) (hgn : n % 8 = 0 ∧ n < 4294967296)
    (hgl : ∀ y ∈ tl.toList, Good 0 y) (hgr : ∀ y ∈ tr.toList, Good 0 y)
    (hgc : ∀ y ∈ st.currTq.toList, Good 0 y) :
    splitStep (shL z st) (shI z x) (shT z t) (hmap (shT z) tl) (hmap (shT z) tr) (hmap (shI z) rest)
      (ign.map (shI z)) (n + z) = shL z (splitStep st x t tl tr rest ign n) := by
  have hH : ∀ a b, Good 0 a → Good 0 b → tokHi (shT z a) (shT z b) = tokHi a b :=
    fun a b ha hb => tokHi_shT hz a b ha hb
  have hd : tokenDistance (n + z) (t.token + z) = tokenDistance n t.token :=
    dist_sh hz hgn ⟨hgt.1, hgt.2.2.1⟩
  have hm := hmap_merge tokHi tokHi (shT z) (Good 0) hH tl tr hgl hgr
  have hgm : ∀ y ∈ (Heap.merge tokHi tl tr).toList, Good 0 y := by
    intro y hy
    rcases List.mem_append.mp ((perm_merge tokHi tl tr).mem_iff.mp hy) with h | h
    · exact hgl y h
    · exact hgr y h
  have hp1 := hmap_push tokHi tokHi (shT z) (Good 0) hH (⟨t.token, n⟩ : TokItem) (Heap.merge tokHi tl tr)
    ⟨hgt.1, hgn.1, hgt.2.2.1, hgn.2⟩ hgm
  have hp2 := hmap_push tokHi tokHi (shT z) (Good 0) hH (⟨n, t.prev⟩ : TokItem) st.currTq
    ⟨hgn.1, hgt.2.1, hgn.2, hgt.2.2.2⟩ hgc
  have hb : (n + z == t.token + z) = (n == t.token) := by
    rw [Bool.eq_iff_iff]; simp only [beq_iff_eq]; omega
  unfold splitStep shL
  simp only [own_shT hz hgt]
  have e1 : (shT z t).token = t.token + z := rfl
  have e2 : (shT z t).prev = t.prev + z := rfl
  have e3 : (shI z x).id = x.id := rfl
  have e4 : (shI z x).own = x.own := rfl
  rw [e1, e2, e3, e4, hd, hb, hm]
  have e5 : (⟨t.token + z, n + z⟩ : TokItem) = shT z ⟨t.token, n⟩ := rfl
  have e6 : (⟨n + z, t.prev + z⟩ : TokItem) = shT z ⟨n, t.prev⟩ := rfl
  rw [e5, e6, hp1, hp2]
  have e7 : (⟨x.id, x.own - (t.own : Int) + (tokenDistance n t.token : Int),
      hmap (shT z) (Heap.push tokHi ⟨t.token, n⟩ (Heap.merge tokHi tl tr))⟩ : Inst) =
      shI z ⟨x.id, x.own - (t.own : Int) + (tokenDistance n t.token : Int),
        Heap.push tokHi ⟨t.token, n⟩ (Heap.merge tokHi tl tr)⟩ := rfl
  rw [e7, hmap_push_inst]

/-- no step of the loop (run in zone 0) hits a corner case of `calculateNewToken`. -/
def cornerFree (i : Nat) : Nat → Loop → Bool
  | 0, _ => true
  | r + 1, st =>
    match optimalTokenOwnership i st.curr (r + 1) with
    | .error _ => true
    | .ok opt =>
      match pick opt (i + 1) st.instQ st.ignored with
      | .error _ => true
      | .ok (x, t, tl, tr, rest, ign) =>
        match calcNewToken t opt with
        | .error _ => true
        | .ok n => !corner t opt && cornerFree i r (splitStep st x t tl tr rest ign n)

def shP (z : Nat) (p : List Nat × Loop) : List Nat × Loop := (p.1.map (· + z), shL z p.2)

theorem goodL_of_loopInv {st : Loop} (hI : LoopInv 0 st) : GoodL st.instQ.toList := by
  intro x hx t ht
  exact hI.good t (by
    unfold loopItems
    exact List.mem_append_left _ (List.mem_append_left _ (mem_instItems.mpr ⟨x, hx, ht⟩)))

theorem addTokens_sh {z i : Nat} (hz : z < 8) : ∀ (r : Nat) (st : Loop), LoopInv 0 st →
    cornerFree i r st = true →
    addTokens i r (shL z st) = (addTokens i r st).map (shP z) := by
  intro r
  induction r with
  | zero => intro st _ _; rfl
  | succ r ih =>
    intro st hI hcf
    unfold cornerFree at hcf
    unfold addTokens
    have ec : (shL z st).curr = st.curr := rfl
    have eq : (shL z st).instQ = hmap (shI z) st.instQ := rfl
    have ei : (shL z st).ignored = st.ignored.map (shI z) := rfl
    rw [ec, eq, ei]
    cases ho : optimalTokenOwnership i st.curr (r + 1) with
    | error e => rfl
    | ok opt =>
      rw [ho] at hcf
      simp only [bind, Except.bind] at hcf ⊢
      rw [pick_sh hz (i + 1) st.instQ st.ignored opt (goodL_of_loopInv hI)]
      cases hp : pick opt (i + 1) st.instQ st.ignored with
      | error e => rfl
      | ok res =>
        obtain ⟨x, t, tl, tr, rest, ign⟩ := res
        rw [hp] at hcf
        simp only at hcf
        simp only [Except.map, shR]
        obtain ⟨R, h1, _⟩ := step_perm 0 hp
        have hgt : Good 0 t := hI.good t (h1.mem_iff.mpr List.mem_cons_self)
        cases hc : calcNewToken t opt with
        | error e => rw [calc_shT_err hz hgt hc]
        | ok n =>
          rw [hc] at hcf
          simp only [Bool.and_eq_true, Bool.not_eq_true'] at hcf
          rw [calc_shT hz hgt hc hcf.1]
          simp only
          obtain ⟨hI', hn8, hnb⟩ := loopInv_step hI hp hc
          obtain ⟨sk, k, hq, hign, htq, _, _, _⟩ := pick_ok _ _ _ hp
          have hx : x ∈ st.instQ.toList := hq.mem_iff.mpr (by simp)
          have hgx := goodL_of_loopInv hI x hx
          rw [htq] at hgx
          have hgc : ∀ y ∈ st.currTq.toList, Good 0 y := fun y hy =>
            hI.good y (by unfold loopItems; exact List.mem_append_right _ hy)
          rw [splitStep_sh hz hgt ⟨hn8, hnb⟩ (fun y hy => hgx y (by simp [hy]))
            (fun y hy => hgx y (by simp [hy])) hgc]
          rw [ih _ hI' hcf.2]
          cases addTokens i r (splitStep st x t tl tr rest ign n) with
          | error e => rfl
          | ok p => rfl

/-! ### a corner case leaves a trace: the token `maxTokenValue = 2^32 - 8` -/

/-- every `prev` is the token of some item. -/
def PrevSub (items : List TokItem) : Prop := ∀ it ∈ items, it.prev ∈ items.map (·.token)

theorem prevSub_perm {a b : List TokItem} (h : PrevSub a) (p : a.Perm b) : PrevSub b := by
  intro it hit
  exact (p.map (·.token)).mem_iff.mp (h it (p.mem_iff.mpr hit))

theorem prevSub_split {items items' R : List TokItem} {t : TokItem} {n : Nat} (h : PrevSub items)
    (h1 : items.Perm (t :: R)) (h2 : items'.Perm (⟨n, t.prev⟩ :: ⟨t.token, n⟩ :: R)) :
    PrevSub items' ∧ ∀ x ∈ items.map (·.token), x ∈ items'.map (·.token) := by
  have hsub : ∀ x ∈ items.map (·.token), x ∈ items'.map (·.token) := by
    intro x hx
    have hx' := (h1.map (·.token)).mem_iff.mp hx
    refine (h2.map (·.token)).mem_iff.mpr ?_
    simp only [List.map_cons, List.mem_cons] at hx' ⊢
    rcases hx' with rfl | hx'
    · exact Or.inr (Or.inl rfl)
    · exact Or.inr (Or.inr hx')
  refine ⟨?_, hsub⟩
  refine prevSub_perm ?_ h2.symm
  have hn : n ∈ (⟨n, t.prev⟩ :: ⟨t.token, n⟩ :: R : List TokItem).map (·.token) := by simp
  have hmono : ∀ x ∈ (t :: R).map (·.token), x ∈ (⟨n, t.prev⟩ :: ⟨t.token, n⟩ :: R : List TokItem).map (·.token) := by
    intro x hx
    simp only [List.map_cons, List.mem_cons] at hx ⊢
    rcases hx with rfl | hx
    · exact Or.inr (Or.inl rfl)
    · exact Or.inr (Or.inr hx)
  have h' := prevSub_perm h h1
  intro it hit
  simp only [List.mem_cons] at hit
  rcases hit with rfl | rfl | hit
  · exact hmono _ (h' t List.mem_cons_self)
  · exact hn
  · exact hmono _ (h' it (List.mem_cons_of_mem _ hit))

theorem cornerFree_of_absent {i : Nat} : ∀ (r : Nat) (st : Loop) (toks : List Nat) (fin : Loop),
    LoopInv 0 st → PrevSub (loopItems st) → addTokens i r st = .ok (toks, fin) →
    4294967288 ∉ (loopItems fin).map (·.token) → cornerFree i r st = true := by
  intro r
  induction r with
  | zero => intro _ _ _ _ _ _ _; rfl
  | succ r ih =>
    intro st toks fin hI hP h habs
    obtain ⟨opt, x, t, tl, tr, rest, ign, n, toks', ho, hp, hc, ha, rfl⟩ := addTokens_succ h
    unfold cornerFree
    rw [ho]; simp only; rw [hp]; simp only; rw [hc]; simp only
    obtain ⟨R, h1, h2⟩ := step_perm n hp
    obtain ⟨hP', hmono⟩ := prevSub_split hP h1 h2
    obtain ⟨hI', _, _⟩ := loopInv_step hI hp hc
    have hfin := addTokens_tokens r _ toks' fin ha
    have hsub' : ∀ v ∈ (loopItems (splitStep st x t tl tr rest ign n)).map (·.token),
        v ∈ (loopItems fin).map (·.token) := fun v hv =>
      hfin.mem_iff.mpr (List.mem_append_right _ hv)
    rw [Bool.and_eq_true, Bool.not_eq_true']
    refine ⟨?_, ih _ toks' fin hI' hP' ha habs⟩
    cases hcor : corner t opt
    · rfl
    · exfalso
      simp only [corner, Bool.or_eq_true, beq_iff_eq] at hcor
      have hgt : Good 0 t := hI.good t (h1.mem_iff.mpr List.mem_cons_self)
      rcases hcor with hcor | hcor
      · -- the new token is maxTokenValue
        obtain ⟨c1, c2, c3, c4, c5⟩ := calc_ok hc
        obtain ⟨g1, g2, g3, g4⟩ := hgt
        have hn : n = 4294967288 := by
          subst c5
          split <;> omega
        have : n ∈ (loopItems (splitStep st x t tl tr rest ign n)).map (·.token) :=
          (h2.map (·.token)).mem_iff.mpr (by simp)
        exact habs (hn ▸ hsub' n this)
      · -- the range starts at maxTokenValue, which is therefore a token
        have : t.prev ∈ (loopItems st).map (·.token) := hP t (h1.mem_iff.mpr List.mem_cons_self)
        exact habs (hcor ▸ hsub' _ (hmono _ this))

/-! ### the outer loop -/

theorem foldr_push_sh (z : Nat) (l : List Inst) (q : Heap Inst) :
    (l.map (shI z)).foldr (fun x q => Heap.push instHi x q) (hmap (shI z) q) =
      hmap (shI z) (l.foldr (fun x q => Heap.push instHi x q) q) := by
  induction l with
  | nil => rfl
  | cons a r ih => simp only [List.map_cons, List.foldr_cons, ih, hmap_push_inst]

theorem addInstance_sh {z i : Nat} (hz : z < 8) {s : State} (hI : StateInv 0 s)
    (hcf : cornerFree i 512 ⟨s.instQ, [], 0, .nil, s.degenerate⟩ = true) :
    addInstance i (shS z s) = (addInstance i s).map (shS z) := by
  have hst0 : loopItems ⟨s.instQ, [], 0, .nil, s.degenerate⟩ = instItems s.instQ.toList := by
    simp [loopItems]
  have hL0 : LoopInv 0 ⟨s.instQ, [], 0, .nil, s.degenerate⟩ := by
    unfold LoopInv; rw [hst0]; exact hI.items
  have e0 : (⟨(shS z s).instQ, [], 0, .nil, (shS z s).degenerate⟩ : Loop) =
      shL z ⟨s.instQ, [], 0, .nil, s.degenerate⟩ := rfl
  unfold addInstance
  simp only [optimalTokensPerInstance]
  rw [e0, addTokens_sh hz 512 _ hL0 hcf]
  cases addTokens i 512 ⟨s.instQ, [], 0, .nil, s.degenerate⟩ with
  | error e => rfl
  | ok p =>
    obtain ⟨toks, fin⟩ := p
    simp only [Except.map, shP, bind, Except.bind, shS, Except.ok.injEq]
    have e1 : (shL z fin).ignored = fin.ignored.map (shI z) := rfl
    have e2 : (shL z fin).instQ = hmap (shI z) fin.instQ := rfl
    have e3 : (⟨i, (shL z fin).curr, (shL z fin).currTq⟩ : Inst) = shI z ⟨i, fin.curr, fin.currTq⟩ := rfl
    rw [e1, e2, e3, foldr_push_sh, hmap_push_inst]
    simp [shL]

/-- the items of the state after an iteration are those of the final loop state. -/
theorem addInstance_items {i : Nat} {s s' : State} (h : addInstance i s = .ok s') :
    ∃ toks fin, addTokens i 512 ⟨s.instQ, [], 0, .nil, s.degenerate⟩ = .ok (toks, fin) ∧
      (instItems s'.instQ.toList).Perm (loopItems fin) ∧ s'.toks = s.toks ++ [toks] := by
  obtain ⟨toks, fin, ha, rfl⟩ := addInstance_ok h
  refine ⟨toks, fin, ha, ?_, rfl⟩
  refine (instItems_perm (newQ_perm i fin)).trans ?_
  unfold loopItems
  rw [List.perm_iff_count]
  intro a
  simp only [instItems_cons, instItems_append, List.count_append]
  omega

theorem prevs_withPrevFrom : ∀ (l : List Nat) (p : Nat) (it : TokItem), it ∈ withPrevFrom p l →
    it.prev = p ∨ it.prev ∈ l
  | [], _, _, h => by simp [withPrevFrom] at h
  | t :: r, p, it, h => by
    simp only [withPrevFrom, List.mem_cons] at h
    rcases h with rfl | h
    · exact Or.inl rfl
    · rcases prevs_withPrevFrom r t it h with h | h
      · exact Or.inr (by rw [h]; exact List.mem_cons_self)
      · exact Or.inr (List.mem_cons_of_mem _ h)

theorem prevSub_genUpTo : ∀ (n : Nat) (s : State), genUpTo 0 n = .ok s →
    PrevSub (instItems s.instQ.toList) := by
  intro n
  induction n with
  | zero =>
    intro s h
    simp only [genUpTo, Except.ok.injEq] at h
    subst h
    simp only [initState, initStateOf, push_nil, toList_node, toList_nil, List.append_nil,
      instItems_cons, instItems_nil]
    have hperm := foldl_push_perm (withPrev (firstInstanceTokens 0)) .nil
    simp only [toList_nil, List.append_nil] at hperm
    refine prevSub_perm ?_ hperm.symm
    generalize firstInstanceTokens 0 = first
    intro it hit
    unfold withPrev at hit ⊢
    cases hl : first.getLast? with
    | none => rw [hl] at hit; simp at hit
    | some last =>
      rw [hl] at hit
      simp only at hit ⊢
      rw [map_token_withPrevFrom]
      rcases prevs_withPrevFrom _ _ it hit with h | h
      · rw [h]; exact List.mem_of_getLast? hl
      · exact h
  | succ i ih =>
    intro s h
    obtain ⟨s0, h0, h1⟩ := genUpTo_succ h
    obtain ⟨toks, fin, ha, hperm, _⟩ := addInstance_items h1
    refine prevSub_perm ?_ hperm.symm
    have hP0 : PrevSub (loopItems ⟨s0.instQ, [], 0, .nil, s0.degenerate⟩) := by
      have : loopItems ⟨s0.instQ, [], 0, .nil, s0.degenerate⟩ = instItems s0.instQ.toList := by
        simp [loopItems]
      rw [this]; exact ih s0 h0
    exact (addTokens_inv (i + 1) (fun st => PrevSub (loopItems st)) (fun _ => True)
      (fun st _ _ _ _ _ _ _ _ n hP _ hp _ => by
        obtain ⟨R, h1, h2⟩ := step_perm n hp
        exact ⟨(prevSub_split hP h1 h2).1, trivial⟩) 512 _ toks fin hP0 ha).1

/-! ### the first instance -/

theorem first_sh {z : Nat} (hz : z < 8) : firstInstanceTokens z = (firstInstanceTokens 0).map (· + z) := by
  unfold firstInstanceTokens
  simp only [totalTokensCount, optimalTokensPerInstance, maxZonesCount, List.map_map]
  apply List.map_congr_left
  intro i hi
  rw [List.mem_range] at hi
  simp only [Function.comp]
  omega

theorem withPrevFrom_sh (z : Nat) : ∀ (l : List Nat) (p : Nat),
    withPrevFrom (p + z) (l.map (· + z)) = (withPrevFrom p l).map (shT z)
  | [], _ => rfl
  | t :: r, p => by simp [withPrevFrom, withPrevFrom_sh z r t, shT]

theorem withPrev_sh (z : Nat) (l : List Nat) : withPrev (l.map (· + z)) = (withPrev l).map (shT z) := by
  unfold withPrev
  rw [List.getLast?_map]
  cases l.getLast? with
  | none => rfl
  | some last => exact withPrevFrom_sh z l last

theorem foldl_push_sh {z : Nat} (hz : z < 8) : ∀ (items : List TokItem) (h0 : Heap TokItem),
    (∀ y ∈ items, Good 0 y) → (∀ y ∈ h0.toList, Good 0 y) →
    (items.map (shT z)).foldl (fun q it => Heap.push tokHi it q) (hmap (shT z) h0) =
      hmap (shT z) (items.foldl (fun q it => Heap.push tokHi it q) h0) := by
  intro items
  induction items with
  | nil => intro _ _ _; rfl
  | cons a r ih =>
    intro h0 hg hh
    simp only [List.map_cons, List.foldl_cons]
    rw [hmap_push tokHi tokHi (shT z) (Good 0) (fun a b ha hb => tokHi_shT hz a b ha hb) a h0
      (hg a List.mem_cons_self) hh]
    refine ih _ (fun y hy => hg y (List.mem_cons_of_mem _ hy)) ?_
    intro y hy
    rcases List.mem_cons.mp ((perm_push tokHi a h0).mem_iff.mp hy) with rfl | hy
    · exact hg _ List.mem_cons_self
    · exact hh y hy

theorem initStateOf_sh {z : Nat} (hz : z < 8) (first : List Nat)
    (hg : ∀ y ∈ withPrev first, Good 0 y) :
    initStateOf (first.map (· + z)) = shS z (initStateOf first) := by
  unfold initStateOf shS
  simp only [withPrev_sh, push_nil, hmap_node, hmap_nil, List.map_cons, List.map_nil]
  have h1 := foldl_push_sh hz (withPrev first) .nil hg (by simp)
  simp only [hmap_nil] at h1
  have h2 : ((withPrev first).map (shT z)).map (fun it => (it.own : Int)) =
      (withPrev first).map (fun it => (it.own : Int)) := by
    rw [List.map_map]
    apply List.map_congr_left
    intro it hit
    simp only [Function.comp, own_shT hz (hg it hit)]
  rw [h1, h2]
  rfl

theorem initState_sh {z : Nat} (hz : z < 8) : initState z = shS z (initState 0) := by
  unfold initState
  rw [first_sh hz]
  refine initStateOf_sh hz _ ?_
  have := (stateInv_init (z := 0) (by omega)).items.good
  intro y hy
  refine this y ?_
  simp only [initState, initStateOf, push_nil, toList_node, toList_nil, List.append_nil,
    instItems_cons, instItems_nil]
  exact (foldl_push_perm _ .nil).mem_iff.mpr (by simpa using hy)

/-! ### the whole run -/

theorem genUpTo_sh {z : Nat} (hz : z < 8) : ∀ (n : Nat) (s : State), genUpTo 0 n = .ok s →
    4294967288 ∉ s.toks.flatten → genUpTo z n = .ok (shS z s) := by
  intro n
  induction n with
  | zero =>
    intro s h _
    simp only [genUpTo, Except.ok.injEq] at h ⊢
    subst h
    exact initState_sh hz
  | succ i ih =>
    intro s h habs
    obtain ⟨s0, h0, h1⟩ := genUpTo_succ h
    obtain ⟨toks, fin, ha, hperm, htoks⟩ := addInstance_items h1
    have hI0 := stateInv_genUpTo (z := 0) (by omega) i s0 h0
    have hI := stateInv_genUpTo (z := 0) (by omega) (i + 1) s h
    have habs0 : 4294967288 ∉ s0.toks.flatten := by
      intro hm; apply habs; rw [htoks]; simp only [List.flatten_append, List.mem_append]; exact Or.inl hm
    have hz0 := ih s0 h0 habs0
    have hst0 : loopItems ⟨s0.instQ, [], 0, .nil, s0.degenerate⟩ = instItems s0.instQ.toList := by
      simp [loopItems]
    have hL0 : LoopInv 0 ⟨s0.instQ, [], 0, .nil, s0.degenerate⟩ := by
      unfold LoopInv; rw [hst0]; exact hI0.items
    have hcf : cornerFree (i + 1) 512 ⟨s0.instQ, [], 0, .nil, s0.degenerate⟩ = true := by
      refine cornerFree_of_absent 512 _ toks fin hL0 (by rw [hst0]; exact prevSub_genUpTo i s0 h0) ha ?_
      intro hm
      apply habs
      exact hI.tokens.mem_iff.mp ((hperm.map (·.token)).mem_iff.mpr hm)
    unfold genUpTo
    rw [hz0]
    simp only [bind, Except.bind]
    rw [addInstance_sh hz hI0 hcf, h1]
    rfl

end PfC16
