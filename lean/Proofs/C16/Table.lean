import Model.C16
/-!
# C16 — reflective checker for the finite part of the property

`checkZone0 N` runs the MODEL's generator (`initState`, `addInstance`) for instances `0..N` of zone
0 and checks after every instance (= for every prefix) that the side condition of
`calculateNewToken` has not fired (`State.degenerate = false`) and that the registered ownerships of
all instances present are within one percent of each other, and finally that the token
`maxTokenValue` was never generated. `checkZone0_sound` turns `checkZone0 N = true` - which the
kernel evaluates by `decide +kernel` in `Proofs/C16/T0.lean` - into a statement quantified over
every `n ≤ N`; `Proofs/C16/TableSound.lean` extends it to all 8 zones by the translation theorem
`genUpTo_sh` (so only zone 0 has to be evaluated).
-/
namespace PfC16
open C16

/-- every instance's registered share is at least 99 % of every other instance's. -/
def SpreadOK (s : State) : Prop :=
  ∀ x ∈ s.instQ.toList, ∀ y ∈ s.instQ.toList, 99 * x.own ≤ 100 * y.own

def maxOf (a : Int) (l : List Int) : Int := l.foldl (fun m v => if m < v then v else m) a
def minOf (a : Int) (l : List Int) : Int := l.foldl (fun m v => if v < m then v else m) a

theorem le_maxOf : ∀ (l : List Int) (a : Int), a ≤ maxOf a l ∧ ∀ v ∈ l, v ≤ maxOf a l := by
  intro l
  induction l with
  | nil => intro a; exact ⟨Int.le_refl _, by simp⟩
  | cons b r ih =>
    intro a
    have e : maxOf a (b :: r) = maxOf (if a < b then b else a) r := rfl
    rw [e]
    obtain ⟨h1, h2⟩ := ih (if a < b then b else a)
    by_cases hab : a < b
    · rw [if_pos hab] at h1 h2 ⊢
      refine ⟨by omega, ?_⟩
      intro v hv
      rcases List.mem_cons.mp hv with rfl | hv
      · exact h1
      · exact h2 v hv
    · rw [if_neg hab] at h1 h2 ⊢
      refine ⟨h1, ?_⟩
      intro v hv
      rcases List.mem_cons.mp hv with rfl | hv
      · omega
      · exact h2 v hv

theorem minOf_le : ∀ (l : List Int) (a : Int), minOf a l ≤ a ∧ ∀ v ∈ l, minOf a l ≤ v := by
  intro l
  induction l with
  | nil => intro a; exact ⟨Int.le_refl _, by simp⟩
  | cons b r ih =>
    intro a
    have e : minOf a (b :: r) = minOf (if b < a then b else a) r := rfl
    rw [e]
    obtain ⟨h1, h2⟩ := ih (if b < a then b else a)
    by_cases hab : b < a
    · rw [if_pos hab] at h1 h2 ⊢
      refine ⟨by omega, ?_⟩
      intro v hv
      rcases List.mem_cons.mp hv with rfl | hv
      · exact h1
      · exact h2 v hv
    · rw [if_neg hab] at h1 h2 ⊢
      refine ⟨h1, ?_⟩
      intro v hv
      rcases List.mem_cons.mp hv with rfl | hv
      · omega
      · exact h2 v hv

/-- executable form of `SpreadOK`: 99 * max ≤ 100 * min. -/
def spreadOKb (s : State) : Bool :=
  match s.instQ.toList.map (·.own) with
  | [] => true
  | a :: r => decide (99 * maxOf a r ≤ 100 * minOf a r)

theorem spreadOKb_sound {s : State} (h : spreadOKb s = true) : SpreadOK s := by
  unfold spreadOKb at h
  intro x hx y hy
  have hx' : x.own ∈ s.instQ.toList.map (·.own) := List.mem_map_of_mem hx
  have hy' : y.own ∈ s.instQ.toList.map (·.own) := List.mem_map_of_mem hy
  cases hl : s.instQ.toList.map (·.own) with
  | nil => rw [hl] at hx'; simp at hx'
  | cons a r =>
    rw [hl] at h hx' hy'
    simp only [decide_eq_true_eq] at h
    obtain ⟨m1, m2⟩ := le_maxOf r a
    obtain ⟨n1, n2⟩ := minOf_le r a
    have hxm : x.own ≤ maxOf a r := by
      rcases List.mem_cons.mp hx' with e | e
      · rw [e]; exact m1
      · exact m2 _ e
    have hyn : minOf a r ≤ y.own := by
      rcases List.mem_cons.mp hy' with e | e
      · rw [e]; exact n1
      · exact n2 _ e
    omega

/-- `c` more instances after instance `i` (state `s`), checking every intermediate state; returns
the final state. -/
def runChecked : Nat → Nat → State → Option State
  | 0, _, s => some s
  | c + 1, i, s =>
    match addInstance (i + 1) s with
    | .ok s' => if !s'.degenerate && spreadOKb s' then runChecked c (i + 1) s' else none
    | .error _ => none

/-- the token `maxTokenValue = 2^32 - 8`: its absence from the zone-0 run means that no step hit a
corner case of `calculateNewToken`, so every zone is a translation of zone 0 (`genUpTo_sh`). -/
def maxTokenValue : Nat := 4294967288

/-- the checker: zone 0, instances `0..N`, every prefix; and `maxTokenValue` never generated. -/
def checkZone0 (N : Nat) : Bool :=
  !(initState 0).degenerate && spreadOKb (initState 0) &&
    match runChecked N 0 (initState 0) with
    | some s => !(s.toks.flatten.contains maxTokenValue)
    | none => false

theorem runChecked_sound {z : Nat} : ∀ (c i : Nat) (s fin : State), runChecked c i s = some fin →
    genUpTo z i = .ok s →
    genUpTo z (i + c) = .ok fin ∧
    ∀ n, i < n → n ≤ i + c → ∃ s', genUpTo z n = .ok s' ∧ s'.degenerate = false ∧ SpreadOK s' := by
  intro c
  induction c with
  | zero =>
    intro i s fin h hs
    simp only [runChecked, Option.some.injEq] at h
    subst h
    exact ⟨hs, fun n h1 h2 => by omega⟩
  | succ c ih =>
    intro i s fin h hs
    unfold runChecked at h
    cases ha : addInstance (i + 1) s with
    | error e => rw [ha] at h; cases h
    | ok s' =>
      rw [ha] at h
      simp only at h
      split at h
      · rename_i hc
        simp only [Bool.and_eq_true, Bool.not_eq_true'] at hc
        have hs' : genUpTo z (i + 1) = .ok s' := by
          unfold genUpTo; rw [hs]; exact ha
        obtain ⟨h1, h2⟩ := ih (i + 1) s' fin h hs'
        refine ⟨by rw [show i + (c + 1) = i + 1 + c by omega]; exact h1, ?_⟩
        intro n hn1 hn2
        by_cases hn : n = i + 1
        · subst hn; exact ⟨s', hs', hc.1, spreadOKb_sound hc.2⟩
        · exact h2 n (by omega) (by omega)
      · cases h

/-- what a successful run of the checker means for zone 0. -/
theorem checkZone0_sound {N : Nat} (h : checkZone0 N = true) :
    (∃ fin, genUpTo 0 N = .ok fin ∧ maxTokenValue ∉ fin.toks.flatten) ∧
    ∀ n, n ≤ N → ∃ s, genUpTo 0 n = .ok s ∧ s.degenerate = false ∧ SpreadOK s := by
  unfold checkZone0 at h
  simp only [Bool.and_eq_true, Bool.not_eq_true'] at h
  obtain ⟨⟨h0, h1⟩, h2⟩ := h
  cases hr : runChecked N 0 (initState 0) with
  | none => rw [hr] at h2; cases h2
  | some fin =>
    rw [hr] at h2
    simp only [Bool.not_eq_true'] at h2
    obtain ⟨g1, g2⟩ := runChecked_sound (z := 0) N 0 (initState 0) fin hr rfl
    refine ⟨⟨fin, by simpa using g1, ?_⟩, ?_⟩
    · intro hm
      rw [List.contains_iff_mem.mpr hm] at h2
      cases h2
    · intro n hn
      cases n with
      | zero => exact ⟨initState 0, rfl, h0, spreadOKb_sound h1⟩
      | succ n => exact g2 (n + 1) (by omega) (by omega)

end PfC16
