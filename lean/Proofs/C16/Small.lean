import Model.C16
/-!
# C16 — small finite instances evaluated by the kernel (`decide +kernel`)

Concrete runs of the model used as non-vacuity witnesses in `Props/C16.lean`, and the statement
"the side condition of `calculateNewToken` does not fire" for the first instances of three zones.
(The table for ids 0..2000 is *not* proved in Lean; it is executed and cross-checked, see the judge.)
-/
namespace PfC16
open C16

set_option maxRecDepth 100000 in
theorem small_z0 : (genUpTo 0 1).map (·.degenerate) = .ok false := by decide +kernel

set_option maxRecDepth 100000 in
theorem small_z3 : (genUpTo 3 1).map (·.degenerate) = .ok false := by decide +kernel

set_option maxRecDepth 100000 in
theorem small_z7 : (genUpTo 7 1).map (·.degenerate) = .ok false := by decide +kernel

end PfC16
