import Proofs.C16.Table
/-!
# C16 — the finite table in blocks

The kernel evaluation of `checkZone0 N` in one piece costs about 17 s per instance and its memory
grows with the work done (the kernel keeps every intermediate term: about 1 GB per minute). Here the
run is cut into blocks of a few instances: block `i → j` is the statement
`runChecked (j - i) i S_i = some S_j` where `S_i`, `S_j` are the generator states after instance
`i`, `j` written out as literals (`Proofs/C16/Tab/S<i>.lean`, produced by `bin/c16_gen_blocks.lean`
by running the MODEL; nothing is trusted about them: a wrong literal makes the `decide +kernel` of
its two blocks fail). Blocks are separate modules, so they are checked in parallel and each starts
with an empty kernel cache. `runChecked_append` glues them.
-/
namespace PfC16
open C16

deriving instance DecidableEq for State

theorem runChecked_append : ∀ (c : Nat) {c' i j cc : Nat} {s m f : State},
    runChecked c i s = some m → runChecked c' j m = some f → j = i + c → cc = c + c' →
    runChecked cc i s = some f := by
  intro c
  induction c with
  | zero =>
    intro c' i j cc s m f h1 h2 hj hcc
    simp only [runChecked, Option.some.injEq] at h1
    subst h1
    have : j = i := by omega
    subst this
    have : cc = c' := by omega
    subst this
    exact h2
  | succ c ih =>
    intro c' i j cc s m f h1 h2 hj hcc
    have hcc' : cc = (c + c') + 1 := by omega
    subst hcc'
    unfold runChecked at h1 ⊢
    cases ha : addInstance (i + 1) s with
    | error e => rw [ha] at h1; cases h1
    | ok s' =>
      rw [ha] at h1
      simp only at h1 ⊢
      split at h1
      · rename_i hc
        rw [if_pos hc]
        exact ih h1 h2 (by omega) rfl
      · cases h1

/-- the checker's verdict from a glued run. -/
theorem checkZone0_of_run {N : Nat} {fin : State}
    (h0 : (!(initState 0).degenerate && spreadOKb (initState 0)) = true)
    (hr : runChecked N 0 (initState 0) = some fin)
    (ha : fin.toks.flatten.contains maxTokenValue = false) : checkZone0 N = true := by
  unfold checkZone0
  rw [h0, hr]
  simp only [ha, Bool.not_false, Bool.and_self]

end PfC16
