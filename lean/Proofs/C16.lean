import Proofs.C16.Basic
import Proofs.C16.Gen
import Proofs.C16.Acc
import Proofs.C16.Partition
import Proofs.C16.Table
import Proofs.C16.Shift
import Proofs.C16.TableSound
import Proofs.C16.T0
import Proofs.C16.Total
import Proofs.C16.Ctor
/-!
# C16 — the property-level statements proved from the lemmas of `Proofs/C16/*`
-/
namespace PfC16
open C16

/-! ### the Go `Less` -/

theorem less_irrefl (o : Int) (k : Nat) : less o k o k = false := by
  rw [less_false_iff]; omega

theorem less_asymm {oi oj : Int} {ki kj : Nat} (h : less oi ki oj kj = true) : less oj kj oi ki = false := by
  rw [less_iff] at h; rw [less_false_iff]; omega

theorem less_trans {a b c : Int} {ka kb kc : Nat} (h1 : less a ka b kb = true) (h2 : less b kb c kc = true) :
    less a ka c kc = true := by
  rw [less_iff] at *; omega

theorem less_total {a b : Int} {ka kb : Nat} (h : ka ≠ kb) :
    less a ka b kb = true ∨ less b kb a ka = true := by
  rw [less_iff, less_iff]; omega

/-- two maxima of a queue agree on ownership and key. -/
theorem less_max_unique {a b : Int} {ka kb : Nat} (h1 : less a ka b kb = false) (h2 : less b kb a ka = false) :
    a = b ∧ ka = kb := by
  rw [less_false_iff] at *; omega

theorem nodup_flatten' {L : List (List Nat)} (h : L.flatten.Nodup) :
    (∀ l ∈ L, l.Nodup) ∧ L.Pairwise (fun l1 l2 => ∀ x ∈ l1, ∀ y ∈ l2, x ≠ y) :=
  List.pairwise_flatten.mp h

/-! ### reachable states -/

theorem tokens_ok {n z : Nat} {m : List (List Nat)} (h : tokensByInstanceID n z = .ok m) :
    ∃ s, genUpTo z n = .ok s ∧ s.toks = m := by
  unfold tokensByInstanceID at h
  cases hs : genUpTo z n with
  | error e => rw [hs] at h; cases h
  | ok s => rw [hs] at h; simp only [Except.map, Except.ok.injEq] at h; exact ⟨s, rfl, h⟩

theorem zone_congruence {n z : Nat} (hz : z < 8) {m : List (List Nat)}
    (h : tokensByInstanceID n z = .ok m) :
    m.length = n + 1 ∧ ∀ l ∈ m, l.length = 512 ∧ ∀ t ∈ l, t % 8 = z ∧ t < 4294967296 := by
  obtain ⟨s, hs, rfl⟩ := tokens_ok h
  exact ⟨(genUpTo_prefix n s hs).1, (stateInv_genUpTo hz n s hs).lists⟩

theorem zones_disjoint {n1 n2 z1 z2 : Nat} (hz1 : z1 < 8) (hz2 : z2 < 8) (hne : z1 ≠ z2)
    {m1 m2 : List (List Nat)} (h1 : tokensByInstanceID n1 z1 = .ok m1)
    (h2 : tokensByInstanceID n2 z2 = .ok m2) :
    ∀ l1 ∈ m1, ∀ l2 ∈ m2, ∀ t ∈ l1, t ∉ l2 := by
  intro l1 hl1 l2 hl2 t ht1 ht2
  have a := ((zone_congruence hz1 h1).2 l1 hl1).2 t ht1
  have b := ((zone_congruence hz2 h2).2 l2 hl2).2 t ht2
  omega

theorem prefix_determinism {n k z : Nat} (hk : k ≤ n) {m : List (List Nat)}
    (h : tokensByInstanceID n z = .ok m) :
    tokensByInstanceID k z = .ok (m.take (k + 1)) := by
  obtain ⟨s, hs, rfl⟩ := tokens_ok h
  obtain ⟨s', hs', he⟩ := (genUpTo_prefix n s hs).2 k hk
  unfold tokensByInstanceID
  rw [hs']
  simp [Except.map, he]

theorem tokens_length {n z : Nat} {m : List (List Nat)} (h : tokensByInstanceID n z = .ok m) :
    m.length = n + 1 := by
  obtain ⟨s, hs, rfl⟩ := tokens_ok h
  exact (genUpTo_prefix n s hs).1

theorem all_tokens_agree {n k z : Nat} (hk : k ≤ n) {m : List (List Nat)}
    (h : tokensByInstanceID n z = .ok m) :
    generateAllTokens k z = .ok (sortTokens (m.getD k [])) := by
  unfold generateAllTokens
  rw [prefix_determinism hk h]
  simp only [Except.map, Except.ok.injEq]
  congr 1
  simp only [List.getD_eq_getElem?_getD]
  rw [List.getElem?_take_of_lt (by omega)]

theorem instances_disjoint_iff {n z : Nat} (hz : z < 8) {s : State} (h : genUpTo z n = .ok s) :
    s.toks.flatten.Nodup ↔ s.degenerate = false := by
  have hI := stateInv_genUpTo hz n s h
  constructor
  · intro hn
    cases hd : s.degenerate
    · rfl
    · exact absurd (hI.tokens.nodup_iff.mpr hn) (hI.items.dup hd)
  · intro hd
    have hp := hI.items.disj hd
    have hn : ((instItems s.instQ.toList).map (·.token)).Nodup := by
      rw [List.nodup_iff_pairwise_ne, List.pairwise_map]
      refine hp.imp ?_
      intro a b hab he
      exact hab a.token ⟨inArc_self _ _, by rw [he]; exact inArc_self _ _⟩
    exact hI.tokens.nodup_iff.mp hn

theorem queues_wellformed {n z : Nat} (hz : z < 8) {s : State} (h : genUpTo z n = .ok s) :
    IsHeap instHi s.instQ ∧ ∀ x ∈ s.instQ.toList, IsHeap tokHi x.tq :=
  ⟨(stateInv_genUpTo hz n s h).heapQ, (stateInv_genUpTo hz n s h).heaps⟩

/-! ### `generateAllTokens`, `GenerateTokens`, partitions -/

theorem allTokens_ok {n z : Nat} {all : List Nat} (h : generateAllTokens n z = .ok all) :
    ∃ m, tokensByInstanceID n z = .ok m ∧ all = sortTokens (m.getD n []) := by
  unfold generateAllTokens at h
  cases hm : tokensByInstanceID n z with
  | error e => rw [hm] at h; cases h
  | ok m => rw [hm] at h; simp only [Except.map, Except.ok.injEq] at h; exact ⟨m, rfl, h.symm⟩

theorem all_tokens_sorted {n z : Nat} {all : List Nat} (h : generateAllTokens n z = .ok all) :
    all.Pairwise (· ≤ ·) := by
  obtain ⟨m, _, rfl⟩ := allTokens_ok h
  exact sortTokens_sorted _

theorem getD_mem {m : List (List Nat)} {n : Nat} (h : n < m.length) : m.getD n [] ∈ m := by
  simp only [List.getD_eq_getElem?_getD, List.getElem?_eq_getElem h, Option.getD_some]
  exact List.getElem_mem h

theorem all_tokens_contract {n z : Nat} (hz : z < 8) {all : List Nat}
    (h : generateAllTokens n z = .ok all) :
    all.length = 512 ∧ all.Pairwise (· ≤ ·) ∧ ∀ t ∈ all, t % 8 = z ∧ t < 4294967296 := by
  obtain ⟨m, hm, rfl⟩ := allTokens_ok h
  obtain ⟨hlen, hl⟩ := zone_congruence hz hm
  have hmem := getD_mem (m := m) (n := n) (by omega)
  obtain ⟨h512, hc⟩ := hl _ hmem
  refine ⟨by rw [(sortTokens_perm _).length_eq]; exact h512, sortTokens_sorted _, ?_⟩
  intro t ht
  exact hc t ((sortTokens_perm _).mem_iff.mp ht)

/-- if the side condition never fired, the sorted tokens are strictly increasing (no duplicates). -/
theorem all_tokens_strict {n z : Nat} (hz : z < 8) {s : State} (hs : genUpTo z n = .ok s)
    (hd : s.degenerate = false) {all : List Nat} (h : generateAllTokens n z = .ok all) :
    all.Pairwise (· < ·) := by
  obtain ⟨m, hm, rfl⟩ := allTokens_ok h
  obtain ⟨s', hs', rfl⟩ := tokens_ok hm
  rw [hs] at hs'; cases hs'
  have hn := (instances_disjoint_iff hz hs).mpr hd
  have hlen := (genUpTo_prefix n s hs).1
  have hmem := getD_mem (m := s.toks) (n := n) (by omega)
  exact sortTokens_strict _ ((nodup_flatten' hn).1 _ hmem)

theorem generateTokens_ok {n z : Nat} {req : Int} {taken ts : List Nat}
    (h : generateTokens n z req taken = .ok ts) :
    ∃ all, generateAllTokens n z = .ok all ∧ 0 ≤ req ∧
      ts = (all.filter (fun t => !taken.contains t)).take req.toNat := by
  unfold generateTokens at h
  cases ha : generateAllTokens n z with
  | error e => rw [ha] at h; cases h
  | ok all =>
    rw [ha] at h
    simp only at h
    split at h
    · cases h
    · simp only [Except.ok.injEq] at h
      exact ⟨all, rfl, by omega, by rw [← h, pickFree_eq]⟩

theorem generateTokens_total {n z : Nat} {req : Int} (taken : List Nat) {all : List Nat}
    (ha : generateAllTokens n z = .ok all) (hr : 0 ≤ req) :
    ∃ ts, generateTokens n z req taken = .ok ts := by
  unfold generateTokens
  rw [ha]
  simp only
  rw [if_neg (by omega)]
  exact ⟨_, rfl⟩

theorem partition_eq {id : Nat} {ts : List Nat} (hz : (0 : Nat) < 8) (h : partitionTokens id = .ok ts) :
    generateAllTokens id 0 = .ok ts := by
  unfold partitionTokens at h
  obtain ⟨all, ha, _, he⟩ := generateTokens_ok h
  have hlen := (all_tokens_contract hz ha).1
  rw [ha, he]
  congr 1
  have hf : all.filter (fun t => !([] : List Nat).contains t) = all := by
    rw [List.filter_eq_self]; intro a _; simp
  rw [hf]
  simp only [optimalTokensPerInstance]
  rw [List.take_of_length_le (by simp [hlen])]

theorem partitions_disjoint {i j : Nat} (hij : i < j) {s : State} (hs : genUpTo 0 j = .ok s)
    (hd : s.degenerate = false) {a b : List Nat} (ha : partitionTokens i = .ok a)
    (hb : partitionTokens j = .ok b) : ∀ t ∈ a, t ∉ b := by
  have hz : (0 : Nat) < 8 := by omega
  have hm : tokensByInstanceID j 0 = .ok s.toks := by
    unfold tokensByInstanceID; rw [hs]; rfl
  have ea := all_tokens_agree (Nat.le_of_lt hij) hm
  have eb := all_tokens_agree (Nat.le_refl j) hm
  rw [partition_eq hz ha] at ea
  rw [partition_eq hz hb] at eb
  simp only [Except.ok.injEq] at ea eb
  subst ea eb
  have hn := (instances_disjoint_iff hz hs).mpr hd
  have hlen := (genUpTo_prefix j s hs).1
  intro t hta htb
  have hta' := (sortTokens_perm _).mem_iff.mp hta
  have htb' := (sortTokens_perm _).mem_iff.mp htb
  have hpw := (nodup_flatten' hn).2
  simp only [List.getD_eq_getElem?_getD] at hta' htb'
  rw [List.getElem?_eq_getElem (by omega), Option.getD_some] at hta' htb'
  have := List.pairwise_iff_getElem.mp hpw i j (by omega) (by omega) hij
  exact this t hta' t htb' rfl

/-- under the side condition the ranges `(prev, token]` of all items are pairwise disjoint; in
particular no range contains the token of another item: `prev` is the ring predecessor. -/
theorem ranges_exclusive {n z : Nat} (hz : z < 8) {s : State} (h : genUpTo z n = .ok s)
    (hd : s.degenerate = false) :
    (instItems s.instQ.toList).Pairwise (fun a b =>
      arcDisj a b ∧ ¬ inArc a.prev a.token b.token ∧ ¬ inArc b.prev b.token a.token) := by
  refine ((stateInv_genUpTo hz n s h).items.disj hd).imp ?_
  intro a b hab
  exact ⟨hab, fun hx => hab b.token ⟨hx, inArc_self _ _⟩, fun hx => hab a.token ⟨inArc_self _ _, hx⟩⟩

/-! ### the finite table (kernel-evaluated in `Proofs/C16/T*.lean`) -/

/-- number of the last instance covered by the kernel-evaluated table. -/
def tableN : Nat := 16

theorem finite_table {z n : Nat} (hz : z < 8) (hn : n ≤ tableN) :
    ∃ s, genUpTo z n = .ok s ∧ s.degenerate = false ∧ SpreadOK s := by
  obtain ⟨s0, _, hs, hd, hsp, _⟩ := all_zones_of_zone0 table_zone0 hz hn
  exact ⟨shS z s0, hs, hd, hsp⟩

/-- the kernel-checked part of the zone-0 run never generates `maxTokenValue`, hence every zone's
tokens for ids `0..tableN` are the zone-0 tokens shifted by the zone index. -/
theorem finite_table_shift {z n : Nat} (hz : z < 8) (hn : n ≤ tableN) :
    ∃ m0, tokensByInstanceID n 0 = .ok m0 ∧
      tokensByInstanceID n z = .ok (m0.map (fun l => l.map (· + z))) := by
  obtain ⟨s0, h0, hs, _, _, _⟩ := all_zones_of_zone0 table_zone0 hz hn
  refine ⟨s0.toks, ?_, ?_⟩
  · unfold tokensByInstanceID; rw [h0]; rfl
  · unfold tokensByInstanceID; rw [hs]; rfl

/-- zones are translations of zone 0 (all `n`): if the zone-0 run for instance `n` never generates
the token `maxTokenValue = 2^32 - 8`, the run for zone `z < 8` yields the same tokens shifted by `z`. -/
theorem zone_translation {z n : Nat} (hz : z < 8) {m0 : List (List Nat)}
    (h0 : tokensByInstanceID n 0 = .ok m0) (habs : maxTokenValue ∉ m0.flatten) :
    tokensByInstanceID n z = .ok (m0.map (fun l => l.map (· + z))) := by
  obtain ⟨s0, hs0, rfl⟩ := tokens_ok h0
  unfold tokensByInstanceID
  rw [genUpTo_sh hz n s0 hs0 habs]
  rfl

/-- generation is total in the kernel-checked range, with strictly increasing tokens. -/
theorem generation_total_table {z n : Nat} (hz : z < 8) (hn : n ≤ tableN) :
    ∃ all, generateAllTokens n z = .ok all ∧ all.length = 512 ∧ all.Pairwise (· < ·) ∧
      ∀ (requested : Int) (taken : List Nat), 0 ≤ requested →
        ∃ ts, generateTokens n z requested taken = .ok ts := by
  obtain ⟨s, hs, hd, _⟩ := finite_table hz hn
  have ea : generateAllTokens n z = .ok (sortTokens (s.toks.getD n [])) := by
    unfold generateAllTokens tokensByInstanceID; rw [hs]; rfl
  exact ⟨_, ea, (all_tokens_contract hz ea).1, all_tokens_strict hz hs hd ea,
    fun req taken hr => generateTokens_total taken ea hr⟩

theorem small_of_table (z : Nat) (hz : z < 8) : (genUpTo z 1).map (·.degenerate) = .ok false := by
  obtain ⟨s, hs, hd, _⟩ := finite_table (n := 1) hz (by decide)
  rw [hs]; simp [Except.map, hd]

theorem small_z0 : (genUpTo 0 1).map (·.degenerate) = .ok false := small_of_table 0 (by decide)
theorem small_z3 : (genUpTo 3 1).map (·.degenerate) = .ok false := small_of_table 3 (by decide)
theorem small_z7 : (genUpTo 7 1).map (·.degenerate) = .ok false := small_of_table 7 (by decide)

end PfC16
