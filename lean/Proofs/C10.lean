import Proofs.C10.Prep
/-!
# C10 — proofs of the property theorems (statements are repeated in `Props/C10.lean`)

Everything is derived from the invariant `Inv` (parts `InvW InvE InvD InvI InvJ InvP InvT`), which
holds in every state reachable from a well-formed initial state (`WFInit`) by ANY schedule of
atomic events.
-/
namespace PfC10
open C10

theorem inv_of_reach {s0 s : St} (h0 : WFInit s0) (hr : Reach s0 s) : Inv s := inv_reach (inv_init h0) hr

/-! ### consequences of the invariant in one state -/

theorem all_reached_of {s : St} (hi : Inv s) (h : s.pending = 0) (hr : 1 ≤ sumT reached s.items) :
    ∀ (i : Nat) (it : Item), s.items[i]? = some it → it.minSuccess ≤ it.succeeded := by
  intro i it hit
  have hp := hi.d.pend
  have hle := reached_sum_le s
  have hfull : s.items.length ≤ sumT reached s.items := by omega
  have := sumT_full reached s.items (fun a _ => reached_le a) hfull it (List.mem_of_getElem? hit)
  rw [reached_eq] at this
  split at this
  · assumption
  · omega

theorem done_sound' {s : St} (hi : Inv s) (h : 1 ≤ s.nDone) :
    ∀ (i : Nat) (it : Item), s.items[i]? = some it → it.minSuccess ≤ it.succeeded := by
  rcases hi.d.dn with ⟨h1, h2, _⟩ | ⟨_, h2⟩
  · exact all_reached_of hi h1 h2
  · omega

theorem reached_not_doomed {s : St} (hi : Inv s) {i : Nat} {it : Item} (hit : s.items[i]? = some it)
    (hr : it.minSuccess ≤ it.succeeded) : ¬ Doomed s i it := by
  obtain ⟨a1, a2, a3, a4, a5, a6, a7, a8, a9, a10⟩ := hi.i i it hit
  unfold Doomed
  omega

theorem reached_safe {s : St} (hi : Inv s) {i : Nat} {it : Item} (hit : s.items[i]? = some it)
    (hr : it.minSuccess ≤ it.succeeded) :
    it.failedClient ≤ it.maxFailures ∧ it.failedServer ≤ it.maxFailures ∧ 1 ≤ it.remaining := by
  obtain ⟨a1, a2, a3, a4, a5, a6, a7, a8, a9, a10⟩ := hi.i i it hit
  omega

theorem signals_exclusive' {s : St} (hi : Inv s) : s.nDone ≤ 1 ∧ s.nErr ≤ 1 ∧ s.nDone + s.nErr ≤ 1 := by
  have hd : s.nDone ≤ 1 := by rcases hi.d.dn with ⟨_, _, h⟩ | ⟨_, h⟩ <;> omega
  have he : s.nErr ≤ 1 := by have := hi.e.cnt; omega
  refine ⟨hd, he, ?_⟩
  apply Nat.le_of_not_lt
  intro hboth
  have h1 : 1 ≤ s.nDone := by omega
  have h2 : 1 ≤ s.nErr := by omega
  have hf : 1 ≤ s.failed := by have := hi.e.cnt; omega
  obtain ⟨i, it, hit, hdm⟩ := hi.j (by omega)
  exact reached_not_doomed hi hit (done_sound' hi h1 i it hit) hdm

/-- sends never block: a goroutine about to send finds its channel empty -/
theorem sends_enabled' {s : St} (hi : Inv s) {k : Nat} {t : Thread} (hk : s.thr[k]? = some t) :
    (t.st = .sDone → s.done = 0) ∧ (t.st = .eSend → s.errc = none) ∧ (∀ e, t.st = .sSend e → s.errc = none) := by
  have hg := ge_all hk 0
  refine ⟨?_, ?_, ?_⟩
  · intro hst
    have h1 : 1 ≤ sumT sendDC s.thr := by have := hg.2.2.2.2.2.2.2.1; rw [sendDC_eq, hst] at this; exact this
    have := hi.d.ch
    rcases hi.d.dn with ⟨_, _, h⟩ | ⟨_, h⟩ <;> omega
  · intro hst
    have h1 : 1 ≤ sumT sendEC s.thr := by have := hg.2.2.2.2.2.2.1; rw [sendEC_eq, hst] at this; exact this
    have h0 : s.nErr = 0 := by have := hi.e.cnt; omega
    cases hc : s.errc with
    | none => rfl
    | some e => have := hi.e.ch1 (by simp [hc]); omega
  · intro e hst
    have h1 : 1 ≤ sumT sendEC s.thr := by have := hg.2.2.2.2.2.2.1; rw [sendEC_eq, hst] at this; exact this
    have h0 : s.nErr = 0 := by have := hi.e.cnt; omega
    cases hc : s.errc with
    | none => rfl
    | some e => have := hi.e.ch1 (by simp [hc]); omega

theorem all_fin_sums {s : St} (hf : ∀ t ∈ s.thr, t.st = .fin) :
    sumT pendC s.thr = 0 ∧ sumT failC s.thr = 0 ∧ sumT sendEC s.thr = 0 ∧ sumT sendDC s.thr = 0 ∧
    ∀ i, sumT (pend i) s.thr = 0 ∧ sumT (decC i) s.thr = 0 := by
  have z : ∀ (f : Thread → Nat), (∀ t, t.st = .fin → f t = 0) → sumT f s.thr = 0 :=
    fun f hf' => sumT_eq_zero f s.thr (fun t ht => hf' t (hf t ht))
  exact ⟨z _ (fun t ht => by rw [pendC_eq, ht]), z _ (fun t ht => by rw [failC_eq, ht]),
    z _ (fun t ht => by rw [sendEC_eq, ht]), z _ (fun t ht => by rw [sendDC_eq, ht]),
    fun i => ⟨z _ (fun t ht => by rw [pend_eq, ht]), z _ (fun t ht => by rw [decC_eq, ht])⟩⟩

/-- when every goroutine has finished and there is at least one key, exactly one signal was sent;
`done` iff every key reached its quorum, `err` iff some key did not. -/
theorem complete' {s : St} (hi : Inv s) (hf : ∀ t ∈ s.thr, t.st = .fin) (hne : s.items ≠ []) :
    (s.nDone = 1 ∧ s.nErr = 0 ∧ ∀ (i : Nat) (it : Item), s.items[i]? = some it → it.minSuccess ≤ it.succeeded) ∨
    (s.nDone = 0 ∧ s.nErr = 1 ∧ ∃ (i : Nat) (it : Item), s.items[i]? = some it ∧ it.succeeded < it.minSuccess) := by
  obtain ⟨z1, z2, z3, z4, z5⟩ := all_fin_sums hf
  have hex := signals_exclusive' hi
  by_cases hall : ∀ (i : Nat) (it : Item), s.items[i]? = some it → it.minSuccess ≤ it.succeeded
  · left
    have hr : sumT reached s.items = s.items.length := by
      apply sumT_const_one
      intro it hit
      obtain ⟨i, hi'⟩ := List.mem_iff_getElem?.mp hit
      rw [reached_eq, if_pos (hall i it hi')]
    have hlen : 1 ≤ s.items.length := by
      cases hs : s.items with
      | nil => exact absurd hs hne
      | cons a l => simp
    have hp := hi.d.pend
    have hd : s.nDone = 1 := by rcases hi.d.dn with ⟨_, _, h⟩ | ⟨h, _⟩ <;> omega
    exact ⟨hd, by omega, hall⟩
  · right
    have ⟨i, it, hit, hlt⟩ : ∃ (i : Nat) (it : Item), s.items[i]? = some it ∧ it.succeeded < it.minSuccess := by
      apply Classical.byContradiction
      intro hcon
      apply hall
      intro i it hit
      apply Classical.byContradiction
      intro hlt
      exact hcon ⟨i, it, hit, by omega⟩
    obtain ⟨a1, a2, a3, a4, a5, a6, a7, a8, a9, a10⟩ := hi.i i it hit
    have ⟨y1, y2⟩ := z5 i
    have hfl : 1 ≤ s.failed := by omega
    have he : s.nErr = 1 := by have := hi.e.cnt; omega
    exact ⟨by omega, he, i, it, hit, hlt⟩

theorem exists_of_sumT_pos {α} (f : α → Nat) (l : List α) (h : 1 ≤ sumT f l) : ∃ a ∈ l, 1 ≤ f a := by
  induction l with
  | nil => simp at h
  | cons x xs ih =>
    simp only [sumT_cons] at h
    by_cases hx : 1 ≤ f x
    · exact ⟨x, by simp, hx⟩
    · obtain ⟨a, ha, h1⟩ := ih (by omega)
      exact ⟨a, by simp [ha], h1⟩

/-- the goroutine has won `rpcsFailed.Inc() == 1` and is on the straight path (load,) send -/
def sending (t : Thread) : Prop := t.st = .eSend ∨ t.st = .sLoad ∨ ∃ e, t.st = .sSend e

/-- the goroutine is about to execute `rpcsFailed.Inc()` -/
def claiming (t : Thread) : Prop := t.st = .eFailInc ∨ t.st = .sFailInc

/-- as soon as one family's count exceeds the tolerance of a key (or its last replica has been
counted): the signal has been sent, or the winner of `rpcsFailed.Inc() == 1` is on its way to send it,
or nobody has incremented `rpcsFailed` yet and some goroutine is about to (and will then win). -/
theorem early_failure' {s : St} (hi : Inv s) {i : Nat} {it : Item} (hit : s.items[i]? = some it)
    (h : it.maxFailures < it.failedClient ∨ it.maxFailures < it.failedServer ∨ it.remaining ≤ 0) :
    s.nErr = 1 ∨ (∃ t ∈ s.thr, sending t) ∨ (s.failed = 0 ∧ ∃ t ∈ s.thr, claiming t) := by
  obtain ⟨a1, a2, a3, a4, a5, a6, a7, a8, a9, a10⟩ := hi.i i it hit
  have hcl : 1 ≤ s.failed + (sumT failC s.thr : Nat) := by omega
  have hfn := hi.e.fnn
  have hcnt := hi.e.cnt
  by_cases hf : 1 ≤ s.failed
  · by_cases hn : s.nErr = 1
    · exact .inl hn
    · right; left
      obtain ⟨t, ht, h1⟩ := exists_of_sumT_pos sendEC s.thr (by omega)
      refine ⟨t, ht, ?_⟩
      rw [sendEC_eq] at h1
      unfold sending
      cases hs : t.st <;> simp [hs] at h1 ⊢
  · right; right
    refine ⟨by omega, ?_⟩
    obtain ⟨t, ht, h1⟩ := exists_of_sumT_pos failC s.thr (by omega)
    refine ⟨t, ht, ?_⟩
    rw [failC_eq] at h1
    unfold claiming
    cases hs : t.st <;> simp [hs] at h1 ⊢

/-- ... and the converse bookkeeping: at most one goroutine is ever `sending`, and none once the
signal is out. -/
theorem sending_unique' {s : St} (hi : Inv s) : s.nErr + sumT sendEC s.thr ≤ 1 := by
  have := hi.e.cnt
  omega

/-- cleanup: at most once, and only when every goroutine has finished -/
theorem cleanup_after_all' {s : St} (hi : Inv s) :
    s.cleanup ≤ 1 ∧ (s.cleanup = 1 → ∀ t ∈ s.thr, t.st = .fin) ∧ (s.wg = 0 ↔ ∀ t ∈ s.thr, t.st = .fin) := by
  have hw := hi.w.wg
  have key : s.wg = 0 ↔ ∀ t ∈ s.thr, t.st = .fin := by
    constructor
    · intro h0 t ht
      obtain ⟨k, hk⟩ := List.mem_iff_getElem?.mp ht
      have := sumT_ge live s.thr k t hk
      have hl : live t = 0 := by omega
      rw [live_eq] at hl
      cases hs : t.st <;> simp [hs] at hl ⊢
    · intro hf
      have : sumT live s.thr = 0 := sumT_eq_zero live s.thr (fun t ht => by rw [live_eq, hf t ht])
      omega
  exact ⟨hi.w.cl, fun h => key.mp (hi.w.clwg h), key⟩

/-- no goroutine is ever stuck: its next event is enabled -/
theorem no_deadlock' {s : St} (hi : Inv s) {k : Nat} {t : Thread} (hk : s.thr[k]? = some t) (hnf : t.st ≠ .fin) :
    ∃ ev, (ev = .start k ∨ ev = .ret k ∨ ev = .tick k) ∧ (step s ev).isSome = true := by
  obtain ⟨b1, b2, b3⟩ := sends_enabled' hi hk
  have hmem := List.mem_of_getElem? hk
  have hcur : needsItem t.st → ∃ i it, curItem s t = some (i, it) := by
    intro hn
    have hne := hi.s t hmem hn
    cases htd : t.todo with
    | nil => exact absurd htd hne
    | cons i rest =>
      have hlt := hi.t t hmem i (by simp [htd])
      have : s.items[i]? = some s.items[i] := List.getElem?_eq_getElem hlt
      exact ⟨i, s.items[i], by simp [curItem, htd, this]⟩
  cases hs : t.st with
  | idle => exact ⟨.start k, .inl rfl, by simp [step, hk, hs]⟩
  | inCall => exact ⟨.ret k, .inr (.inl rfl), by simp [step, hk, hs]⟩
  | fin => exact absurd hs hnf
  | wgDone => exact ⟨.tick k, .inr (.inr rfl), by simp [step, hk, tickThread, hs]⟩
  | eFailInc => exact ⟨.tick k, .inr (.inr rfl), by simp [step, hk, tickThread, hs]⟩
  | sFailInc => exact ⟨.tick k, .inr (.inr rfl), by simp [step, hk, tickThread, hs]⟩
  | sPend => exact ⟨.tick k, .inr (.inr rfl), by simp [step, hk, tickThread, hs]⟩
  | eSend => exact ⟨.tick k, .inr (.inr rfl), by simp [step, hk, tickThread, hs, b2 hs]⟩
  | sSend e => exact ⟨.tick k, .inr (.inr rfl), by simp [step, hk, tickThread, hs, b3 e hs]⟩
  | sDone => exact ⟨.tick k, .inr (.inr rfl), by simp [step, hk, tickThread, hs, b1 hs]⟩
  | eStore =>
    obtain ⟨i, it, hc⟩ := hcur (by simp [needsItem, hs])
    exact ⟨.tick k, .inr (.inr rfl), by simp [step, hk, tickThread, hs, hc]⟩
  | eInc =>
    obtain ⟨i, it, hc⟩ := hcur (by simp [needsItem, hs])
    refine ⟨.tick k, .inr (.inr rfl), ?_⟩
    simp only [step, hk, tickThread, hs, hc]
    split <;> simp
  | eDec =>
    obtain ⟨i, it, hc⟩ := hcur (by simp [needsItem, hs])
    exact ⟨.tick k, .inr (.inr rfl), by simp [step, hk, tickThread, hs, hc]⟩
  | sInc =>
    obtain ⟨i, it, hc⟩ := hcur (by simp [needsItem, hs])
    exact ⟨.tick k, .inr (.inr rfl), by simp [step, hk, tickThread, hs, hc]⟩
  | sDec =>
    obtain ⟨i, it, hc⟩ := hcur (by simp [needsItem, hs])
    exact ⟨.tick k, .inr (.inr rfl), by simp [step, hk, tickThread, hs, hc]⟩
  | sLoad =>
    obtain ⟨i, it, hc⟩ := hcur (by simp [needsItem, hs])
    exact ⟨.tick k, .inr (.inr rfl), by simp [step, hk, tickThread, hs, hc]⟩

/-! ### the caller's `select` -/

theorem select_enabled' (s : St) (hr : s.ret = none) :
    (1 ≤ s.done → (step s .recvDone).isSome = true) ∧ (s.errc.isSome = true → (step s .recvErr).isSome = true) ∧
    (s.ctx = true → (step s .recvCtx).isSome = true) := by
  refine ⟨?_, ?_, ?_⟩
  · intro h; simp [step, hr, h]
  · intro h
    obtain ⟨e, he⟩ := Option.isSome_iff_exists.mp h
    simp [step, hr, he]
  · intro h; simp [step, hr, h]

theorem recv_needs_signal (s : St) :
    ((step s .recvDone).isSome = true → s.ret = none ∧ 1 ≤ s.done) ∧
    ((step s .recvErr).isSome = true → s.ret = none ∧ s.errc.isSome = true) ∧
    ((step s .recvCtx).isSome = true → s.ret = none ∧ s.ctx = true) := by
  refine ⟨?_, ?_, ?_⟩
  · intro h
    simp only [step] at h
    split at h
    · rename_i hc; exact ⟨by simpa using hc.1, hc.2⟩
    · simp at h
  · intro h
    simp only [step] at h
    split at h
    · rename_i e hr he; exact ⟨hr, by simp [he]⟩
    · simp at h
  · intro h
    simp only [step] at h
    split at h
    · rename_i hc; exact ⟨by simpa using hc.1, hc.2⟩
    · simp at h

/-- once the caller has returned it stays returned with the same value (it returns once) -/
theorem ret_stable' {s s' : St} (h : StepR s s') {r : Ret} (hr : s.ret = some r) : s'.ret = some r := by
  cases h with
  | tick k t s' hk hT => cases hT <;> exact hr
  | start k t hk hs | ret k t hk hs | cleanup hw hc | cancel => exact hr
  | recvDone hr' hd | recvErr e hr' he | recvCtx hr' hc => rw [hr'] at hr; simp at hr

theorem ret_stable_reach {s0 s : St} (h : Reach s0 s) {r : Ret} (hr : s0.ret = some r) : s.ret = some r := by
  induction h with
  | refl => exact hr
  | step a b ev _ hs ih => exact ret_stable' (step_sound hs) ih

/-- at the latest when every goroutine has finished (non-empty key list), the `select` can fire -/
theorem returns_when_all_done' {s : St} (hi : Inv s) (hf : ∀ t ∈ s.thr, t.st = .fin) (hne : s.items ≠ [])
    (hr : s.ret = none) : (step s .recvDone).isSome = true ∨ (step s .recvErr).isSome = true := by
  obtain ⟨e1, e2, _⟩ := select_enabled' s hr
  rcases complete' hi hf hne with ⟨h1, _, _⟩ | ⟨_, h2, _⟩
  · left; apply e1; have := hi.d.ch2 hr; omega
  · right; apply e2; exact hi.e.ch2 hr (by omega)

/-- a value was returned only for a reason: `done` ⇒ every key has its quorum; `err e` ⇒ `e` is an
error some replica returned, and some key can never reach its quorum. -/
theorem ret_sound' {s : St} (hi : Inv s) :
    (s.ret = some .done → ∀ (i : Nat) (it : Item), s.items[i]? = some it → it.minSuccess ≤ it.succeeded) ∧
    (∀ e, s.ret = some (.err e) → (∃ a, e = some a ∧ ReturnedErr s a) ∧
      ∃ (i : Nat) (it : Item), s.items[i]? = some it ∧ Doomed s i it) := by
  refine ⟨fun h => done_sound' hi (by have := hi.d.retd h; omega), ?_⟩
  intro e he
  obtain ⟨h1, h2⟩ := hi.e.ret3 e he
  refine ⟨hi.p.sent e h1, hi.j ?_⟩
  have := hi.e.cnt
  omega

/-! ### empty key list: nothing ever signals (D2) -/

theorem empty_step {s0 s1 : St} {ev : Ev} (h : step s0 ev = some s1) (hev : ev ≠ .cancel)
    (h1 : s0.thr = []) (h2 : s0.done = 0) (h3 : s0.errc = none) (h4 : s0.ctx = false) (h5 : s0.ret = none) :
    s1.thr = [] ∧ s1.done = 0 ∧ s1.errc = none ∧ s1.ctx = false ∧ s1.ret = none := by
  cases ev with
  | start k => simp [step, h1] at h
  | ret k => simp [step, h1] at h
  | tick k => simp [step, h1] at h
  | cancel => exact absurd rfl hev
  | cleanup =>
    simp only [step] at h
    split at h
    · simp at h; subst h; exact ⟨h1, h2, h3, h4, h5⟩
    · simp at h
  | recvDone => simp [step, h2] at h
  | recvErr => simp [step, h3] at h
  | recvCtx => simp [step, h4] at h

theorem empty_hang : ∀ (evs : List Ev) (s0 s : St), s0.thr = [] → s0.done = 0 → s0.errc = none → s0.ctx = false →
    s0.ret = none → run s0 evs = some s → Ev.cancel ∉ evs →
    s.thr = [] ∧ s.done = 0 ∧ s.errc = none ∧ s.ctx = false ∧ s.ret = none := by
  intro evs
  induction evs with
  | nil => intro s0 s h1 h2 h3 h4 h5 hr _; simp [run] at hr; subst hr; exact ⟨h1, h2, h3, h4, h5⟩
  | cons ev rest ih =>
    intro s0 s h1 h2 h3 h4 h5 hr hnc
    simp only [run] at hr
    cases hst : step s0 ev with
    | none => simp [hst] at hr
    | some s1 =>
      simp only [hst] at hr
      obtain ⟨g1, g2, g3, g4, g5⟩ := empty_step hst (fun h => hnc (by simp [h])) h1 h2 h3 h4 h5
      exact ih s1 s g1 g2 g3 g4 g5 hr (fun h => hnc (by simp [h]))

/-! ### termination: every goroutine event strictly decreases a measure -/

def rk : Stage → Nat
  | .eStore => 5 | .eInc => 4 | .eDec => 3 | .eFailInc => 2 | .eSend => 1
  | .sInc => 5 | .sDec => 4 | .sFailInc => 3 | .sLoad => 2 | .sSend _ => 1 | .sPend => 2 | .sDone => 1
  | _ => 0

def mu (t : Thread) : Nat :=
  match t.st with
  | .idle => 6 * t.todo.length + 3
  | .inCall => 6 * t.todo.length + 2
  | .wgDone => 1
  | .fin => 0
  | st => 6 * (t.todo.length - 1) + rk st + 1

theorem mu_eq (t : Thread) : mu t = match t.st with
  | .idle => 6 * t.todo.length + 3
  | .inCall => 6 * t.todo.length + 2
  | .wgDone => 1
  | .fin => 0
  | st => 6 * (t.todo.length - 1) + rk st + 1 := rfl

theorem mu_advance_le (t : Thread) : mu t.advance ≤ 6 * (t.todo.length - 1) + 1 := by
  rcases advance_st t with h | h | h
  · rw [mu_eq, h.1]; simp only; omega
  · rw [mu_eq, h.1, h.2.2.1]; simp only [rk, List.length_tail]
    have : 1 ≤ t.todo.tail.length := by
      cases ht : t.todo.tail with
      | nil => exact absurd ht h.2.2.2
      | cons a l => simp
    simp only [List.length_tail] at this
    omega
  · rw [mu_eq, h.1, h.2.2.1]; simp only [rk, List.length_tail]
    have : 1 ≤ t.todo.tail.length := by
      cases ht : t.todo.tail with
      | nil => exact absurd ht h.2.2.2
      | cons a l => simp
    simp only [List.length_tail] at this
    omega

theorem mu_enter_le (t : Thread) : mu t.enter ≤ 6 * t.todo.length + 1 := by
  rcases enter_st t with h | h | h
  · rw [mu_eq, h.1]; simp only; omega
  · rw [mu_eq, h.1, h.2.2.1]; simp only [rk]
    have : 1 ≤ t.todo.length := by
      cases ht : t.todo with
      | nil => exact absurd ht h.2.2.2
      | cons a l => simp
    omega
  · rw [mu_eq, h.1, h.2.2.1]; simp only [rk]
    have : 1 ≤ t.todo.length := by
      cases ht : t.todo with
      | nil => exact absurd ht h.2.2.2
      | cons a l => simp
    omega

theorem mu_ite (c : Prop) [Decidable c] (a b : Thread) : mu (if c then a else b) = if c then mu a else mu b := by
  split <;> rfl

/-- every atomic action of `record`/`wg.Done` decreases the total measure -/
theorem mu_tick {s s' : St} {k : Nat} {t : Thread} (hk : s.thr[k]? = some t) (hT : TickR s k t s') :
    sumT mu s'.thr < sumT mu s.thr := by
  have hge := sumT_ge mu s.thr k t hk
  have ha := mu_advance_le t
  generalize hma : mu t.advance = m at ha
  cases hT with
  | wgDone hst | eSend hst hc | sSend e hst hc | sDone hst hd | eFailInc hst | sFailInc hst | sPend hst
  | eStore hst i it hc | eIncC hst ho i it hc | eIncS hst ho i it hc | eDec hst i it hc | sInc hst i it hc
  | sDec hst i it hc | sLoad hst i it hc =>
    simp only [St.put, St.putItem, sumT_set' _ _ hk, mu_ite, hma]
    simp only [mu_eq, hst, rk] at hge ⊢
    (repeat' (first | omega | split))

theorem mu_start {s : St} {k : Nat} {t : Thread} (hk : s.thr[k]? = some t) (hs : t.st = .idle) :
    sumT mu (s.thr.set k { t with st := .inCall }) < sumT mu s.thr := by
  have hge := sumT_ge mu s.thr k t hk
  simp only [sumT_set' _ _ hk]
  simp only [mu_eq, hs] at hge ⊢
  omega

theorem mu_ret {s : St} {k : Nat} {t : Thread} (hk : s.thr[k]? = some t) (hs : t.st = .inCall) :
    sumT mu (s.thr.set k t.enter) < sumT mu s.thr := by
  have hge := sumT_ge mu s.thr k t hk
  have he := mu_enter_le t
  generalize hma : mu t.enter = m at he
  simp only [sumT_set' _ _ hk, hma]
  simp only [mu_eq, hs] at hge ⊢
  omega

def isThreadEv : Ev → Bool
  | .start _ | .ret _ | .tick _ => true
  | _ => false

/-- every goroutine event (start, callback return, atomic action) decreases the total measure;
environment events leave the goroutines alone. -/
theorem mu_step {s s' : St} {ev : Ev} (h : step s ev = some s') :
    (isThreadEv ev = true → sumT mu s'.thr < sumT mu s.thr) ∧ (isThreadEv ev = false → s'.thr = s.thr) := by
  cases ev with
  | start k =>
    refine ⟨fun _ => ?_, fun hf => by simp [isThreadEv] at hf⟩
    simp only [step] at h
    split at h
    · rename_i t hk
      split at h
      · rename_i hs; simp at h; subst h; exact mu_start hk hs
      · simp at h
    · simp at h
  | ret k =>
    refine ⟨fun _ => ?_, fun hf => by simp [isThreadEv] at hf⟩
    simp only [step] at h
    split at h
    · rename_i t hk
      split at h
      · rename_i hs; simp at h; subst h; exact mu_ret hk hs
      · simp at h
    · simp at h
  | tick k =>
    refine ⟨fun _ => ?_, fun hf => by simp [isThreadEv] at hf⟩
    simp only [step] at h
    split at h
    · rename_i t hk; exact mu_tick hk (tick_sound h)
    · simp at h
  | cleanup | cancel | recvDone | recvErr | recvCtx =>
    refine ⟨fun hf => by simp [isThreadEv] at hf, fun _ => ?_⟩
    simp only [step] at h
    first
      | (simp at h; subst h; rfl)
      | (split at h
         · simp at h; subst h; rfl
         · simp at h)

/-- in any schedule the number of goroutine events is bounded by the initial measure. -/
theorem thread_events_bounded : ∀ (evs : List Ev) (s0 s : St), run s0 evs = some s →
    (evs.filter isThreadEv).length + sumT mu s.thr ≤ sumT mu s0.thr := by
  intro evs
  induction evs with
  | nil => intro s0 s h; simp [run] at h; subst h; simp
  | cons ev rest ih =>
    intro s0 s h
    simp only [run] at h
    cases hst : step s0 ev with
    | none => simp [hst] at h
    | some s1 =>
      simp only [hst] at h
      have := ih s1 s h
      obtain ⟨m1, m2⟩ := mu_step hst
      cases hev : isThreadEv ev
      · have := m2 hev
        simp only [List.filter_cons, hev]
        rw [← this]; simpa using ‹_›
      · have := m1 hev
        simp only [List.filter_cons, hev, if_true, List.length_cons]
        omega

/-! ### grouping -/

theorem flatMap_ite_eq_filter {α} (p : α → Bool) (l : List α) :
    l.flatMap (fun k => if p k then [k] else []) = l.filter p := by
  induction l with
  | nil => rfl
  | cons x xs ih =>
    simp only [List.flatMap_cons, List.filter_cons, ih]
    cases p x <;> simp

theorem flatMap_congr' {α β} (f g : α → List β) (l : List α) (h : ∀ k ∈ l, f k = g k) :
    l.flatMap f = l.flatMap g := by
  induction l with
  | nil => rfl
  | cons x xs ih =>
    simp only [List.flatMap_cons]
    rw [h x (by simp), ih (fun k hk => h k (by simp [hk]))]

theorem nodup_count (s : List Nat) (hnd : s.Nodup) (a : Nat) : s.count a = if a ∈ s then 1 else 0 := by
  induction s with
  | nil => simp
  | cons x xs ih =>
    simp only [List.nodup_cons] at hnd
    rw [List.count_cons, ih hnd.2]
    by_cases hx : x = a
    · subst hx; simp [hnd.1]
    · have : (x == a) = false := by simp [hx]
      have hne : ¬ a = x := fun h => hx h.symm
      simp [this, hne]

theorem replicate_count (s : List Nat) (hnd : s.Nodup) (a k : Nat) :
    List.replicate (s.count a) k = if decide (a ∈ s) then [k] else [] := by
  rw [nodup_count s hnd a]
  by_cases hm : a ∈ s <;> simp [hm]

/-- each selected address appears exactly once, with (in key order, with multiplicity) the indexes of
the keys whose replica set contains it. -/
theorem group_exact' (sets : List (List Nat)) :
    ((group sets).map (·.1)).Nodup ∧
    (∀ a, a ∈ (group sets).map (·.1) ↔ ∃ s ∈ sets, a ∈ s) ∧
    (∀ a idx, (a, idx) ∈ group sets →
      idx = (List.range sets.length).flatMap (fun k => List.replicate ((sets.getD k []).count a) k)) := by
  have hn : (keys (group sets)).Nodup := nodup_groupFrom sets [] 0 (by simp [keys])
  refine ⟨hn, ?_, ?_⟩
  · intro a
    have := keys_groupFrom sets [] 0 a
    simpa [keys, group] using this
  · intro a idx h
    have hget := get_of_mem _ a idx hn h
    rw [group, get_groupFrom] at hget
    simpa [get] using hget.symm

/-- with duplicate-free replica sets (what `Get` returns): exactly the increasing list of the indexes
of the keys that replica serves. -/
theorem group_exact_nodup (sets : List (List Nat)) (hnd : ∀ s ∈ sets, s.Nodup) (a : Nat) (idx : List Nat)
    (h : (a, idx) ∈ group sets) :
    idx = (List.range sets.length).filter (fun k => decide (a ∈ sets.getD k [])) ∧ idx.Pairwise (· < ·) := by
  have h1 := (group_exact' sets).2.2 a idx h
  have h2 : idx = (List.range sets.length).filter (fun k => decide (a ∈ sets.getD k [])) := by
    rw [h1, ← flatMap_ite_eq_filter]
    apply flatMap_congr'
    intro k hk
    have hk' : k < sets.length := List.mem_range.mp hk
    have hs : sets.getD k [] ∈ sets := by
      rw [List.getD_eq_getElem?_getD, List.getElem?_eq_getElem hk']; simp
    exact replicate_count _ (hnd _ hs) a k
  exact ⟨h2, h2 ▸ List.Pairwise.filter _ List.pairwise_lt_range⟩

/-! ### from the real prefix to the invariant -/

theorem inv_of_run {icount : Int} {ca : Option Nat} {gets : List GetRes} {p : Prep}
    {out : Nat → Outcome} {evs : List Ev} {s : St} (hg : GoodGets gets)
    (hp : prepare icount ca gets = .ok p) (hr : run (initSt p out) evs = some s) : Inv s :=
  inv_of_reach (wf_initSt hg hp out) (reach_of_run hr)

theorem items_of_prepare {icount : Int} {ca : Option Nat} {gets : List GetRes} {p : Prep}
    (hp : prepare icount ca gets = .ok p) : p.items.length = gets.length := by
  obtain ⟨l, h1, h2, _, _⟩ := prepare_ok hp
  rw [h1, h2]; simp

/-- the (repaired) prefix spawns goroutines only for a non-empty key list -/
theorem gets_ne_of_prepare {icount : Int} {ca : Option Nat} {gets : List GetRes} {p : Prep}
    (hp : prepare icount ca gets = .ok p) : gets ≠ [] := by
  intro h0
  subst h0
  simp only [prepare, prepareWith, keyLoop] at hp
  split at hp
  · simp at hp
  · split at hp
    · simp at hp
    · simp at hp

theorem items_length_reach {s0 s : St} (h : Reach s0 s) : s.items.length = s0.items.length := by
  induction h with
  | refl => rfl
  | step a b ev _ hs ih => rw [items_length (step_sound hs), ih]

theorem items_ne_of_run {icount : Int} {ca : Option Nat} {gets : List GetRes} {p : Prep}
    {out : Nat → Outcome} {evs : List Ev} {s : St}
    (hp : prepare icount ca gets = .ok p) (hr : run (initSt p out) evs = some s) : s.items ≠ [] := by
  intro h0
  have h1 := items_length_reach (reach_of_run hr)
  have h2 := items_of_prepare hp
  have h3 := gets_ne_of_prepare hp
  simp only [initSt] at h1
  rw [h0] at h1
  cases gets with
  | nil => exact h3 rfl
  | cons g r => simp at h2; simp at h1; omega

/-- an empty key list never reaches the `select`: it returns at once, after one cleanup, with the
"no instances" error, the context's error, or `nil`. -/
theorem empty_prepare_now (icount : Int) (ca : Option Nat) :
    prepare icount ca [] = .error { why := if icount ≤ 0 then .noInstances else if cancelled ca 0 then .ctx else .emptyOk,
                                    gets := 0, cleanups := 1, calls := 0 } := by
  by_cases h1 : icount ≤ 0
  · simp [prepare, prepareWith, h1]
  · by_cases h2 : cancelled ca 0 = true
    · simp [prepare, prepareWith, h1, keyLoop, h2]
    · simp [prepare, prepareWith, h1, keyLoop, h2]

/-- HISTORY (before the repair): the empty key list went on to the `select`. -/
theorem empty_prepare_prefix {icount : Int} (h : 0 < icount) (ca : Option Nat) (hc : cancelled ca 0 = false) :
    preparePreFix icount ca [] = .ok { items := [], calls := [], gets := 0 } := by
  have : ¬ icount ≤ 0 := by omega
  simp [preparePreFix, prepareWith, this, keyLoop, hc, group, groupFrom]

/-! ### early returns of the prefix: one cleanup, no call — at every `return` site -/

theorem keyLoop_early (ca : Option Nat) : ∀ (gets : List GetRes) (i : Nat) (accI : List Item) (accS : List (List Nat))
    (r : EarlyRet), keyLoop ca i gets accI accS = .error r → r.cleanups = 1 ∧ r.calls = 0 := by
  intro gets
  induction gets with
  | nil => intro i accI accS r h; simp [keyLoop] at h
  | cons g rest ih =>
    intro i accI accS r h
    simp only [keyLoop] at h
    split at h
    · simp at h; subst h; exact ⟨rfl, rfl⟩
    · cases g with
      | err => simp at h; subst h; exact ⟨rfl, rfl⟩
      | ok addrs me => exact ih _ _ _ _ h

theorem prepare_early {em : Bool} {icount : Int} {ca : Option Nat} {gets : List GetRes} {r : EarlyRet}
    (h : prepareWith em icount ca gets = .error r) : r.cleanups = 1 ∧ r.calls = 0 := by
  unfold prepareWith at h
  split at h
  · simp at h; subst h; exact ⟨rfl, rfl⟩
  · split at h
    · rename_i e hk; simp at h; subst h; exact keyLoop_early ca gets 0 [] [] _ hk
    · split at h
      · simp at h; subst h; exact ⟨rfl, rfl⟩
      · split at h
        · simp at h; subst h; exact ⟨rfl, rfl⟩
        · simp at h

/-- why the prefix returns early, completely: -/
theorem prepare_early_why {icount : Int} {ca : Option Nat} {gets : List GetRes} {r : EarlyRet}
    (h : prepare icount ca gets = .error r) :
    (r.why = .noInstances ∧ icount ≤ 0) ∨ (r.why = .ctx ∧ ca.isSome = true) ∨ (r.why = .get ∧ GetRes.err ∈ gets) ∨
    (r.why = .emptyOk ∧ gets = []) := by
  have hloop : ∀ (gets : List GetRes) (i : Nat) (accI : List Item) (accS : List (List Nat)) (r : EarlyRet),
      keyLoop ca i gets accI accS = .error r → (r.why = .ctx ∧ ca.isSome = true) ∨ (r.why = .get ∧ GetRes.err ∈ gets) := by
    intro gets
    induction gets with
    | nil => intro i accI accS r h; simp [keyLoop] at h
    | cons g rest ih =>
      intro i accI accS r h
      simp only [keyLoop] at h
      split at h
      · rename_i hc
        simp at h; subst h
        left; refine ⟨rfl, ?_⟩
        cases ca with
        | none => simp [cancelled] at hc
        | some c => rfl
      · cases g with
        | err => simp at h; subst h; exact .inr ⟨rfl, by simp⟩
        | ok addrs me =>
          rcases ih _ _ _ _ h with h1 | h1
          · exact .inl h1
          · exact .inr ⟨h1.1, by simp [h1.2]⟩
  unfold prepare prepareWith at h
  split at h
  · rename_i hic; simp at h; subst h; exact .inl ⟨rfl, hic⟩
  · split at h
    · rename_i e hk; simp at h; subst h
      rcases hloop gets 0 [] [] _ hk with h1 | h1
      · exact .inr (.inl h1)
      · exact .inr (.inr (.inl h1))
    · split at h
      · rename_i hc
        simp at h; subst h
        refine .inr (.inl ⟨rfl, ?_⟩)
        cases ca with
        | none => simp [cancelled] at hc
        | some c => rfl
      · split at h
        · rename_i he; simp at h; subst h; exact .inr (.inr (.inr ⟨rfl, he.2⟩))
        · simp at h

/-! ### every selected replica's callback is invoked at most once (exactly once when it has started) -/

def started (t : Thread) : Nat := if t.st = .idle then 0 else 1

theorem step_start_count {s0 s1 : St} {e : Ev} (h : step s0 e = some s1) (k : Nat) (t0 : Thread)
    (hk : s0.thr[k]? = some t0) :
    ∃ t1, s1.thr[k]? = some t1 ∧ t1.id = t0.id ∧ (if e = .start k then 1 else 0) + started t0 = started t1 := by
  have hlt : k < s0.thr.length := (List.getElem?_eq_some_iff.mp hk).1
  cases e with
  | start k' =>
    simp only [step] at h
    split at h
    · rename_i t hk'
      split at h
      · rename_i hs
        simp at h; subst h
        by_cases hkk : k' = k
        · subst hkk
          rw [hk] at hk'; cases hk'
          exact ⟨_, getElem?_set_self' _ hk, rfl, by simp [started, hs]⟩
        · have hne : Ev.start k' ≠ Ev.start k := fun h => hkk (by cases h; rfl)
          exact ⟨t0, by simp only []; rw [getElem?_set_ne' _ hkk]; exact hk, rfl, by simp [hne]⟩
      · simp at h
    · simp at h
  | ret k' =>
    simp only [step] at h
    split at h
    · rename_i t hk'
      split at h
      · rename_i hs
        simp at h; subst h
        by_cases hkk : k' = k
        · subst hkk
          rw [hk] at hk'; cases hk'
          refine ⟨_, getElem?_set_self' _ hk, (enter_id t0).1, ?_⟩
          have := (good_enter s0 t0).st1
          simp [started, hs, this]
        · exact ⟨t0, by simp only []; rw [getElem?_set_ne' _ hkk]; exact hk, rfl, by simp⟩
      · simp at h
    · simp at h
  | tick k' =>
    simp only [step] at h
    split at h
    · rename_i t hk'
      have hT := tick_sound h
      obtain ⟨t', h1, hg⟩ := tick_good hT
      have hst := tick_stage hT
      by_cases hkk : k' = k
      · subst hkk
        rw [hk] at hk'; cases hk'
        refine ⟨t', by rw [h1]; exact getElem?_set_self' _ hk, hg.id, ?_⟩
        simp [started, hst.1, hg.st1]
      · exact ⟨t0, by rw [h1, getElem?_set_ne' _ hkk]; exact hk, rfl, by simp⟩
    · simp at h
  | cleanup | cancel | recvDone | recvErr | recvCtx =>
    have := (mu_step h).2 (by simp [isThreadEv])
    exact ⟨t0, by rw [this]; exact hk, rfl, by simp⟩

theorem start_count : ∀ (evs : List Ev) (s0 s : St), run s0 evs = some s → ∀ (k : Nat) (t0 : Thread),
    s0.thr[k]? = some t0 → ∃ t, s.thr[k]? = some t ∧ t.id = t0.id ∧ evs.count (.start k) + started t0 = started t := by
  intro evs
  induction evs with
  | nil => intro s0 s h k t0 hk; simp [run] at h; subst h; exact ⟨t0, hk, rfl, by simp⟩
  | cons e rest ih =>
    intro s0 s h k t0 hk
    simp only [run] at h
    cases hst : step s0 e with
    | none => simp [hst] at h
    | some s1 =>
      simp only [hst] at h
      obtain ⟨t1, h1, hid1, hc1⟩ := step_start_count hst k t0 hk
      obtain ⟨t, h2, hid2, hc2⟩ := ih s1 s h k t1 h1
      refine ⟨t, h2, hid2.trans hid1, ?_⟩
      rw [List.count_cons]
      by_cases he : e = .start k
      · subst he; simp at hc1 ⊢; omega
      · have : (e == Ev.start k) = false := by simp [he]
        simp [he] at hc1; simp [this]; omega

/-! ### from "all callbacks have returned" to the return, by goroutine steps alone -/

theorem mu_zero_iff_fin (t : Thread) : mu t = 0 ↔ t.st = .fin := by
  rw [mu_eq]
  cases hs : t.st <;> simp [rk]

/-- From any reachable state in which every callback has returned, some schedule consisting only of
atomic actions of the goroutines (`tick`s) leads to a state in which all of them have finished. -/
theorem drain {s0 : St} (h0 : WFInit s0) : ∀ (n : Nat) (s : St), Reach s0 s → sumT mu s.thr ≤ n →
    (∀ t ∈ s.thr, t.st ≠ .idle ∧ t.st ≠ .inCall) →
    ∃ (evs : List Ev) (s' : St), (∀ e ∈ evs, ∃ k, e = .tick k) ∧ run s evs = some s' ∧
      (∀ t ∈ s'.thr, t.st = .fin) ∧ s'.ret = s.ret ∧ s'.ctx = s.ctx := by
  intro n
  induction n with
  | zero =>
    intro s _ hmu _
    refine ⟨[], s, by simp, rfl, ?_, rfl, rfl⟩
    intro t ht
    obtain ⟨k, hk⟩ := List.mem_iff_getElem?.mp ht
    have := sumT_ge mu s.thr k t hk
    exact (mu_zero_iff_fin t).mp (by omega)
  | succ n ih =>
    intro s hr hmu hcb
    by_cases hall : ∀ t ∈ s.thr, t.st = .fin
    · exact ⟨[], s, by simp, rfl, hall, rfl, rfl⟩
    · have ⟨t, ht, hnf⟩ : ∃ t ∈ s.thr, t.st ≠ .fin := by
        apply Classical.byContradiction
        intro hcon
        apply hall
        intro t ht
        apply Classical.byContradiction
        intro hne
        exact hcon ⟨t, ht, hne⟩
      obtain ⟨k, hk⟩ := List.mem_iff_getElem?.mp ht
      have hI := inv_of_reach h0 hr
      obtain ⟨ev, hev, hsome⟩ := no_deadlock' hI hk hnf
      obtain ⟨s1, hs1⟩ := Option.isSome_iff_exists.mp hsome
      have hcbt := hcb t ht
      have hevt : ev = .tick k := by
        rcases hev with rfl | rfl | rfl
        · exfalso
          simp only [step, hk] at hs1
          split at hs1
          · rename_i hi; exact hcbt.1 hi
          · simp at hs1
        · exfalso
          simp only [step, hk] at hs1
          split at hs1
          · rename_i hi; exact hcbt.2 hi
          · simp at hs1
        · rfl
      subst hevt
      have hdec := (mu_step hs1).1 (by simp [isThreadEv])
      have hr1 : Reach s0 s1 := .step s s1 _ hr hs1
      have hcb1 : ∀ t ∈ s1.thr, t.st ≠ .idle ∧ t.st ≠ .inCall := by
        intro x hx
        have hT : TickR s k t s1 := by
          simp only [step, hk] at hs1
          exact tick_sound hs1
        obtain ⟨t', h1, hg⟩ := tick_good hT
        rw [h1] at hx
        rcases List.mem_or_eq_of_mem_set hx with hin | rfl
        · exact hcb x hin
        · exact ⟨hg.st1, hg.st2⟩
      have hretctx : s1.ret = s.ret ∧ s1.ctx = s.ctx := by
        have hT : TickR s k t s1 := by
          simp only [step, hk] at hs1
          exact tick_sound hs1
        cases hT <;> exact ⟨rfl, rfl⟩
      obtain ⟨evs, s', he, hrun, hfin, hret, hctx⟩ := ih s1 hr1 (by omega) hcb1
      refine ⟨.tick k :: evs, s', ?_, ?_, hfin, hret.trans hretctx.1, hctx.trans hretctx.2⟩
      · intro e he'
        simp at he'
        rcases he' with rfl | he'
        · exact ⟨k, rfl⟩
        · exact he e he'
      · simp [run, hs1, hrun]

end PfC10
