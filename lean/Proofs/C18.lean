import Model.C18
/-! Helper lemmas and proofs for C18. -/
namespace PfC18
open C18

end PfC18
