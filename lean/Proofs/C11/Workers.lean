import Proofs.C11.Legacy
/-! Part M2: the workers' context of the multi-set variant. -/
namespace PfC11
open C11

/-- a cancelled context stays cancelled. -/
theorem step_ctx_mono {c : Cfg} {s s' : St} {e : Ev} (hs : step c s e = some s') (j : Nat) (h : s.ctx j = true) :
    s'.ctx j = true := by
  cases e with
  | finish i r => simp only [step] at hs; split at hs <;> cases hs; exact h
  | cancel => simp only [step] at hs; cases hs; rfl
  | cancelOne i => simp only [step] at hs; cases hs; simp only [upd_apply]; split <;> simp [h]
  | tick => simp only [step] at hs; split at hs
            · cases hs; simpa using h
            · cases hs
  | recv =>
    simp only [step] at hs; split at hs
    · cases hch : s.chan with
      | nil => rw [hch] at hs; cases hs
      | cons p rest => obtain ⟨i, r⟩ := p; rw [hch] at hs; cases hs; exact recvStep_ctx_mono c s i r rest j h
    · cases hs
  | ctxDone => simp only [step] at hs; split at hs <;> cases hs; exact h
  | «begin» i => simp only [step] at hs; split at hs <;> cases hs; exact h
  | abort i t => simp only [step] at hs; split at hs <;> cases hs; exact h
  | drain =>
    simp only [step] at hs
    by_cases hmm : s.main ≠ .running
    · rw [if_pos hmm] at hs
      cases hch : s.chan with
      | nil => rw [hch] at hs; cases hs
      | cons p rest => obtain ⟨i, r⟩ := p; rw [hch] at hs; cases hs; exact h
    · rw [if_neg hmm] at hs; cases hs

structure MInvW (m : MSt) : Prop where
  safe : m.expectMore = false → m.inflight = [] → m.workersCanc = true
  workers : m.workersCanc = true → ∀ k j, (m.sets k).ctx j = true

theorem minvW_cancelWorkers {m} : MInvW (cancelWorkers m) :=
  ⟨fun _ _ => rfl, fun _ _ _ => rfl⟩

theorem minvW_cancelIfSafe {m} (h : MInvW m) : MInvW (cancelIfSafe m) := by
  unfold cancelIfSafe
  split
  · exact minvW_cancelWorkers
  · rename_i hc
    refine ⟨?_, h.workers⟩
    intro h1 h2
    exfalso; apply hc; simp [h1, h2]

/-- a state obtained by changing workers' states monotonically in their contexts, with an arbitrary
inflight list, re-checked by `cancelIfSafe`. -/
theorem minvW_callCancel {m} (h : MInvW m) (k i : Nat) : MInvW (callCancel m k i) := by
  unfold callCancel
  unfold cancelIfSafe
  split
  · exact minvW_cancelWorkers
  · rename_i hc
    refine ⟨?_, ?_⟩
    · intro h1 h2; exfalso; apply hc; simp only [] at h1 h2; simp [h1, h2]
    · intro hw k' j
      have := h.workers hw k' j
      simp only [upd_apply]
      split
      · rename_i he; subst he; simp only [upd_apply]; split <;> simp [this]
      · exact this

theorem minvW_foldl (k : Nat) (l : List Nat) : ∀ {m : MSt}, MInvW m → MInvW (l.foldl (fun mm i => callCancel mm k i) m) := by
  induction l with
  | nil => exact fun h => h
  | cons a l ih => exact fun h => ih (minvW_callCancel h k a)


theorem minvW_foldl2 (l : List (Nat × Nat)) : ∀ {m : MSt}, MInvW m → MInvW (l.foldl (fun mm ki => callCancel mm ki.1 ki.2) m) := by
  induction l with
  | nil => exact fun h => h
  | cons a l ih => exact fun h => ih (minvW_callCancel h a.1 a.2)

theorem minvW_cancelIfSafe' {m} (hw : m.workersCanc = true → ∀ k j, (m.sets k).ctx j = true) : MInvW (cancelIfSafe m) := by
  unfold cancelIfSafe
  split
  · exact minvW_cancelWorkers
  · rename_i hc
    refine ⟨?_, hw⟩
    intro h1 h2
    exfalso; apply hc; simp [h1, h2]

theorem minvW_mstep {cs m e m'} (h : MInvW m) (hs : mstep cs m e = some m') : MInvW m' := by
  cases e with
  | set k e =>
    simp only [mstep] at hs
    cases hc : cs[k]? with
    | none => simp [hc] at hs
    | some c =>
      simp only [hc] at hs
      split at hs
      · cases hs
      · cases hst : step c (m.sets k) e with
        | none => simp [hst] at hs
        | some s' =>
          simp only [hst, Option.some.injEq] at hs
          rw [← hs]
          apply minvW_foldl
          have hw : ∀ X : MSt, X.sets = upd m.sets k s' → X.workersCanc = m.workersCanc →
              (X.workersCanc = true → ∀ k' j, (X.sets k').ctx j = true) := by
            intro X x1 x2 hwc k' j
            rw [x2] at hwc
            rw [x1]; simp only [upd_apply]; split
            · rename_i he; subst he; exact step_ctx_mono hst j (h.workers hwc k' j)
            · exact h.workers hwc k' j
          cases e <;> simp only [trackBegin] <;> (try split) <;>
            first
            | exact ⟨h.safe, hw _ rfl rfl⟩
            | exact ⟨fun _ h2 => by simp at h2, hw _ rfl rfl⟩
  | finishDone k i r =>
    simp only [mstep] at hs
    cases hc : cs[k]? with
    | none => simp [hc] at hs
    | some c =>
      simp only [hc] at hs
      split at hs
      · cases hs
        have h1 := minvW_callCancel h k i
        refine ⟨h1.safe, ?_⟩
        intro hw k' j
        have := h1.workers hw
        simp only [upd_apply]; split
        · rename_i he; subst he; exact this k' j
        · exact this k' j
      · cases hs
  | done k i =>
    simp only [mstep] at hs
    cases hc : cs[k]? with
    | none => simp [hc] at hs
    | some c =>
      simp only [hc] at hs
      split at hs
      · cases hs; exact minvW_callCancel h k i
      · cases hs
  | cancel => simp only [mstep] at hs; cases hs; exact minvW_cancelWorkers
  | join k =>
    simp only [mstep] at hs
    split at hs
    · split at hs
      · cases hs
      · cases hs; exact ⟨h.safe, h.workers⟩
      · split at hs
        · cases hs; exact ⟨h.safe, h.workers⟩
        · cases hs; exact minvW_cancelWorkers
    · cases hs
  | ret =>
    simp only [mstep] at hs
    split at hs
    · split at hs
      · cases hs; exact minvW_foldl2 _ ⟨h.safe, h.workers⟩
      · cases hs
        have := minvW_cancelIfSafe' (m := { m with expectMore := false }) h.workers
        exact ⟨this.safe, this.workers⟩
    · cases hs

theorem minvW_minit (cs : List Cfg) (orders : List (List Nat)) (pre : Bool) : MInvW (minit cs orders pre) := by
  refine ⟨fun h => by simp [minit] at h, ?_⟩
  intro hw k j
  simp only [minit] at hw ⊢
  subst hw
  -- the caller's context was already done: every set starts with all contexts cancelled
  have : ∀ (c : Cfg) (o : List Nat), (init c o true).ctx j = true := by
    intro c o
    unfold init
    split
    · rfl
    · apply loopHead_ctx_mono; simp [base]
  exact this _ _

/-- once the multi-set call has returned results and every tracked callback has called its cancel
function, the workers' context — hence every context handed to a callback — is cancelled. -/
theorem multi_workers_ctx_cancelled {cs orders pre evs m} (hr : mrun cs (minit cs orders pre) evs = some m)
    (hexp : m.expectMore = false) (hinf : m.inflight = []) : m.workersCanc = true ∧ ∀ k j, (m.sets k).ctx j = true := by
  have h : MInvW m := mrun_induction (P := MInvW) (fun _ _ _ h hs => minvW_mstep h hs) evs (minvW_minit cs orders pre) hr
  exact ⟨h.safe hexp hinf, h.workers (h.safe hexp hinf)⟩


/-- `expectMoreInstances` is switched off exactly by a successful return. -/
def RetExp (m : MSt) : Prop := ∀ rs, m.ret = some (.ok rs) → m.expectMore = false

theorem foldl_callCancel_exp (k : Nat) (l : List Nat) : ∀ (m : MSt),
    (l.foldl (fun mm i => callCancel mm k i) m).expectMore = m.expectMore ∧ (l.foldl (fun mm i => callCancel mm k i) m).ret = m.ret := by
  induction l with
  | nil => intro m; exact ⟨rfl, rfl⟩
  | cons a l ih =>
    intro m
    simp only [List.foldl_cons]
    obtain ⟨i1, i2⟩ := ih (callCancel m k a)
    obtain ⟨_, _, _, c4, c5⟩ := callCancel_mfields m k a
    exact ⟨i1.trans c5, i2.trans c4⟩

theorem retExp_mstep {cs m e m'} (h : RetExp m) (hs : mstep cs m e = some m') : RetExp m' := by
  cases e with
  | set k e =>
    simp only [mstep] at hs
    cases hc : cs[k]? with
    | none => simp [hc] at hs
    | some c =>
      simp only [hc] at hs
      split at hs
      · cases hs
      · cases hst : step c (m.sets k) e with
        | none => simp [hst] at hs
        | some s' =>
          simp only [hst, Option.some.injEq] at hs
          rw [← hs]
          obtain ⟨f1, f2⟩ := foldl_callCancel_exp k (s'.cleaned.drop (m.sets k).cleaned.length) (trackBegin { m with sets := upd m.sets k s' } k e)
          have hf : (trackBegin { m with sets := upd m.sets k s' } k e).expectMore = m.expectMore ∧
              (trackBegin { m with sets := upd m.sets k s' } k e).ret = m.ret := by
            cases e <;> simp only [trackBegin] <;> (try split) <;> simp
          intro rs hr
          rw [f1, hf.1]; rw [f2, hf.2] at hr; exact h rs hr
  | finishDone k i r =>
    simp only [mstep] at hs
    cases hc : cs[k]? with
    | none => simp [hc] at hs
    | some c =>
      simp only [hc] at hs
      split at hs
      · cases hs
        obtain ⟨_, _, _, c4, c5⟩ := callCancel_mfields m k i
        intro rs hr; simp only [] at hr ⊢; rw [c5]; rw [c4] at hr; exact h rs hr
      · cases hs
  | done k i =>
    simp only [mstep] at hs
    cases hc : cs[k]? with
    | none => simp [hc] at hs
    | some c =>
      simp only [hc] at hs
      split at hs
      · cases hs
        obtain ⟨_, _, _, c4, c5⟩ := callCancel_mfields m k i
        intro rs hr; rw [c5]; rw [c4] at hr; exact h rs hr
      · cases hs
  | cancel => simp only [mstep] at hs; cases hs; exact h
  | join k =>
    simp only [mstep] at hs
    split at hs
    · split at hs
      · cases hs
      · cases hs; exact h
      · split at hs
        · cases hs; exact h
        · cases hs; exact h
    · cases hs
  | ret =>
    simp only [mstep] at hs
    split at hs
    · split at hs
      · rename_i e0 _
        cases hs
        intro rs hr
        rw [(foldl2_callCancel_frame m.results { m with ret := some (.error e0), mcleaned := m.results }).2.2.2.2.1] at hr
        cases hr
      · cases hs
        intro rs _
        exact (cancelIfSafe_mfields { m with expectMore := false }).2.2.2.2.1
    · cases hs

/-- `multi_sets`, last part: after a successful return, as soon as every tracked callback has called
its cancel function the workers' context is cancelled, and with it every callback context. -/
theorem multi_ok_workers_ctx {cs orders pre evs m rs} (hr : mrun cs (minit cs orders pre) evs = some m)
    (hret : m.ret = some (.ok rs)) (hinf : m.inflight = []) : m.workersCanc = true ∧ ∀ k j, (m.sets k).ctx j = true := by
  have h : RetExp m := mrun_induction (P := RetExp) (fun _ _ _ h hs => retExp_mstep h hs) evs
    (by intro rs hr; simp [minit] at hr) hr
  exact multi_workers_ctx_cancelled hr (h rs hret) hinf

end PfC11
