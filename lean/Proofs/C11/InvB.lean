import Proofs.C11.Reach
/-! Part B: contexts, the loop invariant and the causes of a return. -/
namespace PfC11
open C11

/-! ### the tracker predicates only read the counters -/

theorem succeeded_congr (c : Cfg) {s t : St} (h1 : s.nSucc = t.nSucc) (h2 : s.waiting = t.waiting) (h3 : s.fails = t.fails) :
    succeeded c s = succeeded c t := by simp [succeeded, h1, h2, h3]

theorem failed_congr (c : Cfg) {s t : St} (h1 : s.nErr = t.nErr) (h3 : s.fails = t.fails) :
    failed c s = failed c t := by simp [failed, h1, h3]

theorem includes_congr (c : Cfg) {s t : St} (h2 : s.waiting = t.waiting) (h3 : s.fails = t.fails) :
    includes c s = includes c t := by funext i; simp [includes, h2, h3]

theorem kept_congr (c : Cfg) {s t : St} (h1 : s.resMap = t.resMap) (h2 : s.waiting = t.waiting) (h3 : s.fails = t.fails) :
    kept c s = kept c t := by funext i; simp [kept, h1, includes_congr c h2 h3]

/-! ### cancelling contexts -/

theorem cancelFor_mono (c : Cfg) (ctx : Nat → Bool) (i j : Nat) (h : ctx j = true) : cancelFor c ctx i j = true := by
  unfold cancelFor; split <;> simp [upd_apply, h]

theorem cancelFor_self (c : Cfg) (ctx : Nat → Bool) (i : Nat) : cancelFor c ctx i i = true := by
  unfold cancelFor; split <;> simp [upd_apply]

theorem foldCancel_mono (c : Cfg) (p : Nat → Bool) (l : List Nat) (ctx : Nat → Bool) (j : Nat) (h : ctx j = true) :
    (l.foldl (fun cx i => if p i then cx else cancelFor c cx i) ctx) j = true := by
  induction l generalizing ctx with
  | nil => exact h
  | cons a l ih =>
    simp only [List.foldl_cons]
    apply ih
    split
    · exact h
    · exact cancelFor_mono c ctx a j h

theorem foldCancel_hits (c : Cfg) (p : Nat → Bool) (l : List Nat) (ctx : Nat → Bool) (j : Nat) (hj : j ∈ l) (hp : p j = false) :
    (l.foldl (fun cx i => if p i then cx else cancelFor c cx i) ctx) j = true := by
  induction l generalizing ctx with
  | nil => simp at hj
  | cons a l ih =>
    simp only [List.foldl_cons]
    rcases List.mem_cons.1 hj with h | h
    · subst h
      apply foldCancel_mono
      simp [hp, cancelFor_self]
    · exact ih _ h

theorem finishOk_ctx (c : Cfg) (s : St) (j : Nat) (hj : j < c.n) (hk : kept c s j = false) : (finishOk c s).ctx j = true := by
  simp only [finishOk]
  split
  · rfl
  · exact foldCancel_hits c (kept c s) (List.range c.n) s.ctx j (List.mem_range.2 hj) hk

theorem finishOk_ctx_mono (c : Cfg) (s : St) (j : Nat) (h : s.ctx j = true) : (finishOk c s).ctx j = true := by
  simp only [finishOk]
  split
  · rfl
  · exact foldCancel_mono c (kept c s) (List.range c.n) s.ctx j h

theorem loopHead_ctx_mono (c : Cfg) (s : St) (j : Nat) (h : s.ctx j = true) : (loopHead c s).ctx j = true := by
  unfold loopHead; split
  · exact finishOk_ctx_mono c s j h
  · exact h

theorem trackerDone_false_counters (c : Cfg) (s : St) (i : Nat) :
    (trackerDone c s i false).nErr = s.nErr ∧ (trackerDone c s i false).fails = s.fails := by
  by_cases hz : c.zoneMode <;> simp only [trackerDone, hz, Bool.false_eq_true, if_false] <;> (repeat' split) <;> simp

theorem failed_trackerDone_false (c : Cfg) (s : St) (i : Nat) : failed c (trackerDone c s i false) = failed c s :=
  failed_congr c (trackerDone_false_counters c s i).1 (trackerDone_false_counters c s i).2

/-- second summary of a `recv`: loop invariant, contexts and the cause of a return. -/
def OutcomeB (c : Cfg) (t : St) (i : Nat) (r : Res) : Prop :=
  (t.main = .running ∧ succeeded c t = false ∧ failed c t = false) ∨
  (∃ e, t.main = .retErr e ∧ e ≠ .invalid ∧ (∀ j, t.ctx j = true) ∧ e = errKind i r ∧
      ((failed c t = true ∧ t.doneErr.getLast? = some i) ∨
       (c.hasTerm = true ∧ (r = .term ∨ (r = .aborted ∧ t.abT i = true))))) ∨
  (t.main = .retOk ((List.range c.n).filter (kept c t)) ∧ succeeded c t = true ∧
      ∀ j, j < c.n → kept c t j = false → t.ctx j = true)

theorem loopHead_B (c : Cfg) (s : St) (i : Nat) (r : Res) (hm : s.main = .running) (hf : failed c s = false) :
    OutcomeB c (loopHead c s) i r := by
  unfold loopHead
  by_cases h : succeeded c s = true
  · simp only [h, if_true]
    right; right
    have hk : kept c (finishOk c s) = kept c s := kept_congr c (by simp) (by simp) (by simp)
    refine ⟨?_, ?_, ?_⟩
    · rw [hk]; simp [finishOk]
    · rw [succeeded_congr c (s := finishOk c s) (t := s) (by simp) (by simp) (by simp)]; exact h
    · intro j hj hkj; rw [hk] at hkj; exact finishOk_ctx c s j hj hkj
  · simp only [h]
    left
    simp only [Bool.not_eq_true] at h
    exact ⟨hm, h, hf⟩

theorem errKind_ne_invalid (i : Nat) (r : Res) : errKind i r ≠ .invalid := by
  unfold errKind; split <;> simp

theorem recvOk_B (c : Cfg) (s1 : St) (i : Nat) (r : Res) (hm : s1.main = .running) (hf : failed c s1 = false) :
    OutcomeB c (recvOk c s1 i) i r := by
  unfold recvOk
  apply loopHead_B
  · exact hm
  · exact (failed_congr c rfl rfl).trans hf

theorem recvErr_B (c : Cfg) (s1 : St) (i : Nat) (r : Res) (hm : s1.main = .running) :
    OutcomeB c (recvErr c s1 i r) i r := by
  unfold recvErr
  simp only []
  split
  · rename_i hfl
    right; left
    exact ⟨errKind i r, rfl, errKind_ne_invalid i r, fun _ => rfl, rfl, Or.inl ⟨(failed_congr c rfl rfl).trans hfl, by simp⟩⟩
  · rename_i hfl
    simp only [Bool.not_eq_true] at hfl
    exact loopHead_B c _ i r hm hfl

theorem recvStep_B (c : Cfg) (s : St) (i : Nat) (r : Res) (rest : List (Nat × Res)) (hm : s.main = .running)
    (hf : failed c s = false) : OutcomeB c (recvStep c s i r rest) i r := by
  unfold recvStep
  simp only []
  split
  · rename_i ht
    simp only [isTerminal, Bool.and_eq_true, Bool.or_eq_true, decide_eq_true_eq] at ht
    right; left
    exact ⟨errKind i r, rfl, errKind_ne_invalid i r, fun _ => rfl, rfl, Or.inr ⟨ht.1, ht.2⟩⟩
  · split
    · apply recvOk_B
      · simpa using hm
      · exact (failed_trackerDone_false c _ i).trans ((failed_congr c rfl rfl).trans hf)
    · apply recvErr_B
      simpa using hm

theorem recvStep_ctx_mono (c : Cfg) (s : St) (i : Nat) (r : Res) (rest : List (Nat × Res)) (j : Nat) (h : s.ctx j = true) :
    (recvStep c s i r rest).ctx j = true := by
  unfold recvStep
  simp only []
  split
  · rfl
  · split
    · unfold recvOk; apply loopHead_ctx_mono; simpa using h
    · unfold recvErr
      simp only []
      split
      · rfl
      · apply loopHead_ctx_mono
        simp only [trackerDone_ctx]
        exact cancelFor_mono c _ i j h
end PfC11
