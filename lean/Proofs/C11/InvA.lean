import Proofs.C11.Frames
/-! Part A: the structural invariant `InvA` (start log, channel, finish log, results, cleanup). -/
namespace PfC11
open C11

/-! ## the structural invariant -/

structure InvA (c : Cfg) (s : St) : Prop where
  started_nodup : s.started.Nodup
  started_phase : ∀ i, i ∈ s.started → s.phase i ≠ .waiting
  started_lt : ∀ i, i ∈ s.started → i < c.n
  chan_pw : s.chan.Pairwise (fun p q => p.1 ≠ q.1)
  chan_phase : ∀ i r, (i, r) ∈ s.chan → s.phase i = .posted
  chan_lt : ∀ i r, (i, r) ∈ s.chan → i < c.n
  chan_fin : ∀ i r, (i, r) ∈ s.chan → r ≠ .aborted → (i, r) ∈ s.fin
  chan_ab : ∀ i r, (i, Res.aborted) ∈ s.chan → (i, r) ∉ s.fin
  fin_uniq : ∀ i r r', (i, r) ∈ s.fin → (i, r') ∈ s.fin → r = r'
  fin_phase : ∀ i r, (i, r) ∈ s.fin → s.phase i = .posted ∨ s.phase i = .consumed
  fin_lt : ∀ i r, (i, r) ∈ s.fin → i < c.n ∧ r ≠ .aborted
  res_nodup : s.resMap.Nodup
  res_lt : ∀ i, i ∈ s.resMap → i < c.n
  clean_nodup : s.cleaned.Nodup
  run_clean : s.main = .running → s.cleaned = []
  run_res : s.main = .running → ∀ i, i ∈ s.resMap ↔ ((i, Res.ok) ∈ s.fin ∧ s.phase i = .consumed)
  ok_split : ∀ rs, s.main = .retOk rs → ∀ i, ((i, Res.ok) ∈ s.fin ∧ s.phase i = .consumed) ↔ (i ∈ rs ∨ i ∈ s.cleaned)
  ok_disj : ∀ rs, s.main = .retOk rs → ∀ i, i ∈ rs → i ∉ s.cleaned
  err_clean : ∀ e, s.main = .retErr e → ∀ i, ((i, Res.ok) ∈ s.fin ∧ s.phase i = .consumed) ↔ i ∈ s.cleaned

theorem pw_append_one {l : List (Nat × Res)} {i : Nat} {r : Res} (h : l.Pairwise (fun p q => p.1 ≠ q.1))
    (hn : ∀ r', (i, r') ∉ l) : (l ++ [(i, r)]).Pairwise (fun p q => p.1 ≠ q.1) := by
  rw [List.pairwise_append]
  refine ⟨h, by simp, ?_⟩
  intro a ha b hb
  simp at hb; subst hb
  intro he
  simp only at he
  exact hn a.2 (by rw [← he]; exact ha)

theorem invA_finish {c s i r s'} (h : InvA c s) (hs : step c s (.finish i r) = some s') : InvA c s' := by
  simp only [step] at hs
  split at hs
  · rename_i hc
    obtain ⟨hi, hp, hr⟩ := hc
    cases hs
    obtain ⟨a1,a2,a3,a4,a5,a6,a7,a8,a9,a10,a10',a11,a12,a13,a14,a15,a16,a17,a18⟩ := h
    have hnf : ∀ r', (i, r') ∉ s.fin := fun r' hm => by
      have := a10 _ _ hm; simp [hp] at this
    have hnc : ∀ r', (i, r') ∉ s.chan := fun r' hm => by
      have := (a5 _ _ hm); simp [hp] at this
    constructor <;> simp only [upd_apply] at *
    case chan_pw => exact pw_append_one a4 hnc
    all_goals grind
  · cases hs

theorem invA_begin {c s i s'} (h : InvA c s) (hs : step c s (.begin i) = some s') : InvA c s' := by
  simp only [step] at hs
  split at hs
  · rename_i hc
    obtain ⟨hi, hp, hr⟩ := hc
    cases hs
    obtain ⟨a1,a2,a3,a4,a5,a6,a7,a8,a9,a10,a10',a11,a12,a13,a14,a15,a16,a17,a18⟩ := h
    constructor <;> simp only [upd_apply] at *
    all_goals grind
  · cases hs

theorem invA_abort {c s i t s'} (h : InvA c s) (hs : step c s (.abort i t) = some s') : InvA c s' := by
  simp only [step] at hs
  split at hs
  · rename_i hc
    obtain ⟨hi, hp, hr⟩ := hc
    cases hs
    obtain ⟨a1,a2,a3,a4,a5,a6,a7,a8,a9,a10,a10',a11,a12,a13,a14,a15,a16,a17,a18⟩ := h
    have hnc : ∀ r', (i, r') ∉ s.chan := fun r' hm => by
      have := (a5 _ _ hm); simp [hp] at this
    constructor <;> simp only [upd_apply] at *
    case chan_pw => exact pw_append_one a4 hnc
    all_goals grind
  · cases hs

theorem invA_cancel {c s s'} (h : InvA c s) (hs : step c s .cancel = some s') : InvA c s' := by
  simp only [step] at hs
  cases hs
  obtain ⟨a1,a2,a3,a4,a5,a6,a7,a8,a9,a10,a10',a11,a12,a13,a14,a15,a16,a17,a18⟩ := h
  constructor <;> assumption

theorem invA_tick {c s s'} (h : InvA c s) (hs : step c s .tick = some s') : InvA c s' := by
  simp only [step] at hs
  split at hs
  · cases hs
    obtain ⟨a1,a2,a3,a4,a5,a6,a7,a8,a9,a10,a10',a11,a12,a13,a14,a15,a16,a17,a18⟩ := h
    constructor <;> simp only [releaseNext_started, releaseNext_phase, releaseNext_chan, releaseNext_fin, releaseNext_resMap,
      releaseNext_cleaned, releaseNext_main] <;> assumption
  · cases hs

theorem invA_ctxDone {c s s'} (h : InvA c s) (hs : step c s .ctxDone = some s') : InvA c s' := by
  simp only [step] at hs
  split at hs
  · rename_i hc
    cases hs
    obtain ⟨a1,a2,a3,a4,a5,a6,a7,a8,a9,a10,a10',a11,a12,a13,a14,a15,a16,a17,a18⟩ := h
    have hcl := a14 hc.1
    have hres := a15 hc.1
    constructor <;> simp only [hcl, List.nil_append] at *
    all_goals grind
  · cases hs

theorem invA_drain {c s s'} (h : InvA c s) (hs : step c s .drain = some s') : InvA c s' := by
  simp only [step] at hs
  split at hs
  · rename_i hc
    split at hs
    · cases hs
    · rename_i i r rest hch
      cases hs
      obtain ⟨a1,a2,a3,a4,a5,a6,a7,a8,a9,a10,a10',a11,a12,a13,a14,a15,a16,a17,a18⟩ := h
      rw [hch] at a4 a5 a6 a7 a8
      have hrest : ∀ j r', (j, r') ∈ rest → j ≠ i := by
        intro j r' hm he
        have := (List.pairwise_cons.1 a4).1 _ hm
        exact this he.symm
      have hpi : s.phase i = .posted := a5 i r (by simp)
      have hic : i ∉ s.cleaned := by
        intro hm
        cases hmain : s.main with
        | running => exact hc hmain
        | retOk rs => have := (a16 rs hmain i).2 (Or.inr hm); simp [hpi] at this
        | retErr e => have := (a18 e hmain i).2 hm; simp [hpi] at this
      have hir : ∀ rs, s.main = .retOk rs → i ∉ rs := by
        intro rs hmain hm
        have := (a16 rs hmain i).2 (Or.inl hm); simp [hpi] at this
      have hfin : r = .ok → (i, Res.ok) ∈ s.fin := by
        intro hr; subst hr; exact a7 i .ok (by simp) (by decide)
      have hnfin : r ≠ .ok → (i, Res.ok) ∉ s.fin := by
        intro hr hm
        by_cases hab : r = .aborted
        · subst hab; exact a8 i .ok (by simp) hm
        · exact hr (a9 i r .ok (a7 i r (by simp) hab) hm)
      constructor <;> simp only [upd_apply] at *
      case chan_pw => exact (List.pairwise_cons.1 a4).2
      case clean_nodup =>
        split
        · exact List.nodup_append.2 ⟨a13, by simp, by intro a ha b hb; simp at hb; subst hb; intro he; subst he; exact hic ha⟩
        · exact a13
      all_goals grind
  · cases hs

theorem invA_recv {c s s'} (h : InvA c s) (hs : step c s .recv = some s') : InvA c s' := by
  simp only [step] at hs
  split at hs
  · rename_i hc
    split at hs
    · cases hs
    · rename_i i r rest hch
      cases hs
      obtain ⟨s1, s2, s3, s4, s5, s6, hout⟩ := recvStep_sum c s i r rest hc
      obtain ⟨a1,a2,a3,a4,a5,a6,a7,a8,a9,a10,a10',a11,a12,a13,a14,a15,a16,a17,a18⟩ := h
      have hcl := a14 hc
      have hres := a15 hc
      rw [hch] at a4 a5 a6 a7 a8
      have hrest : ∀ j r', (j, r') ∈ rest → j ≠ i := by
        intro j r' hm he
        have := (List.pairwise_cons.1 a4).1 _ hm
        exact this he.symm
      have hpi : s.phase i = .posted := a5 i r (by simp)
      have hilt : i < c.n := a6 i r (by simp)
      have hfin : r = .ok → (i, Res.ok) ∈ s.fin := by
        intro hr; subst hr; exact a7 i .ok (by simp) (by decide)
      have hnfin : r ≠ .ok → (i, Res.ok) ∉ s.fin := by
        intro hr hm
        by_cases hab : r = .aborted
        · subst hab; exact a8 i .ok (by simp) hm
        · exact hr (a9 i r .ok (a7 i r (by simp) hab) hm)
      have hinr : i ∉ s.resMap := by
        intro hm; have := (hres i).1 hm; simp [hpi] at this
      -- the new results map
      have hR : ∀ j, j ∈ (if r = .ok then s.resMap ++ [i] else s.resMap) ↔ ((j, Res.ok) ∈ s.fin ∧ upd s.phase i .consumed j = .consumed) := by
        intro j
        simp only [upd_apply]
        by_cases hj : j = i
        · subst hj
          by_cases hr : r = .ok
          · simp [hr, hfin hr]
          · simp [hr, hnfin hr, hinr]
        · by_cases hr : r = .ok
          · simp [hr, hj, hres j]
          · simp [hr, hj, hres j]
      have hRn : (if r = .ok then s.resMap ++ [i] else s.resMap).Nodup := by
        split
        · exact List.nodup_append.2 ⟨a11, by simp, by intro a ha b hb; simp at hb; subst hb; intro he; subst he; exact hinr ha⟩
        · exact a11
      have hRlt : ∀ j, j ∈ (if r = .ok then s.resMap ++ [i] else s.resMap) → j < c.n := by
        intro j; split
        · intro hm; rcases List.mem_append.1 hm with hm | hm
          · exact a12 j hm
          · simp at hm; subst hm; exact hilt
        · exact a12 j
      generalize (if r = .ok then s.resMap ++ [i] else s.resMap) = R at *
      generalize recvStep c s i r rest = t at *
      obtain ⟨tr, tc⟩ | ⟨hr, ⟨e, te⟩, tc⟩ | ⟨inc, to, tc⟩ := hout
      all_goals (rw [hcl] at tc; try simp only [List.nil_append] at tc)
      · constructor <;> simp only [s1, s2, s3, s4, s6, tr, tc] at * <;> simp only [upd_apply] at *
        case chan_pw => exact (List.pairwise_cons.1 a4).2
        all_goals grind
      · simp only [decide_eq_false_iff_not] at hr
        constructor <;> simp only [s1, s2, s3, s4, s6, te, tc] at * <;> simp only [upd_apply] at *
        case chan_pw => exact (List.pairwise_cons.1 a4).2
        all_goals grind
      · have hnd : ((List.range c.n).filter fun j => decide (j ∈ R) && !inc j).Nodup := List.Nodup.sublist List.filter_sublist List.nodup_range
        constructor <;> simp only [s1, s2, s3, s4, s6, to, tc] at * <;> simp only [upd_apply] at *
        case chan_pw => exact (List.pairwise_cons.1 a4).2
        case clean_nodup => exact hnd
        all_goals grind
  · cases hs

theorem invA_cancelOne {c s i s'} (h : InvA c s) (hs : step c s (.cancelOne i) = some s') : InvA c s' := by
  simp only [step] at hs
  cases hs
  obtain ⟨a1,a2,a3,a4,a5,a6,a7,a8,a9,a10,a10',a11,a12,a13,a14,a15,a16,a17,a18⟩ := h
  constructor <;> assumption

theorem invA_step {c s e s'} (h : InvA c s) (hs : step c s e = some s') : InvA c s' := by
  cases e with
  | finish i r => exact invA_finish h hs
  | cancel => exact invA_cancel h hs
  | tick => exact invA_tick h hs
  | recv => exact invA_recv h hs
  | ctxDone => exact invA_ctxDone h hs
  | «begin» i => exact invA_begin h hs
  | abort i t => exact invA_abort h hs
  | drain => exact invA_drain h hs
  | cancelOne i => exact invA_cancelOne h hs

end PfC11
