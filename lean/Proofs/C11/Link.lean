import Proofs.C11.MultiCleanup
import Model.C02
/-!
# C11 proofs: link to C02 — a quorum read that returns results was answered by a set of instances
(zones) satisfying C02's `readOkFlat` (`readOkZones`).

The replication set `R : C02.RSetAll` (as produced by `GetReplicationSetForOperation`) corresponds to
the configuration `c` of the quorum-read machine: instance `i` of the machine is `R.instances[i]`, its
zone number is `zid` of the instance's zone name (`zid` injective on the zone names that occur), and
the tolerances are `R.maxErrors` / `R.maxUnavailableZones`.
-/
namespace PfC11
open C11

/-- `c` is the machine configuration of replication set `R` under the zone numbering `zid`. -/
structure Corresponds (c : Cfg) (R : C02.RSetAll) (zid : String → Nat) : Prop where
  nodup : R.instances.Nodup
  zinj : ∀ x ∈ R.instances, ∀ y ∈ R.instances, zid x.zone = zid y.zone → x.zone = y.zone
  zones : c.zones = R.instances.map (fun x => zid x.zone)
  maxErrors : c.maxErrors = R.maxErrors
  maxUnavail : c.maxUnavail = R.maxUnavailableZones

/-- the instances whose results were returned. -/
def answered (R : C02.RSetAll) (rs : List Nat) : List Ring.Inst := rs.filterMap (R.instances[·]?)

theorem mem_answered {R : C02.RSetAll} {rs : List Nat} {x : Ring.Inst} :
    x ∈ answered R rs ↔ ∃ i, i ∈ rs ∧ R.instances[i]? = some x := by
  simp [answered, List.mem_filterMap]

theorem answered_length (R : C02.RSetAll) (rs : List Nat) (h : ∀ i, i ∈ rs → i < R.instances.length) :
    (answered R rs).length = rs.length := by
  induction rs with
  | nil => rfl
  | cons a l ih =>
    have ha := h a (by simp)
    simp only [answered, List.filterMap_cons, List.getElem?_eq_getElem ha, List.length_cons]
    exact congrArg (· + 1) (ih (fun i hi => h i (List.mem_cons_of_mem _ hi)))

theorem answered_nodup (R : C02.RSetAll) (hnd : R.instances.Nodup) (rs : List Nat) (hrs : rs.Nodup) : (answered R rs).Nodup := by
  induction rs with
  | nil => simp [answered]
  | cons a l ih =>
    have hn := List.nodup_cons.1 hrs
    simp only [answered, List.filterMap_cons]
    cases hget : R.instances[a]? with
    | none => exact ih hn.2
    | some x =>
      simp only []
      refine List.nodup_cons.2 ⟨?_, ih hn.2⟩
      intro hm
      obtain ⟨i, hi, hgi⟩ := mem_answered.1 hm
      -- two indexes with the same element in a duplicate-free list coincide
      have hlt1 : a < R.instances.length := (List.getElem?_eq_some_iff.1 hget).1
      have hlt2 : i < R.instances.length := (List.getElem?_eq_some_iff.1 hgi).1
      have e1 : R.instances[a] = x := (List.getElem?_eq_some_iff.1 hget).2
      have e2 : R.instances[i] = x := (List.getElem?_eq_some_iff.1 hgi).2
      have : a = i := (List.getElem_inj hnd).1 (e1.trans e2.symm)
      exact hn.1 (this ▸ hi)

/-! ### zone names and zone numbers -/

theorem mem_dedupStr (l : List String) (x : String) : x ∈ C02.dedupStr l ↔ x ∈ l := by
  induction l with
  | nil => simp [C02.dedupStr]
  | cons a l ih =>
    simp only [C02.dedupStr]
    split
    · rename_i h
      rw [ih]; simp only [List.mem_cons]
      constructor
      · exact Or.inr
      · rintro (h1 | h1)
        · subst h1; simpa using h
        · exact h1
    · simp only [List.mem_cons, ih]

theorem dedupStr_nodup (l : List String) : (C02.dedupStr l).Nodup := by
  induction l with
  | nil => simp [C02.dedupStr]
  | cons a l ih =>
    simp only [C02.dedupStr]
    split
    · exact ih
    · rename_i h
      refine List.nodup_cons.2 ⟨?_, ih⟩
      rw [mem_dedupStr]; simpa using h

/-- numbering the zone names injectively commutes with taking the distinct ones. -/
theorem distinct_map_zid (zid : String → Nat) : ∀ (l : List String),
    (∀ x, x ∈ l → ∀ y, y ∈ l → zid x = zid y → x = y) → distinct (l.map zid) = (C02.dedupStr l).map zid
  | [], _ => rfl
  | a :: l, hinj => by
    have ih := distinct_map_zid zid l (fun x hx y hy => hinj x (List.mem_cons_of_mem _ hx) y (List.mem_cons_of_mem _ hy))
    simp only [List.map_cons, distinct, C02.dedupStr]
    have hiff : zid a ∈ distinct (l.map zid) ↔ l.contains a = true := by
      rw [mem_distinct, List.mem_map]
      constructor
      · rintro ⟨y, hy, he⟩
        have := hinj y (List.mem_cons_of_mem _ hy) a (by simp) he
        subst this; simpa using hy
      · intro h; exact ⟨a, by simpa using h, rfl⟩
    by_cases hc : l.contains a = true
    · rw [if_pos (hiff.2 hc), if_pos hc]; exact ih
    · rw [if_neg (fun h => hc (hiff.1 h)), if_neg hc, List.map_cons, ih]


section link
variable {c : Cfg} {R : C02.RSetAll} {zid : String → Nat} {order : List Nat} {pre : Bool} {evs : List Ev} {s : St}

theorem corr_n (hc : Corresponds c R zid) : c.n = R.instances.length := by
  simp [Cfg.n, hc.zones]

theorem corr_zoneOf (hc : Corresponds c R zid) {j : Nat} {x : Ring.Inst} (hj : R.instances[j]? = some x) :
    c.zoneOf j = zid x.zone := by
  simp [Cfg.zoneOf, hc.zones, List.getD_eq_getElem?_getD, List.getElem?_map, hj]

theorem corr_zoneList (hc : Corresponds c R zid) : c.zoneList = (C02.zonesOf R.instances).map zid := by
  unfold Cfg.zoneList C02.zonesOf
  rw [hc.zones]
  have : R.instances.map (fun x => zid x.zone) = (R.instances.map (·.zone)).map zid := by simp
  rw [this]
  apply distinct_map_zid
  intro a ha b hb hab
  obtain ⟨x, hx, rfl⟩ := List.mem_map.1 ha
  obtain ⟨y, hy, rfl⟩ := List.mem_map.1 hb
  exact hc.zinj x hx y hy hab

/-- not zone-aware: the instances whose results are returned satisfy C02's `readOkFlat`. -/
theorem link_flat (hc : Corresponds c R zid) (hr : run c (init c order pre) evs = some s) (hz : c.zoneMode = false)
    {rs : List Nat} (hm : s.main = .retOk rs) : C02.readOkFlat (answered R rs) R := by
  obtain ⟨hnd, hlt⟩ := returns_only_successes hr hm
  have hq := returns_quorum_flat hr hz hm
  have hn := corr_n hc
  have hlt' : ∀ i, i ∈ rs → i < R.instances.length := fun i hi => hn ▸ (hlt i hi).1
  refine ⟨answered_nodup R hc.nodup rs hnd, ?_, ?_⟩
  · intro b hb
    obtain ⟨i, _, hgi⟩ := mem_answered.1 hb
    exact List.mem_of_getElem? hgi
  · rw [answered_length R rs hlt', ← hn, ← hc.maxErrors]; omega

/-- the zones (names) all of whose instances are among the returned results. -/
def answeredZones (c : Cfg) (R : C02.RSetAll) (zid : String → Nat) (rs : List Nat) : List String :=
  (C02.zonesOf R.instances).filter fun z => zoneIn c rs (zid z)

/-- zone-aware: the zones whose results are returned satisfy C02's `readOkZones`; they are exactly
the zones all of whose instances answered, and every returned result comes from one of them. -/
theorem link_zones (hc : Corresponds c R zid) (hr : run c (init c order pre) evs = some s) (hz : c.zoneMode = true)
    {rs : List Nat} (hm : s.main = .retOk rs) :
    C02.readOkZones (answeredZones c R zid rs) R ∧
    (∀ z, z ∈ answeredZones c R zid rs → ∀ x, x ∈ R.instances → x.zone = z → x ∈ answered R rs) ∧
    (∀ b, b ∈ answered R rs → b.zone ∈ answeredZones c R zid rs) := by
  obtain ⟨hq1, hq2⟩ := returns_quorum_zone hr hz hm
  have hzl := corr_zoneList hc
  refine ⟨⟨?_, ?_, ?_⟩, ?_, ?_⟩
  · exact List.Nodup.sublist List.filter_sublist (dedupStr_nodup _)
  · intro z hzm; exact (List.mem_filter.1 hzm).1
  · rw [hzl, List.filter_map, List.length_map, List.length_map] at hq1
    have : (List.filter (zoneIn c rs ∘ zid) (C02.zonesOf R.instances)) = answeredZones c R zid rs := rfl
    rw [this, hc.maxUnavail] at hq1
    omega
  · intro z hzm x hx hxz
    have hzin := (List.mem_filter.1 hzm).2
    obtain ⟨j, hj, hgj⟩ := List.getElem_of_mem hx
    have hgj' : R.instances[j]? = some x := by rw [List.getElem?_eq_getElem hj, hgj]
    have hzo := corr_zoneOf hc hgj'
    simp only [zoneIn, List.all_eq_true, List.mem_range, decide_eq_true_eq] at hzin
    have hjr := hzin j (by rw [corr_n hc]; exact hj) (by rw [hzo, hxz])
    exact mem_answered.2 ⟨j, hjr, hgj'⟩
  · intro b hb
    obtain ⟨i, hi, hgi⟩ := mem_answered.1 hb
    refine List.mem_filter.2 ⟨?_, ?_⟩
    · unfold C02.zonesOf; rw [mem_dedupStr]
      exact List.mem_map.2 ⟨b, List.mem_of_getElem? hgi, rfl⟩
    · rw [← corr_zoneOf hc hgi]; exact hq2 i hi

end link
end PfC11
