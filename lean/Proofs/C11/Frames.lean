import Model.C11
/-!
# C11 — proofs about the quorum-read transition system of `Model/C11.lean`

Part A: frames and the structural invariant `InvA` (start log, channel, finish log, results, cleanup).
-/
namespace PfC11
open C11

theorem upd_apply {α} (f : Nat → α) (i j : Nat) (v : α) : upd f i v j = if j = i then v else f j := rfl

/-! ## frames: fields that the helper functions leave alone -/

@[simp] theorem onSucceeded_ctx (c : Cfg) (s : St) : (onSucceeded c s).ctx = s.ctx := by simp [onSucceeded]
@[simp] theorem onSucceeded_phase (c : Cfg) (s : St) : (onSucceeded c s).phase = s.phase := by simp [onSucceeded]
@[simp] theorem onSucceeded_chan (c : Cfg) (s : St) : (onSucceeded c s).chan = s.chan := by simp [onSucceeded]
@[simp] theorem onSucceeded_nSucc (c : Cfg) (s : St) : (onSucceeded c s).nSucc = s.nSucc := by simp [onSucceeded]
@[simp] theorem onSucceeded_nErr (c : Cfg) (s : St) : (onSucceeded c s).nErr = s.nErr := by simp [onSucceeded]
@[simp] theorem onSucceeded_waiting (c : Cfg) (s : St) : (onSucceeded c s).waiting = s.waiting := by simp [onSucceeded]
@[simp] theorem onSucceeded_fails (c : Cfg) (s : St) : (onSucceeded c s).fails = s.fails := by simp [onSucceeded]
@[simp] theorem onSucceeded_resMap (c : Cfg) (s : St) : (onSucceeded c s).resMap = s.resMap := by simp [onSucceeded]
@[simp] theorem onSucceeded_main (c : Cfg) (s : St) : (onSucceeded c s).main = s.main := by simp [onSucceeded]
@[simp] theorem onSucceeded_parentCanc (c : Cfg) (s : St) : (onSucceeded c s).parentCanc = s.parentCanc := by simp [onSucceeded]
@[simp] theorem onSucceeded_started (c : Cfg) (s : St) : (onSucceeded c s).started = s.started := by simp [onSucceeded]
@[simp] theorem onSucceeded_cleaned (c : Cfg) (s : St) : (onSucceeded c s).cleaned = s.cleaned := by simp [onSucceeded]
@[simp] theorem onSucceeded_doneErr (c : Cfg) (s : St) : (onSucceeded c s).doneErr = s.doneErr := by simp [onSucceeded]
@[simp] theorem onSucceeded_released (c : Cfg) (s : St) : (onSucceeded c s).released = s.released := by simp [onSucceeded]
@[simp] theorem onSucceeded_fin (c : Cfg) (s : St) : (onSucceeded c s).fin = s.fin := by simp [onSucceeded]
@[simp] theorem onSucceeded_nTicks (c : Cfg) (s : St) : (onSucceeded c s).nTicks = s.nTicks := by simp [onSucceeded]
@[simp] theorem onSucceeded_nFailRel (c : Cfg) (s : St) : (onSucceeded c s).nFailRel = s.nFailRel := by simp [onSucceeded]
@[simp] theorem releaseNext_ctx (c : Cfg) (s : St) : (releaseNext c s).ctx = s.ctx := by unfold releaseNext; split <;> simp
@[simp] theorem releaseNext_phase (c : Cfg) (s : St) : (releaseNext c s).phase = s.phase := by unfold releaseNext; split <;> simp
@[simp] theorem releaseNext_chan (c : Cfg) (s : St) : (releaseNext c s).chan = s.chan := by unfold releaseNext; split <;> simp
@[simp] theorem releaseNext_nSucc (c : Cfg) (s : St) : (releaseNext c s).nSucc = s.nSucc := by unfold releaseNext; split <;> simp
@[simp] theorem releaseNext_nErr (c : Cfg) (s : St) : (releaseNext c s).nErr = s.nErr := by unfold releaseNext; split <;> simp
@[simp] theorem releaseNext_waiting (c : Cfg) (s : St) : (releaseNext c s).waiting = s.waiting := by unfold releaseNext; split <;> simp
@[simp] theorem releaseNext_fails (c : Cfg) (s : St) : (releaseNext c s).fails = s.fails := by unfold releaseNext; split <;> simp
@[simp] theorem releaseNext_resMap (c : Cfg) (s : St) : (releaseNext c s).resMap = s.resMap := by unfold releaseNext; split <;> simp
@[simp] theorem releaseNext_main (c : Cfg) (s : St) : (releaseNext c s).main = s.main := by unfold releaseNext; split <;> simp
@[simp] theorem releaseNext_parentCanc (c : Cfg) (s : St) : (releaseNext c s).parentCanc = s.parentCanc := by unfold releaseNext; split <;> simp
@[simp] theorem releaseNext_started (c : Cfg) (s : St) : (releaseNext c s).started = s.started := by unfold releaseNext; split <;> simp
@[simp] theorem releaseNext_cleaned (c : Cfg) (s : St) : (releaseNext c s).cleaned = s.cleaned := by unfold releaseNext; split <;> simp
@[simp] theorem releaseNext_doneErr (c : Cfg) (s : St) : (releaseNext c s).doneErr = s.doneErr := by unfold releaseNext; split <;> simp
@[simp] theorem releaseNext_fin (c : Cfg) (s : St) : (releaseNext c s).fin = s.fin := by unfold releaseNext; split <;> simp
@[simp] theorem releaseNext_nTicks (c : Cfg) (s : St) : (releaseNext c s).nTicks = s.nTicks := by unfold releaseNext; split <;> simp
@[simp] theorem releaseNext_nFailRel (c : Cfg) (s : St) : (releaseNext c s).nFailRel = s.nFailRel := by unfold releaseNext; split <;> simp

theorem trackerDone_frame (c : Cfg) (s : St) (i : Nat) (b : Bool) :
    (trackerDone c s i b).ctx = s.ctx ∧ (trackerDone c s i b).phase = s.phase ∧ (trackerDone c s i b).chan = s.chan ∧
    (trackerDone c s i b).resMap = s.resMap ∧ (trackerDone c s i b).main = s.main ∧ (trackerDone c s i b).parentCanc = s.parentCanc ∧
    (trackerDone c s i b).started = s.started ∧ (trackerDone c s i b).cleaned = s.cleaned ∧ (trackerDone c s i b).doneErr = s.doneErr ∧
    (trackerDone c s i b).fin = s.fin ∧ (trackerDone c s i b).nTicks = s.nTicks := by
  by_cases hz : c.zoneMode <;> cases b <;> simp only [trackerDone, hz] <;> (repeat' split) <;> simp

@[simp] theorem trackerDone_ctx (c : Cfg) (s : St) (i : Nat) (b : Bool) : (trackerDone c s i b).ctx = s.ctx := (trackerDone_frame c s i b).1
@[simp] theorem trackerDone_phase (c : Cfg) (s : St) (i : Nat) (b : Bool) : (trackerDone c s i b).phase = s.phase := (trackerDone_frame c s i b).2.1
@[simp] theorem trackerDone_chan (c : Cfg) (s : St) (i : Nat) (b : Bool) : (trackerDone c s i b).chan = s.chan := (trackerDone_frame c s i b).2.2.1
@[simp] theorem trackerDone_resMap (c : Cfg) (s : St) (i : Nat) (b : Bool) : (trackerDone c s i b).resMap = s.resMap := (trackerDone_frame c s i b).2.2.2.1
@[simp] theorem trackerDone_main (c : Cfg) (s : St) (i : Nat) (b : Bool) : (trackerDone c s i b).main = s.main := (trackerDone_frame c s i b).2.2.2.2.1
@[simp] theorem trackerDone_parentCanc (c : Cfg) (s : St) (i : Nat) (b : Bool) : (trackerDone c s i b).parentCanc = s.parentCanc := (trackerDone_frame c s i b).2.2.2.2.2.1
@[simp] theorem trackerDone_started (c : Cfg) (s : St) (i : Nat) (b : Bool) : (trackerDone c s i b).started = s.started := (trackerDone_frame c s i b).2.2.2.2.2.2.1
@[simp] theorem trackerDone_cleaned (c : Cfg) (s : St) (i : Nat) (b : Bool) : (trackerDone c s i b).cleaned = s.cleaned := (trackerDone_frame c s i b).2.2.2.2.2.2.2.1
@[simp] theorem trackerDone_doneErr (c : Cfg) (s : St) (i : Nat) (b : Bool) : (trackerDone c s i b).doneErr = s.doneErr := (trackerDone_frame c s i b).2.2.2.2.2.2.2.2.1
@[simp] theorem trackerDone_fin (c : Cfg) (s : St) (i : Nat) (b : Bool) : (trackerDone c s i b).fin = s.fin := (trackerDone_frame c s i b).2.2.2.2.2.2.2.2.2.1
@[simp] theorem trackerDone_nTicks (c : Cfg) (s : St) (i : Nat) (b : Bool) : (trackerDone c s i b).nTicks = s.nTicks := (trackerDone_frame c s i b).2.2.2.2.2.2.2.2.2.2

@[simp] theorem finishOk_rel (c : Cfg) (s : St) : (finishOk c s).rel = s.rel := by simp [finishOk]
@[simp] theorem finishOk_phase (c : Cfg) (s : St) : (finishOk c s).phase = s.phase := by simp [finishOk]
@[simp] theorem finishOk_chan (c : Cfg) (s : St) : (finishOk c s).chan = s.chan := by simp [finishOk]
@[simp] theorem finishOk_nSucc (c : Cfg) (s : St) : (finishOk c s).nSucc = s.nSucc := by simp [finishOk]
@[simp] theorem finishOk_nErr (c : Cfg) (s : St) : (finishOk c s).nErr = s.nErr := by simp [finishOk]
@[simp] theorem finishOk_waiting (c : Cfg) (s : St) : (finishOk c s).waiting = s.waiting := by simp [finishOk]
@[simp] theorem finishOk_fails (c : Cfg) (s : St) : (finishOk c s).fails = s.fails := by simp [finishOk]
@[simp] theorem finishOk_pending (c : Cfg) (s : St) : (finishOk c s).pending = s.pending := by simp [finishOk]
@[simp] theorem finishOk_resMap (c : Cfg) (s : St) : (finishOk c s).resMap = s.resMap := by simp [finishOk]
@[simp] theorem finishOk_parentCanc (c : Cfg) (s : St) : (finishOk c s).parentCanc = s.parentCanc := by simp [finishOk]
@[simp] theorem finishOk_started (c : Cfg) (s : St) : (finishOk c s).started = s.started := by simp [finishOk]
@[simp] theorem finishOk_doneErr (c : Cfg) (s : St) : (finishOk c s).doneErr = s.doneErr := by simp [finishOk]
@[simp] theorem finishOk_released (c : Cfg) (s : St) : (finishOk c s).released = s.released := by simp [finishOk]
@[simp] theorem finishOk_fin (c : Cfg) (s : St) : (finishOk c s).fin = s.fin := by simp [finishOk]
@[simp] theorem finishOk_nTicks (c : Cfg) (s : St) : (finishOk c s).nTicks = s.nTicks := by simp [finishOk]
@[simp] theorem finishOk_nFailRel (c : Cfg) (s : St) : (finishOk c s).nFailRel = s.nFailRel := by simp [finishOk]
@[simp] theorem loopHead_rel (c : Cfg) (s : St) : (loopHead c s).rel = s.rel := by unfold loopHead; split <;> simp
@[simp] theorem loopHead_phase (c : Cfg) (s : St) : (loopHead c s).phase = s.phase := by unfold loopHead; split <;> simp
@[simp] theorem loopHead_chan (c : Cfg) (s : St) : (loopHead c s).chan = s.chan := by unfold loopHead; split <;> simp
@[simp] theorem loopHead_nSucc (c : Cfg) (s : St) : (loopHead c s).nSucc = s.nSucc := by unfold loopHead; split <;> simp
@[simp] theorem loopHead_nErr (c : Cfg) (s : St) : (loopHead c s).nErr = s.nErr := by unfold loopHead; split <;> simp
@[simp] theorem loopHead_waiting (c : Cfg) (s : St) : (loopHead c s).waiting = s.waiting := by unfold loopHead; split <;> simp
@[simp] theorem loopHead_fails (c : Cfg) (s : St) : (loopHead c s).fails = s.fails := by unfold loopHead; split <;> simp
@[simp] theorem loopHead_pending (c : Cfg) (s : St) : (loopHead c s).pending = s.pending := by unfold loopHead; split <;> simp
@[simp] theorem loopHead_resMap (c : Cfg) (s : St) : (loopHead c s).resMap = s.resMap := by unfold loopHead; split <;> simp
@[simp] theorem loopHead_parentCanc (c : Cfg) (s : St) : (loopHead c s).parentCanc = s.parentCanc := by unfold loopHead; split <;> simp
@[simp] theorem loopHead_started (c : Cfg) (s : St) : (loopHead c s).started = s.started := by unfold loopHead; split <;> simp
@[simp] theorem loopHead_doneErr (c : Cfg) (s : St) : (loopHead c s).doneErr = s.doneErr := by unfold loopHead; split <;> simp
@[simp] theorem loopHead_released (c : Cfg) (s : St) : (loopHead c s).released = s.released := by unfold loopHead; split <;> simp
@[simp] theorem loopHead_fin (c : Cfg) (s : St) : (loopHead c s).fin = s.fin := by unfold loopHead; split <;> simp
@[simp] theorem loopHead_nTicks (c : Cfg) (s : St) : (loopHead c s).nTicks = s.nTicks := by unfold loopHead; split <;> simp
@[simp] theorem loopHead_nFailRel (c : Cfg) (s : St) : (loopHead c s).nFailRel = s.nFailRel := by unfold loopHead; split <;> simp

@[simp] theorem terminate_eq (c : Cfg) (s : St) (e : ErrKind) :
    terminate c s e = { s with ctx := fun _ => true, cleaned := s.cleaned ++ s.resMap, main := .retErr e } := rfl

/-- the two possible outcomes of the loop head. -/
theorem loopHead_cases (c : Cfg) (s : St) :
    (succeeded c s = false ∧ loopHead c s = s) ∨
    (succeeded c s = true ∧ (loopHead c s).main = .retOk ((List.range c.n).filter fun j => decide (j ∈ s.resMap) && includes c s j) ∧
      (loopHead c s).cleaned = s.cleaned ++ (List.range c.n).filter fun j => decide (j ∈ s.resMap) && !includes c s j) := by
  unfold loopHead
  by_cases h : succeeded c s = true
  · right; simp only [h, if_true, finishOk, true_and]
    exact ⟨by congr 1, trivial⟩
  · left; simp only [Bool.not_eq_true] at h; simp [h]

/-! ## what a `recv` does to the fields of the structural invariant -/

/-- the main function after a loop iteration: still running; returned an error after cleaning up `R`;
or returned the part of `R` selected by some predicate and cleaned up the rest. -/
def Outcome (c : Cfg) (cleaned0 R : List Nat) (t : St) (isOk : Bool) : Prop :=
  (t.main = .running ∧ t.cleaned = cleaned0) ∨
  (isOk = false ∧ (∃ e, t.main = .retErr e) ∧ t.cleaned = cleaned0 ++ R) ∨
  (∃ inc : Nat → Bool, t.main = .retOk ((List.range c.n).filter fun j => decide (j ∈ R) && inc j) ∧
     t.cleaned = cleaned0 ++ (List.range c.n).filter fun j => decide (j ∈ R) && !inc j)

theorem loopHead_outcome (c : Cfg) (s : St) (b : Bool) (hm : s.main = .running) :
    Outcome c s.cleaned s.resMap (loopHead c s) b := by
  rcases loopHead_cases c s with ⟨_, h⟩ | ⟨_, h1, h2⟩
  · left; rw [h]; exact ⟨hm, rfl⟩
  · right; right; exact ⟨includes c s, h1, h2⟩

theorem recvOk_sum (c : Cfg) (s1 : St) (i : Nat) (hm : s1.main = .running) :
    (recvOk c s1 i).phase = s1.phase ∧ (recvOk c s1 i).chan = s1.chan ∧ (recvOk c s1 i).fin = s1.fin ∧
    (recvOk c s1 i).started = s1.started ∧ (recvOk c s1 i).parentCanc = s1.parentCanc ∧
    (recvOk c s1 i).resMap = s1.resMap ++ [i] ∧ Outcome c s1.cleaned (s1.resMap ++ [i]) (recvOk c s1 i) true := by
  unfold recvOk
  refine ⟨by simp, by simp, by simp, by simp, by simp, by simp, ?_⟩
  exact loopHead_outcome c { s1 with resMap := s1.resMap ++ [i] } true hm

theorem recvErr_sum (c : Cfg) (s1 : St) (i : Nat) (r : Res) (hm : s1.main = .running) :
    (recvErr c s1 i r).phase = s1.phase ∧ (recvErr c s1 i r).chan = s1.chan ∧ (recvErr c s1 i r).fin = s1.fin ∧
    (recvErr c s1 i r).started = s1.started ∧ (recvErr c s1 i r).parentCanc = s1.parentCanc ∧
    (recvErr c s1 i r).resMap = s1.resMap ∧ Outcome c s1.cleaned s1.resMap (recvErr c s1 i r) false := by
  unfold recvErr
  simp only []
  split
  · refine ⟨by simp, by simp, by simp, by simp, by simp, by simp, ?_⟩
    right; left; exact ⟨rfl, ⟨_, rfl⟩, rfl⟩
  · refine ⟨by simp, by simp, by simp, by simp, by simp, by simp, ?_⟩
    exact loopHead_outcome c { s1 with ctx := cancelFor c s1.ctx i, doneErr := s1.doneErr ++ [i] } false hm

/-- a terminal result is an error. -/
theorem isTerminal_ne_ok {c : Cfg} {s : St} {i : Nat} {r : Res} (h : isTerminal c s i r = true) : r ≠ .ok := by
  intro hr; subst hr; simp [isTerminal] at h

theorem recvStep_sum (c : Cfg) (s : St) (i : Nat) (r : Res) (rest : List (Nat × Res)) (hm : s.main = .running) :
    (recvStep c s i r rest).phase = upd s.phase i .consumed ∧ (recvStep c s i r rest).chan = rest ∧
    (recvStep c s i r rest).fin = s.fin ∧ (recvStep c s i r rest).started = s.started ∧
    (recvStep c s i r rest).parentCanc = s.parentCanc ∧
    (recvStep c s i r rest).resMap = (if r = .ok then s.resMap ++ [i] else s.resMap) ∧
    Outcome c s.cleaned (if r = .ok then s.resMap ++ [i] else s.resMap) (recvStep c s i r rest) (decide (r = .ok)) := by
  unfold recvStep
  simp only []
  split
  · rename_i ht
    have hr : r ≠ .ok := isTerminal_ne_ok ht
    refine ⟨by simp, by simp, by simp, by simp, by simp, by simp [hr], ?_⟩
    right; left; simp [hr]
  · split
    · rename_i _ hr
      have := recvOk_sum c (trackerDone c { s with chan := rest, phase := upd s.phase i .consumed } i false) i (by simp [hm])
      simpa [hr] using this
    · rename_i _ hr
      have := recvErr_sum c (trackerDone c { s with chan := rest, phase := upd s.phase i .consumed } i true) i r (by simp [hm])
      simpa [hr] using this

@[simp] theorem startRequests_ctx (c : Cfg) (o : List Nat) (s : St) : (startRequests c o s).ctx = s.ctx := by unfold startRequests; split <;> (try (simp only []; split)) <;> simp
@[simp] theorem startRequests_phase (c : Cfg) (o : List Nat) (s : St) : (startRequests c o s).phase = s.phase := by unfold startRequests; split <;> (try (simp only []; split)) <;> simp
@[simp] theorem startRequests_chan (c : Cfg) (o : List Nat) (s : St) : (startRequests c o s).chan = s.chan := by unfold startRequests; split <;> (try (simp only []; split)) <;> simp
@[simp] theorem startRequests_nSucc (c : Cfg) (o : List Nat) (s : St) : (startRequests c o s).nSucc = s.nSucc := by unfold startRequests; split <;> (try (simp only []; split)) <;> simp
@[simp] theorem startRequests_nErr (c : Cfg) (o : List Nat) (s : St) : (startRequests c o s).nErr = s.nErr := by unfold startRequests; split <;> (try (simp only []; split)) <;> simp
@[simp] theorem startRequests_waiting (c : Cfg) (o : List Nat) (s : St) : (startRequests c o s).waiting = s.waiting := by unfold startRequests; split <;> (try (simp only []; split)) <;> simp
@[simp] theorem startRequests_fails (c : Cfg) (o : List Nat) (s : St) : (startRequests c o s).fails = s.fails := by unfold startRequests; split <;> (try (simp only []; split)) <;> simp
@[simp] theorem startRequests_resMap (c : Cfg) (o : List Nat) (s : St) : (startRequests c o s).resMap = s.resMap := by unfold startRequests; split <;> (try (simp only []; split)) <;> simp
@[simp] theorem startRequests_main (c : Cfg) (o : List Nat) (s : St) : (startRequests c o s).main = s.main := by unfold startRequests; split <;> (try (simp only []; split)) <;> simp
@[simp] theorem startRequests_parentCanc (c : Cfg) (o : List Nat) (s : St) : (startRequests c o s).parentCanc = s.parentCanc := by unfold startRequests; split <;> (try (simp only []; split)) <;> simp
@[simp] theorem startRequests_started (c : Cfg) (o : List Nat) (s : St) : (startRequests c o s).started = s.started := by unfold startRequests; split <;> (try (simp only []; split)) <;> simp
@[simp] theorem startRequests_cleaned (c : Cfg) (o : List Nat) (s : St) : (startRequests c o s).cleaned = s.cleaned := by unfold startRequests; split <;> (try (simp only []; split)) <;> simp
@[simp] theorem startRequests_doneErr (c : Cfg) (o : List Nat) (s : St) : (startRequests c o s).doneErr = s.doneErr := by unfold startRequests; split <;> (try (simp only []; split)) <;> simp
@[simp] theorem startRequests_fin (c : Cfg) (o : List Nat) (s : St) : (startRequests c o s).fin = s.fin := by unfold startRequests; split <;> (try (simp only []; split)) <;> simp
@[simp] theorem startRequests_nTicks (c : Cfg) (o : List Nat) (s : St) : (startRequests c o s).nTicks = s.nTicks := by unfold startRequests; split <;> (try (simp only []; split)) <;> simp
@[simp] theorem startRequests_nFailRel (c : Cfg) (o : List Nat) (s : St) : (startRequests c o s).nFailRel = s.nFailRel := by unfold startRequests; split <;> (try (simp only []; split)) <;> simp

@[simp] theorem releaseNext_abT (c : Cfg) (s : St) : (releaseNext c s).abT = s.abT := by unfold releaseNext; split <;> simp
@[simp] theorem onSucceeded_abT (c : Cfg) (s : St) : (onSucceeded c s).abT = s.abT := by simp [onSucceeded]
@[simp] theorem trackerDone_abT (c : Cfg) (s : St) (i : Nat) (b : Bool) : (trackerDone c s i b).abT = s.abT := by
  by_cases hz : c.zoneMode <;> cases b <;> simp only [trackerDone, hz] <;> (repeat' split) <;> simp
@[simp] theorem finishOk_abT (c : Cfg) (s : St) : (finishOk c s).abT = s.abT := by simp [finishOk]
@[simp] theorem loopHead_abT (c : Cfg) (s : St) : (loopHead c s).abT = s.abT := by unfold loopHead; split <;> simp
@[simp] theorem startRequests_abT (c : Cfg) (o : List Nat) (s : St) : (startRequests c o s).abT = s.abT := by unfold startRequests; split <;> (try (simp only []; split)) <;> simp

end PfC11
