import Proofs.C11.InvC
/-! Derived theorems about a single replication set. -/
namespace PfC11
open C11

/-- a duplicate-free list of numbers below `n`, read off in increasing order, has the same length. -/
theorem length_filter_mem : ∀ (n : Nat) (l : List Nat), l.Nodup → (∀ x, x ∈ l → x < n) →
    ((List.range n).filter fun j => decide (j ∈ l)).length = l.length
  | 0, l, _, hlt => by
    cases l with
    | nil => rfl
    | cons a l => exact absurd (hlt a (by simp)) (Nat.not_lt_zero a)
  | n + 1, l, hn, hlt => by
    rw [List.range_succ, List.filter_append, List.length_append]
    by_cases hmem : n ∈ l
    · have hn' : (l.erase n).Nodup := hn.sublist List.erase_sublist
      have hlt' : ∀ x, x ∈ l.erase n → x < n := by
        intro x hx
        have h1 := hlt x (List.mem_of_mem_erase hx)
        have h2 : x ≠ n := fun he => by
          subst he; exact (List.Nodup.mem_erase_iff hn).1 hx |>.1 rfl
        omega
      have ih := length_filter_mem n (l.erase n) hn' hlt'
      have hcongr : (List.range n).filter (fun j => decide (j ∈ l)) = (List.range n).filter (fun j => decide (j ∈ l.erase n)) := by
        apply List.filter_congr
        intro x hx
        have : x ≠ n := by have := List.mem_range.1 hx; omega
        simp [List.mem_erase_of_ne this]
      rw [hcongr, ih]
      have hlen : (l.erase n).length = l.length - 1 := List.length_erase_of_mem hmem
      have hpos : l.length > 0 := List.length_pos_of_mem hmem
      simp [hmem]; omega
    · have hlt' : ∀ x, x ∈ l → x < n := by
        intro x hx
        have h1 := hlt x hx
        have h2 : x ≠ n := fun he => hmem (he ▸ hx)
        omega
      rw [length_filter_mem n l hn hlt']
      simp [hmem]

theorem length_filter_le_of_imp {α} (l : List α) (p q : α → Bool) (h : ∀ x, x ∈ l → p x = true → q x = true) :
    (l.filter p).length ≤ (l.filter q).length := by
  induction l with
  | nil => simp
  | cons a l ih =>
    have ih' := ih (fun x hx => h x (List.mem_cons_of_mem _ hx))
    simp only [List.filter_cons]
    by_cases hp : p a = true
    · have hq := h a (by simp) hp
      simp [hp, hq]; exact ih'
    · simp only [hp]
      by_cases hq : q a = true
      · simp [hq]; omega
      · simp [hq]; exact ih'

/-! ## derived theorems (single replication set) -/

section single
variable {c : Cfg} {order : List Nat} {pre : Bool} {evs : List Ev} {s : St}

theorem called_at_most_once (hr : run c (init c order pre) evs = some s) :
    s.started.Nodup ∧ ∀ i, i ∈ s.started → i < c.n :=
  ⟨(invA_reach hr).started_nodup, (invA_reach hr).started_lt⟩

theorem returns_only_successes (hr : run c (init c order pre) evs = some s) {rs} (hm : s.main = .retOk rs) :
    rs.Nodup ∧ ∀ i, i ∈ rs → i < c.n ∧ (i, Res.ok) ∈ s.fin ∧ s.phase i = .consumed ∧ i ∉ s.cleaned := by
  obtain ⟨hA, hB, _⟩ := inv_reachC hr
  have h1 := (hB.ok_ret rs hm).1
  refine ⟨by rw [h1]; exact List.Nodup.sublist List.filter_sublist List.nodup_range, ?_⟩
  intro i hi
  have h2 := (hA.ok_split rs hm i).2 (Or.inl hi)
  refine ⟨?_, h2.1, h2.2, hA.ok_disj rs hm i hi⟩
  rw [h1] at hi
  exact List.mem_range.1 (List.mem_filter.1 hi).1

theorem returns_quorum_flat (hr : run c (init c order pre) evs = some s) (hz : c.zoneMode = false) {rs}
    (hm : s.main = .retOk rs) : rs.length + c.maxErrors ≥ c.n := by
  obtain ⟨hA, hB, hC⟩ := inv_reachC hr
  obtain ⟨h1, h2, _⟩ := hB.ok_ret rs hm
  have hk : kept c s = fun j => decide (j ∈ s.resMap) := by
    funext j; simp [kept, includes, hz]
  rw [hk] at h1
  have hlen := length_filter_mem c.n s.resMap hA.res_nodup hA.res_lt
  simp only [succeeded, hz, Bool.false_eq_true, if_false, decide_eq_true_eq] at h2
  rw [h1, hlen, ← hC.flat_succ hz]
  exact h2

/-- all instances of zone `z` are in `rs`. -/
def zoneIn (c : Cfg) (rs : List Nat) (z : Nat) : Bool := (List.range c.n).all fun j => decide (c.zoneOf j = z → j ∈ rs)

theorem zone_complete_all_ok (hC : InvC c s) (hz : c.zoneMode = true) {z : Nat}
    (hw : s.waiting z = 0) (hf : s.fails z = 0) : ∀ j, j < c.n → c.zoneOf j = z → j ∈ s.resMap := by
  intro j hj hjz
  have h1 := hC.zone_wait hz z
  have h2 := hC.zone_fail hz z
  rw [hw] at h1; rw [hf] at h2
  have h1' := List.countP_eq_zero.1 h1.symm j (List.mem_range.2 hj)
  have hnd : j ∉ s.doneErr := by
    intro hm
    have := List.countP_eq_zero.1 h2.symm j hm
    simp [hjz] at this
  simp only [waitingPred, hjz, decide_true, Bool.true_and, Bool.and_eq_true, Bool.not_eq_eq_eq_not, Bool.not_true,
    decide_eq_false_iff_not, not_and, Decidable.not_not] at h1'
  by_cases hm : j ∈ s.resMap
  · exact hm
  · exact absurd (h1' hm) hnd

theorem returns_quorum_zone (hr : run c (init c order pre) evs = some s) (hz : c.zoneMode = true) {rs}
    (hm : s.main = .retOk rs) :
    (c.zoneList.filter (zoneIn c rs)).length + c.maxUnavail ≥ c.zoneList.length ∧
    ∀ i, i ∈ rs → zoneIn c rs (c.zoneOf i) = true := by
  obtain ⟨hA, hB, hC⟩ := inv_reachC hr
  obtain ⟨h1, h2, _⟩ := hB.ok_ret rs hm
  have hcomp : ∀ z, (s.waiting z == 0 && s.fails z == 0) = true → zoneIn c rs z = true := by
    intro z hzc
    simp only [Bool.and_eq_true, beq_iff_eq] at hzc
    simp only [zoneIn, List.all_eq_true, List.mem_range, decide_eq_true_eq]
    intro j hj hjz
    have hjr := zone_complete_all_ok hC hz hzc.1 hzc.2 j hj hjz
    rw [h1]
    refine List.mem_filter.2 ⟨List.mem_range.2 hj, ?_⟩
    simp [kept, includes, hz, hjr, hjz, hzc.1, hzc.2]
  refine ⟨?_, ?_⟩
  · simp only [succeeded, hz, if_true, decide_eq_true_eq] at h2
    have := length_filter_le_of_imp c.zoneList (fun z => s.waiting z == 0 && s.fails z == 0) (zoneIn c rs) (fun z _ h => hcomp z h)
    omega
  · intro i hi
    have hi' := hi
    rw [h1] at hi'
    have hk := (List.mem_filter.1 hi').2
    simp only [kept, includes, hz, if_true, Bool.and_eq_true, decide_eq_true_eq, beq_iff_eq] at hk
    exact hcomp (c.zoneOf i) (by simp [hk.2.1, hk.2.2])

theorem error_has_cause (hr : run c (init c order pre) evs = some s) {e} (hm : s.main = .retErr e) :
    (e = .invalid ∧ c.invalid = true) ∨
    (e = .cancelled ∧ s.parentCanc = true) ∨
    (failed c s = true ∧ ∃ i, s.doneErr.getLast? = some i ∧ (e = .inst i ∨ e = .cancelled)) ∨
    (∃ i, e = .inst i ∧ c.hasTerm = true ∧ (i, Res.term) ∈ s.fin) ∨
    (e = .cancelled ∧ c.hasTerm = true ∧ ∃ i, s.abT i = true) := by
  obtain ⟨_, hB, _⟩ := inv_reachC hr
  rcases hB.err_ret e hm with ⟨h1, h2, _⟩ | ⟨_, _, h3 | h3 | h3 | h3⟩
  · exact Or.inl ⟨h1, h2⟩
  · exact Or.inr (Or.inl h3)
  · exact Or.inr (Or.inr (Or.inl h3))
  · exact Or.inr (Or.inr (Or.inr (Or.inl h3)))
  · exact Or.inr (Or.inr (Or.inr (Or.inr h3)))

/-- the tracker's counters count the history: successes received (`resMap`), failures counted (`doneErr`). -/
theorem counters_match_history (hr : run c (init c order pre) evs = some s) :
    (c.zoneMode = false → s.nSucc = s.resMap.length ∧ s.nErr = s.doneErr.length) ∧
    (c.zoneMode = true → ∀ z, s.waiting z = (List.range c.n).countP (waitingPred c s.resMap s.doneErr z) ∧
        s.fails z = s.doneErr.countP (fun j => decide (c.zoneOf j = z))) ∧
    (∀ i, i ∈ s.resMap → i < c.n ∧ (i, Res.ok) ∈ s.fin) ∧
    (s.main = .running → ∀ i, i ∈ s.resMap ↔ ((i, Res.ok) ∈ s.fin ∧ s.phase i = .consumed)) ∧
    s.resMap.Nodup ∧ s.doneErr.Nodup ∧
    (∀ i, i ∈ s.doneErr → i < c.n ∧ (i, Res.ok) ∉ s.fin ∧ s.phase i = .consumed) := by
  obtain ⟨hA, _, hC⟩ := inv_reachC hr
  exact ⟨fun hz => ⟨hC.flat_succ hz, hC.flat_err hz⟩, fun hz z => ⟨hC.zone_wait hz z, hC.zone_fail hz z⟩,
    fun i hi => ⟨hA.res_lt i hi, hC.res_fin i hi⟩, hA.run_res, hA.res_nodup, hC.done_nodup,
    fun i hi => ⟨hC.done_lt i hi, hC.done_nok i hi, hC.done_phase i hi⟩⟩

/-- while the main loop runs — in terms of what it has received: not zone-aware, at most `MaxErrors`
failures counted and fewer than `n − MaxErrors` successes received; zone-aware, failures in at most
`MaxUnavailableZones` zones and fewer than `zones − MaxUnavailableZones` zones complete (a zone is
complete when none of its instances is outstanding or failed). -/
theorem running_means_undecided_obs (hr : run c (init c order pre) evs = some s) (hm : s.main = .running) :
    (c.zoneMode = false → s.doneErr.length ≤ c.maxErrors ∧ s.resMap.length + c.maxErrors < c.n) ∧
    (c.zoneMode = true →
      (c.zoneList.filter fun z => decide (0 < s.doneErr.countP fun j => decide (c.zoneOf j = z))).length ≤ c.maxUnavail ∧
      (c.zoneList.filter fun z => (List.range c.n).countP (waitingPred c s.resMap s.doneErr z) == 0 &&
          s.doneErr.countP (fun j => decide (c.zoneOf j = z)) == 0).length + c.maxUnavail < c.zoneList.length) := by
  obtain ⟨_, hB, hC⟩ := inv_reachC hr
  obtain ⟨h1, h2⟩ := hB.loop_inv hm
  refine ⟨?_, ?_⟩
  · intro hz
    simp only [succeeded, failed, hz, Bool.false_eq_true, if_false, decide_eq_false_iff_not] at h1 h2
    rw [← hC.flat_succ hz, ← hC.flat_err hz]; omega
  · intro hz
    simp only [succeeded, failed, hz, if_true, decide_eq_false_iff_not] at h1 h2
    have e1 : (fun z => decide (s.fails z > 0)) = fun z => decide (0 < s.doneErr.countP fun j => decide (c.zoneOf j = z)) := by
      funext z; rw [hC.zone_fail hz z]
    have e2 : (fun z => s.waiting z == 0 && s.fails z == 0) = fun z => (List.range c.n).countP (waitingPred c s.resMap s.doneErr z) == 0 &&
          s.doneErr.countP (fun j => decide (c.zoneOf j = z)) == 0 := by
      funext z; rw [hC.zone_wait hz z, hC.zone_fail hz z]
    rw [e1] at h2; rw [e2] at h1
    omega

/-- what `failed` means in terms of processed failures. -/
theorem failed_means (hr : run c (init c order pre) evs = some s) (hf : failed c s = true) :
    s.doneErr.Nodup ∧ (∀ i, i ∈ s.doneErr → i < c.n ∧ (i, Res.ok) ∉ s.fin ∧ s.phase i = .consumed) ∧
    (c.zoneMode = false → s.doneErr.length > c.maxErrors) ∧
    (c.zoneMode = true → (c.zoneList.filter fun z => decide (0 < s.doneErr.countP fun j => decide (c.zoneOf j = z))).length > c.maxUnavail) := by
  obtain ⟨_, _, hC⟩ := inv_reachC hr
  refine ⟨hC.done_nodup, fun i hi => ⟨hC.done_lt i hi, hC.done_nok i hi, hC.done_phase i hi⟩, ?_, ?_⟩
  · intro hz
    simp only [failed, hz, Bool.false_eq_true, if_false, decide_eq_true_eq] at hf
    rw [← hC.flat_err hz]; exact hf
  · intro hz
    simp only [failed, hz, if_true, decide_eq_true_eq] at hf
    have : (fun z => decide (s.fails z > 0)) = fun z => decide (0 < s.doneErr.countP fun j => decide (c.zoneOf j = z)) := by
      funext z; rw [hC.zone_fail hz z]
    rw [this] at hf; exact hf

theorem loop_invariant (hr : run c (init c order pre) evs = some s) (hm : s.main = .running) :
    succeeded c s = false ∧ failed c s = false ∧ s.cleaned = [] :=
  let ⟨hA, hB, _⟩ := inv_reachC hr
  ⟨(hB.loop_inv hm).1, (hB.loop_inv hm).2, hA.run_clean hm⟩

theorem cleanup_safe (hr : run c (init c order pre) evs = some s) :
    s.cleaned.Nodup ∧ ∀ i, i ∈ s.cleaned → (i, Res.ok) ∈ s.fin ∧ i ∉ results s := by
  obtain ⟨hA, _, _⟩ := inv_reachC hr
  refine ⟨hA.clean_nodup, ?_⟩
  intro i hi
  cases hm : s.main with
  | running => have := hA.run_clean hm; rw [this] at hi; simp at hi
  | retOk rs =>
    refine ⟨((hA.ok_split rs hm i).2 (Or.inr hi)).1, ?_⟩
    simp only [results, hm]
    exact fun h => hA.ok_disj rs hm i h hi
  | retErr e =>
    exact ⟨((hA.err_clean e hm i).2 hi).1, by simp [results, hm]⟩

theorem cleanup_exactly_once (hr : run c (init c order pre) evs = some s) (hfin : final c s = true) :
    ∀ i, i < c.n → (i, Res.ok) ∈ s.fin → ((i ∈ results s ∧ i ∉ s.cleaned) ∨ (i ∉ results s ∧ s.cleaned.count i = 1)) := by
  obtain ⟨hA, _, _⟩ := inv_reachC hr
  simp only [final, Bool.and_eq_true, bne_iff_ne, ne_eq, List.all_eq_true, List.mem_range, decide_eq_true_eq] at hfin
  obtain ⟨⟨hmain, _⟩, hph⟩ := hfin
  intro i hi hok
  have hcons := hph i hi
  have hcount : i ∈ s.cleaned → s.cleaned.count i = 1 := fun h => by rw [List.Nodup.count hA.clean_nodup]; simp [h]
  cases hm : s.main with
  | running => exact absurd hm hmain
  | retOk rs =>
    simp only [results, hm]
    rcases (hA.ok_split rs hm i).1 ⟨hok, hcons⟩ with h | h
    · exact Or.inl ⟨h, hA.ok_disj rs hm i h⟩
    · exact Or.inr ⟨fun h' => hA.ok_disj rs hm i h' h, hcount h⟩
  | retErr e =>
    simp only [results, hm]
    exact Or.inr ⟨by simp, hcount ((hA.err_clean e hm i).1 ⟨hok, hcons⟩)⟩

theorem unused_contexts_cancelled (hr : run c (init c order pre) evs = some s) :
    (∀ rs, s.main = .retOk rs → ∀ i, i < c.n → i ∉ rs → s.ctx i = true) ∧
    (∀ e, s.main = .retErr e → e ≠ .invalid → ∀ i, s.ctx i = true) := by
  obtain ⟨_, hB, _⟩ := inv_reachC hr
  refine ⟨?_, ?_⟩
  · intro rs hm i hi hni
    obtain ⟨h1, _, h3⟩ := hB.ok_ret rs hm
    apply h3 i hi
    by_cases hk : kept c s i = true
    · exact absurd (by rw [h1]; exact List.mem_filter.2 ⟨List.mem_range.2 hi, hk⟩) hni
    · simpa using hk
  · intro e hm hne
    rcases hB.err_ret e hm with ⟨h1, _⟩ | ⟨_, h2, _⟩
    · exact absurd h1 hne
    · exact h2

/-- once the function has returned, no instance goroutine is stuck in `awaitStart`. -/
theorem held_released_or_cancelled (hr : run c (init c order pre) evs = some s) (hm : s.main ≠ .running) :
    ∀ i, i < c.n → s.phase i = .waiting → s.ctx i = true := by
  obtain ⟨hA, hB, _⟩ := inv_reachC hr
  intro i hi hw
  cases hmain : s.main with
  | running => exact absurd hmain hm
  | retOk rs =>
    apply (unused_contexts_cancelled hr).1 rs hmain i hi
    intro hir
    have := ((hA.ok_split rs hmain i).2 (Or.inl hir)).2
    rw [hw] at this; cases this
  | retErr e =>
    rcases hB.err_ret e hmain with ⟨_, _, h3, _⟩ | ⟨_, h2, _⟩
    · have := h3 i; rw [hw] at this; cases this
    · exact h2 i

end single

theorem terminal_error_returns (c : Cfg) (s : St) (i : Nat) (rest : List (Nat × Res)) (hm : s.main = .running)
    (hch : s.chan = (i, .term) :: rest) (ht : c.hasTerm = true) :
    ∃ s', step c s .recv = some s' ∧ s'.main = .retErr (.inst i) ∧ ∀ j, s'.ctx j = true := by
  refine ⟨recvStep c s i .term rest, ?_, ?_, ?_⟩
  · simp only [step, hm, hch, if_true]
  · rw [recvStep_term c s i .term rest (by simp [isTerminal, ht])]; simp [errKind]
  · rw [recvStep_term c s i .term rest (by simp [isTerminal, ht])]; intro j; rfl

theorem cancel_returns (c : Cfg) (s : St) (hm : s.main = .running) (hp : s.parentCanc = true) :
    ∃ s', step c s .ctxDone = some s' ∧ s'.main = .retErr .cancelled := by
  refine ⟨{ s with cleaned := s.cleaned ++ s.resMap, main := .retErr .cancelled }, ?_, rfl⟩
  simp only [step, hm, hp, and_self, if_true]

end PfC11
