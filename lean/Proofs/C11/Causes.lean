import Proofs.C11.InvB
/-! Part B (continued): invariant `InvB` — contexts, loop invariant, causes of a return. -/
namespace PfC11
open C11

def ErrCause (c : Cfg) (s : St) (e : ErrKind) : Prop :=
  (e = .invalid ∧ c.invalid = true ∧ (∀ i, s.phase i = .consumed) ∧ s.started = []) ∨
  (e ≠ .invalid ∧ (∀ j, s.ctx j = true) ∧
    ((e = .cancelled ∧ s.parentCanc = true) ∨
     (failed c s = true ∧ ∃ i, s.doneErr.getLast? = some i ∧ (e = .inst i ∨ e = .cancelled)) ∨
     (∃ i, e = .inst i ∧ c.hasTerm = true ∧ (i, Res.term) ∈ s.fin) ∨
     (e = .cancelled ∧ c.hasTerm = true ∧ ∃ i, s.abT i = true)))

structure InvB (c : Cfg) (s : St) : Prop where
  par_ctx : s.parentCanc = true → ∀ i, s.ctx i = true
  loop_inv : s.main = .running → succeeded c s = false ∧ failed c s = false
  ok_ret : ∀ rs, s.main = .retOk rs → rs = (List.range c.n).filter (kept c s) ∧ succeeded c s = true ∧
    ∀ j, j < c.n → kept c s j = false → s.ctx j = true
  err_ret : ∀ e, s.main = .retErr e → ErrCause c s e

/-- events that touch neither the tracker counters, nor `resMap`, nor `main`. -/
theorem invB_frame {c s s'} (h : InvB c s)
    (h1 : s'.nSucc = s.nSucc) (h2 : s'.nErr = s.nErr) (h3 : s'.waiting = s.waiting) (h4 : s'.fails = s.fails)
    (h5 : s'.resMap = s.resMap) (h6 : s'.main = s.main)
    (hctx : ∀ j, s.ctx j = true → s'.ctx j = true)
    (hpar : s'.parentCanc = true → (s.parentCanc = true ∨ ∀ j, s'.ctx j = true))
    (hpar2 : s.parentCanc = true → s'.parentCanc = true)
    (hfin : ∀ p, p ∈ s.fin → p ∈ s'.fin)
    (hinv : (∀ i, s.phase i = .consumed) → s.started = [] → (∀ i, s'.phase i = .consumed) ∧ s'.started = [])
    (hde : s'.doneErr = s.doneErr := by rfl) (habt : ∀ i, s.abT i = true → s'.abT i = true := by exact fun _ h => h) : InvB c s' := by
  obtain ⟨b1, b2, b3, b4⟩ := h
  have hs : succeeded c s' = succeeded c s := succeeded_congr c h1 h3 h4
  have hf : failed c s' = failed c s := failed_congr c h2 h4
  have hk : kept c s' = kept c s := kept_congr c h5 h3 h4
  refine ⟨?_, ?_, ?_, ?_⟩
  · intro hp j
    rcases hpar hp with hp' | hp'
    · exact hctx j (b1 hp' j)
    · exact hp' j
  · intro hm; rw [h6] at hm; rw [hs, hf]; exact b2 hm
  · intro rs hm; rw [h6] at hm; have := b3 rs hm
    rw [hs, hk]; exact ⟨this.1, this.2.1, fun j hj hkj => hctx j (this.2.2 j hj hkj)⟩
  · intro e hm; rw [h6] at hm
    rcases b4 e hm with ⟨e1, e2, e3, e4⟩ | ⟨e1, e2, e3⟩
    · left; exact ⟨e1, e2, (hinv e3 e4).1, (hinv e3 e4).2⟩
    · right; refine ⟨e1, fun j => hctx j (e2 j), ?_⟩
      rcases e3 with e3 | ⟨e3, e3'⟩ | ⟨k, e3, e4, e5⟩ | ⟨e3, e4, k, e5⟩
      · exact Or.inl ⟨e3.1, hpar2 e3.2⟩
      · exact Or.inr (Or.inl ⟨hf.trans e3, by rw [hde]; exact e3'⟩)
      · exact Or.inr (Or.inr (Or.inl ⟨k, e3, e4, hfin _ e5⟩))
      · exact Or.inr (Or.inr (Or.inr ⟨e3, e4, k, habt k e5⟩))

theorem invB_finish {c s i r s'} (h : InvB c s) (hs : step c s (.finish i r) = some s') : InvB c s' := by
  simp only [step] at hs
  split at hs
  · rename_i hc
    cases hs
    refine invB_frame h rfl rfl rfl rfl rfl rfl (fun _ h => h) (fun h => Or.inl h) (fun h => h) (fun p hp => List.mem_append_left _ hp) ?_
    intro h1 _; have := h1 i; simp [hc.2.1] at this
  · cases hs

theorem invB_begin {c s i s'} (h : InvB c s) (hs : step c s (.begin i) = some s') : InvB c s' := by
  simp only [step] at hs
  split at hs
  · rename_i hc
    cases hs
    refine invB_frame h rfl rfl rfl rfl rfl rfl (fun _ h => h) (fun h => Or.inl h) (fun h => h) (fun p hp => hp) ?_
    intro h1 _; have := h1 i; simp [hc.2.1] at this
  · cases hs

theorem invB_abort {c s i t s'} (h : InvB c s) (hs : step c s (.abort i t) = some s') : InvB c s' := by
  simp only [step] at hs
  split at hs
  · rename_i hc
    cases hs
    refine invB_frame h rfl rfl rfl rfl rfl rfl (fun _ h => h) (fun h => Or.inl h) (fun h => h) (fun p hp => hp) ?_ rfl ?_
    · intro h1 _; have := h1 i; simp [hc.2.1] at this
    · intro j hj; simp only [upd_apply]; split
      · rename_i he; subst he; simp [hj]
      · exact hj
  · cases hs

theorem invB_cancel {c s s'} (h : InvB c s) (hs : step c s .cancel = some s') : InvB c s' := by
  simp only [step] at hs
  cases hs
  exact invB_frame h rfl rfl rfl rfl rfl rfl (fun _ _ => rfl) (fun _ => Or.inr fun _ => rfl) (fun _ => rfl) (fun p hp => hp) (fun h1 h2 => ⟨h1, h2⟩)

theorem invB_tick {c s s'} (h : InvB c s) (hs : step c s .tick = some s') : InvB c s' := by
  simp only [step] at hs
  split at hs
  · cases hs
    refine invB_frame h (by simp) (by simp) (by simp) (by simp) (by simp) (by simp) (by simp) ?_ (by simp) (by simp) ?_ (by simp) (by simp)
    · simp only [releaseNext_parentCanc]; exact fun h => Or.inl h
    · simp only [releaseNext_phase, releaseNext_started]; exact fun h1 h2 => ⟨h1, h2⟩
  · cases hs

theorem invB_drain {c s s'} (h : InvB c s) (hs : step c s .drain = some s') : InvB c s' := by
  simp only [step] at hs
  split at hs
  · split at hs
    · cases hs
    · rename_i i r rest hch
      cases hs
      refine invB_frame h rfl rfl rfl rfl rfl rfl (fun _ h => h) (fun h => Or.inl h) (fun h => h) (fun p hp => hp) ?_
      intro h1 h2; refine ⟨fun j => ?_, h2⟩
      simp only [upd_apply]; split <;> simp [h1]
  · cases hs

theorem invB_ctxDone {c s s'} (h : InvB c s) (hs : step c s .ctxDone = some s') : InvB c s' := by
  simp only [step] at hs
  split at hs
  · rename_i hc
    cases hs
    obtain ⟨b1, b2, b3, b4⟩ := h
    refine ⟨b1, ?_, ?_, ?_⟩
    · intro hm; cases hm
    · intro rs hm; cases hm
    · intro e hm; cases hm
      right; exact ⟨by simp, b1 hc.2, Or.inl ⟨rfl, hc.2⟩⟩
  · cases hs

theorem invB_recv {c s s'} (hA : InvA c s) (h : InvB c s) (hs : step c s .recv = some s') : InvB c s' := by
  simp only [step] at hs
  split at hs
  · rename_i hc
    split at hs
    · cases hs
    · rename_i i r rest hch
      cases hs
      obtain ⟨b1, b2, b3, b4⟩ := h
      obtain ⟨_, _, s3, _, s5, _, _⟩ := recvStep_sum c s i r rest hc
      have hmono := recvStep_ctx_mono c s i r rest
      have hB := recvStep_B c s i r rest hc (b2 hc).2
      generalize recvStep c s i r rest = t at *
      refine ⟨?_, ?_, ?_, ?_⟩
      · intro hp j; rw [s5] at hp; exact hmono j (b1 hp j)
      · intro hm
        rcases hB with ⟨_, h1, h2⟩ | ⟨e, h1, _⟩ | ⟨h1, _⟩
        · exact ⟨h1, h2⟩
        · rw [h1] at hm; cases hm
        · rw [h1] at hm; cases hm
      · intro rs hm
        rcases hB with ⟨h1, _⟩ | ⟨e, h1, _⟩ | ⟨h1, h2, h3⟩
        · rw [h1] at hm; cases hm
        · rw [h1] at hm; cases hm
        · rw [h1] at hm; cases hm; exact ⟨rfl, h2, h3⟩
      · intro e hm
        rcases hB with ⟨h1, _⟩ | ⟨e', h1, h2, h3, h4⟩ | ⟨h1, _⟩
        · rw [h1] at hm; cases hm
        · rw [h1] at hm; cases hm
          obtain ⟨he, h4⟩ := h4
          right; refine ⟨h2, h3, ?_⟩
          rcases h4 with ⟨h4, h5⟩ | ⟨h4, h5 | ⟨h5, h6⟩⟩
          · refine Or.inr (Or.inl ⟨h4, i, h5, ?_⟩)
            rw [he]; unfold errKind; split
            · exact Or.inr rfl
            · exact Or.inl rfl
          · refine Or.inr (Or.inr (Or.inl ⟨i, ?_, h4, ?_⟩))
            · rw [he, h5]; rfl
            · rw [s3]; subst h5
              exact hA.chan_fin i .term (by rw [hch]; simp) (by decide)
          · refine Or.inr (Or.inr (Or.inr ⟨?_, h4, i, h6⟩))
            rw [he, h5]; rfl
        · rw [h1] at hm; cases hm
  · cases hs

theorem invB_cancelOne {c s i s'} (h : InvB c s) (hs : step c s (.cancelOne i) = some s') : InvB c s' := by
  simp only [step] at hs
  cases hs
  refine invB_frame h rfl rfl rfl rfl rfl rfl ?_ (fun h => Or.inl h) (fun h => h) (fun p hp => hp) (fun h1 h2 => ⟨h1, h2⟩)
  intro j hj; simp only [upd_apply]; split <;> simp [hj]

theorem invB_step {c s e s'} (hA : InvA c s) (h : InvB c s) (hs : step c s e = some s') : InvB c s' := by
  cases e with
  | finish i r => exact invB_finish h hs
  | cancel => exact invB_cancel h hs
  | tick => exact invB_tick h hs
  | recv => exact invB_recv hA h hs
  | ctxDone => exact invB_ctxDone h hs
  | «begin» i => exact invB_begin h hs
  | abort i t => exact invB_abort h hs
  | drain => exact invB_drain h hs
  | cancelOne i => exact invB_cancelOne h hs

theorem filter_false_nil {α} (l : List α) : List.filter (fun _ => false) l = [] := by
  induction l with
  | nil => rfl
  | cons a l ih => simp [List.filter, ih]

theorem succeeded_base_fails (c : Cfg) (pre : Bool) : failed c (base c pre) = false := by
  simp [failed, base, filter_false_nil]

theorem invB_init (c : Cfg) (order : List Nat) (pre : Bool) : InvB c (init c order pre) := by
  unfold init
  split
  · rename_i hinv
    refine ⟨?_, ?_, ?_, ?_⟩
    · intro hp j; simp only [base] at hp ⊢; exact hp
    · intro hm; cases hm
    · intro rs hm; cases hm
    · intro e hm; cases hm; left; exact ⟨rfl, hinv, fun _ => rfl, rfl⟩
  · have hf : failed c (startRequests c order (base c pre)) = false :=
      (failed_congr c (by simp) (by simp)).trans (succeeded_base_fails c pre)
    have hB := loopHead_B c (startRequests c order (base c pre)) 0 .ok (by simp [base]) hf
    have hmono := loopHead_ctx_mono c (startRequests c order (base c pre))
    refine ⟨?_, ?_, ?_, ?_⟩
    · intro hp j
      simp only [loopHead_parentCanc, startRequests_parentCanc] at hp
      apply hmono; simp only [startRequests_ctx]; simp only [base] at hp ⊢; exact hp
    · intro hm
      rcases hB with ⟨_, h1, h2⟩ | ⟨e, h1, _⟩ | ⟨h1, _⟩
      · exact ⟨h1, h2⟩
      · rw [h1] at hm; cases hm
      · rw [h1] at hm; cases hm
    · intro rs hm
      rcases hB with ⟨h1, _⟩ | ⟨e, h1, _⟩ | ⟨h1, h2, h3⟩
      · rw [h1] at hm; cases hm
      · rw [h1] at hm; cases hm
      · rw [h1] at hm; cases hm; exact ⟨rfl, h2, h3⟩
    · intro e hm
      rcases loopHead_cases c (startRequests c order (base c pre)) with ⟨_, h⟩ | ⟨_, h1, _⟩
      · rw [h] at hm; simp [base] at hm
      · rw [h1] at hm; cases hm

theorem inv_reach {c order pre evs s} (hr : run c (init c order pre) evs = some s) : InvA c s ∧ InvB c s :=
  run_induction (P := fun s => InvA c s ∧ InvB c s) (fun _ _ _ h hs => ⟨invA_step h.1 hs, invB_step h.1 h.2 hs⟩) evs
    ⟨invA_init c order pre, invB_init c order pre⟩ hr

end PfC11
