import Proofs.C11.Terminate
/-! Part U: progress of the main loop BEFORE the return (partial, see `Props/C11.lean`). -/
namespace PfC11
open C11

/-- events of the main loop, the instance goroutines and the callbacks (no cancellation, no timer). -/
def LoopEv (e : Ev) : Prop :=
  e = .recv ∨ (∃ i, e = .begin i) ∨ (∃ i, e = .abort i false) ∨ (∃ i, e = .finish i .ok)

/-- an instance that cannot move on its own: its result was consumed, or it is still held back by request
minimisation (in `awaitStart`, release channel untouched, context live). -/
def Parked (s : St) (i : Nat) : Prop :=
  s.phase i = .consumed ∨ (s.phase i = .waiting ∧ s.rel i = .held ∧ s.ctx i = false)

theorem progress_before_return_partial {c order pre evs s} (hr : run c (init c order pre) evs = some s)
    (hm : s.main = .running) :
    (∃ e, LoopEv e ∧ (step c s e).isSome = true) ∨ (∀ i, i < c.n → Parked s i) := by
  have hP := invP_reach hr
  by_cases hall : ∀ i, i < c.n → Parked s i
  · exact .inr hall
  · left
    have : ∃ i, i < c.n ∧ ¬ Parked s i := by
      apply Classical.byContradiction
      intro hno
      apply hall
      intro i hi
      apply Classical.byContradiction
      intro hp
      exact hno ⟨i, hi, hp⟩
    obtain ⟨i, hi, hnp⟩ := this
    cases hph : s.phase i with
    | consumed => exact absurd (.inl hph) hnp
    | posted =>
      obtain ⟨r, hr'⟩ := hP i hi hph
      refine ⟨.recv, .inl rfl, ?_⟩
      cases hch : s.chan with
      | nil => rw [hch] at hr'; simp at hr'
      | cons p rest =>
        obtain ⟨j, q⟩ := p
        simp only [step, if_pos hm, hch, Option.isSome_some]
    | running =>
      refine ⟨.finish i .ok, .inr (.inr (.inr ⟨i, rfl⟩)), ?_⟩
      simp only [step]; rw [if_pos ⟨hi, hph, by decide⟩]; rfl
    | waiting =>
      cases hrel : s.rel i with
      | go =>
        refine ⟨.begin i, .inr (.inl ⟨i, rfl⟩), ?_⟩
        simp only [step]; rw [if_pos ⟨hi, hph, hrel⟩]; rfl
      | abort =>
        refine ⟨.abort i false, .inr (.inr (.inl ⟨i, rfl⟩)), ?_⟩
        simp only [step]; rw [if_pos ⟨hi, hph, Or.inl hrel⟩]; rfl
      | held =>
        have hctx : s.ctx i = true := by
          cases hc : s.ctx i with
          | true => rfl
          | false => exact absurd (.inr ⟨hph, hrel, hc⟩) hnp
        refine ⟨.abort i false, .inr (.inr (.inl ⟨i, rfl⟩)), ?_⟩
        simp only [step]; rw [if_pos ⟨hi, hph, Or.inr hctx⟩]; rfl

end PfC11
