import Proofs.C11.Minimise
/-! Part M: the multi-set variant. -/
namespace PfC11
open C11

theorem run_snoc {c : Cfg} : ∀ (evs : List Ev) {s0 s s' : St} {e : Ev}, run c s0 evs = some s → step c s e = some s' →
    run c s0 (evs ++ [e]) = some s'
  | [], s0, s, s', e, h, hs => by
    simp only [run, Option.some.injEq] at h; subst h
    simp [run, hs]
  | a :: es, s0, s, s', e, h, hs => by
    simp only [run] at h
    cases hst : step c s0 a with
    | none => simp [hst] at h
    | some s1 =>
      simp only [hst, Option.bind_some] at h
      simp only [List.cons_append, run, hst, Option.bind_some]
      exact run_snoc es h hs

/-- once the main function has returned, its return value never changes. -/
theorem step_main_stable {c : Cfg} {s s' : St} {e : Ev} (hs : step c s e = some s') (hm : s.main ≠ .running) :
    s'.main = s.main := by
  cases e with
  | finish i r => simp only [step] at hs; split at hs <;> cases hs; rfl
  | cancel => simp only [step] at hs; cases hs; rfl
  | cancelOne i => simp only [step] at hs; cases hs; rfl
  | tick => simp only [step] at hs; split at hs
            · rename_i h; exact absurd h.1 hm
            · cases hs
  | recv => simp only [step] at hs; split at hs
            · rename_i h; exact absurd h hm
            · cases hs
  | ctxDone => simp only [step] at hs; split at hs
               · rename_i h; exact absurd h.1 hm
               · cases hs
  | «begin» i => simp only [step] at hs; split at hs <;> cases hs; rfl
  | abort i t => simp only [step] at hs; split at hs <;> cases hs; rfl
  | drain =>
    simp only [step] at hs
    by_cases hmm : s.main ≠ .running
    · rw [if_pos hmm] at hs
      cases hch : s.chan with
      | nil => rw [hch] at hs; cases hs
      | cons p rest => obtain ⟨i, r⟩ := p; rw [hch] at hs; cases hs; rfl
    · exact absurd hm hmm

/-- every worker's state is a state of the single-set transition system. -/
def Proj (cs : List Cfg) (orders : List (List Nat)) (pre : Bool) (m : MSt) : Prop :=
  ∀ k c, cs[k]? = some c → ∃ evs, run c (init c (orders.getD k []) pre) evs = some (m.sets k)

theorem proj_cancelWorkers {cs orders pre m} (h : Proj cs orders pre m) : Proj cs orders pre (cancelWorkers m) := by
  intro k c hc
  obtain ⟨evs, hr⟩ := h k c hc
  exact ⟨evs ++ [.cancel], run_snoc evs hr rfl⟩

theorem proj_cancelIfSafe {cs orders pre m} (h : Proj cs orders pre m) : Proj cs orders pre (cancelIfSafe m) := by
  unfold cancelIfSafe; split
  · exact proj_cancelWorkers h
  · exact h

theorem proj_upd {cs orders pre} {m : MSt} (h : Proj cs orders pre m) (k : Nat) (s' : St) (e : Ev)
    (hs : ∀ c, cs[k]? = some c → step c (m.sets k) e = some s') (m' : MSt) (hm : m'.sets = upd m.sets k s') :
    Proj cs orders pre m' := by
  intro k' c hc
  rw [hm]
  by_cases hk : k' = k
  · subst hk
    obtain ⟨evs, hr⟩ := h k' c hc
    exact ⟨evs ++ [e], by simp only [upd_apply, if_true]; exact run_snoc evs hr (hs c hc)⟩
  · simp only [upd_apply, hk, if_false]; exact h k' c hc

theorem proj_callCancel {cs orders pre m} (h : Proj cs orders pre m) (k i : Nat) : Proj cs orders pre (callCancel m k i) := by
  unfold callCancel
  apply proj_cancelIfSafe
  exact proj_upd h k _ (.cancelOne i) (fun c _ => rfl) _ rfl

theorem proj_foldl_callCancel {cs orders pre} (k : Nat) (l : List Nat) : ∀ {m : MSt}, Proj cs orders pre m →
    Proj cs orders pre (l.foldl (fun mm i => callCancel mm k i) m) := by
  induction l with
  | nil => exact fun h => h
  | cons a l ih => exact fun h => ih (proj_callCancel h k a)


theorem proj_foldl_callCancel2 {cs orders pre} (l : List (Nat × Nat)) : ∀ {m : MSt}, Proj cs orders pre m →
    Proj cs orders pre (l.foldl (fun mm ki => callCancel mm ki.1 ki.2) m) := by
  induction l with
  | nil => exact fun h => h
  | cons a l ih => exact fun h => ih (proj_callCancel h a.1 a.2)

theorem proj_congr {cs orders pre} {m m' : MSt} (h : Proj cs orders pre m) (hs : m'.sets = m.sets) : Proj cs orders pre m' := by
  intro k c hc; rw [hs]; exact h k c hc

theorem cancelIfSafe_sets_cases (m : MSt) : (cancelIfSafe m).sets = m.sets ∨ (cancelIfSafe m) = cancelWorkers m := by
  unfold cancelIfSafe; split
  · exact Or.inr rfl
  · exact Or.inl rfl

/-- calling a cancel function changes nothing but contexts (and the parent-cancelled flags). -/
theorem callCancel_frame (m : MSt) (k i k' : Nat) :
    ((callCancel m k i).sets k').phase = (m.sets k').phase ∧ ((callCancel m k i).sets k').main = (m.sets k').main ∧
    ((callCancel m k i).sets k').started = (m.sets k').started ∧ ((callCancel m k i).sets k').cleaned = (m.sets k').cleaned ∧
    ((callCancel m k i).sets k').chan = (m.sets k').chan ∧ ((callCancel m k i).sets k').fin = (m.sets k').fin := by
  unfold callCancel cancelIfSafe
  split
  · simp only [cancelWorkers, upd_apply]; split
    · rename_i h; subst h; simp
    · simp
  · simp only [upd_apply]; split
    · rename_i h; subst h; simp
    · simp

theorem proj_mstep {cs orders pre m e m'} (h : Proj cs orders pre m) (hs : mstep cs m e = some m') : Proj cs orders pre m' := by
  cases e with
  | set k e =>
    simp only [mstep] at hs
    cases hc : cs[k]? with
    | none => simp [hc] at hs
    | some c =>
      simp only [hc] at hs
      split at hs
      · cases hs
      · cases hst : step c (m.sets k) e with
        | none => simp [hst] at hs
        | some s' =>
          simp only [hst, Option.some.injEq] at hs
          rw [← hs]
          apply proj_foldl_callCancel
          have h1 : Proj cs orders pre { m with sets := upd m.sets k s' } :=
            proj_upd h k s' e (fun c' hc' => by rw [hc] at hc'; cases hc'; exact hst) _ rfl
          refine proj_congr h1 ?_
          cases e <;> simp only [trackBegin] <;> (try split) <;> rfl
  | finishDone k i r =>
    simp only [mstep] at hs
    cases hc : cs[k]? with
    | none => simp [hc] at hs
    | some c =>
      simp only [hc] at hs
      split at hs
      · rename_i hcond
        cases hs
        have h1 := proj_callCancel h k i
        refine proj_upd h1 k _ (.finish i r) ?_ _ rfl
        intro c' hc'; rw [hc] at hc'; cases hc'
        simp only [step]
        rw [if_pos ⟨hcond.1, by rw [(callCancel_frame m k i k).1]; exact hcond.2.1, hcond.2.2⟩]
      · cases hs
  | done k i =>
    simp only [mstep] at hs
    cases hc : cs[k]? with
    | none => simp [hc] at hs
    | some c =>
      simp only [hc] at hs
      split at hs
      · cases hs; exact proj_callCancel h k i
      · cases hs
  | cancel => simp only [mstep] at hs; cases hs; exact proj_cancelWorkers h
  | join k =>
    simp only [mstep] at hs
    split at hs
    · split at hs
      · cases hs
      · cases hs; exact proj_congr h rfl
      · split at hs
        · cases hs; exact proj_congr h rfl
        · cases hs; exact proj_cancelWorkers (proj_congr h rfl)
    · cases hs
  | ret =>
    simp only [mstep] at hs
    split at hs
    · split at hs
      · cases hs; exact proj_foldl_callCancel2 _ (proj_congr h rfl)
      · cases hs
        exact proj_congr (proj_cancelIfSafe (proj_congr h (m' := { m with expectMore := false }) rfl)) rfl
    · cases hs

theorem proj_minit (cs : List Cfg) (orders : List (List Nat)) (pre : Bool) : Proj cs orders pre (minit cs orders pre) := by
  intro k c hc
  refine ⟨[], ?_⟩
  simp only [run, minit, Option.some.injEq]
  have : cs.getD k Cfg.empty = c := by simp [List.getD, hc]
  rw [this]

theorem mrun_induction {cs : List Cfg} {P : MSt → Prop} (hstep : ∀ m e m', P m → mstep cs m e = some m' → P m') :
    ∀ (evs : List MEv) {m m'}, P m → mrun cs m evs = some m' → P m'
  | [], m, m', h, hr => by simp only [mrun, Option.some.injEq] at hr; exact hr ▸ h
  | e :: es, m, m', h, hr => by
    simp only [mrun] at hr
    cases hst : mstep cs m e with
    | none => simp [hst] at hr
    | some m1 =>
      simp only [hst, Option.bind_some] at hr
      exact mrun_induction hstep es (hstep m e m1 h hst) hr

/-- **projection**: in every reachable state of the multi-set system, the state of worker `k` is a
reachable state of the single-set system of replication set `k` (with the same release order), so
every single-set theorem holds for it. -/
theorem multi_projection {cs orders pre evs m} (hr : mrun cs (minit cs orders pre) evs = some m) :
    ∀ k c, cs[k]? = some c → ∃ evs', run c (init c (orders.getD k []) pre) evs' = some (m.sets k) :=
  mrun_induction (P := Proj cs orders pre) (fun _ _ _ h hs => proj_mstep h hs) evs (proj_minit cs orders pre) hr


/-! ### what the multi-set function returns -/

theorem cancelIfSafe_mfields (m : MSt) :
    (cancelIfSafe m).joined = m.joined ∧ (cancelIfSafe m).results = m.results ∧ (cancelIfSafe m).retErr = m.retErr ∧
    (cancelIfSafe m).ret = m.ret ∧ (cancelIfSafe m).expectMore = m.expectMore ∧ (cancelIfSafe m).inflight = m.inflight := by
  unfold cancelIfSafe; split <;> simp [cancelWorkers]

theorem cancelIfSafe_main (m : MSt) (k : Nat) : ((cancelIfSafe m).sets k).main = (m.sets k).main := by
  unfold cancelIfSafe; split <;> simp [cancelWorkers]

theorem callCancel_mfields (m : MSt) (k i : Nat) :
    (callCancel m k i).joined = m.joined ∧ (callCancel m k i).results = m.results ∧ (callCancel m k i).retErr = m.retErr ∧
    (callCancel m k i).ret = m.ret ∧ (callCancel m k i).expectMore = m.expectMore := by
  unfold callCancel
  exact ⟨(cancelIfSafe_mfields _).1, (cancelIfSafe_mfields _).2.1, (cancelIfSafe_mfields _).2.2.1,
    (cancelIfSafe_mfields _).2.2.2.1, (cancelIfSafe_mfields _).2.2.2.2.1⟩

theorem callCancel_mcleaned (m : MSt) (k i : Nat) : (callCancel m k i).mcleaned = m.mcleaned := by
  unfold callCancel cancelIfSafe; split <;> simp [cancelWorkers]

theorem foldl2_callCancel_frame (l : List (Nat × Nat)) : ∀ (m : MSt),
    (∀ k', ((l.foldl (fun mm ki => callCancel mm ki.1 ki.2) m).sets k').main = (m.sets k').main) ∧
    (l.foldl (fun mm ki => callCancel mm ki.1 ki.2) m).joined = m.joined ∧ (l.foldl (fun mm ki => callCancel mm ki.1 ki.2) m).results = m.results ∧
    (l.foldl (fun mm ki => callCancel mm ki.1 ki.2) m).retErr = m.retErr ∧ (l.foldl (fun mm ki => callCancel mm ki.1 ki.2) m).ret = m.ret ∧
    (l.foldl (fun mm ki => callCancel mm ki.1 ki.2) m).mcleaned = m.mcleaned ∧
    (l.foldl (fun mm ki => callCancel mm ki.1 ki.2) m).expectMore = m.expectMore := by
  induction l with
  | nil => intro m; exact ⟨fun _ => rfl, rfl, rfl, rfl, rfl, rfl, rfl⟩
  | cons a l ih =>
    intro m
    simp only [List.foldl_cons]
    obtain ⟨i1, i2, i3, i4, i5, i6, i7⟩ := ih (callCancel m a.1 a.2)
    obtain ⟨c1, c2, c3, c4, c5⟩ := callCancel_mfields m a.1 a.2
    exact ⟨fun k' => (i1 k').trans (callCancel_frame m a.1 a.2 k').2.1, i2.trans c1, i3.trans c2, i4.trans c3, i5.trans c4,
      i6.trans (callCancel_mcleaned m a.1 a.2), i7.trans c5⟩

theorem foldl_callCancel_frame (k : Nat) (l : List Nat) : ∀ (m : MSt),
    (∀ k', ((l.foldl (fun mm i => callCancel mm k i) m).sets k').main = (m.sets k').main) ∧
    (l.foldl (fun mm i => callCancel mm k i) m).joined = m.joined ∧ (l.foldl (fun mm i => callCancel mm k i) m).results = m.results ∧
    (l.foldl (fun mm i => callCancel mm k i) m).retErr = m.retErr ∧ (l.foldl (fun mm i => callCancel mm k i) m).ret = m.ret := by
  induction l with
  | nil => intro m; exact ⟨fun _ => rfl, rfl, rfl, rfl, rfl⟩
  | cons a l ih =>
    intro m
    simp only [List.foldl_cons]
    obtain ⟨i1, i2, i3, i4, i5⟩ := ih (callCancel m k a)
    obtain ⟨c1, c2, c3, c4, _⟩ := callCancel_mfields m k a
    exact ⟨fun k' => (i1 k').trans (callCancel_frame m k a k').2.1, i2.trans c1, i3.trans c2, i4.trans c3, i5.trans c4⟩

theorem flatMap_congr' {α β} (l : List α) (f g : α → List β) (h : ∀ x, x ∈ l → f x = g x) : l.flatMap f = l.flatMap g := by
  induction l with
  | nil => rfl
  | cons a l ih =>
    simp only [List.flatMap_cons]
    rw [h a (by simp), ih (fun x hx => h x (List.mem_cons_of_mem _ hx))]

structure MInv (cs : List Cfg) (m : MSt) : Prop where
  joined_nodup : m.joined.Nodup
  joined_lt : ∀ k, k ∈ m.joined → k < cs.length
  joined_ret : ∀ k, k ∈ m.joined → (m.sets k).main ≠ .running
  results_eq : m.results = m.joined.flatMap (fun k => (results (m.sets k)).map fun i => (k, i))
  err_none : m.retErr = none → ∀ k, k ∈ m.joined → ∃ rs, (m.sets k).main = .retOk rs
  err_some : ∀ k e, m.retErr = some (k, e) → k ∈ m.joined ∧ (m.sets k).main = .retErr e
  ret_ok : ∀ rs, m.ret = some (.ok rs) → rs = m.results ∧ m.retErr = none ∧ ∀ k, k < cs.length → k ∈ m.joined
  ret_err : ∀ e, m.ret = some (.error e) → m.retErr = some e

/-- steps that only touch the workers' states (keeping returned `main`s), `inflight` and `workersCanc`. -/
theorem minv_frame {cs m m'} (h : MInv cs m) (hmain : ∀ k, (m.sets k).main ≠ .running → (m'.sets k).main = (m.sets k).main)
    (h1 : m'.joined = m.joined) (h2 : m'.results = m.results) (h3 : m'.retErr = m.retErr) (h4 : m'.ret = m.ret) : MInv cs m' := by
  obtain ⟨a1, a2, a3, a4, a5, a6, a7, a8⟩ := h
  have hm : ∀ k, k ∈ m.joined → (m'.sets k).main = (m.sets k).main := fun k hk => hmain k (a3 k hk)
  refine ⟨by rw [h1]; exact a1, by rw [h1]; exact a2, ?_, ?_, ?_, ?_, ?_, ?_⟩
  · rw [h1]; intro k hk; rw [hm k hk]; exact a3 k hk
  · rw [h2, h1, a4]
    apply flatMap_congr'
    intro k hk
    simp only [results, hm k hk]
  · rw [h3, h1]; intro hn k hk; rw [hm k hk]; exact a5 hn k hk
  · rw [h3, h1]; intro k e he; have := a6 k e he; exact ⟨this.1, by rw [hm k this.1]; exact this.2⟩
  · rw [h4, h2, h3, h1]; exact a7
  · rw [h4, h3]; exact a8

theorem cancelWorkers_main (m : MSt) (k : Nat) : ((cancelWorkers m).sets k).main = (m.sets k).main := rfl

theorem minv_mstep {cs m e m'} (h : MInv cs m) (hs : mstep cs m e = some m') : MInv cs m' := by
  cases e with
  | set k e =>
    simp only [mstep] at hs
    cases hc : cs[k]? with
    | none => simp [hc] at hs
    | some c =>
      simp only [hc] at hs
      split at hs
      · cases hs
      · cases hst : step c (m.sets k) e with
        | none => simp [hst] at hs
        | some s' =>
          simp only [hst, Option.some.injEq] at hs
          rw [← hs]
          obtain ⟨f1, f2, f3, f4, f5⟩ := foldl_callCancel_frame k (s'.cleaned.drop (m.sets k).cleaned.length)
            (trackBegin { m with sets := upd m.sets k s' } k e)
          have hX : MInv cs (trackBegin { m with sets := upd m.sets k s' } k e) := by
            have hf : (trackBegin { m with sets := upd m.sets k s' } k e).sets = upd m.sets k s' ∧
                (trackBegin { m with sets := upd m.sets k s' } k e).joined = m.joined ∧
                (trackBegin { m with sets := upd m.sets k s' } k e).results = m.results ∧
                (trackBegin { m with sets := upd m.sets k s' } k e).retErr = m.retErr ∧
                (trackBegin { m with sets := upd m.sets k s' } k e).ret = m.ret := by
              cases e <;> simp only [trackBegin] <;> (try split) <;> simp
            refine minv_frame h ?_ hf.2.1 hf.2.2.1 hf.2.2.2.1 hf.2.2.2.2
            intro k' hk'; rw [hf.1]; simp only [upd_apply]; split
            · rename_i he; subst he; exact step_main_stable hst hk'
            · rfl
          exact minv_frame hX (fun k' _ => f1 k') f2 f3 f4 f5
  | finishDone k i r =>
    simp only [mstep] at hs
    cases hc : cs[k]? with
    | none => simp [hc] at hs
    | some c =>
      simp only [hc] at hs
      split at hs
      · cases hs
        obtain ⟨c1, c2, c3, c4, _⟩ := callCancel_mfields m k i
        refine minv_frame h ?_ c1 c2 c3 c4
        intro k' _
        simp only [upd_apply]; split
        · rename_i he; subst he; exact (callCancel_frame m k' i k').2.1
        · exact (callCancel_frame m k i k').2.1
      · cases hs
  | done k i =>
    simp only [mstep] at hs
    cases hc : cs[k]? with
    | none => simp [hc] at hs
    | some c =>
      simp only [hc] at hs
      split at hs
      · cases hs
        obtain ⟨c1, c2, c3, c4, _⟩ := callCancel_mfields m k i
        exact minv_frame h (fun k' _ => (callCancel_frame m k i k').2.1) c1 c2 c3 c4
      · cases hs
  | cancel =>
    simp only [mstep] at hs; cases hs
    exact minv_frame h (fun _ _ => rfl) rfl rfl rfl rfl
  | join k =>
    simp only [mstep] at hs
    split at hs
    · rename_i hk
      obtain ⟨a1, a2, a3, a4, a5, a6, a7, a8⟩ := h
      have hnd : (m.joined ++ [k]).Nodup :=
        List.nodup_append.2 ⟨a1, by simp, by intro a ha b hb; simp at hb; subst hb; intro he; subst he; exact hk.2 ha⟩
      have hflat : ∀ (f : Nat → List (Nat × Nat)), (m.joined ++ [k]).flatMap f = m.joined.flatMap f ++ f k := by
        intro f; simp [List.flatMap_append]
      cases hmain : (m.sets k).main with
      | running => simp [hmain] at hs
      | retOk rs =>
        simp only [hmain, Option.some.injEq] at hs
        rw [← hs]
        refine ⟨hnd, ?_, ?_, ?_, ?_, ?_, ?_, ?_⟩
        · intro k' hk'; rcases List.mem_append.1 hk' with h' | h'
          · exact a2 k' h'
          · simp at h'; subst h'; exact hk.1
        · intro k' hk'; rcases List.mem_append.1 hk' with h' | h'
          · exact a3 k' h'
          · simp at h'; subst h'; simp [hmain]
        · simp only [hflat, a4, results, hmain]
        · intro hn k' hk'; rcases List.mem_append.1 hk' with h' | h'
          · exact a5 hn k' h'
          · simp at h'; subst h'; exact ⟨rs, hmain⟩
        · intro k' e he; have := a6 k' e he; exact ⟨List.mem_append_left _ this.1, this.2⟩
        · intro rs' hr'
          have := a7 rs' hr'
          exact absurd (this.2.2 k hk.1) hk.2
        · exact a8
      | retErr e =>
        simp only [hmain] at hs
        have hres : m.results = (m.joined ++ [k]).flatMap (fun k => (results (m.sets k)).map fun i => (k, i)) := by
          simp only [hflat, a4, results, hmain, List.map_nil, List.append_nil]
        cases hre : m.retErr with
        | some e0 =>
          simp only [hre, Option.some.injEq] at hs
          rw [← hs]
          refine ⟨hnd, ?_, ?_, hres, ?_, ?_, ?_, ?_⟩
          · intro k' hk'; rcases List.mem_append.1 hk' with h' | h'
            · exact a2 k' h'
            · simp at h'; subst h'; exact hk.1
          · intro k' hk'; rcases List.mem_append.1 hk' with h' | h'
            · exact a3 k' h'
            · simp at h'; subst h'; simp [hmain]
          · intro hn; cases hn
          · intro k' e' he; have := a6 k' e' (hre.trans he); exact ⟨List.mem_append_left _ this.1, this.2⟩
          · intro rs' hr'; have := a7 rs' hr'; exact absurd (this.2.2 k hk.1) hk.2
          · intro e' he'; have := a8 e' he'; rw [hre] at this; exact this
        | none =>
          simp only [hre, Option.some.injEq] at hs
          rw [← hs]
          refine ⟨hnd, ?_, ?_, hres, ?_, ?_, ?_, ?_⟩
          · intro k' hk'; rcases List.mem_append.1 hk' with h' | h'
            · exact a2 k' h'
            · simp at h'; subst h'; exact hk.1
          · intro k' hk'; rcases List.mem_append.1 hk' with h' | h'
            · exact a3 k' h'
            · simp at h'; subst h'; simp [cancelWorkers, hmain]
          · intro hn; cases hn
          · intro k' e' he
            simp only [cancelWorkers, Option.some.injEq, Prod.mk.injEq] at he
            obtain ⟨h1, h2⟩ := he; subst h1; subst h2
            exact ⟨by simp [cancelWorkers], hmain⟩
          · intro rs' hr'; have := a7 rs' hr'; exact absurd (this.2.2 k hk.1) hk.2
          · intro e' he'; have := a8 e' he'; rw [hre] at this; cases this
    · cases hs
  | ret =>
    simp only [mstep] at hs
    split at hs
    · rename_i hcond
      obtain ⟨a1, a2, a3, a4, a5, a6, a7, a8⟩ := h
      have hall : ∀ k, k < cs.length → k ∈ m.joined := by
        intro k hk
        have := List.all_eq_true.1 hcond.2 k (List.mem_range.2 hk)
        simpa using this
      split at hs
      · rename_i e0 hre
        cases hs
        obtain ⟨f1, f2, f3, f4, f5, _, _⟩ := foldl2_callCancel_frame m.results { m with ret := some (.error e0), mcleaned := m.results }
        have hX : MInv cs { m with ret := some (.error e0), mcleaned := m.results } := by
          refine ⟨a1, a2, a3, a4, a5, a6, ?_, ?_⟩
          · intro rs hr; cases hr
          · intro e he; cases he; exact hre
        exact minv_frame hX (fun k' _ => f1 k') f2 f3 f4 f5
      · rename_i hre
        cases hs
        obtain ⟨f1, f2, f3, f4, f5, f6⟩ := cancelIfSafe_mfields { m with expectMore := false }
        have hX : MInv cs (cancelIfSafe { m with expectMore := false }) :=
          minv_frame ⟨a1, a2, a3, a4, a5, a6, a7, a8⟩ (fun k _ => cancelIfSafe_main { m with expectMore := false } k) f1 f2 f3 f4
        obtain ⟨x1, x2, x3, x4, x5, x6, _, _⟩ := hX
        refine ⟨x1, x2, x3, x4, x5, x6, ?_, ?_⟩
        · intro rs hr; simp only [Option.some.injEq, Except.ok.injEq] at hr
          refine ⟨hr.symm, f3.trans hre, ?_⟩
          intro k hk; rw [show (cancelIfSafe { m with expectMore := false }).joined = m.joined from f1]; exact hall k hk
        · intro e he; cases he
    · cases hs

theorem minv_minit (cs : List Cfg) (orders : List (List Nat)) (pre : Bool) : MInv cs (minit cs orders pre) := by
  refine ⟨List.nodup_nil, ?_, ?_, rfl, ?_, ?_, ?_, ?_⟩ <;> simp [minit]

theorem minv_reach {cs orders pre evs m} (hr : mrun cs (minit cs orders pre) evs = some m) : MInv cs m :=
  mrun_induction (P := MInv cs) (fun _ _ _ h hs => minv_mstep h hs) evs (minv_minit cs orders pre) hr


theorem mem_flatMap_pairs (l : List Nat) (f : Nat → List Nat) (k i : Nat) :
    (k, i) ∈ l.flatMap (fun k' => (f k').map fun j => (k', j)) ↔ k ∈ l ∧ i ∈ f k := by
  simp only [List.mem_flatMap, List.mem_map, Prod.mk.injEq]
  constructor
  · rintro ⟨k', hk', j, hj, h1, h2⟩; subst h1; subst h2; exact ⟨hk', hj⟩
  · rintro ⟨h1, h2⟩; exact ⟨k, h1, i, h2, rfl, rfl⟩

/-- the multi-set call returns results only if **every** set returned results, and then exactly the
union of the sets' results. -/
theorem multi_returns_ok {cs orders pre evs m rs} (hr : mrun cs (minit cs orders pre) evs = some m)
    (hret : m.ret = some (.ok rs)) :
    (∀ k, k < cs.length → ∃ rk, (m.sets k).main = .retOk rk ∧ ∀ i, (k, i) ∈ rs ↔ i ∈ rk) ∧
    (∀ k i, (k, i) ∈ rs → k < cs.length) := by
  have h := minv_reach hr
  obtain ⟨h1, h2, h3⟩ := h.ret_ok rs hret
  refine ⟨?_, ?_⟩
  · intro k hk
    obtain ⟨rk, hrk⟩ := h.err_none h2 k (h3 k hk)
    refine ⟨rk, hrk, fun i => ?_⟩
    rw [h1, h.results_eq, mem_flatMap_pairs]
    simp only [results, hrk]
    exact ⟨fun hh => hh.2, fun hh => ⟨h3 k hk, hh⟩⟩
  · intro k i hki
    rw [h1, h.results_eq, mem_flatMap_pairs] at hki
    exact h.joined_lt k hki.1

/-- … and an error only if some set returned that error. -/
theorem multi_returns_err {cs orders pre evs m k e} (hr : mrun cs (minit cs orders pre) evs = some m)
    (hret : m.ret = some (.error (k, e))) : k < cs.length ∧ (m.sets k).main = .retErr e := by
  have h := minv_reach hr
  have h1 := h.err_some k e (h.ret_err (k, e) hret)
  exact ⟨h.joined_lt k h1.1, h1.2⟩

end PfC11
