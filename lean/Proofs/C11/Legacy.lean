import Proofs.C11.Multi
/-! Part D: the legacy executor `ReplicationSet.Do`. -/
namespace PfC11
open C11

structure DInv (d : DCfg) (s : DSt) : Prop where
  started_nodup : s.started.Nodup
  started_phase : ∀ i, i ∈ s.started → s.phase i ≠ .waiting
  started_lt : ∀ i, i ∈ s.started → i < d.zones.length
  chan_pw : s.chan.Pairwise (fun p q => p.1 ≠ q.1)
  chan_phase : ∀ i r, (i, r) ∈ s.chan → s.phase i = .posted
  chan_fin : ∀ i r, (i, r) ∈ s.chan → (i, r) ∈ s.fin
  fin_phase : ∀ i r, (i, r) ∈ s.fin → s.phase i = .posted ∨ s.phase i = .consumed
  res_nodup : s.results.Nodup
  res_ok : ∀ i, i ∈ s.results → (i, Res.ok) ∈ s.fin ∧ s.phase i = .consumed
  flat_succ : d.maxUnavail = 0 → s.tr.nSucc = s.results.length
  run_und : s.main = .running → succeeded d.toCfg s.tr = false
  ret_ok : ∀ rs, s.main = .retOk rs → rs = s.results ∧ succeeded d.toCfg s.tr = true
  ret_err : ∀ e, s.main = .retErr e → (e = .cancelled ∧ s.ctxCanc = true) ∨ (failed d.toCfg s.tr = true)
  ret_ctx : s.main ≠ .running → s.ctxCanc = true
  tokens_le : s.tokens + s.forced ≤ s.nerr
  started_len : s.started.length = ((List.range d.zones.length).filter fun i => !d.delayed i).length + s.forced + s.timed

theorem dinv_init (d : DCfg) (pre : Bool) : DInv d (dinit d pre) := by
  constructor <;> simp only [dinit]
  case started_nodup => exact List.Nodup.sublist List.filter_sublist List.nodup_range
  case started_phase => intro i hi; simp at hi; simp [hi.2]
  case started_lt => intro i hi; simp at hi; exact hi.1
  case run_und => intro h; split at h <;> simp_all
  case ret_ok => intro rs h; split at h <;> simp_all
  case ret_err => intro e h; split at h <;> simp_all
  case ret_ctx => intro h; split at h <;> simp_all
  all_goals simp [base]


theorem drecv_sum (d : DCfg) (s1 : DSt) (i : Nat) (r : Res) :
    (drecv d s1 i r).phase = s1.phase ∧ (drecv d s1 i r).chan = s1.chan ∧ (drecv d s1 i r).fin = s1.fin ∧
    (drecv d s1 i r).started = s1.started ∧ (drecv d s1 i r).forced = s1.forced ∧ (drecv d s1 i r).timed = s1.timed ∧
    (drecv d s1 i r).tr = s1.tr ∧
    (drecv d s1 i r).results = (if r = .ok then s1.results ++ [i] else s1.results) ∧
    (drecv d s1 i r).tokens + s1.nerr ≤ s1.tokens + (drecv d s1 i r).nerr ∧ s1.nerr ≤ (drecv d s1 i r).nerr ∧
    (((drecv d s1 i r).main = s1.main ∧ succeeded d.toCfg s1.tr = false ∧ (drecv d s1 i r).ctxCanc = s1.ctxCanc) ∨
     ((drecv d s1 i r).main = .retOk (drecv d s1 i r).results ∧ succeeded d.toCfg s1.tr = true ∧ (drecv d s1 i r).ctxCanc = true) ∨
     (∃ e, (drecv d s1 i r).main = .retErr e ∧ failed d.toCfg s1.tr = true ∧ (drecv d s1 i r).ctxCanc = true)) := by
  unfold drecv
  simp only []
  by_cases hr : r = .ok
  · subst hr
    simp only [bne_self_eq_false, Bool.false_eq_true, if_false, if_true]
    by_cases hsucc : succeeded d.toCfg s1.tr = true
    · simp [hsucc]
    · simp [hsucc]
  · have hb : (r != .ok) = true := by simp [hr]
    simp only [hb, if_true, hr, if_false]
    by_cases hf : failed d.toCfg s1.tr = true
    · simp [hf]
    · simp only [hf, Bool.false_eq_true, if_false]
      by_cases hsucc : succeeded d.toCfg s1.tr = true <;> by_cases hdel : (d.delay && d.maxUnavail == 0) = true <;> simp [hsucc, hdel] <;> omega


theorem dinv_step {d s e s'} (h : DInv d s) (hs : dstep d s e = some s') : DInv d s' := by
  obtain ⟨a1,a2,a3,a4,a5,a6,a7,a8,a9,a10,a11,a12,a13,a14,a15,a16⟩ := h
  cases e with
  | finish i r =>
    simp only [dstep] at hs; split at hs
    · rename_i hc; obtain ⟨hi, hp, hr⟩ := hc
      cases hs
      have hnf : ∀ r', (i, r') ∉ s.fin := fun r' hm => by have := a7 _ _ hm; simp [hp] at this
      have hnc : ∀ r', (i, r') ∉ s.chan := fun r' hm => by have := a5 _ _ hm; simp [hp] at this
      constructor <;> simp only [upd_apply] at *
      case chan_pw => exact pw_append_one a4 hnc
      all_goals grind
    · cases hs
  | cancel =>
    simp only [dstep] at hs; cases hs
    constructor <;> simp only [] <;> first | assumption | grind
  | ctxDone =>
    simp only [dstep] at hs; split at hs
    · rename_i hc; cases hs
      constructor <;> simp only [] <;> first | assumption | grind
    · cases hs
  | force i =>
    simp only [dstep] at hs; split at hs
    · rename_i hc; obtain ⟨hi, hp, ht⟩ := hc
      cases hs
      have hns : i ∉ s.started := fun hm => a2 i hm hp
      constructor <;> simp only [upd_apply] at *
      case started_nodup => exact List.nodup_append.2 ⟨a1, by simp, by intro a ha b hb; simp at hb; subst hb; intro he; subst he; exact hns ha⟩
      case tokens_le => omega
      case started_len => simp only [List.length_append, List.length_cons, List.length_nil]; omega
      all_goals grind
    · cases hs
  | timer i =>
    simp only [dstep] at hs; split at hs
    · rename_i hc; obtain ⟨hi, hp⟩ := hc
      cases hs
      have hns : i ∉ s.started := fun hm => a2 i hm hp
      constructor <;> simp only [upd_apply] at *
      case started_nodup => exact List.nodup_append.2 ⟨a1, by simp, by intro a ha b hb; simp at hb; subst hb; intro he; subst he; exact hns ha⟩
      case started_len => simp only [List.length_append, List.length_cons, List.length_nil]; omega
      all_goals grind
    · cases hs
  | giveUp i =>
    simp only [dstep] at hs; split at hs
    · rename_i hc; obtain ⟨hi, hp, ht⟩ := hc
      cases hs
      constructor <;> simp only [upd_apply] at *
      all_goals grind
    · cases hs
  | recv =>
    simp only [dstep] at hs; split at hs
    · rename_i hc
      split at hs
      · cases hs
      · rename_i i r rest hch
        cases hs
        obtain ⟨s1, s2, s3, s4, s5, s6, s7, s8, s9, s10, hout⟩ :=
          drecv_sum d { s with chan := rest, phase := upd s.phase i .consumed, tr := trackerDone d.toCfg s.tr i (r != .ok) } i r
        rw [hch] at a4 a5 a6
        have hrest : ∀ j r', (j, r') ∈ rest → j ≠ i := by
          intro j r' hm he
          exact (List.pairwise_cons.1 a4).1 _ hm he.symm
        have hpi : s.phase i = .posted := a5 i r (by simp)
        have hfin : (i, r) ∈ s.fin := a6 i r (by simp)
        have hnr : i ∉ s.results := fun hm => by have := (a9 i hm).2; simp [hpi] at this
        have hflat : d.maxUnavail = 0 → (trackerDone d.toCfg s.tr i (r != .ok)).nSucc = (if r = .ok then s.tr.nSucc + 1 else s.tr.nSucc) := by
          intro hz
          have hzm : d.toCfg.zoneMode = false := by simp [DCfg.toCfg, Cfg.zoneMode, hz]
          rw [(trackerDone_flat d.toCfg s.tr i (r != .ok) hzm).1]
          by_cases hr : r = .ok <;> simp [hr]
        generalize drecv d { s with chan := rest, phase := upd s.phase i .consumed, tr := trackerDone d.toCfg s.tr i (r != .ok) } i r = t at *
        simp only [] at s1 s2 s3 s4 s5 s6 s7 s8 s9 s10 hout
        constructor
        case chan_pw => rw [s2]; exact (List.pairwise_cons.1 a4).2
        case res_nodup =>
          rw [s8]; split
          · exact List.nodup_append.2 ⟨a8, by simp, by intro a ha b hb; simp at hb; subst hb; intro he; subst he; exact hnr ha⟩
          · exact a8
        case flat_succ =>
          intro hz; rw [s7, s8, hflat hz, a10 hz]; split <;> simp
        case tokens_le => rw [s5]; omega
        case started_len => rw [s4, s5, s6]; exact a16
        all_goals (simp only [s1, s2, s3, s4, s7, s8, upd_apply] at *)
        all_goals grind
    · cases hs


theorem drun_induction {d : DCfg} {P : DSt → Prop} (hstep : ∀ s e s', P s → dstep d s e = some s' → P s') :
    ∀ (evs : List DEv) {s s'}, P s → drun d s evs = some s' → P s'
  | [], s, s', h, hr => by simp only [drun, Option.some.injEq] at hr; exact hr ▸ h
  | e :: es, s, s', h, hr => by
    simp only [drun] at hr
    cases hst : dstep d s e with
    | none => simp [hst] at hr
    | some s1 =>
      simp only [hst, Option.bind_some] at hr
      exact drun_induction hstep es (hstep s e s1 h hst) hr

theorem dinv_reach {d pre evs s} (hr : drun d (dinit d pre) evs = some s) : DInv d s :=
  drun_induction (P := DInv d) (fun _ _ _ h hs => dinv_step h hs) evs (dinv_init d pre) hr

section legacy
variable {d : DCfg} {pre : Bool} {evs : List DEv} {s : DSt}

theorem do_called_at_most_once (hr : drun d (dinit d pre) evs = some s) :
    s.started.Nodup ∧ ∀ i, i ∈ s.started → i < d.zones.length :=
  ⟨(dinv_reach hr).started_nodup, (dinv_reach hr).started_lt⟩

theorem do_returns_successes (hr : drun d (dinit d pre) evs = some s) {rs} (hm : s.main = .retOk rs) :
    rs.Nodup ∧ (∀ i, i ∈ rs → (i, Res.ok) ∈ s.fin) ∧ succeeded d.toCfg s.tr = true ∧ s.ctxCanc = true := by
  have h := dinv_reach hr
  obtain ⟨h1, h2⟩ := h.ret_ok rs hm
  subst h1
  exact ⟨h.res_nodup, fun i hi => (h.res_ok i hi).1, h2, h.ret_ctx (by rw [hm]; simp)⟩

theorem do_returns_quorum_flat (hr : drun d (dinit d pre) evs = some s) (hz : d.maxUnavail = 0) {rs}
    (hm : s.main = .retOk rs) : rs.length + d.maxErrors ≥ d.zones.length := by
  have h := dinv_reach hr
  obtain ⟨h1, h2⟩ := h.ret_ok rs hm
  subst h1
  have hzm : d.toCfg.zoneMode = false := by simp [DCfg.toCfg, Cfg.zoneMode, hz]
  simp only [succeeded, hzm, Bool.false_eq_true, if_false, decide_eq_true_eq] at h2
  rw [← h.flat_succ hz]
  exact h2

theorem do_error_cause (hr : drun d (dinit d pre) evs = some s) {e} (hm : s.main = .retErr e) :
    ((e = .cancelled ∧ s.ctxCanc = true) ∨ failed d.toCfg s.tr = true) ∧ s.ctxCanc = true :=
  ⟨(dinv_reach hr).ret_err e hm, (dinv_reach hr).ret_ctx (by rw [hm]; simp)⟩

/-- delayed extra requests: besides the requests that are not delayed, a request is started only by
a `forceStart` token — of which there is at most one per error result received — or by its timer. -/
theorem do_delayed_extra (hr : drun d (dinit d pre) evs = some s) :
    s.started.length = ((List.range d.zones.length).filter fun i => !d.delayed i).length + s.forced + s.timed ∧
    s.forced ≤ s.nerr := by
  have h := dinv_reach hr
  exact ⟨h.started_len, by have := h.tokens_le; omega⟩

end legacy
end PfC11
