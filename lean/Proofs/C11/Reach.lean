import Proofs.C11.InvA
/-! Reachability: the structural invariant holds initially and along every run. -/
namespace PfC11
open C11

theorem filter_false_range (n : Nat) : List.filter (fun _ => false) (List.range n) = [] := by
  induction (List.range n) with
  | nil => rfl
  | cons a l ih => simp [List.filter, ih]

theorem invA_init (c : Cfg) (order : List Nat) (pre : Bool) : InvA c (init c order pre) := by
  unfold init
  split
  · constructor <;> simp [base]
  · rcases loopHead_cases c (startRequests c order (base c pre)) with ⟨_, h⟩ | ⟨_, h1, h2⟩
    · rw [h]; constructor <;> simp [base]
    · simp only [startRequests_resMap, startRequests_cleaned] at h1 h2
      have hr : (base c pre).resMap = [] := rfl
      have hc : (base c pre).cleaned = [] := rfl
      rw [hr] at h1 h2; rw [hc] at h2
      simp at h1 h2
      rw [filter_false_range] at h1 h2
      constructor <;> simp [h1, h2] <;> (try simp [base])

/-- an invariant that is preserved by every step holds after every run. -/
theorem run_induction {c : Cfg} {P : St → Prop} (hstep : ∀ s e s', P s → step c s e = some s' → P s') :
    ∀ (evs : List Ev) {s s'}, P s → run c s evs = some s' → P s'
  | [], s, s', h, hr => by simp only [run, Option.some.injEq] at hr; exact hr ▸ h
  | e :: es, s, s', h, hr => by
    simp only [run] at hr
    cases hst : step c s e with
    | none => simp [hst] at hr
    | some s1 =>
      simp only [hst, Option.bind_some] at hr
      exact run_induction hstep es (hstep s e s1 h hst) hr

theorem invA_reach {c order pre evs s} (hr : run c (init c order pre) evs = some s) : InvA c s :=
  run_induction (P := InvA c) (fun _ _ _ h hs => invA_step h hs) evs (invA_init c order pre) hr

end PfC11
