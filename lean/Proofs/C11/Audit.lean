import Proofs.C11.Link
/-! Audit follow-up: lower bounds ("a failure / a hedging tick releases one more request"), the
terminal classification of `awaitStart` errors, the multi-set error path and an iff for `multi_returns_ok`. -/
namespace PfC11
open C11

theorem setRel_go_unit (c : Cfg) (rel : Nat → Rel) (u j : Nat) (h : unitOf c j = u) : setRel c rel u .go j = .go := by
  unfold setRel unitOf at *
  split
  · rename_i hz; simp only [hz, if_true] at h; simp [h]
  · rename_i hz; simp only [hz, Bool.false_eq_true, if_false] at h; simp [upd_apply, h]

theorem releaseNext_head (c : Cfg) (s : St) (u : Nat) (us : List Nat) (hp : s.pending = u :: us) :
    (∀ j, unitOf c j = u → (releaseNext c s).rel j = .go) ∧ (releaseNext c s).released = s.released ++ [u] ∧
    (releaseNext c s).pending = us := by
  unfold releaseNext
  rw [hp]
  exact ⟨fun j hj => setRel_go_unit c s.rel u j hj, rfl, rfl⟩

/-- **a hedging tick releases one more request** (the head of the held-back ones), untimed. -/
theorem tick_releases_next (c : Cfg) (s : St) (u : Nat) (us : List Nat) (hm : s.main = .running) (hh : c.hedging = true)
    (hp : s.pending = u :: us) :
    ∃ s', step c s .tick = some s' ∧ (∀ j, unitOf c j = u → s'.rel j = .go) ∧ s'.released = s.released ++ [u] ∧ s'.pending = us := by
  refine ⟨releaseNext c { s with nTicks := s.nTicks + 1 }, ?_, ?_⟩
  · simp only [step, hm, hh, and_self, if_true]
  · exact releaseNext_head c { s with nTicks := s.nTicks + 1 } u us hp

theorem trackerDone_true_head (c : Cfg) (s : St) (i u : Nat) (us : List Nat) (hp : s.pending = u :: us)
    (hfirst : c.zoneMode = true → s.fails (c.zoneOf i) = 0) :
    (∀ j, unitOf c j = u → (trackerDone c s i true).rel j = .go) ∧ (trackerDone c s i true).released = s.released ++ [u] ∧
    (trackerDone c s i true).pending = us := by
  by_cases hz : c.zoneMode = true
  · simp only [trackerDone, hz, if_true]
    have h1 : upd s.fails (c.zoneOf i) (s.fails (c.zoneOf i) + 1) (c.zoneOf i) = 1 := by simp [upd_apply, hfirst hz]
    rw [if_pos h1]
    exact releaseNext_head c _ u us hp
  · simp only [trackerDone, hz, Bool.false_eq_true, if_false, if_true]
    exact releaseNext_head c _ u us hp

/-- **a counted failure releases one more request**: when the main loop receives a non-terminal error
(in zone-aware mode: the first one of its zone) while requests are still held back, the next one of
them (instance, resp. every instance of the zone) is released to start — before the loop even checks
whether the tolerance is exceeded. -/
theorem failure_releases_next (c : Cfg) (s : St) (i : Nat) (r : Res) (rest : List (Nat × Res)) (u : Nat) (us : List Nat)
    (hm : s.main = .running) (hch : s.chan = (i, r) :: rest) (hr : r ≠ .ok) (hnt : isTerminal c s i r = false)
    (hp : s.pending = u :: us) (hfirst : c.zoneMode = true → s.fails (c.zoneOf i) = 0) :
    ∃ s', step c s .recv = some s' ∧ (∀ j, unitOf c j = u → s'.rel j = .go) ∧ s'.released = s.released ++ [u] ∧ s'.pending = us := by
  refine ⟨recvStep c s i r rest, by simp only [step, hm, hch, if_true], ?_⟩
  rw [recvStep_err c s i r rest (by simp [hnt]) hr]
  obtain ⟨a1, a2, _, _, _⟩ := recvErr_E c (trackerDone c (recv0 s i rest) i true) i r
  obtain ⟨t1, t2, t3⟩ := trackerDone_true_head c (recv0 s i rest) i u us hp hfirst
  refine ⟨fun j hj => by rw [a1]; exact t1 j hj, by rw [a2]; exact t2, ?_⟩
  unfold recvErr; simp only []; split <;> simp [t3]

/-- receiving the error of a failed `awaitStart` that the predicate classifies as terminal makes the
function return that (cancellation-class) error at once, whatever the tolerance. -/
theorem terminal_abort_returns (c : Cfg) (s : St) (i : Nat) (rest : List (Nat × Res)) (hm : s.main = .running)
    (hch : s.chan = (i, .aborted) :: rest) (ht : c.hasTerm = true) (ha : s.abT i = true) :
    ∃ s', step c s .recv = some s' ∧ s'.main = .retErr .cancelled ∧ ∀ j, s'.ctx j = true := by
  refine ⟨recvStep c s i .aborted rest, by simp only [step, hm, hch, if_true], ?_, ?_⟩
  · rw [recvStep_term c s i .aborted rest (by simp [isTerminal, ht, ha])]; simp [errKind]
  · rw [recvStep_term c s i .aborted rest (by simp [isTerminal, ht, ha])]; intro j; rfl

/-! ### multi-set: error path and iff -/

/-- once a first error is recorded the workers' context is cancelled. -/
def ErrCanc (m : MSt) : Prop := m.retErr.isSome = true → m.workersCanc = true

theorem errCanc_callCancel {m} (h : ErrCanc m) (k i : Nat) : ErrCanc (callCancel m k i) := by
  intro he
  rw [(callCancel_mfields m k i).2.2.1] at he
  have := h he
  unfold callCancel cancelIfSafe; split
  · rfl
  · exact this

theorem errCanc_foldl (k : Nat) (l : List Nat) : ∀ {m : MSt}, ErrCanc m → ErrCanc (l.foldl (fun mm i => callCancel mm k i) m) := by
  induction l with
  | nil => exact fun h => h
  | cons a l ih => exact fun h => ih (errCanc_callCancel h k a)

theorem errCanc_foldl2 (l : List (Nat × Nat)) : ∀ {m : MSt}, ErrCanc m → ErrCanc (l.foldl (fun mm ki => callCancel mm ki.1 ki.2) m) := by
  induction l with
  | nil => exact fun h => h
  | cons a l ih => exact fun h => ih (errCanc_callCancel h a.1 a.2)

theorem errCanc_mstep {cs m e m'} (h : ErrCanc m) (hs : mstep cs m e = some m') : ErrCanc m' := by
  cases e with
  | set k e =>
    simp only [mstep] at hs
    cases hc : cs[k]? with
    | none => simp [hc] at hs
    | some c =>
      simp only [hc] at hs
      split at hs
      · cases hs
      · cases hst : step c (m.sets k) e with
        | none => simp [hst] at hs
        | some s' =>
          simp only [hst, Option.some.injEq] at hs
          rw [← hs]
          apply errCanc_foldl
          have : (trackBegin { m with sets := upd m.sets k s' } k e).retErr = m.retErr ∧
              (trackBegin { m with sets := upd m.sets k s' } k e).workersCanc = m.workersCanc := by
            cases e <;> simp only [trackBegin] <;> (try split) <;> simp
          intro he; rw [this.1] at he; rw [this.2]; exact h he
  | finishDone k i r =>
    simp only [mstep] at hs
    cases hc : cs[k]? with
    | none => simp [hc] at hs
    | some c =>
      simp only [hc] at hs
      split at hs
      · cases hs; exact errCanc_callCancel h k i
      · cases hs
  | done k i =>
    simp only [mstep] at hs
    cases hc : cs[k]? with
    | none => simp [hc] at hs
    | some c =>
      simp only [hc] at hs
      split at hs
      · cases hs; exact errCanc_callCancel h k i
      · cases hs
  | cancel => simp only [mstep] at hs; cases hs; exact fun _ => rfl
  | join k =>
    simp only [mstep] at hs
    split at hs
    · split at hs
      · cases hs
      · cases hs; exact h
      · split at hs
        · cases hs; exact h
        · cases hs; exact fun _ => rfl
    · cases hs
  | ret =>
    simp only [mstep] at hs
    split at hs
    · split at hs
      · cases hs; exact errCanc_foldl2 _ h
      · rename_i hre
        cases hs
        intro he
        rw [show (cancelIfSafe { m with expectMore := false }).retErr = m.retErr from (cancelIfSafe_mfields { m with expectMore := false }).2.2.1, hre] at he
        cases he
    · cases hs

/-- **multi-set, error return**: the workers' context — hence the context of every callback, all of
whose results are unused — is cancelled. -/
theorem multi_err_ctx_cancelled {cs orders pre evs m e} (hr : mrun cs (minit cs orders pre) evs = some m)
    (hret : m.ret = some (.error e)) : m.workersCanc = true ∧ ∀ k j, (m.sets k).ctx j = true := by
  have hE : ErrCanc m := mrun_induction (P := ErrCanc) (fun _ _ _ h hs => errCanc_mstep h hs) evs
    (by intro he; simp [minit] at he) hr
  have hW : MInvW m := mrun_induction (P := MInvW) (fun _ _ _ h hs => minvW_mstep h hs) evs (minvW_minit cs orders pre) hr
  have hre := (minv_reach hr).ret_err e hret
  have hw := hE (by rw [hre]; rfl)
  exact ⟨hw, hW.workers hw⟩

/-- the multi-set call, once returned, returned results **iff** every set returned results. -/
theorem multi_ret_ok_iff {cs orders pre evs m} (hr : mrun cs (minit cs orders pre) evs = some m) (hret : m.ret.isSome = true) :
    (∃ rs, m.ret = some (.ok rs)) ↔ ∀ k, k < cs.length → ∃ rk, (m.sets k).main = .retOk rk := by
  constructor
  · rintro ⟨rs, hrs⟩ k hk
    obtain ⟨rk, h1, _⟩ := (multi_returns_ok hr hrs).1 k hk
    exact ⟨rk, h1⟩
  · intro hall
    cases hrv : m.ret with
    | none => rw [hrv] at hret; cases hret
    | some rv =>
      cases rv with
      | ok rs => exact ⟨rs, rfl⟩
      | error ke =>
        obtain ⟨k, e⟩ := ke
        obtain ⟨hk, hmain, _⟩ := multi_returns_first_err hr hrv
        obtain ⟨rk, hrk⟩ := hall k hk
        rw [hrk] at hmain; cases hmain

/-- request minimisation, in terms of what was released: every started instance (its zone) is among the
released units, and the released units are the initial ones plus one per effective release. -/
theorem minimisation_released {c order pre evs s} (hmin : c.minimize = true) (hinv : c.invalid = false)
    (hord : c.zoneMode = false → order.length = c.n) (hr : run c (init c order pre) evs = some s) :
    (∀ i, i ∈ s.started → unitOf c i ∈ s.released) ∧ s.released.length ≤ minUnits c + s.nFailRel + s.nTicks := by
  obtain ⟨_, e2, _, e4⟩ := invE_reach hmin hinv hord hr
  exact ⟨e4, e2⟩

end PfC11
