import Proofs.C11.Main
/-! Part E: request minimisation — how many requests have been released. -/
namespace PfC11
open C11

/-- the unit of release: the instance itself, or its zone in zone-aware mode. -/
def unitOf (c : Cfg) (j : Nat) : Nat := if c.zoneMode then c.zoneOf j else j

/-- number of units released at once by `startMinimumRequests`. -/
def minUnits (c : Cfg) : Nat := if c.zoneMode then c.zoneList.length - c.maxUnavail else c.n - c.maxErrors

theorem setRel_go (c : Cfg) (rel : Nat → Rel) (u : Nat) (v : Rel) (j : Nat) (h : setRel c rel u v j = .go) :
    (v = .go ∧ unitOf c j = u) ∨ rel j = .go := by
  unfold setRel at h
  unfold unitOf
  split at h
  · rename_i hz
    simp only [hz, if_true]
    simp only [] at h
    split at h
    · rename_i hu; exact Or.inl ⟨h, hu⟩
    · exact Or.inr h
  · rename_i hz
    simp only [hz, Bool.false_eq_true, if_false]
    simp only [upd_apply] at h
    split at h
    · rename_i hu; exact Or.inl ⟨h, hu⟩
    · exact Or.inr h

theorem foldl_abort_go (c : Cfg) (l : List Nat) (rel : Nat → Rel) (j : Nat)
    (h : (l.foldl (fun r u => setRel c r u .abort) rel) j = .go) : rel j = .go := by
  induction l generalizing rel with
  | nil => exact h
  | cons a l ih =>
    simp only [List.foldl_cons] at h
    rcases setRel_go c rel a .abort j (ih _ h) with ⟨h1, _⟩ | h1
    · cases h1
    · exact h1

theorem foldl_go_go (c : Cfg) (l : List Nat) (rel : Nat → Rel) (j : Nat)
    (h : (l.foldl (fun r u => setRel c r u .go) rel) j = .go) : unitOf c j ∈ l ∨ rel j = .go := by
  induction l generalizing rel with
  | nil => exact Or.inr h
  | cons a l ih =>
    simp only [List.foldl_cons] at h
    rcases ih _ h with h1 | h1
    · exact Or.inl (List.mem_cons_of_mem _ h1)
    · rcases setRel_go c rel a .go j h1 with ⟨_, h2⟩ | h2
      · exact Or.inl (by rw [h2]; simp)
      · exact Or.inr h2

theorem onSucceeded_rel_go (c : Cfg) (s : St) (j : Nat) (h : (onSucceeded c s).rel j = .go) : s.rel j = .go :=
  foldl_abort_go c s.pending s.rel j h

/-- effect of `startAdditionalRequestsDueTo` on the release bookkeeping. -/
theorem releaseNext_E (c : Cfg) (s : St) :
    (∀ j, (releaseNext c s).rel j = .go → s.rel j = .go ∨ unitOf c j ∈ (releaseNext c s).released) ∧
    (∀ u, u ∈ s.released → u ∈ (releaseNext c s).released) ∧
    (releaseNext c s).released.length ≤ s.released.length + 1 := by
  unfold releaseNext
  split
  · exact ⟨fun j h => Or.inl h, fun u h => h, by omega⟩
  · rename_i u us hp
    refine ⟨?_, fun v h => List.mem_append_left _ h, by simp⟩
    intro j h
    rcases setRel_go c s.rel u .go j h with ⟨_, h2⟩ | h2
    · right; simp [h2]
    · exact Or.inl h2

theorem trackerDone_E (c : Cfg) (s : St) (i : Nat) (b : Bool) :
    (∀ j, (trackerDone c s i b).rel j = .go → s.rel j = .go ∨ unitOf c j ∈ (trackerDone c s i b).released) ∧
    (∀ u, u ∈ s.released → u ∈ (trackerDone c s i b).released) ∧
    (trackerDone c s i b).released.length + s.nFailRel ≤ s.released.length + (trackerDone c s i b).nFailRel ∧
    (trackerDone c s i b).nFailRel ≤ s.nFailRel + (if b then 1 else 0) ∧
    s.nFailRel ≤ (trackerDone c s i b).nFailRel := by
  -- the two shapes of the result
  have hrel : ∀ X : St, X.rel = s.rel → X.released = s.released → X.nFailRel = s.nFailRel + 1 →
      (∀ j, (releaseNext c X).rel j = .go → s.rel j = .go ∨ unitOf c j ∈ (releaseNext c X).released) ∧
      (∀ u, u ∈ s.released → u ∈ (releaseNext c X).released) ∧
      (releaseNext c X).released.length + s.nFailRel ≤ s.released.length + (releaseNext c X).nFailRel ∧
      (releaseNext c X).nFailRel ≤ s.nFailRel + 1 ∧ s.nFailRel ≤ (releaseNext c X).nFailRel := by
    intro X h1 h2 h3
    obtain ⟨e1, e2, e3⟩ := releaseNext_E c X
    rw [h1] at e1; rw [h2] at e2 e3
    simp only [releaseNext_nFailRel, h3]
    exact ⟨e1, e2, by omega, by omega, by omega⟩
  have hsuc : ∀ X : St, X.rel = s.rel → X.released = s.released → X.nFailRel = s.nFailRel → X.pending = s.pending →
      (∀ j, (if succeeded c X then onSucceeded c X else X).rel j = .go → s.rel j = .go ∨ unitOf c j ∈ (if succeeded c X then onSucceeded c X else X).released) ∧
      (∀ u, u ∈ s.released → u ∈ (if succeeded c X then onSucceeded c X else X).released) ∧
      (if succeeded c X then onSucceeded c X else X).released.length + s.nFailRel ≤ s.released.length + (if succeeded c X then onSucceeded c X else X).nFailRel ∧
      (if succeeded c X then onSucceeded c X else X).nFailRel ≤ s.nFailRel + 0 ∧ s.nFailRel ≤ (if succeeded c X then onSucceeded c X else X).nFailRel := by
    intro X h1 h2 h3 _
    split
    · simp only [onSucceeded_released, onSucceeded_nFailRel, h2, h3]
      refine ⟨fun j h => Or.inl ?_, fun u h => h, by omega, by omega, by omega⟩
      rw [← h1]; exact onSucceeded_rel_go c X j h
    · simp only [h1, h2, h3]
      exact ⟨fun j h => Or.inl h, fun u h => h, by omega, by omega, by omega⟩
  by_cases hz : c.zoneMode <;> cases b <;> simp only [trackerDone, hz, Bool.false_eq_true, if_false, if_true]
  · exact hsuc _ rfl rfl rfl rfl
  · split
    · exact hrel _ rfl rfl rfl
    · exact ⟨fun j h => Or.inl h, fun u h => h, by simp, by simp, by simp⟩
  · exact hsuc _ rfl rfl rfl rfl
  · exact hrel _ rfl rfl rfl

structure InvE (c : Cfg) (s : St) : Prop where
  rel_go : ∀ j, s.rel j = .go → unitOf c j ∈ s.released
  rel_len : s.released.length ≤ minUnits c + s.nFailRel + s.nTicks
  failrel : s.nFailRel ≤ s.doneErr.length
  started_unit : ∀ i, i ∈ s.started → unitOf c i ∈ s.released

theorem invE_frame {c s s'} (h : InvE c s) (h1 : s'.rel = s.rel) (h2 : s'.released = s.released)
    (h3 : s'.nFailRel = s.nFailRel) (h4 : s'.nTicks = s.nTicks) (h5 : s'.doneErr = s.doneErr) (h6 : s'.started = s.started) :
    InvE c s' := by
  obtain ⟨e1, e2, e3, e4⟩ := h
  exact ⟨by rw [h1, h2]; exact e1, by rw [h2, h3, h4]; exact e2, by rw [h3, h5]; exact e3, by rw [h6, h2]; exact e4⟩

theorem recvOk_E (c : Cfg) (s1 : St) (i : Nat) :
    (recvOk c s1 i).rel = s1.rel ∧ (recvOk c s1 i).released = s1.released ∧ (recvOk c s1 i).nFailRel = s1.nFailRel ∧
    (recvOk c s1 i).nTicks = s1.nTicks ∧ (recvOk c s1 i).started = s1.started := by
  unfold recvOk; simp

theorem recvErr_E (c : Cfg) (s1 : St) (i : Nat) (r : Res) :
    (recvErr c s1 i r).rel = s1.rel ∧ (recvErr c s1 i r).released = s1.released ∧ (recvErr c s1 i r).nFailRel = s1.nFailRel ∧
    (recvErr c s1 i r).nTicks = s1.nTicks ∧ (recvErr c s1 i r).started = s1.started := by
  unfold recvErr; simp only []; split <;> simp

theorem invE_step {c s e s'} (h : InvE c s) (hs : step c s e = some s') : InvE c s' := by
  cases e with
  | finish i r =>
    simp only [step] at hs; split at hs
    · cases hs; exact invE_frame h rfl rfl rfl rfl rfl rfl
    · cases hs
  | cancel => simp only [step] at hs; cases hs; exact invE_frame h rfl rfl rfl rfl rfl rfl
  | cancelOne i => simp only [step] at hs; cases hs; exact invE_frame h rfl rfl rfl rfl rfl rfl
  | ctxDone =>
    simp only [step] at hs; split at hs
    · cases hs; exact invE_frame h rfl rfl rfl rfl rfl rfl
    · cases hs
  | abort i t =>
    simp only [step] at hs; split at hs
    · cases hs; exact invE_frame h rfl rfl rfl rfl rfl rfl
    · cases hs
  | drain =>
    simp only [step] at hs; split at hs
    · split at hs
      · cases hs
      · cases hs; exact invE_frame h rfl rfl rfl rfl rfl rfl
    · cases hs
  | «begin» i =>
    simp only [step] at hs; split at hs
    · rename_i hc
      cases hs
      obtain ⟨e1, e2, e3, e4⟩ := h
      refine ⟨e1, e2, e3, ?_⟩
      intro j hj
      rcases List.mem_append.1 hj with hj | hj
      · exact e4 j hj
      · simp at hj; subst hj; exact e1 j hc.2.2
    · cases hs
  | tick =>
    simp only [step] at hs; split at hs
    · cases hs
      obtain ⟨e1, e2, e3, e4⟩ := h
      obtain ⟨r1, r2, r3⟩ := releaseNext_E c { s with nTicks := s.nTicks + 1 }
      refine ⟨?_, ?_, ?_, ?_⟩
      · intro j hj
        rcases r1 j hj with h | h
        · exact r2 _ (e1 j h)
        · exact h
      · simp only [releaseNext_nFailRel, releaseNext_nTicks]
        have : (releaseNext c { s with nTicks := s.nTicks + 1 }).released.length ≤ s.released.length + 1 := r3
        omega
      · simp only [releaseNext_nFailRel, releaseNext_doneErr]; exact e3
      · simp only [releaseNext_started]; intro j hj; exact r2 _ (e4 j hj)
    · cases hs
  | recv =>
    simp only [step] at hs; split at hs
    · split at hs
      · cases hs
      · rename_i i r rest hch
        cases hs
        obtain ⟨e1, e2, e3, e4⟩ := h
        by_cases hT : isTerminal c s i r = true
        · rw [recvStep_term c s i r rest hT]
          exact invE_frame ⟨e1, e2, e3, e4⟩ rfl rfl rfl rfl rfl rfl
        · by_cases hr : r = .ok
          · subst hr
            rw [recvStep_ok]
            obtain ⟨a1, a2, a3, a4, a5⟩ := recvOk_E c (trackerDone c (recv0 s i rest) i false) i
            obtain ⟨t1, t2, t3, t4, t5⟩ := trackerDone_E c (recv0 s i rest) i false
            have hd : (recvOk c (trackerDone c (recv0 s i rest) i false) i).doneErr = s.doneErr := by
              rw [(recvOk_C c _ i).2.2.2.2]; simp [recv0]
            refine ⟨?_, ?_, ?_, ?_⟩
            · rw [a1, a2]; intro j hj
              rcases t1 j hj with h | h
              · exact t2 _ (e1 j h)
              · exact h
            · rw [a2, a3, a4, trackerDone_nTicks]
              have h1 : (recv0 s i rest).released = s.released := rfl
              have h2 : (recv0 s i rest).nFailRel = s.nFailRel := rfl
              have h3 : (recv0 s i rest).nTicks = s.nTicks := rfl
              rw [h1, h2] at t3; rw [h3]; omega
            · rw [a3, hd]
              have h2 : (recv0 s i rest).nFailRel = s.nFailRel := rfl
              rw [h2] at t4; simp at t4; omega
            · rw [a5, a2, trackerDone_started]; intro j hj; exact t2 _ (e4 j hj)
          · rw [recvStep_err c s i r rest hT hr]
            obtain ⟨a1, a2, a3, a4, a5⟩ := recvErr_E c (trackerDone c (recv0 s i rest) i true) i r
            obtain ⟨t1, t2, t3, t4, t5⟩ := trackerDone_E c (recv0 s i rest) i true
            have hd : (recvErr c (trackerDone c (recv0 s i rest) i true) i r).doneErr = s.doneErr ++ [i] := by
              rw [(recvErr_C c _ i r).2.2.2.2]; simp [recv0]
            refine ⟨?_, ?_, ?_, ?_⟩
            · rw [a1, a2]; intro j hj
              rcases t1 j hj with h | h
              · exact t2 _ (e1 j h)
              · exact h
            · rw [a2, a3, a4, trackerDone_nTicks]
              have h1 : (recv0 s i rest).released = s.released := rfl
              have h2 : (recv0 s i rest).nFailRel = s.nFailRel := rfl
              have h3 : (recv0 s i rest).nTicks = s.nTicks := rfl
              rw [h1, h2] at t3; rw [h3]; omega
            · rw [a3, hd]
              have h2 : (recv0 s i rest).nFailRel = s.nFailRel := rfl
              rw [h2] at t4; simp at t4 ⊢; omega
            · rw [a5, a2, trackerDone_started]; intro j hj; exact t2 _ (e4 j hj)
    · cases hs

theorem invE_init (c : Cfg) (order : List Nat) (pre : Bool) (hmin : c.minimize = true) (hinv : c.invalid = false)
    (hord : c.zoneMode = false → order.length = c.n) : InvE c (init c order pre) := by
  unfold init
  rw [if_neg (by simp [hinv])]
  have hS : InvE c (startRequests c order (base c pre)) := by
    unfold startRequests
    rw [if_pos hmin]
    simp only []
    have hlen : (startNow c order).length ≤ minUnits c := by
      unfold startNow minUnits
      split
      · exact List.length_take_le _ _
      · rename_i hz; simp only [Bool.not_eq_true] at hz
        rw [List.length_drop, hord hz]; exact Nat.le_refl _
    have hgo : ∀ j, ((startNow c order).foldl (fun r u => setRel c r u .go) (base c pre).rel) j = .go → unitOf c j ∈ startNow c order := by
      intro j hj
      rcases foldl_go_go c _ _ j hj with h | h
      · exact h
      · simp [base] at h
    split
    · refine ⟨?_, ?_, ?_, ?_⟩
      · intro j hj; simp only [onSucceeded_released]; exact hgo j (onSucceeded_rel_go c _ j hj)
      · simp only [onSucceeded_released, onSucceeded_nFailRel, onSucceeded_nTicks]; simp [base]; exact hlen
      · simp [base]
      · simp [base]
    · exact ⟨hgo, by simp [base]; exact hlen, by simp [base], by simp [base]⟩
  exact invE_frame hS (by simp) (by simp) (by simp) (by simp) (by simp) (by simp)

theorem invE_reach {c order pre evs s} (hmin : c.minimize = true) (hinv : c.invalid = false)
    (hord : c.zoneMode = false → order.length = c.n) (hr : run c (init c order pre) evs = some s) : InvE c s :=
  run_induction (P := InvE c) (fun _ _ _ h hs => invE_step h hs) evs (invE_init c order pre hmin hinv hord) hr


theorem nodup_subset_length : ∀ (l1 l2 : List Nat), l1.Nodup → (∀ x, x ∈ l1 → x ∈ l2) → l1.length ≤ l2.length
  | [], _, _, _ => Nat.zero_le _
  | a :: t, l2, hn, hs => by
    have ha : a ∈ l2 := hs a (by simp)
    have hn' := List.nodup_cons.1 hn
    have hs' : ∀ x, x ∈ t → x ∈ l2.erase a := by
      intro x hx
      have hne : x ≠ a := fun he => hn'.1 (he ▸ hx)
      exact (List.mem_erase_of_ne hne).2 (hs x (List.mem_cons_of_mem _ hx))
    have ih := nodup_subset_length t (l2.erase a) hn'.2 hs'
    have hlen : (l2.erase a).length = l2.length - 1 := List.length_erase_of_mem ha
    have hpos : l2.length > 0 := List.length_pos_of_mem ha
    simp only [List.length_cons]; omega

theorem mem_distinct (l : List Nat) (x : Nat) : x ∈ distinct l ↔ x ∈ l := by
  induction l with
  | nil => simp [distinct]
  | cons a l ih =>
    simp only [distinct]
    split
    · rename_i h; rw [ih]; simp only [List.mem_cons]
      constructor
      · exact Or.inr
      · rintro (h1 | h1)
        · subst h1; exact ih.1 h
        · exact h1
    · simp only [List.mem_cons, ih]

theorem distinct_nodup (l : List Nat) : (distinct l).Nodup := by
  induction l with
  | nil => simp [distinct]
  | cons a l ih =>
    simp only [distinct]
    split
    · exact ih
    · rename_i h; exact List.nodup_cons.2 ⟨h, ih⟩

/-- **request minimisation**: the number of released (hence of started) requests is bounded by the
minimum needed plus one per failure that released more, plus one per hedging tick. -/
theorem minimisation_bound {c order pre evs s} (hmin : c.minimize = true) (hinv : c.invalid = false)
    (hord : c.zoneMode = false → order.length = c.n) (hr : run c (init c order pre) evs = some s) :
    (c.zoneMode = false → s.started.length ≤ (c.n - c.maxErrors) + s.nFailRel + s.nTicks) ∧
    (c.zoneMode = true → (distinct (s.started.map c.zoneOf)).length ≤ (c.zoneList.length - c.maxUnavail) + s.nFailRel + s.nTicks) ∧
    s.nFailRel ≤ s.doneErr.length := by
  obtain ⟨e1, e2, e3, e4⟩ := invE_reach hmin hinv hord hr
  have hA := invA_reach hr
  refine ⟨?_, ?_, e3⟩
  · intro hz
    have hsub : ∀ x, x ∈ s.started → x ∈ s.released := by
      intro x hx; have := e4 x hx; simpa [unitOf, hz] using this
    have := nodup_subset_length _ _ hA.started_nodup hsub
    simp only [minUnits, hz, Bool.false_eq_true, if_false] at e2
    omega
  · intro hz
    have hsub : ∀ x, x ∈ distinct (s.started.map c.zoneOf) → x ∈ s.released := by
      intro x hx
      rw [mem_distinct] at hx
      obtain ⟨j, hj, hjz⟩ := List.mem_map.1 hx
      have := e4 j hj; simp only [unitOf, hz, if_true] at this; rw [← hjz]; exact this
    have := nodup_subset_length _ _ (distinct_nodup _) hsub
    simp only [minUnits, hz, if_true] at e2
    omega

/-- never more calls than instances. -/
theorem started_le_n {c order pre evs s} (hr : run c (init c order pre) evs = some s) : s.started.length ≤ c.n := by
  have hA := invA_reach hr
  have := nodup_subset_length s.started (List.range c.n) hA.started_nodup (fun x hx => List.mem_range.2 (hA.started_lt x hx))
  simpa using this

end PfC11
