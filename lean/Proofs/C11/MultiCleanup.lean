import Proofs.C11.Workers
/-! Part M3 (code with the cleanup fix): the multi-set function cleans up what it does not return, and returns the first error. -/
namespace PfC11
open C11

theorem cancelIfSafe_mcleaned (m : MSt) : (cancelIfSafe m).mcleaned = m.mcleaned := by
  unfold cancelIfSafe; split <;> simp [cancelWorkers]

theorem foldl_callCancel_mcleaned (k : Nat) (l : List Nat) : ∀ (m : MSt),
    (l.foldl (fun mm i => callCancel mm k i) m).mcleaned = m.mcleaned := by
  induction l with
  | nil => intro m; rfl
  | cons a l ih => intro m; simp only [List.foldl_cons]; exact (ih _).trans (callCancel_mcleaned m k a)

structure MInvC (cs : List Cfg) (m : MSt) : Prop where
  mclean_err : ∀ e, m.ret = some (.error e) → m.mcleaned = m.results ∧ ∀ k, k < cs.length → k ∈ m.joined
  mclean_not : (∀ e, m.ret ≠ some (.error e)) → m.mcleaned = []
  err_first : ∀ k e, m.retErr = some (k, e) →
    ∃ pre post, m.joined = pre ++ k :: post ∧ ∀ k', k' ∈ pre → ∃ rs, (m.sets k').main = .retOk rs

theorem minvC_frame {cs m m'} (hI : MInv cs m) (h : MInvC cs m)
    (hmain : ∀ k, (m.sets k).main ≠ .running → (m'.sets k).main = (m.sets k).main)
    (h1 : m'.joined = m.joined) (h2 : m'.results = m.results) (h3 : m'.retErr = m.retErr) (h4 : m'.ret = m.ret)
    (h5 : m'.mcleaned = m.mcleaned) : MInvC cs m' := by
  obtain ⟨c1, c2, c3⟩ := h
  refine ⟨by rw [h4, h5, h2, h1]; exact c1, by rw [h4, h5]; exact c2, ?_⟩
  rw [h3, h1]; intro k e he
  obtain ⟨pre, post, hj, hp⟩ := c3 k e he
  refine ⟨pre, post, hj, ?_⟩
  intro k' hk'
  have hkj : k' ∈ m.joined := by rw [hj]; exact List.mem_append_left _ hk'
  rw [hmain k' (hI.joined_ret k' hkj)]; exact hp k' hk'

theorem minvC_mstep {cs m e m'} (hI : MInv cs m) (h : MInvC cs m) (hs : mstep cs m e = some m') : MInvC cs m' := by
  cases e with
  | set k e =>
    simp only [mstep] at hs
    cases hc : cs[k]? with
    | none => simp [hc] at hs
    | some c =>
      simp only [hc] at hs
      split at hs
      · cases hs
      · cases hst : step c (m.sets k) e with
        | none => simp [hst] at hs
        | some s' =>
          simp only [hst, Option.some.injEq] at hs
          rw [← hs]
          obtain ⟨f1, f2, f3, f4, f5⟩ := foldl_callCancel_frame k (s'.cleaned.drop (m.sets k).cleaned.length)
            (trackBegin { m with sets := upd m.sets k s' } k e)
          have f6 := foldl_callCancel_mcleaned k (s'.cleaned.drop (m.sets k).cleaned.length)
            (trackBegin { m with sets := upd m.sets k s' } k e)
          have hf : (trackBegin { m with sets := upd m.sets k s' } k e).sets = upd m.sets k s' ∧
              (trackBegin { m with sets := upd m.sets k s' } k e).joined = m.joined ∧
              (trackBegin { m with sets := upd m.sets k s' } k e).results = m.results ∧
              (trackBegin { m with sets := upd m.sets k s' } k e).retErr = m.retErr ∧
              (trackBegin { m with sets := upd m.sets k s' } k e).ret = m.ret ∧
              (trackBegin { m with sets := upd m.sets k s' } k e).mcleaned = m.mcleaned := by
            cases e <;> simp only [trackBegin] <;> (try split) <;> simp
          refine minvC_frame hI h ?_ (f2.trans hf.2.1) (f3.trans hf.2.2.1) (f4.trans hf.2.2.2.1) (f5.trans hf.2.2.2.2.1)
            (f6.trans hf.2.2.2.2.2)
          intro k' hk'; rw [f1 k', hf.1]; simp only [upd_apply]; split
          · rename_i he; subst he; exact step_main_stable hst hk'
          · rfl
  | finishDone k i r =>
    simp only [mstep] at hs
    cases hc : cs[k]? with
    | none => simp [hc] at hs
    | some c =>
      simp only [hc] at hs
      split at hs
      · cases hs
        obtain ⟨c1, c2, c3, c4, _⟩ := callCancel_mfields m k i
        refine minvC_frame hI h ?_ c1 c2 c3 c4 (callCancel_mcleaned m k i)
        intro k' _
        simp only [upd_apply]; split
        · rename_i he; subst he; exact (callCancel_frame m k' i k').2.1
        · exact (callCancel_frame m k i k').2.1
      · cases hs
  | done k i =>
    simp only [mstep] at hs
    cases hc : cs[k]? with
    | none => simp [hc] at hs
    | some c =>
      simp only [hc] at hs
      split at hs
      · cases hs
        obtain ⟨c1, c2, c3, c4, _⟩ := callCancel_mfields m k i
        exact minvC_frame hI h (fun k' _ => (callCancel_frame m k i k').2.1) c1 c2 c3 c4 (callCancel_mcleaned m k i)
      · cases hs
  | cancel =>
    simp only [mstep] at hs; cases hs
    exact minvC_frame hI h (fun _ _ => rfl) rfl rfl rfl rfl rfl
  | join k =>
    simp only [mstep] at hs
    split at hs
    · rename_i hk
      obtain ⟨c1, c2, c3⟩ := h
      have hnoerr : ∀ e, m.ret ≠ some (.error e) := fun e he => hk.2 ((c1 e he).2 k hk.1)
      cases hmain : (m.sets k).main with
      | running => simp [hmain] at hs
      | retOk rs =>
        simp only [hmain, Option.some.injEq] at hs
        rw [← hs]
        refine ⟨fun e he => absurd he (hnoerr e), fun _ => c2 hnoerr, ?_⟩
        intro k0 e he
        obtain ⟨pre, post, hj, hp⟩ := c3 k0 e he
        exact ⟨pre, post ++ [k], by simp [hj], hp⟩
      | retErr e =>
        simp only [hmain] at hs
        split at hs
        · rename_i e0 hre
          cases hs
          refine ⟨fun e he => absurd he (hnoerr e), fun _ => c2 hnoerr, ?_⟩
          intro k0 e' he
          obtain ⟨pre, post, hj, hp⟩ := c3 k0 e' he
          exact ⟨pre, post ++ [k], by simp [hj], hp⟩
        · rename_i hre
          cases hs
          refine ⟨fun e he => absurd he (hnoerr e), fun _ => c2 hnoerr, ?_⟩
          intro k0 e' he
          simp only [cancelWorkers, Option.some.injEq, Prod.mk.injEq] at he
          obtain ⟨h1, _⟩ := he; subst h1
          exact ⟨m.joined, [], rfl, fun k' hk' => hI.err_none hre k' hk'⟩
    · cases hs
  | ret =>
    simp only [mstep] at hs
    split at hs
    · rename_i hcond
      have hall : ∀ k, k < cs.length → k ∈ m.joined := by
        intro k hk
        have := List.all_eq_true.1 hcond.2 k (List.mem_range.2 hk)
        simpa using this
      have hnone : ∀ e, m.ret ≠ some (.error e) := by
        intro e he; rw [he] at hcond; simp at hcond
      split at hs
      · rename_i e0 hre
        cases hs
        obtain ⟨f1, f2, f3, f4, f5, f6, _⟩ := foldl2_callCancel_frame m.results { m with ret := some (.error e0), mcleaned := m.results }
        refine ⟨?_, ?_, ?_⟩
        · intro e _; rw [f6, f3, f2]; exact ⟨rfl, hall⟩
        · intro hne; exact absurd f5 (hne e0)
        · rw [f4, f2]; intro k e he
          obtain ⟨pre, post, hj, hp⟩ := h.err_first k e he
          refine ⟨pre, post, hj, fun k' hk' => ?_⟩
          rw [f1 k']; exact hp k' hk'
      · rename_i hre
        cases hs
        obtain ⟨f1, f2, f3, f4, f5, f6⟩ := cancelIfSafe_mfields { m with expectMore := false }
        refine ⟨?_, ?_, ?_⟩
        · intro e he; cases he
        · intro _; exact (cancelIfSafe_mcleaned { m with expectMore := false }).trans (h.mclean_not hnone)
        · intro k e he; simp only [] at he; rw [f3] at he; rw [hre] at he; cases he
    · cases hs

theorem minvC_minit (cs : List Cfg) (orders : List (List Nat)) (pre : Bool) : MInvC cs (minit cs orders pre) := by
  refine ⟨?_, fun _ => rfl, ?_⟩ <;> simp [minit]

theorem minvC_reach {cs orders pre evs m} (hr : mrun cs (minit cs orders pre) evs = some m) : MInv cs m ∧ MInvC cs m :=
  mrun_induction (P := fun m => MInv cs m ∧ MInvC cs m) (fun _ _ _ h hs => ⟨minv_mstep h.1 hs, minvC_mstep h.1 h.2 hs⟩) evs
    ⟨minv_minit cs orders pre, minvC_minit cs orders pre⟩ hr


/-- the multi-set call returns the **first** error: the error of worker `k`, and every worker that
finished before worker `k` had returned results. -/
theorem multi_returns_first_err {cs orders pre evs m k e} (hr : mrun cs (minit cs orders pre) evs = some m)
    (hret : m.ret = some (.error (k, e))) :
    k < cs.length ∧ (m.sets k).main = .retErr e ∧
    ∃ before after, m.joined = before ++ k :: after ∧ ∀ k', k' ∈ before → ∃ rs, (m.sets k').main = .retOk rs := by
  obtain ⟨hI, hC⟩ := minvC_reach hr
  have hre := hI.ret_err (k, e) hret
  have h1 := hI.err_some k e hre
  exact ⟨hI.joined_lt k h1.1, h1.2, hC.err_first k e hre⟩

theorem nodup_flatMap_pairs (f : Nat → List Nat) : ∀ (l : List Nat), l.Nodup → (∀ k, k ∈ l → (f k).Nodup) →
    (l.flatMap fun k => (f k).map fun i => (k, i)).Nodup
  | [], _, _ => by simp
  | a :: l, hn, hf => by
    have hn' := List.nodup_cons.1 hn
    simp only [List.flatMap_cons]
    refine List.nodup_append.2 ⟨?_, nodup_flatMap_pairs f l hn'.2 (fun k hk => hf k (List.mem_cons_of_mem _ hk)), ?_⟩
    · have := hf a (by simp)
      generalize f a = fa at this
      induction fa with
      | nil => simp
      | cons x xs ih =>
        have hx := List.nodup_cons.1 this
        simp only [List.map_cons]
        refine List.nodup_cons.2 ⟨?_, ih hx.2⟩
        intro hm
        obtain ⟨y, hy, he⟩ := List.mem_map.1 hm
        exact hx.1 ((Prod.mk.inj he).2 ▸ hy)
    · intro p hp q hq hpq
      subst hpq
      obtain ⟨y, _, he⟩ := List.mem_map.1 hp
      have hq' : (p.1, p.2) ∈ l.flatMap fun k => (f k).map fun i => (k, i) := hq
      rw [mem_flatMap_pairs] at hq'
      rw [← he] at hq'
      exact hn'.1 hq'.1

/-- **cleanup exactly once, multi-set variant** (full statement, for the code with the fix): once
the multi-set call has returned — results or the first error — and set `k` is over, every successful
result of set `k` is either among the returned results, or was handed to the cleanup callback exactly
once (by set `k`'s own `DoUntilQuorum…` call or by the multi-set function). -/
theorem multi_cleanup {cs orders pre evs m} (hr : mrun cs (minit cs orders pre) evs = some m)
    (hret : m.ret.isSome = true) (k : Nat) (c : Cfg) (hc : cs[k]? = some c) (hfin : final c (m.sets k) = true) :
    ∀ i, i < c.n → (i, Res.ok) ∈ (m.sets k).fin →
      (((k, i) ∈ mreturned m ∧ i ∉ (m.sets k).cleaned ∧ (k, i) ∉ m.mcleaned) ∨
       ((k, i) ∉ mreturned m ∧ (m.sets k).cleaned.count i + m.mcleaned.count (k, i) = 1)) := by
  obtain ⟨hI, hC⟩ := minvC_reach hr
  obtain ⟨evs', hr'⟩ := multi_projection hr k c hc
  have hk : k < cs.length := by
    rcases Nat.lt_or_ge k cs.length with h | h
    · exact h
    · simp [List.getElem?_eq_none h] at hc
  intro i hi hok
  have hsingle := cleanup_exactly_once hr' hfin i hi hok
  cases hrv : m.ret with
  | none => rw [hrv] at hret; cases hret
  | some rv =>
    cases rv with
    | ok rs =>
      have hmc : m.mcleaned = [] := hC.mclean_not (by intro e he; rw [hrv] at he; cases he)
      obtain ⟨rk, hrk, hmem⟩ := (multi_returns_ok hr hrv).1 k hk
      simp only [results, hrk] at hsingle
      simp only [mreturned, hrv, hmc, List.not_mem_nil, not_false_eq_true, and_true, List.count_nil, Nat.add_zero]
      rw [hmem i]; exact hsingle
    | error ke =>
      obtain ⟨hmc, hall⟩ := hC.mclean_err ke hrv
      have hkj := hall k hk
      have hmem : (k, i) ∈ m.mcleaned ↔ i ∈ results (m.sets k) := by
        rw [hmc, hI.results_eq, mem_flatMap_pairs]
        exact ⟨fun h => h.2, fun h => ⟨hkj, h⟩⟩
      have hnd : m.mcleaned.Nodup := by
        rw [hmc, hI.results_eq]
        apply nodup_flatMap_pairs _ _ hI.joined_nodup
        intro k' hk'
        have hk'lt := hI.joined_lt k' hk'
        have hc' : cs[k']? = some cs[k'] := List.getElem?_eq_getElem hk'lt
        obtain ⟨evs2, hr2⟩ := multi_projection hr k' _ hc'
        cases hm2 : (m.sets k').main with
        | retOk rs2 => simp only [results, hm2]; exact (returns_only_successes hr2 hm2).1
        | running => simp [results, hm2]
        | retErr e2 => simp [results, hm2]
      right
      refine ⟨by simp [mreturned, hrv], ?_⟩
      rcases hsingle with ⟨h1, h2⟩ | ⟨h1, h2⟩
      · have hc1 : (m.sets k).cleaned.count i = 0 := List.count_eq_zero.2 h2
        have hc2 : m.mcleaned.count (k, i) = 1 := by rw [List.Nodup.count hnd]; simp [hmem.2 h1]
        omega
      · have hc2 : m.mcleaned.count (k, i) = 0 := List.count_eq_zero.2 (fun h => h1 (hmem.1 h))
        omega

end PfC11
