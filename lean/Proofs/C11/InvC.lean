import Proofs.C11.Causes
/-! Part C: invariant `InvC` — the tracker counters count what they should. -/
namespace PfC11
open C11

theorem trackerDone_flat (c : Cfg) (s : St) (i : Nat) (b : Bool) (hz : c.zoneMode = false) :
    (trackerDone c s i b).nSucc = (if b then s.nSucc else s.nSucc + 1) ∧
    (trackerDone c s i b).nErr = (if b then s.nErr + 1 else s.nErr) ∧
    (trackerDone c s i b).waiting = s.waiting ∧ (trackerDone c s i b).fails = s.fails := by
  cases b <;> simp only [trackerDone, hz, Bool.false_eq_true, if_false, if_true] <;> (repeat' split) <;> simp

theorem trackerDone_zone (c : Cfg) (s : St) (i : Nat) (b : Bool) (hz : c.zoneMode = true) :
    (trackerDone c s i b).nSucc = s.nSucc ∧ (trackerDone c s i b).nErr = s.nErr ∧
    (trackerDone c s i b).waiting = upd s.waiting (c.zoneOf i) (s.waiting (c.zoneOf i) - 1) ∧
    (trackerDone c s i b).fails = (if b then upd s.fails (c.zoneOf i) (s.fails (c.zoneOf i) + 1) else s.fails) := by
  cases b <;> simp only [trackerDone, hz, Bool.false_eq_true, if_false, if_true] <;> (repeat' split) <;> simp

theorem countP_remove {l : List Nat} (hn : l.Nodup) {p : Nat → Bool} {i : Nat} (hi : i ∈ l) (hp : p i = true) :
    l.countP (fun j => p j && !decide (j = i)) + 1 = l.countP p := by
  induction l with
  | nil => simp at hi
  | cons a l ih =>
    simp only [List.nodup_cons] at hn
    simp only [List.countP_cons]
    rcases List.mem_cons.1 hi with h | h
    · subst h
      have : l.countP (fun j => p j && !decide (j = i)) = l.countP p := by
        apply List.countP_congr
        intro x hx
        have : x ≠ i := fun he => hn.1 (he ▸ hx)
        simp [this]
      simp [hp, this]
    · have hne : a ≠ i := fun he => hn.1 (he ▸ h)
      have := ih hn.2 h
      simp only [hne, decide_false, Bool.not_false, Bool.and_true]
      omega
end PfC11
namespace PfC11
open C11

/-- the instances of zone `z` the main loop is still waiting for. -/
def waitingPred (c : Cfg) (res done : List Nat) (z : Nat) (j : Nat) : Bool :=
  decide (c.zoneOf j = z) && !decide (j ∈ res) && !decide (j ∈ done)

structure InvC (c : Cfg) (s : St) : Prop where
  flat_succ : c.zoneMode = false → s.nSucc = s.resMap.length
  flat_err : c.zoneMode = false → s.nErr = s.doneErr.length
  res_fin : ∀ i, i ∈ s.resMap → (i, Res.ok) ∈ s.fin
  done_phase : ∀ i, i ∈ s.doneErr → s.phase i = .consumed
  done_lt : ∀ i, i ∈ s.doneErr → i < c.n
  done_nok : ∀ i, i ∈ s.doneErr → (i, Res.ok) ∉ s.fin
  done_nodup : s.doneErr.Nodup
  zone_wait : c.zoneMode = true → ∀ z, s.waiting z = (List.range c.n).countP (waitingPred c s.resMap s.doneErr z)
  zone_fail : c.zoneMode = true → ∀ z, s.fails z = s.doneErr.countP (fun j => decide (c.zoneOf j = z))

theorem invC_frame {c s s'} (h : InvC c s)
    (h1 : s'.nSucc = s.nSucc) (h2 : s'.nErr = s.nErr) (h3 : s'.waiting = s.waiting) (h4 : s'.fails = s.fails)
    (h5 : s'.resMap = s.resMap) (h6 : s'.doneErr = s.doneErr)
    (hph : ∀ i, s.phase i = .consumed → s'.phase i = .consumed)
    (hfin : ∀ i r, (i, r) ∈ s'.fin → (i, r) ∈ s.fin ∨ s.phase i ≠ .consumed)
    (hfin2 : ∀ p, p ∈ s.fin → p ∈ s'.fin) : InvC c s' := by
  obtain ⟨c1, c2, c3, c4, c5, c6, c7, c8, c9⟩ := h
  refine ⟨?_, ?_, ?_, ?_, ?_, ?_, ?_, ?_, ?_⟩
  · rw [h1, h5]; exact c1
  · rw [h2, h6]; exact c2
  · rw [h5]; exact fun i hi => hfin2 _ (c3 i hi)
  · rw [h6]; exact fun i hi => hph i (c4 i hi)
  · rw [h6]; exact c5
  · rw [h6]; intro i hi hm
    rcases hfin i .ok hm with h | h
    · exact c6 i hi h
    · exact h (c4 i hi)
  · rw [h6]; exact c7
  · rw [h3, h5, h6]; exact c8
  · rw [h4, h6]; exact c9

theorem invC_finish {c s i r s'} (h : InvC c s) (hs : step c s (.finish i r) = some s') : InvC c s' := by
  simp only [step] at hs
  split at hs
  · rename_i hc
    cases hs
    refine invC_frame h rfl rfl rfl rfl rfl rfl ?_ ?_ (fun p hp => List.mem_append_left _ hp)
    · intro j hj; simp only [upd_apply]; split
      · rename_i he; subst he; simp [hc.2.1] at hj
      · exact hj
    · intro j r' hm
      simp only [List.mem_append, List.mem_singleton, Prod.mk.injEq] at hm
      rcases hm with hm | hm
      · exact Or.inl hm
      · right; rw [hm.1, hc.2.1]; simp
  · cases hs

theorem invC_begin {c s i s'} (h : InvC c s) (hs : step c s (.begin i) = some s') : InvC c s' := by
  simp only [step] at hs
  split at hs
  · rename_i hc
    cases hs
    refine invC_frame h rfl rfl rfl rfl rfl rfl ?_ (fun _ _ hm => Or.inl hm) (fun p hp => hp)
    intro j hj; simp only [upd_apply]; split
    · rename_i he; subst he; simp [hc.2.1] at hj
    · exact hj
  · cases hs

theorem invC_abort {c s i t s'} (h : InvC c s) (hs : step c s (.abort i t) = some s') : InvC c s' := by
  simp only [step] at hs
  split at hs
  · rename_i hc
    cases hs
    refine invC_frame h rfl rfl rfl rfl rfl rfl ?_ (fun _ _ hm => Or.inl hm) (fun p hp => hp)
    intro j hj; simp only [upd_apply]; split
    · rename_i he; subst he; simp [hc.2.1] at hj
    · exact hj
  · cases hs

theorem invC_cancel {c s s'} (h : InvC c s) (hs : step c s .cancel = some s') : InvC c s' := by
  simp only [step] at hs
  cases hs
  exact invC_frame h rfl rfl rfl rfl rfl rfl (fun _ h => h) (fun _ _ hm => Or.inl hm) (fun p hp => hp)

theorem invC_tick {c s s'} (h : InvC c s) (hs : step c s .tick = some s') : InvC c s' := by
  simp only [step] at hs
  split at hs
  · cases hs
    exact invC_frame h (by simp) (by simp) (by simp) (by simp) (by simp) (by simp) (by simp)
      (by simp only [releaseNext_fin]; exact fun _ _ hm => Or.inl hm) (by simp)
  · cases hs

theorem invC_ctxDone {c s s'} (h : InvC c s) (hs : step c s .ctxDone = some s') : InvC c s' := by
  simp only [step] at hs
  split at hs
  · cases hs
    exact invC_frame h rfl rfl rfl rfl rfl rfl (fun _ h => h) (fun _ _ hm => Or.inl hm) (fun p hp => hp)
  · cases hs

theorem invC_drain {c s s'} (h : InvC c s) (hs : step c s .drain = some s') : InvC c s' := by
  simp only [step] at hs
  split at hs
  · split at hs
    · cases hs
    · rename_i i r rest hch
      cases hs
      refine invC_frame h rfl rfl rfl rfl rfl rfl ?_ (fun _ _ hm => Or.inl hm) (fun p hp => hp)
      intro j hj; simp only [upd_apply]; split <;> simp [hj]
  · cases hs

theorem recvOk_C (c : Cfg) (s1 : St) (i : Nat) :
    (recvOk c s1 i).nSucc = s1.nSucc ∧ (recvOk c s1 i).nErr = s1.nErr ∧ (recvOk c s1 i).waiting = s1.waiting ∧
    (recvOk c s1 i).fails = s1.fails ∧ (recvOk c s1 i).doneErr = s1.doneErr := by
  unfold recvOk; simp

theorem recvErr_C (c : Cfg) (s1 : St) (i : Nat) (r : Res) :
    (recvErr c s1 i r).nSucc = s1.nSucc ∧ (recvErr c s1 i r).nErr = s1.nErr ∧ (recvErr c s1 i r).waiting = s1.waiting ∧
    (recvErr c s1 i r).fails = s1.fails ∧ (recvErr c s1 i r).doneErr = s1.doneErr ++ [i] := by
  unfold recvErr; simp only []; split <;> simp

/-- the state with the head of the channel taken off. -/
def recv0 (s : St) (i : Nat) (rest : List (Nat × Res)) : St := { s with chan := rest, phase := upd s.phase i .consumed }

theorem recvStep_term (c : Cfg) (s : St) (i : Nat) (r : Res) (rest : List (Nat × Res)) (h : isTerminal c s i r = true) :
    recvStep c s i r rest = terminate c (recv0 s i rest) (errKind i r) := by
  unfold recvStep recv0; simp only []; rw [if_pos h]

theorem isTerminal_ok (c : Cfg) (s : St) (i : Nat) : isTerminal c s i .ok = false := by simp [isTerminal]

theorem recvStep_ok (c : Cfg) (s : St) (i : Nat) (rest : List (Nat × Res)) :
    recvStep c s i .ok rest = recvOk c (trackerDone c (recv0 s i rest) i false) i := by
  unfold recvStep recv0; simp [isTerminal_ok]

theorem recvStep_err (c : Cfg) (s : St) (i : Nat) (r : Res) (rest : List (Nat × Res)) (h : ¬ (isTerminal c s i r = true)) (hr : r ≠ .ok) :
    recvStep c s i r rest = recvErr c (trackerDone c (recv0 s i rest) i true) i r := by
  unfold recvStep recv0; simp only []; rw [if_neg h, if_neg hr]

/-- counters after a `recv`, by case. -/
theorem recvStep_C (c : Cfg) (s : St) (i : Nat) (r : Res) (rest : List (Nat × Res)) :
    ∀ t, t = recvStep c s i r rest →
    (isTerminal c s i r = true ∧ t.nSucc = s.nSucc ∧ t.nErr = s.nErr ∧ t.waiting = s.waiting ∧ t.fails = s.fails ∧ t.doneErr = s.doneErr) ∨
    (¬ (isTerminal c s i r = true) ∧
      t.doneErr = (if r = .ok then s.doneErr else s.doneErr ++ [i]) ∧
      (c.zoneMode = false → t.nSucc = (if r = .ok then s.nSucc + 1 else s.nSucc) ∧ t.nErr = (if r = .ok then s.nErr else s.nErr + 1) ∧
          t.waiting = s.waiting ∧ t.fails = s.fails) ∧
      (c.zoneMode = true → t.nSucc = s.nSucc ∧ t.nErr = s.nErr ∧
          t.waiting = upd s.waiting (c.zoneOf i) (s.waiting (c.zoneOf i) - 1) ∧
          t.fails = (if r = .ok then s.fails else upd s.fails (c.zoneOf i) (s.fails (c.zoneOf i) + 1)))) := by
  intro t ht
  by_cases hT : isTerminal c s i r = true
  · left
    rw [recvStep_term c s i r rest hT] at ht; subst ht
    exact ⟨hT, rfl, rfl, rfl, rfl, rfl⟩
  · right
    refine ⟨hT, ?_⟩
    by_cases hr : r = .ok
    · subst hr
      rw [recvStep_ok] at ht; subst ht
      obtain ⟨a1, a2, a3, a4, a5⟩ := recvOk_C c (trackerDone c (recv0 s i rest) i false) i
      refine ⟨by rw [a5]; simp [recv0], ?_, ?_⟩
      · intro hz
        obtain ⟨b1, b2, b3, b4⟩ := trackerDone_flat c (recv0 s i rest) i false hz
        rw [a1, a2, a3, a4, b1, b2, b3, b4]; simp [recv0]
      · intro hz
        obtain ⟨b1, b2, b3, b4⟩ := trackerDone_zone c (recv0 s i rest) i false hz
        rw [a1, a2, a3, a4, b1, b2, b3, b4]; simp [recv0]
    · rw [recvStep_err c s i r rest hT hr] at ht; subst ht
      obtain ⟨a1, a2, a3, a4, a5⟩ := recvErr_C c (trackerDone c (recv0 s i rest) i true) i r
      refine ⟨by rw [a5]; simp [recv0, hr], ?_, ?_⟩
      · intro hz
        obtain ⟨b1, b2, b3, b4⟩ := trackerDone_flat c (recv0 s i rest) i true hz
        rw [a1, a2, a3, a4, b1, b2, b3, b4]; simp [recv0, hr]
      · intro hz
        obtain ⟨b1, b2, b3, b4⟩ := trackerDone_zone c (recv0 s i rest) i true hz
        rw [a1, a2, a3, a4, b1, b2, b3, b4]; simp [recv0, hr]

theorem wait_count_step (c : Cfg) (res done res' done' : List Nat) (i : Nat) (hi : i < c.n)
    (hnr : i ∉ res) (hnd : i ∉ done)
    (hmem : ∀ j, (j ∈ res' ∨ j ∈ done') ↔ (j ∈ res ∨ j ∈ done ∨ j = i)) (z : Nat) :
    (List.range c.n).countP (waitingPred c res' done' z) =
      if c.zoneOf i = z then (List.range c.n).countP (waitingPred c res done z) - 1
      else (List.range c.n).countP (waitingPred c res done z) := by
  have hpt : ∀ j, waitingPred c res' done' z j = (waitingPred c res done z j && !decide (j = i)) := by
    intro j
    simp only [waitingPred]
    by_cases h3 : j = i
    · subst h3
      have : j ∈ res' ∨ j ∈ done' := (hmem j).2 (Or.inr (Or.inr rfl))
      rcases this with h | h <;> simp [h]
    · have hm : (j ∈ res' ∨ j ∈ done') ↔ (j ∈ res ∨ j ∈ done) := by simpa [h3] using hmem j
      by_cases h1 : j ∈ res <;> by_cases h2 : j ∈ done <;> by_cases h4 : j ∈ res' <;> by_cases h5 : j ∈ done' <;> simp_all
  have hfun : waitingPred c res' done' z = fun j => (waitingPred c res done z j && !decide (j = i)) := funext hpt
  rw [hfun]
  split
  · rename_i hz
    have hp : waitingPred c res done z i = true := by simp [waitingPred, hz, hnr, hnd]
    have := countP_remove (l := List.range c.n) List.nodup_range (p := waitingPred c res done z) (List.mem_range.2 hi) hp
    omega
  · rename_i hz
    apply List.countP_congr
    intro x _
    by_cases hx : x = i
    · subst hx; simp [waitingPred, hz]
    · simp [hx]

theorem invC_recv {c s s'} (hA : InvA c s) (h : InvC c s) (hs : step c s .recv = some s') : InvC c s' := by
  simp only [step] at hs
  split at hs
  · rename_i hc
    split at hs
    · cases hs
    · rename_i i r rest hch
      cases hs
      obtain ⟨s1, _, s3, _, _, s6, _⟩ := recvStep_sum c s i r rest hc
      have hC := recvStep_C c s i r rest _ rfl
      obtain ⟨c1, c2, c3, c4, c5, c6, c7, c8, c9⟩ := h
      have hpi : s.phase i = .posted := hA.chan_phase i r (by rw [hch]; simp)
      have hilt : i < c.n := hA.chan_lt i r (by rw [hch]; simp)
      have hfin : r = .ok → (i, Res.ok) ∈ s.fin := by
        intro hr; subst hr; exact hA.chan_fin i .ok (by rw [hch]; simp) (by decide)
      have hnfin : r ≠ .ok → (i, Res.ok) ∉ s.fin := by
        intro hr hm
        by_cases hab : r = .aborted
        · subst hab; exact hA.chan_ab i .ok (by rw [hch]; simp) hm
        · exact hr (hA.fin_uniq i r .ok (hA.chan_fin i r (by rw [hch]; simp) hab) hm)
      have hinr : i ∉ s.resMap := by
        intro hm; have := (hA.run_res hc i).1 hm; simp [hpi] at this
      have hind : i ∉ s.doneErr := by
        intro hm; have := c4 i hm; simp [hpi] at this
      generalize recvStep c s i r rest = t at *
      rcases hC with ⟨hT, d1, d2, d3, d4, d5⟩ | ⟨hT, d5, dflat, dzone⟩
      · have hr : r ≠ .ok := isTerminal_ne_ok hT
        simp only [hr, if_false] at s6
        refine ⟨?_, ?_, ?_, ?_, ?_, ?_, ?_, ?_, ?_⟩
        · rw [d1, s6]; exact c1
        · rw [d2, d5]; exact c2
        · rw [s6, s3]; exact c3
        · rw [d5, s1]; intro j hj; simp only [upd_apply]; split <;> simp [c4 j hj]
        · rw [d5]; exact c5
        · rw [d5, s3]; exact c6
        · rw [d5]; exact c7
        · rw [d3, s6, d5]; exact c8
        · rw [d4, d5]; exact c9
      · refine ⟨?_, ?_, ?_, ?_, ?_, ?_, ?_, ?_, ?_⟩
        · intro hz; rw [(dflat hz).1, s6]; have := c1 hz; split <;> simp [this]
        · intro hz; rw [(dflat hz).2.1, d5]; have := c2 hz; split <;> simp [this]
        · rw [s6, s3]; intro j hj
          split at hj
          · rename_i hr
            rcases List.mem_append.1 hj with hj | hj
            · exact c3 j hj
            · simp at hj; subst hj; exact hfin hr
          · exact c3 j hj
        · rw [d5, s1]; intro j hj; simp only [upd_apply]
          split at hj
          · split <;> simp [c4 j hj]
          · rcases List.mem_append.1 hj with hj | hj
            · split <;> simp [c4 j hj]
            · simp at hj; simp [hj]
        · rw [d5]; intro j hj
          split at hj
          · exact c5 j hj
          · rcases List.mem_append.1 hj with hj | hj
            · exact c5 j hj
            · simp at hj; subst hj; exact hilt
        · rw [d5, s3]; intro j hj
          split at hj
          · exact c6 j hj
          · rename_i hr
            rcases List.mem_append.1 hj with hj | hj
            · exact c6 j hj
            · simp at hj; subst hj; exact hnfin hr
        · rw [d5]; split
          · exact c7
          · exact List.nodup_append.2 ⟨c7, by simp, by intro a ha b hb; simp at hb; subst hb; intro he; subst he; exact hind ha⟩
        · intro hz z
          rw [(dzone hz).2.2.1, s6, d5]
          have hstep := wait_count_step c s.resMap s.doneErr (if r = .ok then s.resMap ++ [i] else s.resMap)
            (if r = .ok then s.doneErr else s.doneErr ++ [i]) i hilt hinr hind (by
              intro j; by_cases hr : r = .ok <;> simp [hr] <;> grind) z
          rw [hstep]
          simp only [upd_apply]
          by_cases hzz : z = c.zoneOf i
          · subst hzz; simp [c8 hz]
          · have : ¬ c.zoneOf i = z := fun h => hzz h.symm
            simp [hzz, this, c8 hz]
        · intro hz z
          rw [(dzone hz).2.2.2, d5]
          by_cases hr : r = .ok
          · simp only [hr, if_true]; exact c9 hz z
          · simp only [hr, if_false, upd_apply, List.countP_append, List.countP_cons, List.countP_nil]
            by_cases hzz : z = c.zoneOf i
            · subst hzz; simp [c9 hz]
            · have : ¬ c.zoneOf i = z := fun h => hzz h.symm
              simp [hzz, this, c9 hz]
  · cases hs

theorem invC_cancelOne {c s i s'} (h : InvC c s) (hs : step c s (.cancelOne i) = some s') : InvC c s' := by
  simp only [step] at hs
  cases hs
  exact invC_frame h rfl rfl rfl rfl rfl rfl (fun _ h => h) (fun _ _ hm => Or.inl hm) (fun p hp => hp)

theorem invC_step {c s e s'} (hA : InvA c s) (h : InvC c s) (hs : step c s e = some s') : InvC c s' := by
  cases e with
  | finish i r => exact invC_finish h hs
  | cancel => exact invC_cancel h hs
  | tick => exact invC_tick h hs
  | recv => exact invC_recv hA h hs
  | ctxDone => exact invC_ctxDone h hs
  | «begin» i => exact invC_begin h hs
  | abort i t => exact invC_abort h hs
  | drain => exact invC_drain h hs
  | cancelOne i => exact invC_cancelOne h hs

theorem count_eq_countP_range (l : List Nat) (z : Nat) :
    l.count z = (List.range l.length).countP (fun j => decide (l.getD j 0 = z)) := by
  induction l with
  | nil => simp
  | cons a l ih =>
    rw [List.length_cons, List.range_succ_eq_map, List.countP_cons, List.countP_map, List.count_cons, ih]
    have : ((fun j => decide ((a :: l).getD j 0 = z)) ∘ Nat.succ) = (fun j => decide (l.getD j 0 = z)) := by
      funext j; simp
    rw [this]
    simp only [List.getD_cons_zero, beq_iff_eq, decide_eq_true_eq]

theorem invC_base (c : Cfg) (pre : Bool) : InvC c (base c pre) := by
  refine ⟨fun _ => rfl, fun _ => rfl, ?_, ?_, ?_, ?_, List.nodup_nil, ?_, ?_⟩
  · intro i hi; simp [base] at hi
  · intro i hi; simp [base] at hi
  · intro i hi; simp [base] at hi
  · intro i hi; simp [base] at hi
  · intro _ z
    have hf : waitingPred c [] [] z = fun j => decide (c.zones.getD j 0 = z) := by
      funext j; simp [waitingPred, Cfg.zoneOf]
    show c.zones.count z = List.countP (waitingPred c [] [] z) (List.range c.zones.length)
    rw [hf]
    exact count_eq_countP_range c.zones z
  · intro _ z; simp [base]

theorem invC_init (c : Cfg) (order : List Nat) (pre : Bool) : InvC c (init c order pre) := by
  unfold init
  split
  · exact invC_frame (invC_base c pre) rfl rfl rfl rfl rfl rfl (fun _ _ => rfl) (fun _ _ hm => Or.inl hm) (fun p hp => hp)
  · exact invC_frame (invC_base c pre) (by simp) (by simp) (by simp) (by simp) (by simp) (by simp) (by simp)
      (by simp only [loopHead_fin, startRequests_fin]; exact fun _ _ hm => Or.inl hm) (by simp)

theorem inv_reachC {c order pre evs s} (hr : run c (init c order pre) evs = some s) : InvA c s ∧ InvB c s ∧ InvC c s :=
  run_induction (P := fun s => InvA c s ∧ InvB c s ∧ InvC c s)
    (fun _ _ _ h hs => ⟨invA_step h.1 hs, invB_step h.1 h.2.1 hs, invC_step h.1 h.2.2 hs⟩) evs
    ⟨invA_init c order pre, invB_init c order pre, invC_init c order pre⟩ hr
end PfC11
