import Proofs.C11.Live
/-! Part T: after the return everything drains: progress and termination. -/
namespace PfC11
open C11

def weight : Phase → Nat
  | .waiting => 3
  | .running => 2
  | .posted => 1
  | .consumed => 0

/-- what is still to happen: 3 per goroutine still in `awaitStart`, 2 per running callback, 1 per posted result. -/
def mu (c : Cfg) (s : St) : Nat := ((List.range c.n).map fun i => weight (s.phase i)).sum

theorem sum_map_upd (f : Nat → Phase) (i : Nat) (v : Phase) : ∀ n, i < n →
    ((List.range n).map fun j => weight (upd f i v j)).sum + weight (f i) = ((List.range n).map fun j => weight (f j)).sum + weight v
  | 0, h => absurd h (Nat.not_lt_zero i)
  | n + 1, h => by
    rw [List.range_succ, List.map_append, List.map_append, List.sum_append, List.sum_append]
    simp only [List.map_cons, List.map_nil, List.sum_cons, List.sum_nil, Nat.add_zero]
    by_cases hi : i = n
    · subst hi
      have : ((List.range i).map fun j => weight (upd f i v j)) = (List.range i).map fun j => weight (f j) := by
        apply List.map_congr_left
        intro j hj
        have : j ≠ i := by have := List.mem_range.1 hj; omega
        simp [upd_apply, this]
      rw [this]; simp [upd_apply]; omega
    · have hlt : i < n := by omega
      have ih := sum_map_upd f i v n hlt
      have : upd f i v n = f n := by simp [upd_apply, Ne.symm hi]
      rw [this]; omega

theorem mu_le (c : Cfg) (s : St) : mu c s ≤ 3 * c.n := by
  unfold mu
  generalize c.n = n
  induction n with
  | zero => simp
  | succ n ih =>
    rw [List.range_succ, List.map_append, List.sum_append]
    simp only [List.map_cons, List.map_nil, List.sum_cons, List.sum_nil, Nat.add_zero]
    have : weight (s.phase n) ≤ 3 := by cases s.phase n <;> simp [weight]
    omega

/-- after the return, every event except the caller / a callback cancelling makes progress. -/
theorem step_mu_decreases {c : Cfg} {s s' : St} {e : Ev} (hA : InvA c s) (hq : QuietEv e) (hm : s.main ≠ .running)
    (hs : step c s e = some s') : mu c s' < mu c s := by
  cases e with
  | cancel => exact absurd rfl hq.1
  | cancelOne i => exact absurd rfl (hq.2 i)
  | tick => simp only [step] at hs; split at hs
            · rename_i h; exact absurd h.1 hm
            · cases hs
  | recv => simp only [step] at hs; split at hs
            · rename_i h; exact absurd h hm
            · cases hs
  | ctxDone => simp only [step] at hs; split at hs
               · rename_i h; exact absurd h.1 hm
               · cases hs
  | finish i r =>
    simp only [step] at hs; split at hs
    · rename_i hc; cases hs
      have := sum_map_upd s.phase i .posted c.n hc.1
      simp only [mu]; rw [hc.2.1] at this
      have w3 : weight .waiting = 3 := rfl
      have w2 : weight .running = 2 := rfl
      have w1 : weight .posted = 1 := rfl
      have w0 : weight .consumed = 0 := rfl
      omega
    · cases hs
  | «begin» i =>
    simp only [step] at hs; split at hs
    · rename_i hc; cases hs
      have := sum_map_upd s.phase i .running c.n hc.1
      simp only [mu]; rw [hc.2.1] at this
      have w3 : weight .waiting = 3 := rfl
      have w2 : weight .running = 2 := rfl
      have w1 : weight .posted = 1 := rfl
      have w0 : weight .consumed = 0 := rfl
      omega
    · cases hs
  | abort i t =>
    simp only [step] at hs; split at hs
    · rename_i hc; cases hs
      have := sum_map_upd s.phase i .posted c.n hc.1
      simp only [mu]; rw [hc.2.1] at this
      have w3 : weight .waiting = 3 := rfl
      have w2 : weight .running = 2 := rfl
      have w1 : weight .posted = 1 := rfl
      have w0 : weight .consumed = 0 := rfl
      omega
    · cases hs
  | drain =>
    simp only [step] at hs
    rw [if_pos hm] at hs
    cases hch : s.chan with
    | nil => rw [hch] at hs; cases hs
    | cons p rest =>
      obtain ⟨i, r⟩ := p; rw [hch] at hs; cases hs
      have hpi := hA.chan_phase i r (by rw [hch]; simp)
      have hilt := hA.chan_lt i r (by rw [hch]; simp)
      have := sum_map_upd s.phase i .consumed c.n hilt
      simp only [mu]; rw [hpi] at this
      have w1 : weight .posted = 1 := rfl
      have w0 : weight .consumed = 0 := rfl
      omega


/-- a posted result sits in the channel until it is received. -/
def InvP (c : Cfg) (s : St) : Prop := ∀ i, i < c.n → s.phase i = .posted → ∃ r, (i, r) ∈ s.chan

theorem invP_step {c s e s'} (_hA : InvA c s) (h : InvP c s) (hs : step c s e = some s') : InvP c s' := by
  cases e with
  | finish i r =>
    simp only [step] at hs; split at hs
    · cases hs; intro j hj hp
      simp only [upd_apply] at hp
      by_cases hji : j = i
      · subst hji; exact ⟨r, by simp⟩
      · simp only [hji, if_false] at hp
        obtain ⟨r', hr'⟩ := h j hj hp; exact ⟨r', List.mem_append_left _ hr'⟩
    · cases hs
  | cancel => simp only [step] at hs; cases hs; exact h
  | cancelOne i => simp only [step] at hs; cases hs; exact h
  | tick => simp only [step] at hs; split at hs
            · cases hs; intro j hj hp; simp only [releaseNext_phase] at hp
              obtain ⟨r', hr'⟩ := h j hj hp; exact ⟨r', by simpa using hr'⟩
            · cases hs
  | ctxDone => simp only [step] at hs; split at hs <;> cases hs; exact h
  | «begin» i =>
    simp only [step] at hs; split at hs
    · cases hs; intro j hj hp
      simp only [upd_apply] at hp
      by_cases hji : j = i
      · subst hji; simp at hp
      · simp only [hji, if_false] at hp; exact h j hj hp
    · cases hs
  | abort i t =>
    simp only [step] at hs; split at hs
    · cases hs; intro j hj hp
      simp only [upd_apply] at hp
      by_cases hji : j = i
      · subst hji; exact ⟨.aborted, by simp⟩
      · simp only [hji, if_false] at hp
        obtain ⟨r', hr'⟩ := h j hj hp; exact ⟨r', List.mem_append_left _ hr'⟩
    · cases hs
  | drain =>
    simp only [step] at hs
    by_cases hmm : s.main ≠ .running
    · rw [if_pos hmm] at hs
      cases hch : s.chan with
      | nil => rw [hch] at hs; cases hs
      | cons p rest =>
        obtain ⟨i, r⟩ := p; rw [hch] at hs; cases hs
        intro j hj hp
        simp only [upd_apply] at hp
        by_cases hji : j = i
        · subst hji; simp at hp
        · simp only [hji, if_false] at hp
          obtain ⟨r', hr'⟩ := h j hj hp
          rw [hch] at hr'
          rcases List.mem_cons.1 hr' with h1 | h1
          · exact absurd (Prod.mk.inj h1).1 hji
          · exact ⟨r', h1⟩
    · rw [if_neg hmm] at hs; cases hs
  | recv =>
    simp only [step] at hs; split at hs
    · rename_i hm
      cases hch : s.chan with
      | nil => rw [hch] at hs; cases hs
      | cons p rest =>
        obtain ⟨i, r⟩ := p; rw [hch] at hs; cases hs
        obtain ⟨s1, s2, _⟩ := recvStep_sum c s i r rest hm
        intro j hj hp
        rw [s1] at hp; rw [s2]
        simp only [upd_apply] at hp
        by_cases hji : j = i
        · subst hji; simp at hp
        · simp only [hji, if_false] at hp
          obtain ⟨r', hr'⟩ := h j hj hp
          rw [hch] at hr'
          rcases List.mem_cons.1 hr' with h1 | h1
          · exact absurd (Prod.mk.inj h1).1 hji
          · exact ⟨r', h1⟩
    · cases hs

theorem invP_init (c : Cfg) (order : List Nat) (pre : Bool) : InvP c (init c order pre) := by
  intro i _ hp
  unfold init at hp
  split at hp
  · simp at hp
  · simp [base] at hp

theorem invP_reach {c order pre evs s} (hr : run c (init c order pre) evs = some s) : InvP c s := by
  have : InvA c s ∧ InvP c s :=
    run_induction (P := fun s => InvA c s ∧ InvP c s) (fun _ _ _ h hs => ⟨invA_step h.1 hs, invP_step h.1 h.2 hs⟩) evs
      ⟨invA_init c order pre, invP_init c order pre⟩ hr
  exact this.2

/-- **progress**: after the return, as long as not everything is over, a goroutine can move: the
drain goroutine receives, a goroutine waiting in `awaitStart` gives up (its context is cancelled),
or a running callback may return (the fairness assumption). -/
theorem progress_after_return {c order pre evs s} (hr : run c (init c order pre) evs = some s)
    (hm : s.main ≠ .running) (hnf : final c s = false) : ∃ e, QuietEv e ∧ (step c s e).isSome = true := by
  have hP := invP_reach hr
  cases hch : s.chan with
  | cons p rest =>
    refine ⟨.drain, ⟨by simp, by simp⟩, ?_⟩
    obtain ⟨i, r⟩ := p
    simp only [step, if_pos hm, hch, Option.isSome_some]
  | nil =>
    have : ∃ i, i < c.n ∧ s.phase i ≠ .consumed := by
      simp only [final, hch, List.isEmpty_nil, Bool.and_true, Bool.and_eq_false_iff, bne_eq_false_iff_eq, List.all_eq_false, List.mem_range, decide_eq_true_eq] at hnf
      rcases hnf with h | ⟨i, hi, hp⟩
      · exact absurd h hm
      · exact ⟨i, hi, hp⟩
    obtain ⟨i, hi, hp⟩ := this
    cases hph : s.phase i with
    | consumed => exact absurd hph hp
    | posted =>
      obtain ⟨r, hr'⟩ := hP i hi hph
      rw [hch] at hr'; simp at hr'
    | running =>
      refine ⟨.finish i .ok, ⟨by simp, by simp⟩, ?_⟩
      simp only [step]; rw [if_pos ⟨hi, hph, by decide⟩]; rfl
    | waiting =>
      refine ⟨.abort i false, ⟨by simp, by simp⟩, ?_⟩
      simp only [step]; rw [if_pos ⟨hi, hph, Or.inr (held_released_or_cancelled hr hm i hi hph)⟩]; rfl

/-- **termination**: after the return, every continuation without further cancellations has at most
`mu ≤ 3·n` steps (each goroutine gives up or starts, returns, and is drained). -/
theorem drain_terminates {c : Cfg} : ∀ (evs' : List Ev) {s s' : St}, InvA c s → s.main ≠ .running →
    (∀ e, e ∈ evs' → QuietEv e) → run c s evs' = some s' → evs'.length + mu c s' ≤ mu c s
  | [], s, s', _, _, _, hr => by simp only [run, Option.some.injEq] at hr; subst hr; simp
  | e :: es, s, s', hA, hm, hq, hr => by
    simp only [run] at hr
    cases hst : step c s e with
    | none => simp [hst] at hr
    | some s1 =>
      simp only [hst, Option.bind_some] at hr
      have hdec := step_mu_decreases hA (hq e (by simp)) hm hst
      have hm1 : s1.main ≠ .running := by rw [step_main_stable hst hm]; exact hm
      have ih := drain_terminates es (invA_step hA hst) hm1 (fun e' he' => hq e' (List.mem_cons_of_mem _ he')) hr
      simp only [List.length_cons]; omega

end PfC11
