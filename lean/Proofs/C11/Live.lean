import Proofs.C11.Workers
/-! Part L: contexts of returned results stay live in the …WithoutSuccessfulContextCancellation variant. -/
namespace PfC11
open C11

/-- converse of `foldCancel_hits`: a context cancelled by the final loop was cancelled before or is
hit by the cancellation of an instance that is not kept. -/
theorem foldCancel_true (c : Cfg) (p : Nat → Bool) (l : List Nat) (ctx : Nat → Bool) (j : Nat)
    (h : (l.foldl (fun cx i => if p i then cx else cancelFor c cx i) ctx) j = true) :
    ctx j = true ∨ ∃ k, k ∈ l ∧ p k = false ∧ (if c.zoneMode then c.zoneOf j = c.zoneOf k else j = k) := by
  induction l generalizing ctx with
  | nil => exact Or.inl h
  | cons a l ih =>
    simp only [List.foldl_cons] at h
    rcases ih _ h with h1 | ⟨k, hk, hp, hz⟩
    · by_cases hpa : p a = true
      · simp only [hpa, if_true] at h1; exact Or.inl h1
      · simp only [hpa, Bool.false_eq_true, if_false] at h1
        unfold cancelFor at h1
        split at h1
        · rename_i hzm
          simp only [Bool.or_eq_true, decide_eq_true_eq] at h1
          rcases h1 with h1 | h1
          · exact Or.inl h1
          · exact Or.inr ⟨a, by simp, by simpa using hpa, by simp [hzm, h1]⟩
        · rename_i hzm
          simp only [upd_apply] at h1
          split at h1
          · rename_i he; exact Or.inr ⟨a, by simp, by simpa using hpa, by simp [hzm, he]⟩
          · exact Or.inl h1
    · exact Or.inr ⟨k, List.mem_cons_of_mem _ hk, hp, hz⟩

/-- why a context is cancelled while the main loop runs and the caller has not cancelled. -/
def CtxWhy (c : Cfg) (s : St) (i : Nat) : Prop := if c.zoneMode then s.fails (c.zoneOf i) > 0 else i ∈ s.doneErr

theorem finishOk_live (c : Cfg) (s : St) (hC : InvC c s) (hnc : c.cancelAll = false)
    (hlive : ∀ i, s.ctx i = true → CtxWhy c s i) : ∀ i, i < c.n → kept c s i = true → (finishOk c s).ctx i = false := by
  intro i hi hk
  simp only [finishOk, hnc, Bool.false_eq_true, if_false]
  by_cases hctx : (List.foldl (fun cx i => if kept c s i = true then cx else cancelFor c cx i) s.ctx (List.range c.n)) i = true
  · exfalso
    simp only [kept, Bool.and_eq_true, decide_eq_true_eq] at hk
    rcases foldCancel_true c (kept c s) (List.range c.n) s.ctx i hctx with h1 | ⟨k, hkr, hpk, hz⟩
    · have hw := hlive i h1
      unfold CtxWhy at hw
      by_cases hzm : c.zoneMode = true
      · simp only [hzm, if_true] at hw
        have := hk.2; simp only [includes, hzm, if_true, Bool.and_eq_true, beq_iff_eq] at this
        omega
      · simp only [hzm, Bool.false_eq_true, if_false] at hw
        exact hC.done_nok i hw (hC.res_fin i hk.1)
    · by_cases hzm : c.zoneMode = true
      · simp only [hzm, if_true] at hz
        have hinc := hk.2; simp only [includes, hzm, if_true, Bool.and_eq_true, beq_iff_eq] at hinc
        have hkres := zone_complete_all_ok hC hzm hinc.2 hinc.1 k (List.mem_range.1 hkr) hz.symm
        have : kept c s k = true := by
          simp only [kept, includes, hzm, if_true, Bool.and_eq_true, decide_eq_true_eq, beq_iff_eq]
          rw [← hz]; exact ⟨hkres, hinc⟩
        rw [this] at hpk; cases hpk
      · simp only [hzm, Bool.false_eq_true, if_false] at hz
        subst hz
        have : kept c s i = true := by simp only [kept, Bool.and_eq_true, decide_eq_true_eq]; exact hk
        rw [this] at hpk; cases hpk
  · simpa using hctx


structure InvD (c : Cfg) (s : St) : Prop where
  all_ctx : ∀ rs, s.main = .retOk rs → c.cancelAll = true → ∀ i, s.ctx i = true
  live_run : s.main = .running → s.parentCanc = false → ∀ i, s.ctx i = true → CtxWhy c s i
  live_ret : ∀ rs, s.main = .retOk rs → c.cancelAll = false → s.parentCanc = false → ∀ i, i ∈ rs → s.ctx i = false

theorem invD_frame {c s s'} (h : InvD c s) (h1 : s'.ctx = s.ctx) (h2 : s'.main = s.main) (h3 : s'.parentCanc = s.parentCanc)
    (h4 : s'.fails = s.fails) (h5 : s'.doneErr = s.doneErr) : InvD c s' := by
  obtain ⟨d1, d2, d3⟩ := h
  refine ⟨by rw [h1, h2]; exact d1, ?_, by rw [h1, h2, h3]; exact d3⟩
  rw [h1, h2, h3]; intro hm hp i hi
  have := d2 hm hp i hi
  unfold CtxWhy at this ⊢; rw [h4, h5]; exact this

theorem invD_of_err {c : Cfg} {s : St} {e : ErrKind} (hm : s.main = .retErr e) : InvD c s := by
  refine ⟨?_, ?_, ?_⟩
  · intro rs h; rw [hm] at h; cases h
  · intro h; rw [hm] at h; cases h
  · intro rs h; rw [hm] at h; cases h

theorem invC_of_loopHead {c s} (h : InvC c (loopHead c s)) : InvC c s :=
  invC_frame h (by simp) (by simp) (by simp) (by simp) (by simp) (by simp) (by simp)
    (by simp only [loopHead_fin]; exact fun _ _ hm => Or.inl hm) (by simp)

/-- the loop head establishes the invariant from a running state whose cancelled contexts are explained. -/
theorem invD_loopHead (c : Cfg) (s : St) (hm : s.main = .running) (hC : InvC c s)
    (hlive : s.parentCanc = false → ∀ i, s.ctx i = true → CtxWhy c s i) : InvD c (loopHead c s) := by
  unfold loopHead
  by_cases hs : succeeded c s = true
  · simp only [hs, if_true]
    refine ⟨?_, ?_, ?_⟩
    · intro rs _ hca i; simp [finishOk, hca]
    · intro h; simp [finishOk] at h
    · intro rs hrs hnc hp i hi
      simp only [finishOk, Main.retOk.injEq] at hrs
      rw [← hrs] at hi
      have hi' := List.mem_filter.1 hi
      exact finishOk_live c s hC hnc (hlive (by simpa using hp)) i (List.mem_range.1 hi'.1) hi'.2
  · rw [if_neg hs]
    refine ⟨?_, fun _ hp => hlive hp, ?_⟩
    · intro rs h; rw [hm] at h; cases h
    · intro rs h; rw [hm] at h; cases h

def QuietEv (e : Ev) : Prop := e ≠ .cancel ∧ ∀ i, e ≠ .cancelOne i

theorem invD_step {c s e s'} (hA : InvA c s) (hC : InvC c s) (h : InvD c s) (hq : QuietEv e) (hs : step c s e = some s') :
    InvD c s' := by
  have hC' := invC_step hA hC hs
  cases e with
  | cancel => exact absurd rfl hq.1
  | cancelOne i => exact absurd rfl (hq.2 i)
  | finish i r => simp only [step] at hs; split at hs <;> cases hs; exact invD_frame h rfl rfl rfl rfl rfl
  | «begin» i => simp only [step] at hs; split at hs <;> cases hs; exact invD_frame h rfl rfl rfl rfl rfl
  | abort i t => simp only [step] at hs; split at hs <;> cases hs; exact invD_frame h rfl rfl rfl rfl rfl
  | tick =>
    simp only [step] at hs; split at hs
    · cases hs; exact invD_frame h (by simp) (by simp) (by simp) (by simp) (by simp)
    · cases hs
  | ctxDone =>
    simp only [step] at hs; split at hs
    · cases hs
      exact invD_of_err rfl
    · cases hs
  | drain =>
    simp only [step] at hs
    by_cases hmm : s.main ≠ .running
    · rw [if_pos hmm] at hs
      cases hch : s.chan with
      | nil => rw [hch] at hs; cases hs
      | cons p rest => obtain ⟨i, r⟩ := p; rw [hch] at hs; cases hs; exact invD_frame h rfl rfl rfl rfl rfl
    · rw [if_neg hmm] at hs; cases hs
  | recv =>
    simp only [step] at hs; split at hs
    · rename_i hm
      cases hch : s.chan with
      | nil => rw [hch] at hs; cases hs
      | cons p rest =>
        obtain ⟨i, r⟩ := p
        rw [hch] at hs
        simp only [Option.some.injEq] at hs
        rw [← hs] at hC' ⊢
        by_cases hT : isTerminal c s i r = true
        · rw [recvStep_term c s i r rest hT]
          exact invD_of_err rfl
        · by_cases hr : r = .ok
          · subst hr
            rw [recvStep_ok] at hC' ⊢
            unfold recvOk at hC' ⊢
            apply invD_loopHead
            · simp [recv0, hm]
            · exact invC_of_loopHead hC'
            · intro hp j hj
              simp only [trackerDone_ctx, trackerDone_parentCanc, recv0] at hp hj
              have := h.live_run hm hp j hj
              unfold CtxWhy at this ⊢
              simp only [trackerDone_doneErr, recv0, (trackerDone_false_counters c _ i).2]
              exact this
          · rw [recvStep_err c s i r rest hT hr] at hC' ⊢
            unfold recvErr at hC' ⊢
            simp only [] at hC' ⊢
            split
            · exact invD_of_err rfl
            · rename_i hfl
              rw [if_neg hfl] at hC'
              apply invD_loopHead
              · simp [recv0, hm]
              · exact invC_of_loopHead hC'
              · intro hp j hj
                simp only [trackerDone_ctx, trackerDone_parentCanc, trackerDone_doneErr, recv0] at hp hj ⊢
                unfold CtxWhy
                by_cases hzm : c.zoneMode = true
                · simp only [hzm, if_true, (trackerDone_zone c _ i true hzm).2.2.2, upd_apply]
                  unfold cancelFor at hj
                  simp only [hzm, if_true, Bool.or_eq_true, decide_eq_true_eq] at hj
                  rcases hj with hj | hj
                  · have := h.live_run hm hp j hj
                    simp only [CtxWhy, hzm, if_true] at this
                    split <;> omega
                  · simp [hj]
                · simp only [hzm, Bool.false_eq_true, if_false]
                  unfold cancelFor at hj
                  simp only [hzm, Bool.false_eq_true, if_false, upd_apply] at hj
                  split at hj
                  · rename_i he; simp [he]
                  · have := h.live_run hm hp j hj
                    simp only [CtxWhy, hzm, Bool.false_eq_true, if_false] at this
                    exact List.mem_append_left _ this
    · cases hs


theorem invD_init (c : Cfg) (order : List Nat) : InvD c (init c order false) := by
  unfold init
  split
  · exact invD_of_err rfl
  · apply invD_loopHead
    · simp [base]
    · exact invC_frame (invC_base c false) (by simp) (by simp) (by simp) (by simp) (by simp) (by simp) (by simp)
        (by simp only [startRequests_fin]; exact fun _ _ hm => Or.inl hm) (by simp)
    · intro _ j hj; simp [base] at hj

theorem step_parentCanc_quiet {c : Cfg} {s s' : St} {e : Ev} (hq : QuietEv e) (hs : step c s e = some s') :
    s'.parentCanc = s.parentCanc := by
  cases e with
  | cancel => exact absurd rfl hq.1
  | cancelOne i => exact absurd rfl (hq.2 i)
  | finish i r => simp only [step] at hs; split at hs <;> cases hs; rfl
  | «begin» i => simp only [step] at hs; split at hs <;> cases hs; rfl
  | abort i t => simp only [step] at hs; split at hs <;> cases hs; rfl
  | tick => simp only [step] at hs; split at hs
            · cases hs; simp
            · cases hs
  | ctxDone => simp only [step] at hs; split at hs <;> cases hs; rfl
  | drain =>
    simp only [step] at hs
    by_cases hmm : s.main ≠ .running
    · rw [if_pos hmm] at hs
      cases hch : s.chan with
      | nil => rw [hch] at hs; cases hs
      | cons p rest => obtain ⟨i, r⟩ := p; rw [hch] at hs; cases hs; rfl
    · rw [if_neg hmm] at hs; cases hs
  | recv =>
    simp only [step] at hs; split at hs
    · rename_i hm
      cases hch : s.chan with
      | nil => rw [hch] at hs; cases hs
      | cons p rest => obtain ⟨i, r⟩ := p; rw [hch] at hs; cases hs; exact (recvStep_sum c s i r rest hm).2.2.2.2.1
    · cases hs

/-- induction over runs all of whose events satisfy `Q`. -/
theorem run_induction_q {c : Cfg} {P : St → Prop} {Q : Ev → Prop} (hstep : ∀ s e s', P s → Q e → step c s e = some s' → P s') :
    ∀ (evs : List Ev) {s s'}, (∀ e, e ∈ evs → Q e) → P s → run c s evs = some s' → P s'
  | [], s, s', _, h, hr => by simp only [run, Option.some.injEq] at hr; exact hr ▸ h
  | e :: es, s, s', hq, h, hr => by
    simp only [run] at hr
    cases hst : step c s e with
    | none => simp [hst] at hr
    | some s1 =>
      simp only [hst, Option.bind_some] at hr
      exact run_induction_q hstep es (fun e' he' => hq e' (List.mem_cons_of_mem _ he')) (hstep s e s1 h (hq e (by simp)) hst) hr

/-- `…WithoutSuccessfulContextCancellation`: as long as neither the caller nor a callback cancels,
the contexts of the returned results stay live. -/
theorem returned_contexts_live {c order evs s rs} (hq : ∀ e, e ∈ evs → QuietEv e)
    (hr : run c (init c order false) evs = some s) (hm : s.main = .retOk rs) (hnc : c.cancelAll = false) :
    ∀ i, i ∈ rs → s.ctx i = false := by
  have h : InvA c s ∧ InvC c s ∧ InvD c s ∧ s.parentCanc = false :=
    run_induction_q (P := fun s => InvA c s ∧ InvC c s ∧ InvD c s ∧ s.parentCanc = false) (Q := QuietEv)
      (fun s e s' h hq hs => ⟨invA_step h.1 hs, invC_step h.1 h.2.1 hs, invD_step h.1 h.2.1 h.2.2.1 hq hs,
        (step_parentCanc_quiet hq hs).trans h.2.2.2⟩) evs hq
      ⟨invA_init c order false, invC_init c order false, invD_init c order, by
        unfold init; split
        · rfl
        · simp [base]⟩ hr
  exact h.2.2.1.live_ret rs hm hnc h.2.2.2

theorem loopHead_all_ctx (c : Cfg) (s : St) (hm : s.main = .running) (hca : c.cancelAll = true) :
    ∀ rs, (loopHead c s).main = .retOk rs → ∀ i, (loopHead c s).ctx i = true := by
  intro rs h i
  unfold loopHead at h ⊢
  split
  · simp [finishOk, hca]
  · rename_i hs; rw [if_neg hs, hm] at h; cases h

/-- `DoUntilQuorum`: every context is cancelled when results are returned (any schedule). -/
theorem all_contexts_cancelled {c order pre evs s rs} (hr : run c (init c order pre) evs = some s)
    (hm : s.main = .retOk rs) (hca : c.cancelAll = true) : ∀ i, s.ctx i = true := by
  have h : ∀ rs, s.main = .retOk rs → ∀ i, s.ctx i = true := by
    refine run_induction (P := fun s => ∀ rs, s.main = .retOk rs → ∀ i, s.ctx i = true) ?_ evs ?_ hr
    · intro s e s' hP hs rs' hm' i
      by_cases hrun : s.main = .running
      · -- the return happens at this step: it must be a `recv`
        cases e with
        | recv =>
          simp only [step] at hs; rw [if_pos hrun] at hs
          cases hch : s.chan with
          | nil => rw [hch] at hs; cases hs
          | cons p rest =>
            obtain ⟨j, r⟩ := p; rw [hch] at hs; cases hs
            by_cases hT : isTerminal c s j r = true
            · rw [recvStep_term c s j r rest hT] at hm'; cases hm'
            · by_cases hrk : r = .ok
              · subst hrk
                rw [recvStep_ok] at hm' ⊢
                exact loopHead_all_ctx c _ (by simp [recv0, hrun]) hca rs' hm' i
              · rw [recvStep_err c s j r rest hT hrk] at hm' ⊢
                unfold recvErr at hm' ⊢
                simp only [] at hm' ⊢
                split at hm'
                · cases hm'
                · rename_i hfl; rw [if_neg hfl]
                  exact loopHead_all_ctx c _ (by simp [recv0, hrun]) hca rs' hm' i
        | finish j r => simp only [step] at hs; split at hs <;> cases hs; rw [hrun] at hm'; cases hm'
        | cancel => simp only [step] at hs; cases hs; rfl
        | cancelOne j => simp only [step] at hs; cases hs; rw [hrun] at hm'; cases hm'
        | tick => simp only [step] at hs; split at hs
                  · cases hs; simp only [releaseNext_main] at hm'; rw [hrun] at hm'; cases hm'
                  · cases hs
        | ctxDone => simp only [step] at hs; split at hs <;> cases hs; cases hm'
        | «begin» j => simp only [step] at hs; split at hs <;> cases hs; rw [hrun] at hm'; cases hm'
        | abort j => simp only [step] at hs; split at hs <;> cases hs; rw [hrun] at hm'; cases hm'
        | drain => simp only [step] at hs; rw [if_neg (by simp [hrun])] at hs; cases hs
      · have hst := step_main_stable hs hrun
        rw [hst] at hm'
        exact step_ctx_mono hs i (hP rs' hm' i)
    · intro rs' hm' i
      unfold init at hm' ⊢
      split
      · rename_i hinv; rw [if_pos hinv] at hm'; cases hm'
      · rename_i hinv; rw [if_neg hinv] at hm'
        exact loopHead_all_ctx c _ (by simp [base]) hca rs' hm' i
  exact h rs hm

end PfC11
