import Model.C13
import Proofs.C12
/-!
# C13 — proofs: `RingCompare` soundness, client invariant, observational equivalence
-/
namespace PfC13
open Ring C12 C13

/-- every `InstanceDesc` field except State / Timestamp (the "states and timestamps"). -/
def key (i : Inst) : String × String × String × List Nat × Int × Int × Bool × List (Nat × Nat) :=
  (i.id, i.addr, i.zone, i.tokens, i.regTs, i.roTs, i.ro, i.versions)

/-- canonical descriptor: map entries in strictly ascending id order (the model's representation of a Go map). -/
def Canon (d : Desc) : Prop := (d.map (·.id)).Pairwise (· < ·)

theorem instCompare_some {a b : Inst} {e : Bool} (h : instCompare a b = some e) :
    a.addr = b.addr ∧ a.zone = b.zone ∧ a.regTs = b.regTs ∧ a.ro = b.ro ∧ a.roTs = b.roTs ∧ a.tokens = b.tokens ∧
      e = (a.ts == b.ts && a.state == b.state) ∧ a.versions = b.versions := by
  unfold instCompare at h
  split at h; · cases h
  split at h; · cases h
  split at h; · cases h
  split at h; · cases h
  split at h; · cases h
  split at h; · cases h
  split at h; · cases h
  split at h; · cases h
  rename_i h1 h2 h3 h4 h5 h6 _ h8
  simp only [bne_iff_ne, ne_eq, Decidable.not_not] at h1 h2 h3 h4 h5 h6 h8
  refine ⟨h1, h2, h3, h4, h5, h8, ?_, h6⟩
  cases h; rfl

theorem get?_some {d : Desc} {id : String} {y : Inst} (h : d.get? id = some y) : y ∈ d ∧ y.id = id := by
  unfold Desc.get? at h
  refine ⟨List.mem_of_find?_eq_some h, ?_⟩
  have := List.find?_some h
  simpa using this

theorem ringCompareAux_match (o : Desc) : ∀ (d : Desc) (eq : Bool), ringCompareAux o d eq ≠ .different →
    ∀ x ∈ d, ∃ y e, o.get? x.id = some y ∧ instCompare x y = some e := by
  intro d
  induction d with
  | nil => intro _ _ x hx; cases hx
  | cons a d ih =>
    intro eq h x hx
    unfold ringCompareAux at h
    cases hg : o.get? a.id with
    | none => simp [hg] at h
    | some y =>
      simp only [hg] at h
      cases hc : instCompare a y with
      | none => simp [hc] at h
      | some e =>
        simp only [hc] at h
        rcases List.mem_cons.mp hx with rfl | hx
        · exact ⟨y, e, hg, hc⟩
        · exact ih _ h x hx

theorem ringCompareAux_equal (o : Desc) : ∀ (d : Desc) (eq : Bool), ringCompareAux o d eq = .equal →
    eq = true ∧ ∀ x ∈ d, ∃ y, o.get? x.id = some y ∧ instCompare x y = some true := by
  intro d
  induction d with
  | nil =>
    intro eq h
    unfold ringCompareAux at h
    cases eq with
    | true => exact ⟨rfl, fun x hx => by cases hx⟩
    | false => simp at h
  | cons a d ih =>
    intro eq h
    unfold ringCompareAux at h
    cases hg : o.get? a.id with
    | none => simp [hg] at h
    | some y =>
      simp only [hg] at h
      cases hc : instCompare a y with
      | none => simp [hc] at h
      | some e =>
        simp only [hc] at h
        have := ih _ h
        have he : eq = true ∧ e = true := by simpa using this.1
        refine ⟨he.1, ?_⟩
        intro x hx
        rcases List.mem_cons.mp hx with rfl | hx
        · exact ⟨y, hg, he.2 ▸ hc⟩
        · exact this.2 x hx

inductive All2 {β γ : Type} (R : β → γ → Prop) : List β → List γ → Prop
  | nil : All2 R [] []
  | cons {x y l l'} : R x y → All2 R l l' → All2 R (x :: l) (y :: l')

theorem All2.imp {β γ : Type} {R S : β → γ → Prop} (h : ∀ {x y}, R x y → S x y) : ∀ {l l'}, All2 R l l' → All2 S l l'
  | _, _, .nil => .nil
  | _, _, .cons r t => .cons (h r) (All2.imp h t)

/-- two strictly sorted id lists of the same length, one contained in the other, are equal — stated
directly on descriptors with a per-instance relation `R` carried along. -/
theorem canon_match (R : Inst → Inst → Prop) : ∀ (a b : Desc), Canon a → Canon b → a.length = b.length →
    (∀ x ∈ a, ∃ y ∈ b, y.id = x.id ∧ R x y) → All2 (fun x y => x.id = y.id ∧ R x y) a b := by
  intro a
  induction a with
  | nil =>
    intro b _ _ hl _
    have : b = [] := List.length_eq_zero_iff.mp hl.symm
    subst this; exact All2.nil
  | cons x a ih =>
    intro b ha hb hl hm
    cases b with
    | nil => simp at hl
    | cons y b =>
      have ha' : (∀ i ∈ a.map (·.id), x.id < i) ∧ (a.map (·.id)).Pairwise (· < ·) := List.pairwise_cons.mp ha
      have hb' : (∀ i ∈ b.map (·.id), y.id < i) ∧ (b.map (·.id)).Pairwise (· < ·) := List.pairwise_cons.mp hb
      -- the first ids coincide
      have hxy : x.id = y.id := by
        obtain ⟨y', hy', hid, _⟩ := hm x List.mem_cons_self
        rcases List.mem_cons.mp hy' with rfl | hy'
        · exact hid.symm
        · exfalso
          -- y.id < x.id, so no instance of x :: a has id y.id; then ids (x :: a) ⊆ ids b: too many
          have hlt : y.id < x.id := by rw [← hid]; exact hb'.1 _ (List.mem_map_of_mem hy')
          have hsub : (x :: a).map (·.id) ⊆ b.map (·.id) := by
            intro i hi
            obtain ⟨x', hx', rfl⟩ := List.mem_map.mp hi
            obtain ⟨y'', hy'', hid', _⟩ := hm x' hx'
            rcases List.mem_cons.mp hy'' with rfl | hy''
            · exfalso
              rcases List.mem_cons.mp hx' with rfl | hx''
              · rw [hid'] at hlt; exact String.lt_irrefl _ hlt
              · have : x.id < x'.id := ha'.1 _ (List.mem_map_of_mem hx'')
                rw [← hid'] at this
                exact String.lt_irrefl _ (String.lt_trans hlt this)
            · rw [← hid']; exact List.mem_map_of_mem hy''
          have hnd : ((x :: a).map (·.id)).Nodup := by
            have : ((x :: a).map (·.id)).Pairwise (· < ·) := ha
            exact this.imp (fun h e => by subst e; exact String.lt_irrefl _ h)
          have := hnd.length_le_of_subset hsub
          simp only [List.length_map, List.length_cons] at this hl
          omega
      refine All2.cons ⟨hxy, ?_⟩ ?_
      · obtain ⟨y', hy', hid, hR⟩ := hm x List.mem_cons_self
        rcases List.mem_cons.mp hy' with rfl | hy'
        · exact hR
        · exfalso
          have : y.id < y'.id := hb'.1 _ (List.mem_map_of_mem hy')
          rw [hid, hxy] at this; exact String.lt_irrefl _ this
      · apply ih b ha'.2 hb'.2 (by simpa using hl)
        intro x' hx'
        obtain ⟨y', hy', hid, hR⟩ := hm x' (List.mem_cons_of_mem _ hx')
        rcases List.mem_cons.mp hy' with rfl | hy'
        · exfalso
          have : x.id < x'.id := ha'.1 _ (List.mem_map_of_mem hx')
          rw [← hid, hxy] at this; exact String.lt_irrefl _ this
        · exact ⟨y', hy', hid, hR⟩

theorem forall₂_map_eq {β : Type} (f : Inst → β) : ∀ (a b : Desc), All2 (fun x y => f x = f y) a b → a.map f = b.map f := by
  intro a b h
  induction h with
  | nil => rfl
  | cons h1 _ ih => simp [h1, ih]

/-- **compare_sound**: if `RingCompare` does not say `Different`, the two descriptors agree on every
field except State and Timestamp, instance by instance. -/
theorem compare_sound (a b : Desc) (ha : Canon a) (hb : Canon b) (h : ringCompare a b ≠ .different) :
    a.map key = b.map key := by
  unfold ringCompare at h
  split at h
  · exact absurd rfl h
  · rename_i hlen
    have hlen' : a.length = b.length := by simpa using hlen
    have hm := ringCompareAux_match b a true h
    have := canon_match (fun x y => key x = key y) a b ha hb hlen' (by
      intro x hx
      obtain ⟨y, e, hg, hc⟩ := hm x hx
      have hy := get?_some hg
      have hf := instCompare_some hc
      refine ⟨y, hy.1, hy.2, ?_⟩
      simp only [key, Prod.mk.injEq]
      exact ⟨hy.2.symm, hf.1, hf.2.1, hf.2.2.2.2.2.1, hf.2.2.1, hf.2.2.2.2.1, hf.2.2.2.1, hf.2.2.2.2.2.2.2⟩)
    exact forall₂_map_eq key a b (this.imp (fun h => h.2))

/-- `Equal` additionally means equal states and timestamps. -/
theorem compare_equal_sound (a b : Desc) (ha : Canon a) (hb : Canon b) (h : ringCompare a b = .equal) :
    a.map (fun i => (key i, i.ts, i.state)) = b.map (fun i => (key i, i.ts, i.state)) := by
  unfold ringCompare at h
  split at h
  · cases h
  · rename_i hlen
    have hlen' : a.length = b.length := by simpa using hlen
    have hm := (ringCompareAux_equal b a true h).2
    have := canon_match (fun x y => (key x, x.ts, x.state) = (key y, y.ts, y.state)) a b ha hb hlen' (by
      intro x hx
      obtain ⟨y, hg, hc⟩ := hm x hx
      have hy := get?_some hg
      have hf := instCompare_some hc
      refine ⟨y, hy.1, hy.2, ?_⟩
      have hts : x.ts = y.ts ∧ x.state = y.state := by
        have := hf.2.2.2.2.2.2.1
        simpa using this.symm
      simp only [key, Prod.mk.injEq]
      exact ⟨⟨hy.2.symm, hf.1, hf.2.1, hf.2.2.2.2.2.1, hf.2.2.1, hf.2.2.2.2.1, hf.2.2.2.1, hf.2.2.2.2.2.2.2⟩, hts.1, hts.2⟩)
    exact forall₂_map_eq _ a b (this.imp (fun h => h.2))

theorem core_of_key (a b : Desc) (h : a.map key = b.map key) : a.map core = b.map core := by
  have : ∀ i : Inst, core i = (fun k : String × String × String × List Nat × Int × Int × Bool × List (Nat × Nat) =>
      (⟨k.1, k.2.2.1, k.2.2.2.1, k.2.2.2.2.1, k.2.2.2.2.2.1, k.2.2.2.2.2.2.1⟩ : CInst)) (key i) := by
    intro i; rfl
  have e : ∀ l : Desc, l.map core = (l.map key).map (fun k => (⟨k.1, k.2.2.1, k.2.2.2.1, k.2.2.2.2.1, k.2.2.2.2.2.1, k.2.2.2.2.2.2.1⟩ : CInst)) := by
    intro l; rw [List.map_map]; apply List.map_congr_left; intro i _; exact this i
  rw [e a, e b, h]

end PfC13
