import Proofs.C05Wf
import Proofs.C13.Equiv
import Model.C01Spec
/-! helper lemmas linking C05's reachable states to C13's client histories -/
namespace PfC05
open Ring C03 PfC03

/-- the latest descriptor of a client history satisfies whatever every delivered descriptor satisfies -/
theorem lastDesc_of_all (P : Desc → Prop) (steps : List PfC13.Step) (d0 : Desc) (h0 : P d0)
    (hs : ∀ s ∈ steps, ∀ d, s = .upd d → P d) : P (PfC13.lastDesc steps d0) := by
  induction steps generalizing d0 with
  | nil => exact h0
  | cons s rest ih =>
    have hr : ∀ s' ∈ rest, ∀ d, s' = .upd d → P d := fun s' hs' d hd => hs s' (List.mem_cons_of_mem _ hs') d hd
    cases s with
    | upd d => exact ih d (hs _ List.mem_cons_self d rfl) hr
    | qS i sz => exact ih d0 h0 hr
    | qL i sz p n => exact ih d0 h0 hr

/-- C01's ring well-formedness does not depend on the order in which the entries are listed -/
theorem wfring_of_perm_wf {d r : Desc} (hr : WF r) (hp : d.Perm r) : C01.WFRing d := by
  refine ⟨?_, ?_⟩
  · have : (d.map (·.id)).Perm (r.map (·.id)) := hp.map _
    exact this.nodup_iff.mpr hr.nodup
  · have : (d.flatMap (·.tokens)).Perm (r.flatMap (·.tokens)) := hp.flatMap_right _
    exact this.nodup_iff.mpr hr.noconf

end PfC05
