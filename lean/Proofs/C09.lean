import Model.C09
import Proofs.C08
import Proofs.C08.Loop
/-! Helper lemmas and proofs for C09. -/
namespace PfC09
open Ring C08 C09 PfC08

/-! ### tokens file -/

theorem file_atomic (fs : FS) (t : List Nat) (k : Nat) (mid : Bool) :
    (crashedStore fs t k mid).main = fs.main ∨ (crashedStore fs t k mid).main = .tokens t := by
  unfold crashedStore storeOps
  match k with
  | 0 => cases mid <;> simp [FS.apply]
  | 1 => cases mid <;> simp [FS.apply]
  | 2 => cases mid <;> simp [FS.apply]
  | (n + 3) => cases mid <;> simp [FS.apply]

theorem file_complete (fs : FS) (t : List Nat) (k : Nat) (hk : 3 ≤ k) :
    (crashedStore fs t k false).main = .tokens t ∧ (crashedStore fs t k false).tmp = .absent := by
  unfold crashedStore storeOps
  match k, hk with
  | (n + 3), _ => simp [FS.apply]

theorem store_result (fs : FS) (t : List Nat) :
    ((storeResult fs t true).1.main = fs.main ∧ (storeResult fs t true).2 = true) ∧
    ((storeResult fs t false).1.main = .tokens t ∧ (storeResult fs t false).1.tmp = .absent ∧ (storeResult fs t false).2 = false) := by
  simp [storeResult, storeOps, FS.apply]

/-! ### restart of a full Lifecycler: what `initRing` does with the entry the dead process left -/

theorem init_died_joining {c : Cfg} {file : File} {d : Desc} {e : Inst} {shuf : List Nat} {now : Int} {gen : Gen} {fault : Fault}
    (hk : c.kind = .LC) (hf : fault ≠ .failBefore) (he : Desc.get? d c.id = some e) (hj : e.state = .JOINING) (l : Local) :
    let r := step c l file (some d) (.init shuf) now gen fault
    r.l.started = true ∧ r.l.state = .PENDING ∧ r.l.tokens = [] ∧ r.l.regTs = e.regTs ∧ r.out = .write d ∧ r.file = file := by
  simp [step, hk, lcInit, hf, he, hj]

theorem pickShuf_length {shuf toks : List Nat} {n : Nat} (h : n ≤ toks.length) : (pickShuf shuf toks n).length = n := by
  unfold pickShuf
  split
  · rename_i hc; exact hc.1
  · simp [List.length_take]; omega

theorem pickShuf_sub {shuf toks : List Nat} {n : Nat} : ∀ t ∈ pickShuf shuf toks n, t ∈ toks := by
  intro t ht
  unfold pickShuf at ht
  split at ht
  · rename_i hc
    have := List.all_eq_true.mp hc.2 t ht
    simpa using this
  · exact List.mem_of_mem_take ht

/-- token adjustment for an entry found LEAVING -/
theorem lcAdjust_leaving {c : Cfg} {d : Desc} {e : Inst} {shuf : List Nat} {gen : Gen}
    (he : Desc.get? d c.id = some e) (hl : e.state = .LEAVING) (hg : GenOK gen) (hsorted : e.tokens.Pairwise (· < ·)) :
    let toks := (lcAdjust c d e shuf gen).1
    toks.length = c.numTokens ∧
    (e.tokens.length ≤ c.numTokens → toks.Pairwise (· < ·) ∧ (∀ t ∈ e.tokens, t ∈ toks) ∧
        ∀ t ∈ toks, t ∈ e.tokens ∨ ∀ i ∈ d, t ∉ i.tokens) ∧
    (c.numTokens ≤ e.tokens.length → ∀ t ∈ toks, t ∈ e.tokens) := by
  have hnd : e.tokens.Nodup := hsorted.imp (fun h => by omega)
  have hsub : ∀ t ∈ e.tokens, t ∈ allTokens d := fun t ht => mem_allTokens.mpr ⟨e, get?_some_mem he, ht⟩
  intro toks
  by_cases hlt : e.tokens.length < c.numTokens
  · have htk : toks = sortNat (e.tokens ++ gen ((c.numTokens : Int) - e.tokens.length) (allTokens d)) := by
      simp [toks, lcAdjust, hl, hlt]
    have h := topup_ok hg hsub hnd (Nat.le_of_lt hlt)
    rw [htk]
    refine ⟨h.1, fun _ => ⟨h.2.1, h.2.2.1, fun t ht => ?_⟩, fun hge => by omega⟩
    rcases h.2.2.2 t ht with h1 | h1
    · exact Or.inl h1
    · exact Or.inr (fun i hi hti => h1 (mem_allTokens.mpr ⟨i, hi, hti⟩))
  · by_cases hgt : e.tokens.length > c.numTokens
    · have htk : toks = sortNat (pickShuf shuf e.tokens c.numTokens) := by simp [toks, lcAdjust, hl, hlt, hgt]
      rw [htk]
      refine ⟨by rw [length_sortNat]; exact pickShuf_length (Nat.le_of_lt hgt), fun hle => by omega, fun _ t ht => ?_⟩
      exact pickShuf_sub t (mem_sortNat.mp ht)
    · have htk : toks = e.tokens := by simp [toks, lcAdjust, hl, hlt, hgt]
      rw [htk]
      exact ⟨by omega, fun _ => ⟨hsorted, fun t ht => ht, fun t ht => Or.inl ht⟩, fun _ t ht => ht⟩

theorem init_died_leaving {c : Cfg} {file : File} {d : Desc} {e : Inst} {shuf : List Nat} {now : Int} {gen : Gen} {fault : Fault}
    (hk : c.kind = .LC) (hf : fault ≠ .failBefore) (he : Desc.get? d c.id = some e) (hl : e.state = .LEAVING) (l : Local) :
    let r := step c l file (some d) (.init shuf) now gen fault
    r.l.started = true ∧ r.l.state = .ACTIVE ∧ r.l.regTs = e.regTs ∧ r.l.tokens = (lcAdjust c d e shuf gen).1 ∧
    ∃ b, r.out = .write (put d b) ∧ b.id = c.id ∧ b.state = .ACTIVE ∧ b.regTs = e.regTs ∧
      b.tokens = (lcAdjust c d e shuf gen).1 ∧ b.ts = now := by
  have hid : e.id = c.id := get?_some_id he
  have hne : initInst c e (lcAdjust c d e shuf gen).1 ≠ e := by
    intro h
    have := congrArg Inst.state h
    simp [initInst, hl] at this
  have hj : e.state ≠ .JOINING := by rw [hl]; decide
  intro r
  refine ⟨by simp [r, step, hk, lcInit, hf, he, hj], by simp [r, step, hk, lcInit, hf, he, hj, initInst, hl],
    by simp [r, step, hk, lcInit, hf, he, hj], by simp [r, step, hk, lcInit, hf, he, hj],
    { initInst c e (lcAdjust c d e shuf gen).1 with ts := now }, by simp [r, step, hk, lcInit, hf, he, hj, hne], hid,
    by simp [initInst, hl], rfl, rfl, rfl⟩

/-- any other entry state: the restarted process takes state, tokens and registration time from the ring -/
theorem init_resumes_other {c : Cfg} {file : File} {d : Desc} {e : Inst} {shuf : List Nat} {now : Int} {gen : Gen} {fault : Fault}
    (hk : c.kind = .LC) (hf : fault ≠ .failBefore) (he : Desc.get? d c.id = some e)
    (hj : e.state ≠ .JOINING) (hl : e.state ≠ .LEAVING) (l : Local) :
    let r := step c l file (some d) (.init shuf) now gen fault
    r.l.started = true ∧ r.l.state = e.state ∧ r.l.tokens = e.tokens ∧ r.l.regTs = e.regTs ∧
    ∀ d' b, r.out = .write d' → Desc.get? d' c.id = some b → b.state = e.state ∧ b.tokens = e.tokens ∧ b.regTs = e.regTs := by
  have hid : e.id = c.id := get?_some_id he
  have hadj : (lcAdjust c d e shuf gen).1 = e.tokens := by simp [lcAdjust, hl]
  intro r
  refine ⟨by simp [r, step, hk, lcInit, hf, he, hj], by simp [r, step, hk, lcInit, hf, he, hj, initInst, hl],
    by simp [r, step, hk, lcInit, hf, he, hj, hadj], by simp [r, step, hk, lcInit, hf, he, hj], ?_⟩
  intro d' b hout hb
  simp only [r, step, hk, lcInit, hf, if_false, Option.getD_some, he, hj] at hout
  split at hout
  · simp only [CasOut.write.injEq] at hout
    subst hout
    rw [get?_put] at hb
    simp [initInst, hid] at hb
    subst hb
    simp [hl, hadj]
  · simp at hout

/-! ### the store lost the key / rejects calls -/

/-- a heartbeat that finds the own entry missing re-inserts the remembered self, registered now -/
theorem lc_reregisters {c : Cfg} {l : Local} {file : File} {din : Option Desc} {now : Int} {gen : Gen}
    (hk : c.kind = .LC) (hs : l.started = true) (habs : Desc.get? (din.getD []) c.id = none) :
    let r := step c l file din .heartbeat now gen .none
    ∃ b, r.out = .write (put (din.getD []) b) ∧ b.id = c.id ∧ b.state = l.state ∧ b.tokens = l.tokens ∧ b.regTs = now ∧
      b.ts = now ∧ b.ro = l.ro ∧ r.l = { l with regTs := now } := by
  intro r
  refine ⟨lcInst c { l with regTs := now } l.tokens now, ?_, rfl, rfl, rfl, rfl, rfl, rfl, ?_⟩
  · simp [r, step, hk, hs, lcUpdate, habs]
  · simp [r, step, hk, hs, lcUpdate, habs]

theorem blc_reregisters {c : Cfg} {l : Local} {file : File} {din : Option Desc} {now : Int} {gen : Gen}
    (hk : c.kind = .BLC) (hs : l.started = true) (habs : Desc.get? (din.getD []) c.id = none) :
    let r := step c l file din .heartbeat now gen .none
    ∃ d' b, r.out = .write d' ∧ Desc.get? d' c.id = some b ∧ b.state = blcState l ∧ b.tokens = blcTokens l ∧
      b.regTs = now ∧ b.ts = now ∧ r.l.cur = some b := by
  intro r
  refine ⟨put (updHeartbeat c now (put (din.getD []) (blcReinsert c l now)) (blcReinsert c l now)).d { blcReinsert c l now with ts := now },
    { blcReinsert c l now with ts := now }, ?_, ?_, rfl, rfl, rfl, rfl, ?_⟩
  · simp [r, step, hk, hs, blcUpdateInstance, habs, updHeartbeat]
  · rw [get?_put]; simp [blcReinsert]
  · simp [r, step, hk, hs, blcUpdateInstance, habs, updHeartbeat]

/-- while the store rejects the call before running the callback, a heartbeat changes nothing -/
theorem heartbeat_rejected_is_noop {c : Cfg} {l : Local} {file : File} {din : Option Desc} {now : Int} {gen : Gen} :
    let r := step c l file din .heartbeat now gen .failBefore
    r.l = l ∧ r.file = file ∧ commit din r .failBefore = din := by
  intro r
  cases hk : c.kind <;> by_cases hs : l.started = true <;>
    simp [r, step, hk, hs, noop, lcUpdate, blcUpdateInstance, commit]

/-- a rejected commit: a heartbeat leaves state and tokens as remembered (full lifecycler; the basic one
does not touch its memory at all) -/
theorem heartbeat_commit_rejected {c : Cfg} {l : Local} {file : File} {din : Option Desc} {now : Int} {gen : Gen} :
    let r := step c l file din .heartbeat now gen .failCommit
    r.l.state = l.state ∧ r.l.tokens = l.tokens ∧ r.l.cur = l.cur ∧ r.file = file ∧ commit din r .failCommit = din := by
  intro r
  cases hk : c.kind <;> by_cases hs : l.started = true <;>
    simp [r, step, hk, hs, noop, lcUpdate, blcUpdateInstance, commit]
  all_goals (cases h : Desc.get? (din.getD []) c.id <;> simp [h])

/-- `ClaimTokensFor` whose CAS fails (call rejected, empty ring, commit rejected) claims nothing and forgets nothing:
remembered state, tokens, read-only state and the tokens file are as before, the store is unchanged. (Only the remembered
registration time may have been refreshed: when the commit is rejected after the callback found the own entry missing.) -/
theorem claim_failed_keeps {c : Cfg} {l : Local} {file : File} {din : Option Desc} {frm : String} {now : Int} {gen : Gen} {fault : Fault}
    (hk : c.kind = .LC) (hs : l.started = true) (hfail : fault ≠ .none ∨ din = none) :
    let r := step c l file din (.claim frm) now gen fault
    r.l.tokens = l.tokens ∧ r.l.state = l.state ∧ r.l.ro = l.ro ∧ r.l.started = true ∧ r.file = file ∧
    commit din r fault = din ∧ r.ret = .ok ∧ (fault = .failBefore ∨ din = none → r.l = l) := by
  intro r
  cases fault with
  | failBefore => simp [r, step, hk, hs, lcClaim, commit]
  | failCommit =>
    cases din with
    | none => simp [r, step, hk, hs, lcClaim, commit]
    | some d => cases hg : Desc.get? d c.id <;> simp [r, step, hk, hs, lcClaim, commit, hg]
  | none =>
    rcases hfail with h | h
    · exact absurd rfl h
    · subst h; simp [r, step, hk, hs, lcClaim, commit]

/-- a heartbeat that finds the own entry keeps the tokens the RING records (not the remembered ones) -/
theorem heartbeat_keeps_ring_tokens {c : Cfg} {l : Local} {file : File} {din : Option Desc} {now : Int} {gen : Gen} {fault : Fault}
    {e b : Inst} {d' : Desc} (he : Desc.get? (din.getD []) c.id = some e)
    (h : (step c l file din .heartbeat now gen fault).out = .write d') (hb : Desc.get? d' c.id = some b) :
    b.tokens = e.tokens ∧ b.regTs = (match c.kind with | .LC => l.regTs | .BLC => e.regTs) := by
  by_cases hs : l.started = true
  · cases hk : c.kind with
    | LC =>
      by_cases hf : fault = .failBefore
      · simp [step, hk, hs, lcUpdate, hf] at h
      · simp [step, hk, hs, lcUpdate, hf, he] at h
        subst h
        rw [get?_put] at hb
        simp [lcInst] at hb
        subst hb
        simp [lcInst]
    | BLC =>
      simp only [step, hk, hs, Bool.not_true, Bool.false_eq_true, if_false] at h
      have := (blcUpdate_get (keepsId_hb c now) he h).2
      rw [this] at hb
      simp [updHeartbeat] at hb
      subst hb
      simp
  · have hs' : l.started = false := by simpa using hs
    cases hk : c.kind <;> simp [step, hk, hs', noop] at h

/-- `Lifecycler.changeState` remembers the new state BEFORE it writes: whatever the store does with the write
(accept, reject before or after the callback), the lifecycler is in the new state afterwards and every later
heartbeat the store accepts publishes it. -/
theorem state_survives_rejected_write {c : Cfg} {l : Local} {file : File} {din : Option Desc} {s : State} {now : Int} {gen : Gen}
    {fault : Fault} (hk : c.kind = .LC) (hs : l.started = true) (hal : allowed l.state s = true) :
    let r := step c l file din (.changeState s) now gen fault
    r.l.state = s ∧ r.l.started = true ∧ r.l.tokens = l.tokens ∧
    ∀ (din' : Option Desc) (now' : Int) (gen' : Gen), ∃ d' b,
      (step c r.l r.file din' .heartbeat now' gen' .none).out = .write d' ∧ Desc.get? d' c.id = some b ∧ b.state = s := by
  intro r
  have h1 : r.l.state = s ∧ r.l.started = true ∧ r.l.tokens = l.tokens := by
    cases fault <;> cases hg : Desc.get? (din.getD []) c.id <;>
      simp [r, step, hk, hs, lcChangeState, hal, lcUpdate, hg]
  refine ⟨h1.1, h1.2.1, h1.2.2, fun din' now' gen' => ?_⟩
  simp only [step, hk, h1.2.1, Bool.not_true, Bool.false_eq_true, if_false, lcUpdate, reduceCtorEq]
  refine ⟨_, _, rfl, get?_put_self _ _, ?_⟩
  cases hg : Desc.get? (din'.getD []) c.id <;> simp [lcInst, h1.1]

/-! ### the restart procedure reaches ACTIVE -/

def Present (c : Cfg) (st : Option Desc) : Prop := (Desc.get? (st.getD []) c.id).isSome = true

theorem init_progress {c : Cfg} {l : Local} {file : File} {din : Option Desc} {shuf : List Nat} {now : Int} {gen : Gen}
    (hk : c.kind = .LC) (hst : ∀ e, Desc.get? (din.getD []) c.id = some e → e.state ≠ .LEFT) :
    let r := step c l file din (.init shuf) now gen .none
    r.l.started = true ∧ (r.l.state = .PENDING ∨ r.l.state = .ACTIVE) ∧ Present c (commit din r .none) := by
  intro r
  cases he : Desc.get? (din.getD []) c.id with
  | none =>
    have hout : r.out = .write (put (din.getD []) (lcInst c r.l r.l.tokens now)) := by
      simp [r, step, hk, lcInit, he]
    refine ⟨by simp [r, step, hk, lcInit, he], ?_, ?_⟩
    · have hpa : ∀ (p : Prop) [Decidable p], (if p then State.ACTIVE else State.PENDING) = .PENDING ∨
          (if p then State.ACTIVE else State.PENDING) = .ACTIVE := by
        intro p _; by_cases h : p <;> simp [h]
      have : r.l.state = if 0 < (if c.hasFile then file.load.getD [] else []).length ∧
          c.numTokens ≤ (if c.hasFile then file.load.getD [] else []).length then State.ACTIVE else State.PENDING := by
        simp only [r, step, hk, lcInit, he]
        simp only [reduceCtorEq, if_false]
      rw [this]; exact hpa _
    · unfold Present; rw [commit_write hout]
      simp only [Option.getD_some]
      rw [get?_put]; simp [lcInst]
  | some e =>
    have hid : e.id = c.id := get?_some_id he
    by_cases hj : e.state = .JOINING
    · have hout : r.out = .write (din.getD []) := by simp [r, step, hk, lcInit, he, hj]
      refine ⟨by simp [r, step, hk, lcInit, he, hj], Or.inl (by simp [r, step, hk, lcInit, he, hj]), ?_⟩
      unfold Present; rw [commit_write hout]; simp [he]
    · refine ⟨by simp [r, step, hk, lcInit, he, hj], ?_, ?_⟩
      · have : r.l.state = (initInst c e (lcAdjust c (din.getD []) e shuf gen).1).state := by
          simp [r, step, hk, lcInit, he, hj]
        rw [this]
        have h3 := hst e he
        cases hs : e.state <;> simp [initInst, hs] at hj h3 ⊢
      · unfold Present
        cases ho : r.out with
        | write d' =>
          rw [commit_write ho]
          simp only [r, step, hk, lcInit, he, hj] at ho
          simp only [reduceCtorEq, if_false, Option.getD_some] at ho ⊢
          split at ho
          · simp only [CasOut.write.injEq] at ho
            subst ho
            rw [get?_put]; simp [initInst, hid]
          · simp at ho
        | _ =>
          rw [commit_nowrite (by intro d; rw [ho]; simp)]
          simp [he]

/-- join timer, observation, `changeState(ACTIVE)`: the entry stays, the remembered state moves towards ACTIVE -/
theorem later_progress {c : Cfg} {l : Local} {file : File} {din : Option Desc} {ev : Event} {now : Int} {gen : Gen}
    (hk : c.kind = .LC) (hs : l.started = true) (hp : Present c din)
    (hev : ev = .joinTimer ∨ ev = .verify ∨ ev = .changeState .ACTIVE) :
    let r := step c l file din ev now gen .none
    r.l.started = true ∧ Present c (commit din r .none) ∧
    (ev = .joinTimer → (l.state = .PENDING → r.l.state = .JOINING ∨ r.l.state = .ACTIVE) ∧ (l.state ≠ .PENDING → r.l.state = l.state)) ∧
    (ev = .verify → r.l.state = l.state) ∧
    (ev = .changeState .ACTIVE → (l.state = .JOINING ∨ l.state = .ACTIVE → r.l.state = .ACTIVE)) := by
  intro r
  have hpres : ∀ (r : Res), (∀ d', r.out = .write d' → (Desc.get? d' c.id).isSome = true) → Present c (commit din r .none) := by
    intro r h
    unfold Present
    cases ho : r.out with
    | write d' => rw [commit_write ho]; exact h d' ho
    | _ => rw [commit_nowrite (by intro d; rw [ho]; simp)]; exact hp
  obtain ⟨e0, he0⟩ := Option.isSome_iff_exists.mp hp
  rcases hev with rfl | rfl | rfl
  · -- join timer
    by_cases hpd : l.state = .PENDING
    · refine ⟨by simp [r, step, hk, hs, lcJoinTimer, hpd, lcAutoJoin, he0], hpres r ?_, ?_, by simp, by simp⟩
      · intro d' ho
        simp [r, step, hk, hs, lcJoinTimer, hpd, lcAutoJoin, he0] at ho
        subst ho; rw [get?_put]; simp [lcInst]
      · intro _
        refine ⟨fun _ => ?_, fun h => absurd hpd h⟩
        simp only [r, step, hk, hs, lcJoinTimer, hpd, lcAutoJoin, he0]
        simp only [Bool.not_true, Bool.false_eq_true, if_false, if_true, reduceCtorEq]
        cases c.observe <;> simp
    · refine ⟨by simp [r, step, hk, hs, lcJoinTimer, hpd], hpres r ?_, ?_, by simp, by simp⟩
      · intro d' ho; simp [r, step, hk, hs, lcJoinTimer, hpd] at ho
      · intro _; exact ⟨fun h => absurd h hpd, fun _ => by simp [r, step, hk, hs, lcJoinTimer, hpd]⟩
  · -- verify
    refine ⟨by simp [r, step, hk, hs, lcVerify, he0], hpres r ?_, by simp, fun _ => by simp [r, step, hk, hs, lcVerify, he0], by simp⟩
    intro d' ho
    simp only [r, step, hk, hs, lcVerify, he0] at ho
    simp only [Bool.not_true, Bool.false_eq_true, if_false, reduceCtorEq] at ho
    split at ho
    · simp at ho
    · simp only [CasOut.write.injEq] at ho
      subst ho; rw [get?_put]; simp [lcInst]
  · -- changeState ACTIVE
    by_cases hal : allowed l.state .ACTIVE = true
    · refine ⟨by cases hg : Desc.get? (din.getD []) c.id <;> simp [r, step, hk, hs, lcChangeState, hal, lcUpdate, hg], hpres r ?_, by simp, by simp, ?_⟩
      · intro d' ho
        simp [r, step, hk, hs, lcChangeState, hal, lcUpdate] at ho
        subst ho; rw [get?_put]; simp [lcInst]
      · intro _ _
        simp only [r, step, hk, hs, lcChangeState, hal, lcUpdate]
        simp only [Bool.not_true, Bool.false_eq_true, if_false, if_true, reduceCtorEq]
        cases Desc.get? (din.getD []) c.id <;> rfl
    · refine ⟨by simp [r, step, hk, hs, lcChangeState, hal], hpres r ?_, by simp, by simp, ?_⟩
      · intro d' ho; simp [r, step, hk, hs, lcChangeState, hal] at ho
      · intro _ h
        have : r.l.state = l.state := by simp [r, step, hk, hs, lcChangeState, hal]
        rw [this]
        rcases h with h | h
        · rw [h] at hal; simp [allowed] at hal
        · exact h

/-- the same facts phrased on the system -/
theorem sys_later_progress {c : Cfg} (hk : c.kind = .LC) (s : Sys) (ev : Event) (now : Int) (gen : Gen)
    (hs : s.l.started = true) (hp : Present c s.store)
    (hev : ev = .joinTimer ∨ ev = .verify ∨ ev = .changeState .ACTIVE) :
    (s.next c (.own ev now gen .none)).l.started = true ∧ Present c (s.next c (.own ev now gen .none)).store ∧
    (ev = .joinTimer → (s.l.state = .PENDING → (s.next c (.own ev now gen .none)).l.state = .JOINING ∨
        (s.next c (.own ev now gen .none)).l.state = .ACTIVE) ∧
      (s.l.state ≠ .PENDING → (s.next c (.own ev now gen .none)).l.state = s.l.state)) ∧
    (ev = .verify → (s.next c (.own ev now gen .none)).l.state = s.l.state) ∧
    (ev = .changeState .ACTIVE → (s.l.state = .JOINING ∨ s.l.state = .ACTIVE → (s.next c (.own ev now gen .none)).l.state = .ACTIVE)) :=
  later_progress (file := s.file) (now := now) (gen := gen) hk hs hp hev

theorem restart_reaches_active {c : Cfg} (hk : c.kind = .LC) {store : Option Desc} {file : File} {clock now : Int}
    {shuf : List Nat} {gen : Gen} (hclk : clock ≤ now)
    (hts : ∀ i, Desc.get? (store.getD []) c.id = some i → i.ts ≤ clock)
    (hst : ∀ e, Desc.get? (store.getD []) c.id = some e → e.state ≠ .LEFT) :
    let s := Sys.run c { store := store, l := {}, file := file, clock := clock } (restartLC shuf now gen)
    s.l.state = .ACTIVE ∧ ∃ b, Desc.get? (s.store.getD []) c.id = some b ∧ b.state = .ACTIVE := by
  intro s
  -- the invariant of C08 holds along the restart
  have hrun : RunOK c { store := store, l := {}, file := file, clock := clock } (restartLC shuf now gen) := by
    simp only [restartLC, RunOK, ActOK, Sys.next, and_true]
    refine ⟨⟨trivial, hclk, by intro f h; cases h⟩, ⟨trivial, Int.le_refl _, by intro f h; cases h⟩,
      ⟨trivial, Int.le_refl _, by intro f h; cases h⟩, ⟨trivial, Int.le_refl _, by intro f h; cases h⟩⟩
  have hinv : SInv c s := sinv_run hk (sinv_init (c := c) (file := file) hts) hrun
  -- name the intermediate systems
  obtain ⟨s1, hs1⟩ : ∃ x, x = Sys.next c { store := store, l := {}, file := file, clock := clock } (.own (.init shuf) now gen .none) := ⟨_, rfl⟩
  obtain ⟨s2, hs2⟩ : ∃ x, x = s1.next c (.own .joinTimer now gen .none) := ⟨_, rfl⟩
  obtain ⟨s3, hs3⟩ : ∃ x, x = s2.next c (.own .verify now gen .none) := ⟨_, rfl⟩
  obtain ⟨s4, hs4⟩ : ∃ x, x = s3.next c (.own (.changeState .ACTIVE) now gen .none) := ⟨_, rfl⟩
  have hse : s = s4 := by rw [hs4, hs3, hs2, hs1]; rfl
  have h1 : s1.l.started = true ∧ (s1.l.state = .PENDING ∨ s1.l.state = .ACTIVE) ∧ Present c s1.store := by
    rw [hs1]
    exact init_progress (l := ({} : Local)) (file := file) (shuf := shuf) (now := now) (gen := gen) hk hst
  have h2 := sys_later_progress hk s1 .joinTimer now gen h1.1 h1.2.2 (Or.inl rfl)
  rw [← hs2] at h2
  have h3 := sys_later_progress hk s2 .verify now gen h2.1 h2.2.1 (Or.inr (Or.inl rfl))
  rw [← hs3] at h3
  have h4 := sys_later_progress hk s3 (.changeState .ACTIVE) now gen h3.1 h3.2.1 (Or.inr (Or.inr rfl))
  rw [← hs4] at h4
  have hst2 : s2.l.state = .JOINING ∨ s2.l.state = .ACTIVE := by
    rcases h1.2.1 with hp | ha
    · exact (h2.2.2.1 rfl).1 hp
    · right
      have := (h2.2.2.1 rfl).2 (by rw [ha]; decide)
      rw [this]; exact ha
  have hst3 : s3.l.state = s2.l.state := h3.2.2.2.1 rfl
  have hfin : s4.l.state = .ACTIVE := h4.2.2.2.2 rfl (by rw [hst3]; exact hst2)
  rw [hse]
  refine ⟨hfin, ?_⟩
  obtain ⟨b, hb⟩ := Option.isSome_iff_exists.mp h4.2.1
  refine ⟨b, hb, ?_⟩
  have hag := (hse ▸ hinv).1 h4.1 b hb
  rcases hag.1 with h | ⟨_, h⟩
  · rw [h]; exact hfin
  · rw [hfin] at h; cases h

/-! ### restart of a BasicLifecycler -/

theorem blc_restart_reaches_active {c : Cfg} (hk : c.kind = .BLC) {store : Option Desc} {file : File} {clock now : Int} {gen : Gen} :
    let s := Sys.run c { store := store, l := {}, file := file, clock := clock } (restartBLC now gen)
    ∃ b, s.l.cur = some b ∧ b.state = .ACTIVE ∧ Desc.get? (s.store.getD []) c.id = some b ∧
      ∀ e, Desc.get? (store.getD []) c.id = some e → b.regTs = e.regTs := by
  intro s
  -- registration
  obtain ⟨s1, hs1⟩ : ∃ x, x = Sys.next c { store := store, l := {}, file := file, clock := clock } (.own (.init []) now gen .none) := ⟨_, rfl⟩
  have h1 : ∃ i1, s1.l.cur = some i1 ∧ s1.l.started = true ∧ Desc.get? (s1.store.getD []) c.id = some i1 ∧ i1.id = c.id ∧
      ∀ e, Desc.get? (store.getD []) c.id = some e → i1.regTs = e.regTs := by
    rw [hs1]
    simp only [Sys.next, step, hk, blcRegister, commit]
    simp only [reduceCtorEq, if_false]
    refine ⟨_, rfl, trivial, ?_, rfl, ?_⟩
    · simp only [Option.getD_some]; rw [get?_put]; simp
    · intro e he; simp [he]
  obtain ⟨i1, hc1, hst1, hg1, hid1, hreg1⟩ := h1
  -- a handler that goes through updateInstance with the entry present keeps the agreement cur = entry, regTs
  have hupd : ∀ (sx : Sys) (ev : Event) (ix : Inst), sx.l.cur = some ix → sx.l.started = true →
      Desc.get? (sx.store.getD []) c.id = some ix → ix.id = c.id →
      (ev = .verify ∨ ev = .onTokens ∨ ev = .changeState .ACTIVE) →
      ∃ iy, (sx.next c (.own ev now gen .none)).l.cur = some iy ∧ (sx.next c (.own ev now gen .none)).l.started = true ∧
        Desc.get? ((sx.next c (.own ev now gen .none)).store.getD []) c.id = some iy ∧ iy.id = c.id ∧ iy.regTs = ix.regTs ∧
        (ev = .changeState .ACTIVE → iy.state = .ACTIVE) := by
    intro sx ev ix hc hs hg hid hev
    rcases hev with rfl | rfl | rfl
    · -- verify: tokens agree, nothing written
      refine ⟨ix, ?_, ?_, ?_, hid, rfl, by simp⟩
      · simp [Sys.next, step, hk, hs, blcUpdateInstance, hg, updVerify, blcTokens, hc]
      · simp [Sys.next, step, hk, hs, blcUpdateInstance, hg, updVerify, blcTokens, hc]
      · simp [Sys.next, step, hk, hs, blcUpdateInstance, hg, updVerify, blcTokens, hc, commit]
    · refine ⟨ix, ?_, ?_, ?_, hid, rfl, by simp⟩
      · simp [Sys.next, step, hk, hs, hc]
      · simp [Sys.next, step, hk, hs]
      · simp [Sys.next, step, hk, hs, commit]; exact hg
    · by_cases hact : ix.state = .ACTIVE
      · refine ⟨ix, ?_, ?_, ?_, hid, rfl, fun _ => hact⟩
        · simp [Sys.next, step, hk, hs, blcUpdateInstance, hg, updState, hact]
        · simp [Sys.next, step, hk, hs, blcUpdateInstance, hg, updState, hact]
        · simp [Sys.next, step, hk, hs, blcUpdateInstance, hg, updState, hact, commit]
      · refine ⟨{ ix with state := .ACTIVE, ts := now }, ?_, ?_, ?_, hid, rfl, fun _ => rfl⟩
        · simp [Sys.next, step, hk, hs, blcUpdateInstance, hg, updState, hact]
        · simp [Sys.next, step, hk, hs, blcUpdateInstance, hg, updState, hact]
        · simp [Sys.next, step, hk, hs, blcUpdateInstance, hg, updState, hact, commit]
          rw [get?_put]; simp [hid]
  obtain ⟨i2, hc2, hst2, hg2, hid2, hr2, _⟩ := hupd s1 .verify i1 hc1 hst1 hg1 hid1 (Or.inl rfl)
  obtain ⟨i3, hc3, hst3, hg3, hid3, hr3, _⟩ := hupd _ .onTokens i2 hc2 hst2 hg2 hid2 (Or.inr (Or.inl rfl))
  obtain ⟨i4, hc4, _, hg4, _, hr4, ha4⟩ := hupd _ (.changeState .ACTIVE) i3 hc3 hst3 hg3 hid3 (Or.inr (Or.inr rfl))
  have hse : s = ((((Sys.next c s1 (.own .verify now gen .none)).next c (.own .onTokens now gen .none))).next c (.own (.changeState .ACTIVE) now gen .none)) := by
    rw [hs1]; rfl
  rw [hse]
  exact ⟨i4, hc4, ha4 rfl, hg4, fun e he => by rw [hr4, hr3, hr2]; exact hreg1 e he⟩

/-! ### waitBeforeJoining -/

theorem waitAttempts_outage (reads : Nat → Read) : ∀ (k budget start : Nat), k < budget →
    (∀ j, j < k → reads (start + j) ≠ .ok) → reads (start + k) = .ok → waitAttempts budget reads start = k + 1 := by
  intro k
  induction k with
  | zero =>
    intro budget start hb _ hok
    cases budget with
    | zero => omega
    | succ b => have hok' : reads start = .ok := by simpa using hok
                simp [waitAttempts, hok']
  | succ k ih =>
    intro budget start hb hfail hok
    cases budget with
    | zero => omega
    | succ b =>
      have h0 : reads start ≠ .ok := by simpa using hfail 0 (by omega)
      simp only [waitAttempts, h0, if_false]
      have := ih b (start + 1) (by omega) (fun j hj => by have := hfail (j + 1) (by omega); simpa [Nat.add_assoc, Nat.add_comm 1 j] using this)
        (by simpa [Nat.add_assoc, Nat.add_comm 1 k] using hok)
      omega

/-! ### audit follow-up -/

/-- a state change or read-only toggle that finds the own entry missing re-inserts it through `updateConsul`, i.e.
exactly like the heartbeat: remembered tokens, fresh registration time -/
theorem lc_update_reregisters {c : Cfg} {l : Local} {file : File} {din : Option Desc} {ev : Event} {now : Int} {gen : Gen}
    (hk : c.kind = .LC) (hs : l.started = true) (habs : Desc.get? (din.getD []) c.id = none)
    (hev : (∃ s, ev = .changeState s ∧ allowed l.state s = true) ∨ (∃ r, ev = .changeRO r ∧ l.ro ≠ r)) :
    ∃ b, (step c l file din ev now gen .none).out = .write (put (din.getD []) b) ∧ b.id = c.id ∧ b.tokens = l.tokens ∧
      b.regTs = now ∧ b.ts = now ∧ (step c l file din ev now gen .none).l.regTs = now := by
  rcases hev with ⟨s, rfl, hal⟩ | ⟨r, rfl, hne⟩
  · simp only [step, hk, hs, Bool.not_true, Bool.false_eq_true, if_false, lcChangeState, hal, if_true, lcUpdate, reduceCtorEq, habs]
    refine ⟨_, rfl, ?_, ?_, ?_, ?_, ?_⟩ <;> first | rfl | trivial
  · simp only [step, hk, hs, Bool.not_true, Bool.false_eq_true, if_false, lcChangeRO, hne, lcUpdate, reduceCtorEq, habs]
    refine ⟨_, rfl, ?_, ?_, ?_, ?_, ?_⟩ <;> first | rfl | trivial

/-- BasicLifecycler: EVERY handler that goes through `updateInstance` (heartbeat, verifyTokens, ChangeState,
ChangeReadOnlyState, the stopping delegate) and finds the entry missing re-inserts it registered now -/
theorem blc_any_reregisters_fresh {c : Cfg} {l : Local} {file : File} {din : Option Desc} {ev : Event} {now : Int} {gen : Gen}
    {d' : Desc} {b : Inst} (hk : c.kind = .BLC) (hs : l.started = true) (habs : Desc.get? (din.getD []) c.id = none)
    (hev : ev = .heartbeat ∨ ev = .verify ∨ (∃ s, ev = .changeState s) ∨ (∃ r, ev = .changeRO r) ∨ ev = .stopDelegate)
    (h : (step c l file din ev now gen .none).out = .write d') (hb : Desc.get? d' c.id = some b) :
    b.regTs = now := by
  have key : ∀ u : Desc → Inst → Upd, KeepsId u → (∀ d i, (u d i).inst.regTs = i.regTs) →
      (blcUpdateInstance c l file din now .none u).1.out = .write d' → b.regTs = now := by
    intro u hu hreg hout
    simp only [blcUpdateInstance, reduceCtorEq, if_false, habs, Option.isSome_none, Bool.false_and, Bool.false_eq_true,
      Option.getD_none, CasOut.write.injEq] at hout
    subst hout
    rw [get?_put] at hb
    have hid : (u (put (din.getD []) (blcReinsert c l now)) (blcReinsert c l now)).inst.id = c.id := hu _ _
    split at hb
    · simp [hid] at hb; subst hb; simp [hreg, blcReinsert]
    · simp [hid] at hb; subst hb; simp [hreg, blcReinsert]
  rcases hev with rfl | rfl | ⟨s, rfl⟩ | ⟨r, rfl⟩ | rfl <;>
    simp only [step, hk, hs, Bool.not_true, Bool.false_eq_true, if_false] at h
  · exact key _ (keepsId_hb c now) (fun _ _ => rfl) h
  · exact key _ (keepsId_verify c l gen) (by intro d i; unfold updVerify; split <;> rfl) h
  · exact key _ (keepsId_state s) (by intro d i; unfold updState; split <;> rfl) h
  · exact key _ (keepsId_ro r now) (by intro d i; unfold updRO; split <;> rfl) h
  · exact key _ (keepsId_state _) (by intro d i; unfold updState; split <;> rfl) h

/-- restart over an entry left PENDING or JOINING with a well-formed token list (strictly sorted, not longer than
configured): after `initRing` and the join timer the entry has exactly `numTokens` strictly sorted tokens, the old
ones among them, the new ones in nobody's list -/
theorem restart_join_tokens {c : Cfg} {file : File} {d : Desc} {e : Inst} {shuf : List Nat} {now : Int} {gen : Gen} (l : Local)
    (hk : c.kind = .LC) (he : Desc.get? d c.id = some e) (hst : e.state = .JOINING ∨ e.state = .PENDING)
    (hg : GenOK gen) (hsorted : e.tokens.Pairwise (· < ·)) (hle : e.tokens.length ≤ c.numTokens) :
    let r1 := step c l file (some d) (.init shuf) now gen .none
    let st1 := commit (some d) r1 .none
    let r2 := step c r1.l r1.file st1 .joinTimer now gen .none
    ∃ d' b, r2.out = .write d' ∧ Desc.get? d' c.id = some b ∧ b.regTs = e.regTs ∧
      b.tokens.length = c.numTokens ∧ b.tokens.Pairwise (· < ·) ∧ (∀ t ∈ e.tokens, t ∈ b.tokens) ∧ r2.l.tokens = b.tokens ∧
      (∀ t ∈ b.tokens, t ∈ e.tokens ∨ ∀ i ∈ st1.getD [], t ∉ i.tokens) := by
  intro r1 st1 r2
  have hnd : e.tokens.Nodup := hsorted.imp (fun h => by omega)
  -- after initRing: remembered PENDING, started, registration time of the entry, and the ring still holds e's tokens
  have h0 : r1.l.started = true ∧ r1.l.state = .PENDING ∧ r1.l.regTs = e.regTs ∧
      ∃ e1, Desc.get? (st1.getD []) c.id = some e1 ∧ e1.tokens = e.tokens := by
    rcases hst with hj | hp
    · have := init_died_joining (file := file) (shuf := shuf) (now := now) (gen := gen) (fault := .none) hk (by decide) he hj l
      simp only [] at this
      refine ⟨this.1, this.2.1, this.2.2.2.1, e, ?_, rfl⟩
      have hout := this.2.2.2.2.1
      simp only [st1, r1, commit_write hout, Option.getD_some, he]
    · have hj : e.state ≠ .JOINING := by rw [hp]; decide
      have hl : e.state ≠ .LEAVING := by rw [hp]; decide
      have := init_resumes_other (file := file) (shuf := shuf) (now := now) (gen := gen) (fault := .none) hk (by decide) he hj hl l
      simp only [] at this
      refine ⟨this.1, by rw [this.2.1, hp], this.2.2.2.1, ?_⟩
      cases ho : r1.out with
      | write d1 =>
        have hpres := write_has_own (c := c) (l := l) (file := file) (din := some d) (e := .init shuf) (now := now) (gen := gen) (by simp) ho
        obtain ⟨b1, hb1⟩ := Option.isSome_iff_exists.mp hpres
        refine ⟨b1, ?_, (this.2.2.2.2 d1 b1 ho hb1).2.1⟩
        simp only [st1, commit_write ho, Option.getD_some, hb1]
      | noCas | declined | cbErr =>
        refine ⟨e, ?_, rfl⟩
        simp only [st1, commit_nowrite (r := r1) (by intro x; rw [ho]; simp), Option.getD_some, he]
  obtain ⟨h1a, h1b, h1c, e1, he1, he1t⟩ := h0
  have htok : tokensOf (st1.getD []) c.id = e.tokens := by simp [tokensOf, he1, he1t]
  obtain ⟨d', b, h2, h3, _, _, h5, h6, h7, h8, h9⟩ :=
    lc_join_tokens (c := c) (l := r1.l) (file := r1.file) (din := st1) (now := now) (gen := gen) (fault := .none) hk h1a h1b hg
      (by decide) (by rw [htok]; exact hnd) (by rw [htok]; exact hle)
  refine ⟨d', b, h2, h3, ?_, h6, h7, by rw [← htok]; exact h8, h5, by rw [← htok]; exact h9⟩
  -- registration time: the join publishes the remembered one (the entry is there, so nothing is refreshed)
  have : r2.out = .write d' := h2
  simp only [r2, step, hk, h1a, Bool.not_true, Bool.false_eq_true, if_false, lcJoinTimer, h1b, if_true, lcAutoJoin, reduceCtorEq,
    he1, CasOut.write.injEq] at this
  subst this
  rw [get?_put] at h3
  simp [lcInst] at h3
  subst h3
  simp [lcInst, h1c]

/-- full Lifecycler: EVERY handler that writes while the own entry is missing from the ring re-inserts it with a fresh
registration time (and remembers it) -/
theorem lc_any_reregisters_fresh {c : Cfg} {l : Local} {file : File} {din : Option Desc} {ev : Event} {now : Int} {gen : Gen}
    {d' : Desc} (hk : c.kind = .LC) (hs : l.started = true) (habs : Desc.get? (din.getD []) c.id = none)
    (hev : ev = .heartbeat ∨ ev = .verify ∨ ev = .joinTimer ∨ (∃ s, ev = .changeState s) ∨ (∃ r, ev = .changeRO r) ∨
      ∃ frm, ev = .claim frm ∧ frm ≠ c.id)
    (h : (step c l file din ev now gen .none).out = .write d') :
    ∃ b, Desc.get? d' c.id = some b ∧ b.regTs = now ∧ b.addr = c.addr ∧ b.zone = c.zone ∧
      (step c l file din ev now gen .none).l.regTs = now ∧
      (ev = .heartbeat ∨ ev = .verify ∨ (∃ r, ev = .changeRO r) → b.tokens = l.tokens ∧ b.state = l.state) ∧
      ((∃ frm, ev = .claim frm) → b.state = l.state) := by
  have hput : ∀ (d : Desc) (i : Inst), i.id = c.id → Desc.get? (put d i) c.id = some i := by
    intro d i hi; rw [← hi]; exact get?_put_self d i
  rcases hev with rfl | rfl | rfl | ⟨s, rfl⟩ | ⟨r, rfl⟩ | ⟨frm, rfl, hfrm⟩
  · have hl : (step c l file din .heartbeat now gen .none).l.regTs = now := by simp [step, hk, hs, lcUpdate, habs]
    simp only [step, hk, hs, Bool.not_true, Bool.false_eq_true, if_false, lcUpdate, reduceCtorEq, habs, CasOut.write.injEq] at h
    subst h
    exact ⟨_, hput _ _ rfl, rfl, rfl, rfl, hl, fun _ => ⟨rfl, rfl⟩, fun ⟨_, h⟩ => by cases h⟩
  · have hl : (step c l file din .verify now gen .none).l.regTs = now := by simp [step, hk, hs, lcVerify, habs]
    simp only [step, hk, hs, Bool.not_true, Bool.false_eq_true, if_false, lcVerify, reduceCtorEq, habs, CasOut.write.injEq] at h
    subst h
    exact ⟨_, hput _ _ rfl, rfl, rfl, rfl, hl, fun _ => ⟨rfl, rfl⟩, fun ⟨_, h⟩ => by cases h⟩
  · by_cases hp : l.state = .PENDING
    · have hl : (step c l file din .joinTimer now gen .none).l.regTs = now := by simp [step, hk, hs, lcJoinTimer, hp, lcAutoJoin, habs]
      simp only [step, hk, hs, Bool.not_true, Bool.false_eq_true, if_false, lcJoinTimer, hp, if_true, lcAutoJoin, reduceCtorEq, habs,
        CasOut.write.injEq] at h
      subst h
      refine ⟨_, hput _ _ rfl, rfl, rfl, rfl, hl, ?_, fun ⟨_, h⟩ => by cases h⟩
      intro h; rcases h with h | h | ⟨_, h⟩ <;> cases h
    · simp [step, hk, hs, lcJoinTimer, hp] at h
  · by_cases hal : allowed l.state s = true
    · have hl : (step c l file din (.changeState s) now gen .none).l.regTs = now := by simp [step, hk, hs, lcChangeState, hal, lcUpdate, habs]
      simp only [step, hk, hs, Bool.not_true, Bool.false_eq_true, if_false, lcChangeState, hal, if_true, lcUpdate, reduceCtorEq, habs,
        CasOut.write.injEq] at h
      subst h
      refine ⟨_, hput _ _ rfl, rfl, rfl, rfl, hl, ?_, fun ⟨_, h⟩ => by cases h⟩
      intro h; rcases h with h | h | ⟨_, h⟩ <;> cases h
    · simp [step, hk, hs, lcChangeState, hal] at h
  · by_cases hne : l.ro = r
    · simp [step, hk, hs, lcChangeRO, hne] at h
    · have hl : (step c l file din (.changeRO r) now gen .none).l.regTs = now := by simp [step, hk, hs, lcChangeRO, hne, lcUpdate, habs]
      simp only [step, hk, hs, Bool.not_true, Bool.false_eq_true, if_false, lcChangeRO, hne, lcUpdate, reduceCtorEq, habs,
        CasOut.write.injEq] at h
      subst h
      exact ⟨_, hput _ _ rfl, rfl, rfl, rfl, hl, fun _ => ⟨rfl, rfl⟩, fun ⟨_, h⟩ => by cases h⟩
  · cases din with
    | none => simp [step, hk, hs, lcClaim] at h
    | some d =>
      simp only [Option.getD_some] at habs
      have hl : (step c l file (some d) (.claim frm) now gen .none).l.regTs = now := by simp [step, hk, hs, lcClaim, habs]
      simp only [step, hk, hs, Bool.not_true, Bool.false_eq_true, if_false] at h
      rw [lcClaim_out (by decide)] at h
      simp only [CasOut.write.injEq] at h
      subst h
      -- the base descriptor holds the re-inserted own entry; claiming from somebody else keeps everything but tokens and heartbeat
      have hbase : Desc.get? (claimBase c l d now) c.id = some (lcInst c { l with regTs := now } l.tokens now) := by
        simp only [claimBase, habs]; exact hput _ _ rfl
      cases hf : Desc.get? (claimBase c l d now) frm with
      | none =>
        simp only [claimOn, hf, hbase, Option.getD_some]
        refine ⟨_, hput _ _ rfl, rfl, rfl, rfl, hl, ?_, fun _ => rfl⟩
        intro h; rcases h with h | h | ⟨_, h⟩ <;> cases h
      | some f =>
        have hown : Desc.get? (put (claimBase c l d now) { f with tokens := [] }) c.id =
            some (lcInst c { l with regTs := now } l.tokens now) := by
          rw [get?_put_other _ _ _ (by simpa [get?_some_id hf] using hfrm.symm)]; exact hbase
        simp only [claimOn, hf, hown, Option.getD_some]
        refine ⟨_, hput _ _ rfl, rfl, rfl, rfl, hl, ?_, fun _ => rfl⟩
        intro h; rcases h with h | h | ⟨_, h⟩ <;> cases h

end PfC09
