import Proofs.C03Laws
/-! Proofs for C05: conflict resolution picks the documented winner independently of iteration
order, and every merge (gossip or local CAS, arbitrary incoming descriptor) preserves the
well-formedness invariant "one owner per token, sorted duplicate-free token lists". -/
namespace PfC05
open Ring C03 PfC03

/-! ## the winner order: (is-leaving, id) lexicographic -/

def lb (i : Inst) : Nat := if i.state = .LEAVING then 1 else 0

/-- `a` is at least as good a claimant as `b` -/
def keyLe (a b : Inst) : Prop := lb a < lb b ∨ (lb a = lb b ∧ a.id ≤ b.id)

instance (a b : Inst) : Decidable (keyLe a b) := by unfold keyLe; exact inferInstance

theorem keyLe_refl (a : Inst) : keyLe a a := Or.inr ⟨rfl, String.le_refl _⟩

theorem keyLe_total (a b : Inst) : keyLe a b ∨ keyLe b a := by
  unfold keyLe
  rcases Nat.lt_trichotomy (lb a) (lb b) with h | h | h
  · exact Or.inl (Or.inl h)
  · rcases String.le_total a.id b.id with h' | h'
    · exact Or.inl (Or.inr ⟨h, h'⟩)
    · exact Or.inr (Or.inr ⟨h.symm, h'⟩)
  · exact Or.inr (Or.inl h)

theorem keyLe_trans {a b c : Inst} (h1 : keyLe a b) (h2 : keyLe b c) : keyLe a c := by
  unfold keyLe at *
  rcases h1 with h1 | ⟨h1, h1'⟩ <;> rcases h2 with h2 | ⟨h2, h2'⟩
  · exact Or.inl (by omega)
  · exact Or.inl (by omega)
  · exact Or.inl (by omega)
  · exact Or.inr ⟨by omega, String.le_trans h1' h2'⟩

theorem keyLe_antisymm {a b : Inst} (h1 : keyLe a b) (h2 : keyLe b a) : a.id = b.id := by
  unfold keyLe at *
  rcases h1 with h1 | ⟨h1, h1'⟩ <;> rcases h2 with h2 | ⟨h2, h2'⟩
  · omega
  · omega
  · omega
  · exact String.le_antisymm h1' h2'

/-- the pairwise rule of `resolveConflicts` is "newcomer ≤ previous" in that order -/
theorem newcomerWins_iff (ing prev : Inst) : newcomerWins ing prev = true ↔ keyLe ing prev := by
  unfold newcomerWins keyLe lb
  by_cases h1 : ing.state = .LEAVING <;> by_cases h2 : prev.state = .LEAVING <;> simp [h1, h2]
  all_goals
    by_cases h3 : ing.id < prev.id
    · simp [h3]; exact String.not_lt.mp (String.lt_asymm h3)
    · by_cases h4 : prev.id < ing.id
      · simp [h3, h4]
      · simp [h3, h4]

/-! ## the winner scan -/

def claims (tok : Nat) (i : Inst) : Prop := i.state ≠ .LEFT ∧ i.tokens.contains tok = true

instance (tok : Nat) (i : Inst) : Decidable (claims tok i) := by unfold claims; exact inferInstance

theorem winner_cons (tok : Nat) (i : Inst) (rest : Desc) (w : Option Inst) :
    winner tok (i :: rest) w =
      if claims tok i then winner tok rest (some (pickW i w)) else winner tok rest w := rfl

/-- the new candidate is the newcomer or the old candidate, and is ≤ both -/
theorem pickW_spec (i : Inst) (w0 : Option Inst) :
    (pickW i w0 = i ∨ w0 = some (pickW i w0)) ∧ keyLe (pickW i w0) i ∧ (∀ p, w0 = some p → keyLe (pickW i w0) p) := by
  cases w0 with
  | none => exact ⟨Or.inl rfl, keyLe_refl _, fun p hp => by simp at hp⟩
  | some p =>
    simp only [pickW]
    by_cases hw : newcomerWins i p = true
    · rw [if_pos hw]
      exact ⟨Or.inl rfl, keyLe_refl _, fun q hq => by injection hq with hq; subst hq; exact (newcomerWins_iff _ _).1 hw⟩
    · rw [if_neg hw]
      have hnot : ¬ keyLe i p := fun h => hw ((newcomerWins_iff _ _).2 h)
      have hci : keyLe p i := (keyLe_total p i).resolve_right hnot
      exact ⟨Or.inr rfl, hci, fun q hq => by injection hq with hq; subst hq; exact keyLe_refl _⟩

/-- what the scan returns: a claimant (or the initial candidate) that is ≤ every claimant seen
and ≤ the initial candidate; `none` only if there was nothing at all. -/
theorem winner_spec (tok : Nat) (d : Desc) (w0 : Option Inst) :
    (winner tok d w0 = none ↔ (w0 = none ∧ ∀ i ∈ d, ¬ claims tok i)) ∧
    (∀ x, winner tok d w0 = some x →
        (w0 = some x ∨ (x ∈ d ∧ claims tok x)) ∧
        (∀ p, w0 = some p → keyLe x p) ∧
        (∀ i ∈ d, claims tok i → keyLe x i)) := by
  induction d generalizing w0 with
  | nil =>
    constructor
    · simp [winner]
    · intro x hx
      simp only [winner] at hx
      subst hx
      exact ⟨Or.inl rfl, fun p hp => by injection hp with hp; subst hp; exact keyLe_refl _, fun i hi => by simp at hi⟩
  | cons i rest ih =>
    rw [winner_cons]
    by_cases hc : claims tok i
    · rw [if_pos hc]
      obtain ⟨ihn, ihs⟩ := ih (some (pickW i w0))
      obtain ⟨hc1, hc2, hc3⟩ := pickW_spec i w0
      constructor
      · constructor
        · intro h; have := ihn.1 h; simp at this
        · rintro ⟨_, h⟩; exact absurd hc (h i (by simp))
      · intro x hx
        obtain ⟨h1, h2, h3⟩ := ihs x hx
        have hxc : keyLe x (pickW i w0) := h2 _ rfl
        refine ⟨?_, ?_, ?_⟩
        · rcases h1 with h1 | ⟨h1, h1'⟩
          · injection h1 with h1
            rcases hc1 with hc1 | hc1
            · right; rw [← h1, hc1]; exact ⟨by simp, hc⟩
            · left; rw [hc1, h1]
          · right; exact ⟨List.mem_cons_of_mem _ h1, h1'⟩
        · intro p hp; exact keyLe_trans hxc (hc3 p hp)
        · intro j hj hjc
          rcases List.mem_cons.1 hj with rfl | hj
          · exact keyLe_trans hxc hc2
          · exact h3 j hj hjc
    · rw [if_neg hc]
      obtain ⟨ihn, ihs⟩ := ih w0
      constructor
      · rw [ihn]
        constructor
        · rintro ⟨h1, h2⟩; refine ⟨h1, ?_⟩
          intro j hj; rcases List.mem_cons.1 hj with rfl | hj
          · exact hc
          · exact h2 j hj
        · rintro ⟨h1, h2⟩; exact ⟨h1, fun j hj => h2 j (List.mem_cons_of_mem _ hj)⟩
      · intro x hx
        obtain ⟨h1, h2, h3⟩ := ihs x hx
        refine ⟨?_, h2, ?_⟩
        · rcases h1 with h1 | ⟨h1, h1'⟩
          · exact Or.inl h1
          · exact Or.inr ⟨List.mem_cons_of_mem _ h1, h1'⟩
        · intro j hj hjc
          rcases List.mem_cons.1 hj with rfl | hj
          · exact absurd hjc hc
          · exact h3 j hj hjc

/-- the winner of a token is a claimant that is minimal among all claimants -/
theorem winner_min (tok : Nat) (d : Desc) (x : Inst) (h : winner tok d none = some x) :
    x ∈ d ∧ claims tok x ∧ ∀ i ∈ d, claims tok i → keyLe x i := by
  obtain ⟨h1, _, h3⟩ := (winner_spec tok d none).2 x h
  rcases h1 with h1 | h1
  · simp at h1
  · exact ⟨h1.1, h1.2, h3⟩

theorem winner_some_of_claim (tok : Nat) (d : Desc) (i : Inst) (hi : i ∈ d) (hc : claims tok i) :
    ∃ x, winner tok d none = some x := by
  cases h : winner tok d none with
  | some x => exact ⟨x, rfl⟩
  | none => exact absurd hc (((winner_spec tok d none).1.1 h).2 i hi)

theorem mem_same_id {d : Desc} (hn : (ids d).Nodup) {x y : Inst} (hx : x ∈ d) (hy : y ∈ d) (h : x.id = y.id) : x = y := by
  have h1 := get?_of_mem_nodup hn hx
  have h2 := get?_of_mem_nodup hn hy
  rw [h] at h1; rw [h1] at h2; injection h2

/-- **same winner on every replica holding the same entries**: the scan order (Go's map
iteration order) does not matter. -/
theorem winner_perm (tok : Nat) {d d' : Desc} (hp : d.Perm d') (hn : (ids d).Nodup) :
    winner tok d none = winner tok d' none := by
  cases h : winner tok d none with
  | none =>
    have hno := ((winner_spec tok d none).1.1 h).2
    symm
    exact (winner_spec tok d' none).1.2 ⟨rfl, fun i hi => hno i (hp.mem_iff.2 hi)⟩
  | some x =>
    obtain ⟨hx, hxc, hxm⟩ := winner_min tok d x h
    obtain ⟨y, hy⟩ := winner_some_of_claim tok d' x (hp.mem_iff.1 hx) hxc
    obtain ⟨hyd, hyc, hym⟩ := winner_min tok d' y hy
    have hyd' : y ∈ d := hp.mem_iff.2 hyd
    have hid : x.id = y.id := keyLe_antisymm (hxm y hyd' hyc) (hym x (hp.mem_iff.1 hx) hxc)
    rw [hy, mem_same_id hn hx hyd' hid]

end PfC05
