import Model.C06
import Proofs.C03Thm
/-! # C06 / C04 — lemmas about the node model instantiated at ring descriptors (`V = Desc`)

Part 1: the containment order on descriptors, stores, and `mergeValueForKey` on the gossip path. -/
namespace PfC06
open Ring C03 C06 PfC03

variable {U : String → Int → Bool → Inst}

theorem invalidates_iff (nk : String) (nc : List String) (nv : Nat) (ok : String) (oc : List String) (ov : Nat) :
    invalidates nk nc nv ok oc ov = true ↔ nk = ok ∧ (∀ x ∈ oc, x ∈ nc) ∧ nv ≥ ov := by
  simp [invalidates, List.all_eq_true, and_assoc]

/-! ## containment order and content equality of descriptors -/

/-- `a` is contained in `b`: for every instance `b` holds an entry at least as new (timestamp first,
tombstone breaks ties) -/
def Le (a b : Desc) : Prop := ∀ k, rkO (get? a k) ≤ rkO (get? b k)

/-- same content (a Go map has no order) -/
def Eqv (a b : Desc) : Prop := ∀ k, get? a k = get? b k

theorem Le.refl (a : Desc) : Le a a := fun _ => Int.le_refl _
theorem Le.trans {a b c : Desc} (h1 : Le a b) (h2 : Le b c) : Le a c := fun k => Int.le_trans (h1 k) (h2 k)
theorem Eqv.refl (a : Desc) : Eqv a a := fun _ => rfl
theorem Eqv.symm {a b : Desc} (h : Eqv a b) : Eqv b a := fun k => (h k).symm
theorem Eqv.trans {a b c : Desc} (h1 : Eqv a b) (h2 : Eqv b c) : Eqv a c := fun k => (h1 k).trans (h2 k)
theorem Eqv.le {a b : Desc} (h : Eqv a b) : Le a b := fun k => by rw [h k]; exact Int.le_refl _
theorem Le.of_eqv_left {a a' b : Desc} (h : Eqv a a') (hl : Le a b) : Le a' b := fun k => by rw [← h k]; exact hl k
theorem Le.of_eqv_right {a b b' : Desc} (h : Eqv b b') (hl : Le a b) : Le a b' := fun k => by rw [← h k]; exact hl k

theorem drawn_nil : Drawn U [] := ⟨by simp [ids], by simp, by simp⟩

theorem get?_nil (k : String) : get? ([] : Desc) k = none := rfl

theorem le_nil (hd : Drawn U a) : Le [] a := fun k => by rw [get?_nil, rkO_none]; exact rkO_nonneg hd k

theorem merge_now_irrel (now : Int) (a b : Desc) : C03.merge false now a b = C03.merge false 0 a b := by
  unfold C03.merge mergeAcc; simp

theorem le_merge_left (hU : Univ U) {a b : Desc} (ha : Drawn U a) (hb : Drawn U b) : Le a (mergeState a b) := by
  intro k; rw [view_merge hU ha hb, rkO_maxOpt]; omega

theorem le_merge_right (hU : Univ U) {a b : Desc} (ha : Drawn U a) (hb : Drawn U b) : Le b (mergeState a b) := by
  intro k; rw [view_merge hU ha hb, rkO_maxOpt]; omega

theorem merge_lub (hU : Univ U) {a b c : Desc} (ha : Drawn U a) (hb : Drawn U b) (h1 : Le a c) (h2 : Le b c) :
    Le (mergeState a b) c := by
  intro k; rw [view_merge hU ha hb, rkO_maxOpt]; have := h1 k; have := h2 k; omega

/-- coherence makes the order antisymmetric on content -/
theorem eqv_of_le_le {a b : Desc} (ha : Drawn U a) (hb : Drawn U b) (h1 : Le a b) (h2 : Le b a) : Eqv a b :=
  fun k => coherent_opt ha hb k (by have := h1 k; have := h2 k; omega)

theorem merge_absorb (hU : Univ U) {a b : Desc} (ha : Drawn U a) (hb : Drawn U b) (h : Le b a) :
    Eqv (mergeState a b) a :=
  eqv_of_le_le (mergeState_drawn hU ha hb) ha (merge_lub hU ha hb (Le.refl a) h) (le_merge_left hU ha hb)

theorem merge_congr (hU : Univ U) {a a' b b' : Desc} (ha : Drawn U a) (ha' : Drawn U a') (hb : Drawn U b) (hb' : Drawn U b')
    (h1 : Eqv a a') (h2 : Eqv b b') : Eqv (mergeState a b) (mergeState a' b') := by
  intro k; rw [view_merge hU ha hb, view_merge hU ha' hb', h1 k, h2 k]

/-! ## stores -/

theorem getE_setE {V : Type} (st : Store V) (key : String) (e : Entry V) (k : String) :
    getE (setE st key e) k = if k = key then some e else getE st k := by
  induction st with
  | nil =>
    simp only [setE, getE]
    by_cases h : k = key
    · rw [if_pos h, if_pos h.symm]
    · rw [if_neg h, if_neg (fun e => h e.symm)]
  | cons x xs ih =>
    obtain ⟨k', x'⟩ := x
    by_cases hk : k' = key
    · by_cases h : k = key
      · simp [setE, getE, hk, h]
      · have h' : ¬ key = k := fun e => h e.symm
        simp [setE, getE, hk, h, h']
    · by_cases h2 : k' = k
      · have h3 : ¬ k = key := fun e => hk (h2.trans e)
        simp [setE, getE, hk, h2, h3]
      · simp [setE, getE, hk, h2, ih]

/-- the value stored under a key; an absent key reads as the empty descriptor -/
def sval (st : Store Desc) (key : String) : Desc :=
  match getE st key with
  | none => []
  | some e => e.val

/-- a value of the coherent universe whose timestamps do not exceed the clock -/
def GoodVal (U : String → Int → Bool → Inst) (clock : Int) (d : Desc) : Prop := Drawn U d ∧ ∀ x ∈ d, x.ts ≤ clock

/-- every stored value is good and no key is marked deleted -/
def GoodStore (U : String → Int → Bool → Inst) (clock : Int) (st : Store Desc) : Prop :=
  ∀ k e, getE st k = some e → GoodVal U clock e.val ∧ e.deleted = false

theorem goodVal_nil (clock : Int) : GoodVal U clock [] := ⟨drawn_nil, by simp⟩

theorem GoodStore.sval {clock : Int} {st : Store Desc} (h : GoodStore U clock st) (key : String) :
    GoodVal U clock (sval st key) := by
  unfold PfC06.sval
  cases hg : getE st key with
  | none => exact goodVal_nil clock
  | some e => exact (h key e hg).1

theorem GoodVal.mono {c c' : Int} {d : Desc} (h : GoodVal U c d) (hc : c ≤ c') : GoodVal U c' d :=
  ⟨h.1, fun x hx => Int.le_trans (h.2 x hx) hc⟩

theorem GoodStore.mono {c c' : Int} {st : Store Desc} (h : GoodStore U c st) (hc : c ≤ c') : GoodStore U c' st :=
  fun k e hg => ⟨(h k e hg).1.mono hc, (h k e hg).2⟩

theorem goodVal_merge (hU : Univ U) {clock : Int} {a b : Desc} (ha : GoodVal U clock a) (hb : GoodVal U clock b) :
    GoodVal U clock (mergeState a b) := by
  refine ⟨mergeState_drawn hU ha.1 hb.1, ?_⟩
  intro x hx
  rw [mergeState_eq_loop hU ha.1 hb.1] at hx
  unfold loop at hx
  rcases foldl_mem b _ x hx with h | h
  · exact ha.2 x h
  · exact hb.2 x h

theorem names_desc (d : Desc) : MergeVal.names d = ids d := rfl

theorem ids_isEmpty (d : Desc) : (ids d).isEmpty = true ↔ d = [] := by
  cases d <;> simp [ids]

end PfC06
