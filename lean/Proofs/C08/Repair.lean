import Proofs.C08.Loop
import Proofs.C05Wf
/-!
C08 ∘ C05: `verifyTokens` (Model/C08 `lcVerify`, `updVerify`) run on a ring that satisfies the C05 invariant
(`C03.wf`: unique ids, strictly sorted lists, LEFT entries empty, one holder per token) and in which the lifecycler
lost some of its tokens to a clash publishes a ring that satisfies the invariant again, with the own entry back at
exactly `NumTokens` tokens none of which is in any other entry's list.
-/
namespace PfC08
open Ring C08

theorem sortedStrict_of_pairwise : ∀ {l : List Nat}, l.Pairwise (· < ·) → C03.sortedStrict l = true
  | [], _ => rfl
  | [_], _ => rfl
  | a :: b :: r, h => by
    have h1 := List.pairwise_cons.mp h
    simp only [C03.sortedStrict, Bool.and_eq_true, decide_eq_true_eq]
    exact ⟨h1.1 b (List.mem_cons_self ..), sortedStrict_of_pairwise h1.2⟩

theorem allTokens_filter_sublist (p : Inst → Bool) : ∀ d : Desc, (C03.allTokens (d.filter p)).Sublist (C03.allTokens d)
  | [] => List.Sublist.refl _
  | x :: xs => by
    rw [List.filter_cons, PfC05.allTokens_cons]
    split
    · rw [PfC05.allTokens_cons]
      exact List.Sublist.append (List.Sublist.refl _) (allTokens_filter_sublist p xs)
    · exact (allTokens_filter_sublist p xs).trans (List.sublist_append_right _ _)

theorem mem_c03_allTokens {t : Nat} {d : Desc} : t ∈ C03.allTokens d ↔ ∃ i ∈ d, t ∈ i.tokens := by
  unfold C03.allTokens; exact List.mem_flatMap

/-- replacing the own entry by one that is itself in order and whose tokens nobody ELSE holds keeps the C05 invariant -/
theorem c05wf_put {d : Desc} (hw : PfC05.WF d) (b : Inst) (hb : PfC05.EntryOK b)
    (hfree : ∀ t ∈ b.tokens, ∀ i ∈ d, i.id ≠ b.id → t ∉ i.tokens) : PfC05.WF (put d b) := by
  unfold put erase
  refine ⟨?_, ?_, ?_⟩
  · show (List.map (·.id) (b :: d.filter _)).Nodup
    rw [List.map_cons, List.nodup_cons]
    refine ⟨?_, List.Nodup.sublist (List.Sublist.map _ List.filter_sublist) hw.nodup⟩
    intro hm
    obtain ⟨x, hx, hxe⟩ := List.mem_map.mp hm
    have := (List.mem_filter.mp hx).2
    simp [hxe] at this
  · intro i hi
    rcases List.mem_cons.mp hi with rfl | hi
    · exact hb
    · exact hw.entries i (List.mem_filter.mp hi).1
  · rw [PfC05.allTokens_cons, List.nodup_append]
    refine ⟨PfC03.sortedStrict_nodup hb.1, List.Nodup.sublist (allTokens_filter_sublist _ d) hw.noconf, ?_⟩
    intro t ht t' ht' he
    subst he
    obtain ⟨i, hi, hti⟩ := mem_c03_allTokens.mp ht'
    obtain ⟨hid, hp⟩ := List.mem_filter.mp hi
    have hne : i.id ≠ b.id := by simpa using hp
    exact hfree t ht i hid hne hti

theorem wf_of_c05wf {d : Desc} (hw : PfC05.WF d) : WF d := by
  unfold WF
  have := hw.nodup
  unfold C03.ids at this
  exact List.pairwise_map.mp this

/-- in a ring with one holder per token, a token of the entry `e0 = d[id]` is in no entry with another id -/
theorem own_token_not_elsewhere {d : Desc} (hw : PfC05.WF d) {id : String} {e0 : Inst} (h0 : Desc.get? d id = some e0)
    {t : Nat} (ht : t ∈ e0.tokens) {i : Inst} (hi : i ∈ d) (hne : i.id ≠ id) : t ∉ i.tokens := by
  intro hti
  have := PfC05.wf_one_owner hw t e0 i (get?_some_mem h0) hi ht hti
  exact hne (this ▸ get?_some_id h0)

/-- full Lifecycler -/
theorem lc_verify_repairs {c : Cfg} {l : Local} {file : File} {d : Desc} {now : Int} {gen : Gen}
    (hk : c.kind = .LC) (hs : l.started = true) (hg : GenOK gen) (hw : PfC05.WF d) {e0 : Inst}
    (hpres : Desc.get? d c.id = some e0) (hne : sortNat e0.tokens ≠ sortNat l.tokens)
    (hle : e0.tokens.length ≤ c.numTokens) (hnl : l.state ≠ .LEFT) :
    ∃ d' b, (step c l file (some d) .verify now gen .none).out = .write d' ∧ Desc.get? d' c.id = some b ∧
      b.tokens.length = c.numTokens ∧ (∀ t ∈ e0.tokens, t ∈ b.tokens) ∧
      (∀ i ∈ d', i.id ≠ c.id → ∀ t ∈ b.tokens, t ∉ i.tokens) ∧
      (∀ k, k ≠ c.id → Desc.get? d' k = Desc.get? d k) ∧
      (step c l file (some d) .verify now gen .none).l.tokens = b.tokens ∧
      PfC05.WF d' := by
  have htok : tokensOf d c.id = e0.tokens := by unfold tokensOf; rw [hpres]
  have hnd : (tokensOf d c.id).Nodup := by
    rw [htok]; exact PfC03.sortedStrict_nodup (hw.entries e0 (get?_some_mem hpres)).1
  have h := topup_ok hg (tokensOf_sub_all d c.id) hnd (by rw [htok]; exact hle)
  have hne' : sortNat (tokensOf d c.id) ≠ sortNat l.tokens := by rw [htok]; exact hne
  have hfree : ∀ t ∈ sortNat (tokensOf d c.id ++ gen ((c.numTokens : Int) - (tokensOf d c.id).length) (allTokens d)),
      ∀ i ∈ d, i.id ≠ c.id → t ∉ i.tokens := by
    intro t ht i hi hid
    rcases h.2.2.2 t ht with h1 | h1
    · rw [htok] at h1; exact own_token_not_elsewhere hw hpres h1 hi hid
    · exact fun hti => h1 (mem_allTokens.mpr ⟨i, hi, hti⟩)
  simp only [step, hk, hs, Bool.not_true, Bool.false_eq_true, if_false, lcVerify, reduceCtorEq, Option.getD_some, hpres, hne',
    decide_false]
  refine ⟨_, _, rfl, get?_put_self _ _, h.1, ?_, ?_, ?_, rfl, ?_⟩
  · intro t ht; exact h.2.2.1 t (htok ▸ ht)
  · intro i hi hid t ht
    rcases List.mem_cons.mp hi with rfl | hi
    · exact absurd rfl hid
    · exact hfree t ht i (mem_erase hi).1 hid
  · intro k hk'; exact get?_put_other _ _ _ hk'
  · apply c05wf_put hw
    · exact ⟨sortedStrict_of_pairwise h.2.1, fun hl => absurd hl hnl⟩
    · intro t ht i hi hid; exact hfree t ht i hi hid

end PfC08
