import Proofs.C08
/-!
n lifecyclers sharing one store: every schedule of their handler runs projects, for each of them, to a run
of `Sys` (itself against an environment), because every handler of another lifecycler obeys the frame.
-/
namespace PfC08
open Ring C08

def proj (w : World) (nd : Node) : Sys := { store := w.store, l := nd.l, file := nd.file, clock := w.clock }

/-- distinct lifecyclers have distinct ids -/
def Distinct (w : World) : Prop :=
  ∀ (i j : Nat) (ndi ndj : Node), w.nodes[i]? = some ndi → w.nodes[j]? = some ndj → i ≠ j → ndi.cfg.id ≠ ndj.cfg.id

/-- a world action is valid when it is valid for the lifecycler that runs it; an external change of the store
must respect the frame of every lifecycler and keep the descriptor a map -/
def WActOK (w : World) (a : WAct) : Prop :=
  match w.nodes[a.idx]? with
  | none => True
  | some nd =>
    match a.act with
    | .env st now => w.clock ≤ now ∧ WF (st.getD []) ∧ ∀ m ∈ w.nodes, EnvOK m.cfg.id w.store st
    | act => ActOK nd.cfg (proj w nd) act

def WRunOK : World → List WAct → Prop
  | _, [] => True
  | w, a :: as => WActOK w a ∧ WRunOK (w.next a) as

def WInv (w : World) : Prop :=
  WF (w.store.getD []) ∧ Distinct w ∧ ∀ (i : Nat) (nd : Node), w.nodes[i]? = some nd → nd.cfg.kind = .LC → SInv nd.cfg (proj w nd)

theorem envOK_refl (id : String) (s : Option Desc) : EnvOK id s s := Or.inl rfl

/-- what the acting lifecycler does to the store is an environment step for everybody else, and the clock moves on -/
theorem acting_is_env {nd : Node} {w : World} {act : Act} (hwf : WF (w.store.getD []))
    (hA : match act with
      | .env st now => w.clock ≤ now ∧ WF (st.getD []) ∧ ∀ m ∈ w.nodes, EnvOK m.cfg.id w.store st
      | act => ActOK nd.cfg (proj w nd) act)
    (m : Node) (hm : m ∈ w.nodes) (hne : m.cfg.id ≠ nd.cfg.id) :
    w.clock ≤ (Sys.next nd.cfg (proj w nd) act).clock ∧ EnvOK m.cfg.id w.store (Sys.next nd.cfg (proj w nd) act).store ∧
    WF ((Sys.next nd.cfg (proj w nd) act).store.getD []) := by
  cases act with
  | own ev now gen fault =>
    obtain ⟨_, hclk, _⟩ := hA
    exact ⟨hclk, frame_envOK (din := w.store) hwf _ hne, step_wf (din := w.store) hwf⟩
  | env st now => exact ⟨hA.1, hA.2.2 m hm, hA.2.1⟩
  | crash => exact ⟨Int.le_refl _, envOK_refl _ w.store, hwf⟩
  | crashIn ev now gen ac =>
    obtain ⟨hclk, _⟩ := hA
    cases ac with
    | true => exact ⟨hclk, by simpa [Sys.next, proj] using frame_envOK (din := w.store) (fault := .none) hwf _ hne,
        by simpa [Sys.next, proj] using step_wf (din := w.store) (fault := .none) hwf⟩
    | false => exact ⟨hclk, by simpa [Sys.next, proj] using envOK_refl _ w.store, by simpa [Sys.next, proj] using hwf⟩

theorem mem_of_getElem? {α} {l : List α} {i : Nat} {x : α} (h : l[i]? = some x) : x ∈ l := by
  obtain ⟨hi, rfl⟩ := List.getElem?_eq_some_iff.mp h
  exact List.getElem_mem hi

/-- one step of the world: invariant kept, and every full lifecycler sees its published entry evolve correctly -/
theorem world_step {w : World} {a : WAct} (hI : WInv w) (hA : WActOK w a) :
    WInv (w.next a) ∧
    ∀ (i : Nat) (nd : Node), w.nodes[i]? = some nd → nd.cfg.kind = .LC → ∀ x y,
      Desc.get? (w.store.getD []) nd.cfg.id = some x → Desc.get? ((w.next a).store.getD []) nd.cfg.id = some y → PubOK x y := by
  obtain ⟨hwf, hdist, hsinv⟩ := hI
  unfold WActOK at hA
  unfold World.next
  cases hj : w.nodes[a.idx]? with
  | none =>
    simp only [hj] at hA ⊢
    refine ⟨⟨hwf, hdist, hsinv⟩, ?_⟩
    intro i nd _ _ x y hx hy
    rw [hx] at hy; cases hy
    exact ⟨edge_refl _, rfl, Int.le_refl _⟩
  | some ndj =>
    simp only [hj] at hA ⊢
    have hlen : a.idx < w.nodes.length := (List.getElem?_eq_some_iff.mp hj).1
    -- facts per node
    have hnode : ∀ (i : Nat) (nd : Node), w.nodes[i]? = some nd → nd.cfg.kind = .LC →
        SInv nd.cfg (if i = a.idx then Sys.next ndj.cfg (proj w ndj) a.act
                     else { store := (Sys.next ndj.cfg (proj w ndj) a.act).store, l := nd.l, file := nd.file,
                            clock := (Sys.next ndj.cfg (proj w ndj) a.act).clock }) ∧
        ∀ x y, Desc.get? (w.store.getD []) nd.cfg.id = some x →
          Desc.get? ((Sys.next ndj.cfg (proj w ndj) a.act).store.getD []) nd.cfg.id = some y → PubOK x y := by
      intro i nd hi hk
      by_cases hij : i = a.idx
      · subst hij
        rw [hj] at hi; cases hi
        simp only [if_true]
        have hAct : ActOK ndj.cfg (proj w ndj) a.act := by
          cases hact : a.act with
          | env st now => rw [hact] at hA; exact ⟨hA.1, hA.2.2 ndj (mem_of_getElem? hj)⟩
          | own ev now gen fault => rw [hact] at hA; exact hA
          | crash => trivial
          | crashIn ev now gen ac => rw [hact] at hA; exact hA
        exact sys_step_lc hk (hsinv _ _ hj hk) hAct
      · simp only [hij, if_false]
        have hne : nd.cfg.id ≠ ndj.cfg.id := hdist i a.idx nd ndj hi hj hij
        have henv := acting_is_env (nd := ndj) hwf hA nd (mem_of_getElem? hi) hne
        have hAct : ActOK nd.cfg (proj w nd) (.env (Sys.next ndj.cfg (proj w ndj) a.act).store (Sys.next ndj.cfg (proj w ndj) a.act).clock) :=
          ⟨henv.1, henv.2.1⟩
        exact sys_step_lc hk (hsinv _ _ hi hk) hAct
    have hwf' : WF ((Sys.next ndj.cfg (proj w ndj) a.act).store.getD []) := by
      cases hact : a.act with
      | own ev now gen fault => exact step_wf (din := w.store) hwf
      | env st now => rw [hact] at hA; exact hA.2.1
      | crash => exact hwf
      | crashIn ev now gen ac =>
        cases ac with
        | true => simpa [Sys.next, proj] using step_wf (din := w.store) (fault := .none) hwf
        | false => simpa [Sys.next, proj] using hwf
    refine ⟨⟨hwf', ?_, ?_⟩, fun i nd hi hk => (hnode i nd hi hk).2⟩
    · -- ids unchanged
      intro i k ndi ndk hi hk' hik
      simp only [List.getElem?_set] at hi hk'
      have hcfg : ∀ (t : Nat) (ndt : Node), (if a.idx = t then (if a.idx < w.nodes.length then
            some ({ ndj with l := (Sys.next ndj.cfg (proj w ndj) a.act).l, file := (Sys.next ndj.cfg (proj w ndj) a.act).file } : Node) else none)
            else w.nodes[t]?) = some ndt → ∃ nd0, w.nodes[t]? = some nd0 ∧ nd0.cfg = ndt.cfg := by
        intro t ndt h
        by_cases ht : a.idx = t
        · subst ht
          simp only [if_true, hlen] at h
          cases h
          exact ⟨ndj, hj, rfl⟩
        · simp only [ht, if_false] at h
          exact ⟨ndt, h, rfl⟩
      obtain ⟨n1, h1, e1⟩ := hcfg i ndi hi
      obtain ⟨n2, h2, e2⟩ := hcfg k ndk hk'
      rw [← e1, ← e2]
      exact hdist i k n1 n2 h1 h2 hik
    · intro i nd hi hk
      simp only [List.getElem?_set] at hi
      by_cases hij : a.idx = i
      · subst hij
        simp only [if_true, hlen] at hi
        cases hi
        have := (hnode a.idx ndj hj hk).1
        simpa [proj] using this
      · simp only [hij, if_false] at hi
        have := (hnode i nd hi hk).1
        have hij' : ¬ i = a.idx := fun e => hij e.symm
        simpa [proj, hij'] using this

theorem wrunOK_append {w : World} {xs ys : List WAct} :
    WRunOK w (xs ++ ys) ↔ WRunOK w xs ∧ WRunOK (w.run xs) ys := by
  induction xs generalizing w with
  | nil => simp [WRunOK, World.run]
  | cons a as ih =>
    simp only [List.cons_append, WRunOK, ih, World.run, List.foldl_cons]
    exact and_assoc.symm

theorem winv_run {w : World} {acts : List WAct} (hI : WInv w) (hr : WRunOK w acts) : WInv (w.run acts) := by
  induction acts generalizing w with
  | nil => exact hI
  | cons a as ih =>
    simp only [World.run, List.foldl_cons]
    exact ih (world_step hI hr.1).1 hr.2

/-- every schedule of n lifecyclers: each step treats the published entry of every full lifecycler correctly -/
theorem world_pub {w0 : World} (h0 : WInv w0) (acts : List WAct) (a : WAct) (hr : WRunOK w0 (acts ++ [a]))
    (i : Nat) (nd : Node) (hnd : (w0.run acts).nodes[i]? = some nd) (hk : nd.cfg.kind = .LC) (x y : Inst)
    (hx : Desc.get? ((w0.run acts).store.getD []) nd.cfg.id = some x)
    (hy : Desc.get? ((w0.run (acts ++ [a])).store.getD []) nd.cfg.id = some y) : PubOK x y := by
  have hr' := wrunOK_append.mp hr
  have hI := winv_run h0 hr'.1
  have : w0.run (acts ++ [a]) = (w0.run acts).next a := by simp [World.run]
  rw [this] at hy
  exact (world_step hI hr'.2.1).2 i nd hnd hk x y hx hy

/-- a world in which no process has run yet satisfies the invariant -/
theorem winv_init {w : World} (hwf : WF (w.store.getD [])) (hd : Distinct w)
    (hfresh : ∀ (i : Nat) (nd : Node), w.nodes[i]? = some nd → nd.l = {})
    (hts : ∀ (i : Nat) (nd : Node), w.nodes[i]? = some nd → ∀ e, Desc.get? (w.store.getD []) nd.cfg.id = some e → e.ts ≤ w.clock) :
    WInv w := by
  refine ⟨hwf, hd, fun i nd hi _ => ⟨?_, hts i nd hi⟩⟩
  intro hs
  have := hfresh i nd hi
  simp [proj, this] at hs

end PfC08
